/-
  Refine, part 11c — the search, continued: the alternatives of a call (`ta_succ`): a clause of the
  program, a clause without counterpart in the reference's program (`call/1`'s clause, the control
  clauses of bootstrap.pl), a clause whose head cannot unify, and the clause whose body starts with a
  cut the reference does not have (`_ -> _ ; Else :- !, Else.`).
-/
import PrologVerif.Proofs.RefineDfsCut
namespace PrologVerif.Refine
open PrologVerif PrologVerif.VM PrologVerif.DecompileCompile PrologVerif.Activation
  PrologVerif.RefineITree PrologVerif.RefineRobinson PrologVerif.VMScoped
  PrologVerif.Promise PrologVerif.DFSG PrologVerif.ForceDFSGConv

section
variable {fl : Bool} {mo : Option Nat} {tmpl : Term} {max : Nat} {prog : List Term} {F : Nat}

theorem Forall2.imp_mem2 {α β : Type} {R S : α → β → Prop} {as : List α} {bs : List β} (h : Forall2 R as bs)
    (hRS : ∀ a, ∀ b ∈ bs, R a b → S a b) : Forall2 S as bs := by
  induction h with
  | nil => exact .nil
  | cons hd _ ih => exact .cons (hRS _ _ (by simp) hd) (ih (fun a b hb => hRS a b (by simp [hb])))

theorem Forall2.comp {α β γ : Type} {R : α → β → Prop} {S : β → γ → Prop} {as : List α} {bs : List β}
    (h : Forall2 R as bs) : ∀ {cs : List γ}, Forall2 S bs cs → Forall2 (fun a c => ∃ b ∈ bs, R a b ∧ S b c) as cs := by
  induction h with
  | nil => intro cs h2; cases h2; exact .nil
  | cons hd _ ih =>
    intro cs h2
    cases h2 with
    | cons hd2 tl2 =>
      exact .cons ⟨_, by simp, hd, hd2⟩ (Forall2.imp (ih tl2) (fun a c ⟨b, hb, h1, h2⟩ => ⟨b, by simp [hb], h1, h2⟩))

/-- the goals of a clause body (cut parent `id`, level `d`) in front of the pending goals -/
theorem cutsOK_body {lv : Lv} {d id : Nat} {G1 G : List (Term × Nat)} (hok : LvOK mo lv d)
    (hidn : id ∉ lv.map Prod.fst) (hG1id : ∀ it ∈ G1, it.2 = id) (hco : CutsOK lv G) :
    CutsOK ((id, some d) :: lv) (G1 ++ G) := by
  have hext := hext_push (lv := lv) (id := id) (some d) hidn
  have hcoG : CutsOK ((id, some d) :: lv) G := cutsOK_ext hext hco
  refine ⟨?_, ?_⟩
  · intro it hit hcut
    rcases List.mem_append.1 hit with h | h
    · exact ⟨d, by rw [hG1id it h, lev_cons_self]⟩
    · exact hcoG.1 it h hcut
  · refine List.pairwise_append.2 ⟨?_, hcoG.2, ?_⟩
    · induction G1 with
      | nil => exact .nil
      | cons a G1 ih =>
        refine List.pairwise_cons.2 ⟨?_, ih (fun it hit => hG1id it (by simp [hit]))⟩
        intro b hb _ _ la lb hla hlb
        rw [hG1id a (by simp), lev_cons_self] at hla
        rw [hG1id b (by simp [hb]), lev_cons_self] at hlb
        simp only [Option.some.injEq] at hla hlb
        omega
    · intro a ha b hb _ hcb la lb hla hlb
      rw [hG1id a ha, lev_cons_self] at hla
      simp only [Option.some.injEq] at hla
      obtain ⟨l0, hl0⟩ := hco.1 b hb hcb
      have := hext _ _ hl0
      rw [this] at hlb
      simp only [Option.some.injEq] at hlb
      have := hok.lev_lt hl0
      omega

/-- a goal of the fragment whose instance is the cut is the cut -/
theorem cut_of_inst {fl : Bool} {bg : Term} (hg : goalS fl bg = true) {κ : Nat → Nat} {τ : Subst}
    (h : (bg.rename κ).subst τ = .atom "!") : bg = .atom "!" := by
  cases bg with
  | atom a => simpa [Term.rename, Term.subst] using h
  | app f as => simp [Term.rename, Term.subst] at h
  | var v => simp [goalS, stepGoal, hornGoal, ctlGoal] at hg
  | int _ => simp [goalS, stepGoal, hornGoal, ctlGoal] at hg
  | flt _ => simp [goalS, stepGoal, hornGoal, ctlGoal] at hg
  | str _ => simp [goalS, stepGoal, hornGoal, ctlGoal] at hg

theorem rename_eq_cut {bg : Term} {ρ : Nat → Nat} (h : bg.rename ρ = .atom "!") : bg = .atom "!" := by
  cases bg with
  | atom a => simpa [Term.rename, Term.subst] using h
  | _ => simp [Term.rename, Term.subst] at h

/-- the goals of an activated body against the frames of the reference -/
theorem grel_of_frRel {lv : Lv} {σ' : Subst} {π' : Nat → Nat} {D' : Nat → Prop} {d id : Nat} {inst : Term → Term}
    (hid : lv.lev id = some d) {Bs : List Term} {Fs : List SLD.Frame} (hF : FrRel inst d Bs Fs) :
    ∀ {G1 : List (Term × Nat)},
      Forall2 (fun g1 bg => InD D' g1.1 ∧ g1.2 = id ∧ img σ' π' g1.1 = inst bg ∧ ∃ ρ', g1.1 = bg.rename ρ') G1 Bs →
      GRel none lv σ' π' D' G1 Fs := by
  induction hF with
  | nil => intro G1 h; cases h; exact .nil rfl
  | cons l hl _ ih =>
    intro G1 h
    cases h with
    | cons hd tl =>
      obtain ⟨h1, h2, h3, ρ', h4⟩ := hd
      refine .cons ⟨h1, l, Or.inl (by rw [h3]), fun hc => ?_⟩ (ih tl)
      rw [h4] at hc
      rw [h2, hid, hl (rename_eq_cut hc)]
  | callw l _ ih =>
    intro G1 h
    cases h with
    | cons hd tl =>
      obtain ⟨h1, h2, h3, ρ', h4⟩ := hd
      refine .cons ⟨h1, l, Or.inr ⟨⟨_, by rw [h4]; rfl⟩, by rw [h3]⟩, fun hc => ?_⟩ (ih tl)
      rw [h4] at hc
      simp [SLD.call1, Term.rename, Term.subst] at hc

theorem grel_skips {lv : Lv} {σ : Subst} {π : Nat → Nat} {D : Nat → Prop} {G : List (Term × Nat)} {R : List SLD.Frame}
    (h : GRel mo lv σ π D G R) : ∀ ls : List Nat, GRel mo lv σ π D G (ls.map skipF ++ R)
  | [] => h
  | l :: ls => .skip l (grel_skips h ls)

/-- **the activation of a clause the reference has no clause for**: the goals of the body in front of
    the pending goals, against the reference's frames in front of the resolvent (or: the clause is
    `true`-bodied, the VM has no goal for the reference's frame `true`) -/
theorem frames_head {cl : Clause} {c g : Term} {K : Cont} {id : Nat} {m : MS} {q0 : Pr} {m1 : MS}
    {N : Nat} {env : Env} {σ : Subst} {π : Nat → Nat} {D : Nat → Prop} {nv d : Nat} {lv : Lv}
    {G : List (Term × Nat)} {R : List SLD.Frame} {q : Term}
    (hW : SimW tmpl N env σ π D nv) (hN : N ≤ m.user.nextVar) (hgD : InD D g) (hshape : Shape g)
    (hcg : ContGoals fl mo tmpl max K G) (hgr : GRel mo lv σ π D G R) (hco : CutsOK lv G) (hq' : q = img σ π tmpl)
    (hok : LvOK mo lv d) (hidn : id ∉ lv.map Prod.fst)
    (hev : evalThunk F (Thunk.clause cl (argList g) K env id) m = some (q0, m1))
    {Fs' : List SLD.Frame} (hit : AltRel fl σ π D nv d g cl c (some (.frames Fs'))) :
    ∃ fuel' env' N' K1 G1 σ' π' D', m.user.nextVar ≤ N' ∧ applyCont fuel' K1 env' (bump m N') = some (q0, m1) ∧
      SimW tmpl N' env' σ' π' D' nv ∧ ContGoals fl mo tmpl max K1 (G1 ++ G) ∧
      CutsOK ((id, some d) :: lv) (G1 ++ G) ∧ q = img σ' π' tmpl ∧ (∀ it ∈ G1, it.2 = id) ∧
      GRel mo ((id, some d) :: lv) σ' π' D' G R ∧
      (GRel mo ((id, some d) :: lv) σ' π' D' (G1 ++ G) (Fs' ++ R) ∨
        (G1 = [] ∧ ∃ l Fs'', Fs' = .goal (.atom "true") l :: Fs'' ∧ GRel mo ((id, some d) :: lv) σ' π' D' G (Fs'' ++ R))) := by
  have hext := hext_push (lv := lv) (id := id) (some d) hidn
  cases hit with
  | frames κ nv' τ2 ls hcr hkeyc hnv hκ1 hκ2 hκ3 hτ hsm1 hsm2 hFs =>
  rename_i Fs
  have hkey : functorName g = functorName (SLD.headBody c).1 ∧
      (argList g).length = (argList (SLD.headBody c).1).length := by
    have := hkeyc
    simp only [headKey, goalKey, Prod.mk.injEq] at this
    exact ⟨this.1.symm, this.2.symm⟩
  rcases thunk_head' (max := max) hcr hW F g K id m (q0, m1) hN hgD hshape hkey hev κ nv' hnv hκ1 hκ2 hκ3 with
    ⟨N', _, _, hno⟩ | ⟨fuel', env', N', K1, Bs, hN', hcont, hBs, _, hokh⟩
  · exact absurd hτ.sound (hno _)
  · obtain ⟨σ', π', D', G1, hW', hDD', heq, hcgK1, hbody, hDchar⟩ := hokh _ hτ
    -- the images of the terms in use do not change
    have himg_old : ∀ t, InD D t → img σ' π' t = img σ π t := by
      intro t ht
      rw [heq t ht]
      apply hsm1
      intro z hz
      have hz' : ((t.subst σ).rename π).hasVar z = true := hz
      obtain ⟨u, hu, rfl⟩ := hasVar_rename _ hz'
      exact hW.bnd u (vars_subst_rv ht hu)
    have hvar : ∀ v : Nat, ∀ P : Nat → Prop, P v → ∀ w, (Term.var v).hasVar w = true → P w := by
      intro v P hP w hw
      simp only [Term.hasVar, beq_iff_eq] at hw
      subst hw; exact hP
    have hWB : SimW tmpl N' env' σ' π' D' nv := by
      refine ⟨hW'.mg, hW'.chain, hW'.pos, hW'.dlt, hW'.inj, ?_, hW'.tmplD⟩
      rintro x ⟨v, hv, hx⟩
      have h1 : (img σ' π' (.var v)).hasVar (π' x) = true := by
        simpa [img, Term.subst] using hasVar_rename_of hx
      rcases hDchar v hv with hv0 | ⟨x0, hx0, hx0e⟩
      · rw [himg_old (.var v) (hvar v _ hv0)] at h1
        have h1' : (((Term.var v).subst σ).rename π).hasVar (π' x) = true := h1
        obtain ⟨u, hu, hux⟩ := hasVar_rename _ h1'
        rw [← hux]
        exact hW.bnd u (vars_subst_rv (t := .var v) (hvar v _ hv0) hu)
      · rw [hx0e] at h1
        simp only [Term.rename, Term.subst] at h1
        exact hsm2 x0 hx0 _ h1
    have hq1 : q = img σ' π' tmpl := by rw [hq', himg_old tmpl hW.tmplD]
    have hgrR : GRel mo ((id, some d) :: lv) σ' π' D' G R :=
      (grel_ext hext hgr).step_id hDD' himg_old
    have hG1id : ∀ it ∈ G1, it.2 = id := forall2_left hbody (fun a b h => h.2.1)
    have hcoAll : CutsOK ((id, some d) :: lv) (G1 ++ G) := cutsOK_body hok hidn hG1id hco
    refine ⟨fuel', env', N', K1, G1, σ', π', D', hN', hcont, hWB, hcgK1 G hcg, hcoAll, hq1, hG1id, hgrR, ?_⟩
    rcases hBs with hBs | ⟨hBs, hbt⟩
    · left
      rw [← hBs] at hbody
      rw [List.append_assoc]
      exact (grel_of_frRel (lev_cons_self id (some d) lv) hFs hbody).append (grel_skips hgrR ls)
    · right
      subst hBs
      cases hbody
      refine ⟨rfl, ?_⟩
      rw [hbt] at hFs
      have hc1 : SLD.conjuncts (.atom "true") = [.atom "true"] := by simp [SLD.conjuncts, SLD.wrapVar]
      rw [hc1] at hFs
      cases hFs with
      | cons l _ tl =>
        cases tl
        exact ⟨l, ls.map skipF, rfl, grel_skips hgrR ls⟩

theorem stepGoal_not_cut (fl : Bool) : stepGoal fl (.atom "!") = false := by
  have h1 : userPred "!" 0 = false := by
    cases h : userPred "!" 0 with
    | false => rfl
    | true => exact absurd (reserved_not_user h) (by decide)
  simp [stepGoal, hornGoal, ctlGoal, h1]

theorem ta_succ {k : Nat} (ihPall : ∀ j, j ≤ k → TPk fl mo tmpl max prog F j) (hprog : ∀ c ∈ prog, clauseS fl c = true) :
    TAk fl mo tmpl max prog F (k + 1) := by
  intro it its id g K env R q nv n d r lv m sig m' ans0 hda hgood hans hid0 hidn hshape hsim hs hok hst hlt
  have ihP : TPk fl mo tmpl max prog F k := ihPall k (Nat.le_refl k)
  subst hans
  obtain ⟨cl, c, oa⟩ := it
  simp only at hda hgood
  cases hev : evalThunk F (Thunk.clause cl (argList g) K env id) m with
  | none => rw [dfsAlts_thunk_none (sem := VM.sem F) (by exact hev)] at hda; cases hda
  | some pr =>
  obtain ⟨q0, m1⟩ := pr
  have hsim0 := hsim
  obtain ⟨N, σ, π, D, G, hN, hW, hcg, hgr, hco, hq', hgD, halts⟩ := hsim
  have hext := hext_push (lv := lv) (id := id) (some d) hidn
  cases halts with
  | vcut hit hFs' hnil =>
    -- the body starts with a cut the reference does not have; nothing follows in the reference
    rename_i Fs Fs'
    cases n with
    | zero => rw [solveAlts_zero] at hs; cases hs
    | succ n' =>
    simp only [List.filterMap_cons, hnil] at hs
    rw [solveAlts_frames_cons] at hs
    obtain ⟨fuel', env', N', K1, G1, σ', π', D', hN', hcont, hWB, hcgK1, hcoAll, hq1, hG1id, hgrR, hgrAll0⟩ :=
      frames_head (F := F) hW hN hgD hshape hcg hgr hco hq' hok hidn hev hit
    have hok1 : LvOK mo ((id, some d) :: lv) (d + 1) := hok.push hid0 hidn
    have hlv1 : ((id, some d) :: lv).map Prod.fst =
        push ({ id := id, delayed := its.map (fun it => Thunk.clause it.1 (argList g) K env id) } : Pr).id
          (lv.map Prod.fst) := by
      simp [push, hid0]
    cases hs1 : SLD.solve false (progS prog) n' (d + 1) nv (Fs ++ R) q (max - m.user.answers.length) with
    | none => rw [hs1] at hs; simp at hs
    | some r1 =>
    rw [hs1] at hs
    simp only at hs
    have hgrAll : GRel mo ((id, some d) :: lv) σ' π' D' (G1 ++ G) (SLD.Frame.goal (.atom "!") d :: Fs ++ R) := by
      rcases hgrAll0 with h | ⟨_, l, Fs'', h, _⟩
      · rw [hFs'] at h; exact h
      · rw [hFs'] at h
        simp only [List.cons.injEq, SLD.Frame.goal.injEq, Term.atom.injEq] at h
        exact absurd h.1.1 (by decide)
    clear hgrAll0
    rcases cont_step hcgK1 fuel' env' (bump m N') (q0, m1) hcont with
      ⟨hG, _⟩ | ⟨g0, cpg, G0, K0, fuel0, hG, _, _, hhg, _⟩ | ⟨cp, G0, pc, vars, k0, hG, hcg0, hres⟩
    · exfalso
      rw [hG] at hgrAll
      cases hgrAll with
      | nil hT =>
        cases mo with
        | none => cases hT
        | some dN =>
          obtain ⟨l0, Rout, hT⟩ := hT
          simp only [List.cons_append, List.cons.injEq, SLD.Frame.goal.injEq, true_and] at hT
          have := hok.lo dN rfl
          omega
    · -- the first goal is the cut, not a goal `arrive` sees
      exfalso
      rw [hG] at hgrAll
      cases hgrAll with
      | cons hd _ =>
        obtain ⟨_, l0, hfr, _⟩ := hd
        have himg0 : img σ' π' g0 = .atom "!" := by
          rcases hfr with hfr | ⟨_, hfr⟩
          · simp only [SLD.Frame.goal.injEq] at hfr
            exact hfr.1.symm
          · simp [SLD.call1] at hfr
        have : g0 = .atom "!" := by
          cases g0 with
          | atom a => simpa [img, Term.rename, Term.subst] using himg0
          | app f as => simp [img, Term.rename, Term.subst] at himg0
          | var v => simp [stepGoal, hornGoal, ctlGoal] at hhg
          | int _ => simp [stepGoal, hornGoal, ctlGoal] at hhg
          | flt _ => simp [stepGoal, hornGoal, ctlGoal] at hhg
          | str _ => simp [stepGoal, hornGoal, ctlGoal] at hhg
        rw [this, stepGoal_not_cut] at hhg
        cases hhg
    · simp only [Prod.mk.injEq] at hres
      obtain ⟨rfl, rfl⟩ := hres
      rw [hG] at hgrAll hcoAll
      have hcpid : cp = id := by
        cases G1 with
        | nil =>
          exfalso
          -- the pending goals start with the cut of this clause: the reference's frame is none of theirs
          simp only [List.nil_append] at hG
          have hlev : Lv.lev ((id, some d) :: lv) cp = some d := by
            cases hgrAll with
            | cons hd _ =>
              obtain ⟨_, l0, hfr, hl0⟩ := hd
              rcases hfr with hfr | ⟨_, hfr⟩
              · simp only [SLD.Frame.goal.injEq] at hfr
                rw [hl0 rfl, hfr.2]
              · simp [SLD.call1] at hfr
          by_cases hc : cp = id
          · subst hc
            obtain ⟨l1, hl1⟩ := hco.1 (.atom "!", cp) (by rw [hG]; simp) rfl
            exact hidn (mem_ids_of_lev hl1)
          · rw [lev_cons_ne (some d) lv hc] at hlev
            have := hok.lev_lt hlev
            omega
        | cons a G1' =>
          simp only [List.cons_append, List.cons.injEq] at hG
          exact hG1id (.atom "!", cp) (by rw [← hG.1]; simp)
      subst hcpid
      have hgr0 : GRel mo ((cp, some d) :: lv) σ' π' D' G0 (Fs ++ R) := by
        cases hgrAll with
        | cons _ tl => exact tl
      have hlcp : Lv.lev ((cp, some d) :: lv) cp = some d := lev_cons_self cp (some d) lv
      cases hq : dfsP (VM.sem F) 0 k (cutPromise pc vars k0 env' cp)
          (push ({ id := cp, delayed := its.map (fun it => Thunk.clause it.1 (argList g) K env cp) } : Pr).id
            (lv.map Prod.fst)) (bump m N') with
      | none => rw [dfsAlts_child_none (sem := VM.sem F) (by exact hev) hq] at hda; cases hda
      | some pr2 =>
      obtain ⟨sig1, m2⟩ := pr2
      cases k with
      | zero => simp [dfsP] at hq
      | succ k' =>
      have hq' := hq
      rw [← hlv1] at hq'
      have hgq : GoodP fl F (k' + 1) (cutPromise pc vars k0 env' cp) (((cp, some d) :: lv).map Prod.fst) (bump m N') := by
        intro x mx hx
        rw [hlv1] at hx
        exact hgood x mx (.child (by exact hev) hx)
      have hdrop : ((cp, some d) :: lv).dropWhile (fun e => e.1 ≠ cp) = (cp, some d) :: lv := by
        simp [List.dropWhile]
      rcases cut_core (fun j hj => ihPall j (by omega)) hprog hq' hgq rfl hlcp (Nat.le_refl _) hWB hcg0 hgr0 hcoAll.tail hq1
          (fun it hit hc l' hl' => by have := hok1.lev_lt hl'; omega) hs1 hok1 (stOK_bump hst N') hlt with
        hill | ⟨sigB, hsig1, hm⟩
      · subst hill
        rw [dfsAlts_pass (sem := VM.sem F) (by exact hev) hq (by simp) (by simp)] at hda
        simp only [absorb, Option.some.injEq, Prod.mk.injEq] at hda
        exact Or.inl hda.1.symm
      · rw [hdrop] at hm
        have hne1 : sig1 ≠ .exhausted none := by
          rw [hsig1]; cases sigB with
          | exhausted co => cases co <;> simp [afterCut]
          | raised e co => cases co <;> simp [afterCut]
          | _ => simp [afterCut]
        have hne2 : ∀ e, sig1 ≠ .raised e none := by
          intro e
          rw [hsig1]; cases sigB with
          | exhausted co => cases co <;> simp [afterCut]
          | raised e co => cases co <;> simp [afterCut]
          | _ => simp [afterCut]
        rw [dfsAlts_pass (sem := VM.sem F) (by exact hev) hq hne1 hne2] at hda
        have hresA : (sig, m') = absorb cp sig1 m2 := (Option.some.inj hda).symm
        right
        rcases hm.stop with ⟨h1, hstop, hlen⟩ | ⟨c0, l, h1, hstop, h3, h4⟩ | ⟨h1, hstop⟩ | ⟨F', c1, c2, ex, co, h1, hstop⟩
        · -- the else branch is exhausted: the cut ends at this frame
          subst h1
          rw [hstop] at hs
          cases n' with
          | zero => rw [solve_zero] at hs1; cases hs1
          | succ n'' =>
          rw [solveAlts_nil] at hs
          simp only [SLD.failed, Option.map_some, SLD.Res.prepend, List.append_nil, Option.some.injEq] at hs
          subst hs
          rw [hsig1, show afterCut cp (SigG.exhausted none : SigG Err) = .exhausted (some cp) from rfl,
            absorb_cut_eq] at hresA
          simp only [Prod.mk.injEq] at hresA
          obtain ⟨rfl, rfl⟩ := hresA
          exact ⟨hm.ans, Or.inl ⟨rfl, rfl, hlen⟩, hm.st, Nat.le_trans hN' hm.nvar⟩
        · subst h1
          rw [hstop] at hs
          simp only [Option.some.injEq] at hs
          subst hs
          rw [hsig1, show afterCut cp (SigG.exhausted (some c0) : SigG Err) = .exhausted (some c0) from rfl] at hresA
          by_cases hc0 : c0 = cp
          · subst hc0
            rw [lev_cons_self] at h3
            simp only [Option.some.injEq] at h3
            subst h3
            rw [absorb_cut_eq] at hresA
            simp only [Prod.mk.injEq] at hresA
            obtain ⟨rfl, rfl⟩ := hresA
            exact ⟨hm.ans, Or.inl ⟨rfl, by simp, h4⟩, hm.st, Nat.le_trans hN' hm.nvar⟩
          · rw [absorb_cut_ne m2 hc0] at hresA
            simp only [Prod.mk.injEq] at hresA
            obtain ⟨rfl, rfl⟩ := hresA
            rw [lev_cons_ne (some d) lv hc0] at h3
            have hld : l ≠ d := by have := hok.lev_lt h3; omega
            exact ⟨hm.ans, Or.inr (Or.inl ⟨c0, l, rfl, by simp [hld], h3, h4⟩), hm.st,
              Nat.le_trans hN' hm.nvar⟩
        · subst h1
          have := found_pass hstop hok.lo hs
          subst this
          rw [hsig1, show afterCut cp (SigG.found : SigG Err) = .found from rfl, absorb_found] at hresA
          simp only [Prod.mk.injEq] at hresA
          obtain ⟨rfl, rfl⟩ := hresA
          exact ⟨hm.ans, Or.inr (Or.inr (Or.inl ⟨rfl, hstop⟩)), hm.st, Nat.le_trans hN' hm.nvar⟩
        · subst h1
          rw [hstop] at hs
          simp only [Option.some.injEq] at hs
          subst hs
          have : ∃ co1, afterCut cp (SigG.raised (.exc (errT F' c1)) co : SigG Err) = .raised (.exc (errT F' c1)) co1 := by
            cases co with
            | none => exact ⟨_, rfl⟩
            | some c => exact ⟨_, rfl⟩
          obtain ⟨co1, hco1⟩ := this
          rw [hsig1, hco1] at hresA
          obtain ⟨co', hco'⟩ := absorb_raised cp (.exc (errT F' c1)) co1 m2
          rw [hco'] at hresA
          simp only [Prod.mk.injEq] at hresA
          obtain ⟨rfl, rfl⟩ := hresA
          exact ⟨hm.ans, Or.inr (Or.inr (Or.inr ⟨F', c1, c2, ex, co', rfl, hstop⟩)), hm.st,
            Nat.le_trans hN' hm.nvar⟩
  | cons hit hR =>
  -- the remaining alternatives, from a later state
  have hrest : ∀ (m2 : MS) (r' : SLD.Res) (n0 : Nat), m.user.nextVar ≤ m2.user.nextVar →
      SLD.solveAlts false (progS prog) n0 d nv (its.filterMap (·.2.2)) R q (max - m2.user.answers.length) = some r' →
      PSpec fl mo tmpl max prog lv d
        { id := id, delayed := its.map (fun it => Thunk.clause it.1 (argList g) K env id) }
        m2 m2.user.answers r' := by
    intro m2 r' n0 h2 h3
    refine .alts rfl hid0 hshape ?_ h3
    exact ⟨N, σ, π, D, G, Nat.le_trans hN h2, hW, hcg, hgr, hco, hq', hgD, hR⟩
  cases hit with
  | prog hcr hkeyc =>
    -- a clause of the program
    cases n with
    | zero => rw [solveAlts_zero] at hs; cases hs
    | succ n' =>
    simp only [List.filterMap_cons] at hs
    rw [solveAlts_clause] at hs
    simp only [ruleOf, headBody_shift_rule] at hs
    have hkey : functorName g = functorName (SLD.headBody c).1 ∧
        (argList g).length = (argList (SLD.headBody c).1).length := by
      have := hkeyc
      simp only [headKey, goalKey, Prod.mk.injEq] at this
      exact ⟨this.1.symm, this.2.symm⟩
    unfold SLD.unify at hs
    rcases thunk_head (max := max) hcr hW F g K id m (q0, m1) hN hgD hshape hkey hev with
      ⟨N', hN', hres, hnomgu⟩ | ⟨fuel', env', N', K1, Bs, hN', hcont, hBs, hnoclash, hokh⟩
    · -- the head unification fails on the VM
      simp only [Prod.mk.injEq] at hres
      obtain ⟨rfl, rfl⟩ := hres
      cases hr : Robinson.solve n' [(img σ π g, SLD.shift nv (SLD.headBody c).1)] [] with
      | mgu θ => exact absurd hr (hnomgu _ _)
      | clash =>
        rw [hr] at hs
        simp only [Nat.sub_zero, Option.map_eq_some_iff] at hs
        obtain ⟨r', hr', rfl⟩ := hs
        rw [prepend_nil]
        exact alt_fail ihP hda hgood hev hN' (hrest (tick (bump m N')) r' n' hN' hr').toW hok hst hlt
      | occurs => rw [hr] at hs; simp at hs
      | outOfFuel => rw [hr] at hs; simp at hs
    · -- the head unification succeeds on the VM
      cases hr : Robinson.solve n' [(img σ π g, SLD.shift nv (SLD.headBody c).1)] [] with
      | clash => exact absurd hr (hnoclash _)
      | occurs => rw [hr] at hs; simp at hs
      | outOfFuel => rw [hr] at hs; simp at hs
      | mgu θ =>
        rw [hr] at hs
        simp only at hs
        obtain ⟨σ', π', D', G1, hW', hDD', heq, hcgK1, hbody⟩ := hokh n' θ hr
        cases hs1 : SLD.solve false (progS prog) n' (d + 1) (nv + SLD.maxVar (SLD.rule (SLD.headBody c).1 (SLD.headBody c).2))
            ((SLD.bodyFrames false (SLD.shift nv (SLD.headBody c).2) d ++ R).map (SLD.Frame.subst θ))
            (Robinson.applySubst θ q) (max - m.user.answers.length) with
        | none => rw [hs1] at hs; simp at hs
        | some r1 =>
          rw [hs1] at hs
          simp only at hs
          have hgrR : GRel mo ((id, some d) :: lv) σ' π' D' G (R.map (SLD.Frame.subst θ)) :=
            (grel_ext hext hgr).step hDD' θ heq
          have hcoG : CutsOK ((id, some d) :: lv) G := cutsOK_ext hext hco
          have hq1 : Robinson.applySubst θ q = img σ' π' tmpl := by
            rw [applySubst_eq, hq', heq tmpl hW.tmplD]
          have hG1id : ∀ it ∈ G1, it.2 = id := forall2_left hbody (fun a b h => h.2.1)
          have hcoAll : CutsOK ((id, some d) :: lv) (G1 ++ G) := cutsOK_body hok hidn hG1id hco
          have hspec1 : PSpecW fl mo tmpl max prog ((id, some d) :: lv) (d + 1) q0 m1 m.user.answers r1 ∧ StOK prog m1 ∧
              N' ≤ m1.user.nextVar := by
            rcases hBs with hBs | ⟨hBs, hb⟩
            · have hgr1 : GRel mo ((id, some d) :: lv) σ' π' D' (G1 ++ G)
                  ((SLD.bodyFrames false (SLD.shift nv (SLD.headBody c).2) d ++ R).map (SLD.Frame.subst θ)) := by
                rw [List.map_append]
                refine GRel.append ?_ hgrR
                simp only [SLD.bodyFrames, conjuncts_shift, hBs, Bool.false_eq_true, if_false, List.map_map]
                exact body_grel (lev_cons_self id (some d) lv) (hbody.imp (fun a b h => ⟨h.1, h.2.1, h.2.2.1⟩))
              exact cont_run tmpl max prog hprog fuel' K1 env' (bump m N') q0 m1 hcont
                (fun hfl => (hgood _ _ .here).fine hfl _ hev) _ _ _ _
                ⟨N', σ', π', D', G1 ++ G, Nat.le_refl _, hW', hcgK1 G hcg, hgr1, hcoAll, hq1, trivial⟩
                (stOK_bump hst N') n' (d + 1) r1 hs1
            · subst hBs
              cases hbody
              have e1 : (SLD.bodyFrames false (SLD.shift nv (SLD.headBody c).2) d ++ R).map (SLD.Frame.subst θ) =
                  SLD.Frame.goal (.atom "true") d :: R.map (SLD.Frame.subst θ) := by
                rw [hb]
                simp [SLD.bodyFrames, SLD.shift, SLD.conjuncts, SLD.wrapVar, SLD.Frame.subst, applySubst_eq, Term.subst]
              rw [e1] at hs1
              cases n' with
              | zero => rw [solve_zero] at hs1; cases hs1
              | succ n'' =>
                rw [solve_true] at hs1
                exact cont_run tmpl max prog hprog fuel' K1 env' (bump m N') q0 m1 hcont
                  (fun hfl => (hgood _ _ .here).fine hfl _ hev) _ _ _ _
                  ⟨N', σ', π', D', G, Nat.le_refl _, hW', by simpa using hcgK1 G hcg, hgrR, hcoG, hq1, trivial⟩
                  (stOK_bump hst N') n'' (d + 1) r1 hs1
          obtain ⟨hspec, hst1, hnv1⟩ := hspec1
          exact alt_tail ihP hda hgood hev rfl rfl hid0 hidn hok hlt hspec hst1 (Nat.le_trans hN' hnv1) hs
            (fun m2 r' h2 _ h3 => hrest m2 r' n' h2 h3)
  | frames κ nv' τ2 ls hcr hkeyc hnv hκ1 hκ2 hκ3 hτ hsm1 hsm2 hFs =>
    -- a clause the reference has no clause for: `call/1`'s clause, a control clause of bootstrap.pl
    rename_i Fs
    cases n with
    | zero => rw [solveAlts_zero] at hs; cases hs
    | succ n' =>
    simp only [List.filterMap_cons] at hs
    rw [solveAlts_frames_cons] at hs
    obtain ⟨fuel', env', N', K1, G1, σ', π', D', hN', hcont, hWB, hcgK1, hcoAll, hq1, hG1id, hgrR, hgrAll⟩ :=
      frames_head (F := F) hW hN hgD hshape hcg hgr hco hq' hok hidn hev
        (AltRel.frames κ nv' τ2 ls hcr hkeyc hnv hκ1 hκ2 hκ3 hτ hsm1 hsm2 hFs)
    have hcoG : CutsOK ((id, some d) :: lv) G := cutsOK_ext hext hco
    cases hs1 : SLD.solve false (progS prog) n' (d + 1) nv ((Fs ++ ls.map skipF) ++ R) q (max - m.user.answers.length) with
    | none => rw [hs1] at hs; simp at hs
    | some r1 =>
    rw [hs1] at hs
    simp only at hs
    have hspec1 : PSpecW fl mo tmpl max prog ((id, some d) :: lv) (d + 1) q0 m1 m.user.answers r1 ∧ StOK prog m1 ∧
        N' ≤ m1.user.nextVar := by
      rcases hgrAll with hgr1 | ⟨hG1, l, Fs'', hFs'', hgr2⟩
      · exact cont_run tmpl max prog hprog fuel' K1 env' (bump m N') q0 m1 hcont
          (fun hfl => (hgood _ _ .here).fine hfl _ hev) _ _ _ _
          ⟨N', σ', π', D', G1 ++ G, Nat.le_refl _, hWB, hcgK1, hgr1, hcoAll, hq1, trivial⟩
          (stOK_bump hst N') n' (d + 1) r1 hs1
      · subst hG1
        rw [hFs''] at hs1
        cases n' with
        | zero => rw [solve_zero] at hs1; cases hs1
        | succ n'' =>
          rw [List.cons_append, solve_true] at hs1
          exact cont_run tmpl max prog hprog fuel' K1 env' (bump m N') q0 m1 hcont
            (fun hfl => (hgood _ _ .here).fine hfl _ hev) _ _ _ _
            ⟨N', σ', π', D', G, Nat.le_refl _, hWB, by simpa using hcgK1, hgr2, hcoG, hq1, trivial⟩
            (stOK_bump hst N') n'' (d + 1) r1 hs1
    obtain ⟨hspec, hst1, hnv1⟩ := hspec1
    exact alt_tail ihP hda hgood hev rfl rfl hid0 hidn hok hlt hspec hst1 (Nat.le_trans hN' hnv1) hs
      (fun m2 r' h2 _ h3 => hrest m2 r' n' h2 h3)
  | dead κ nv' hcr hkeyc hnv hκ1 hκ2 hκ3 hclash =>
    -- the head cannot unify with the goal
    simp only [List.filterMap_cons] at hs
    have hkey : functorName g = functorName (SLD.headBody c).1 ∧
        (argList g).length = (argList (SLD.headBody c).1).length := by
      have := hkeyc
      simp only [headKey, goalKey, Prod.mk.injEq] at this
      exact ⟨this.1.symm, this.2.symm⟩
    rcases thunk_head' (mo := mo) (max := max) hcr hW F g K id m (q0, m1) hN hgD hshape hkey hev κ nv' hnv hκ1 hκ2 hκ3 with
      ⟨N', hN', hres, _⟩ | ⟨fuel', env', N', K1, Bs, hN', hcont, hBs, hnoclash, hokh⟩
    · simp only [Prod.mk.injEq] at hres
      obtain ⟨rfl, rfl⟩ := hres
      exact alt_fail ihP hda hgood hev hN' (hrest (tick (bump m N')) r n hN' hs).toW hok hst hlt
    · obtain ⟨n0, hn0⟩ := hclash
      exact absurd hn0 (hnoclash n0)

end

end PrologVerif.Refine
