import PrologVerif.Driver.Common
import PrologVerif.Model.Api
namespace PrologVerif.Driver.C15
open PrologVerif PrologVerif.Api PrologVerif.Driver

def fieldsOf (s : String) : List String := (s.splitOn " ;; ").map trim

def parseFlag : String → Option DQ
  | "chars" => some .chars | "codes" => some .codes | "atom" => some .atom | _ => none

def dropPrefix (s : String) (n : Nat) : List Char := s.toList.drop n

def parseTok (w : String) : Option Tok :=
  match w with
  | "((" => some .open | "(" => some .openCT | ")" => some .close
  | "[" => some .openList | "]" => some .closeList | "," => some .comma | "|" => some .bar
  | _ =>
    match w.toList with
    | 'n' :: ':' :: cs => (decName cs).map .name
    | 'i' :: ':' :: cs => (natOfChars cs).map .int
    | 'd' :: ':' :: cs => (decName cs).map .dq
    | _ => none

/-- split "a,b,[c,d],e" at top-level commas -/
def splitTop (cs : List Char) : List (List Char) :=
  if cs.isEmpty then [] else
  let (cur, out, _) := cs.foldl (fun (st : List Char × List (List Char) × Nat) c =>
    let (cur, out, depth) := st
    if c = '[' then (cur ++ [c], out, depth + 1)
    else if c = ']' then (cur ++ [c], out, depth - 1)
    else if c = ',' ∧ depth = 0 then ([], out ++ [cur], depth)
    else (cur ++ [c], out, depth)) ([], [], 0)
  out ++ [cur]

def intKindOf : String → Option IntKind
  | "i" => some .int | "i8" => some .int8 | "i16" => some .int16 | "i32" => some .int32 | "i64" => some .int64
  | _ => none

def parsePrim (kind : String) (body : List Char) : Option GoVal :=
  match intKindOf kind with
  | some k => (intOfChars body).map (.int k)
  | none =>
    match kind with
    | "u8" | "u" => (natOfChars body).map .uint
    | "f64" | "f32" => (hexOfChars body).map fun n => .float (UInt64.ofNat n)
    | "s" => (decName body).map .str
    | "b" => some .other
    | _ => none

def stripBrackets (cs : List Char) : Option (List Char) :=
  match cs with
  | '[' :: rest => if rest.getLast? = some ']' then some rest.dropLast else none
  | _ => none

def parseElems (f : List Char → Option GoVal) (body : List Char) : Option GoVal :=
  ((splitTop body).mapM f).map fun vs => .slice (GoVals.ofList vs)

/-- Go value syntax of the payload (see harness/c15.go) -/
def parseVal (w : String) : Option GoVal :=
  if w = "nil" then some .nil else
  let cs := w.toList
  let kind := String.ofList (cs.takeWhile fun c => c != ':' && c != '[')
  let rest := cs.dropWhile fun c => c != ':' && c != '['
  match rest with
  | ':' :: body => parsePrim kind body
  | '[' :: _ =>
    match stripBrackets rest with
    | none => none
    | some body =>
      let prim (k : String) := parseElems (parsePrim k) body
      let nested (k : String) := parseElems (fun e => (stripBrackets e).bind (parseElems (parsePrim k))) body
      match kind with
      | "Lint" | "Aint" => prim "i"
      | "Li8" => prim "i8"
      | "Li64" => prim "i64"
      | "Lstr" | "Astr" => prim "s"
      | "Lf64" => prim "f64"
      | "Lu8" => prim "u8"
      | "Lany" => parseElems (fun _ => some .other) body
      | "LLint" => nested "i"
      | "LLstr" => nested "s"
      | _ => none
  | _ => none

def errName : PErr → String
  | .fewArgs => "few" | .manyArgs => "many" | .convert => "convert"
  | .unexpected => "syntax" | .representation => "syntax"

def wrapGrab (toks : List Tok) : List Tok := [.name "grab", .openCT] ++ toks ++ [.close, .end_]

def argOfGrab : Term → Option Term
  | .app "grab" (.cons t .nil) => some t
  | _ => none

/-! ### c15.args -/

def argsModel (dq : DQ) (toks : List Tok) (vals : List GoVal) : String :=
  match query dq (wrapGrab toks) vals with
  | .error e => "err " ++ errName e
  | .ok t =>
    match argOfGrab t with
    | some a => "ok " ++ a.wire ++ " lit=same"
    | none => "BAD-MODEL-TERM"

mutual
  /-- replace the atom leaves `?` left to right (specification side; templates of this stream have no
      other source of `?` atoms) -/
  def specSubst : Term → List Term → Option (Term × List Term)
    | .atom a, q => if a = "?" then (match q with | [] => none | x :: r => some (x, r)) else some (.atom a, q)
    | .app f as, q => (specSubstArgs as q).map fun (as', q') => (.app f as', q')
    | t, q => some (t, q)
  def specSubstArgs : Args → List Term → Option (Args × List Term)
    | .nil, q => some (.nil, q)
    | .cons t ts, q =>
      match specSubst t q with
      | none => none
      | some (t', q') => (specSubstArgs ts q').map fun (ts', q'') => (.cons t' ts', q'')
end

mutual
  def countQ : Term → Nat
    | .atom a => if a = "?" then 1 else 0
    | .app _ as => countQArgs as
    | _ => 0
  def countQArgs : Args → Nat
    | .nil => 0
    | .cons t ts => countQ t + countQArgs ts
end

/-- the term the reader produces for the literal denoting `v` -/
def readLiteral (dq : DQ) (v : GoVal) : Option Term :=
  match litToks v with
  | none => none
  | some toks =>
    match term0 ⟨dq, none⟩ (2 * toks.length + 4) ⟨toks, []⟩ with
    | .ok (t, ⟨[], _⟩) => some t
    | _ => none

/-- specification: the values' LITERALS, read by the reader, plugged into the placeholder leaves of the
    text parsed without placeholders -/
def argsSpec (dq : DQ) (toks : List Tok) (vals : List GoVal) : String :=
  match vals.mapM (readLiteral dq) with
  | none => "err convert"
  | some lits =>
    match parseTop ⟨dq, none⟩ (wrapGrab toks) [] with
    | .error _ => "err syntax"
    | .ok t =>
      let n := countQ t
      if lits.length < n then "err few"
      else if lits.length > n then "err many"
      else match specSubst t lits with
        | some (t', _) => (match argOfGrab t' with | some a => "ok " ++ a.wire | none => "BAD-SPEC-TERM")
        | none => "err few"

def argsHandler : Handler := fun payload impl =>
  match fieldsOf payload with
  | flag :: toksS :: rest =>
    let valsS := rest.headD ""
    match parseFlag flag, (words toksS).mapM parseTok, (words valsS).mapM parseVal with
    | some dq, some toks, some vals =>
      let want := argsSpec dq toks vals
      let verdict :=
        if impl.startsWith "err" then (if impl == want then "ok" else s!"FAIL specification: {want}")
        else
          let ws := impl.splitOn " lit="
          match ws with
          | [t, lit] =>
            if t != want then s!"FAIL the API result is not the text's term with the values' literals plugged in: specification {want}"
            else if lit.startsWith "differ" then "FAIL placeholder and literal give different terms (==/2 fails on the real code): " ++ lit
            else "ok"
          | _ => "FAIL unparsable output"
      (argsModel dq toks vals, verdict)
    | _, _, _ => ("BAD-CASE", "FAIL unparsable case")
  | _ => ("BAD-CASE", "FAIL unparsable case")

/-! ### c15.ops: templates with operators — no reader model (empty operator table); the oracle is the real
    code's own reading of the literal text, compared with ==/2 -/

def opsHandler : Handler := fun _payload impl =>
  let verdict :=
    if impl.startsWith "err convert" then "ok"
    else if impl.startsWith "err" then "FAIL the query with placeholders was rejected: " ++ impl
    else match impl.splitOn " lit=" with
      | [_, lit] =>
        if lit.startsWith "same" then "ok"
        else if lit.startsWith "differ" then "FAIL placeholder and literal give different terms (==/2 fails on the real code): " ++ lit
        else "-"
      | _ => "FAIL unparsable output"
  (impl, verdict)

/-! ### c15.scan -/

def baseDest : String → Option Dest
  | "any" => some .any | "string" => some .string
  | "int" => some (.int .int) | "int8" => some (.int .int8) | "int16" => some (.int .int16)
  | "int32" => some (.int .int32) | "int64" => some (.int .int64)
  | "float32" => some .float32 | "float64" => some .float64
  | "uint" | "uint8" | "uint16" | "uint32" | "uint64" | "bool" | "[2]int" => some .unsupported
  | _ => none

def parseDestAux : Nat → List Char → Option Dest
  | 0, _ => none
  | fuel + 1, cs =>
    match cs with
    | '[' :: ']' :: rest => (parseDestAux fuel rest).map .slice
    | _ => baseDest (String.ofList cs)

def parseDest (s : String) : Option Dest := parseDestAux 8 s.toList

mutual
  /-- decode the `$chars` / `$codes` markers; collect the string-backed list terms -/
  def unmark : Term → Term × List Term
    | .app f as =>
      match f, as with
      | "$chars", .cons (.atom s) .nil => let t := charList s.toList; (t, [t])
      | "$codes", .cons (.atom s) .nil => let t := codeList s.toList; (t, [t])
      | _, _ => let r := unmarkArgs as; (.app f r.1, r.2)
    | t => (t, [])
  def unmarkArgs : Args → Args × List Term
    | .nil => (.nil, [])
    | .cons t ts => let a := unmark t; let b := unmarkArgs ts; (.cons a.1 b.1, a.2 ++ b.2)
end

mutual
  /-- all suffixes of a string-backed list are string-backed too (`charList.Arg(1)` is a `charList`) -/
  def suffixes : Term → List Term
    | .app f as => .app f as :: suffixesArgs as
    | _ => []
  def suffixesArgs : Args → List Term
    | .cons _ (.cons tl .nil) => suffixes tl
    | _ => []
end

def round32 (b : UInt64) : UInt64 := (Float.ofBits b).toFloat32.toFloat.toBits

def intTag : IntKind → String
  | .int => "i" | .int8 => "i8" | .int16 => "i16" | .int32 => "i32" | .int64 => "i64"

mutual
  def render : Dest → GoVal → String
    | _, .int k v => intTag k ++ ":" ++ toString v
    | .float32, .float b => "f32:" ++ hex16 b
    | _, .float b => "f64:" ++ hex16 b
    | _, .str s => "s:" ++ encName s
    | _, .nil => "nil"
    | .slice e, .slice vs => "[" ++ ",".intercalate (renderAll e vs) ++ "]"
    | d, .slice vs => "[" ++ ",".intercalate (renderAll d vs) ++ "]"
    | _, .uint v => "u:" ++ toString v
    | _, .other => "other"
  def renderAll : Dest → GoVals → List String
    | _, .nil => []
    | e, .cons v vs => render e v :: renderAll e vs
end

def scanModel (d : Dest) (t : Term) (marked : List Term) : String :=
  match conv true round32 (fun x => x ∈ marked) d t with
  | .ok v => "ok " ++ render d v
  | .error _ => "err"

/-- parse the canonical Go value text back (for the specification's judgement) -/
partial def parseGo (cs : List Char) : Option GoVal :=
  if cs = "nil".toList then some .nil else
  match cs with
  | '[' :: _ =>
    match stripBrackets cs with
    | some body => ((splitTop body).mapM parseGo).map fun vs => .slice (GoVals.ofList vs)
    | none => none
  | _ =>
    let kind := String.ofList (cs.takeWhile (· != ':'))
    let body := (cs.dropWhile (· != ':')).drop 1
    parsePrim kind body

def hasFloat32 (d : Dest) : Bool := !d.noFloat32

/-- `float32` destinations: what is stored must be the nearest single-precision value and must not be an
    infinity (answers are finite) -/
def judge32 (t : Term) (g : String) : String :=
  match t, g.toList with
  | .flt b, 'f' :: '3' :: '2' :: ':' :: hs =>
    match hexOfChars hs with
    | some n =>
      let got := UInt64.ofNat n
      if isInfBits got && !isInfBits b then s!"FAIL Scan stored an infinity into a float32 for the finite answer {t.wire}, without an error"
      else if got == round32 b then "ok"
      else s!"FAIL Scan stored {g} into a float32, which is not the single-precision value nearest to the answer {t.wire}"
    | none => "FAIL unparsable output"
  | _, _ => "-"

def scanJudge (d : Dest) (t : Term) (impl : String) : String :=
  if impl == "err" then "ok"
  else if d = .float32 then (match impl.splitOn " " with | ["ok", g] => judge32 t g | _ => "FAIL unparsable output")
  else if hasFloat32 d then "-"
  else match impl.splitOn " " with
    | ["ok", g] =>
      match parseGo g.toList with
      | some v =>
        if exact v t && fits d v then "ok"
        else s!"FAIL Scan stored {g} without an error, which is not exactly the answer's value {t.wire}"
      | none => "FAIL Scan stored a value that is not a value of the destination type: " ++ g
    | _ => "FAIL unparsable output"

/-- several variables scanned into one map: every entry is judged as the scan of ITS variable alone -/
def scanMulti (dn : String) (tss : List String) (impl : String) : String × String :=
  match parseDest dn, tss.mapM (fun ts => match parseTerms ts with | some [t] => some t | _ => none) with
  | some d, some ts =>
    let parts := ts.map fun t0 =>
      let (t, marked) := unmark t0
      (t, scanModel d t (marked.flatMap suffixes))
    let names := ["X", "Y", "Z"]
    let model :=
      if parts.any (fun p => p.2 == "err") then "err"
      else "ok" ++ String.join ((names.zip parts).map fun (n, p) => " " ++ n ++ "=" ++ (p.2.drop 3).toString)
    -- the implementation's entries
    let verdict :=
      if impl == "err" then
        -- an error is admissible iff some variable's own scan may be an error
        if parts.any (fun p => (scanJudge d p.1 "err") == "ok") then "ok"
        else "FAIL Scan returned an error although every value converts"
      else
        let segs := (impl.splitOn " ").filter (fun s => s.startsWith "X=" || s.startsWith "Y=" || s.startsWith "Z=")
        -- values may contain blanks: cut the line at the markers instead
        let cut := fun (a b : String) =>
          match impl.splitOn (" " ++ a ++ "=") with
          | _ :: rest :: _ => if b == "" then rest else (rest.splitOn (" " ++ b ++ "=")).headD rest
          | _ => "?"
        let vals := [cut "X" "Y", cut "Y" "Z", cut "Z" ""]
        let _ := segs
        let bad := (vals.zip parts).filter fun (v, p) =>
          let j := scanJudge d p.1 ("ok " ++ v)
          j != "ok" && j != "-"
        match bad with
        | [] => "ok"
        | (v, p) :: _ => "FAIL an entry of the map is not the value of its variable: got " ++ v ++ " — " ++ scanJudge d p.1 ("ok " ++ v)
    (model, verdict)
  | _, _ => ("BAD-CASE", "FAIL unparsable case")

def scanHandler : Handler := fun payload impl =>
  match fieldsOf payload with
  | hd :: t1 :: t2 :: t3 :: [] =>
    match words hd with
    | ["MM", dn] => scanMulti dn [t1, t2, t3] impl
    | _ => ("BAD-CASE", "FAIL unparsable case")
  | [hd, ts] =>
    match words hd, parseTerms ts with
    | [_, dn], some [t0] =>
      match parseDest dn with
      | some d =>
        let (t, marked) := unmark t0
        let marked := marked.flatMap suffixes
        (scanModel d t marked, scanJudge d t impl)
      | none => ("BAD-CASE", "FAIL unknown destination")
    | _, _ => ("BAD-CASE", "FAIL unparsable case")
  | _ => ("BAD-CASE", "FAIL unparsable case")

end PrologVerif.Driver.C15
