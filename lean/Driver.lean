import PrologVerif.Driver.Common
import PrologVerif.Driver.C18
import PrologVerif.Driver.C05
open PrologVerif PrologVerif.Driver

def handlers : List (String × Handler) :=
  [ ("c18.hist", C18.handler),
    ("c05.matrix", C05.matrixHandler), ("c05.text", C05.textHandler), ("c05.parse", C05.parseHandler) ]

partial def loop (h : IO.FS.Stream) (out : IO.FS.Stream) (f : Handler) : IO Unit := do
  let line ← h.getLine
  if line.isEmpty then return ()
  let line := String.ofList (line.toList.reverse.dropWhile (fun c => c == '\n' || c == '\r')).reverse
  let (payload, impl) := match line.splitOn " ||| " with
    | [p, i] => (p, i)
    | [p] => (p, "")
    | p :: rest => (p, " ||| ".intercalate rest)
    | [] => ("", "")
  let (m, v) := f payload impl
  out.putStrLn (m ++ " ||| " ++ v)
  loop h out f

def main (args : List String) : IO UInt32 := do
  match args with
  | [name] =>
    match handlers.lookup name with
    | some f =>
      loop (← IO.getStdin) (← IO.getStdout) f
      return 0
    | none =>
      IO.eprintln s!"unknown stream {name}"
      return 2
  | _ =>
    IO.eprintln "usage: driver <stream> < cases"
    return 2
