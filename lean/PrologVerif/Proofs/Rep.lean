/-
  rep_faithful: for every Go encoding, the view through the `Compound` interface
  (Functor / Arity / Arg) is the abstract term `abs r`.  Everything downstream (unify, compare,
  variant, copy) only uses the interface, hence representation independence.
-/
import PrologVerif.Model.Rep
namespace PrologVerif.Rep

/-- the interface view of `r` agrees with its abstraction -/
def Faithful (r : Rep) : Prop :=
  ∀ f, functor r = some f →
    ∃ as : Args, abs r = .app f as ∧ as.length = arity r ∧
      ∀ i, i < arity r → ∃ ri, arg r i = some ri ∧ as.toList[i]? = some (abs ri)

theorem absArgs_length : ∀ rs : RepList, (absArgs rs).length = rs.length
  | .nil => rfl
  | .cons _ rs => by simp [absArgs, Args.length, RepList.length, absArgs_length rs]

theorem absArgs_get : ∀ (rs : RepList) (i : Nat), i < rs.length →
    ∃ ri, rs.get? i = some ri ∧ (absArgs rs).toList[i]? = some (abs ri)
  | .nil, _, h => by simp [RepList.length] at h
  | .cons r rs, 0, _ => ⟨r, rfl, by simp [absArgs, Args.toList]⟩
  | .cons r rs, i + 1, h => by
    obtain ⟨ri, h1, h2⟩ := absArgs_get rs i (by simp [RepList.length] at h; omega)
    exact ⟨ri, by simp [RepList.get?, h1], by simp [absArgs, Args.toList, h2]⟩

theorem faithful_compound (f : String) (args : RepList) : Faithful (.compound f args) := by
  intro g hg
  simp only [functor, Option.some.injEq] at hg
  subst hg
  exact ⟨absArgs args, by simp [abs], by simp [arity, absArgs_length], fun i hi => by
    simpa [arg] using absArgs_get args i (by simpa [arity] using hi)⟩

theorem two_cases {P : Nat → Prop} (h0 : P 0) (h1 : P 1) : ∀ i, i < 2 → P i
  | 0, _ => h0
  | 1, _ => h1
  | n + 2, h => by omega

theorem faithful_list (h : Rep) (t : RepList) : Faithful (.list (.cons h t)) := by
  intro g hg
  simp only [functor, Option.some.injEq] at hg
  subst hg
  cases t with
  | nil =>
    refine ⟨.cons (abs h) (.cons (.atom "[]") .nil), by simp [abs, absList], rfl, ?_⟩
    apply two_cases
    · exact ⟨h, rfl, by simp [Args.toList]⟩
    · exact ⟨.atom "[]", rfl, by simp [Args.toList, abs]⟩
  | cons h2 t2 =>
    refine ⟨.cons (abs h) (.cons (abs (.list (.cons h2 t2))) .nil), by simp [abs, absList], rfl, ?_⟩
    apply two_cases
    · exact ⟨h, rfl, by simp [Args.toList]⟩
    · exact ⟨.list (.cons h2 t2), rfl, by simp [Args.toList]⟩

theorem faithful_charList (c : Char) (cs : List Char) : Faithful (.charList (c :: cs)) := by
  intro g hg
  simp only [functor, Option.some.injEq] at hg
  subst hg
  cases cs with
  | nil =>
    refine ⟨.cons (abs (charAtom c)) (.cons (.atom "[]") .nil), by simp [abs, Term.list, Term.consT, Term.nilT, charAtom], rfl, ?_⟩
    apply two_cases
    · exact ⟨charAtom c, rfl, by simp [Args.toList]⟩
    · exact ⟨.atom "[]", rfl, by simp [Args.toList, abs]⟩
  | cons c2 cs2 =>
    refine ⟨.cons (abs (charAtom c)) (.cons (abs (.charList (c2 :: cs2))) .nil),
      by simp [abs, Term.list, Term.consT, Term.nilT, charAtom], rfl, ?_⟩
    apply two_cases
    · exact ⟨charAtom c, rfl, by simp [Args.toList]⟩
    · exact ⟨.charList (c2 :: cs2), rfl, by simp [Args.toList]⟩

theorem faithful_codeList (c : Char) (cs : List Char) : Faithful (.codeList (c :: cs)) := by
  intro g hg
  simp only [functor, Option.some.injEq] at hg
  subst hg
  cases cs with
  | nil =>
    refine ⟨.cons (abs (charCode c)) (.cons (.atom "[]") .nil), by simp [abs, Term.list, Term.consT, Term.nilT, charCode], rfl, ?_⟩
    apply two_cases
    · exact ⟨charCode c, rfl, by simp [Args.toList]⟩
    · exact ⟨.atom "[]", rfl, by simp [Args.toList, abs]⟩
  | cons c2 cs2 =>
    refine ⟨.cons (abs (charCode c)) (.cons (abs (.codeList (c2 :: cs2))) .nil),
      by simp [abs, Term.list, Term.consT, Term.nilT, charCode], rfl, ?_⟩
    apply two_cases
    · exact ⟨charCode c, rfl, by simp [Args.toList]⟩
    · exact ⟨.codeList (c2 :: cs2), rfl, by simp [Args.toList]⟩

/-- `*partial` over any faithful list-cell encoding whose tail is `[]` or again a compound (the
    Go code asserts `t.(Compound)`) -/
theorem faithful_part (pre tail : Rep) (hp : Faithful pre)
    (hdot : functor pre = some "." ∧ arity pre = 2)
    (htl : ∀ p1, arg pre 1 = some p1 → p1 = .atom "[]" ∨ (functor p1).isSome = true) :
    Faithful (.part pre tail) := by
  intro g hg
  simp only [functor] at hg
  obtain ⟨as, habs, hlen, hargs⟩ := hp g hg
  have hg' : g = "." := by rw [hdot.1] at hg; exact (Option.some.inj hg).symm
  subst hg'
  obtain ⟨p0, hp0, ha0⟩ := hargs 0 (by omega)
  obtain ⟨p1, hp1, ha1⟩ := hargs 1 (by omega)
  -- as = [abs p0, abs p1]
  have has : as = .cons (abs p0) (.cons (abs p1) .nil) := by
    rw [hdot.2] at hlen
    match as, hlen, ha0, ha1 with
    | .cons a (.cons b .nil), _, ha0, ha1 =>
      simp [Args.toList] at ha0 ha1
      rw [ha0, ha1]
  subst has
  rcases htl p1 hp1 with rfl | hcomp
  · refine ⟨.cons (abs p0) (.cons (abs tail) .nil), by simp [abs, habs, graft], by simp [arity, hdot.2, Args.length], ?_⟩
    rw [show arity (.part pre tail) = 2 from by simp [arity, hdot.2]]
    apply two_cases
    · exact ⟨p0, by simp [arg, hp0, hdot], by simp [Args.toList]⟩
    · exact ⟨tail, by simp [arg, hp1, hdot], by simp [Args.toList]⟩
  · have hne : p1 ≠ .atom "[]" := by rintro rfl; simp [functor] at hcomp
    refine ⟨.cons (abs p0) (.cons (abs (.part p1 tail)) .nil), by simp [abs, habs, graft], by simp [arity, hdot.2, Args.length], ?_⟩
    rw [show arity (.part pre tail) = 2 from by simp [arity, hdot.2]]
    apply two_cases
    · exact ⟨p0, by simp [arg, hp0, hdot], by simp [Args.toList]⟩
    · refine ⟨.part p1 tail, ?_, by simp [Args.toList]⟩
      simp [arg, hp1, hdot, hne, hcomp]

end PrologVerif.Rep
