package main

// C07: arithmetic is exact or raises an evaluation error; comparisons are numeric.
//
//   c07.kernels   the kernels of engine/number.go, called directly through the verif hooks, on the
//                 COMPLETE boundary-value grid of DESIGN §6 (every unary functor/kernel on every grid
//                 value, every binary functor/kernel and every comparison on every pair), plus random pairs
//   c07.queries   random expression trees through the real parser, is/2 and the comparison predicates

import (
	"fmt"
	"math"
	"math/rand"
	"sort"
	"strconv"
	"strings"

	"github.com/ichiban/prolog/engine"
)

func init() {
	register(&stream{name: "c07.kernels", gen: genC07Kernels, run: runC07Kernels})
	register(&stream{name: "c07.queries", gen: genC07Queries, run: runC07Queries})
}

// ---------------------------------------------------------------------------------------------
// grids
// ---------------------------------------------------------------------------------------------

// the core boundary grid G of DESIGN §6
func c07CoreInts() []int64 {
	var g []int64
	add := func(v int64) { g = append(g, v) }
	add(0)
	for _, v := range []int64{1, 2, 3, 7} {
		add(v)
		add(-v)
	}
	for _, p := range []uint{31, 53, 62} {
		b := int64(1) << p
		for _, d := range []int64{-1, 0, 1} {
			add(b + d)
			add(-(b + d))
		}
	}
	add(int64(1) << 32)
	add(-(int64(1) << 32))
	add(math.MinInt64)
	add(math.MinInt64 + 1)
	add(math.MaxInt64 - 1)
	add(math.MaxInt64)
	return g
}

// shift counts and the neighbours of sqrt(2^63) (powers), added to the core grid
func c07ExtraInts() []int64 {
	return []int64{10, 31, -31, 32, -32, 61, 62, -62, 63, -63, 64, -64, 65, 3037000499, -3037000499, 3037000500, -3037000500, 2097152, -2097152}
}

func dedupInts(xs []int64) []int64 {
	seen := map[int64]bool{}
	var out []int64
	for _, x := range xs {
		if !seen[x] {
			seen[x] = true
			out = append(out, x)
		}
	}
	return out
}

func c07RandInt(r *rand.Rand) int64 {
	switch r.Intn(6) {
	case 0:
		return int64(r.Intn(41) - 20)
	case 1:
		return int64(r.Uint64())
	case 2:
		// around a power of two
		p := uint(r.Intn(63))
		v := int64(1)<<p + int64(r.Intn(5)-2)
		if r.Intn(2) == 0 {
			v = -v
		}
		return v
	case 3:
		return int64(r.Uint64()) >> uint(r.Intn(64))
	case 4:
		return pick(r, c07CoreInts())
	default:
		return int64(r.Int31()) - 1<<30
	}
}

func c07Floats() []float64 {
	var g []float64
	add := func(v float64) { g = append(g, v, -v) }
	eps := math.Nextafter(1, 2) - 1
	add(0)
	add(math.SmallestNonzeroFloat64)
	add(math.Float64frombits(0x0010000000000000)) // min normal
	add(math.Float64frombits(0x000fffffffffffff)) // max subnormal
	add(1)
	add(1 + eps)
	add(1 - eps/2)
	add(0.5)
	add(1.5)
	add(2.5)
	add(0.49999999999999994)
	add(1.1)
	add(2)
	add(3)
	add(6)
	for _, k := range []int{10, 31, 52, 53, 62, 63, 64, 511, 512, 970, 1022, 1023} {
		add(math.Ldexp(1, k))
		add(math.Ldexp(1, -k))
	}
	add(math.Ldexp(1, 52) - 0.5)
	add(math.Ldexp(1, 52) + 1)
	add(math.Ldexp(1, 53) - 1)
	add(math.Ldexp(1, 53) + 2)
	add(math.Nextafter(math.Ldexp(1, 63), 0))           // 2^63(1-ε/2): largest float below 2^63
	add(math.Nextafter(math.Ldexp(1, 63), math.Inf(1))) // 2^63(1+ε)
	add(math.MaxFloat64)
	add(math.Nextafter(math.MaxFloat64, 0))
	add(math.MaxFloat64 / 2)
	add(math.Nextafter(math.MaxFloat64/2, math.Inf(1)))
	add(math.MaxFloat64 / 3)
	add(math.Nextafter(math.MaxFloat64/3, math.Inf(1)))
	add(math.Nextafter(math.MaxFloat64/3, 0))
	add(3 * math.Ldexp(1, 970))
	add(1e308)
	add(1e-308)
	add(709.782712893384) // ~ log(MaxFloat64)
	add(710)
	add(745.2) // exp underflow
	add(math.Sqrt(math.MaxFloat64))
	add(math.Nextafter(math.Sqrt(math.MaxFloat64), math.Inf(1)))
	return g
}

func c07RandFloat(r *rand.Rand) float64 {
	switch r.Intn(5) {
	case 0:
		return pick(r, c07Floats())
	case 1:
		for {
			f := math.Float64frombits(r.Uint64())
			if !math.IsNaN(f) && !math.IsInf(f, 0) {
				return f
			}
		}
	case 2:
		return float64(r.Intn(2001)-1000) / 8
	case 3:
		return math.Ldexp(r.Float64()*2-1, r.Intn(130)-65)
	default:
		return float64(c07RandInt(r))
	}
}

func iw(v int64) string   { return "I" + strconv.FormatInt(v, 10) }
func fw(v float64) string { return fmt.Sprintf("F%016x", math.Float64bits(v)) }

var c07IntKernels2 = []string{"addI", "subI", "mulI", "intDivI", "remI", "modI", "intFloorDivI"}
var c07IntKernels1 = []string{"negI", "absI", "signI", "posI"}
var c07CmpOps = []string{"=:=", "=\\=", "<", "=<", ">", ">="}
var c07CmpHook = map[string]string{"=:=": "eq", "=\\=": "neq", "<": "lss", "=<": "leq", ">": "gtr", ">=": "geq"}
var c07FloatBinary = []string{"+", "-", "*", "/", "**", "^", "max", "min", "atan2"}
var c07MixedBinary = []string{"+", "-", "*", "/", "max", "min", "^", "**"}

func c07Functors() (unary, binary []string) {
	unary, binary = engine.VerifFunctors()
	sort.Strings(unary)
	sort.Strings(binary)
	return
}

func genC07Kernels(r *rand.Rand, n int, tier string) []string {
	unary, binary := c07Functors()
	nrand := 8
	if tier == "thorough" {
		nrand = 64
	}
	ints := append(c07CoreInts(), c07ExtraInts()...)
	for i := 0; i < nrand; i++ {
		ints = append(ints, c07RandInt(r))
	}
	ints = dedupInts(ints)
	floats := c07Floats()
	var out []string
	emit := func(s string) { out = append(out, "g"+s) } // gint/gfun/gcmp: a case of the exhaustive grid
	// integers: every unary kernel and functor on every value, every binary one on every pair
	for _, x := range ints {
		for _, k := range c07IntKernels1 {
			emit(fmt.Sprintf("int %s %d 0", k, x))
		}
		for _, f := range unary {
			emit("fun " + encName(f) + " " + iw(x))
		}
		for _, y := range ints {
			for _, k := range c07IntKernels2 {
				emit(fmt.Sprintf("int %s %d %d", k, x, y))
			}
			if y >= 0 {
				emit(fmt.Sprintf("int intPow %d %d", x, y))
			}
			for _, f := range binary {
				emit("fun " + encName(f) + " " + iw(x) + " " + iw(y))
			}
			for _, op := range c07CmpOps {
				emit("cmp " + encName(op) + " " + iw(x) + " " + iw(y))
			}
		}
	}
	// floats
	for _, x := range floats {
		for _, f := range unary {
			emit("fun " + encName(f) + " " + fw(x))
		}
		for _, y := range floats {
			for _, f := range c07FloatBinary {
				emit("fun " + encName(f) + " " + fw(x) + " " + fw(y))
			}
			for _, op := range c07CmpOps {
				emit("cmp " + encName(op) + " " + fw(x) + " " + fw(y))
			}
		}
	}
	// integer-only functors on floats (type errors): a few representatives
	for _, f := range binary {
		for _, x := range []float64{1.5, -0.0, math.MaxFloat64} {
			emit("fun " + encName(f) + " " + fw(x) + " " + iw(3))
			emit("fun " + encName(f) + " " + iw(3) + " " + fw(x))
			emit("fun " + encName(f) + " " + fw(x) + " " + fw(2))
		}
	}
	// mixed mode: core integer grid × float grid, both orders
	for _, i := range c07CoreInts() {
		for _, x := range floats {
			for _, f := range c07MixedBinary {
				emit("fun " + encName(f) + " " + iw(i) + " " + fw(x))
				emit("fun " + encName(f) + " " + fw(x) + " " + iw(i))
			}
			for _, op := range c07CmpOps {
				emit("cmp " + encName(op) + " " + iw(i) + " " + fw(x))
				emit("cmp " + encName(op) + " " + fw(x) + " " + iw(i))
			}
		}
	}
	// random pairs
	num := func() string {
		if r.Intn(2) == 0 {
			return iw(c07RandInt(r))
		}
		return fw(c07RandFloat(r))
	}
	for i := 0; i < n; i++ {
		switch r.Intn(10) {
		case 0, 1, 2:
			k := pick(r, c07IntKernels2)
			out = append(out, fmt.Sprintf("int %s %d %d", k, c07RandInt(r), c07RandInt(r)))
		case 3:
			b := c07RandInt(r)
			if b < 0 {
				b = -(b + 1)
			}
			if r.Intn(2) == 0 {
				b %= 70
			}
			out = append(out, fmt.Sprintf("int intPow %d %d", c07RandInt(r), b))
		case 4:
			out = append(out, "fun "+encName(pick(r, unary))+" "+num())
		case 5, 6, 7:
			out = append(out, "fun "+encName(pick(r, binary))+" "+num()+" "+num())
		default:
			out = append(out, "cmp "+encName(pick(r, c07CmpOps))+" "+num()+" "+num())
		}
	}
	return out
}

// ---------------------------------------------------------------------------------------------
// canonical result lines
// ---------------------------------------------------------------------------------------------

func c07PanicName(msg string) string {
	switch {
	case strings.Contains(msg, "negative shift amount"):
		return "panic negativeShift"
	case strings.Contains(msg, "integer divide by zero"):
		return "panic divideByZero"
	}
	return "panic " + encName(msg)
}

func c07EvalErr(atom string) string { return "err C1:evaluation_error A" + encName(atom) }

// c07ErrLine canonicalises an error returned by a kernel (exceptionalValue, Exception, panic).
func c07ErrLine(err error) string {
	if a, ok := engine.VerifExceptionalValue(err); ok {
		return c07EvalErr(a.String())
	}
	msg := err.Error()
	if strings.HasPrefix(msg, "panic:") {
		return c07PanicName(msg)
	}
	return errWire(err)
}

func c07NumLine(n engine.Term) string {
	switch n := n.(type) {
	case engine.Integer:
		return "ok " + iw(int64(n))
	case engine.Float:
		return "ok " + fw(float64(n))
	}
	return "ok ?" + fmt.Sprintf("%T", n)
}

func c07Class(line string) string {
	switch {
	case strings.HasPrefix(line, "ok I"):
		return "int"
	case strings.HasPrefix(line, "ok F"):
		return "flt"
	case line == "true" || line == "false":
		return line
	case strings.HasPrefix(line, "err C1:evaluation_error A"):
		return strings.TrimPrefix(line, "err C1:evaluation_error A")
	case strings.HasPrefix(line, "err C2:type_error A"):
		return "type_error_" + strings.SplitN(strings.TrimPrefix(line, "err C2:type_error A"), " ", 2)[0]
	case strings.HasPrefix(line, "err Ainstantiation_error"):
		return "instantiation_error"
	case strings.HasPrefix(line, "panic"):
		return "panic"
	}
	return "other"
}

func bigInt(v int64) bool { return v >= 1<<31 || v <= -(1<<31) }

func smallIntFloat(f float64) bool {
	return f == math.Trunc(f) && math.Abs(f) < 1<<31 && !(f == 0 && math.Signbit(f))
}

// a case is non-trivial when it leaves the comfort zone of the unit tests: an error outcome, an integer
// operand or result of magnitude ≥ 2^31, or a float operand/result that is not a small integer
func c07NonTrivial(nums []engine.Term, line string) int {
	cls := c07Class(line)
	if cls != "int" && cls != "flt" && cls != "true" && cls != "false" {
		return 1
	}
	check := func(t engine.Term) bool {
		switch t := t.(type) {
		case engine.Integer:
			return bigInt(int64(t))
		case engine.Float:
			return !smallIntFloat(float64(t))
		}
		return false
	}
	for _, n := range nums {
		if check(n) {
			return 1
		}
	}
	if strings.HasPrefix(line, "ok I") {
		v, _ := strconv.ParseInt(line[4:], 10, 64)
		if bigInt(v) {
			return 1
		}
	}
	if strings.HasPrefix(line, "ok F") {
		b, _ := strconv.ParseUint(line[4:], 16, 64)
		if !smallIntFloat(math.Float64frombits(b)) {
			return 1
		}
	}
	return 0
}

func runC07Kernels(payload string) string {
	grid := "random"
	if strings.HasPrefix(payload, "g") {
		grid = "full"
		payload = payload[1:]
	}
	f := strings.Fields(payload)
	if len(f) < 3 {
		return "BAD-CASE"
	}
	var line, fn string
	var nums []engine.Term
	switch f[0] {
	case "int":
		x, err1 := strconv.ParseInt(f[2], 10, 64)
		y, err2 := strconv.ParseInt(f[3], 10, 64)
		must(err1)
		must(err2)
		fn = f[1]
		nums = []engine.Term{engine.Integer(x), engine.Integer(y)}
		v, e := engine.VerifIntOp(f[1], x, y)
		switch {
		case e == "":
			line = "ok " + iw(v)
		case strings.HasPrefix(e, "eval:"):
			line = c07EvalErr(strings.TrimPrefix(e, "eval:"))
		case strings.HasPrefix(e, "panic:"):
			line = c07PanicName(e)
		default:
			line = "err? " + encName(e)
		}
	case "fun":
		name, err := decName(f[1])
		must(err)
		fn = name
		ts, err := newTermDecoder().terms(strings.Join(f[2:], " "))
		must(err)
		args := make([]engine.Number, len(ts))
		for i, t := range ts {
			args[i] = t.(engine.Number)
			nums = append(nums, t)
		}
		res, e := engine.VerifEvalFunctorE(name, args...)
		if e != nil {
			line = c07ErrLine(e)
		} else {
			line = c07NumLine(res)
		}
	case "cmp":
		op, err := decName(f[1])
		must(err)
		fn = op
		ts, err := newTermDecoder().terms(strings.Join(f[2:], " "))
		must(err)
		nums = ts
		ok, e := engine.VerifCompareNumbers(c07CmpHook[op], ts[0], ts[1])
		if e != "" {
			line = "err? " + e
		} else if ok {
			line = "true"
		} else {
			line = "false"
		}
	default:
		return "BAD-CASE"
	}
	mode := ""
	for _, n := range nums {
		if _, ok := n.(engine.Float); ok {
			mode += "f"
		} else {
			mode += "i"
		}
	}
	if f[0] == "int" && len(mode) == 2 && (fn == "negI" || fn == "absI" || fn == "signI" || fn == "posI") {
		mode = "i"
	}
	return fmt.Sprintf("%s ### nt=%d kind=%s f=%s mode=%s res=%s grid=%s", line, c07NonTrivial(nums, line), f[0], encName(fn), mode, c07Class(line), grid)
}

// ---------------------------------------------------------------------------------------------
// c07.queries: expression trees
// ---------------------------------------------------------------------------------------------

var c07IntUnary = []string{"-", "+", "abs", "sign", "\\"}
var c07IntBinary = []string{"+", "-", "*", "//", "rem", "mod", "div", "max", "min", "^", "/\\", "\\/", "xor", "<<", ">>"}
var c07FltUnary = []string{"-", "+", "abs", "sign", "float", "floor", "truncate", "round", "ceiling", "float_integer_part", "float_fractional_part", "sqrt"}
var c07FltBinary = []string{"+", "-", "*", "/", "max", "min"}
var c07LibUnary = []string{"sin", "cos", "atan", "exp", "log", "asin", "acos", "tan"}
var c07LibBinary = []string{"**", "atan2"}

func c07Leaf(r *rand.Rand, floaty bool) engine.Term {
	if floaty && r.Intn(3) != 0 {
		return engine.Float(c07RandFloat(r))
	}
	switch r.Intn(10) {
	case 0, 1, 2:
		return engine.Integer(pick(r, c07CoreInts()))
	case 3:
		return engine.Integer(pick(r, c07ExtraInts()))
	default:
		return engine.Integer(c07RandInt(r))
	}
}

// c07Tree builds a random expression over the exactly comparable functors; floaty trees mix floats in.
func c07Tree(r *rand.Rand, depth int, floaty bool) engine.Term {
	if depth == 0 || r.Intn(5) == 0 {
		return c07Leaf(r, floaty)
	}
	if r.Intn(4) == 0 {
		var f string
		switch {
		case floaty && r.Intn(2) == 0:
			f = pick(r, c07FltUnary)
		default:
			f = pick(r, c07IntUnary)
		}
		return compound(f, c07Tree(r, depth-1, floaty))
	}
	var f string
	switch {
	case floaty && r.Intn(2) == 0:
		f = pick(r, c07FltBinary)
	default:
		f = pick(r, c07IntBinary)
		for floaty && f == "^" {
			// with a float operand ^ is math.Pow: a library value, only generated at the root
			f = pick(r, c07IntBinary)
		}
	}
	a := c07Tree(r, depth-1, floaty)
	b := c07Tree(r, depth-1, floaty)
	if (f == "<<" || f == ">>" || f == "^") && r.Intn(4) != 0 {
		// mostly sensible shift counts / exponents
		b = engine.Integer(int64(r.Intn(70)) - 2)
	}
	return compound(f, a, b)
}

// c07Malform replaces one random leaf by something that is not a number expression
func c07Malform(r *rand.Rand, t engine.Term) engine.Term {
	c, ok := t.(engine.Compound)
	if !ok || r.Intn(3) == 0 {
		switch r.Intn(5) {
		case 0:
			return engine.NewVariable()
		case 1:
			return atom("foo")
		case 2:
			return compound("foo", t)
		case 3:
			return compound("foo", t, engine.Integer(1), engine.Integer(2))
		default:
			return compound("succ_or_zero", t, engine.Integer(1))
		}
	}
	args := make([]engine.Term, c.Arity())
	for i := range args {
		args[i] = c.Arg(i)
	}
	k := r.Intn(len(args))
	args[k] = c07Malform(r, args[k])
	return c.Functor().Apply(args...)
}

func genC07Queries(r *rand.Rand, n int, tier string) []string {
	var out []string
	for i := 0; i < n; i++ {
		floaty := r.Intn(3) == 0
		depth := 1 + r.Intn(4)
		mk := func() engine.Term {
			t := c07Tree(r, depth, floaty)
			if r.Intn(12) == 0 {
				t = c07Malform(r, t)
			}
			return t
		}
		if floaty && r.Intn(8) == 0 {
			// a transcendental functor at the ROOT only: its value is a library matter (not compared),
			// its guards (domain checks, overflow/underflow/undefined) are
			if r.Intn(3) == 0 {
				out = append(out, "is "+wireRaw(compound(pick(r, append([]string{"^"}, c07LibBinary...)), mk(), mk())))
			} else {
				out = append(out, "is "+wireRaw(compound(pick(r, c07LibUnary), mk())))
			}
			continue
		}
		if r.Intn(10) < 7 {
			out = append(out, "is "+wireRaw(mk()))
		} else {
			out = append(out, "cmp "+encName(pick(r, c07CmpOps))+" "+wireRaw(mk())+" "+wireRaw(mk()))
		}
	}
	return out
}

var c07InfixOps = map[string]bool{"+": true, "-": true, "*": true, "/": true, "//": true, "div": true, "rem": true, "mod": true,
	"<<": true, ">>": true, "**": true, "^": true, "/\\": true, "\\/": true}
var c07PrefixOps = map[string]bool{"+": true, "-": true, "\\": true}

// c07Render writes the term as query text: numbers that have an exact literal are written as literals,
// floats and the minimum integer are passed as placeholders (exact Go values); compounds alternate
// between operator notation and canonical notation so that the real parser does both.
func c07Render(t engine.Term, sb *strings.Builder, args *[]interface{}, vars map[engine.Variable]string, flip *int) {
	switch t := t.(type) {
	case engine.Variable:
		n, ok := vars[t]
		if !ok {
			n = fmt.Sprintf("_V%d", len(vars))
			vars[t] = n
		}
		sb.WriteString(n)
	case engine.Atom:
		sb.WriteString(t.String())
	case engine.Integer:
		switch {
		case int64(t) == math.MinInt64:
			// the smallest integer: as a Go value, and as a LITERAL (its magnitude alone is not an integer:
			// the reader has to apply the sign before it checks the range), decimal / hexadecimal / octal
			*flip++
			switch *flip % 4 {
			case 0:
				sb.WriteString("(?)")
				*args = append(*args, int64(t))
			case 1:
				sb.WriteString("(-9223372036854775808)")
			case 2:
				sb.WriteString("(-0x8000000000000000)")
			default:
				sb.WriteString("(-0o1000000000000000000000)")
			}
		case t < 0:
			fmt.Fprintf(sb, "(%d)", int64(t))
		default:
			fmt.Fprintf(sb, "%d", int64(t))
		}
	case engine.Float:
		sb.WriteString("(?)")
		*args = append(*args, float64(t))
	case engine.Compound:
		name := t.Functor().String()
		*flip++
		opSyntax := *flip%2 == 0
		switch {
		case t.Arity() == 2 && c07InfixOps[name] && opSyntax:
			sb.WriteString("(")
			c07Render(t.Arg(0), sb, args, vars, flip)
			sb.WriteString(" " + name + " ")
			c07Render(t.Arg(1), sb, args, vars, flip)
			sb.WriteString(")")
		case t.Arity() == 1 && c07PrefixOps[name] && opSyntax:
			sb.WriteString("(" + name + " (")
			c07Render(t.Arg(0), sb, args, vars, flip)
			sb.WriteString("))")
		default:
			q := name
			if !isPlainAtom(name) {
				q = "'" + strings.ReplaceAll(name, "\\", "\\\\") + "'"
			}
			sb.WriteString(q + "(")
			for i := 0; i < t.Arity(); i++ {
				if i > 0 {
					sb.WriteString(", ")
				}
				c07Render(t.Arg(i), sb, args, vars, flip)
			}
			sb.WriteString(")")
		}
	}
}

func isPlainAtom(s string) bool {
	if s == "" || !(s[0] >= 'a' && s[0] <= 'z') {
		return false
	}
	for i := 0; i < len(s); i++ {
		c := s[i]
		if !(c == '_' || c >= 'a' && c <= 'z' || c >= 'A' && c <= 'Z' || c >= '0' && c <= '9') {
			return false
		}
	}
	return true
}

func c07Stats(t engine.Term, depth int, maxDepth *int, nodes *int, hasFloat, hasBig *bool) {
	*nodes++
	if depth > *maxDepth {
		*maxDepth = depth
	}
	switch t := t.(type) {
	case engine.Float:
		*hasFloat = true
	case engine.Integer:
		if bigInt(int64(t)) {
			*hasBig = true
		}
	case engine.Compound:
		for i := 0; i < t.Arity(); i++ {
			c07Stats(t.Arg(i), depth+1, maxDepth, nodes, hasFloat, hasBig)
		}
	}
}

func runC07Queries(payload string) string {
	f := strings.SplitN(payload, " ", 2)
	if len(f) != 2 {
		return "BAD-CASE"
	}
	var text strings.Builder
	var args []interface{}
	vars := map[engine.Variable]string{}
	flip := 0
	var terms []engine.Term
	kind := f[0]
	switch kind {
	case "is":
		ts, err := newTermDecoder().terms(f[1])
		must(err)
		terms = ts
		text.WriteString("X is ")
		c07Render(ts[0], &text, &args, vars, &flip)
	case "cmp":
		g := strings.SplitN(f[1], " ", 2)
		op, err := decName(g[0])
		must(err)
		ts, err := newTermDecoder().terms(g[1])
		must(err)
		terms = ts
		c07Render(ts[0], &text, &args, vars, &flip)
		text.WriteString(" " + op + " ")
		c07Render(ts[1], &text, &args, vars, &flip)
	default:
		return "BAD-CASE"
	}
	text.WriteString(" .")
	i, _ := newInterp("")
	var line string
	sols, err := i.Query(text.String(), args...)
	if err != nil {
		line = "queryerr " + encName(err.Error())
	} else {
		if sols.Next() {
			if kind == "cmp" {
				line = "true"
			} else {
				var any struct{ X interface{} }
				if err := sols.Scan(&any); err != nil {
					line = "scanerr " + encName(err.Error())
				} else {
					switch any.X.(type) {
					case int, int64:
						var v struct{ X int64 }
						must(sols.Scan(&v))
						line = "ok " + iw(v.X)
					case float64:
						var v struct{ X float64 }
						must(sols.Scan(&v))
						line = "ok " + fw(v.X)
					default:
						line = fmt.Sprintf("ok ?%T", any.X)
					}
				}
			}
		} else if err := sols.Err(); err != nil {
			msg := err.Error()
			if strings.HasPrefix(msg, "panic:") {
				line = c07PanicName(msg)
			} else {
				line = errWire(err)
			}
		} else {
			line = "false"
		}
		_ = sols.Close()
	}
	maxDepth, nodes := 0, 0
	hasFloat, hasBig := false, false
	for _, t := range terms {
		c07Stats(t, 0, &maxDepth, &nodes, &hasFloat, &hasBig)
	}
	cls := c07Class(line)
	nt := 0
	if nodes >= 3 && (hasBig || hasFloat || (cls != "int" && cls != "true" && cls != "false")) {
		nt = 1
	}
	if strings.HasPrefix(line, "ok I") {
		if v, _ := strconv.ParseInt(line[4:], 10, 64); bigInt(v) && nodes >= 3 {
			nt = 1
		}
	}
	mode := "int"
	if hasFloat {
		mode = "mixed"
	}
	return fmt.Sprintf("%s ### nt=%d kind=%s depth=%d mode=%s res=%s", line, nt, kind, maxDepth, mode, cls)
}
