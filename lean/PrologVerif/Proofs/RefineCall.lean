/-
  Refine — `callGoal`: the goal of `call/N` (and the query) is compiled at run time as the one-off
  clause `tuple(FVs) :- Goal`, after the bindings have been applied to it (`app env`).  That clause
  is a clause of the fragment (its head name, the NUL atom, is no predicate of bootstrap.pl), so
  everything proved about clause activations applies to it.
-/
import PrologVerif.Proofs.RefineStep
namespace PrologVerif.Refine
open PrologVerif PrologVerif.VM PrologVerif.DecompileCompile PrologVerif.Activation
  PrologVerif.RefineITree PrologVerif.RefineRobinson PrologVerif.VMScoped

/-! ### variables of the query -/

mutual
  theorem mem_termVars {v : Nat} : ∀ (t : Term) (acc : List Nat),
      v ∈ termVars t acc ↔ (v ∈ acc ∨ t.hasVar v = true)
    | .var w, acc => by
      simp only [termVars, Term.hasVar, beq_iff_eq]
      split
      · rename_i hc
        simp only [List.contains_eq_mem, decide_eq_true_eq] at hc
        constructor
        · exact fun h => Or.inl h
        · rintro (h | h)
          · exact h
          · subst h; exact hc
      · simp only [List.mem_append, List.mem_singleton]
        constructor
        · rintro (h | h)
          · exact Or.inl h
          · exact Or.inr h.symm
        · rintro (h | h)
          · exact Or.inl h
          · exact Or.inr h.symm
    | .atom _, acc => by simp [termVars, Term.hasVar]
    | .int _, acc => by simp [termVars, Term.hasVar]
    | .flt _, acc => by simp [termVars, Term.hasVar]
    | .str _, acc => by simp [termVars, Term.hasVar]
    | .app _ as, acc => by simp only [termVars, Term.hasVar]; exact mem_argsVars as acc
  theorem mem_argsVars {v : Nat} : ∀ (as : Args) (acc : List Nat),
      v ∈ argsVars as acc ↔ (v ∈ acc ∨ as.hasVar v = true)
    | .nil, acc => by simp [argsVars, Args.hasVar]
    | .cons t ts, acc => by
      simp only [argsVars, Args.hasVar, Bool.or_eq_true]
      rw [mem_argsVars ts, mem_termVars t]
      constructor
      · rintro ((h | h) | h)
        · exact Or.inl h
        · exact Or.inr (Or.inl h)
        · exact Or.inr (Or.inr h)
      · rintro (h | h | h)
        · exact Or.inl (Or.inl h)
        · exact Or.inl (Or.inr h)
        · exact Or.inr h
end

/-- the head `callGoal` gives the query's clause -/
def qHead (g : Term) : Term :=
  if ((termVars g []).map Term.var).isEmpty then Term.atom tupleName
  else Term.app tupleName (Args.ofList ((termVars g []).map Term.var))

theorem qHead_args (g : Term) : argList (qHead g) = (termVars g []).map Term.var := by
  unfold qHead
  split
  · rename_i h
    simp only [List.isEmpty_iff] at h
    simp [argList, h]
  · simp [argList]

theorem qHead_hasVar (g : Term) (v : Nat) : (qHead g).hasVar v = true ↔ g.hasVar v = true := by
  have hm := mem_termVars (v := v) g []
  simp only [List.not_mem_nil, false_or] at hm
  rw [← hm]
  unfold qHead
  split
  · rename_i h
    simp only [List.isEmpty_iff, List.map_eq_nil_iff] at h
    simp [Term.hasVar, h]
  · simp only [Term.hasVar, hasVar_ofList_iff, List.mem_map]
    constructor
    · rintro ⟨t, ⟨w, hw, rfl⟩, ht⟩
      simp only [Term.hasVar, beq_iff_eq] at ht
      subst ht; exact hw
    · intro h
      exact ⟨.var v, ⟨v, h, rfl⟩, by simp [Term.hasVar]⟩

theorem qHead_shape (g : Term) : Shape (qHead g) := by
  unfold qHead
  split
  · exact Or.inl ⟨_, rfl⟩
  · rename_i h
    refine Or.inr ⟨_, _, rfl, ?_⟩
    cases hl : (termVars g []).map Term.var with
    | nil => simp [hl] at h
    | cons a as => simp [Args.ofList, Args.length]

/-! ### the NUL atom is no predicate of bootstrap.pl -/

def bootNoTuple : Bool := bootState.procs.all (fun e => e.1.1 != tupleName)

theorem bootNoTuple_eq : bootNoTuple = true := by decide +kernel

theorem lookup_none_of_all {α β : Type} [BEq α] [LawfulBEq α] (k : α) :
    ∀ l : List (α × β), (∀ e ∈ l, e.1 ≠ k) → l.lookup k = none
  | [], _ => rfl
  | (a, b) :: l, h => by
    have ha : a ≠ k := h (a, b) (by simp)
    have : (k == a) = false := by simpa using fun e => ha e.symm
    simp only [List.lookup, this]
    exact lookup_none_of_all k l (fun e he => h e (by simp [he]))

theorem userPred_tuple (n : Nat) : userPred tupleName n = true := by
  have h := bootNoTuple_eq
  simp only [bootNoTuple, List.all_eq_true, bne_iff_ne, ne_eq] at h
  simp only [userPred, Bool.and_eq_true, Bool.not_eq_true', Option.isNone_iff_eq_none]
  constructor
  · decide
  · unfold lookupProc
    apply lookup_none_of_all
    intro e he heq
    exact h e he (by rw [heq])

/-! ### the query's clause is a clause of the fragment -/

mutual
  theorem wfT_rename (ρ : Nat → Nat) : ∀ t : Term, wfT (t.rename ρ) = wfT t
    | .var _ => rfl
    | .atom _ => rfl
    | .int _ => rfl
    | .flt _ => rfl
    | .str _ => rfl
    | .app f .nil => rfl
    | .app f (.cons a as) => by
      have h1 := wfT_rename ρ a
      have h2 := wfAs_rename ρ as
      simp only [Term.rename, Args.rename] at h1 h2
      simp only [Term.rename, Term.subst, Args.subst, wfT, h1, h2]
  theorem wfAs_rename (ρ : Nat → Nat) : ∀ as : Args, wfAs (as.rename ρ) = wfAs as
    | .nil => rfl
    | .cons t ts => by
      have h1 := wfT_rename ρ t
      have h2 := wfAs_rename ρ ts
      simp only [Term.rename, Args.rename] at h1 h2
      simp only [Args.rename, Args.subst, wfAs, h1, h2]
end

theorem wfAs_ofList_vars : ∀ l : List Nat, wfAs (Args.ofList (l.map Term.var)) = true
  | [] => rfl
  | _ :: l => by simp [Args.ofList, wfAs, wfT, wfAs_ofList_vars l]

theorem wfT_qHead (g : Term) : wfT (qHead g) = true := by
  unfold qHead
  split
  · rfl
  · rename_i h
    cases hl : (termVars g []) with
    | nil => simp [hl] at h
    | cons a as =>
      simp only [List.map_cons, Args.ofList, wfT, Bool.true_and]
      exact wfAs_ofList_vars as

/-- the clause `callGoal` compiles for the (instantiated) goal `g` -/
def qClause (g : Term) : Term := SLD.rule (qHead g) g

theorem clauseC_qClause {fl : Bool} {g : Term} (hb : bodyS fl g = true) (hw : wfT g = true) :
    clauseC fl (qClause g) = true := by
  have hh : hornHead (qHead g) = true := by
    unfold qHead
    split
    · simp [hornHead, userPred_tuple]
    · rename_i h
      simp only [hornHead, Bool.and_eq_true, decide_eq_true_eq, userPred_tuple, and_true]
      cases hl : (termVars g []).map Term.var with
      | nil => simp [hl] at h
      | cons a as => simp [Args.ofList, Args.length]
  simp only [clauseC, qClause, SLD.rule, SLD.mk2, SLD.headBody, wfT, wfAs, Bool.and_true, Bool.and_eq_true]
  exact ⟨⟨⟨wfT_qHead g, hw⟩, headOK_of_horn hh⟩, hb⟩

/-! ### `callGoal` -/

theorem res_nonvar (env : Env) (t : Term) (h : ∀ v, t ≠ .var v) : res env t = t := by
  unfold res
  cases t with
  | var v => exact absurd rfl (h v)
  | _ => simp [resolve]

theorem app_nil (t : Term) : app [] t = t := by
  unfold app
  cases h : applyAll inner [] t with
  | none => rfl
  | some t' =>
    simp only [Option.getD_some]
    rw [applyAll_eq_subst isMGU_empty inner t t' h, Term.subst_id]

/-- `callGoal` when the goal is dereferenced to `g0`, instantiated to `g'`, a body of the fragment -/
theorem callGoal_ok' {fl : Bool} (g : Term) (K : Cont) (env : Env) (m : MS) (g0 g' : Term)
    (hr : res env g = g0) (hnv : ∀ v, g0 ≠ .var v)
    (ha : app env g0 = g') (hb : bodyS fl g' = true) (hw : wfT g' = true) :
    callGoal g K env m = clausesCall [clauseOf (qClause g')] (argList (qHead g')) K env m := by
  unfold callGoal
  rw [hr]
  have hcc : compileCall g0 env = .ok ([clauseOf (qClause g')], argList (qHead g')) := by
    unfold compileCall
    simp only [ha]
    have := (clauseOf_spec (qClause g') (clauseC_qClause hb hw)).1
    change (match compile (toRep (qClause g')) with
      | .ok cs => Except.ok (cs, (termVars g' []).map Term.var)
      | .error e => .error e) = _
    rw [this, qHead_args]
  cases g0 with
  | var v => exact absurd rfl (hnv v)
  | _ => simp only [hcc]

/-- `callGoal` when the inner fuel suffices and the instantiated goal is a body of the fragment -/
theorem callGoal_ok {fl : Bool} (g : Term) (K : Cont) (env : Env) (m : MS) (g0 g' : Term)
    (hres : resolve inner env g = some g0) (hnv : ∀ v, g0 ≠ .var v)
    (happ : applyAll inner env g0 = some g') (hb : bodyS fl g' = true) (hw : wfT g' = true) :
    callGoal g K env m = clausesCall [clauseOf (qClause g')] (argList (qHead g')) K env m :=
  callGoal_ok' g K env m g0 g' (by simp [res, hres]) hnv (by simp [app, happ]) hb hw

/-- the query: compiled in the empty environment -/
theorem callGoal_query {fl : Bool} (g : Term) (K : Cont) (m : MS) (hb : bodyS fl g = true) (hw : wfT g = true)
    (hnv : ∀ v, g ≠ .var v) :
    callGoal g K [] m = clausesCall [clauseOf (qClause g)] (argList (qHead g)) K [] m :=
  callGoal_ok' g K [] m g g (res_nonvar [] g hnv) hnv (app_nil g) hb hw

theorem headOK_qHead (g : Term) : headOK (qHead g) = true := by
  unfold qHead
  split
  · rfl
  · rename_i h
    cases hl : (termVars g []).map Term.var with
    | nil => simp [hl] at h
    | cons a as =>
      have h1 : tupleName ≠ "." := by decide
      have h2 : tupleName ≠ ":-" := by decide
      simp [headOK, Args.ofList, Args.length, h1, h2]

/-- `callGoal` when the inner fuel suffices and the top-level disjuncts of the instantiated goal are
    bodies of the fragment: one clause per disjunct -/
theorem callGoal_okM' {fl : Bool} (g : Term) (K : Cont) (env : Env) (m : MS) (g0 g' : Term)
    (hr : res env g = g0) (hnv : ∀ v, g0 ≠ .var v)
    (ha : app env g0 = g') (hb : dbodyS fl g' = true) (hw : wfT g' = true) :
    ∃ cs, Forall2 (fun cl dj => CRel fl cl (qHead g') dj) cs (SLD.disjuncts g') ∧
      callGoal g K env m = clausesCall cs (argList (qHead g')) K env m := by
  obtain ⟨cs, hcomp, hrel⟩ := rule_layouts (fl := fl) (qHead g') g' (wfT_qHead g') hw (headOK_qHead g')
    (by simpa [dbodyS, List.all_eq_true] using hb)
  refine ⟨cs, hrel, ?_⟩
  unfold callGoal
  rw [hr]
  have hcc : compileCall g0 env = .ok (cs, argList (qHead g')) := by
    unfold compileCall
    simp only [ha]
    change (match compile (toRep (qClause g')) with
      | .ok cs => Except.ok (cs, (termVars g' []).map Term.var)
      | .error e => .error e) = _
    rw [show toRep (qClause g') = toRep (.app ":-" (.cons (qHead g') (.cons g' .nil))) from rfl, hcomp, qHead_args]
  cases g0 with
  | var v => exact absurd rfl (hnv v)
  | _ => simp only [hcc]

theorem callGoal_okM {fl : Bool} (g : Term) (K : Cont) (env : Env) (m : MS) (g0 g' : Term)
    (hres : resolve inner env g = some g0) (hnv : ∀ v, g0 ≠ .var v)
    (happ : applyAll inner env g0 = some g') (hb : dbodyS fl g' = true) (hw : wfT g' = true) :
    ∃ cs, Forall2 (fun cl dj => CRel fl cl (qHead g') dj) cs (SLD.disjuncts g') ∧
      callGoal g K env m = clausesCall cs (argList (qHead g')) K env m :=
  callGoal_okM' g K env m g0 g' (by simp [res, hres]) hnv (by simp [app, happ]) hb hw

/-- the query: compiled in the empty environment -/
theorem callGoal_queryM {fl : Bool} (g : Term) (K : Cont) (m : MS) (hb : dbodyS fl g = true) (hw : wfT g = true)
    (hnv : ∀ v, g ≠ .var v) :
    ∃ cs, Forall2 (fun cl dj => CRel fl cl (qHead g) dj) cs (SLD.disjuncts g) ∧
      callGoal g K [] m = clausesCall cs (argList (qHead g)) K [] m :=
  callGoal_okM' g K [] m g g (res_nonvar [] g hnv) hnv (app_nil g) hb hw

theorem callGoal_var (g : Term) (K : Cont) (env : Env) (m : MS) (v : Nat)
    (hres : resolve inner env g = some (.var v)) : callGoal g K env m = mkErr instErr env m := by
  unfold callGoal
  have hr : res env g = .var v := by simp [res, hres]
  rw [hr]

end PrologVerif.Refine
