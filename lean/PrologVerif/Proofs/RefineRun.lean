/-
  Refine, part 9 — running a continuation (`cont_run`): from a continuation point of the VM related
  to a resolvent of the reference interpreter, the VM's inline run (answers, `=`/2 goals, up to the
  next predicate call) produces a promise that is SPECIFIED (`PSpec`) by the result of the
  reference's `solve` on that resolvent.
-/
import PrologVerif.Proofs.RefineCall
import PrologVerif.Proofs.CollectCanon
namespace PrologVerif.Refine
open PrologVerif PrologVerif.VM PrologVerif.DecompileCompile PrologVerif.Activation
  PrologVerif.RefineITree PrologVerif.RefineRobinson PrologVerif.VMScoped

/-! ### answers -/

/-- a VM answer `a1` against the reference's `a2`: equal up to renaming by first occurrence — or the
    VM's `applyAll` ran out of its inner fuel (100000) and `app` returned the template unresolved -/
def AnsRel (tmpl a1 a2 : Term) : Prop :=
  a1.canon = a2.canon ∨ (a1 = tmpl ∧ ∃ (σ : Subst) (π : Nat → Nat), a2 = (tmpl.subst σ).rename π)

mutual
  theorem specRename_eq (ρ : Nat → Nat) : ∀ t : Term, CollectSpec.rename ρ t = t.rename ρ
    | .var _ => rfl
    | .atom _ => rfl
    | .int _ => rfl
    | .flt _ => rfl
    | .str _ => rfl
    | .app f as => by
      simp only [CollectSpec.rename, Term.rename, Term.subst]
      rw [specRenameArgs_eq ρ as]; rfl
  theorem specRenameArgs_eq (ρ : Nat → Nat) : ∀ as : Args, CollectSpec.renameArgs ρ as = as.rename ρ
    | .nil => rfl
    | .cons t ts => by
      simp only [CollectSpec.renameArgs, Args.rename, Args.subst]
      rw [specRename_eq ρ t, specRenameArgs_eq ρ ts]; rfl
end

mutual
  theorem mem_vars_hasVar {v : Nat} : ∀ t : Term, v ∈ Collect.vars t → t.hasVar v = true
    | .var w, h => by
      simp only [Collect.vars, List.mem_singleton] at h
      simp [Term.hasVar, h]
    | .atom _, h => by simp [Collect.vars] at h
    | .int _, h => by simp [Collect.vars] at h
    | .flt _, h => by simp [Collect.vars] at h
    | .str _, h => by simp [Collect.vars] at h
    | .app _ as, h => by
      simp only [Term.hasVar]
      exact mem_varsArgs_hasVar as (by simpa [Collect.vars] using h)
  theorem mem_varsArgs_hasVar {v : Nat} : ∀ as : Args, v ∈ Collect.varsArgs as → as.hasVar v = true
    | .nil, h => by simp [Collect.varsArgs] at h
    | .cons t ts, h => by
      simp only [Collect.varsArgs, List.mem_append] at h
      simp only [Args.hasVar, Bool.or_eq_true]
      rcases h with h | h
      · exact Or.inl (mem_vars_hasVar t h)
      · exact Or.inr (mem_varsArgs_hasVar ts h)
end

theorem canon_term_rename {π : Nat → Nat} (t : Term)
    (h : ∀ a b, t.hasVar a = true → t.hasVar b = true → π a = π b → a = b) : (t.rename π).canon = t.canon := by
  rw [← specRename_eq]
  exact Collect.canon_rename t (fun a ha b hb => h a b (mem_vars_hasVar t ha) (mem_vars_hasVar t hb))

theorem ansRel_of_sim {tmpl : Term} {N : Nat} {env : Env} {σ : Subst} {π : Nat → Nat} {D : Nat → Prop}
    {nv : Nat} (h : SimW tmpl N env σ π D nv) : AnsRel tmpl (app env tmpl) (img σ π tmpl) := by
  unfold app
  cases ha : applyAll inner env tmpl with
  | none => exact Or.inr ⟨rfl, σ, π, rfl⟩
  | some t =>
    left
    simp only [Option.getD_some]
    rw [applyAll_eq_subst h.mg.mgu inner tmpl t ha]
    symm
    apply canon_term_rename
    intro a b ha hb hab
    exact h.inj a b (vars_subst_rv h.tmplD ha) (vars_subst_rv h.tmplD hb) hab

/-! ### states and specifications -/

/-- the program is loaded (nothing in the fragment changes the procedure table); ids are positive -/
def StOK (prog : List Term) (m : MS) : Prop :=
  m.user.procs = (initState prog none).procs ∧ 0 < m.user.nextId ∧ m.user.cancelAt = none

theorem StOK.nextId {prog : List Term} {m : MS} (h : StOK prog m) :
    StOK prog { m with user := { m.user with nextId := m.user.nextId + 1 } } :=
  ⟨h.1, Nat.succ_pos _, h.2.2⟩

theorem lookupProc_stOK {prog : List Term} {m : MS} (h : StOK prog m) (f : String) (n : Nat) :
    lookupProc m.user f n = lookupProc (initState prog none) f n := by
  unfold lookupProc; rw [h.1]

/-- the reference's clause list -/
def progS (prog : List Term) : List Term := prog.flatMap SLD.splitClause ++ SLD.library

/-! ### levels -/

def isCut (it : Term × Nat) : Prop := it.1 = .atom "!"

/-- the cut goals among the pending goals have a level, and the levels do not increase along the
    list (the goals of inner activations come first) -/
def CutsOK (lv : Lv) (G : List (Term × Nat)) : Prop :=
  (∀ it ∈ G, isCut it → ∃ l, lv.lev it.2 = some l) ∧
  G.Pairwise (fun a b => isCut a → isCut b → ∀ la lb, lv.lev a.2 = some la → lv.lev b.2 = some lb → lb ≤ la)

theorem CutsOK.nil (lv : Lv) : CutsOK lv [] := ⟨fun _ h => by simp at h, .nil⟩

theorem CutsOK.tail {lv : Lv} {it : Term × Nat} {G : List (Term × Nat)} (h : CutsOK lv (it :: G)) : CutsOK lv G :=
  ⟨fun it' h' => h.1 it' (by simp [h']), (List.pairwise_cons.1 h.2).2⟩

/-- the path's level map is in order: ids distinct and non-zero, levels strictly decreasing outward,
    all below the current depth `d` -/
structure LvOK (mo : Option Nat) (lv : Lv) (d : Nat) : Prop where
  nodup : (lv.map Prod.fst).Nodup
  nz : ∀ e ∈ lv, e.1 ≠ 0
  mono : lv.Pairwise (fun a b => ∀ la lb, a.2 = some la → b.2 = some lb → lb < la)
  below : ∀ e ∈ lv, ∀ l, e.2 = some l → l < d
  /-- in the search nested in `\\+`: everything is above the level of the cut of `\\+` -/
  lo : ∀ dN, mo = some dN → dN < d
  above : ∀ dN, mo = some dN → ∀ e ∈ lv, ∀ l, e.2 = some l → dN < l

theorem lookup_of_mem_nodup {α β : Type} [BEq α] [LawfulBEq α] : ∀ {l : List (α × β)} {e : α × β},
    (l.map Prod.fst).Nodup → e ∈ l → l.lookup e.1 = some e.2
  | [], _, _, h => by simp at h
  | (a, b) :: l, e, hn, h => by
    simp only [List.map_cons, List.nodup_cons] at hn
    rcases List.mem_cons.1 h with rfl | h'
    · simp [List.lookup]
    · have hne : (e.1 == a) = false := by
        simp only [beq_eq_false_iff_ne, ne_eq]
        intro heq
        exact hn.1 (heq ▸ List.mem_map_of_mem h')
      simp only [List.lookup, hne]
      exact lookup_of_mem_nodup hn.2 h'

theorem mem_of_lookup {α β : Type} [BEq α] [LawfulBEq α] : ∀ {l : List (α × β)} {a : α} {b : β},
    l.lookup a = some b → (a, b) ∈ l
  | [], _, _, h => by simp [List.lookup] at h
  | (a', b') :: l, a, b, h => by
    simp only [List.lookup] at h
    split at h
    · rename_i heq
      simp only [Option.some.injEq] at h
      simp only [beq_iff_eq] at heq
      subst h; subst heq
      simp
    · exact List.mem_cons_of_mem _ (mem_of_lookup h)

theorem Lv.lev_of_mem {lv : Lv} {e : Nat × Option Nat} (hn : (lv.map Prod.fst).Nodup) (h : e ∈ lv) :
    lv.lev e.1 = e.2 := by
  unfold Lv.lev
  rw [lookup_of_mem_nodup hn h]; rfl

theorem Lv.mem_of_lev {lv : Lv} {c l : Nat} (h : lv.lev c = some l) : (c, some l) ∈ lv := by
  unfold Lv.lev at h
  cases hl : lv.lookup c with
  | none => rw [hl] at h; cases h
  | some o =>
    rw [hl] at h
    simp only [Option.getD_some] at h
    subst h
    exact mem_of_lookup hl

/-- a continuation point of the VM (`K` under `env`, variable counter at least `nvar`) against a
    configuration of the reference (`R`, `q`, `nv`) on a path with level map `lv`; `P` says more
    about σ, π, D -/
def SimAt (fl : Bool) (mo : Option Nat) (tmpl : Term) (max : Nat) (lv : Lv) (K : Cont) (env : Env) (nvar : Nat) (R : List SLD.Frame) (q : Term)
    (nv : Nat) (P : Subst → (Nat → Nat) → (Nat → Prop) → Prop) : Prop :=
  ∃ N σ π D G, N ≤ nvar ∧ SimW tmpl N env σ π D nv ∧ ContGoals fl mo tmpl max K G ∧ GRel mo lv σ π D G R ∧
    CutsOK lv G ∧ q = img σ π tmpl ∧ P σ π D

theorem SimAt.mono {fl : Bool} {mo : Option Nat} {tmpl : Term} {max : Nat} {lv : Lv} {K : Cont} {env : Env} {nvar nvar' : Nat} {R : List SLD.Frame}
    {q : Term} {nv : Nat} {P : Subst → (Nat → Nat) → (Nat → Prop) → Prop}
    (h : SimAt fl mo tmpl max lv K env nvar R q nv P) (hn : nvar ≤ nvar') : SimAt fl mo tmpl max lv K env nvar' R q nv P := by
  obtain ⟨N, σ, π, D, G, h1, h2⟩ := h
  exact ⟨N, σ, π, D, G, Nat.le_trans h1 hn, h2⟩

def errT (F c : Term) : Term := .app "error" (.cons F (.cons c .nil))

/-- `x` is a variable of the clause term `c` -/
def CV (c : Term) (x : Nat) : Prop :=
  (SLD.headBody c).1.hasVar x = true ∨ (SLD.headBody c).2.hasVar x = true

/-- predicate indicator of the goal `g` -/
def goalKey (g : Term) : String × Nat := (functorName g, (argList g).length)

/-- the goals of a clause body against frames of the reference: the frame is the instance of the
    goal (a cut: with the level `d` of the call), or — for a goal `call(X)` — `call` of the instance
    (the reference's `once/1`, `\\+` call `call(G)`) -/
inductive FrRel (inst : Term → Term) (d : Nat) : List Term → List SLD.Frame → Prop
  | nil : FrRel inst d [] []
  | cons {bg : Term} {Bs : List Term} {Fs : List SLD.Frame} (l : Nat) : (bg = .atom "!" → l = d) →
      FrRel inst d Bs Fs → FrRel inst d (bg :: Bs) (.goal (inst bg) l :: Fs)
  | callw {x : Term} {Bs : List Term} {Fs : List SLD.Frame} (l : Nat) :
      FrRel inst d Bs Fs → FrRel inst d (SLD.call1 x :: Bs) (.goal (SLD.call1 (inst (SLD.call1 x))) l :: Fs)

theorem FrRel.congr {inst inst' : Term → Term} {d : Nat} {Bs : List Term} {Fs : List SLD.Frame}
    (h : FrRel inst d Bs Fs) (heq : ∀ bg ∈ Bs, inst bg = inst' bg) : FrRel inst' d Bs Fs := by
  induction h with
  | nil => exact .nil
  | cons l hl _ ih =>
    rw [heq _ (by simp)]
    exact .cons l hl (ih (fun bg hbg => heq bg (by simp [hbg])))
  | callw l _ ih =>
    rw [heq _ (by simp)]
    exact .callw l (ih (fun bg hbg => heq bg (by simp [hbg])))

/-- a compiled clause of the VM, the clause term `Head :- Body` it stands for (one alternative of the
    body of the clause it was compiled from), and the alternative of the reference (if any) -/
abbrev Item := Clause × Term × Option SLD.Alt

/-- **how a clause of the VM, called with the arguments of the goal `g`, relates to an alternative
    of the reference** (σ, π, D: the simulation relation at the call; `nv` the reference's variable
    counter; `d` the depth of the call):
    * `prog`: a clause of the program — the reference resolves the goal with it;
    * `frames`: a clause without counterpart in the reference's program (the clause `call/1`
      compiles, a control clause of bootstrap.pl) — the reference puts the frames `Fs` in front of
      the resolvent: they are the body of the clause under the unifier τ2 of goal and (renamed) head,
      which only binds the new names; then possibly `call(true)` frames the VM has no goal for;
    * `dead`: the head does not unify with the goal: no alternative of the reference -/
inductive AltRel (fl : Bool) (σ : Subst) (π : Nat → Nat) (D : Nat → Prop) (nv d : Nat) (g : Term) :
    Clause → Term → Option SLD.Alt → Prop
  | prog {cl : Clause} {c : Term} : CRel fl cl (SLD.headBody c).1 (SLD.headBody c).2 → headKey c = goalKey g →
      AltRel fl σ π D nv d g cl c (some (.clause (img σ π g) (ruleOf c)))
  | frames {cl : Clause} {c : Term} (κ : Nat → Nat) (nv' : Nat) (τ2 : Subst) (ls : List Nat) {Fs : List SLD.Frame} :
      CRel fl cl (SLD.headBody c).1 (SLD.headBody c).2 → headKey c = goalKey g → nv ≤ nv' →
      (∀ x y, CV c x → CV c y → κ x = κ y → x = y) →
      (∀ x u, CV c x → RV σ D u → π u ≠ κ x) →
      (∀ x, CV c x → κ x < nv') →
      MguLike (img σ π g) ((SLD.headBody c).1.rename κ) τ2 →
      (∀ s : Term, (∀ z, s.hasVar z = true → z < nv) → s.subst τ2 = s) →
      (∀ x, CV c x → ∀ z, (τ2 (κ x)).hasVar z = true → z < nv) →
      FrRel (fun bg => (bg.rename κ).subst τ2) d (SLD.conjuncts (SLD.headBody c).2) Fs →
      AltRel fl σ π D nv d g cl c (some (.frames (Fs ++ ls.map skipF)))
  | dead {cl : Clause} {c : Term} (κ : Nat → Nat) (nv' : Nat) :
      CRel fl cl (SLD.headBody c).1 (SLD.headBody c).2 → headKey c = goalKey g → nv ≤ nv' →
      (∀ x y, CV c x → CV c y → κ x = κ y → x = y) →
      (∀ x u, CV c x → RV σ D u → π u ≠ κ x) →
      (∀ x, CV c x → κ x < nv') →
      (∃ n, Robinson.solve n [(img σ π g, (SLD.headBody c).1.rename κ)] [] = .clash) →
      AltRel fl σ π D nv d g cl c none

/-- the clauses of a call against the alternatives of the reference, in order.  `vcut`: the body
    of the clause starts with a cut that the reference does not have (`_ -> _ ; Else :- !, Else.`):
    harmless when nothing follows in the reference (the clauses that follow in the VM are cut away) -/
inductive AltsRel (fl : Bool) (σ : Subst) (π : Nat → Nat) (D : Nat → Prop) (nv d : Nat) (g : Term) :
    List Item → Prop
  | nil : AltsRel fl σ π D nv d g []
  | cons {cl : Clause} {c : Term} {a : Option SLD.Alt} {its : List Item} :
      AltRel fl σ π D nv d g cl c a → AltsRel fl σ π D nv d g its → AltsRel fl σ π D nv d g ((cl, c, a) :: its)
  | vcut {cl : Clause} {c : Term} {Fs Fs' : List SLD.Frame} {its : List Item} :
      AltRel fl σ π D nv d g cl c (some (.frames Fs')) → Fs' = .goal (.atom "!") d :: Fs →
      its.filterMap (·.2.2) = [] →
      AltsRel fl σ π D nv d g ((cl, c, some (.frames Fs)) :: its)

theorem altsRel_of_forall {fl : Bool} {σ : Subst} {π : Nat → Nat} {D : Nat → Prop} {nv d : Nat} {g : Term} :
    ∀ {its : List Item}, (∀ it ∈ its, AltRel fl σ π D nv d g it.1 it.2.1 it.2.2) →
      AltsRel fl σ π D nv d g its
  | [], _ => .nil
  | (cl, c, a) :: its, h => .cons (h (cl, c, a) (by simp)) (altsRel_of_forall (fun it hit => h it (by simp [hit])))

/-- the body of a WRAPPER clause (`P ; Q :- call((P ; Q)).`): the VM calls the clause, the reference
    does not — it runs the body in place of the goal, at the depth of the goal; the body has no cut
    (the clause has no level in the reference) -/
def WrapBody (c : Term) : Prop :=
  (∀ bg ∈ SLD.conjuncts (SLD.headBody c).2, bg ≠ .atom "!") ∧ (SLD.headBody c).2 ≠ .atom "true"

/-- the alternatives of `\\+ G` ≡ `(call(G) -> fail ; true)` in the reference -/
def negAlts (c : Term) (d l : Nat) : List SLD.Alt :=
  [.frames [.goal (SLD.call1 (SLD.call1 c)) d, .goal (.atom "!") d, .goal (SLD.call1 (.atom "fail")) l],
   .frames [skipF l]]

/-- what the search below a promise `p` (in state `m`, on a path with level map `lv`, `ans0` the
    answers when the corresponding reference computation — at depth `d` — started) has to deliver:
    the result `r` of that computation -/
inductive PSpec (fl : Bool) (mo : Option Nat) (tmpl : Term) (max : Nat) (prog : List Term) : Lv → Nat → Pr → MS → List Term → SLD.Res → Prop
  | fail {lv : Lv} {d : Nat} {m : MS} {ans0 : List Term} : m.user.answers = ans0 →
      PSpec fl mo tmpl max prog lv d failP m ans0 ⟨[], .exhausted⟩
  | done {lv : Lv} {d dN : Nat} {m : MS} {ans0 : List Term} : mo = some dN → m.user.answers = ans0 →
      PSpec fl mo tmpl max prog lv d okP m ans0 ⟨[], .cut dN⟩
  | answer {lv : Lv} {d : Nat} {m : MS} {ans0 : List Term} {a q : Term} : mo = none →
      m.user.answers = a :: ans0 → AnsRel tmpl a q →
      PSpec fl mo tmpl max prog lv d (if (a :: ans0).length ≥ max then okP else failP) m ans0
        ⟨[q], if max - ans0.length = 1 then .full else .exhausted⟩
  | err {lv : Lv} {d : Nat} {m : MS} {ans0 : List Term} {F c1 c2 : Term} : m.user.answers = ans0 →
      PSpec fl mo tmpl max prog lv d (errP (.exc (errT F c1))) m ans0 ⟨[], .raised (errT F c2) []⟩
  | alts {lv : Lv} {m : MS} {ans0 : List Term} {id : Nat} {its : List Item} {g : Term}
      {K : Cont} {env : Env} {R : List SLD.Frame} {q : Term} {nv n d : Nat} {r : SLD.Res} :
      m.user.answers = ans0 → id ≠ 0 → Shape g →
      SimAt fl mo tmpl max lv K env m.user.nextVar R q nv
        (fun σ π D => InD D g ∧ AltsRel fl σ π D nv d g its) →
      SLD.solveAlts false (progS prog) n d nv (its.filterMap (·.2.2)) R q (max - ans0.length) = some r →
      PSpec fl mo tmpl max prog lv d
        { id := id, delayed := its.map (fun it => Thunk.clause it.1 (argList g) K env id) } m ans0 r
  | direct {lv : Lv} {m : MS} {ans0 : List Term} {id : Nat} {ct : Clause} {K : Cont} {env : Env}
      {R : List SLD.Frame} {q : Term} {nv n d : Nat} {r : SLD.Res} :
      m.user.answers = ans0 → id ≠ 0 → ct.code = [.exit] → ct.vars = [] →
      SimAt fl mo tmpl max lv K env m.user.nextVar R q nv (fun _ _ _ => True) →
      SLD.solve false (progS prog) n d nv R q (max - ans0.length) = some r →
      PSpec fl mo tmpl max prog lv d { id := id, delayed := [Thunk.clause ct [] K env id] } m ans0 r
  | cut {lv : Lv} {m : MS} {ans0 : List Term} {pc : List Op} {vars : List Nat} {k : Cont} {cp l : Nat} {env : Env}
      {R : List SLD.Frame} {q : Term} {nv n d : Nat} {r : SLD.Res}
      {N : Nat} {σ : Subst} {π : Nat → Nat} {D : Nat → Prop} {G' : List (Term × Nat)} :
      m.user.answers = ans0 → lv.lev cp = some l →
      N ≤ m.user.nextVar → SimW tmpl N env σ π D nv → ContGoals fl mo tmpl max (.exec pc vars cp k) G' →
      GRel mo lv σ π D G' R → CutsOK lv G' → q = img σ π tmpl →
      (∀ it ∈ G', isCut it → ∀ l', lv.lev it.2 = some l' → l' ≤ l) →
      SLD.solve false (progS prog) n d nv R q (max - ans0.length) = some r →
      PSpec fl mo tmpl max prog lv d (cutPromise pc vars k env cp) m ans0 (SLD.afterCut l r)
  | wrap {lv : Lv} {m : MS} {ans0 : List Term} {id : Nat} {its : List Item} {cl : Clause} {c g : Term}
      {K : Cont} {env : Env} {R : List SLD.Frame} {q : Term} {nv n d : Nat} {r : SLD.Res} {Fs : List SLD.Frame} :
      m.user.answers = ans0 → id ≠ 0 → Shape g →
      SimAt fl mo tmpl max lv K env m.user.nextVar R q nv
        (fun σ π D => InD D g ∧ AltsRel fl σ π D nv d g its ∧ its.filterMap (·.2.2) = [] ∧
          AltRel fl σ π D nv d g cl c (some (.frames Fs)) ∧ WrapBody c) →
      SLD.solve false (progS prog) n d nv (Fs ++ R) q (max - ans0.length) = some r →
      PSpec fl mo tmpl max prog lv d
        { id := id, delayed := its.map (fun it => Thunk.clause it.1 (argList g) K env id) ++
            [Thunk.clause cl (argList g) K env id] } m ans0 r
  | neg {lv : Lv} {m : MS} {ans0 : List Term} {id : Nat} {g c : Term} {K : Cont} {env : Env}
      {R : List SLD.Frame} {q : Term} {nv n d l : Nat} {r : SLD.Res} :
      m.user.answers = ans0 → id ≠ 0 → fl = true →
      SimAt fl mo tmpl max lv K env m.user.nextVar R q nv (fun σ π D => InD D g ∧ c = img σ π g) →
      SLD.solveAlts false (progS prog) n d nv (negAlts c d l) R q (max - ans0.length) = some r →
      PSpec fl mo tmpl max prog lv d { id := id, delayed := [Thunk.negate g K env] } m ans0 r

/-! ### calls with one alternative that the VM does not make (`call(call(G))`, `call(true)`) -/



/-- what a call with one alternative makes of the result of its body: the answers are kept, a cut
    of its own level ends there -/
def post (d : Nat) (r1 : SLD.Res) : SLD.Res :=
  match r1.stop with
  | .exhausted => ⟨r1.answers ++ [], .exhausted⟩
  | .cut c => { r1 with stop := if c = d then .exhausted else .cut c }
  | _ => r1

/-- `j` such calls, at depths `d`, …, `d + j - 1` -/
def postN : Nat → Nat → SLD.Res → SLD.Res
  | _, 0, r => r
  | d, j + 1, r => post d (postN (d + 1) j r)

/-- `PSpec`, with the reference possibly some calls deeper -/
def PSpecW (fl : Bool) (mo : Option Nat) (tmpl : Term) (max : Nat) (prog : List Term) (lv : Lv) (d : Nat) (p : Pr) (m : MS)
    (ans0 : List Term) (r : SLD.Res) : Prop :=
  ∃ j r1, PSpec fl mo tmpl max prog lv (d + j) p m ans0 r1 ∧ r = postN d j r1

theorem PSpec.toW {fl : Bool} {mo : Option Nat} {tmpl : Term} {max : Nat} {prog : List Term} {lv : Lv} {d : Nat} {p : Pr} {m : MS}
    {ans0 : List Term} {r : SLD.Res} (h : PSpec fl mo tmpl max prog lv d p m ans0 r) :
    PSpecW fl mo tmpl max prog lv d p m ans0 r := ⟨0, r, h, rfl⟩

theorem PSpecW.wrap {fl : Bool} {mo : Option Nat} {tmpl : Term} {max : Nat} {prog : List Term} {lv : Lv} {d : Nat} {p : Pr} {m : MS}
    {ans0 : List Term} {r1 : SLD.Res} (h : PSpecW fl mo tmpl max prog lv (d + 1) p m ans0 r1) :
    PSpecW fl mo tmpl max prog lv d p m ans0 (post d r1) := by
  obtain ⟨j, r0, h0, rfl⟩ := h
  refine ⟨j + 1, r0, ?_, rfl⟩
  rw [show d + (j + 1) = d + 1 + j by omega]
  exact h0

/-! ### the side condition of `call/N`: inner fuel, and the goal called is a goal of the fragment -/

/-- `Call` on `g` under `env` resolves and instantiates the goal within the model's inner fuel, and
    the instantiated goal (if it is not a variable: instantiation error) is a body of the fragment -/
def callOK (fl : Bool) (env : Env) (g : Term) : Prop :=
  ∃ g0, resolve inner env g = some g0 ∧
    ((∃ v, g0 = .var v) ∨ ∃ g', applyAll inner env g0 = some g' ∧ wfT g' = true ∧ dbodyS fl g' = true)

/-- the context `arrive` binds variable 0 to -/
def indicator (f : String) (n : Nat) : Term := .app "/" (.cons (.atom f) (.cons (.int n) .nil))

/-- the goal `callN` builds from the dereferenced closure `g0` and the additional arguments -/
def addArgsVM (g0 : Term) (extra : List Term) : Option Term :=
  match g0 with
  | .atom a => some (.app a (Args.ofList extra))
  | .app a as => some (.app a (Args.ofList (as.toList ++ extra)))
  | _ => none

/-- the side condition at `call/N`, N ≥ 2: the closure `g` dereferences — within the model's inner
    fuel — to a variable (instantiation error), to a number or string (type error), or to a callable
    term such that the goal built from it and the additional arguments `extra` is instantiated within
    the inner fuel to a body of the fragment -/
def callNOK (fl : Bool) (env : Env) (g : Term) (extra : List Term) : Prop :=
  ∃ g0, resolve inner env g = some g0 ∧
    ((∃ v, g0 = .var v) ∨ (addArgsVM g0 extra = none ∧ ∀ v, g0 ≠ .var v) ∨
      ∃ G g', addArgsVM g0 extra = some G ∧ applyAll inner env G = some g' ∧ wfT g' = true ∧ dbodyS fl g' = true)

/-- every `arrive` at `call/1` (at `call/N`, N ≥ 2) that produces this result met the side
    condition `callOK` (`callNOK`) -/
def ResFine (fl : Bool) (res : Pr × MS) : Prop :=
  (∀ (fuel : Nat) (g : Term) (K : Cont) (env : Env) (mm : MS),
    arrive fuel "call" [g] K env mm = some res → callOK fl (env.bind varContext (indicator "call" 1)) g) ∧
  (∀ (fuel : Nat) (g e : Term) (es : List Term) (K : Cont) (env : Env) (mm : MS),
    arrive fuel "call" (g :: e :: es) K env mm = some res →
      callNOK fl (env.bind varContext (indicator "call" (g :: e :: es).length)) g (e :: es))

/-! ### the reference interpreter on `call/1` -/

theorem solveAlts_frames (prog : List Term) (n d nv : Nat) (fs : List SLD.Frame) (rest : List SLD.Frame)
    (q : Term) (limit : Nat) :
    SLD.solveAlts false prog (n + 1) d nv [.frames fs] rest q limit =
      match SLD.solve false prog n (d + 1) nv (fs ++ rest) q limit with
      | none => none
      | some r =>
        match r.stop with
        | .exhausted => (SLD.solveAlts false prog n d nv [] rest q (limit - r.answers.length)).map (SLD.Res.prepend r.answers)
        | .cut c' => some { r with stop := if c' = d then .exhausted else .cut c' }
        | _ => some r := by
  rw [SLD.solveAlts]
  rfl

theorem goalS_isGoal {fl : Bool} {t : Term} (h : goalS fl t = true) : SLD.isGoal t = true := by
  rcases goalS_cases h with rfl | h
  · rfl
  · rcases stepGoal_cases h with h | ⟨_, hc⟩
    · cases t <;> simp_all [hornGoal, SLD.isGoal]
    · cases hc with
      | call x hx => subst hx; rfl
      | ite c t e hx => subst hx; rfl
      | ifthen c t hx => subst hx; rfl
      | once x hx => subst hx; rfl
      | neg x hx => subst hx; rfl
      | callN x e es hx _ => subst hx; rfl
      | disj a b hx _ => subst hx; rfl

theorem okBody_S {fl : Bool} {b : Term} (h : bodyS fl b = true) : SLD.okBody false b = true := by
  simp only [SLD.okBody, Bool.false_eq_true, if_false, disjuncts_horn b h, List.all_cons, List.all_nil, Bool.and_true]
  simp only [List.all_eq_true]
  exact fun t ht => goalS_isGoal (bodyS_all h t ht)

theorem addArgs_nil {b : Term} (hw : wfT b = true) (hnv : ∀ v, b ≠ .var v) (hc : SLD.isGoal b = true) :
    SLD.addArgs b [] = some b := by
  cases b with
  | var v => exact absurd rfl (hnv v)
  | atom f => simp [SLD.addArgs, SLD.functor, Term.mk]
  | app f as =>
    cases as with
    | nil => simp [wfT] at hw
    | cons a as' => simp [SLD.addArgs, SLD.functor, Term.mk, Args.toList, Args.ofList]
  | _ => simp [SLD.isGoal] at hc

theorem bodyS_isGoal {fl : Bool} {b : Term} (h : bodyS fl b = true) (hnv : ∀ v, b ≠ .var v) : SLD.isGoal b = true := by
  cases b with
  | var v => exact absurd rfl (hnv v)
  | atom _ => rfl
  | app _ _ => rfl
  | int i => simp [bodyS, SLD.conjuncts, SLD.wrapVar, goalS, stepGoal, ctlGoal, hornGoal] at h
  | flt i => simp [bodyS, SLD.conjuncts, SLD.wrapVar, goalS, stepGoal, ctlGoal, hornGoal] at h
  | str i => simp [bodyS, SLD.conjuncts, SLD.wrapVar, goalS, stepGoal, ctlGoal, hornGoal] at h

theorem addArgs_nil' {b : Term} (hw : ∀ f, b ≠ .app f .nil) (hnv : ∀ v, b ≠ .var v) (hc : SLD.isGoal b = true) :
    SLD.addArgs b [] = some b := by
  cases b with
  | var v => exact absurd rfl (hnv v)
  | atom f => simp [SLD.addArgs, SLD.functor, Term.mk]
  | app f as =>
    cases as with
    | nil => exact absurd rfl (hw f)
    | cons a as' => simp [SLD.addArgs, SLD.functor, Term.mk, Args.toList, Args.ofList]
  | _ => simp [SLD.isGoal] at hc

/-- `call(b)`, `b` a body of the fragment whose top-level term is well-formed -/
theorem solve_call1' (prog : List Term) (n d nv l : Nat) (b : Term) (rest : List SLD.Frame) (q : Term) (limit : Nat)
    {fl : Bool} (hb : bodyS fl b = true) (hw : ∀ f, b ≠ .app f .nil) (hnv : ∀ v, b ≠ .var v) :
    SLD.solve false prog (n + 1) d nv (.goal (SLD.call1 b) l :: rest) q limit =
      SLD.solveAlts false prog n d nv [.frames ((SLD.conjuncts b).map (SLD.Frame.goal · d))] rest q limit := by
  rw [SLD.solve]
  · simp only [SLD.call1, SLD.functor, Args.toList, List.length_nil, Nat.not_lt_zero, if_false,
      addArgs_nil' hw hnv (bodyS_isGoal hb hnv), okBody_S hb, if_true, SLD.bodyAlts, Bool.false_eq_true,
      disjuncts_horn b hb, List.map_cons, List.map_nil, SLD.bodyFrames]
  · intro v hv; cases hv

theorem solve_call1 (prog : List Term) (n d nv l : Nat) (b : Term) (rest : List SLD.Frame) (q : Term) (limit : Nat)
    {fl : Bool} (hb : bodyS fl b = true) (hw : wfT b = true) (hnv : ∀ v, b ≠ .var v) :
    SLD.solve false prog (n + 1) d nv (.goal (SLD.call1 b) l :: rest) q limit =
      SLD.solveAlts false prog n d nv [.frames ((SLD.conjuncts b).map (SLD.Frame.goal · d))] rest q limit :=
  solve_call1' prog n d nv l b rest q limit hb (fun f hf => by rw [hf] at hw; simp [wfT] at hw) hnv

theorem solve_call_var (prog : List Term) (n d nv l v : Nat) (rest : List SLD.Frame) (q : Term) (limit : Nat) :
    SLD.solve false prog (n + 1) d nv (.goal (SLD.call1 (.var v)) l :: rest) q limit = SLD.raise SLD.instErr := by
  rw [SLD.solve]
  · simp [SLD.call1, SLD.functor, Args.toList, SLD.addArgs]
  · intro v hv; cases hv

theorem conjuncts_rename (ρ : Nat → Nat) (b : Term) :
    SLD.conjuncts (b.rename ρ) = (SLD.conjuncts b).map (Term.rename ρ) := by
  fun_induction SLD.conjuncts b with
  | case1 a b iha ihb =>
    have e : (Term.app "," (.cons a (.cons b .nil))).rename ρ = .app "," (.cons (a.rename ρ) (.cons (b.rename ρ) .nil)) := rfl
    rw [e]
    simp only [SLD.conjuncts, List.map_append, iha, ihb]
  | case2 t hne =>
    have hne' : ∀ a b, t.rename ρ ≠ .app "," (.cons a (.cons b .nil)) := by
      intro a b heq
      cases t with
      | app f as =>
        simp only [Term.rename, Term.subst, Term.app.injEq] at heq
        obtain ⟨rfl, has⟩ := heq
        cases as with
        | nil => simp [Args.subst] at has
        | cons x xs => cases xs with
          | nil => simp [Args.subst] at has
          | cons y ys => cases ys with
            | nil => exact hne x y rfl
            | cons _ _ => simp [Args.subst] at has
      | var v => simp [Term.rename, Term.subst] at heq
      | _ => simp [Term.rename, Term.subst] at heq
    have h1 : SLD.conjuncts (t.rename ρ) = [SLD.wrapVar (t.rename ρ)] := by
      unfold SLD.conjuncts
      split
      · rename_i a b heq; exact absurd heq (hne' a b)
      · rfl
    rw [h1]
    cases t <;> simp [Term.rename, Term.subst, SLD.wrapVar, SLD.call1, Args.subst]

theorem semi_rename_inv {t : Term} {ρ : Nat → Nat} {f : String} {x y : Term}
    (h : t.rename ρ = .app f (.cons x (.cons y .nil))) :
    ∃ a b, t = .app f (.cons a (.cons b .nil)) ∧ a.rename ρ = x ∧ b.rename ρ = y := by
  obtain ⟨as', rfl, has⟩ := rename_eq_app h
  obtain ⟨a, bs, rfl, ha, hb⟩ := subst_eq_cons has
  obtain ⟨b, bs', rfl, hb1, hb2⟩ := subst_eq_cons hb
  rw [subst_eq_nil hb2]
  exact ⟨a, b, rfl, ha, hb1⟩

theorem disjuncts_plain (a b : Term) (hna : ∀ c t, a ≠ .app "->" (.cons c (.cons t .nil))) :
    SLD.disjuncts (.app ";" (.cons a (.cons b .nil))) = a :: SLD.disjuncts b := by
  conv => lhs; unfold SLD.disjuncts
  split
  · rename_i c t e heq
    simp only [Term.app.injEq, Args.cons.injEq, true_and, and_true] at heq
    exact absurd heq.1 (hna c t)
  · rename_i a' b' _ heq
    simp only [Term.app.injEq, Args.cons.injEq, true_and, and_true] at heq
    obtain ⟨rfl, rfl⟩ := heq
    rfl
  · rename_i h2
    exact absurd rfl (h2 _ _)

theorem disjuncts_other (t : Term) (h2 : ∀ a b, t ≠ .app ";" (.cons a (.cons b .nil))) :
    SLD.disjuncts t = [t] := by
  unfold SLD.disjuncts
  split
  · rename_i c t' e; exact absurd rfl (h2 _ _)
  · rename_i a b _; exact absurd rfl (h2 _ _)
  · rfl

theorem disjuncts_rename (ρ : Nat → Nat) (b : Term) :
    SLD.disjuncts (b.rename ρ) = (SLD.disjuncts b).map (Term.rename ρ) := by
  fun_induction SLD.disjuncts b with
  | case1 c t e => rfl
  | case2 a b hna ih =>
    have e : (Term.app ";" (.cons a (.cons b .nil))).rename ρ = .app ";" (.cons (a.rename ρ) (.cons (b.rename ρ) .nil)) := rfl
    rw [e]
    have hna' : ∀ c t, a.rename ρ ≠ .app "->" (.cons c (.cons t .nil)) := by
      intro c t heq
      obtain ⟨c', t', rfl, _, _⟩ := semi_rename_inv heq
      exact hna c' t' rfl
    rw [disjuncts_plain _ _ hna', ih]; rfl
  | case3 t h1 h2 =>
    have h2' : ∀ a b, t.rename ρ ≠ .app ";" (.cons a (.cons b .nil)) := by
      intro a b heq
      obtain ⟨a', b', rfl, _, _⟩ := semi_rename_inv heq
      exact h2 a' b' rfl
    rw [disjuncts_other _ h2']; rfl

theorem disjuncts_vars {b dj : Term} {x : Nat} (hd : dj ∈ SLD.disjuncts b) (hx : dj.hasVar x = true) :
    b.hasVar x = true := by
  fun_induction SLD.disjuncts b with
  | case1 c t e =>
    simp only [List.mem_singleton] at hd
    subst hd; exact hx
  | case2 a b hna ih =>
    rcases List.mem_cons.1 hd with rfl | hd
    · simp [Term.hasVar, Args.hasVar, hx]
    · simp [Term.hasVar, Args.hasVar, ih hd]
  | case3 t h1 h2 =>
    simp only [List.mem_singleton] at hd
    subst hd; exact hx

theorem goalS_rename (fl : Bool) (ρ : Nat → Nat) (t : Term) : goalS fl (t.rename ρ) = goalS fl t := by
  simp only [goalS, stepGoal_rename]
  have : (t.rename ρ == Term.atom "!") = (t == Term.atom "!") := by
    cases t with
    | var v =>
      have h1 : (Term.rename ρ (.var v) == Term.atom "!") = false := by simp [Term.rename, Term.subst]
      have h2 : (Term.var v == Term.atom "!") = false := by simp
      rw [h1, h2]
    | app f as =>
      have h1 : (Term.rename ρ (.app f as) == Term.atom "!") = false := by simp [Term.rename, Term.subst]
      have h2 : (Term.app f as == Term.atom "!") = false := by simp
      rw [h1, h2]
    | _ => rfl
  rw [this]

theorem bodyS_rename (fl : Bool) (ρ : Nat → Nat) (b : Term) : bodyS fl (b.rename ρ) = bodyS fl b := by
  unfold bodyS
  rw [conjuncts_rename, List.all_map, disjuncts_rename, List.length_map]
  congr 2
  funext t
  simp only [Function.comp, goalS_rename]

theorem dbodyS_rename (fl : Bool) (ρ : Nat → Nat) (b : Term) : dbodyS fl (b.rename ρ) = dbodyS fl b := by
  unfold dbodyS
  rw [disjuncts_rename, List.all_map]
  congr 1
  funext t
  simp only [Function.comp, bodyS_rename]

theorem dbodyS_isGoal {fl : Bool} {b : Term} (h : dbodyS fl b = true) (hnv : ∀ v, b ≠ .var v) : SLD.isGoal b = true := by
  cases b with
  | var v => exact absurd rfl (hnv v)
  | atom _ => rfl
  | app _ _ => rfl
  | int i => simp [dbodyS, SLD.disjuncts, bodyS, SLD.conjuncts, SLD.wrapVar, goalS, stepGoal, ctlGoal, hornGoal] at h
  | flt i => simp [dbodyS, SLD.disjuncts, bodyS, SLD.conjuncts, SLD.wrapVar, goalS, stepGoal, ctlGoal, hornGoal] at h
  | str i => simp [dbodyS, SLD.disjuncts, bodyS, SLD.conjuncts, SLD.wrapVar, goalS, stepGoal, ctlGoal, hornGoal] at h

/-- `call(b)`, the top-level disjuncts of `b` bodies of the fragment: one alternative per disjunct -/
theorem solve_call1M (prog : List Term) (n d nv l : Nat) (b : Term) (rest : List SLD.Frame) (q : Term) (limit : Nat)
    {fl : Bool} (hb : dbodyS fl b = true) (hw : ∀ f, b ≠ .app f .nil) (hnv : ∀ v, b ≠ .var v) :
    SLD.solve false prog (n + 1) d nv (.goal (SLD.call1 b) l :: rest) q limit =
      SLD.solveAlts false prog n d nv ((SLD.disjuncts b).map (fun x => .frames (SLD.bodyFrames false x d))) rest q
        limit := by
  have hok : SLD.okBody false b = true := by
    simp only [SLD.okBody, Bool.false_eq_true, if_false, List.all_eq_true]
    intro dj hdj t ht
    simp only [dbodyS, List.all_eq_true] at hb
    have := bodyS_all (hb dj hdj)
    exact goalS_isGoal (this t ht)
  rw [SLD.solve]
  · simp only [SLD.call1, SLD.functor, Args.toList, List.length_nil, Nat.not_lt_zero, if_false,
      addArgs_nil' hw hnv (dbodyS_isGoal hb hnv), hok, if_true, SLD.bodyAlts, Bool.false_eq_true]
  · intro v hv; cases hv

/-! ### `call/N`, 2 ≤ N ≤ 8 -/

/-- `call(c, e, es…)`: the goal `b` built from the closure and the additional arguments is called -/
theorem solve_callN (prog : List Term) (n d nv l : Nat) (c e : Term) (es : Args) (b : Term) (rest : List SLD.Frame)
    (q : Term) (limit : Nat) {fl : Bool} (hl : es.length ≤ 6)
    (hadd : SLD.addArgs c (e :: es.toList) = some b) (hb : dbodyS fl b = true) (hnv : ∀ v, b ≠ .var v) :
    SLD.solve false prog (n + 1) d nv (.goal (.app "call" (.cons c (.cons e es))) l :: rest) q limit =
      SLD.solveAlts false prog n d nv ((SLD.disjuncts b).map (fun x => .frames (SLD.bodyFrames false x d))) rest q
        limit := by
  have hok : SLD.okBody false b = true := by
    simp only [SLD.okBody, Bool.false_eq_true, if_false, List.all_eq_true]
    intro dj hdj t ht
    simp only [dbodyS, List.all_eq_true] at hb
    have := bodyS_all (hb dj hdj)
    exact goalS_isGoal (this t ht)
  have hlen : ¬ (es.length + 1 > 7) := by omega
  rw [SLD.solve]
  · simp only [SLD.functor, Args.toList, List.length_cons, Args.length_toList, hlen, if_false, hadd]
    cases b with
    | var v => exact absurd rfl (hnv v)
    | _ => simp only [hok, if_true, SLD.bodyAlts, Bool.false_eq_true, if_false]
  · intro v hv; cases hv

/-- the error of `call/N` on a closure that is not callable -/
def notCallableErr (c : Term) : Term :=
  match c with
  | .var _ => SLD.instErr
  | _ => SLD.typeErr "callable" c

/-- `call(c, e, es…)`, the closure `c` not callable: instantiation or type error -/
theorem solve_callN_none (prog : List Term) (n d nv l : Nat) (c e : Term) (es : Args) (rest : List SLD.Frame)
    (q : Term) (limit : Nat) (hl : es.length ≤ 6) (hadd : SLD.addArgs c (e :: es.toList) = none) :
    SLD.solve false prog (n + 1) d nv (.goal (.app "call" (.cons c (.cons e es))) l :: rest) q limit =
      SLD.raise (notCallableErr c) := by
  have hlen : ¬ (es.length + 1 > 7) := by omega
  rw [SLD.solve]
  · simp only [SLD.functor, Args.toList, List.length_cons, Args.length_toList, hlen, if_false, hadd]
    cases c <;> rfl
  · intro v hv; cases hv

/-- the goal the VM builds and the goal the reference builds: images of each other -/
theorem addArgs_img (σ : Subst) (π : Nat → Nat) {g0 G : Term} {e : Term} {es : List Term}
    (h : addArgsVM g0 (e :: es) = some G) :
    SLD.addArgs (img σ π g0) (img σ π e :: es.map (img σ π)) = some (img σ π G) := by
  cases g0 with
  | atom a =>
    simp only [addArgsVM, Option.some.injEq] at h
    subst h
    simp only [SLD.addArgs, img, Term.subst, Term.rename, SLD.functor, Option.map_some, List.nil_append, Term.mk,
      Activation.ofList_subst, List.map_map, Args.ofList, Args.subst]
    rfl
  | app a as =>
    simp only [addArgsVM, Option.some.injEq] at h
    subst h
    have hne : ∀ (l : List Term) (x : Term) (l' : List Term), Term.mk a (l ++ x :: l') = .app a (Args.ofList (l ++ x :: l')) := by
      intro l x l'
      cases l <;> rfl
    simp only [SLD.addArgs, img, Term.subst, Term.rename, SLD.functor, Option.map_some, hne,
      Activation.ofList_subst, Activation.toList_subst, List.map_cons, List.map_map, List.map_append]
    rfl
  | var _ => simp [addArgsVM] at h
  | int _ => simp [addArgsVM] at h
  | flt _ => simp [addArgsVM] at h
  | str _ => simp [addArgsVM] at h

theorem addArgsVM_vars {σ : Subst} {g0 G : Term} {extra : List Term} (h : addArgsVM g0 extra = some G) {v : Nat}
    (hv : (G.subst σ).hasVar v = true) :
    (g0.subst σ).hasVar v = true ∨ ∃ t ∈ extra, (t.subst σ).hasVar v = true := by
  cases g0 with
  | atom a =>
    simp only [addArgsVM, Option.some.injEq] at h
    subst h
    simp only [Term.subst, Term.hasVar, Activation.ofList_subst, hasVar_ofList_iff, List.mem_map] at hv
    obtain ⟨t, ⟨t0, ht0, rfl⟩, ht⟩ := hv
    exact Or.inr ⟨t0, ht0, ht⟩
  | app a as =>
    simp only [addArgsVM, Option.some.injEq] at h
    subst h
    simp only [Term.subst, Term.hasVar, Activation.ofList_subst, hasVar_ofList_iff, List.mem_map, List.mem_append] at hv
    obtain ⟨t, ⟨t0, ht0 | ht0, rfl⟩, ht⟩ := hv
    · left
      simp only [Term.subst, Term.hasVar]
      rw [← Args.ofList_toList (as.subst σ), hasVar_ofList_iff, Activation.toList_subst]
      exact ⟨_, List.mem_map_of_mem ht0, ht⟩
    · exact Or.inr ⟨t0, ht0, ht⟩
  | var _ => simp [addArgsVM] at h
  | int _ => simp [addArgsVM] at h
  | flt _ => simp [addArgsVM] at h
  | str _ => simp [addArgsVM] at h

/-- the goal `callN` builds is a compound term -/
theorem addArgsVM_app {g0 G e : Term} {es : List Term} (h : addArgsVM g0 (e :: es) = some G) :
    (∀ v, g0 ≠ .var v) ∧ ∃ a x xs, G = .app a (.cons x xs) := by
  cases g0 with
  | atom a =>
    simp only [addArgsVM, Option.some.injEq] at h
    subst h
    exact ⟨(fun v hv => by cases hv), a, e, Args.ofList es, rfl⟩
  | app a as =>
    simp only [addArgsVM, Option.some.injEq] at h
    subst h
    refine ⟨(fun v hv => by cases hv), a, ?_⟩
    cases as with
    | nil => exact ⟨e, Args.ofList es, rfl⟩
    | cons y ys => exact ⟨y, Args.ofList (ys.toList ++ e :: es), rfl⟩
  | var _ => simp [addArgsVM] at h
  | int _ => simp [addArgsVM] at h
  | flt _ => simp [addArgsVM] at h
  | str _ => simp [addArgsVM] at h

/-- a closure that is neither a variable nor callable: a number or a string -/
theorem addArgsVM_none {g0 : Term} {extra : List Term} (h : addArgsVM g0 extra = none) (hnv : ∀ v, g0 ≠ .var v) :
    (∀ x, g0.hasVar x = false) ∧ (∀ l, SLD.addArgs g0 l = none) ∧
      notCallableErr g0 = SLD.typeErr "callable" g0 := by
  cases g0 with
  | var v => exact absurd rfl (hnv v)
  | atom _ => simp [addArgsVM] at h
  | app _ _ => simp [addArgsVM] at h
  | int _ => exact ⟨fun _ => rfl, fun _ => rfl, rfl⟩
  | flt _ => exact ⟨fun _ => rfl, fun _ => rfl, rfl⟩
  | str _ => exact ⟨fun _ => rfl, fun _ => rfl, rfl⟩

/-! ### the bootstrap clause `true.` -/

def trueOK : Bool :=
  match lookupProc bootState "true" 0 with
  | some p => (match p.clauses with | [c] => decide (c.code = [.exit] ∧ c.vars = []) | _ => false)
  | none => false

theorem trueOK_eq : trueOK = true := by decide +kernel

theorem boot_true : ∃ p c, lookupProc bootState "true" 0 = some p ∧ p.clauses = [c] ∧ c.code = [.exit] ∧ c.vars = [] := by
  have h := trueOK_eq
  unfold trueOK at h
  split at h
  · rename_i p hp
    split at h
    · rename_i c hc
      simp only [decide_eq_true_eq] at h
      exact ⟨p, c, hp, hc, h.1, h.2⟩
    · cases h
  · cases h

/-! ### images of goals -/

theorem img_atom (σ : Subst) (π : Nat → Nat) (f : String) : img σ π (.atom f) = .atom f := rfl

theorem img_app (σ : Subst) (π : Nat → Nat) (f : String) (as : Args) :
    img σ π (.app f as) = .app f ((as.subst σ).rename π) := rfl

theorem functor_img {σ : Subst} {π : Nat → Nat} {g : Term} (hg : Shape g) :
    ∃ args2, SLD.functor (img σ π g) = some (functorName g, args2) ∧ args2.length = (argList g).length := by
  rcases hg with ⟨f, rfl⟩ | ⟨f, as, rfl, _⟩
  · exact ⟨[], rfl, rfl⟩
  · refine ⟨((as.subst σ).rename π).toList, rfl, ?_⟩
    simp [argList, Args.rename, Args.length_subst]

theorem GRel.congr {lv : Lv} {σ σ' : Subst} {π π' : Nat → Nat} {D : Nat → Prop} {G : List (Term × Nat)}
    {R : List SLD.Frame}
    (h : GRel mo lv σ π D G R) (heq : ∀ t, InD D t → img σ' π' t = img σ π t) : GRel mo lv σ' π' D G R := by
  refine h.imp ?_
  rintro g _ fr ⟨hg, l, hfr, hl⟩
  refine ⟨hg, l, ?_, hl⟩
  rw [heq g.1 hg]
  exact hfr

/-! ### `mkErr` keeps a closed formal -/

def Closed' (t : Term) : Prop := ∀ x, t.hasVar x = false

mutual
  theorem applyAll_closed : ∀ (n : Nat) (e : Env) (t t' : Term), applyAll n e t = some t' → Closed' t → t' = t
    | 0, _, _, _, h, _ => by simp [applyAll] at h
    | n + 1, e, .var v, t', _, hc => by have := hc v; simp [Term.hasVar] at this
    | n + 1, e, .atom s, t', h, _ => by simp [applyAll, resolve] at h; exact h.symm
    | n + 1, e, .int s, t', h, _ => by simp [applyAll, resolve] at h; exact h.symm
    | n + 1, e, .flt s, t', h, _ => by simp [applyAll, resolve] at h; exact h.symm
    | n + 1, e, .str s, t', h, _ => by simp [applyAll, resolve] at h; exact h.symm
    | n + 1, e, .app f as, t', h, hc => by
      simp only [applyAll, resolve, Option.map_eq_some_iff] at h
      obtain ⟨as', has, rfl⟩ := h
      rw [applyAllArgs_closed n e as as' has (fun x => by simpa [Term.hasVar] using hc x)]
  theorem applyAllArgs_closed : ∀ (n : Nat) (e : Env) (as as' : Args), applyAllArgs n e as = some as' →
      (∀ x, as.hasVar x = false) → as' = as
    | 0, _, _, _, h, _ => by simp [applyAllArgs] at h
    | n + 1, e, .nil, as', h, _ => by simp [applyAllArgs] at h; exact h.symm
    | n + 1, e, .cons t ts, as', h, hc => by
      simp only [applyAllArgs] at h
      split at h
      · rename_i t' ts' ht hts
        simp only [Option.some.injEq] at h
        subst h
        have h1 : Closed' t := fun x => by have := hc x; simp only [Args.hasVar, Bool.or_eq_false_iff] at this; exact this.1
        have h2 : ∀ x, ts.hasVar x = false := fun x => by
          have := hc x; simp only [Args.hasVar, Bool.or_eq_false_iff] at this; exact this.2
        rw [applyAll_closed n e t t' ht h1, applyAllArgs_closed n e ts ts' hts h2]
      · simp at h
end

mutual
  theorem termVars_closed : ∀ (t : Term) (acc : List Nat), Closed' t → termVars t acc = acc
    | .var v, _, hc => by have := hc v; simp [Term.hasVar] at this
    | .atom _, _, _ => rfl
    | .int _, _, _ => rfl
    | .flt _, _, _ => rfl
    | .str _, _, _ => rfl
    | .app _ as, acc, hc => by
      simp only [termVars]
      exact argsVars_closed as acc (fun x => by simpa [Term.hasVar] using hc x)
  theorem argsVars_closed : ∀ (as : Args) (acc : List Nat), (∀ x, as.hasVar x = false) → argsVars as acc = acc
    | .nil, _, _ => rfl
    | .cons t ts, acc, hc => by
      have h1 : Closed' t := fun x => by have := hc x; simp only [Args.hasVar, Bool.or_eq_false_iff] at this; exact this.1
      have h2 : ∀ x, ts.hasVar x = false := fun x => by
        have := hc x; simp only [Args.hasVar, Bool.or_eq_false_iff] at this; exact this.2
      simp only [argsVars]
      rw [termVars_closed t acc h1, argsVars_closed ts acc h2]
end

mutual
  theorem renameWith_closed (ren : List (Nat × Nat)) : ∀ t : Term, Closed' t → renameWith ren t = t
    | .var v, hc => by have := hc v; simp [Term.hasVar] at this
    | .atom _, _ => rfl
    | .int _, _ => rfl
    | .flt _, _ => rfl
    | .str _, _ => rfl
    | .app f as, hc => by
      simp only [renameWith]
      rw [renameArgs_closed ren as (fun x => by simpa [Term.hasVar] using hc x)]
  theorem renameArgs_closed (ren : List (Nat × Nat)) : ∀ as : Args, (∀ x, as.hasVar x = false) → renameArgs ren as = as
    | .nil, _ => rfl
    | .cons t ts, hc => by
      have h1 : Closed' t := fun x => by have := hc x; simp only [Args.hasVar, Bool.or_eq_false_iff] at this; exact this.1
      have h2 : ∀ x, ts.hasVar x = false := fun x => by
        have := hc x; simp only [Args.hasVar, Bool.or_eq_false_iff] at this; exact this.2
      simp only [renameArgs]
      rw [renameWith_closed ren t h1, renameArgs_closed ren ts h2]
end

theorem app_errT (env : Env) (F c0 : Term) (hF : Closed' F) : ∃ c0', app env (errT F c0) = errT F c0' := by
  unfold app
  cases h : applyAll inner env (errT F c0) with
  | none => exact ⟨c0, rfl⟩
  | some t' =>
    simp only [Option.getD_some]
    have hi : inner = (inner - 2) + 1 + 1 := by decide
    rw [hi] at h
    simp only [errT, applyAll, resolve, Option.map_eq_some_iff] at h
    obtain ⟨as', has, rfl⟩ := h
    simp only [applyAllArgs] at has
    split at has
    · rename_i F' ts' hF' hts'
      simp only [Option.some.injEq] at has
      subst has
      rw [applyAll_closed _ _ _ _ hF' hF]
      cases hn : inner - 2 with
      | zero => rw [hn] at hts'; simp [applyAllArgs] at hts'
      | succ k =>
        rw [hn] at hts'
        simp only [applyAllArgs] at hts'
        split at hts'
        · rename_i c' n' _ hn'
          simp only [Option.some.injEq] at hts'
          subst hts'
          cases k with
          | zero => simp [applyAllArgs] at hn'
          | succ k' =>
            simp only [applyAllArgs, Option.some.injEq] at hn'
            subst hn'
            exact ⟨c', rfl⟩
        · simp at hts'
    · simp at has

/-- the formal of an error built by `mkErr` from a closed formal is that formal; the state changes in
    the variable counter only -/
theorem mkErr_closed (F : Term) (hF : Closed' F) (env : Env) (m : MS) :
    ∃ c1 N', m.user.nextVar ≤ N' ∧ mkErr F env m = (errP (.exc (errT F c1)), bump m N') := by
  obtain ⟨c0', hc0⟩ := app_errT env F (.var varContext) hF
  simp only [errT] at hc0
  refine ⟨renameWith ((termVars (errT F c0') []).zip
      ((List.range (termVars (errT F c0') []).length).map (· + m.user.nextVar))) c0',
    m.user.nextVar + (termVars (errT F c0') []).length, Nat.le_add_right _ _, ?_⟩
  unfold mkErr renamedCopy
  simp only [hc0, freshVars, errT, renameWith, renameArgs, renameWith_closed _ F hF]
  rfl

/-! ### the reference interpreter on calls with one alternative -/

theorem solveAlts_single (prog : List Term) (n d nv : Nat) (fs : List SLD.Frame) (rest : List SLD.Frame)
    (q : Term) (limit : Nat) :
    SLD.solveAlts false prog (n + 1) d nv [.frames fs] rest q limit =
      (SLD.solve false prog n (d + 1) nv (fs ++ rest) q limit).map (post d) := by
  rw [solveAlts_frames]
  cases hs : SLD.solve false prog n (d + 1) nv (fs ++ rest) q limit with
  | none => rfl
  | some r =>
    cases n with
    | zero => rw [solve_zero] at hs; cases hs
    | succ n' =>
      simp only [Option.map_some]
      cases hst : r.stop with
      | exhausted => simp [post, hst, solveAlts_nil, SLD.failed, SLD.Res.prepend]
      | cut c => simp [post, hst]
      | full => simp [post, hst]
      | raised b ex => simp [post, hst]

/-- `call(true)`: nothing happens, one call deeper -/
theorem solve_skip_some {prog : List Term} {n d nv l : Nat} {R : List SLD.Frame} {q : Term} {limit : Nat} {r : SLD.Res}
    (h : SLD.solve false prog n d nv (skipF l :: R) q limit = some r) :
    ∃ n' r1, SLD.solve false prog n' (d + 1) nv R q limit = some r1 ∧ r = post d r1 := by
  cases n with
  | zero => rw [solve_zero] at h; cases h
  | succ n1 =>
  rw [skipF, solve_call1 (fl := false) _ _ _ _ _ _ _ _ _ (by decide +kernel) (by decide) (fun v hv => by cases hv)] at h
  cases n1 with
  | zero => rw [solveAlts_zero] at h; cases h
  | succ n2 =>
  have hc : (SLD.conjuncts (.atom "true")).map (SLD.Frame.goal · d) = [SLD.Frame.goal (.atom "true") d] := by
    simp [SLD.conjuncts, SLD.wrapVar]
  rw [hc, solveAlts_single] at h
  cases n2 with
  | zero => rw [solve_zero] at h; cases h
  | succ n3 =>
  rw [List.singleton_append, solve_true] at h
  simp only [Option.map_eq_some_iff] at h
  obtain ⟨r1, h1, rfl⟩ := h
  exact ⟨n3, r1, h1, rfl⟩

/-- `call(call(G))`: `call(G)`, one call deeper -/
theorem solve_callw_some {prog : List Term} {n d nv l : Nat} {c : Term} {R : List SLD.Frame} {q : Term} {limit : Nat}
    {r : SLD.Res}
    (h : SLD.solve false prog n d nv (.goal (SLD.call1 (SLD.call1 c)) l :: R) q limit = some r) :
    ∃ n' r1, SLD.solve false prog n' (d + 1) nv (.goal (SLD.call1 c) d :: R) q limit = some r1 ∧ r = post d r1 := by
  cases n with
  | zero => rw [solve_zero] at h; cases h
  | succ n1 =>
  have hb : bodyS true (SLD.call1 c) = true := by
    simp [bodyS, SLD.conjuncts, SLD.wrapVar, SLD.call1, goalS, stepGoal, ctlGoal, SLD.disjuncts]
  rw [solve_call1' (fl := true) _ _ _ _ _ _ _ _ _ hb (fun f hf => by simp [SLD.call1] at hf)
    (fun v hv => by cases hv)] at h
  cases n1 with
  | zero => rw [solveAlts_zero] at h; cases h
  | succ n2 =>
  have hc : (SLD.conjuncts (SLD.call1 c)).map (SLD.Frame.goal · d) = [SLD.Frame.goal (SLD.call1 c) d] := by
    simp [SLD.conjuncts, SLD.wrapVar, SLD.call1]
  rw [hc, solveAlts_single] at h
  simp only [Option.map_eq_some_iff] at h
  obtain ⟨r1, h1, rfl⟩ := h
  exact ⟨n2, r1, h1, rfl⟩

/-- the rest of the then-branch of `\\+ G` ≡ `(call(G) -> fail ; true)`: cut, fail -/
theorem solve_tail_some {prog : List Term} {n d nv dN l : Nat} {Rout : List SLD.Frame} {q : Term} {limit : Nat}
    {r : SLD.Res}
    (h : SLD.solve false prog n d nv (.goal (.atom "!") dN :: .goal (SLD.call1 (.atom "fail")) l :: Rout) q limit = some r) :
    r = ⟨[], .cut dN⟩ := by
  cases n with
  | zero => rw [solve_zero] at h; cases h
  | succ n1 =>
  rw [solve_cut] at h
  simp only [Option.map_eq_some_iff] at h
  obtain ⟨r1, h1, rfl⟩ := h
  cases n1 with
  | zero => rw [solve_zero] at h1; cases h1
  | succ n2 =>
  have e1 : SLD.solve false prog (n2 + 1) d nv (.goal (SLD.call1 (.atom "fail")) l :: Rout) q limit =
      SLD.solveAlts false prog n2 d nv [.frames [.goal (.atom "fail") d]] Rout q limit := by
    rw [SLD.solve]
    · simp [SLD.call1, SLD.functor, Args.toList, SLD.addArgs, Term.mk, SLD.okBody, SLD.disjuncts, SLD.conjuncts,
        SLD.wrapVar, SLD.isGoal, SLD.bodyAlts, SLD.bodyFrames]
    · intro v hv; cases hv
  rw [e1] at h1
  cases n2 with
  | zero => rw [solveAlts_zero] at h1; cases h1
  | succ n3 =>
  rw [solveAlts_single] at h1
  simp only [Option.map_eq_some_iff] at h1
  obtain ⟨r2, h2, rfl⟩ := h1
  cases n3 with
  | zero => rw [solve_zero] at h2; cases h2
  | succ n4 =>
  have e2 : SLD.solve false prog (n4 + 1) (d + 1) nv ([SLD.Frame.goal (.atom "fail") d] ++ Rout) q limit =
      SLD.solveAlts false prog n4 (d + 1) nv [] Rout q limit := by
    rw [List.singleton_append, SLD.solve]
    · simp [SLD.functor, SLD.builtin]
    · intro v hv; cases hv
  rw [e2] at h2
  cases n4 with
  | zero => rw [solveAlts_zero] at h2; cases h2
  | succ n5 =>
  rw [solveAlts_nil] at h2
  simp only [SLD.failed, Option.some.injEq] at h2
  subst h2
  simp [post, SLD.afterCut]

end PrologVerif.Refine
