/-
  exec_safe — on compiled code the VM never indexes args / astack / vars out of range and never runs
  off the end of the code: the "panic" promises of `Model/VM.lean` (which stand for Go run-time
  panics in `VM.exec`) are unreachable, for every program, goal and fuel.

  The DEFINITIONS (`safe`, `ClauseOK`, `IsPanic`, `ContOK`, `ThunkOK`, `PrOK`, `StOK`) are in
  `Proofs/ExecSafeDefs.lean`; the STATEMENTS and the theorems are here; the proofs are in
    `Proofs/ExecSafeCompile.lean`  the compiler emits safe code (`compile_emitted`)
    `Proofs/ExecSafeBase.lean`     promises and states every step is made of (`callGoal_ok`, `StOK_addClauses`)
    `Proofs/ExecSafeForce.lean`    the trampoline keeps the invariant (`force_ok`)
    `Proofs/ExecSafeStep.lean`     one-step preservation by induction on the fuel (`stepOK`)
-/
import PrologVerif.Proofs.ExecSafeStep
namespace PrologVerif.ExecSafe
open PrologVerif PrologVerif.VM PrologVerif.Promise

/-- **Statement A**: everything the compiler emits is safe — for every encoding, also for heads that
    are not callable (the compiler still emits safe code; callers reject such clauses) -/
def CompileSafeStatement : Prop :=
  ∀ (r : Rep) (cs : List Clause), compile r = .ok cs → ∀ c ∈ cs, ClauseOK c

/-- **Statement B** (one-step preservation): from a well-formed configuration, `exec`, `applyCont`,
    `arrive` and calling a thunk return a well-formed promise (in particular NOT a panic residue) and
    a well-formed state -/
def ExecSafeStatement : Prop :=
  (∀ n pc vars k args astack env cp (m : MS) p m',
      exec n pc vars k args astack env cp m = some (p, m') →
      safe pc vars.length args.length (astack.map shapeOf) = true → ContOK k → StOK m.user →
      PrOK p ∧ StOK m'.user) ∧
  (∀ n k env (m : MS) p m', applyCont n k env m = some (p, m') → ContOK k → StOK m.user →
      PrOK p ∧ StOK m'.user) ∧
  (∀ n f args k env (m : MS) p m', arrive n f args k env m = some (p, m') → ContOK k → StOK m.user →
      PrOK p ∧ StOK m'.user) ∧
  (∀ n t (m : MS) p m', evalThunk n t m = some (p, m') → ThunkOK t → StOK m.user →
      PrOK p ∧ StOK m'.user)

/-- the initial configuration is well-formed: the regenerated bootstrap program plus any asserted
    program, and the promise of any query -/
def InitialOKStatement : Prop :=
  StOK bootState ∧
  ∀ (goal : Term) (k : Cont) (env : Env) (m : MS), ContOK k → StOK m.user →
    PrOK (callGoal goal k env m).1 ∧ StOK (callGoal goal k env m).2.user

/-- **Statement C** (whole runs): a query run on the bootstrap program extended by any asserted
    program never ends with the residue of a Go panic, whatever the fuel, the answer limit and the
    cancellation point -/
def RunSafeStatement : Prop :=
  ∀ (fuel : Nat) (prog : List Term) (query : Term) (max : Nat) (cancelAt : Option Nat)
    (answers : List Term) (msg : String),
    runQuery fuel prog query max cancelAt = some (answers, .goErr msg) → msg.startsWith "panic" = false

/-! ## the theorems -/

theorem compile_safe : CompileSafeStatement :=
  fun r cs h c hc => (compile_emitted r cs h c hc).1

theorem exec_safe : ExecSafeStatement :=
  ⟨fun n pc vars k args astack env cp m p m' h hs hk hm =>
      (stepOK n).exec pc vars k args astack env cp m hs hk hm p m' h,
   fun n k env m p m' h hk hm => (stepOK n).applyCont k env m hk hm p m' h,
   fun n f args k env m p m' h hk hm => (stepOK n).arrive f args k env m hk hm p m' h,
   fun n t m p m' h ht hm => (stepOK n).evalThunk t m ht hm p m' h⟩

theorem StOK_empty : StOK {} := by
  intro f n p h
  simp [lookupProc] at h

theorem StOK_foldl {α : Type} (step : St → α → St) (hstep : ∀ s a, StOK s → StOK (step s a)) :
    ∀ (l : List α) (s : St), StOK s → StOK (l.foldl step s)
  | [], _, hs => hs
  | a :: l, s, hs => StOK_foldl step hstep l (step s a) (hstep s a hs)

/-- loading source clauses with the model's own compiler keeps the state well-formed -/
theorem StOK_loadClauses (s : St) (ts : List Term) (hs : StOK s) : StOK (loadClauses s ts) := by
  unfold loadClauses
  refine StOK_foldl _ ?_ ts s hs
  intro s t hs
  split
  · exact hs
  · split
    · rename_i c cs hc
      exact StOK_addClauses s _ c cs {} false rfl hc hs _
    · exact hs

theorem initial_ok : InitialOKStatement :=
  ⟨StOK_loadClauses _ _ StOK_empty, fun goal k env m hk hm => callGoal_ok goal k env m hk hm⟩

/-- the state `runQuery` starts from: the bootstrap program plus the asserted clauses -/
theorem StOK_assertProgram (s : St) (prog : List Term) (hs : StOK s) :
    StOK (prog.foldl (fun (s : St) c =>
      match compile (toRep c) with
      | .ok (c1 :: cs) =>
        let old := (lookupProc s c1.name c1.arity).getD { dynamic := true }
        setProc s c1.name c1.arity { old with clauses := old.clauses ++ (c1 :: cs) }
      | _ => s) s) := by
  refine StOK_foldl _ ?_ prog s hs
  intro s t hs
  split
  · rename_i c cs hc
    exact StOK_addClauses s _ c cs { dynamic := true } false rfl hc hs _
  · exact hs

theorem StOK_withCancel (s : St) (c : Option Nat) (hs : StOK s) : StOK { s with cancelAt := c } :=
  StOK_of_procs rfl hs

theorem run_safe : RunSafeStatement := by
  intro fuel prog query max cancelAt answers msg h
  unfold runQuery at h
  have hb : StOK bootState := initial_ok.1
  generalize bootState = b at h hb
  simp only [] at h
  have hst := StOK_assertProgram _ prog (StOK_withCancel _ cancelAt (StOK_loadClauses b [] hb))
  split at h
  · cases h
  · rename_i r m' hf
    obtain ⟨hp, hm⟩ := callGoal_ok query (.collect query max) [] { user := _ } (.collect _ _) hst
    obtain ⟨hr, _⟩ := force_ok (sem fuel) (semOK fuel) cancelAt fuel _ _ r m' hf (all1P hp) hm
    simp only [Option.some.injEq, Prod.mk.injEq] at h
    obtain ⟨_, h⟩ := h
    split at h
    all_goals try cases h
    have := hr _ rfl
    cases hs : msg.startsWith "panic" with
    | false => rfl
    | true => exact absurd ⟨msg, rfl, hs⟩ this

/-! ## the hypotheses are needed, the conclusions are not vacuous -/

/-- the panic residues of the model do satisfy `IsPanic` -/
theorem IsPanic_witness : IsPanic (errP (.goErr "panic: args")) :=
  ⟨_, rfl, by decide +kernel⟩

/-- without `safe` the step theorem fails: code that is not `safe` does panic -/
theorem exec_needs_safe_witness (m : MS) :
    safe [.getConst (.atom "a"), .exit] 0 0 [] = false ∧
    ∃ p, exec 1 [.getConst (.atom "a"), .exit] [] .done [] [] [] 0 m = some (p, m) ∧ IsPanic p :=
  ⟨by decide, _, by simp only [exec], IsPanic_witness⟩

end PrologVerif.ExecSafe
