/-
  Specification: what an ISO error term is (ISO/IEC 13211-1:1995 §7.12.2, with Cor.2:2012),
  as a decidable predicate.  Independent of the code: the vocabularies below are typed in from
  the standard; the implementation's own tables are regenerated (Generated/ErrorAtoms.lean) and
  compared with them by the theorems of Properties/C05.

  `error(Formal, Context)`, Formal one of

      instantiation_error            type_error(ValidType, Culprit)     domain_error(ValidDomain, Culprit)
      existence_error(ObjectType, Culprit)                              permission_error(Operation, PermissionType, Culprit)
      representation_error(Flag)     evaluation_error(Error)            resource_error(Resource)
      syntax_error(Imp_dep_atom)     system_error

  `Resource` and the argument of `syntax_error` are implementation dependent atoms (7.12.2 h, i).
-/
import PrologVerif.Basic
namespace PrologVerif.IsoError

/-- 7.12.2 b -/
def isoValidTypes : List String :=
  ["atom", "atomic", "byte", "callable", "character", "compound", "evaluable", "in_byte", "in_character",
   "integer", "list", "number", "predicate_indicator", "variable"]
/-- 7.12.2 c -/
def isoValidDomains : List String :=
  ["character_code_list", "close_option", "flag_value", "io_mode", "non_empty_list", "not_less_than_zero",
   "operator_priority", "operator_specifier", "prolog_flag", "read_option", "source_sink", "stream",
   "stream_option", "stream_or_alias", "stream_position", "stream_property", "write_option"]
/-- 7.12.2 d -/
def isoObjectTypes : List String := ["procedure", "source_sink", "stream"]
/-- 7.12.2 e -/
def isoOperations : List String := ["access", "create", "input", "modify", "open", "output", "reposition"]
def isoPermissionTypes : List String :=
  ["binary_stream", "flag", "operator", "past_end_of_stream", "private_procedure", "static_procedure",
   "source_sink", "stream", "text_stream"]
/-- 7.12.2 f -/
def isoFlags : List String :=
  ["character", "character_code", "in_character_code", "max_arity", "max_integer", "min_integer"]
/-- 7.12.2 g -/
def isoEvaluationErrors : List String := ["float_overflow", "int_overflow", "undefined", "underflow", "zero_divisor"]

/-! The documented extensions of this implementation, listed explicitly: they are the entries of
    the tables of exception.go that the 1995 text does not have. -/
/-- `pair` is Cor.2 (keysort/2); `float` is used by this implementation's arithmetic (`float_integer_part` …) -/
def extValidTypes : List String := ["pair", "float"]
/-- `order` is Cor.2 (compare/3) -/
def extValidDomains : List String := ["order"]

def validTypes : List String := isoValidTypes ++ extValidTypes
def validDomains : List String := isoValidDomains ++ extValidDomains

/-- is `t` a formal error term (the first argument of `error/2`)? -/
def isIsoFormal : Term → Bool
  | .atom "instantiation_error" => true
  | .atom "system_error" => true
  | .app "type_error" (.cons (.atom ty) (.cons _ .nil)) => validTypes.contains ty
  | .app "domain_error" (.cons (.atom d) (.cons _ .nil)) => validDomains.contains d
  | .app "existence_error" (.cons (.atom o) (.cons _ .nil)) => isoObjectTypes.contains o
  | .app "permission_error" (.cons (.atom a) (.cons (.atom ty) (.cons _ .nil))) =>
      isoOperations.contains a && isoPermissionTypes.contains ty
  | .app "representation_error" (.cons (.atom f) .nil) => isoFlags.contains f
  | .app "evaluation_error" (.cons (.atom e) .nil) => isoEvaluationErrors.contains e
  | .app "resource_error" (.cons (.atom _) .nil) => true
  | .app "syntax_error" (.cons (.atom _) .nil) => true
  | _ => false

/-- is `t` an ISO error term `error(Formal, Context)`? -/
def isIsoError : Term → Bool
  | .app "error" (.cons f (.cons _ .nil)) => isIsoFormal f
  | _ => false

end PrologVerif.IsoError
