/-
  Refine, part 10d — the control constructs that bootstrap.pl defines by clauses (`;`/2 with the
  if-then-else clauses, `->`/2): the clause terms, what `lookupProc` finds for them in the bootstrap
  state, what the reference interpreter does with the goals, and how a control clause — whose head is
  matched by the goal — relates to the frames the reference puts in front of the resolvent
  (`altRel_match`: the unifier of the bridge is the matching substitution on the names of the
  activation).
-/
import PrologVerif.Proofs.RefineRun
import PrologVerif.Proofs.RefineCallSim
namespace PrologVerif.Refine
open PrologVerif PrologVerif.VM PrologVerif.DecompileCompile PrologVerif.Activation
  PrologVerif.RefineITree PrologVerif.RefineRobinson PrologVerif.VMScoped

/-! ### a goal that is an instance of the head -/

/-- the names `κ x` of the activation (x a variable of the head `h`) go to what `θ0` assigns to x -/
noncomputable def tauM (h : Term) (θ0 : Subst) (κ : Nat → Nat) : Subst := fun z =>
  open Classical in if hz : ∃ x, h.hasVar x = true ∧ κ x = z then θ0 (Classical.choose hz) else .var z

section tauM
variable {h : Term} {θ0 : Subst} {κ : Nat → Nat}

theorem tauM_κ (hinj : ∀ x y, h.hasVar x = true → h.hasVar y = true → κ x = κ y → x = y) {x : Nat}
    (hx : h.hasVar x = true) : tauM h θ0 κ (κ x) = θ0 x := by
  unfold tauM
  have hz : ∃ y, h.hasVar y = true ∧ κ y = κ x := ⟨x, hx, rfl⟩
  rw [dif_pos hz]
  have := Classical.choose_spec hz
  rw [hinj _ _ this.1 hx this.2]

theorem tauM_other {z : Nat} (hz : ∀ x, h.hasVar x = true → κ x ≠ z) : tauM h θ0 κ z = .var z := by
  unfold tauM
  rw [dif_neg]
  rintro ⟨x, hx, hxz⟩
  exact hz x hx hxz

theorem tauM_rename (hinj : ∀ x y, h.hasVar x = true → h.hasVar y = true → κ x = κ y → x = y) {t : Term}
    (ht : ∀ x, t.hasVar x = true → h.hasVar x = true) : (t.rename κ).subst (tauM h θ0 κ) = t.subst θ0 := by
  rw [rename_subst]
  exact subst_congr t _ _ (fun x hx => tauM_κ hinj (ht x hx))

theorem tauM_id {nv : Nat} (hκ : ∀ x, h.hasVar x = true → nv ≤ κ x) {s : Term}
    (hs : ∀ z, s.hasVar z = true → z < nv) : s.subst (tauM h θ0 κ) = s := by
  have : s.subst (tauM h θ0 κ) = s.subst (fun v => .var v) := by
    apply subst_congr
    intro z hz
    exact tauM_other (fun x hx hxz => by have := hκ x hx; have := hs z hz; omega)
  rw [this, Term.subst_id]

theorem match_mgu {nv : Nat} (hinj : ∀ x y, h.hasVar x = true → h.hasVar y = true → κ x = κ y → x = y)
    (hκ : ∀ x, h.hasVar x = true → nv ≤ κ x) (hlt : ∀ z, (h.subst θ0).hasVar z = true → z < nv) :
    MguLike (h.subst θ0) (h.rename κ) (tauM h θ0 κ) := by
  refine ⟨?_, ?_, ?_⟩
  · rw [tauM_id hκ hlt, tauM_rename hinj (fun _ hx => hx)]
  · intro β hβ z
    rw [Term.subst_comp, rename_subst] at hβ
    have key := subst_eq_vars _ _ h hβ
    by_cases hz : ∃ x, h.hasVar x = true ∧ κ x = z
    · obtain ⟨x, hx, rfl⟩ := hz
      rw [tauM_κ hinj hx, ← key x hx]
      rfl
    · rw [tauM_other (fun x hx hxz => hz ⟨x, hx, hxz⟩)]
      rfl
  · intro y z hz
    by_cases hy : ∃ x, h.hasVar x = true ∧ κ x = y
    · obtain ⟨x, hx, rfl⟩ := hy
      rw [tauM_κ hinj hx] at hz
      exact Or.inr (Or.inl (hasVar_subst_mpr θ0 z x h hx hz))
    · rw [tauM_other (fun x hx hxy => hy ⟨x, hx, hxy⟩)] at hz
      simp only [Term.hasVar, beq_iff_eq] at hz
      exact Or.inl hz.symm

end tauM

theorem img_vars_lt' {tmpl : Term} {N : Nat} {env : Env} {σ : Subst} {π : Nat → Nat} {D : Nat → Prop} {nv : Nat}
    (hW : SimW tmpl N env σ π D nv) {t : Term} (ht : InD D t) {z : Nat} (hz : (img σ π t).hasVar z = true) :
    z < nv := by
  have hz' : ((t.subst σ).rename π).hasVar z = true := hz
  obtain ⟨u, hu, rfl⟩ := hasVar_rename _ hz'
  exact hW.bnd u (vars_subst_rv ht hu)

/-- **a clause whose head is matched by the goal** (`img g = head θ0`), all variables of the body
    occurring in the head: the reference's frames are the body under θ0 -/
theorem altRel_match {fl : Bool} {tmpl : Term} {N : Nat} {env : Env} {σ : Subst} {π : Nat → Nat} {D : Nat → Prop}
    {nv d : Nat} {g c : Term} {θ0 : Subst} {Fs : List SLD.Frame} (ls : List Nat)
    (hW : SimW tmpl N env σ π D nv) (hgD : InD D g) (hcl : clauseC fl c = true) (hkey : headKey c = goalKey g)
    (hg : img σ π g = (SLD.headBody c).1.subst θ0)
    (hbv : ∀ x, (SLD.headBody c).2.hasVar x = true → (SLD.headBody c).1.hasVar x = true)
    (hFs : FrRel (fun bg => bg.subst θ0) d (SLD.conjuncts (SLD.headBody c).2) Fs) :
    AltRel fl σ π D nv d g (clauseOf c) c (some (.frames (Fs ++ ls.map skipF))) := by
  have hcvh : ∀ x, CV c x → (SLD.headBody c).1.hasVar x = true := by
    rintro x (hx | hx)
    · exact hx
    · exact hbv x hx
  have hinj : ∀ x y, (SLD.headBody c).1.hasVar x = true → (SLD.headBody c).1.hasVar y = true →
      (fun x => nv + x) x = (fun x => nv + x) y → x = y := by
    intro x y _ _ hxy
    have : nv + x = nv + y := hxy
    omega
  have hκ : ∀ x, (SLD.headBody c).1.hasVar x = true → nv ≤ (fun x => nv + x) x := fun x _ => Nat.le_add_right nv x
  have hlt : ∀ z, ((SLD.headBody c).1.subst θ0).hasVar z = true → z < nv := by
    intro z hz
    rw [← hg] at hz
    exact img_vars_lt' hW hgD hz
  refine .frames (fun x => nv + x) (nv + SLD.maxVar (SLD.headBody c).1) (tauM (SLD.headBody c).1 θ0 (fun x => nv + x))
    ls (clauseOf_spec c hcl).2 hkey (Nat.le_add_right _ _)
    (fun x y hx hy hxy => hinj x y (hcvh x hx) (hcvh y hy) hxy)
    (fun x u _ hu => by
      have := hW.bnd u hu
      show π u ≠ nv + x
      omega)
    (fun x hx => by
      have := hasVar_lt_maxVar _ (hcvh x hx)
      show nv + x < nv + SLD.maxVar (SLD.headBody c).1
      omega)
    (by rw [hg]; exact match_mgu hinj hκ hlt)
    (fun s hs => tauM_id hκ hs)
    (fun x hx z hz => by
      rw [tauM_κ hinj (hcvh x hx)] at hz
      exact hlt z (hasVar_subst_mpr θ0 z x _ (hcvh x hx) hz))
    ?_
  refine hFs.congr ?_
  intro bg hbg
  show bg.subst θ0 = _
  rw [tauM_rename hinj (fun x hx => hbv x (conjuncts_vars hbg hx))]

/-! ### the control clauses of bootstrap.pl -/

def cV (n : Nat) : Term := .var n
def cConj (a b : Term) : Term := .app "," (.cons a (.cons b .nil))

/-- `If -> Then ; _ :- If, !, Then.` -/
def ite1 : Term :=
  SLD.rule (SLD.mk2 ";" (SLD.mk2 "->" (cV 0) (cV 1)) (cV 2)) (cConj (cV 0) (cConj (.atom "!") (cV 1)))
/-- `_ -> _ ; Else :- !, Else.` -/
def ite2 : Term :=
  SLD.rule (SLD.mk2 ";" (SLD.mk2 "->" (cV 0) (cV 1)) (cV 2)) (cConj (.atom "!") (cV 2))
/-- `P ; Q :- call((P ; Q)).` -/
def disj3 : Term :=
  SLD.rule (SLD.mk2 ";" (cV 0) (cV 1)) (SLD.call1 (SLD.mk2 ";" (cV 0) (cV 1)))
/-- `If -> Then :- If, !, Then.` -/
def ifthen1 : Term :=
  SLD.rule (SLD.mk2 "->" (cV 0) (cV 1)) (cConj (cV 0) (cConj (.atom "!") (cV 1)))

/-- `once(P) :- P, !.` -/
def once1 : Term :=
  SLD.rule (.app "once" (.cons (cV 0) .nil)) (cConj (cV 0) (.atom "!"))

def onceOK : Bool :=
  match lookupProc bootState "once" 1 with
  | some p => decide (p.clauses = [clauseOf once1])
  | none => false

theorem onceOK_eq : onceOK = true := by decide +kernel

theorem boot_once : ∃ p, lookupProc bootState "once" 1 = some p ∧ p.clauses = [clauseOf once1] := by
  have h := onceOK_eq
  unfold onceOK at h
  split at h
  · rename_i p hp
    exact ⟨p, hp, by simpa using h⟩
  · cases h

theorem clauseC_once1 : clauseC true once1 = true := by decide +kernel

theorem bv_once1 : ∀ x, (SLD.headBody once1).2.hasVar x = true → (SLD.headBody once1).1.hasVar x = true := by
  intro x hx
  simp [once1, SLD.headBody, SLD.rule, SLD.mk2, cConj, cV, Term.hasVar, Args.hasVar] at hx ⊢
  omega

def semiOK : Bool :=
  match lookupProc bootState ";" 2 with
  | some p => decide (p.clauses = [clauseOf ite1, clauseOf ite2, clauseOf disj3])
  | none => false

theorem semiOK_eq : semiOK = true := by decide +kernel

theorem boot_semi : ∃ p, lookupProc bootState ";" 2 = some p ∧
    p.clauses = [clauseOf ite1, clauseOf ite2, clauseOf disj3] := by
  have h := semiOK_eq
  unfold semiOK at h
  split at h
  · rename_i p hp
    exact ⟨p, hp, by simpa using h⟩
  · cases h

def arrowOK : Bool :=
  match lookupProc bootState "->" 2 with
  | some p => decide (p.clauses = [clauseOf ifthen1])
  | none => false

theorem arrowOK_eq : arrowOK = true := by decide +kernel

theorem boot_arrow : ∃ p, lookupProc bootState "->" 2 = some p ∧ p.clauses = [clauseOf ifthen1] := by
  have h := arrowOK_eq
  unfold arrowOK at h
  split at h
  · rename_i p hp
    exact ⟨p, hp, by simpa using h⟩
  · cases h

theorem clauseC_ite1 : clauseC true ite1 = true := by decide +kernel
theorem clauseC_ite2 : clauseC true ite2 = true := by decide +kernel
theorem clauseC_ifthen1 : clauseC true ifthen1 = true := by decide +kernel

theorem bv_ite1 : ∀ x, (SLD.headBody ite1).2.hasVar x = true → (SLD.headBody ite1).1.hasVar x = true := by
  intro x hx
  simp [ite1, SLD.headBody, SLD.rule, SLD.mk2, cConj, cV, Term.hasVar, Args.hasVar] at hx ⊢
  omega

theorem bv_ite2 : ∀ x, (SLD.headBody ite2).2.hasVar x = true → (SLD.headBody ite2).1.hasVar x = true := by
  intro x hx
  simp [ite2, SLD.headBody, SLD.rule, SLD.mk2, cConj, cV, Term.hasVar, Args.hasVar] at hx ⊢
  omega

theorem bv_ifthen1 : ∀ x, (SLD.headBody ifthen1).2.hasVar x = true → (SLD.headBody ifthen1).1.hasVar x = true := by
  intro x hx
  simp [ifthen1, SLD.headBody, SLD.rule, SLD.mk2, cConj, cV, Term.hasVar, Args.hasVar] at hx ⊢
  omega

/-! ### the reference interpreter on the control constructs -/

theorem solve_ite (prog : List Term) (n d nv l : Nat) (c t e : Term) (rest : List SLD.Frame) (q : Term) (limit : Nat) :
    SLD.solve false prog (n + 1) d nv
      (.goal (.app ";" (.cons (.app "->" (.cons c (.cons t .nil))) (.cons e .nil))) l :: rest) q limit =
      SLD.solveAlts false prog n d nv
        [.frames [.goal (SLD.call1 c) d, .goal (.atom "!") d, .goal (SLD.call1 t) l], .frames [.goal (SLD.call1 e) l]]
        rest q limit := by
  rw [SLD.solve]
  · simp [SLD.functor, Args.toList, SLD.cutT]
  · intro v hv; cases hv

theorem solve_ifthen (prog : List Term) (n d nv l : Nat) (c t : Term) (rest : List SLD.Frame) (q : Term) (limit : Nat) :
    SLD.solve false prog (n + 1) d nv (.goal (.app "->" (.cons c (.cons t .nil))) l :: rest) q limit =
      SLD.solveAlts false prog n d nv
        [.frames [.goal (SLD.call1 c) d, .goal (.atom "!") d, .goal (SLD.call1 t) l]] rest q limit := by
  rw [SLD.solve]
  · simp [SLD.functor, Args.toList, SLD.cutT]
  · intro v hv; cases hv

/-- `once(G)` is `(call(G) -> true)` -/
theorem solve_once (prog : List Term) (n d nv l : Nat) (g : Term) (rest : List SLD.Frame) (q : Term) (limit : Nat) :
    SLD.solve false prog (n + 1 + 1) d nv (.goal (.app "once" (.cons g .nil)) l :: rest) q limit =
      SLD.solveAlts false prog n d nv
        [.frames [.goal (SLD.call1 (SLD.call1 g)) d, .goal (.atom "!") d, .goal (SLD.call1 (.atom "true")) l]]
        rest q limit := by
  rw [SLD.solve]
  · simp only [SLD.functor, Args.toList, SLD.builtin, List.map_cons, List.map_nil, List.singleton_append]
    exact solve_ifthen prog n d nv l (SLD.call1 g) (.atom "true") rest q limit
  · intro v hv; cases hv

/-- `\\+ G` is `(call(G) -> fail ; true)` -/
theorem solve_neg (prog : List Term) (n d nv l : Nat) (g : Term) (rest : List SLD.Frame) (q : Term) (limit : Nat) :
    SLD.solve false prog (n + 1 + 1) d nv (.goal (.app "\\+" (.cons g .nil)) l :: rest) q limit =
      SLD.solveAlts false prog n d nv (negAlts g d l) rest q limit := by
  rw [SLD.solve]
  · simp only [SLD.functor, Args.toList, SLD.builtin, List.map_cons, List.map_nil, List.singleton_append]
    exact solve_ite prog n d nv l (SLD.call1 g) (.atom "fail") (.atom "true") rest q limit
  · intro v hv; cases hv

/-! ### a disjunction as a goal -/

theorem disjHead_not_arrow {a : Term} (ha : disjHead a = true) : ∀ c t, a ≠ .app "->" (.cons c (.cons t .nil)) := by
  intro c t h
  subst h
  simp [disjHead, Args.length] at ha

theorem disjHead_img (σ : Subst) (π : Nat → Nat) {a : Term} (ha : disjHead a = true) : disjHead (img σ π a) = true := by
  cases a with
  | atom f => rfl
  | app f as =>
    simpa [img, Term.rename, Term.subst, disjHead, Args.length_subst] using ha
  | var _ => simp [disjHead] at ha
  | int _ => simp [disjHead] at ha
  | flt _ => simp [disjHead] at ha
  | str _ => simp [disjHead] at ha

/-- `(a ; b)` as a goal, not an if-then-else: the reference runs the body of `call((a ; b))` -/
theorem solve_disj_goal (prog : List Term) (n d nv l : Nat) (a b : Term) (rest : List SLD.Frame) (q : Term)
    (limit : Nat) (ha : disjHead a = true) :
    SLD.solve false prog (n + 1) d nv (.goal (.app ";" (.cons a (.cons b .nil))) l :: rest) q limit =
      SLD.solve false prog (n + 1) d nv (.goal (SLD.call1 (.app ";" (.cons a (.cons b .nil)))) l :: rest) q limit := by
  have hna := disjHead_not_arrow ha
  have hR : SLD.solve false prog (n + 1) d nv (.goal (SLD.call1 (.app ";" (.cons a (.cons b .nil)))) l :: rest) q limit =
      (if SLD.okBody false (.app ";" (.cons a (.cons b .nil))) then
        SLD.solveAlts false prog n d nv (SLD.bodyAlts false (.app ";" (.cons a (.cons b .nil))) d) rest q limit
       else SLD.raise (SLD.typeErr "callable" (.app ";" (.cons a (.cons b .nil))))) := by
    rw [SLD.solve]
    · simp [SLD.call1, SLD.functor, Args.toList, SLD.addArgs, Term.mk, Args.ofList]
    · intro v hv; cases hv
  rw [hR]
  rw [SLD.solve]
  · simp only [SLD.functor, Args.toList]
    split
    · rename_i h; cases h
    · rfl
  · intro v hv; cases hv

/-- the heads of the two if-then-else clauses of `;`/2 clash with a disjunction whose first
    alternative is callable and not `->`/2 -/
theorem clash_ite {a b : Term} (ha : disjHead a = true) (x y z : Term) :
    Robinson.solve 2 [(.app ";" (.cons a (.cons b .nil)),
      .app ";" (.cons (.app "->" (.cons x (.cons y .nil))) (.cons z .nil)))] [] = .clash := by
  have hna := disjHead_not_arrow ha
  have h1 : (Term.app ";" (.cons a (.cons b .nil))) ≠
      .app ";" (.cons (.app "->" (.cons x (.cons y .nil))) (.cons z .nil)) := by
    intro h
    simp only [Term.app.injEq, Args.cons.injEq, true_and, and_true] at h
    exact hna x y h.1
  rw [Robinson.solve, if_neg h1]
  simp only [Args.length, and_self, if_true, Robinson.zipArgs, List.append_nil]
  rw [Robinson.solve, if_neg (hna x y)]
  cases a with
  | atom f => rfl
  | app f as =>
    have : ¬ (f = "->" ∧ as.length = 2) := by
      simp only [disjHead, Bool.not_eq_true', Bool.and_eq_false_iff, beq_eq_false_iff_ne, ne_eq] at ha
      rintro ⟨h1, h2⟩
      rcases ha with ha | ha
      · exact ha h1
      · exact ha h2
    simp only [Args.length, this, if_false]
  | var _ => simp [disjHead] at ha
  | int _ => simp [disjHead] at ha
  | flt _ => simp [disjHead] at ha
  | str _ => simp [disjHead] at ha

/-- **a clause whose head clashes with the goal**: no alternative of the reference -/
theorem altRel_dead {fl : Bool} {tmpl : Term} {N : Nat} {env : Env} {σ : Subst} {π : Nat → Nat} {D : Nat → Prop}
    {nv d : Nat} {g c : Term}
    (hW : SimW tmpl N env σ π D nv) (hcl : clauseC fl c = true) (hkey : headKey c = goalKey g)
    (hbv : ∀ x, (SLD.headBody c).2.hasVar x = true → (SLD.headBody c).1.hasVar x = true)
    (hclash : ∃ n, Robinson.solve n [(img σ π g, (SLD.headBody c).1.rename (fun x => nv + x))] [] = .clash) :
    AltRel fl σ π D nv d g (clauseOf c) c none := by
  have hcvh : ∀ x, CV c x → (SLD.headBody c).1.hasVar x = true := by
    rintro x (hx | hx)
    · exact hx
    · exact hbv x hx
  refine .dead (fun x => nv + x) (nv + SLD.maxVar (SLD.headBody c).1) (clauseOf_spec c hcl).2 hkey (Nat.le_add_right _ _)
    (fun x y _ _ hxy => by
      have : nv + x = nv + y := hxy
      omega)
    (fun x u _ hu => by
      have := hW.bnd u hu
      show π u ≠ nv + x
      omega)
    (fun x hx => by
      have := hasVar_lt_maxVar _ (hcvh x hx)
      show nv + x < nv + SLD.maxVar (SLD.headBody c).1
      omega)
    hclash

theorem clauseC_disj3 : clauseC true disj3 = true := by decide +kernel

theorem bv_disj3 : ∀ x, (SLD.headBody disj3).2.hasVar x = true → (SLD.headBody disj3).1.hasVar x = true := by
  intro x hx
  simp [disj3, SLD.headBody, SLD.rule, SLD.mk2, SLD.call1, cV, Term.hasVar, Args.hasVar] at hx ⊢
  omega

theorem wrapBody_disj3 : WrapBody disj3 := by
  constructor
  · intro bg hbg
    simp [disj3, SLD.headBody, SLD.rule, SLD.mk2, SLD.call1, SLD.conjuncts, SLD.wrapVar] at hbg
    subst hbg
    intro h; cases h
  · intro h
    simp [disj3, SLD.headBody, SLD.rule, SLD.mk2, SLD.call1] at h

/-! ### the VM on the control constructs: not built in -/

theorem builtin_neg (n : Nat) (g : Term) (k : Cont) (env : Env) (m : MS) :
    builtin (n + 1) "\\+" [g] k env m =
      some (some ({ id := m.user.nextId, delayed := [.negate g k env] },
        { m with user := { m.user with nextId := m.user.nextId + 1 } })) := by
  rw [builtin]
  rfl


theorem builtin_once (n : Nat) (a : Term) (k : Cont) (env : Env) (m : MS) :
    builtin (n + 1) "once" [a] k env m = none := by
  rw [builtin]
  all_goals simp

theorem userPred_once : userPred "once" 1 = false := by simp [userPred, reservedNames]


theorem builtin_semi (n : Nat) (a b : Term) (k : Cont) (env : Env) (m : MS) :
    builtin (n + 1) ";" [a, b] k env m = none := by
  rw [builtin]
  all_goals simp

theorem builtin_arrow (n : Nat) (a b : Term) (k : Cont) (env : Env) (m : MS) :
    builtin (n + 1) "->" [a, b] k env m = none := by
  rw [builtin]
  all_goals simp

/-- `callN` -/
theorem builtin_callN (n : Nat) (g e : Term) (es : List Term) (k : Cont) (env : Env) (m : MS) :
    builtin (n + 1) "call" (g :: e :: es) k env m =
      match res env g with
      | .var _ => some (some (mkErr instErr env m))
      | .atom a => some (some (callGoal (.app a (Args.ofList (e :: es))) k env m))
      | .app a as => some (some (callGoal (.app a (Args.ofList (as.toList ++ e :: es))) k env m))
      | other => some (some (mkErr (typeErr "callable" other) env m)) := by
  rw [builtin]
  rfl

theorem builtin_callN_var (n : Nat) (g e : Term) (es : List Term) (k : Cont) (env : Env) (m : MS) (v : Nat)
    (hr : res env g = .var v) :
    builtin (n + 1) "call" (g :: e :: es) k env m = some (some (mkErr instErr env m)) := by
  rw [builtin_callN, hr]

theorem builtin_callN_some (n : Nat) (g e : Term) (es : List Term) (k : Cont) (env : Env) (m : MS) (g0 G : Term)
    (hr : res env g = g0) (h : addArgsVM g0 (e :: es) = some G) :
    builtin (n + 1) "call" (g :: e :: es) k env m = some (some (callGoal G k env m)) := by
  rw [builtin_callN, hr]
  cases g0 with
  | atom a => simp only [addArgsVM, Option.some.injEq] at h; subst h; rfl
  | app a as => simp only [addArgsVM, Option.some.injEq] at h; subst h; rfl
  | var _ => simp [addArgsVM] at h
  | int _ => simp [addArgsVM] at h
  | flt _ => simp [addArgsVM] at h
  | str _ => simp [addArgsVM] at h

theorem builtin_callN_none (n : Nat) (g e : Term) (es : List Term) (k : Cont) (env : Env) (m : MS) (g0 : Term)
    (hr : res env g = g0) (h : addArgsVM g0 (e :: es) = none) (hnv : ∀ v, g0 ≠ .var v) :
    builtin (n + 1) "call" (g :: e :: es) k env m = some (some (mkErr (typeErr "callable" g0) env m)) := by
  rw [builtin_callN, hr]
  cases g0 with
  | var v => exact absurd rfl (hnv v)
  | atom _ => simp [addArgsVM] at h
  | app _ _ => simp [addArgsVM] at h
  | int _ => rfl
  | flt _ => rfl
  | str _ => rfl

theorem userPred_semi : userPred ";" 2 = false := by simp [userPred, reservedNames]
theorem userPred_arrow : userPred "->" 2 = false := by simp [userPred, reservedNames]

end PrologVerif.Refine
