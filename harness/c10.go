package main

// C10: the compiled form of a clause (c10.compile) — random clause terms, built through every
// constructor path and with some variables bound at assertion time, are compiled by the REAL
// compiler (hook VerifCompile) and compared instruction for instruction, variable table and stored
// term included, with the Lean model of clause.go.

import (
	"hash/fnv"
	"fmt"
	"math/rand"
	"strings"
	"time"

	"github.com/ichiban/prolog/engine"
)

func init() {
	register(&stream{name: "c10.compile", gen: genC10Compile, run: runC10Compile})
}

func (g *termGen) goal(d int) *gt {
	switch k := g.r.Intn(20); {
	case k < 2:
		return gAtom("!")
	case k < 4:
		return gVar(g.r.Intn(g.nvars))
	case k < 6:
		return gAtom(pick(g.r, []string{"true", "fail", "foo", "nl"}))
	case k < 7 && d > 0:
		return gApp(",", gApp(",", g.goal(d-1), g.goal(d-1)), g.goal(d-1)) // left-nested: stays one goal
	case k < 9 && d > 0:
		return gApp(";", gApp("->", g.goal(d-1), g.goal(d-1)), g.goal(d-1))
	case k < 10 && d > 0:
		return gApp("\\+", g.goal(d-1))
	case k < 11:
		return pick(g.r, []*gt{gInt(1), gFlt(1.5)}) // not callable
	default:
		n := 1 + g.r.Intn(3)
		args := make([]*gt, n)
		for i := range args {
			args[i] = g.term(2)
		}
		return gApp(pick(g.r, []string{"q", "r", "=", "call", "findall"}), args...)
	}
}

func (g *termGen) seq(d int) *gt {
	n := 1 + g.r.Intn(4)
	gs := make([]*gt, n)
	for i := range gs {
		gs[i] = g.goal(d)
	}
	t := gs[n-1]
	for i := n - 2; i >= 0; i-- {
		t = gApp(",", gs[i], t)
	}
	return t
}

func genC10Compile(r *rand.Rand, n int, tier string) []string {
	var out []string
	for i := 0; i < n; i++ {
		g := &termGen{r: r, nvars: 1 + r.Intn(6)}
		var head *gt
		if r.Intn(6) == 0 {
			head = gAtom("p")
		} else {
			k := 1 + r.Intn(3)
			args := make([]*gt, k)
			for j := range args {
				args[j] = g.term(3)
			}
			head = gApp("p", args...)
		}
		if r.Intn(25) == 0 {
			head = pick(r, []*gt{gInt(3), gVar(0), g.list(2)})
		}
		clause := head
		if r.Intn(5) > 0 {
			body := g.seq(2)
			for r.Intn(4) == 0 {
				body = gApp(";", g.seq(2), body) // top-level disjunction: one compiled clause per disjunct
			}
			clause = gApp(":-", head, body)
		}
		// some variables are bound when the clause is asserted
		var binds []string
		// … in particular variables standing for a piece of the clause's own STRUCTURE (a goal, a
		// conjunction, an if-then, a disjunct, a head argument): the compiler resolves lazily at every
		// level of its traversal, and each of those places must look through the binding
		nextVar := g.nvars
		for k := r.Intn(3); k > 0 && clause.kind == "app"; k-- {
			var abstracted *gt
			clause = abstractSub(r, clause, 0, &nextVar, &abstracted)
			if abstracted != nil {
				binds = append(binds, fmt.Sprintf("%d=%s", nextVar-1, abstracted))
			}
		}
		for v := 0; v < g.nvars; v++ {
			if r.Intn(4) == 0 {
				g2 := &termGen{r: r, nvars: g.nvars}
				t := g2.term(2)
				if gtOccurs(v, t) {
					continue
				}
				binds = append(binds, fmt.Sprintf("%d=%s", v, t))
			}
		}
		rec := make([]byte, 1+r.Intn(4))
		for j := range rec {
			rec[j] = c02Recipes[r.Intn(len(c02Recipes))]
		}
		out = append(out, fmt.Sprintf("%s | %s | %s", rec, clause, strings.Join(binds, " & ")))
	}
	return out
}

// abstractSub replaces one random proper subterm of t (at depth >= 1) by a fresh variable and
// returns the subterm through out.
func abstractSub(r *rand.Rand, t *gt, depth int, nextVar *int, out **gt) *gt {
	if t.kind != "app" || len(t.args) == 0 {
		return t
	}
	i := r.Intn(len(t.args))
	args := append([]*gt{}, t.args...)
	sub := t.args[i]
	if sub.kind == "var" {
		return t
	}
	if sub.kind != "app" || r.Intn(2) == 0 || depth >= 3 {
		if depth == 0 && t.s == ":-" && i == 0 {
			return t // not the whole head (a variable head is an error case of its own)
		}
		*out = sub
		args[i] = gVar(*nextVar)
		*nextVar = *nextVar + 1
	} else {
		args[i] = abstractSub(r, sub, depth+1, nextVar, out)
	}
	return gApp(t.s, args...)
}

func runC10Compile(payload string) string {
	f := strings.Split(payload, " | ")
	rec, cl, bindS := f[0], f[1], ""
	if len(f) > 2 {
		bindS = f[2]
	}
	i, _ := newInterp("")
	vars := map[int]engine.Variable{}
	reps := map[string]bool{}
	var pre []engine.Term
	var lvars []engine.Variable
	b := &builder{i: i, vars: vars, recipe: rec, reps: reps, pre: &pre, lvars: &lvars}
	t := b.build(parseGT(cl))
	nbound := 0
	if strings.TrimSpace(bindS) != "" {
		for _, bs := range strings.Split(bindS, " & ") {
			kv := strings.SplitN(bs, "=", 2)
			var v int
			fmt.Sscanf(kv[0], "%d", &v)
			// cyclic bindings would make the clause infinite: bind only if the variable stays acyclic
			pre = append(pre, compound("=", b.variable(v), b.build(parseGT(kv[1]))))
			nbound++
		}
	}
	goal := engine.Term(atom("true"))
	for k := len(pre) - 1; k >= 0; k-- {
		goal = compound(",", pre[k], goal)
	}
	out := "setup-failed"
	_, err := solve(&i.VM, goal, 1, 5*time.Second, func(env *engine.Env) bool {
		okAcyclic := false
		_, _ = engine.AcyclicTerm(&i.VM, t, func(*engine.Env) *engine.Promise { okAcyclic = true; return engine.Bool(true) }, env).Force(ctxBg())
		if !okAcyclic {
			out = "cyclic"
			return false
		}
		vn := newVarNamer()
		ann := wire(engine.VerifRepTree(t, env), nil, vn)
		for _, l := range lvars {
			reps[engine.VerifTermRep(env.Resolve(l))] = true
		}
		cs, cerr := engine.VerifCompile(t, env)
		if cerr != nil {
			out = ann + " ;;; " + errWire(cerr)
			return false
		}
		var parts []string
		for _, c := range cs {
			var code []string
			for _, in := range c.Code {
				if in.Operand == nil {
					code = append(code, in.Op)
				} else {
					code = append(code, in.Op+" "+wire(in.Operand, nil, vn))
				}
			}
			var vs []string
			for _, v := range c.Vars {
				vs = append(vs, wire(v, nil, vn))
			}
			parts = append(parts, fmt.Sprintf("%s/%d vars=[%s] code=[%s] raw=%s", encName(c.Name), c.Arity,
				strings.Join(vs, " "), strings.Join(code, ", "), wire(c.Raw, nil, vn)))
		}
		out = ann + " ;;; " + strings.Join(parts, " ;; ")
		return false
	})
	if err != nil {
		out = "setup-" + errWire(err)
	}
	var rs []string
	for r := range reps {
		rs = append(rs, strings.ReplaceAll(r, " ", ""))
	}
	repTag := strings.Join(rs, "+")
	if repTag == "" {
		repTag = "none"
	}
	nt := 0
	if strings.Contains(cl, "C2::-") && (nbound > 0 || strings.Count(cl, "V0") > 1) {
		nt = 1
	}
	kind := "ok"
	if strings.Contains(out, ";;; err") {
		kind = "error"
	} else if !strings.Contains(out, ";;;") {
		kind = out
	}
	return out + fmt.Sprintf(" ### nt=%d bound=%d reps=%s result=%s", nt, nbound, repTag, strings.Fields(kind)[0])
}

// ---------------------------------------------------------------------------
// c10.observe: the same clause added through Exec (program text) and through assertz, observed
// through clause/2, by calling it, and through retract/1 — across SEPARATE queries.
// payload: `<clause wire> | <bindings k=wire & …>`   (head functor p; the Exec copy is named p2)
// ---------------------------------------------------------------------------

func init() {
	register(&stream{name: "c10.observe", gen: genC10Observe, run: runC10Observe})
}

func (g *termGen) safeGoal() *gt {
	switch k := g.r.Intn(12); {
	case k < 2:
		return gAtom("true")
	case k < 3:
		return gAtom("fail")
	case k < 4:
		return gAtom("!")
	case k < 7:
		return gApp("q", g.term(1))
	case k < 8:
		return gVar(g.r.Intn(g.nvars)) // a variable goal: bound to a callable term by the query below
	default:
		return gApp("=", g.term(2), g.term(2))
	}
}

func genC10Observe(r *rand.Rand, n int, tier string) []string {
	var out []string
	for i := 0; i < n; i++ {
		g := &termGen{r: r, nvars: 1 + r.Intn(5)}
		k := r.Intn(4)
		var head *gt
		if k == 0 {
			head = gAtom("p")
		} else {
			args := make([]*gt, k)
			for j := range args {
				args[j] = g.term(2)
			}
			head = gApp("p", args...)
		}
		wide := r.Intn(12) == 0
		if wide {
			// a clause with 60..130 distinct variables, several of them repeated (also beyond offset 64)
			n := 60 + r.Intn(71)
			vs := make([]*gt, n)
			for j := range vs {
				vs[j] = gVar(j)
			}
			k1, k2 := r.Intn(n), n-1-r.Intn(8)
			head = gApp("p", gApp("f", vs...), gApp("g", gVar(k1), gVar(k2)), gVar(k2))
			g.nvars = n
		}
		clause := head
		if r.Intn(4) > 0 && !wide {
			m := 1 + r.Intn(3)
			gs := make([]*gt, m)
			for j := range gs {
				gs[j] = g.safeGoal()
			}
			body := gs[m-1]
			for j := m - 2; j >= 0; j-- {
				body = gApp(",", gs[j], body)
			}
			if r.Intn(8) == 0 {
				body = gApp(";", body, g.safeGoal())
				if r.Intn(2) == 0 {
					body = gApp(";", g.safeGoal(), body)
				}
			}
			clause = gApp(":-", head, body)
		}
		var binds []string
		for v := 0; v < g.nvars && !wide; v++ {
			if r.Intn(3) == 0 {
				g2 := &termGen{r: r, nvars: g.nvars}
				t := g2.term(1)
				if gtOccurs(v, t) || t.kind == "flt" {
					continue
				}
				binds = append(binds, fmt.Sprintf("%d=%s", v, t))
			}
		}
		if stoClosureBinds(binds) {
			binds = nil
		}
		// the =/2 goals of the body, taken together, must not be subject to occurs check (cyclic
		// terms are outside every property and overflow the Go stack in several builtins)
		var ls, rs []*gt
		var collect func(t *gt)
		collect = func(t *gt) {
			if t.kind == "app" && t.s == "=" && len(t.args) == 2 {
				ls, rs = append(ls, t.args[0]), append(rs, t.args[1])
			}
			for _, a := range t.args {
				collect(a)
			}
		}
		collect(clause)
		for _, b := range binds {
			kv := strings.SplitN(b, "=", 2)
			var v int
			fmt.Sscanf(kv[0], "%d", &v)
			ls, rs = append(ls, gVar(v)), append(rs, parseGT(kv[1]))
		}
		if len(ls) > 0 && stoClosure(gApp("t", ls...), gApp("t", rs...)) {
			i--
			continue
		}
		rec := make([]byte, 1+r.Intn(3))
		for j := range rec {
			rec[j] = c02Recipes[r.Intn(len(c02Recipes))]
		}
		out = append(out, fmt.Sprintf("%s | %s | %s", clause, strings.Join(binds, " & "), rec))
	}
	return out
}

// stoClosureBinds: would the bindings create a cyclic term?
func stoClosureBinds(binds []string) bool {
	var l, r []*gt
	for _, b := range binds {
		kv := strings.SplitN(b, "=", 2)
		var v int
		fmt.Sscanf(kv[0], "%d", &v)
		l = append(l, gVar(v))
		r = append(r, parseGT(kv[1]))
	}
	if len(l) == 0 {
		return false
	}
	return stoClosure(gApp("t", l...), gApp("t", r...))
}

func renameHead(t engine.Term, to string) engine.Term {
	ren := func(h engine.Term) engine.Term {
		switch h := h.(type) {
		case engine.Atom:
			return atom(to)
		case engine.Compound:
			args := make([]engine.Term, h.Arity())
			for i := range args {
				args[i] = h.Arg(i)
			}
			return atom(to).Apply(args...)
		}
		return h
	}
	if c, ok := t.(engine.Compound); ok && c.Functor().String() == ":-" && c.Arity() == 2 {
		return compound(":-", ren(c.Arg(0)), c.Arg(1))
	}
	return ren(t)
}

func runC10Observe(payload string) string {
	f := strings.Split(payload, " | ")
	cl, bindS, recipe := f[0], "", "b"
	if len(f) > 1 {
		bindS = f[1]
	}
	if len(f) > 2 && strings.TrimSpace(f[2]) != "" {
		recipe = strings.TrimSpace(f[2])
	}
	i, outBuf := newInterp("")
	if err := i.Exec(":- dynamic(p/0). :- dynamic(p/1). :- dynamic(p/2). :- dynamic(p/3). :- dynamic(p2/0). :- dynamic(p2/1). :- dynamic(p2/2). :- dynamic(p2/3). q(1). q(2). q(a)."); err != nil {
		return "setup-" + errWire(err)
	}
	vars := map[int]engine.Variable{}
	reps := map[string]bool{}
	var pre []engine.Term
	var lvars []engine.Variable
	b := &builder{i: i, vars: vars, recipe: recipe, reps: reps, pre: &pre, lvars: &lvars}
	gcl := parseGT(cl)
	t := b.build(gcl)
	arity := 0
	hd := gcl
	if gcl.kind == "app" && gcl.s == ":-" && len(gcl.args) == 2 {
		hd = gcl.args[0]
	}
	if hd.kind == "app" {
		arity = len(hd.args)
	}
	var bindGoals []engine.Term
	if strings.TrimSpace(bindS) != "" {
		for _, bs := range strings.Split(bindS, " & ") {
			kv := strings.SplitN(bs, "=", 2)
			var v int
			fmt.Sscanf(kv[0], "%d", &v)
			bindGoals = append(bindGoals, compound("=", b.variable(v), b.build(parseGT(kv[1]))))
		}
	}
	// all variables of the case, to observe that storing/reading the clause binds none of them
	nv := 0
	for k := range vars {
		if k+1 > nv {
			nv = k + 1
		}
	}
	vs := make([]engine.Term, nv)
	for k := range vs {
		vs[k] = b.variable(k)
	}
	// query 1: bind, assertz the clause, print it as text for the Exec path, then bind the variables
	// further AFTER storing (must not affect the stored clause); observe the caller's variables
	outBuf.Reset()
	// ... and, still in the same query, with every variable that is still free bound AFTERWARDS, look at
	// the stored clause through clause/2: the bindings made after storing must not show
	inqL := engine.NewVariable()
	snap := engine.NewVariable() // the caller's variables as they are right after storing
	inqArgs := make([]engine.Term, arity)
	for k := range inqArgs {
		inqArgs[k] = engine.NewVariable()
	}
	inqHead := engine.Term(atom("p"))
	if arity > 0 {
		inqHead = atom("p").Apply(inqArgs...)
	}
	inqB := engine.NewVariable()
	tail := engine.Term(compound("findall", compound(":-", inqHead, inqB), compound("clause", inqHead, inqB), inqL))
	for k := len(vs) - 1; k >= 0; k-- {
		tail = compound(",", compound(";", compound("->", compound("var", vs[k]), compound("=", vs[k], atom("bound_later"))), atom("true")), tail)
	}
	goal := engine.Term(compound(",", compound("assertz", t), compound(",", compound("write_canonical", renameHead(t, "p2")), compound(",", compound("=", engine.List(vs...), engine.List(vs...)), compound(",", compound("copy_term", engine.List(vs...), snap), tail)))))
	for k := len(bindGoals) - 1; k >= 0; k-- {
		goal = compound(",", bindGoals[k], goal)
	}
	for k := len(pre) - 1; k >= 0; k-- {
		goal = compound(",", pre[k], goal)
	}
	var after string
	var inq []string
	_, err := solve(&i.VM, goal, 1, 5*time.Second, func(env *engine.Env) bool {
		after = wire(snap, env, newVarNamer())
		it := engine.ListIterator{List: inqL, Env: env}
		for it.Next() {
			inq = append(inq, wire(it.Current(), env, newVarNamer()))
		}
		return false
	})
	if err != nil {
		return "assert-" + errWire(err) + " ### nt=0 result=asserterr"
	}
	text := outBuf.String()
	if err := i.Exec(fmt.Sprintf(":- dynamic(p2/%d). ", arity) + text + " ."); err != nil {
		return "exec-" + errWire(err) + " text=" + encName(text) + " ### nt=0 result=execerr"
	}
	args := func() []engine.Term {
		as := make([]engine.Term, arity)
		for k := range as {
			as[k] = engine.NewVariable()
		}
		return as
	}
	mk := func(name string, as []engine.Term) engine.Term {
		if len(as) == 0 {
			return atom(name)
		}
		return atom(name).Apply(as...)
	}
	observe := func(name string) string {
		// separate queries: clause/2, calling, retract/1 (which also must not bind caller variables)
		as := args()
		bv := engine.NewVariable()
		cls, e1 := solveAll(&i.VM, compound("clause", mk(name, as), bv), compound(":-", mk("p", as), bv), 20)
		as2 := args()
		ans, e2 := solveAll(&i.VM, mk(name, as2), mk("p", as2), 20)
		// the same call with a VARIANT OF THE HEAD's arguments built through a different constructor
		// path ('.'/2 compound cells, fresh variables): it unifies with the head by a mere renaming, so
		// the answers must be the same
		var ans2 []string
		if hd.kind == "app" {
			vb := &builder{i: i, vars: map[int]engine.Variable{}, recipe: "d", reps: map[string]bool{}, pre: &[]engine.Term{}, lvars: &[]engine.Variable{}}
			hv := make([]engine.Term, len(hd.args))
			for k, a := range hd.args {
				hv[k] = vb.build(a)
			}
			ans2, _ = solveAll(&i.VM, mk(name, hv), mk("p", hv), 20)
		} else {
			ans2 = ans
		}
		as3 := args()
		bv3 := engine.NewVariable()
		// retract(Head) means retract((Head :- true)): when every stored clause has the body `true` (facts,
		// and rules given as `H :- true`), half of the cases ask with the bare head
		goal3 := engine.Term(compound("retract", compound(":-", mk(name, as3), bv3)))
		if len(payload)%2 == 0 {
			bodies, _ := solveAll(&i.VM, compound("clause", mk(name, args()), bv), bv, 20)
			allTrue := len(bodies) > 0
			for _, b := range bodies {
				allTrue = allTrue && b == "Atrue"
			}
			if allTrue {
				goal3 = compound(",", compound("retract", mk(name, as3)), compound("=", bv3, atom("true")))
			}
		}
		ret, e3 := solveAll(&i.VM, goal3, compound(":-", mk("p", as3), bv3), 20)
		as4 := args()
		left, _ := solveAll(&i.VM, compound("clause", mk(name, as4), engine.NewVariable()), atom("x"), 20)
		es := ""
		for _, e := range []error{e1, e2, e3} {
			if e != nil {
				es += " " + errWire(e)
			}
		}
		return fmt.Sprintf("clause=[%s] call=[%s] call2=[%s] retract=[%s] left=%d%s", strings.Join(cls, " , "), strings.Join(ans, " , "), strings.Join(ans2, " , "), strings.Join(ret, " , "), len(left), es)
	}
	// the same clause added with asserta/1 (predicate p3): calling it must answer as after assertz/1 (a
	// clause term is stored as a block, its alternatives in source order, wherever the block goes)
	var ansA []string
	{
		vb := &builder{i: i, vars: map[int]engine.Variable{}, recipe: recipe, reps: map[string]bool{}, pre: &[]engine.Term{}, lvars: &[]engine.Variable{}}
		t3 := renameHead(vb.build(gcl), "p3")
		g3 := engine.Term(compound("asserta", t3))
		if strings.TrimSpace(bindS) != "" {
			for _, bs := range strings.Split(bindS, " & ") {
				kv := strings.SplitN(bs, "=", 2)
				var v int
				fmt.Sscanf(kv[0], "%d", &v)
				g3 = compound(",", compound("=", vb.variable(v), vb.build(parseGT(kv[1]))), g3)
			}
		}
		for k := len(*vb.pre) - 1; k >= 0; k-- {
			g3 = compound(",", (*vb.pre)[k], g3)
		}
		_ = i.Exec(fmt.Sprintf(":- dynamic(p3/%d).", arity))
		if _, err := solve(&i.VM, g3, 1, 5*time.Second, func(*engine.Env) bool { return false }); err == nil {
			as5 := args()
			ansA, _ = solveAll(&i.VM, mk("p3", as5), mk("p", as5), 20)
		} else {
			ansA = []string{"asserta-" + errWire(err)}
		}
	}
	a := observe("p")
	a += fmt.Sprintf(" calla=[%s]", strings.Join(ansA, " , "))
	bb := observe("p2")
	bb += fmt.Sprintf(" calla=[%s]", strings.Join(ansA, " , "))
	nt := 0
	if strings.Contains(cl, "C2::-") && (strings.TrimSpace(bindS) != "" || strings.Count(cl, "V0") > 1) {
		nt = 1
	}
	// neighbours in one text: a dynamic predicate with n clauses (n drawn from the case) followed by another
	// predicate; growing the first one afterwards (assertz/1) must leave the clauses of the second alone
	nb := "ok"
	{
		h := fnv.New32a()
		h.Write([]byte(payload))
		n := 1 + int(h.Sum32()%13)
		var sb strings.Builder
		sb.WriteString(":- dynamic(nb_c/1). :- dynamic(nb_lim/1).\n")
		for k := 1; k <= n; k++ {
			fmt.Fprintf(&sb, "nb_c(%d).\n", k)
		}
		sb.WriteString("nb_lim(10).\nnb_lim(20).\n")
		if err := i.Exec(sb.String()); err != nil {
			nb = "bad(exec " + encName(err.Error()) + ")"
		} else if r := solveOnce(&i.VM, compound("assertz", compound("nb_c", atom("new")))); r != "true" {
			nb = "bad(assertz " + r + ")"
		} else {
			x := engine.NewVariable()
			lim, _ := solveAll(&i.VM, compound("nb_lim", x), x, 20)
			y := engine.NewVariable()
			cs, _ := solveAll(&i.VM, compound("clause", compound("nb_lim", y), atom("true")), y, 20)
			z := engine.NewVariable()
			all, _ := solveAll(&i.VM, compound("nb_c", z), z, 40)
			if strings.Join(lim, ",") != "I10,I20" || strings.Join(cs, ",") != "I10,I20" || len(all) != n+1 || all[n] != "Anew" {
				nb = fmt.Sprintf("bad(n=%d lim=%s clause=%s c=%s)", n, encName(strings.Join(lim, ",")), encName(strings.Join(cs, ",")), encName(strings.Join(all, ",")))
			}
		}
	}
	return fmt.Sprintf("vars=%s ;; inq: [%s] ;; nb: %s ;; assert: %s ;; exec: %s ### nt=%d result=ok", after, strings.Join(inq, " , "), nb, a, bb, nt)
}
