package main

// C19: a stream is one forward cursor.
//
// c19.ops  sequences of get_char peek_char get_byte peek_byte read_term at_end_of_stream
//          stream_property(position/end_of_stream) on ONE input stream, grouped into queries
//          (conjunctions) in every way: all in one query, one query per goal, random groupings;
//          sources over ASCII / 2-3-4 byte characters / invalid bytes, clauses separated by layout
//          and comments, terms ending exactly at the end of the input; text and binary streams;
//          host readers (strings.Reader, one byte per Read, three bytes per Read, last bytes
//          together with io.EOF) and files opened by open/4; every eof_action.
// c19.out  put_char nl put_byte write writeq on an output stream over a recording sink.

import (
	"bytes"
	"sort"
	"context"
	"encoding/hex"
	"fmt"
	"io"
	"math/rand"
	"os"
	"path/filepath"
	"strconv"
	"strings"
	"sync"
	"sync/atomic"
	"time"
	"unicode"
	"unicode/utf8"

	"github.com/ichiban/prolog"
	"github.com/ichiban/prolog/engine"
)

func init() {
	register(&stream{name: "c19.ops", gen: genC19, run: runC19})
	register(&stream{name: "c19.out", gen: genC19Out, run: runC19Out})
}

// ---------------------------------------------------------------------------
// host-provided readers
// ---------------------------------------------------------------------------

// chunkReader returns at most n bytes per Read.
type chunkReader struct {
	r *bytes.Reader
	n int
}

func (c *chunkReader) Read(p []byte) (int, error) {
	if len(p) > c.n {
		p = p[:c.n]
	}
	return c.r.Read(p)
}

// eofDataReader returns the last bytes together with io.EOF.
type eofDataReader struct{ r *bytes.Reader }

func (e *eofDataReader) Read(p []byte) (int, error) {
	n, err := e.r.Read(p)
	if err == nil && e.r.Len() == 0 {
		err = io.EOF
	}
	return n, err
}

// segReader is a host reader that GOES ON after an end of file (a terminal, a growing pipe): at each of its
// marks (ascending offsets) a Read reports io.EOF once, the next Read continues behind the mark. A Read at
// offset o offers sizes[o mod len(sizes)] bytes of the current segment; with eofData the last bytes of a
// segment come together with io.EOF. Behind the last mark it is an ordinary finite source.
type segReader struct {
	src     []byte
	off     int
	marks   []int
	used    int
	sizes   []int
	eofData bool
}

func (s *segReader) Read(p []byte) (int, error) {
	if len(p) == 0 {
		return 0, nil
	}
	limit := len(s.src)
	if s.used < len(s.marks) {
		limit = s.marks[s.used]
	}
	if s.off >= limit {
		if s.used < len(s.marks) {
			s.used++
		}
		return 0, io.EOF
	}
	n := s.sizes[s.off%len(s.sizes)]
	if n > limit-s.off {
		n = limit - s.off
	}
	if n > len(p) {
		n = len(p)
	}
	if n < 1 {
		n = 1
	}
	copy(p, s.src[s.off:s.off+n])
	s.off += n
	if s.eofData && s.off == limit {
		if s.used < len(s.marks) {
			s.used++
		}
		return n, io.EOF
	}
	return n, nil
}

func c19Ints(t string) []int {
	var out []int
	for _, w := range strings.Split(t, ",") {
		if w == "" {
			continue
		}
		n, err := strconv.Atoi(w)
		must(err)
		out = append(out, n)
	}
	return out
}

// ---------------------------------------------------------------------------
// interpreters are reused (creating one parses bootstrap.pl); a case leaves no trace in them:
// it restores the current input and closes the file it opened
// ---------------------------------------------------------------------------

type c19Interp struct {
	i   *prolog.Interpreter
	rec []string // values recorded by '$c19_mark'/2 during the running query
}

var c19Pool = sync.Pool{New: func() interface{} {
	ci := &c19Interp{}
	ci.i, _ = newInterp("")
	// '$c19_mark'(Kind, X): record the value X that the preceding goal delivered, then continue INLINE
	// (a built-in calling its continuation directly, like Unify does).
	ci.i.Register2(engine.NewAtom("$c19_mark"), func(vm *engine.VM, kind, x engine.Term, k engine.Cont, env *engine.Env) *engine.Promise {
		ci.rec = append(ci.rec, c19Value(vm, env.Resolve(kind).(engine.Atom).String(), env.Resolve(x)))
		return k(env)
	})
	return ci
}}

var c19Dir string
var c19DirOnce sync.Once
var c19FileCtr int64

func c19TempFile(content []byte) string {
	c19DirOnce.Do(func() {
		d, err := os.MkdirTemp("", "c19-")
		must(err)
		c19Dir = d
	})
	name := filepath.Join(c19Dir, fmt.Sprintf("f%d", atomic.AddInt64(&c19FileCtr, 1)))
	must(os.WriteFile(name, content, 0644))
	return name
}

// c19Value renders what a goal delivered.
func c19Value(vm *engine.VM, kind string, v engine.Term) string {
	switch kind {
	case "gk", "pk": // get_code/peek_code: printed as the character
		if n, ok := v.(engine.Integer); ok {
			if n == -1 {
				return "eof"
			}
			return fmt.Sprintf("c%x", int64(n))
		}
	case "gc", "pc":
		if a, ok := v.(engine.Atom); ok {
			s := a.String()
			if s == "end_of_file" {
				return "eof"
			}
			if r, n := utf8.DecodeRuneInString(s); n == len(s) && n > 0 {
				return fmt.Sprintf("c%x", r)
			}
		}
	case "gb", "pb":
		if n, ok := v.(engine.Integer); ok {
			if n == -1 {
				return "-1"
			}
			return fmt.Sprintf("b%d", int64(n))
		}
	case "rt":
		switch t := v.(type) {
		case engine.Atom:
			if t.String() == "end_of_file" {
				return "eof"
			}
			return "t" + wire(v, nil, newVarNamer())
		case engine.Integer:
			return "t" + wire(v, nil, newVarNamer())
		}
		// any other clause: its writeq text (the generators draw clauses whose writeq text is their own text)
		return "tC1:$clause~A" + encName(c19Writeq(vm, v))
	case "ae":
		if a, ok := v.(engine.Atom); ok {
			return a.String()
		}
	case "pp":
		if n, ok := v.(engine.Integer); ok {
			return fmt.Sprintf("p%d", int64(n))
		}
	case "pe":
		if a, ok := v.(engine.Atom); ok {
			return "e" + a.String()
		}
	case "out":
		return "ok"
	}
	return "?" + encName(wire(v, nil, newVarNamer()))
}

// c19Writeq: writeq(T) as text (T is ground in the cases that use it).
func c19Writeq(vm *engine.VM, t engine.Term) string {
	var buf bytes.Buffer
	out := engine.NewOutputTextStream(&buf)
	_, err := engine.WriteTerm(vm, out, t, engine.List(compound("quoted", atom("true"))), func(*engine.Env) *engine.Promise {
		return engine.Bool(true)
	}, nil).Force(context.Background())
	if err != nil {
		return "?" + err.Error()
	}
	return buf.String()
}

// c19ErrTok classifies an error of an input/output goal.
func c19ErrTok(err error) string {
	w := errWire(err)
	switch {
	case strings.HasPrefix(w, "err C3:permission_error Ainput Abinary_stream "), strings.HasPrefix(w, "err C3:permission_error Aoutput Abinary_stream "):
		return "!bin"
	case strings.HasPrefix(w, "err C3:permission_error Ainput Atext_stream "), strings.HasPrefix(w, "err C3:permission_error Aoutput Atext_stream "):
		return "!txt"
	case strings.HasPrefix(w, "err C3:permission_error Ainput Apast_end_of_stream "):
		return "!past"
	case w == "err C1:representation_error Acharacter":
		return "!repr"
	case strings.HasPrefix(w, "err C1:syntax_error "):
		return "!syn"
	}
	return "!other:" + encName(w)
}

// c19Goal builds the goal for one op token on stream s, delivering into x. Upper case = the arity-1
// wrapper of bootstrap.pl working on the current input.
func c19Goal(op string, s engine.Term, x engine.Term) engine.Term {
	yes, no := atom("yes"), atom("no")
	ite := func(c engine.Term) engine.Term {
		return compound(";", compound("->", c, compound("=", x, yes)), compound("=", x, no))
	}
	switch op {
	case "gc":
		return compound("get_char", s, x)
	case "GC":
		return compound("get_char", x)
	case "pc":
		return compound("peek_char", s, x)
	case "PC":
		return compound("peek_char", x)
	case "gk":
		return compound("get_code", s, x)
	case "GK":
		return compound("get_code", x)
	case "pk":
		return compound("peek_code", s, x)
	case "PK":
		return compound("peek_code", x)
	case "gb":
		return compound("get_byte", s, x)
	case "GB":
		return compound("get_byte", x)
	case "pb":
		return compound("peek_byte", s, x)
	case "PB":
		return compound("peek_byte", x)
	case "rt":
		return compound("read_term", s, x, engine.List())
	case "RT":
		return compound("read_term", x, engine.List())
	case "ae":
		return ite(compound("at_end_of_stream", s))
	case "AE":
		return ite(atom("at_end_of_stream"))
	case "pp", "PP":
		return compound("stream_property", s, compound("position", x))
	case "pe", "PE":
		return compound("stream_property", s, compound("end_of_stream", x))
	}
	panic("bad op " + op)
}

func conj(goals []engine.Term) engine.Term {
	g := goals[len(goals)-1]
	for i := len(goals) - 2; i >= 0; i-- {
		g = compound(",", goals[i], g)
	}
	return g
}

// c19Query runs one conjunction and returns its result tokens (padded with "_" after an error).
func c19Query(ci *c19Interp, goals []engine.Term, n int) []string {
	ci.rec = ci.rec[:0]
	ok := false
	_, err := solve(&ci.i.VM, conj(goals), 1, 30*time.Second, func(*engine.Env) bool { ok = true; return false })
	toks := append([]string(nil), ci.rec...)
	switch {
	case err != nil:
		toks = append(toks, c19ErrTok(err))
	case !ok:
		toks = append(toks, "FAILED")
	}
	for len(toks) < n {
		toks = append(toks, "_")
	}
	return toks
}

func parseKV(hd string) map[string]string {
	m := map[string]string{}
	for _, w := range strings.Fields(hd) {
		if i := strings.IndexByte(w, '='); i > 0 {
			m[w[:i]] = w[i+1:]
		}
	}
	return m
}

// runC19 runs a case; a case that hit the wall-clock limit of a query (a starved scheduler on a loaded
// machine: no goal here can loop) is run again, up to three times.
func runC19(payload string) string {
	out := runC19Once(payload)
	for try := 0; try < 3 && strings.Contains(out, "deadline"); try++ {
		out = runC19Once(payload)
	}
	return out
}

func runC19Once(payload string) string {
	parts := strings.SplitN(payload, " | ", 2)
	kv := parseKV(parts[0])
	src, err := hex.DecodeString(kv["src"])
	must(err)
	binary := kv["ty"] == "b"
	drain, _ := strconv.Atoi(kv["drain"])

	ci := c19Pool.Get().(*c19Interp)
	defer c19Pool.Put(ci)
	vm := &ci.i.VM

	// the stream
	var s *engine.Stream
	var file string
	switch rd := kv["rd"]; rd {
	case "file":
		file = c19TempFile(src)
		ty := "text"
		if binary {
			ty = "binary"
		}
		v := engine.NewVariable()
		_, err := solve(vm, compound("open", atom(file), atom("read"), v,
			engine.List(compound("type", atom(ty)), compound("eof_action", atom(kv["eof"])))), 1, 5*time.Second,
			func(env *engine.Env) bool { s = env.Resolve(v).(*engine.Stream); return false })
		must(err)
	default:
		var r io.Reader
		switch rd {
		case "str":
			r = strings.NewReader(string(src))
		case "one":
			r = &chunkReader{r: bytes.NewReader(src), n: 1}
		case "k3":
			r = &chunkReader{r: bytes.NewReader(src), n: 3}
		case "eofd":
			r = &eofDataReader{r: bytes.NewReader(src)}
		case "seg":
			sizes := c19Ints(kv["ck"])
			if len(sizes) == 0 {
				sizes = []int{1}
			}
			r = &segReader{src: src, marks: c19Ints(kv["mk"]), sizes: sizes, eofData: kv["ed"] == "1"}
		default:
			panic("bad reader " + rd)
		}
		s = engine.VerifNewInputStream(r, binary, kv["eof"])
	}
	if s == nil {
		panic("no stream")
	}
	if r := solveOnce(vm, compound("set_input", s)); r != "true" {
		panic("set_input: " + r)
	}
	defer func() {
		_ = solveOnce(vm, compound("set_input", atom("user_input")))
		if file != "" {
			_ = solveOnce(vm, compound("close", s))
			_ = os.Remove(file)
		}
	}()

	var queries [][]string
	if ops := strings.TrimSpace(parts[1]); ops != "" {
		for _, q := range strings.Split(ops, " ; ") {
			queries = append(queries, strings.Fields(q))
		}
	}
	d := "gc"
	if binary {
		d = "gb"
	}
	for k := 0; k < drain; k++ {
		queries = append(queries, []string{d})
	}

	var out []string
	sawEOF, multi, afterPeek, errs, compoundRead := 0, 0, 0, 0, 0
	failedRead, afterFailedRead := 0, 0
	for _, q := range queries {
		var goals []engine.Term
		for _, op := range q {
			x := engine.NewVariable()
			goals = append(goals, c19Goal(op, s, x), compound("$c19_mark", atom(strings.ToLower(op)), x))
		}
		toks := c19Query(ci, goals, len(q))
		for j, t := range toks {
			lop := strings.ToLower(q[j])
			if (t == "eof" || t == "-1") && j < len(q) {
				sawEOF++
			}
			if strings.HasPrefix(t, "c") && len(t) > 3 {
				multi++
			}
			if failedRead > 0 && t != "_" && lop != "pp" && lop != "pe" && lop != "ae" {
				afterFailedRead++ // an input goal after a read_term that failed with a syntax error
			}
			if t == "!syn" {
				failedRead++
			}
			if strings.HasPrefix(t, "!") {
				errs++
			}
			if strings.HasPrefix(t, "tC1:$clause") {
				compoundRead++
			}
			if j > 0 && t != "_" && lop != "pp" && lop != "pe" && lop != "ae" {
				if p := strings.ToLower(q[j-1]); p == "pc" || p == "pb" || p == "rt" {
					afterPeek++ // an input goal directly after a peek / read_term in the same conjunction
				}
			}
		}
		pos, eos, lrs, buffered := engine.VerifStreamState(s)
		toks = append(toks, fmt.Sprintf("@%d,%s,%d,%d", pos, eos, lrs, buffered))
		out = append(out, strings.Join(toks, " "))
	}
	nt := 0
	if afterPeek > 0 || sawEOF > 1 || afterFailedRead > 0 {
		nt = 1
	}
	b := func(n int) int {
		if n > 0 {
			return 1
		}
		return 0
	}
	return strings.Join(out, " ; ") + fmt.Sprintf(" ### nt=%d rd=%s ty=%s eof=%s queries=%d after_peek=%d saw_eof=%d multibyte=%d errors=%d compound_read=%d failed_read=%d after_failed_read=%d",
		nt, kv["rd"], kv["ty"], kv["eof"], bucket_c19(len(queries)-drain), b(afterPeek), bucket_c19(sawEOF), b(multi), b(errs), b(compoundRead), b(failedRead), b(afterFailedRead))
}

func bucket_c19(n int) int {
	if n > 4 {
		return 5
	}
	return n
}

// ---------------------------------------------------------------------------
// reference cursor (generator side only): where does a read_term start, is the clause in the
// fragment the model's term reader covers?  Used to keep generated cases inside the fragment.
// ---------------------------------------------------------------------------

func c19Small(r rune) bool {
	return (r >= 'a' && r <= 'z') || r == 0xE9 || r == 0x3042 || r == 0x1D4B6
}
func c19Alnum(r rune) bool {
	return c19Small(r) || (r >= 'A' && r <= 'Z') || (r >= '0' && r <= '9') || r == '_'
}
func c19Quoted(r rune) bool {
	return c19Alnum(r) || r == ' ' || r == '"' || r == '`' || strings.ContainsRune("#$&*+-./:<=>?@^~!(),;[]{}|%", r)
}

// c19ScanClause scans one clause from b: kind ("term", "eof", "syn") and bytes consumed.
func c19ScanClause(b []byte) (string, int) {
	i := 0
	next := func() (rune, int) {
		if i >= len(b) {
			return -1, 0
		}
		return utf8.DecodeRune(b[i:])
	}
	// skip layout and comments; false = syntax error / unterminated in a way that is not a clean end
	skip := func() (clean bool, eof bool) {
		for {
			r, n := next()
			switch {
			case r == -1:
				return true, true
			case unicode.IsSpace(r):
				i += n
			case r == '%':
				for {
					r, n := next()
					if r == -1 {
						return true, true
					}
					i += n
					if r == '\n' {
						break
					}
				}
			case r == '/':
				if i+1 < len(b) && b[i+1] == '*' {
					i += 2
					for {
						if i >= len(b) {
							return true, true
						}
						if b[i] == '*' && i+1 < len(b) && b[i+1] == '/' {
							i += 2
							break
						}
						_, n := next()
						i += n
					}
				} else {
					return false, false
				}
			default:
				return true, false
			}
		}
	}
	clean, eof := skip()
	if !clean {
		return "syn", i
	}
	if eof {
		return "eof", i
	}
	r, n := next()
	switch {
	case c19Small(r):
		for r, n = next(); r != -1 && c19Alnum(r); r, n = next() {
			i += n
		}
	case r >= '0' && r <= '9':
		for r, n = next(); r >= '0' && r <= '9'; r, n = next() {
			i += n
		}
		if r != -1 && c19Alnum(r) {
			return "syn", i
		}
	case r == '\'':
		i += n
		for {
			r, n = next()
			if r == -1 {
				return "syn", i
			}
			if r == '\'' {
				i += n
				if r2, n2 := next(); r2 == '\'' {
					i += n2
					continue
				}
				break
			}
			if !c19Quoted(r) {
				return "syn", i
			}
			i += n
		}
	default:
		return "syn", i
	}
	clean, eof = skip()
	if !clean || eof {
		return "syn", i
	}
	if r, n = next(); r != '.' {
		return "syn", i
	}
	i += n
	if r, _ = next(); r == -1 || unicode.IsSpace(r) || r == '%' {
		return "term", i
	}
	return "syn", i
}

// c19InFragment simulates the cursor over the ops; false if some read_term would meet a clause outside
// the fragment (then the case is not generated).  Errors end a conjunction.
// c19Span: a generated clause: where its first token starts and where it ends (behind the end token).
type c19Span struct{ tok, end int }

// c19SkipLayout skips layout and complete comments from b[0:]; returns the offset reached, or -1 if the
// text from there is a clean end of input (layout and comments only), or -2 if a '/' that opens no comment.
func c19SkipLayout(b []byte) int {
	i := 0
	for i < len(b) {
		r, n := utf8.DecodeRune(b[i:])
		switch {
		case unicode.IsSpace(r):
			i += n
		case r == '%':
			for {
				if i >= len(b) {
					return -1
				}
				r, n := utf8.DecodeRune(b[i:])
				i += n
				if r == '\n' {
					break
				}
			}
		case r == '/':
			if i+1 < len(b) && b[i+1] == '*' {
				i += 2
				for {
					if i >= len(b) {
						return -1
					}
					if b[i] == '*' && i+1 < len(b) && b[i+1] == '/' {
						i += 2
						break
					}
					_, n := utf8.DecodeRune(b[i:])
					i += n
				}
			} else {
				return i
			}
		default:
			return i
		}
	}
	return -1
}

// c19InFragment simulates the cursor over the ops.  Every read_term is probed on the real reader alone
// (engine.VerifReadProbe: lexer+parser over a counting rune reader, no Stream, no ReadTerm):
//   - it delivers a term: the case is generated only if the clause is in the fragment the model's
//     scanner covers (an atomic clause, or the cursor stands in front of a generated clause);
//   - it fails (syntax error) or reports io.EOF inside a clause: the measured read goes into the table
//     of the case header (tab=off:bytes:kind), the model's reader follows the table.
// Returns false if the case is outside the fragment, else the table entries.
func c19InFragment(vm *engine.VM, full []byte, binary bool, eof string, queries [][]string, drain int, spans []c19Span, marks ...int) (bool, []string) {
	idx, delivered, seg := 0, false, 0
	src := full // the source up to the end of the current segment
	if len(marks) > 0 {
		src = full[:marks[0]]
	}
	tab := map[string]bool{}
	// runs one conjunction; false = a read_term outside the fragment
	query := func(q []string) bool {
		for _, op := range q {
			op = strings.ToLower(op)
			switch op {
			case "gk":
				op = "gc"
			case "pk":
				op = "pc"
			}
			if op == "ae" || op == "pp" || op == "pe" {
				continue
			}
			if delivered {
				if eof == "error" {
					return true // permission error ends the conjunction
				}
				if eof == "reset" {
					delivered = false
					if seg < len(marks) { // the stream restarts: the next segment of a source that goes on
						seg++
						src = full
						if seg < len(marks) {
							src = full[:marks[seg]]
						}
					}
				}
			}
			if (op == "gb" || op == "pb") != binary {
				return true // type error
			}
			switch op {
			case "gc":
				if idx >= len(src) {
					delivered = true
					continue
				}
				r, n := utf8.DecodeRune(src[idx:])
				idx += n
				if r == utf8.RuneError {
					return true
				}
			case "pc":
				if idx < len(src) {
					if r, _ := utf8.DecodeRune(src[idx:]); r == utf8.RuneError {
						return true
					}
				}
			case "gb":
				if idx >= len(src) {
					delivered = true
				} else {
					idx++
				}
			case "rt":
				outcome, _, pulled, last, sawEOF := engine.VerifReadProbe(vm, string(src[idx:]))
				switch outcome {
				case "syntax":
					if sawEOF {
						tab[fmt.Sprintf("%d:%d:S", idx, pulled)] = true
						idx += pulled // the end of the input was only looked at: not delivered
					} else {
						tab[fmt.Sprintf("%d:%d:s", idx, pulled)] = true
						idx += pulled - last
					}
					return true // the error ends the conjunction
				case "eof":
					if c19SkipLayout(src[idx:]) != -1 {
						// the input ends inside a clause and the reader says io.EOF (known finding C19-K1)
						tab[fmt.Sprintf("%d:%d:e", idx, pulled)] = true
					}
					idx += pulled
					delivered = true
					continue
				}
				kind, n := c19ScanClause(src[idx:])
				if kind != "term" {
					// not an atomic clause: in the fragment only if the cursor is in front of a generated clause
					kind = ""
					if at := c19SkipLayout(src[idx:]); at >= 0 {
						for _, sp := range spans {
							if sp.tok != idx+at {
								continue
							}
							// its '.' is an end token only in front of layout, '%' or the end of the input
							if sp.end < len(src) {
								if c, _ := utf8.DecodeRune(src[sp.end:]); !unicode.IsSpace(c) && c != '%' {
									continue
								}
							}
							kind, n = "term", sp.end-idx
						}
					}
				}
				if kind != "term" || n != pulled-last {
					return false
				}
				idx += n
			}
		}
		return true
	}
	for _, q := range queries {
		if !query(q) {
			return false, nil
		}
	}
	var entries []string
	for e := range tab {
		entries = append(entries, e)
	}
	sort.Strings(entries)
	return true, entries
}

// ---------------------------------------------------------------------------
// generators
// ---------------------------------------------------------------------------

var c19Letters = []string{"a", "b", "c", "é", "あ", "𝒶", "1", "_", "Z"}
var c19Layout = []string{" ", "\n", "\t", "  ", " \n", "%c\n", "/* c */", " % é\n", "/**/", "/* * / */"}
var c19Invalid = []string{"\xff", "\xc3", "\xe3\x81", "\x80", "\xc0\xaf", "\xed\xa0\x80", "\xf0\x9d\x92", "\xf4\x90\x80\x80"}
var c19Chars = []string{"a", "b", "1", " ", "\n", ".", "%", "'", "é", "あ", "𝒶", "😀", " ", "�", "€"}

func genC19Token(r *rand.Rand) string {
	switch k := r.Intn(10); {
	case k < 6:
		s := pick(r, c19Letters[:6])
		for n := r.Intn(3); n > 0; n-- {
			s += pick(r, c19Letters)
		}
		if s == "end_of_file" {
			return "a"
		}
		return s
	case k < 8:
		return strconv.Itoa(r.Intn(1000))
	default:
		s := "'"
		for n := r.Intn(4); n > 0; n-- {
			s += pick(r, []string{"a", " ", "b c", "''", "é", ".", "%", "Z", "/*"})
		}
		return s + "'"
	}
}

// genC19Term: a ground term whose writeq text contains no layout outside quoted atoms.
func genC19Term(r *rand.Rand, depth int) engine.Term {
	leaf := func() engine.Term {
		switch r.Intn(4) {
		case 0:
			return engine.Integer(r.Intn(100))
		case 1:
			return atom(pick(r, []string{"a b", "X", "it's", "[]", "{}", "é é"}))
		default:
			s := pick(r, c19Letters[:6])
			for n := r.Intn(2); n > 0; n-- {
				s += pick(r, c19Letters)
			}
			return atom(s)
		}
	}
	if depth >= 2 || r.Intn(3) == 0 {
		return leaf()
	}
	sub := func() engine.Term { return genC19Term(r, depth+1) }
	switch r.Intn(6) {
	case 0, 1:
		n := 1 + r.Intn(3)
		args := make([]engine.Term, n)
		for i := range args {
			args[i] = sub()
		}
		return compound(pick(r, []string{"f", "g", "foo", "é"}), args...)
	case 2:
		n := r.Intn(3)
		elems := make([]engine.Term, n)
		for i := range elems {
			elems[i] = sub()
		}
		return engine.List(elems...)
	case 3:
		return compound("{}", sub())
	default:
		return compound(pick(r, []string{"+", "-", "*", "=", ":-", ";", "->", ","}), sub(), sub())
	}
}

// c19LayoutFree: no layout outside quoted atoms (then the clause text is what the model's scanner reports).
func c19LayoutFree(s string) bool {
	inq := false
	for _, c := range s {
		switch {
		case c == '\'':
			inq = !inq
		case !inq && (unicode.IsSpace(c) || c == '%'):
			return false
		case c == '\\' || c == '\n':
			return false
		}
	}
	return !inq
}

// genC19Clause: the text of one clause (without the end token) and whether it is a compound one.
func genC19Clause(r *rand.Rand, ci *c19Interp) string {
	if r.Intn(5) < 2 {
		for try := 0; try < 20; try++ {
			t := genC19Term(r, 0)
			s := c19Writeq(&ci.i.VM, t)
			if !c19LayoutFree(s) || strings.HasSuffix(s, ".") {
				continue
			}
			// layout after some commas outside quoted atoms
			var sb strings.Builder
			inq := false
			for _, c := range s {
				sb.WriteRune(c)
				if c == '\'' {
					inq = !inq
				}
				if c == ',' && !inq && r.Intn(3) == 0 {
					sb.WriteString(pick(r, []string{" ", "\n  ", " /* c */ ", " % c\n"}))
				}
			}
			return sb.String()
		}
	}
	return genC19Token(r)
}

// clauses that are not well-formed: unbalanced brackets, two operators / two operands in a row, an operator
// without operand, illegal characters, bad escapes, a missing end token; and inputs that end inside a clause
var c19BadClauses = []string{"foo(.", "foo bar", "foo bar.", "a :- .", "a + * b.", "f(a.", "[a.", "f(a)).", "'a\\qb'.",
	"a $$ b.", "a ` b.", "1.e b.", "X Y.", "foo(a,).", ") .", ")", ".", "f(a b).", "1 2.", "foo 1.", "\"ab\\q\".",
	"a = = b.", "- - .", "{a.", "[a|b|c].", "f(,).", "a é😀.", "é あ", "a :- b,", "0'", "foo(", "'abc", "a :- b", "foo", "f(a)"}

// what follows the bad clause: nothing (the error is at the last byte), layout, comments, other clauses
var c19BadFollow = []string{"", "", " ", "\n", "%c\n", " % c", "\nbar.\n", "%zap.\nbar.\n", " bar. baz.", "/* c */ b.", ". c.", " .\n"}

func genC19Source(r *rand.Rand, ci *c19Interp) ([]byte, []c19Span, bool) {
	var sb strings.Builder
	var spans []c19Span
	bad := false
	switch k := r.Intn(25); {
	case k >= 20: // a clause that is not well-formed, possibly behind a good one
		bad = true
		if r.Intn(3) == 0 {
			sb.WriteString(genC19Token(r) + "." + pick(r, c19Layout[:7]))
		}
		sb.WriteString(pick(r, c19BadClauses))
		sb.WriteString(pick(r, c19BadFollow))
	case k < 12: // clauses
		if r.Intn(3) == 0 {
			sb.WriteString(pick(r, c19Layout))
		}
		n := 1 + r.Intn(3)
		for i := 0; i < n; i++ {
			tok := sb.Len()
			sb.WriteString(genC19Clause(r, ci))
			if r.Intn(4) == 0 {
				sb.WriteString(pick(r, c19Layout))
			}
			sb.WriteString(".")
			spans = append(spans, c19Span{tok: tok, end: sb.Len()})
			if i < n-1 {
				sb.WriteString(pick(r, c19Layout))
			}
		}
		switch r.Intn(5) { // the end: exactly at the end token, layout, a comment, an unterminated comment
		case 0:
			sb.WriteString(pick(r, c19Layout))
		case 1:
			sb.WriteString(" %x")
		case 2:
			sb.WriteString("\n/* x")
		}
	case k < 17: // characters, possibly invalid bytes
		for n := r.Intn(6); n > 0; n-- {
			if r.Intn(5) == 0 {
				sb.WriteString(pick(r, c19Invalid))
			} else {
				sb.WriteString(pick(r, c19Chars))
			}
		}
	case k < 18:
		// empty
	default: // one or two characters
		sb.WriteString(pick(r, c19Chars))
		if r.Intn(2) == 0 {
			sb.WriteString(pick(r, append(c19Invalid, c19Chars...)))
		}
	}
	return []byte(sb.String()), spans, bad
}

var c19TextOps = []string{"gc", "gc", "gc", "pc", "pc", "rt", "rt", "ae", "pp", "pe", "GC", "PC", "RT", "AE", "gk", "pk", "GK", "PK"}
var c19BinOps = []string{"gb", "gb", "gb", "pb", "pb", "ae", "pp", "pe", "GB", "PB", "AE"}
var c19Readers = []string{"str", "one", "k3", "eofd", "file", "file"}
var c19Actions = []string{"error", "eof_code", "reset"}

func c19Header(src []byte, rd string, binary bool, eof string, drain int, tab []string) string {
	ty := "t"
	if binary {
		ty = "b"
	}
	h := fmt.Sprintf("src=%s rd=%s ty=%s eof=%s drain=%d", hex.EncodeToString(src), rd, ty, eof, drain)
	if len(tab) > 0 {
		h += " tab=" + strings.Join(tab, ",")
	}
	return h
}

func c19Render(queries [][]string) string {
	qs := make([]string, len(queries))
	for i, q := range queries {
		qs[i] = strings.Join(q, " ")
	}
	return strings.Join(qs, " ; ")
}

func genC19(r *rand.Rand, n int, tier string) []string {
	var out []string
	ci := c19Pool.Get().(*c19Interp)
	defer c19Pool.Put(ci)
	var spans []c19Span
	emitSp := func(src []byte, rd string, binary bool, eof string, drain int, queries [][]string, spans []c19Span) {
		var marks []int
		if strings.HasPrefix(rd, "seg ") {
			marks = c19Ints(parseKV(rd)["mk"])
		}
		ok, tab := c19InFragment(&ci.i.VM, src, binary, eof, queries, drain, spans, marks...)
		if !ok {
			return
		}
		out = append(out, c19Header(src, rd, binary, eof, drain, tab)+" | "+c19Render(queries))
	}
	emit := func(src []byte, rd string, binary bool, eof string, drain int, queries [][]string) {
		emitSp(src, rd, binary, eof, drain, queries, spans)
	}
	// every kind of failing read followed by every operation (quick: one, thorough: two operations)
	genC19BadExhaustive(emitSp, tier == "thorough")
	if tier == "thorough" {
		genC19Exhaustive(emitSp)
	}
	genC19SegFixed(emitSp)
	base := len(out) // n random cases on top of the enumerated ones
	for len(out) < base+n {
		if r.Intn(6) == 0 {
			genC19SegCase(r, emitSp)
			continue
		}
		var src []byte
		var bad bool
		src, spans, bad = genC19Source(r, ci)
		binary := r.Intn(4) == 0
		if bad {
			binary = r.Intn(12) == 0
		}
		rd, eof := pick(r, c19Readers), pick(r, c19Actions)
		ops := c19TextOps
		if binary {
			ops = c19BinOps
		}
		k := 1 + r.Intn(8)
		seq := make([]string, k)
		for i := range seq {
			if r.Intn(25) == 0 { // an op of the other stream type
				if binary {
					seq[i] = pick(r, []string{"gc", "pc", "rt"})
				} else {
					seq[i] = pick(r, []string{"gb", "pb"})
				}
			} else {
				seq[i] = pick(r, ops)
			}
		}
		if bad && !binary && r.Intn(2) == 0 {
			// make sure the read fails early in the sequence and something follows it
			seq[0] = pick(r, []string{"rt", "rt", "RT"})
			if k == 1 {
				seq = append(seq, pick(r, ops))
				k = 2
			}
		}
		drain := 0
		if r.Intn(2) == 0 {
			drain = len(src) + 2
			if drain > 10 {
				drain = 10
			}
		}
		// every sequence as ONE conjunction and as separate queries; a third of them also in a random grouping
		sep := make([][]string, k)
		for i := range seq {
			sep[i] = []string{seq[i]}
		}
		emit(src, rd, binary, eof, drain, [][]string{seq})
		if k > 1 {
			emit(src, rd, binary, eof, drain, sep)
		}
		if r.Intn(3) == 0 && k > 2 {
			var grp [][]string
			cur := []string{}
			for _, o := range seq {
				cur = append(cur, o)
				if r.Intn(3) == 0 {
					grp = append(grp, cur)
					cur = []string{}
				}
			}
			if len(cur) > 0 {
				grp = append(grp, cur)
			}
			emit(src, rd, binary, eof, drain, grp)
		}
	}
	return out
}

// --- sources that go on after an end of file (rd=seg), read by eof_action(reset) streams across several ends of file,
// with end_of_stream / at_end_of_stream observed after every operation

func c19SegRd(marks []int, sizes []int, ed bool) string {
	f := func(xs []int) string {
		ws := make([]string, len(xs))
		for i, x := range xs {
			ws[i] = strconv.Itoa(x)
		}
		return strings.Join(ws, ",")
	}
	e := 0
	if ed {
		e = 1
	}
	return fmt.Sprintf("seg mk=%s ck=%s ed=%d", f(marks), f(sizes), e)
}

// c19Observed: every input goal followed by end-of-stream observations
func c19Observed(ops []string, obs func(i int) []string) []string {
	var seq []string
	for i, o := range ops {
		seq = append(seq, o)
		seq = append(seq, obs(i)...)
	}
	return seq
}

func c19Sep(seq []string) [][]string {
	sep := make([][]string, len(seq))
	for i := range seq {
		sep[i] = []string{seq[i]}
	}
	return sep
}

func genC19SegCase(r *rand.Rand, emit func(src []byte, rd string, binary bool, eof string, drain int, queries [][]string, spans []c19Span)) {
	var sb strings.Builder
	binary := r.Intn(5) == 0
	if r.Intn(2) == 0 && !binary {
		for n := 1 + r.Intn(4); n > 0; n-- {
			sb.WriteString(genC19Token(r) + "." + pick(r, []string{" ", "\n", "", " %c\n"}))
		}
	} else {
		for n := 1 + r.Intn(8); n > 0; n-- {
			sb.WriteString(pick(r, c19Chars[:12]))
		}
	}
	src := []byte(sb.String())
	var marks []int
	for n := 1 + r.Intn(3); n > 0; n-- {
		marks = append(marks, r.Intn(len(src)+1))
	}
	sort.Ints(marks)
	var sizes []int
	for n := 1 + r.Intn(3); n > 0; n-- {
		sizes = append(sizes, 1+r.Intn(7))
	}
	eof := "reset"
	if r.Intn(8) == 0 {
		eof = "error"
	}
	in := []string{"gc", "gc", "pc", "rt", "gk"}
	if binary {
		in = []string{"gb", "gb", "pb"}
	}
	k := 3 + r.Intn(8)
	ops := make([]string, k)
	for i := range ops {
		ops[i] = pick(r, in)
	}
	seq := c19Observed(ops, func(int) []string {
		switch r.Intn(4) {
		case 0:
			return []string{"pe"}
		case 1:
			return []string{"ae"}
		case 2:
			return []string{"pe", "ae", "pp"}
		}
		return nil
	})
	rd := c19SegRd(marks, sizes, r.Intn(3) == 0)
	emit(src, rd, binary, eof, 0, c19Sep(seq), nil)
	emit(src, rd, binary, eof, 0, [][]string{seq}, nil)
}

// genC19SegFixed: small segmented sources with every chunk size, and sources whose second segment is larger than
// bufio's buffer, so that the buffer runs empty in the middle of a segment right between two operations
func genC19SegFixed(emit func(src []byte, rd string, binary bool, eof string, drain int, queries [][]string, spans []c19Span)) {
	both := func(i int) []string { return []string{"pe", "ae"} }
	for _, ck := range [][]int{{1}, {2}, {3}, {7}, {1, 2}} {
		for _, ed := range []bool{false, true} {
			rd := c19SegRd([]int{2, 4}, ck, ed)
			seq := c19Observed([]string{"gc", "gc", "gc", "gc", "pc", "gc", "gc", "gc", "gc", "gc"}, both)
			emit([]byte("abcde"), rd, false, "reset", 0, c19Sep(seq), nil)
			emit([]byte("abcde"), rd, false, "reset", 0, [][]string{seq}, nil)
			seqb := c19Observed([]string{"gb", "gb", "gb", "pb", "gb", "gb", "gb", "gb", "gb"}, both)
			emit([]byte("abcde"), rd, true, "reset", 0, c19Sep(seqb), nil)
			rd2 := c19SegRd([]int{3, 3, 9}, ck, ed)
			seqt := c19Observed([]string{"rt", "rt", "rt", "pc", "rt", "rt", "rt", "gc", "rt", "rt"}, both)
			emit([]byte("a. bc. d.\ne."), rd2, false, "reset", 0, c19Sep(seqt), nil)
			emit([]byte("a. bc. d.\ne."), rd2, false, "error", 0, c19Sep(seqt), nil)
		}
	}
	for l := 4084; l <= 4098; l++ {
		src := []byte("x.\n%" + strings.Repeat("a", l) + "\nb.\nc.\nd.")
		for _, ck := range [][]int{{5000}, {4096}} {
			rd := c19SegRd([]int{3}, ck, false)
			seq := []string{"rt", "rt", "rt", "pe", "ae", "gc", "pe", "ae", "pc", "pe", "gc", "pe", "ae", "rt", "pe", "ae", "gc", "pe", "rt", "pe", "rt"}
			emit(src, rd, false, "reset", 0, c19Sep(seq), nil)
		}
	}
}

// genC19BadExhaustive: read_term on every clause that is not well-formed, ending at the last byte / followed by
// layout, a comment, another clause, on a file with every eof_action (and two host readers), followed by every
// operation (thorough: by every two operations), as one conjunction and as separate queries.
func genC19BadExhaustive(emit func(src []byte, rd string, binary bool, eof string, drain int, queries [][]string, spans []c19Span), triples bool) {
	ops := []string{"gc", "pc", "gk", "pk", "gb", "pb", "rt", "ae", "pp", "pe"}
	follows := []string{"", "\n", "%zap.\nbar.\n", " bar."}
	type rdAct struct{ rd, eof string }
	cfgs := []rdAct{{"file", "error"}, {"file", "eof_code"}, {"file", "reset"}, {"eofd", "error"}, {"one", "reset"}}
	n := 0
	for _, bc := range c19BadClauses {
		for fi, fo := range follows {
			src := []byte(bc + fo)
			for ci, c := range cfgs {
				// quick: each source with one reader/eof_action in turn (all combinations over the run of sources)
				if !triples && (n+fi+ci)%len(cfgs) != 0 {
					continue
				}
				for _, x := range ops {
					emit(src, c.rd, false, c.eof, 2, [][]string{{"rt", x}}, nil)
					emit(src, c.rd, false, c.eof, 2, [][]string{{"rt"}, {x}}, nil)
					if !triples || c.rd != "file" {
						continue
					}
					for _, y := range ops {
						emit(src, c.rd, false, c.eof, 2, [][]string{{"rt"}, {x, y}}, nil)
						emit(src, c.rd, false, c.eof, 2, [][]string{{"rt"}, {x}, {y}}, nil)
					}
				}
			}
		}
		n++
	}
}

// genC19Exhaustive: every sequence of length ≤ 5 over seven ops on fixed sources, each as one conjunction
// and as separate queries.
func genC19Exhaustive(emit func(src []byte, rd string, binary bool, eof string, drain int, queries [][]string, spans []c19Span)) {
	type cfg struct {
		src    string
		rd     string
		binary bool
		eof    string
		spans  []c19Span
	}
	cfgs := []cfg{
		{"é1", "str", false, "reset", nil},
		{"a. b.", "file", false, "error", nil},
		{"f(a,b). c.", "str", false, "eof_code", []c19Span{{tok: 0, end: 7}, {tok: 8, end: 10}}},
		{"a.\n", "eofd", false, "eof_code", nil},
		{"\xff1", "one", false, "reset", nil},
		{"", "file", false, "error", nil},
		{"ab", "file", true, "eof_code", nil},
		{"a", "k3", true, "error", nil},
	}
	textOps := []string{"gc", "pc", "rt", "ae", "pp", "pe", "gb"}
	binOps := []string{"gb", "pb", "ae", "pp", "pe", "gc", "rt"}
	for _, c := range cfgs {
		ops := textOps
		if c.binary {
			ops = binOps
		}
		var rec func(seq []string)
		rec = func(seq []string) {
			if len(seq) > 0 {
				sep := make([][]string, len(seq))
				for i := range seq {
					sep[i] = []string{seq[i]}
				}
				cp := append([]string(nil), seq...)
				emit([]byte(c.src), c.rd, c.binary, c.eof, 2, [][]string{cp}, c.spans)
				if len(seq) > 1 {
					emit([]byte(c.src), c.rd, c.binary, c.eof, 2, sep, c.spans)
				}
			}
			if len(seq) == 5 {
				return
			}
			for _, o := range ops {
				rec(append(seq, o))
			}
		}
		rec(nil)
	}
}

// ---------------------------------------------------------------------------
// c19.out
// ---------------------------------------------------------------------------

type recSink struct {
	mu  sync.Mutex
	buf []byte
	n   int // number of Write calls
}

func (s *recSink) Write(p []byte) (int, error) {
	s.mu.Lock()
	defer s.mu.Unlock()
	s.buf = append(s.buf, p...)
	s.n++
	return len(p), nil
}

var c19OutAtoms = []string{"a", "foo", "b1", "a b", "Z", "hello world", "x_y"}

func genC19OutTerm(r *rand.Rand, depth int) engine.Term {
	switch k := r.Intn(8); {
	case k < 4:
		return atom(pick(r, c19OutAtoms))
	case k < 6:
		return engine.Integer(r.Intn(2000) - 1000)
	default:
		if depth > 1 {
			return atom("a")
		}
		n := 1 + r.Intn(3)
		args := make([]engine.Term, n)
		for i := range args {
			args[i] = genC19OutTerm(r, depth+1)
		}
		return compound(pick(r, []string{"f", "g", "foo"}), args...)
	}
}

func genC19Out(r *rand.Rand, n int, tier string) []string {
	var out []string
	for i := 0; i < n; i++ {
		binary := r.Intn(4) == 0
		k := 1 + r.Intn(8)
		seq := make([]string, k)
		for j := range seq {
			// text streams mostly get text goals, binary streams mostly put_byte; a few of the other kind
			x := r.Intn(10)
			if r.Intn(14) == 0 {
				x = 10
			}
			if binary {
				x = 10
				if r.Intn(8) == 0 {
					x = r.Intn(10)
				}
			}
			switch {
			case x < 4:
				seq[j] = fmt.Sprintf("pc%x", []rune(pick(r, c19Chars[:13]))[0])
			case x < 6:
				seq[j] = "nl"
			case x < 8:
				seq[j] = "w:" + strings.ReplaceAll(wireRaw(genC19OutTerm(r, 0)), " ", "~")
			case x < 10:
				seq[j] = "wq:" + strings.ReplaceAll(wireRaw(genC19OutTerm(r, 0)), " ", "~")
			default:
				seq[j] = fmt.Sprintf("pb%d", r.Intn(256))
			}
		}
		ty := "t"
		if binary {
			ty = "b"
		}
		sep := make([]string, k)
		copy(sep, seq)
		out = append(out, "ty="+ty+" | "+strings.Join(seq, " "))
		out = append(out, "ty="+ty+" | "+strings.Join(sep, " ; "))
		i++
	}
	return out
}

func runC19Out(payload string) string {
	parts := strings.SplitN(payload, " | ", 2)
	binary := parseKV(parts[0])["ty"] == "b"
	ci := c19Pool.Get().(*c19Interp)
	defer c19Pool.Put(ci)
	vm := &ci.i.VM
	sink := &recSink{}
	s := engine.NewOutputTextStream(sink)
	if binary {
		s = engine.NewOutputBinaryStream(sink)
	}
	var out []string
	okOps, errOps, multi := 0, 0, 0
	for _, q := range strings.Split(parts[1], " ; ") {
		ops := strings.Fields(q)
		var goals []engine.Term
		for _, op := range ops {
			var g engine.Term
			d := newTermDecoder()
			switch {
			case op == "nl":
				g = compound("nl", s)
			case strings.HasPrefix(op, "pc"):
				c, err := strconv.ParseInt(op[2:], 16, 32)
				must(err)
				g = compound("put_char", s, atom(string(rune(c))))
				if c > 127 {
					multi++
				}
			case strings.HasPrefix(op, "pb"):
				b, err := strconv.Atoi(op[2:])
				must(err)
				g = compound("put_byte", s, engine.Integer(b))
			case strings.HasPrefix(op, "wq:"):
				ts, err := d.terms(strings.ReplaceAll(op[3:], "~", " "))
				must(err)
				g = compound("writeq", s, ts[0])
			case strings.HasPrefix(op, "w:"):
				ts, err := d.terms(strings.ReplaceAll(op[2:], "~", " "))
				must(err)
				g = compound("write", s, ts[0])
			default:
				panic("bad op " + op)
			}
			goals = append(goals, g, compound("$c19_mark", atom("out"), atom("x")))
		}
		toks := c19Query(ci, goals, len(ops))
		for _, t := range toks {
			if t == "ok" {
				okOps++
			} else if strings.HasPrefix(t, "!") {
				errOps++
			}
		}
		// position of the output stream through stream_property/2
		p := engine.NewVariable()
		pos := "?"
		_, err := solve(vm, compound("stream_property", s, compound("position", p)), 1, 5*time.Second, func(env *engine.Env) bool {
			pos = fmt.Sprint(env.Resolve(p))
			return false
		})
		must(err)
		out = append(out, strings.Join(append(toks, "@"+pos), " "))
	}
	out = append(out, "sink="+hex.EncodeToString(sink.buf))
	nt := 0
	if okOps >= 2 {
		nt = 1
	}
	b := func(n int) int {
		if n > 0 {
			return 1
		}
		return 0
	}
	return strings.Join(out, " ; ") + fmt.Sprintf(" ### nt=%d ty=%s errors=%d multibyte=%d writes=%d", nt, parseKV(parts[0])["ty"], b(errOps), b(multi), bucket_c19(sink.n))
}
