/-
  Proofs/DCGSem2Top — the query: the initial world (both stores empty, the query's variables
  correspond to themselves), the answers projected on a template, and the settings of the stages
  A, B, C as decidable predicates.
-/
import PrologVerif.Proofs.DCGSem2Call
namespace PrologVerif.Grammar
open PrologVerif

/-! ### renaming by 0 -/

mutual
  theorem renameT_zero : ∀ t : Term, renameT 0 t = t
    | .var _ => rfl
    | .app f as => by simp only [renameT]; rw [renameA_zero as]
    | .atom _ => rfl
    | .int _ => rfl
    | .flt _ => rfl
    | .str _ => rfl
  theorem renameA_zero : ∀ as : Args, renameA 0 as = as
    | .nil => rfl
    | .cons t ts => by simp only [renameA]; rw [renameT_zero t, renameA_zero ts]
end

theorem renameL_zero (ts : List Term) : ts.map (renameT 0) = ts := by
  induction ts with
  | nil => rfl
  | cons t ts ih => simp [renameT_zero, ih]

theorem rename_zero (b : Body) : b.rename 0 = b := by
  induction b <;> simp_all [Body.rename, renameT_zero, renameL_zero]

/-! ### the initial world -/

/-- both stores empty; the variables below `k` correspond to themselves; the SLD side has the
    remainder variable `k` and `nh` hidden variables above it -/
def World.init (k nh : Nat) : World :=
  { σS := [], σD := [], ρ := fun x y => x = y ∧ x < k, nS := k + 1 + nh, nD := k + 1 }

theorem World.init_good (k nh : Nat) : (World.init k nh).Good := by
  refine ⟨fun a b b' h h' => by rw [← h.1, ← h'.1], fun a a' b h h' => by rw [h.1, h'.1], ?_, ?_,
    fun a b _ => ⟨fun p hp => by simp [World.init] at hp, fun p hp => by simp [World.init] at hp⟩⟩
  · intro v hv
    rcases hv with ⟨p, hp, _⟩ | ⟨b, r⟩
    · simp [World.init] at hp
    · have : v < k := r.2
      show v < k + 1 + nh
      omega
  · intro v hv
    rcases hv with ⟨p, hp, _⟩ | ⟨b, r⟩
    · simp [World.init] at hp
    · have : b = v ∧ b < k := r
      show v < k + 1
      omega

theorem World.init_var (k nh v : Nat) (hv : v < k) : (World.init k nh).Eq (.var (v + 0)) (.var (v + 0)) := by
  rw [World.Eq_unfold]
  show Sim1 _ _ (walk [] _) (walk [] _)
  simp only [walk]
  exact .var ⟨rfl, hv⟩

theorem World.init_eq (k nh : Nat) (t : Term) (h : boundT t ≤ k) : (World.init k nh).Eq t t := by
  have := rename_eq (W := World.init k nh) (oS := 0) (oD := 0) (fun v hv => World.init_var k nh v hv) t h
  rwa [renameT_zero] at this

theorem World.init_untouched (k nh v : Nat) (hv : k ≤ v) : ¬ (World.init k nh).TS v := by
  rintro (⟨p, hp, _⟩ | ⟨b, r⟩)
  · simp [World.init] at hp
  · have : v < k := r.2
    omega

theorem World.init_pre (k : Nat) (l : Term) (nh : Nat) (hl : boundT l ≤ k) :
    PreW (World.init k nh) l l k (k + 1) (k + 1 + nh) :=
  ⟨World.init_good k nh, World.init_eq k nh l hl, World.init_untouched k nh k (Nat.le_refl _),
    by show k < k + 1 + nh; omega, fun v h _ => World.init_untouched k nh v (by omega), Nat.le_refl _,
    fun h => by omega⟩

/-- **the query.**  Strict reading: `Body.ok true`; non-strict: `Body.ok false`. -/
theorem query_simW (strict : Bool) (cfg : Cfg) (hcfg : cfg.engine = false) (gr : Grammar)
    (hgr : ∀ r ∈ gr, GoodRuleW strict r) (b : Body) (hb : b.ok strict = true) (l : Term) (k : Nat)
    (hbk : b.varsBelow k = true) (hlk : boundT l ≤ k) (n : Nat) :
    RelW strict (World.init k b.nhid) (Fr k (k + 1) (k + 1 + b.nhid)) k
      (solve cfg.uf (programOf gr) n (b.tr l (.var k) (k + 1)).1 ⟨[], k + 1 + b.nhid⟩)
      (den cfg gr n true b ⟨[], k + 1⟩ l) := by
  have hrel : BodyRel (World.init k b.nhid).Eq b b := by
    have := rename_bodyRel (W := World.init k b.nhid) (oS := 0) (oD := 0)
      (fun v hv => World.init_var k b.nhid v hv) b hbk
    rwa [rename_zero] at this
  exact level_simW strict cfg hcfg gr hgr n b hb b (World.init k b.nhid) hrel true l l k (k + 1)
    (World.init_pre k l b.nhid hlk)

/-- an answer pair gives the same projected answer: the template `t(q, l, S)` under the SLD
    answer, `t(q, l, remainder)` under the denotation's answer -/
theorem ans_projected (uf : Nat) {k nh : Nat} {P : Nat → Prop} {st' : St} {a : St × Term}
    (h : AnsW (World.init k nh) P k st' a) (q l : Term) (hq : boundT q ≤ k) (hl : boundT l ≤ k) :
    (resolve uf st'.σ (Term.mk "t" [q, l, .var k])).map Term.canon =
      (resolve uf a.1.σ (Term.mk "t" [q, l, a.2])).map Term.canon := by
  obtain ⟨W', e1, e2, g, st, he⟩ := h
  rw [e1, e2]
  refine projected_eq g uf ?_
  rw [World.Eq_unfold]
  simp only [Term.mk, Args.ofList]
  rw [walk_nonvar _ _ rfl, walk_nonvar _ _ rfl]
  exact .app (.cons (st.eq _ _ (World.init_eq k nh q hq)) (.cons (st.eq _ _ (World.init_eq k nh l hl))
    (.cons he .nil)))

/-! ### variables of a body that was read from a term -/

mutual
  theorem bound_occ : ∀ (t : Term) (n : Nat), (∀ v, occT v t = true → v < n) → boundT t ≤ n
    | .var w, n, h => by have := h w (by simp); simp only [boundT]; omega
    | .app _ as, n, h => by simp only [boundT]; exact boundA_occ as n (fun v hv => h v (by simpa [occT] using hv))
    | .atom _, _, _ => by simp [boundT]
    | .int _, _, _ => by simp [boundT]
    | .flt _, _, _ => by simp [boundT]
    | .str _, _, _ => by simp [boundT]
  theorem boundA_occ : ∀ (as : Args) (n : Nat), (∀ v, occA v as = true → v < n) → boundA as ≤ n
    | .nil, _, _ => by simp [boundA]
    | .cons t ts, n, h => by
      simp only [boundA]
      have h1 := bound_occ t n (fun v hv => h v (by simp [occA, hv]))
      have h2 := boundA_occ ts n (fun v hv => h v (by simp [occA, hv]))
      omega
end

mutual
  theorem occ_bound : ∀ (t : Term) (v : Nat), occT v t = true → v < boundT t
    | .var w, v, h => by simp [occT] at h; simp [boundT, h]
    | .app _ as, v, h => by simp only [boundT]; exact occA_bound as v (by simpa [occT] using h)
    | .atom _, _, h => by simp [occT] at h
    | .int _, _, h => by simp [occT] at h
    | .flt _, _, h => by simp [occT] at h
    | .str _, _, h => by simp [occT] at h
  theorem occA_bound : ∀ (as : Args) (v : Nat), occA v as = true → v < boundA as
    | .nil, _, h => by simp [occA] at h
    | .cons t ts, v, h => by
      simp only [occA, Bool.or_eq_true] at h
      simp only [boundA]
      rcases h with h | h
      · have := occ_bound t v h; omega
      · have := occA_bound ts v h; omega
end

theorem all_bound_occ (ts : List Term) (n : Nat) (h : ∀ v, occL v ts = true → v < n) :
    ts.all (fun t => decide (boundT t ≤ n)) = true := by
  induction ts with
  | nil => rfl
  | cons t ts ih =>
    simp only [List.all_cons, Bool.and_eq_true, decide_eq_true_eq]
    exact ⟨bound_occ t n (fun v hv => h v (by simp [hv])), ih (fun v hv => h v (by simp [hv]))⟩

theorem varsBelow_occ (b : Body) (n : Nat) : (∀ v, b.occ v = true → v < n) → b.varsBelow n = true := by
  induction b with
  | eps => intro _; rfl
  | terminals ts => intro h; exact all_bound_occ ts n h
  | nt f as => intro h; exact all_bound_occ as n h
  | seq a b iha ihb =>
    intro h
    simp only [Body.varsBelow, Body.allT, Bool.and_eq_true]
    exact ⟨iha (fun v hv => h v (by simp [Body.occ, hv])), ihb (fun v hv => h v (by simp [Body.occ, hv]))⟩
  | alt a b iha ihb =>
    intro h
    simp only [Body.varsBelow, Body.allT, Bool.and_eq_true]
    exact ⟨iha (fun v hv => h v (by simp [Body.occ, hv])), ihb (fun v hv => h v (by simp [Body.occ, hv]))⟩
  | ite c t e ihc iht ihe =>
    intro h
    simp only [Body.varsBelow, Body.allT, Bool.and_eq_true]
    exact ⟨⟨ihc (fun v hv => h v (by simp [Body.occ, hv])), iht (fun v hv => h v (by simp [Body.occ, hv]))⟩,
      ihe (fun v hv => h v (by simp [Body.occ, hv]))⟩
  | ifthen c t ihc iht =>
    intro h
    simp only [Body.varsBelow, Body.allT, Bool.and_eq_true]
    exact ⟨ihc (fun v hv => h v (by simp [Body.occ, hv])), iht (fun v hv => h v (by simp [Body.occ, hv]))⟩
  | block g => intro h; simpa [Body.varsBelow, Body.allT] using bound_occ g n h
  | not b ih => intro h; exact ih h
  | cut => intro _; rfl
  | call1 g => intro h; simpa [Body.varsBelow, Body.allT] using bound_occ g n h
  | phrase g => intro h; simpa [Body.varsBelow, Body.allT] using bound_occ g n h
  | var w =>
    intro h
    have := h w (by simp [Body.occ])
    simp only [Body.varsBelow, Body.allT, boundT]
    exact decide_eq_true (by omega)

/-- the variables of a body are variables of the term it was read from -/
theorem ofTerm_varsBelow (q : Term) (b : Body) (h : Body.ofTerm q = .ok b) : b.varsBelow (boundT q) = true :=
  varsBelow_occ b _ (fun v hv => occ_bound q v (ofTerm_occ v q b h hv))

theorem varsBelow_mono (b : Body) {n m : Nat} (hnm : n ≤ m) (h : b.varsBelow n = true) : b.varsBelow m = true := by
  have key : ∀ ts : List Term, ts.all (fun t => decide (boundT t ≤ n)) = true →
      ts.all (fun t => decide (boundT t ≤ m)) = true := by
    intro ts hts
    rw [List.all_eq_true] at hts ⊢
    intro t ht
    have := hts t ht
    simp only [decide_eq_true_eq] at this ⊢
    omega
  induction b with
  | terminals ts => exact key ts h
  | nt f as => exact key as h
  | seq a b iha ihb =>
    simp only [Body.varsBelow, Body.allT, Bool.and_eq_true] at h ⊢
    exact ⟨iha h.1, ihb h.2⟩
  | alt a b iha ihb =>
    simp only [Body.varsBelow, Body.allT, Bool.and_eq_true] at h ⊢
    exact ⟨iha h.1, ihb h.2⟩
  | ite c t e ihc iht ihe =>
    simp only [Body.varsBelow, Body.allT, Bool.and_eq_true] at h ⊢
    exact ⟨⟨ihc h.1.1, iht h.1.2⟩, ihe h.2⟩
  | ifthen c t ihc iht =>
    simp only [Body.varsBelow, Body.allT, Bool.and_eq_true] at h ⊢
    exact ⟨ihc h.1, iht h.2⟩
  | not b ih => exact ih h
  | block g => simp only [Body.varsBelow, Body.allT, decide_eq_true_eq] at h ⊢; omega
  | call1 g => simp only [Body.varsBelow, Body.allT, decide_eq_true_eq] at h ⊢; omega
  | phrase g => simp only [Body.varsBelow, Body.allT, decide_eq_true_eq] at h ⊢; omega
  | var w => simp only [Body.varsBelow, Body.allT, decide_eq_true_eq] at h ⊢; omega
  | _ => rfl

/-! ### the general theorem -/

/-- the two results agree: same pending cut, same number of answers, answer by answer the same
    bindings of the query's variables and the same remainder (the SLD side's `S` = `.var k`, the
    denotation's remainder term), up to renaming of the variables that are left -/
def Agrees (strict : Bool) (uf : Nat) (q l : Term) (k : Nat) : Res SOut → Res Out → Prop
  | .ok A, .ok D =>
    A.cut = D.cut ∧ A.answers.length = D.answers.length ∧
    ∀ p ∈ A.answers.zip D.answers,
      (resolve uf p.1.σ (Term.mk "t" [q, l, .var k])).map Term.canon =
        (resolve uf p.2.1.σ (Term.mk "t" [q, l, p.2.2])).map Term.canon
  | .error e, .ok _ => strict = true → e = .fuel
  | .ok _, .error _ => strict = false
  | .error _, .error _ => True

theorem agrees_gen (strict : Bool) (cfg : Cfg) (hcfg : cfg.engine = false) (gr : Grammar)
    (hgr : ∀ r ∈ gr, GoodRuleW strict r) (q l : Term) (b : Body) (hq : Body.ofTerm q = .ok b)
    (hb : b.ok strict = true) (k : Nat) (hqk : boundT q ≤ k) (hlk : boundT l ≤ k) (n : Nat) :
    Agrees strict cfg.uf q l k
      (solve cfg.uf (programOf gr) n (b.tr l (.var k) (k + 1)).1 ⟨[], k + 1 + b.nhid⟩)
      (den cfg gr n true b ⟨[], k + 1⟩ l) := by
  have hbk : b.varsBelow k = true := varsBelow_mono b hqk (ofTerm_varsBelow q b hq)
  have h := query_simW strict cfg hcfg gr hgr b hb l k hbk hlk n
  revert h
  generalize solve cfg.uf (programOf gr) n (b.tr l (.var k) (k + 1)).1 ⟨[], k + 1 + b.nhid⟩ = rS
  generalize den cfg gr n true b ⟨[], k + 1⟩ l = rD
  intro h
  cases rS with
  | error e => cases rD with
    | error e' => trivial
    | ok D => exact h
  | ok A => cases rD with
    | error e' => exact h
    | ok D =>
      obtain ⟨c, hall⟩ := h
      exact ⟨c, hall.length_eq, fun p hp => ans_projected cfg.uf (hall.zip p hp) q l hqk hlk⟩

/-! ### the stages as decidable fragments -/

/-- Stage A: terminals and push-backs are arbitrary terms (variables allowed); non-terminals and
    rule heads WITHOUT arguments; `{true}`, `{fail}`, `{false}`, `{!}` -/
def Body.okA : Body → Bool
  | .eps => true
  | .terminals _ => true
  | .nt f as => as.isEmpty && !special f 0
  | .seq a b => a.okA && b.okA
  | .alt a b => a.okA && b.okA && !a.isIfthen
  | .ite c t e => c.okA && t.okA && e.okA
  | .ifthen c t => c.okA && t.okA
  | .block g => blockGoal g
  | .not b => b.okA
  | .cut => true
  | _ => false

def Rule.okA (r : Rule) : Bool :=
  r.args.isEmpty && !special r.name 0 && r.body.okA && r.wf

/-- Stage B: non-terminals and rule heads with arbitrary arguments -/
def Body.okB : Body → Bool
  | .eps => true
  | .terminals _ => true
  | .nt f as => !special f as.length
  | .seq a b => a.okB && b.okB
  | .alt a b => a.okB && b.okB && !a.isIfthen
  | .ite c t e => c.okB && t.okB && e.okB
  | .ifthen c t => c.okB && t.okB
  | .block g => blockGoal g
  | .not b => b.okB
  | .cut => true
  | _ => false

def Rule.okB (r : Rule) : Bool :=
  !special r.name r.args.length && r.body.okB && r.wf

/-- Stage C: additionally `{G}` with `=`, `\=`, `==`, `\==` and conjunctions, and call//N
    (`Body.ok`; strict: the closure is known at translation time) -/
def Rule.okC (strict : Bool) (r : Rule) : Bool :=
  !special r.name r.args.length && r.body.ok strict && r.wf

theorem blockGoal_goalOK {g : Term} (h : blockGoal g = true) : goalOK g = true := by
  simp only [blockGoal, Bool.or_eq_true, beq_iff_eq] at h
  rcases h with ((h | h) | h) | h <;> subst h <;> rfl

theorem okA_okB (b : Body) (h : b.okA = true) : b.okB = true := by
  induction b with
  | nt f as =>
    simp only [Body.okA, Bool.and_eq_true, List.isEmpty_iff] at h
    obtain ⟨rfl, h⟩ := h
    exact h
  | _ => simp_all [Body.okA, Body.okB]

theorem okB_ok (strict : Bool) (b : Body) (h : b.okB = true) : b.ok strict = true := by
  induction b with
  | nt f as =>
    simp only [Body.okB, Bool.not_eq_true'] at h
    have hf : f ≠ "call" := by intro e; subst e; simp [special] at h
    simp [Body.ok, ntOK, hf, h]
  | block g => simp [Body.ok, blockGoal_goalOK h]
  | _ => simp_all [Body.okB, Body.ok]

theorem Rule.okC_good {strict : Bool} {r : Rule} (h : r.okC strict = true) : GoodRuleW strict r := by
  simp only [Rule.okC, Bool.and_eq_true, Bool.not_eq_true'] at h
  exact ⟨h.1.1, h.1.2, h.2⟩

theorem Rule.okB_okC (strict : Bool) {r : Rule} (h : r.okB = true) : r.okC strict = true := by
  simp only [Rule.okB, Rule.okC, Bool.and_eq_true] at h ⊢
  exact ⟨⟨h.1.1, okB_ok strict _ h.1.2⟩, h.2⟩

theorem Rule.okA_okB {r : Rule} (h : r.okA = true) : r.okB = true := by
  simp only [Rule.okA, Rule.okB, Bool.and_eq_true, List.isEmpty_iff] at h ⊢
  obtain ⟨⟨⟨h1, h2⟩, h3⟩, h4⟩ := h
  rw [h1]
  exact ⟨⟨h2, PrologVerif.Grammar.okA_okB _ h3⟩, h4⟩

/-- the setting of stage A -/
structure SettingA (cfg : Cfg) (gr : Grammar) (b : Body) : Prop where
  iso : cfg.engine = false
  rules : gr.all Rule.okA = true
  body : b.okA = true

/-- the setting of stage B -/
structure SettingB (cfg : Cfg) (gr : Grammar) (b : Body) : Prop where
  iso : cfg.engine = false
  rules : gr.all Rule.okB = true
  body : b.okB = true

/-- the setting of stage C (strict: static closures of call//N; non-strict: any closure) -/
structure SettingC (strict : Bool) (cfg : Cfg) (gr : Grammar) (b : Body) : Prop where
  iso : cfg.engine = false
  rules : gr.all (Rule.okC strict) = true
  body : b.ok strict = true

theorem SettingA.toB {cfg : Cfg} {gr : Grammar} {b : Body} (h : SettingA cfg gr b) : SettingB cfg gr b :=
  ⟨h.iso, by
    have := h.rules
    rw [List.all_eq_true] at this ⊢
    exact fun r hr => Rule.okA_okB (this r hr), okA_okB b h.body⟩

theorem SettingB.toC (strict : Bool) {cfg : Cfg} {gr : Grammar} {b : Body} (h : SettingB cfg gr b) :
    SettingC strict cfg gr b :=
  ⟨h.iso, by
    have := h.rules
    rw [List.all_eq_true] at this ⊢
    exact fun r hr => Rule.okB_okC strict (this r hr), okB_ok strict b h.body⟩

theorem SettingC.agrees {strict : Bool} {cfg : Cfg} {gr : Grammar} {b : Body} (h : SettingC strict cfg gr b)
    (q l : Term) (hq : Body.ofTerm q = .ok b) (n : Nat) :
    Agrees strict cfg.uf q l (max (boundT q) (boundT l))
      (solve cfg.uf (programOf gr) n (b.tr l (.var (max (boundT q) (boundT l))) (max (boundT q) (boundT l) + 1)).1
        ⟨[], max (boundT q) (boundT l) + 1 + b.nhid⟩)
      (den cfg gr n true b ⟨[], max (boundT q) (boundT l) + 1⟩ l) :=
  agrees_gen strict cfg h.iso gr
    (fun r hr => Rule.okC_good (List.all_eq_true.1 h.rules r hr)) q l b hq h.body _
    (Nat.le_max_left _ _) (Nat.le_max_right _ _) n

theorem Agrees.strict {uf : Nat} {q l : Term} {k : Nat} {rS : Res SOut} {rD : Res Out} :
    Agrees true uf q l k rS rD →
    match rS, rD with
    | .ok A, .ok D =>
      A.cut = D.cut ∧ A.answers.length = D.answers.length ∧
      ∀ p ∈ A.answers.zip D.answers,
        (resolve uf p.1.σ (Term.mk "t" [q, l, .var k])).map Term.canon =
          (resolve uf p.2.1.σ (Term.mk "t" [q, l, p.2.2])).map Term.canon
    | .error _, .error _ => True
    | .error e, .ok _ => e = .fuel
    | .ok _, .error _ => False := by
  intro h
  cases rS with
  | error e => cases rD with
    | error e' => trivial
    | ok D => exact h rfl
  | ok A => cases rD with
    | error e' => exact Bool.noConfusion (h : true = false)
    | ok D => exact h

instance (cfg : Cfg) (gr : Grammar) (b : Body) : Decidable (SettingA cfg gr b) :=
  decidable_of_iff (cfg.engine = false ∧ gr.all Rule.okA = true ∧ b.okA = true)
    ⟨fun ⟨a, b, c⟩ => ⟨a, b, c⟩, fun h => ⟨h.iso, h.rules, h.body⟩⟩

instance (cfg : Cfg) (gr : Grammar) (b : Body) : Decidable (SettingB cfg gr b) :=
  decidable_of_iff (cfg.engine = false ∧ gr.all Rule.okB = true ∧ b.okB = true)
    ⟨fun ⟨a, b, c⟩ => ⟨a, b, c⟩, fun h => ⟨h.iso, h.rules, h.body⟩⟩

instance (strict : Bool) (cfg : Cfg) (gr : Grammar) (b : Body) : Decidable (SettingC strict cfg gr b) :=
  decidable_of_iff (cfg.engine = false ∧ gr.all (Rule.okC strict) = true ∧ b.ok strict = true)
    ⟨fun ⟨a, b, c⟩ => ⟨a, b, c⟩, fun h => ⟨h.iso, h.rules, h.body⟩⟩

/-! ### example grammars (non-vacuity of the stage theorems) -/

/-- stage A:   dup --> [X, X].      ab, [P] --> [a], [P]. -/
def exampleGrammarA : Grammar :=
  [ { name := "dup", args := [], pushback := none, nv := 1, body := .terminals [.var 0, .var 0] },
    { name := "ab", args := [], pushback := some [.var 0], nv := 1,
      body := .seq (.terminals [.atom "a"]) (.terminals [.var 0]) } ]

/-- stage B:   greeting(X) --> [hello], name(X).   name(world) --> [world].   name(N) --> [N]. -/
def exampleGrammarB : Grammar :=
  [ { name := "greeting", args := [.var 0], pushback := none, nv := 1,
      body := .seq (.terminals [.atom "hello"]) (.nt "name" [.var 0]) },
    { name := "name", args := [.atom "world"], pushback := none, nv := 0, body := .terminals [.atom "world"] },
    { name := "name", args := [.var 0], pushback := none, nv := 1, body := .terminals [.var 0] } ]

/-- stage C:   item(X) --> [Y], {X = f(Y)}.
               pair(A, B) --> call(item, A), call(item, B), {A \== B}.
               twice(G, A, B) --> call(G, A), call(G, B), {A \== B}. -/
def exampleGrammarC : Grammar :=
  [ { name := "item", args := [.var 0], pushback := none, nv := 2,
      body := .seq (.terminals [.var 1]) (.block (Term.a2 "=" (.var 0) (Term.mk "f" [.var 1]))) },
    { name := "pair", args := [.var 0, .var 1], pushback := none, nv := 2,
      body := .seq (.nt "call" [.atom "item", .var 0])
        (.seq (.nt "call" [.atom "item", .var 1]) (.block (Term.a2 "\\==" (.var 0) (.var 1)))) },
    { name := "twice", args := [.var 0, .var 1, .var 2], pushback := none, nv := 3,
      body := .seq (.nt "call" [.var 0, .var 1])
        (.seq (.nt "call" [.var 0, .var 2]) (.block (Term.a2 "\\==" (.var 1) (.var 2)))) } ]

/-- an ill-formed rule:  a(X) --> [X]  with `nv = 0` although it uses variable 0 — `Rule.ofTerm`
    never delivers this -/
def illFormedGrammar : Grammar :=
  [ { name := "a", args := [.var 0], pushback := none, nv := 0, body := .terminals [.var 0] } ]

end PrologVerif.Grammar
