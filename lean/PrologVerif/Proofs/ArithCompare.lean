/-
  Proofs/ArithCompare — the comparison predicates: on integers the relations of the unbounded integers,
  otherwise the float relation after float64(n) conversion of the integer operand.
-/
import PrologVerif.Proofs.ArithEval
namespace PrologVerif.ArithProofs
open PrologVerif.Arith PrologVerif.Generated.Arith
open PrologVerif.Spec.ExactArith (Outcome inRange checked)

variable {F : Type} [FloatOps F]

/-- the six comparison predicates on integers are the relations of the unbounded integers -/
theorem cmp_int (op : String) (x y : I64) (b : Bool) (h : Spec.ExactArith.compare op x.val y.val = some b) :
    ∃ k, Eval.cmpKernels (F := F) op = some k ∧ Eval.compareNums k (.int x) (.int y) = b := by
  unfold Spec.ExactArith.compare at h
  split at h <;> first | (injection h with h; subst h) | (simp at h)
  · exact ⟨_, rfl, by simp [Eval.compareNums, U.eqI, eqI, I64.ext_iff]⟩
  · exact ⟨_, rfl, by simp [Eval.compareNums, U.neqI, neqI, I64.ext_iff]⟩
  · exact ⟨_, rfl, by simp [Eval.compareNums, U.lssI, lssI, I64.lt_def]⟩
  · exact ⟨_, rfl, by simp [Eval.compareNums, U.leqI, leqI, I64.le_def]⟩
  · exact ⟨_, rfl, by simp [Eval.compareNums, U.gtrI, gtrI, I64.gt_def]⟩
  · exact ⟨_, rfl, by simp [Eval.compareNums, U.geqI, geqI, I64.ge_def]⟩

/-- the float relation a comparison predicate stands for -/
def floatRel (op : String) (a b : F) : Option Bool :=
  match op with
  | "=:=" => some (FloatOps.eq a b)
  | "=\\=" => some (!FloatOps.eq a b)
  | "<" => some (FloatOps.lt a b)
  | "=<" => some (FloatOps.le a b)
  | ">" => some (FloatOps.lt b a)
  | ">=" => some (FloatOps.le b a)
  | _ => none

def toFloat : Num F → F
  | .int i => FloatOps.ofInt i.val
  | .flt f => f

/-- mixed and float comparisons: the float relation after converting integer operands with float64(n)
    — for = and ≠ the code swaps the operands, which is sound iff float equality is symmetric -/
theorem cmp_mixed (op : String) (x y : Num F) (b : Bool)
    (hmixed : ¬ ∃ i j, x = .int i ∧ y = .int j)
    (hsymm : ∀ a c : F, FloatOps.eq a c = FloatOps.eq c a)
    (h : floatRel op (toFloat x) (toFloat y) = some b) :
    ∃ k, Eval.cmpKernels (F := F) op = some k ∧ Eval.compareNums k x y = b := by
  unfold floatRel at h
  cases x <;> cases y
  · exact absurd ⟨_, _, rfl, rfl⟩ hmixed
  all_goals
    split at h <;> first | (injection h with h; subst h) | (simp at h)
  all_goals refine ⟨_, rfl, ?_⟩
  all_goals simp only [Eval.compareNums, U.eqIF, U.eqFI, U.eqF, U.neqIF, U.neqFI, U.neqF, U.lssIF, U.lssFI, U.lssF,
    U.leqIF, U.leqFI, U.leqF, U.gtrIF, U.gtrFI, U.gtrF, U.geqIF, U.geqFI, U.geqF, eqIF, eqFI, eqF, neqIF, neqFI, neqF, lssIF, lssFI, lssF, leqIF,
    leqFI, leqF, gtrIF, gtrFI, gtrF, geqIF, geqFI, geqF, decide_flt, decide_fgt, decide_fle, decide_fge,
    decide_feq, decide_fne, Bool.decide_eq_true]
  all_goals simp only [toFloat, floatItoF]
  all_goals first
    | rfl
    | (rw [hsymm])

end PrologVerif.ArithProofs
