/-
  Infinite-tree semantics of unification.

  The VM unifies WITHOUT occurs check into a triangular environment and can therefore create
  cyclic bindings (X ↦ f(X)); such an environment has no solution in finite terms, but it has
  one in (possibly infinite) trees.  This file gives the tree model and shows

  * a `clash` answer of the reference unifier `Robinson.solve` excludes unifiers in infinite
    trees as well (`robinson_clash_no_iunifier`);
  * a successful `unify` (checked or unchecked) is sound in the tree model (`unify_isound`);
  * every environment the VM can build has a tree solution (`unify_chainOK`, `exists_isol`);
  * the idempotent solution σ of an acyclic environment is general in the tree model too
    (`igeneral_bind`, `igeneral_rebind`, `interp_subst_general`).
-/
import PrologVerif.Spec.Robinson
import PrologVerif.Proofs.UnifyOC
namespace PrologVerif.RefineITree
open PrologVerif

/-! ### (1) the model -/

inductive Lab
  | atom (s : String)
  | int (i : Int)
  | flt (b : UInt64)
  | str (n : Nat)
  | app (f : String) (arity : Nat)

/-- a (possibly infinite) tree: the label at each path (none = no node there) -/
def ITree := List Nat → Option Lab

abbrev IAsg := Nat → ITree

/-- the one-node tree -/
def leaf (l : Lab) : ITree := fun p =>
  match p with
  | [] => some l
  | _ :: _ => none

/-- the tree with root label `l` and `i`-th child `k i` -/
def node (l : Lab) (k : Nat → ITree) : ITree := fun p =>
  match p with
  | [] => some l
  | i :: p' => k i p'

/-- the empty tree (no node at all): the "child" beyond the arity -/
def noTree : ITree := fun _ => none

mutual
  def interp (θ : IAsg) : Term → ITree
    | .var v => θ v
    | .atom s => leaf (.atom s)
    | .int i => leaf (.int i)
    | .flt b => leaf (.flt b)
    | .str n => leaf (.str n)
    | .app f as => node (.app f as.length) (interpArgs θ as)
  def interpArgs (θ : IAsg) : Args → Nat → ITree
    | .nil, _ => noTree
    | .cons t _, 0 => interp θ t
    | .cons _ ts, i + 1 => interpArgs θ ts i
end

@[simp] theorem leaf_nil (l : Lab) : leaf l [] = some l := rfl
@[simp] theorem leaf_cons (l : Lab) (i : Nat) (p : List Nat) : leaf l (i :: p) = none := rfl
@[simp] theorem node_nil (l : Lab) (k : Nat → ITree) : node l k [] = some l := rfl
@[simp] theorem node_cons (l : Lab) (k : Nat → ITree) (i : Nat) (p : List Nat) :
    node l k (i :: p) = k i p := rfl

theorem node_inj {l l' : Lab} {k k' : Nat → ITree} (h : node l k = node l' k') :
    l = l' ∧ ∀ i, k i = k' i := by
  constructor
  · have := congrFun h []
    simpa using this
  · intro i
    funext p
    have := congrFun h (i :: p)
    simpa using this

theorem node_congr {l : Lab} {k k' : Nat → ITree} (h : ∀ i, k i = k' i) : node l k = node l k' := by
  have : k = k' := funext h
  rw [this]

/-- the label a NON-variable term carries at its root -/
def rootLab : Term → Option Lab
  | .var _ => none
  | .atom s => some (.atom s)
  | .int i => some (.int i)
  | .flt b => some (.flt b)
  | .str n => some (.str n)
  | .app f as => some (.app f as.length)

theorem interp_root (θ : IAsg) : ∀ t : Term, (∀ v, t ≠ .var v) → interp θ t [] = rootLab t
  | .var v, h => absurd rfl (h v)
  | .atom _, _ => rfl
  | .int _, _ => rfl
  | .flt _, _ => rfl
  | .str _, _ => rfl
  | .app _ _, _ => rfl

/-- non-variable terms with equal interpretation have the same root shape -/
theorem interp_rootLab_eq {θ : IAsg} {a b : Term} (ha : ∀ v, a ≠ .var v) (hb : ∀ v, b ≠ .var v)
    (h : interp θ a = interp θ b) : rootLab a = rootLab b := by
  rw [← interp_root θ a ha, ← interp_root θ b hb, h]

theorem Args.length_subst' (σ : Subst) : ∀ as : Args, (as.subst σ).length = as.length
  | .nil => rfl
  | .cons _ ts => by simp [Args.subst, Args.length, Args.length_subst' σ ts]

mutual
  theorem interp_subst (θ : IAsg) (σ : Subst) : ∀ t : Term,
      interp θ (t.subst σ) = interp (fun v => interp θ (σ v)) t
    | .var _ => rfl
    | .atom _ => rfl
    | .int _ => rfl
    | .flt _ => rfl
    | .str _ => rfl
    | .app f as => by
      simp only [Term.subst, interp, Args.length_subst']
      exact node_congr (interpArgs_subst θ σ as)
  theorem interpArgs_subst (θ : IAsg) (σ : Subst) : ∀ (as : Args) (i : Nat),
      interpArgs θ (as.subst σ) i = interpArgs (fun v => interp θ (σ v)) as i
    | .nil, _ => rfl
    | .cons t _, 0 => by simp only [Args.subst, interpArgs]; exact interp_subst θ σ t
    | .cons _ ts, i + 1 => by simp only [Args.subst, interpArgs]; exact interpArgs_subst θ σ ts i
end

/-- constructors are injective in the model -/
theorem interp_app_inj {θ : IAsg} {f g : String} {as bs : Args}
    (h : interp θ (.app f as) = interp θ (.app g bs)) :
    f = g ∧ as.length = bs.length ∧ ∀ i, interpArgs θ as i = interpArgs θ bs i := by
  simp only [interp] at h
  obtain ⟨h1, h2⟩ := node_inj h
  simp only [Lab.app.injEq] at h1
  exact ⟨h1.1, h1.2, h2⟩

theorem interp_app_congr {θ : IAsg} {f : String} {as bs : Args} (hl : as.length = bs.length)
    (h : ∀ i, interpArgs θ as i = interpArgs θ bs i) :
    interp θ (.app f as) = interp θ (.app f bs) := by
  simp only [interp, hl]
  exact node_congr h

theorem interp_args_ext {θ : IAsg} : ∀ {as bs : Args}, as.length = bs.length →
    (∀ i, interpArgs θ as i = interpArgs θ bs i) →
    ∀ p ∈ Robinson.zipArgs as bs, interp θ p.1 = interp θ p.2
  | .nil, _, _, _, p, hp => by simp [Robinson.zipArgs] at hp
  | .cons _ _, .nil, _, _, p, hp => by simp [Robinson.zipArgs] at hp
  | .cons a as, .cons b bs, hl, h, p, hp => by
    simp only [Robinson.zipArgs, List.mem_cons] at hp
    rcases hp with rfl | hp
    · have := h 0
      simpa only [interpArgs] using this
    · refine interp_args_ext (as := as) (bs := bs) ?_ (fun i => ?_) p hp
      · simpa [Args.length] using hl
      · have := h (i + 1)
        simpa only [interpArgs] using this

/-- terms of different root shape have different interpretations -/
theorem interp_atom_inj {θ : IAsg} {s s' : String} (h : interp θ (.atom s) = interp θ (.atom s')) :
    s = s' := by
  have := interp_rootLab_eq (by intro v; simp) (by intro v; simp) h
  simpa [rootLab] using this

theorem interp_atom_ne_int {θ : IAsg} {s : String} {i : Int} :
    interp θ (.atom s) ≠ interp θ (.int i) := by
  intro h
  have := interp_rootLab_eq (by intro v; simp) (by intro v; simp) h
  simp [rootLab] at this

theorem interp_atomic_ne_app {θ : IAsg} {a : Term} {f : String} {as : Args} (ha : ∀ v, a ≠ .var v)
    (hna : ∀ g bs, a ≠ .app g bs) : interp θ a ≠ interp θ (.app f as) := by
  intro h
  have := interp_rootLab_eq ha (by intro v; simp) h
  cases a with
  | var v => exact ha v rfl
  | app g bs => exact hna g bs rfl
  | _ => simp [rootLab] at this

theorem interp_app_ne {θ : IAsg} {f g : String} {as bs : Args} (h : ¬ (f = g ∧ as.length = bs.length)) :
    interp θ (.app f as) ≠ interp θ (.app g bs) := by
  intro heq
  have := interp_app_inj heq
  exact h ⟨this.1, this.2.1⟩

/-- the general form: non-variable terms that are not both compound and have the same
    interpretation are EQUAL -/
theorem interp_nonapp_inj {θ : IAsg} {a b : Term} (ha : ∀ v, a ≠ .var v) (hb : ∀ v, b ≠ .var v)
    (hab : ∀ f as g bs, a = .app f as → b = .app g bs → False)
    (h : interp θ a = interp θ b) : a = b := by
  have hr := interp_rootLab_eq ha hb h
  cases a with
  | var v => exact absurd rfl (ha v)
  | app f as =>
    cases b with
    | var v => exact absurd rfl (hb v)
    | app g bs => exact (hab f as g bs rfl rfl).elim
    | _ => simp [rootLab] at hr
  | atom s => cases b <;> simp_all [rootLab]
  | int s => cases b <;> simp_all [rootLab]
  | flt s => cases b <;> simp_all [rootLab]
  | str s => cases b <;> simp_all [rootLab]

/-! ### (2) Robinson: a clash excludes infinite-tree unifiers too -/

theorem Robinson.length_replaceArgs (v : Nat) (u : Term) : ∀ as : Args,
    (Robinson.replaceArgs v u as).length = as.length
  | .nil => rfl
  | .cons _ ts => by simp [Robinson.replaceArgs, Args.length, Robinson.length_replaceArgs v u ts]

mutual
  theorem interp_replace {θ : IAsg} {v : Nat} {u : Term} (h : θ v = interp θ u) : ∀ t : Term,
      interp θ (Robinson.replace v u t) = interp θ t
    | .var w => by
      simp only [Robinson.replace]
      split
      · rename_i hw; subst hw; simp only [interp]; exact h.symm
      · rfl
    | .atom _ => rfl
    | .int _ => rfl
    | .flt _ => rfl
    | .str _ => rfl
    | .app f as => by
      simp only [Robinson.replace]
      exact interp_app_congr (Robinson.length_replaceArgs v u as) (interpArgs_replace h as)
  theorem interpArgs_replace {θ : IAsg} {v : Nat} {u : Term} (h : θ v = interp θ u) :
      ∀ (as : Args) (i : Nat), interpArgs θ (Robinson.replaceArgs v u as) i = interpArgs θ as i
    | .nil, _ => rfl
    | .cons t _, 0 => by simp only [Robinson.replaceArgs, interpArgs]; exact interp_replace h t
    | .cons _ ts, i + 1 => by
      simp only [Robinson.replaceArgs, interpArgs]; exact interpArgs_replace h ts i
end

/-- tree unifiers of a list of equations -/
def IUnifies (θ : IAsg) (eqs : List (Term × Term)) : Prop := ∀ p ∈ eqs, interp θ p.1 = interp θ p.2

theorem iunifies_replace {θ : IAsg} {v : Nat} {u : Term} (h : θ v = interp θ u)
    {rest : List (Term × Term)} (hr : IUnifies θ rest) :
    IUnifies θ (rest.map fun p => (Robinson.replace v u p.1, Robinson.replace v u p.2)) := by
  intro p hp
  simp only [List.mem_map] at hp
  obtain ⟨q, hq, rfl⟩ := hp
  simp only [interp_replace h]
  exact hr q hq

theorem solve_clash_no_iunifier : ∀ (n : Nat) (eqs : List (Term × Term)) (acc : List (Nat × Term)),
    Robinson.solve n eqs acc = .clash → ∀ θ : IAsg, ¬ IUnifies θ eqs
  | 0, _, _, h, _, _ => by simp [Robinson.solve] at h
  | _ + 1, [], _, h, _, _ => by simp [Robinson.solve] at h
  | n + 1, (s, t) :: rest, acc, h, θ, hu => by
    have hst : interp θ s = interp θ t := hu (s, t) (by simp)
    have hrest : IUnifies θ rest := fun p hp => hu p (by simp [hp])
    simp only [Robinson.solve] at h
    split at h
    · exact solve_clash_no_iunifier n rest acc h θ hrest
    · rename_i hne
      split at h
      · rename_i v u
        split at h
        · cases h
        · exact solve_clash_no_iunifier n _ _ h θ (iunifies_replace hst hrest)
      · rename_i u v _
        split at h
        · cases h
        · exact solve_clash_no_iunifier n _ _ h θ (iunifies_replace hst.symm hrest)
      · rename_i f as g bs
        split at h
        · rename_i hfg
          obtain ⟨_, hl, hk⟩ := interp_app_inj hst
          refine solve_clash_no_iunifier n _ _ h θ ?_
          intro p hp
          rw [List.mem_append] at hp
          rcases hp with hp | hp
          · exact interp_args_ext hl hk p hp
          · exact hrest p hp
        · rename_i hfg
          exact interp_app_ne hfg hst
      · rename_i h1 h2 h3
        exact hne (interp_nonapp_inj (fun v hv => h1 v hv) (fun v hv => h2 v hv) h3 hst)

theorem robinson_clash_no_iunifier {n : Nat} {a b : Term}
    (h : Robinson.solve n [(a, b)] [] = .clash) : ¬ ∃ θ : IAsg, interp θ a = interp θ b := by
  rintro ⟨θ, hθ⟩
  refine solve_clash_no_iunifier n _ _ h θ ?_
  intro p hp
  simp only [List.mem_singleton] at hp
  subst hp
  exact hθ

/-! ### (3) environments -/

/-- θ solves every equation `v = t` of the environment, in trees -/
def ISol (e : Env) (θ : IAsg) : Prop := ∀ v t, e.lookup v = some t → θ v = interp θ t

theorem resolve_isol {θ : IAsg} : ∀ {n : Nat} {e : Env} {t t' : Term},
    resolve n e t = some t' → ISol e θ → interp θ t' = interp θ t
  | 0, e, .var v, t', h, _ => by simp [resolve] at h
  | n + 1, e, .var v, t', h, hs => by
    simp only [resolve] at h
    split at h
    · simp at h; subst h; rfl
    · rename_i t2 hl
      rw [resolve_isol (n := n) h hs]
      simp only [interp]
      exact (hs v t2 hl).symm
  | _, e, .atom s, t', h, _ => by simp [resolve] at h; subst h; rfl
  | _, e, .int s, t', h, _ => by simp [resolve] at h; subst h; rfl
  | _, e, .flt s, t', h, _ => by simp [resolve] at h; subst h; rfl
  | _, e, .str s, t', h, _ => by simp [resolve] at h; subst h; rfl
  | _, e, .app f as, t', h, _ => by simp [resolve] at h; subst h; rfl

theorem isol_of_bind {e : Env} {v : Nat} {t : Term} {θ : IAsg} (hv : e.lookup v = none)
    (h : ISol (e.bind v t) θ) : ISol e θ ∧ θ v = interp θ t := by
  constructor
  · intro w s hw
    apply h w s
    rw [Env.lookup_bind]
    by_cases hvw : v = w
    · subst hvw; rw [hv] at hw; cases hw
    · simp [hvw, hw]
  · apply h v t
    simp [Env.lookup_bind]

mutual
  /-- soundness of one successful unification (checked or unchecked) in the tree model -/
  theorem unify_isound : ∀ (n : Nat) (oc : Bool) (e : Env) (x y : Term) (e' : Env),
      unify n oc e x y = some (e', .ok) → ∀ θ, ISol e' θ → ISol e θ ∧ interp θ x = interp θ y
    | 0, _, _, _, _, _, h, _, _ => by simp [unify] at h
    | n + 1, oc, e, x, y, e', h, θ, hs => by
      simp only [unify] at h
      split at h
      · rename_i x' y' hx hy
        -- it suffices to relate the resolved terms
        suffices hsuff : ISol e θ ∧ interp θ x' = interp θ y' by
          refine ⟨hsuff.1, ?_⟩
          rw [← resolve_isol hx hsuff.1, ← resolve_isol hy hsuff.1]
          exact hsuff.2
        have hbind : ∀ v, e.lookup v = none → some (e.bind v y', Res.ok) = some (e', Res.ok) →
            ISol e θ ∧ interp θ (.var v) = interp θ y' := by
          intro v hv hh
          simp only [Option.some.injEq, Prod.mk.injEq, and_true] at hh
          subst hh
          exact isol_of_bind hv hs
        split at h
        · rename_i v
          have hv : e.lookup v = none := resolve_var_unbound n e x v hx
          split at h
          · rename_i heq
            simp only [Option.some.injEq, Prod.mk.injEq, and_true] at h
            subst h
            exact ⟨hs, by rw [heq]⟩
          · split at h
            · split at h
              · simp at h
              · simp at h
              · exact hbind v hv h
            · exact hbind v hv h
        · have := unify_isound n oc e _ x' e' h θ hs
          exact ⟨this.1, this.2.symm⟩
        · rename_i f as g bs
          split at h
          · simp at h
          · rename_i hfg
            have hfg' : f = g := Classical.not_not.mp hfg
            subst hfg'
            split at h
            · simp at h
            · rename_i hl
              have hl' : as.length = bs.length := Classical.not_not.mp hl
              have := unifyArgs_isound n oc e as bs e' h θ hs
              exact ⟨this.1, interp_app_congr hl' this.2⟩
        · split at h
          · rename_i heq
            simp only [Option.some.injEq, Prod.mk.injEq, and_true] at h
            subst h
            exact ⟨hs, by rw [heq]⟩
          · simp at h
      · simp at h
  theorem unifyArgs_isound : ∀ (n : Nat) (oc : Bool) (e : Env) (xs ys : Args) (e' : Env),
      unifyArgs n oc e xs ys = some (e', .ok) →
      ∀ θ, ISol e' θ → ISol e θ ∧ ∀ i, interpArgs θ xs i = interpArgs θ ys i
    | 0, _, _, _, _, _, h, _, _ => by simp [unifyArgs] at h
    | n + 1, oc, e, .nil, .nil, e', h, θ, hs => by
      simp only [unifyArgs, Option.some.injEq, Prod.mk.injEq, and_true] at h
      subst h
      exact ⟨hs, fun _ => rfl⟩
    | n + 1, oc, e, .nil, .cons _ _, e', h, _, _ => by simp [unifyArgs] at h
    | n + 1, oc, e, .cons _ _, .nil, e', h, _, _ => by simp [unifyArgs] at h
    | n + 1, oc, e, .cons a as, .cons b bs, e', h, θ, hs => by
      simp only [unifyArgs] at h
      split at h
      · simp at h
      · rename_i e1 h1
        have ha := unifyArgs_isound n oc e1 as bs e' h θ hs
        have hu := unify_isound n oc e a b e1 h1 θ ha.1
        refine ⟨hu.1, fun i => ?_⟩
        cases i with
        | zero => simp only [interpArgs]; exact hu.2
        | succ i => simp only [interpArgs]; exact ha.2 i
      · rename_i e1 r1 hne h1
        simp only [Option.some.injEq, Prod.mk.injEq] at h
        exact absurd h.2 hne
end

/-! ### (4) every environment the VM can build has an infinite-tree solution -/

theorem resolve_nonvar {t : Term} (ht : ∀ w, t ≠ .var w) (n : Nat) (e : Env) :
    resolve n e t = some t := by
  cases t with
  | var w => exact absurd rfl (ht w)
  | _ => simp [resolve]

/-- fuel monotonicity of `resolve` -/
theorem resolve_mono : ∀ {n m : Nat} {e : Env} {t r : Term},
    resolve n e t = some r → n ≤ m → resolve m e t = some r
  | 0, _, e, .var v, r, h, _ => by simp [resolve] at h
  | n + 1, 0, e, .var v, r, _, hm => by omega
  | n + 1, m + 1, e, .var v, r, h, hm => by
    simp only [resolve] at h ⊢
    split at h
    · exact h
    · exact resolve_mono h (by omega)
  | _, _, e, .atom s, r, h, _ => by simpa [resolve] using h
  | _, _, e, .int s, r, h, _ => by simpa [resolve] using h
  | _, _, e, .flt s, r, h, _ => by simpa [resolve] using h
  | _, _, e, .str s, r, h, _ => by simpa [resolve] using h
  | _, _, e, .app f as, r, h, _ => by simpa [resolve] using h

/-- the result of `resolve` does not depend on the fuel -/
theorem resolve_det {n m : Nat} {e : Env} {t r r' : Term}
    (h : resolve n e t = some r) (h' : resolve m e t = some r') : r = r' := by
  have h1 := resolve_mono h (Nat.le_max_left n m)
  have h2 := resolve_mono h' (Nat.le_max_right n m)
  rw [h1] at h2
  exact Option.some.inj h2

/-- variable chains end: resolving a variable terminates -/
def ChainOK (e : Env) : Prop := ∀ v, ∃ n r, resolve n e (.var v) = some r

theorem chainOK_nil : ChainOK [] := fun v => ⟨1, .var v, by simp [resolve, Env.lookup]⟩

theorem ChainOK.resolves {e : Env} (h : ChainOK e) (t : Term) : ∃ n r, resolve n e t = some r := by
  cases t with
  | var v => exact h v
  | atom s => exact ⟨0, .atom s, by simp [resolve]⟩
  | int s => exact ⟨0, .int s, by simp [resolve]⟩
  | flt s => exact ⟨0, .flt s, by simp [resolve]⟩
  | str s => exact ⟨0, .str s, by simp [resolve]⟩
  | app f as => exact ⟨0, .app f as, by simp [resolve]⟩

/-- binding ANY variable to a term whose own chain ends under the new environment keeps chains finite -/
theorem chainOK_bind_of_resolves {e : Env} (h : ChainOK e) (v : Nat) (t : Term)
    (ht : ∃ n r, resolve n (e.bind v t) t = some r) : ChainOK (e.bind v t) := by
  have key : ∀ (n : Nat) (t0 r : Term), resolve n e t0 = some r →
      ∃ n' r', resolve n' (e.bind v t) t0 = some r' := by
    intro n
    induction n with
    | zero =>
      intro t0 r h0
      cases t0 with
      | var w => simp [resolve] at h0
      | atom s => exact ⟨0, .atom s, by simp [resolve]⟩
      | int s => exact ⟨0, .int s, by simp [resolve]⟩
      | flt s => exact ⟨0, .flt s, by simp [resolve]⟩
      | str s => exact ⟨0, .str s, by simp [resolve]⟩
      | app f as => exact ⟨0, .app f as, by simp [resolve]⟩
    | succ n ih =>
      intro t0 r h0
      cases t0 with
      | var w =>
        by_cases hw : v = w
        · subst hw
          obtain ⟨nt, rt, hrt⟩ := ht
          exact ⟨nt + 1, rt, by simp only [resolve, Env.lookup_bind, if_true]; exact hrt⟩
        · simp only [resolve] at h0
          split at h0
          · rename_i hl
            exact ⟨1, .var w, by simp [resolve, Env.lookup_bind, hw, hl]⟩
          · rename_i t2 hl
            obtain ⟨n', r', h'⟩ := ih t2 r h0
            exact ⟨n' + 1, r', by simp only [resolve, Env.lookup_bind, hw, if_false, hl]; exact h'⟩
      | atom s => exact ⟨0, .atom s, by simp [resolve]⟩
      | int s => exact ⟨0, .int s, by simp [resolve]⟩
      | flt s => exact ⟨0, .flt s, by simp [resolve]⟩
      | str s => exact ⟨0, .str s, by simp [resolve]⟩
      | app f as => exact ⟨0, .app f as, by simp [resolve]⟩
  intro w
  obtain ⟨n, r, hr⟩ := h w
  exact key n _ r hr

/-- (re)binding ANY variable — bound already or not — to a NON-variable term keeps chains finite -/
theorem chainOK_bind_nonvar {e : Env} (h : ChainOK e) (v : Nat) (t : Term) (ht : ∀ w, t ≠ .var w) :
    ChainOK (e.bind v t) :=
  chainOK_bind_of_resolves h v t ⟨0, t, resolve_nonvar ht 0 _⟩

/-- binding a variable to a DIFFERENT variable that is unbound keeps chains finite -/
theorem chainOK_bind_unbound_var {e : Env} (h : ChainOK e) (v w : Nat) (hw : e.lookup w = none)
    (hvw : w ≠ v) : ChainOK (e.bind v (.var w)) :=
  chainOK_bind_of_resolves h v (.var w)
    ⟨1, .var w, by simp [resolve, Env.lookup_bind, Ne.symm hvw, hw]⟩

/-- what `unify` binds: an unbound variable to a resolved term different from it -/
theorem chainOK_bind_resolved {e : Env} (h : ChainOK e) (v : Nat) (y' : Term)
    (hy : ∀ w, y' = .var w → e.lookup w = none) (hne : y' ≠ .var v) : ChainOK (e.bind v y') := by
  cases y' with
  | var w =>
    exact chainOK_bind_unbound_var h v w (hy w rfl) (by intro hh; exact hne (by rw [hh]))
  | atom _ => exact chainOK_bind_nonvar h v _ (by intro w; simp)
  | int _ => exact chainOK_bind_nonvar h v _ (by intro w; simp)
  | flt _ => exact chainOK_bind_nonvar h v _ (by intro w; simp)
  | str _ => exact chainOK_bind_nonvar h v _ (by intro w; simp)
  | app _ _ => exact chainOK_bind_nonvar h v _ (by intro w; simp)

mutual
  theorem unify_chainOK : ∀ (n : Nat) (e : Env) (x y : Term) (e' : Env) (r : Res),
      ChainOK e → unify n false e x y = some (e', r) → ChainOK e'
    | 0, _, _, _, _, _, _, h => by simp [unify] at h
    | n + 1, e, x, y, e', r, hc, h => by
      simp only [unify] at h
      split at h
      · rename_i x' y' hx hy
        split at h
        · rename_i v
          split at h
          · simp only [Option.some.injEq, Prod.mk.injEq] at h; exact h.1 ▸ hc
          · rename_i hne
            simp only [Bool.false_eq_true, if_false, Option.some.injEq, Prod.mk.injEq] at h
            exact h.1 ▸ chainOK_bind_resolved hc v y'
              (fun w hw => resolve_var_unbound n e y w (hw ▸ hy)) hne
        · exact unify_chainOK n e _ x' e' r hc h
        · split at h
          · simp only [Option.some.injEq, Prod.mk.injEq] at h; exact h.1 ▸ hc
          · split at h
            · simp only [Option.some.injEq, Prod.mk.injEq] at h; exact h.1 ▸ hc
            · exact unifyArgs_chainOK n e _ _ e' r hc h
        · simp only [Option.some.injEq, Prod.mk.injEq] at h; exact h.1 ▸ hc
      · simp at h
  theorem unifyArgs_chainOK : ∀ (n : Nat) (e : Env) (xs ys : Args) (e' : Env) (r : Res),
      ChainOK e → unifyArgs n false e xs ys = some (e', r) → ChainOK e'
    | 0, _, _, _, _, _, _, h => by simp [unifyArgs] at h
    | n + 1, e, .nil, .nil, e', r, hc, h => by
      simp only [unifyArgs, Option.some.injEq, Prod.mk.injEq] at h; exact h.1 ▸ hc
    | n + 1, e, .nil, .cons _ _, e', r, hc, h => by
      simp only [unifyArgs, Option.some.injEq, Prod.mk.injEq] at h; exact h.1 ▸ hc
    | n + 1, e, .cons _ _, .nil, e', r, hc, h => by
      simp only [unifyArgs, Option.some.injEq, Prod.mk.injEq] at h; exact h.1 ▸ hc
    | n + 1, e, .cons a as, .cons b bs, e', r, hc, h => by
      simp only [unifyArgs] at h
      split at h
      · simp at h
      · rename_i e1 h1
        exact unifyArgs_chainOK n e1 as bs e' r (unify_chainOK n e a b e1 .ok hc h1) h
      · rename_i e1 r1 _ h1
        simp only [Option.some.injEq, Prod.mk.injEq] at h
        exact h.1 ▸ unify_chainOK n e a b e1 r1 hc h1
end

open Classical in
/-- the fully resolved form of `t` under `e` (`t` itself when its chain does not end) -/
noncomputable def R (e : Env) (t : Term) : Term :=
  if h : ∃ r n, resolve n e t = some r then Classical.choose h else t

theorem R_spec {e : Env} {t : Term} (h : ∃ n r, resolve n e t = some r) :
    ∃ n, resolve n e t = some (R e t) := by
  have h' : ∃ r n, resolve n e t = some r := by
    obtain ⟨n, r, hr⟩ := h
    exact ⟨r, n, hr⟩
  unfold R
  rw [dif_pos h']
  exact Classical.choose_spec h'

theorem R_eq {e : Env} {t r : Term} {n : Nat} (h : resolve n e t = some r) : R e t = r := by
  obtain ⟨m, hm⟩ := R_spec ⟨n, r, h⟩
  exact resolve_det hm h

theorem R_nonvar {e : Env} {t : Term} (ht : ∀ w, t ≠ .var w) : R e t = t :=
  R_eq (resolve_nonvar ht 0 e)

theorem R_unbound {e : Env} {v : Nat} (hv : e.lookup v = none) : R e (.var v) = .var v :=
  R_eq (n := 1) (by simp [resolve, hv])

theorem R_bound {e : Env} (h : ChainOK e) {v : Nat} {t : Term} (hv : e.lookup v = some t) :
    R e (.var v) = R e t := by
  obtain ⟨n, hn⟩ := R_spec (h.resolves t)
  exact R_eq (n := n + 1) (by simp only [resolve, hv]; exact hn)

/-- `i`-th argument -/
def Args.nth : Args → Nat → Option Term
  | .nil, _ => none
  | .cons t _, 0 => some t
  | .cons _ ts, i + 1 => Args.nth ts i

/-- the tree of `t` under the environment, read off path by path -/
noncomputable def look (e : Env) : List Nat → Term → Option Lab
  | [], t =>
    match R e t with
    | .var _ => some (.atom "")
    | .atom s => some (.atom s)
    | .int i => some (.int i)
    | .flt b => some (.flt b)
    | .str n => some (.str n)
    | .app f as => some (.app f as.length)
  | i :: p, t =>
    match R e t with
    | .app _ as =>
      match Args.nth as i with
      | some ti => look e p ti
      | none => none
    | _ => none

theorem look_congr {e : Env} {t t' : Term} (h : R e t = R e t') (p : List Nat) :
    look e p t = look e p t' := by
  cases p with
  | nil => simp only [look, h]
  | cons i p => simp only [look, h]

/-- the canonical assignment of an environment -/
noncomputable def canon (e : Env) : IAsg := fun v p => look e p (.var v)

mutual
  theorem interp_canon (e : Env) : ∀ (t : Term) (p : List Nat), interp (canon e) t p = look e p t
    | .var _, _ => rfl
    | .atom s, p => by
      cases p <;> simp [interp, look, R_nonvar (e := e) (t := .atom s) (by intro w; simp)]
    | .int s, p => by
      cases p <;> simp [interp, look, R_nonvar (e := e) (t := .int s) (by intro w; simp)]
    | .flt s, p => by
      cases p <;> simp [interp, look, R_nonvar (e := e) (t := .flt s) (by intro w; simp)]
    | .str s, p => by
      cases p <;> simp [interp, look, R_nonvar (e := e) (t := .str s) (by intro w; simp)]
    | .app f as, p => by
      have hR : R e (.app f as) = .app f as := R_nonvar (by intro w; simp)
      cases p with
      | nil => simp [interp, look, hR]
      | cons i p =>
        simp only [interp, look, hR, node_cons]
        exact interpArgs_canon e as i p
  theorem interpArgs_canon (e : Env) : ∀ (as : Args) (i : Nat) (p : List Nat),
      interpArgs (canon e) as i p =
        match Args.nth as i with
        | some ti => look e p ti
        | none => none
    | .nil, _, _ => rfl
    | .cons t _, 0, p => by simp only [interpArgs, Args.nth]; exact interp_canon e t p
    | .cons _ ts, i + 1, p => by simp only [interpArgs, Args.nth]; exact interpArgs_canon e ts i p
end

theorem canon_isol {e : Env} (h : ChainOK e) : ISol e (canon e) := by
  intro v t hv
  funext p
  rw [interp_canon]
  exact look_congr (R_bound h hv) p

theorem exists_isol {e : Env} (h : ChainOK e) : ∃ θ : IAsg, ISol e θ := ⟨canon e, canon_isol h⟩

/-! ### (5) the idempotent solution of an acyclic environment is general in the tree model -/

def IGeneral (e : Env) (σ : Subst) : Prop := ∀ θ : IAsg, ISol e θ → ∀ v, θ v = interp θ (σ v)

theorem igeneral_nil : IGeneral [] (fun v => .var v) := fun _ _ _ => rfl

theorem interp_subst_general {e : Env} {σ : Subst} {θ : IAsg} (h : IGeneral e σ) (hs : ISol e θ)
    (t : Term) : interp θ (t.subst σ) = interp θ t := by
  rw [interp_subst]
  have : (fun v => interp θ (σ v)) = θ := funext fun v => (h θ hs v).symm
  rw [this]

/-- same σ' as in `isMGU_bind` -/
theorem igeneral_bind {e : Env} {σ : Subst} (v : Nat) (t : Term) (h : IGeneral e σ)
    (hv : e.lookup v = none) :
    IGeneral (e.bind v t) (fun u => (σ u).subst (upd v (t.subst σ))) := by
  intro θ hθ u
  obtain ⟨hθe, hθv⟩ := isol_of_bind hv hθ
  show θ u = interp θ ((σ u).subst (upd v (t.subst σ)))
  rw [interp_subst]
  have : (fun w => interp θ (upd v (t.subst σ) w)) = θ := by
    funext w
    simp only [upd]
    by_cases hw : w = v
    · subst hw
      simp only [if_true]
      rw [interp_subst_general h hθe, hθv]
    · simp [hw, interp]
  rw [this]
  exact h θ hθe u

mutual
  /-- the tree of a term depends only on the variables that occur in it -/
  theorem interp_congr_not_hasVar {θ θ' : IAsg} {v : Nat} (hθ : ∀ w, w ≠ v → θ w = θ' w) :
      ∀ t : Term, t.hasVar v = false → interp θ t = interp θ' t
    | .var w, h => by
      simp only [Term.hasVar, beq_eq_false_iff_ne] at h
      simp only [interp]
      exact hθ w h
    | .atom _, _ => rfl
    | .int _, _ => rfl
    | .flt _, _ => rfl
    | .str _, _ => rfl
    | .app f as, h => by
      simp only [Term.hasVar] at h
      simp only [interp]
      exact node_congr (interpArgs_congr_not_hasVar hθ as h)
  theorem interpArgs_congr_not_hasVar {θ θ' : IAsg} {v : Nat} (hθ : ∀ w, w ≠ v → θ w = θ' w) :
      ∀ (as : Args), as.hasVar v = false → ∀ i, interpArgs θ as i = interpArgs θ' as i
    | .nil, _, _ => rfl
    | .cons t _, h, 0 => by
      simp only [Args.hasVar, Bool.or_eq_false_iff] at h
      simp only [interpArgs]
      exact interp_congr_not_hasVar hθ t h.1
    | .cons _ ts, h, i + 1 => by
      simp only [Args.hasVar, Bool.or_eq_false_iff] at h
      simp only [interpArgs]
      exact interpArgs_congr_not_hasVar hθ ts h.2 i
end

/-- REbinding a variable v (the VM rebinds its context variable 0 at every call) that occurs nowhere
    else: no bound term of e mentions v, no σ u (u ≠ v) mentions v, the new term t has no variables -/
theorem igeneral_rebind {e : Env} {σ : Subst} (v : Nat) (t : Term) (h : IGeneral e σ)
    (hran : ∀ w s, e.lookup w = some s → s.hasVar v = false)
    (hσ : ∀ u, u ≠ v → (σ u).hasVar v = false) (ht : ∀ x, t.hasVar x = false) :
    IGeneral (e.bind v t) (fun u => if u = v then t else σ u) := by
  have _ := ht
  intro θ hθ u
  by_cases hu : u = v
  · subst hu
    simp only [if_true]
    exact hθ u t (by simp [Env.lookup_bind])
  · simp only [hu, if_false]
    -- θ with v sent to the tree of its OLD binding solves e
    let θ' : IAsg := fun w =>
      if w = v then (match e.lookup v with | some s => interp θ s | none => θ v) else θ w
    have hagree : ∀ w, w ≠ v → θ' w = θ w := by
      intro w hw
      simp [θ', hw]
    have hs' : ISol e θ' := by
      intro w s hw
      rw [interp_congr_not_hasVar hagree s (hran w s hw)]
      by_cases hwv : w = v
      · subst hwv
        simp [θ', hw]
      · rw [hagree w hwv]
        exact hθ w s (by simp [Env.lookup_bind, Ne.symm hwv, hw])
    have := h θ' hs' u
    rw [hagree u hu, interp_congr_not_hasVar hagree (σ u) (hσ u hu)] at this
    exact this

end PrologVerif.RefineITree
