"""Per-property configuration of bin/check (streams, sizes, trusted base). See DESIGN.md §6."""

COMMON_TRUSTED = [
    "Lean 4.33.0 kernel (thorough tier: re-checked with leanchecker); axioms allowed in property theorems: propext, Classical.choice, Quot.sound only (audited on every run by PrologVerif/Audit.lean); no sorry/admit/native_decide/bv_decide/own axioms (grep on every run)",
    "hand-written Lean model mirrors the Go code: CHECKED by the correspondence streams (differential testing, bounded by the generators; distributions are in this file), not proved",
    "/verif/extract (regenerated facts / translated definitions) and /verif/harness (in-process runner, canonicalisation: variables renamed by first occurrence, map-ordered output sorted, error context dropped)",
    "Go compiler/runtime and standard library behave as documented",
]

NOT_APPLICABLE = {}

PROPS = {
    "C16": dict(
        level_text="Proof: every relational built-in (atom_length, atom_concat, sub_atom, atom_chars, atom_codes, char_code, between, succ, functor, arg, =.., nth0, nth1, length, append, member, select) is modelled in Lean as a function from the resolved argument terms to the ISO error or the ordered list of answer tuples, and specified independently as a relation on tuples (Spec/Relations). Kernel-checked for ALL argument terms: the answers of the eight text/integer predicates are exactly the tuples of the relation that are instances of the call, each once (Exact: sound, complete, nodup), with the ISO error table (ErrorsOk) and monotonicity under instantiation (C16_monotone); functor/3 in all modes, arg/3, =../2, nth0/nth1 on arbitrary non-ground data (most-general-unifier law of the model's unifier proved), length/2 for proper lists, generating a list of given length, and the infinite enumeration per prefix; soundness AND completeness of member/2, select/3 (SLD resolution over the clauses regenerated from bootstrap.pl: validity of the clauses for the relations + a lifting lemma) and of append/3 (both code paths) for all arguments, partial lists and non-ground elements included; the UTF-8 byte-level loops of the Go code equal the code-point splits (text_is_chars). The model is tied to the Go code by the c16.rel stream (small-scope exhaustive + random, answers compared as ordered lists) with the executable specification as brute-force oracle.",
        level_note="Trusted: Lean kernel; the hand-written model (checked by differential runs, not proved); harness canonicalisation; Lean core's UTF-8 library as the definition of UTF-8. Open (stated, not proved): that member/2, select/3 and append/3 splitting a list answer no position twice (their soundness and completeness are proved; the stream's oracle compares the answer multiset with the positions by brute force). Unification with non-ground data uses a Robinson unifier with fuel whose soundness and most-general-unifier property are proved; theorems about it assume the fuel sufficed (UnifyDefined/SldDefined) — an executable side condition that the driver evaluates on every case (never violated). Cyclic answers (the engine has no occurs check) are outside the model.",
        technique="Lean 4 proofs about an executable model of each builtin (candidate enumeration + verified one-way matcher / most general unifier, SLD soundness over regenerated clauses) against independent relational specifications + small-scope exhaustive model/implementation correspondence with a brute-force oracle",
        lean_module="PrologVerif.Properties.C16",
        ns="PrologVerif.C16",
        streams=[dict(name="c16.rel", quick=30000, thorough=100000)],
        rule="calls of the 17 predicates: ALL atoms/lists up to length 2 (quick; the next scope is sampled) / 3 (thorough: exhaustive) over {a, b, e-acute, euro sign, emoji, empty} x ALL instantiation patterns of the tuples of the relation plus non-members, non-linear patterns, byte-length decoys, ill-typed and out-of-range arguments; integer grids near 0 and near minInt/maxInt; random longer texts over the UTF-8 length boundaries (incl. U+FFFD, surrogate codes); infinite enumerations cut after k answers; non-trivial = at least 2 answers or multi-byte text in the call; distinct = distinct case text",
        trusted=[
            "modelled (hand-written, correspondence-checked): engine/builtin.go AtomLength, AtomConcat, SubAtom, checkPositiveInteger, AtomChars, AtomCodes, CharCode, Between, Succ, Functor, Arg, Univ, Nth0/Nth1/nth, Length, lengthRundown, lengthAddendum, SkipMaxList, Append, appendLists; engine/iterator.go ListIterator (acyclic lists); engine/compound.go charList/codeList; engine/malloc.go makeSlice (as a size threshold); Go's range-over-string / []rune conversion (Model/Utf8, proved equal to code-point splitting)",
            "regenerated from source on every run: the clauses of member/2 and select/3 = bootstrap.pl read by the real parser (Generated/Bootstrap.lean); C16_bootstrap_tie is re-proved against it by kernel evaluation and the model runs SLD resolution over exactly these clauses",
            "not modelled: Env.Unify itself (replaced by a verified one-way matcher when one side is ground and by a Robinson unifier whose soundness and most-general-unifier property are proved, up to fuel); cyclic terms; the atom table (atoms are their text — defect D22 was exactly a violation of this); host memory limits (allocation requests between 2^20 and 2^44 cells are not generated)",
            "Lean core's String/UTF-8 library (String.toList, String.ofList, String.utf8EncodeChar, ByteArray.utf8DecodeChar? and their lemmas) as the definition of UTF-8",
        ],
        modelled={"hand_modelled": ["AtomLength", "AtomConcat", "SubAtom", "AtomChars", "AtomCodes", "CharCode", "Between", "Succ", "Functor", "Arg", "Univ", "nth", "Length", "lengthRundown", "lengthAddendum", "SkipMaxList", "Append", "appendLists", "ListIterator", "range-over-string", "[]rune(s)"],
                  "regenerated": ["bootstrap.pl member/2, select/3"], "observed_only": ["Env.Unify on non-ground data", "makeSlice memory check", "atom table"]},
        assumptions=["argument terms are resolved and acyclic; integer constants lie in the 64-bit range",
                     "calls on which the missing occurs check of the engine would build a cyclic term are excluded (the generators are NSTO by construction)",
                     "theorems about unification with non-ground data: the Robinson unifier of the model finished within its fuel (UnifyDefined/SldDefined; trivially true when one side is ground; checked by the driver on every case of the stream)"],
    ),
    "C18": dict(
        level_text="Proof: the operator-table state machine (Op/validateOp/CurrentOp and the operators methods) is modelled in Lean; for ALL histories of op/3 calls with arbitrary argument terms the ISO invariant (C18_inv), atomicity of failed updates (C18_atomic), the exact effect of successful updates (C18_update_exact: latest wins, 0 removes, other classes kept) and exactness of current_op/3 (C18_current_op_exact) are kernel-checked theorems, the default table being regenerated from bootstrap.pl. The model is tied to the Go code by the c18.hist correspondence stream (impl vs model, plus an independent executable ISO specification as oracle, plus reader/writer probes).",
        level_note="Trusted: Lean kernel; the hand-written model of Op/validateOp/CurrentOp (checked by differential runs, not proved); harness canonicalisation; reader/writer use of the table is only probed, not modelled. Pattern variables of current_op/3 assumed pairwise distinct.",
        technique="Lean 4 invariant proof by induction over op/3 histories + regenerated default table + model/implementation correspondence",
        lean_module="PrologVerif.Properties.C18",
        ns="PrologVerif.C18",
        streams=[dict(name="c18.hist", quick=3000, thorough=40000)],
        rule="histories of 1..8 operations over op/3 (valid and invalid priorities, specifiers, names, lists with invalid members, partial lists, special names , | [] {}), current_op/3 in every instantiation pattern, and a reader/writer probe; generated from one PRNG (VERIF_SEED); non-trivial = at least two op/3 calls in the history changed the table, or one changed it and another was rejected; distinct = distinct case text",
        trusted=[
            "modelled (hand-written, correspondence-checked): engine/builtin.go Op, validateOp, appendUniqNewAtom, CurrentOp; engine/parser.go operators.define/remove/definedInClass; ListIterator as used by Op",
            "regenerated from source on every run: the default operator table = the op/3 directives of bootstrap.pl read by the real parser (Generated/Bootstrap.lean); C18_default_valid is re-proved against it by kernel evaluation",
            "not modelled: the reader and writer themselves (only probed: 'a n b', 'n a', 'a n' parse / writeq(n(a,b)), writeq(n(a)) print according to the table); Go map iteration order (answers compared as sets)",
        ],
        modelled={"hand_modelled": ["Op", "validateOp", "appendUniqNewAtom", "CurrentOp", "operators.define", "operators.remove", "operators.definedInClass"],
                  "regenerated": ["bootstrap.pl op/3 directives"], "observed_only": ["Parser (probe)", "WriteCompound (probe)"]},
        assumptions=["pattern variables of current_op/3 calls are pairwise distinct (the model matches argument-wise)"],
    ),
}
