/-
  Refine — the VM model refines the reference interpreter (property C01).

  This file: the FRAGMENT of programs/queries the refinement theorem covers (stage 1, "Horn"), and
  what the model's compiler makes of the clauses of the fragment:

    * `toRep` always produces well-formed encodings (`WF`) whose abstraction is the term itself;
    * the body goals the compiler iterates over (`seqGoals`) are the reference's `conjuncts`;
    * a clause of the fragment compiles to exactly one `Clause` with the layout of
      `Activation.rule_clause_layout` / `fact_clause_layout`.
-/
import PrologVerif.Proofs.Activation
import PrologVerif.Spec.SLD
namespace PrologVerif.Refine
open PrologVerif PrologVerif.VM PrologVerif.DecompileCompile

/-! ### pointwise relation of two lists -/

inductive Forall2 {α β : Type} (R : α → β → Prop) : List α → List β → Prop
  | nil : Forall2 R [] []
  | cons {a : α} {b : β} {as : List α} {bs : List β} : R a b → Forall2 R as bs → Forall2 R (a :: as) (b :: bs)

theorem Forall2.length_eq {α β : Type} {R : α → β → Prop} {as : List α} {bs : List β} (h : Forall2 R as bs) :
    as.length = bs.length := by
  induction h with
  | nil => rfl
  | cons _ _ ih => simp [ih]

theorem Forall2.append {α β : Type} {R : α → β → Prop} {as as' : List α} {bs bs' : List β}
    (h : Forall2 R as bs) (h' : Forall2 R as' bs') : Forall2 R (as ++ as') (bs ++ bs') := by
  induction h with
  | nil => exact h'
  | cons hd _ ih => exact .cons hd ih

theorem Forall2.imp_mem {α β : Type} {R S : α → β → Prop} {as : List α} {bs : List β} (h : Forall2 R as bs)
    (hRS : ∀ a ∈ as, ∀ b, R a b → S a b) : Forall2 S as bs := by
  induction h with
  | nil => exact .nil
  | cons hd _ ih => exact .cons (hRS _ (by simp) _ hd) (ih (fun a ha => hRS a (by simp [ha])))

theorem Forall2.imp {α β : Type} {R S : α → β → Prop} {as : List α} {bs : List β} (h : Forall2 R as bs)
    (hRS : ∀ a b, R a b → S a b) : Forall2 S as bs := by
  induction h with
  | nil => exact .nil
  | cons hd _ ih => exact .cons (hRS _ _ hd) ih

theorem forall2_maps {α β γ : Type} {R : β → γ → Prop} (f : α → β) (g : α → γ) :
    ∀ l : List α, (∀ a ∈ l, R (f a) (g a)) → Forall2 R (l.map f) (l.map g)
  | [], _ => .nil
  | a :: l, h => .cons (h a (by simp)) (forall2_maps f g l (fun a' ha' => h a' (by simp [ha'])))

/-! ## the fragment -/

/-- names with a meaning of their own in the VM model (`VM.builtin`) or in the reference interpreter
    (control constructs, `SLD.builtin`, the library) -/
def reservedNames : List String :=
  ["call", "=", "unify_with_occurs_check", "\\+", "findall", "catch", "throw", "repeat", "var", "atom",
   "integer", "float", "compound", "between", "append", "compare", "atom_length", "assertz", "asserta",
   "!", ",", ";", "->", "true", "fail", "false", "\\=", "==", "\\==", "once", "nonvar", "callable",
   "atomic", "member", ":-", "."]

/-- `f/n` may be defined by the program: not reserved and not defined by bootstrap.pl -/
def userPred (f : String) (n : Nat) : Bool :=
  !reservedNames.contains f && (lookupProc bootState f n).isNone

/-- a goal of the Horn fragment: `true`, `=`/2 or a call of a user predicate (defined or not) -/
def hornGoal : Term → Bool
  | .atom f => f == "true" || userPred f 0
  | .app f as => decide (1 ≤ as.length) && ((f == "=" && as.length == 2) || userPred f as.length)
  | _ => false

/-- a body (or query) of the Horn fragment: a conjunction, however nested, of Horn goals -/
def hornBody (b : Term) : Bool := (SLD.conjuncts b).all hornGoal

/-- a callable head with a user predicate name -/
def hornHead : Term → Bool
  | .atom f => userPred f 0
  | .app f as => decide (1 ≤ as.length) && userPred f as.length
  | _ => false

mutual
  /-- well-formed terms: a compound has at least one argument (what the reader produces) -/
  def wfT : Term → Bool
    | .app _ .nil => false
    | .app _ (.cons a as) => wfT a && wfAs as
    | _ => true
  def wfAs : Args → Bool
    | .nil => true
    | .cons t ts => wfT t && wfAs ts
end

/-- a clause of the Horn fragment -/
def hornClause (c : Term) : Bool :=
  wfT c && hornHead (SLD.headBody c).1 && hornBody (SLD.headBody c).2

/-- **the fragment (stage 1)**: Horn program, Horn query whose variables stay below the variables
    the VM draws (`St.nextVar` starts at 1000000; the driver shifts the query by 10) -/
structure HornFrag (prog : List Term) (query : Term) : Prop where
  clauses : ∀ c ∈ prog, hornClause c = true
  goal : hornBody query = true
  wf : wfT query = true
  small : SLD.maxVar query + 10 ≤ 1000000

/-- `call(G)` -/
def isCall1 : Term → Bool
  | .app "call" (.cons _ .nil) => true
  | _ => false

/-- the control constructs of stage 3 as goals: `call(G)`, `(C -> T ; E)`, `(C -> T)`, `once(G)`, `\\+ G` -/
def ctlGoal1 : Term → Bool
  | .app "call" (.cons _ .nil) => true
  | .app "once" (.cons _ .nil) => true
  | .app "\\+" (.cons _ .nil) => true
  | .app ";" (.cons (.app "->" (.cons _ (.cons _ .nil))) (.cons _ .nil)) => true
  | .app "->" (.cons _ (.cons _ .nil)) => true
  | _ => false

/-- `call(G, A1, …, Ak)`, 1 ≤ k ≤ 7: call/2 … call/8 (the Go engine defines call/1 … call/8; for more
    arguments the VM MODEL and the reference disagree, see `VmRefinesSldCtlFullStatement`) -/
def callNGoal : Term → Bool
  | .app "call" (.cons _ (.cons _ es)) => decide (es.length ≤ 6)
  | _ => false

/-- the first alternative of a disjunction that is run as a GOAL: callable and not `->`/2 — whatever
    its variables are bound to, the heads of the two if-then-else clauses of `;`/2 do not unify with
    the goal -/
def disjHead : Term → Bool
  | .atom _ => true
  | .app f as => !(f == "->" && as.length == 2)
  | _ => false

/-- a disjunction `(A ; B)` that is not an if-then-else, as a goal (a conjunct of a conjunction) -/
def disjGoal : Term → Bool
  | .app ";" (.cons a (.cons _ .nil)) => disjHead a
  | _ => false

/-- the control constructs as goals (the largest fragment): those of stage 3 (`ctlGoal1`),
    call/N, 2 ≤ N ≤ 8 (`callNGoal`), and the disjunction as a goal (`disjGoal`) -/
def ctlGoal : Term → Bool
  | .app "call" (.cons _ .nil) => true
  | .app "call" (.cons _ (.cons _ es)) => decide (es.length ≤ 6)
  | .app "once" (.cons _ .nil) => true
  | .app "\\+" (.cons _ .nil) => true
  | .app ";" (.cons (.app "->" (.cons _ (.cons _ .nil))) (.cons _ .nil)) => true
  | .app ";" (.cons a (.cons _ .nil)) => disjHead a
  | .app "->" (.cons _ (.cons _ .nil)) => true
  | _ => false

/-- a goal `arrive` sees (not the cut): a Horn goal, or — in the fragments with control constructs
    (`s = true`) — a control construct -/
def stepGoal (s : Bool) (t : Term) : Bool := hornGoal t || (s && ctlGoal t)

/-- a goal of the fragment: the cut or a `stepGoal` -/
def goalS (s : Bool) (t : Term) : Bool := t == .atom "!" || stepGoal s t

/-- a body with ONE alternative: a conjunction of goals of the fragment that is not itself a
    disjunction (a disjunction that is the whole body gives one clause per alternative, `dbodyS`) -/
def bodyS (s : Bool) (b : Term) : Bool := (SLD.conjuncts b).all (goalS s) && (SLD.disjuncts b).length == 1

theorem bodyS_all {s : Bool} {b : Term} (h : bodyS s b = true) : ∀ t ∈ SLD.conjuncts b, goalS s t = true := by
  simp only [bodyS, Bool.and_eq_true, List.all_eq_true] at h
  exact h.1

theorem bodyS_single {s : Bool} {b : Term} (h : bodyS s b = true) : (SLD.disjuncts b).length = 1 := by
  simp only [bodyS, Bool.and_eq_true, beq_iff_eq] at h
  exact h.2

theorem bodyS_mk {s : Bool} {b : Term} (h1 : ∀ t ∈ SLD.conjuncts b, goalS s t = true)
    (h2 : (SLD.disjuncts b).length = 1) : bodyS s b = true := by
  simp only [bodyS, Bool.and_eq_true, List.all_eq_true, beq_iff_eq]
  exact ⟨h1, h2⟩

/-- a body whose top-level disjuncts are bodies: what `call/1` may be given -/
def dbodyS (s : Bool) (b : Term) : Bool := (SLD.disjuncts b).all (bodyS s)

def clauseS (s : Bool) (c : Term) : Bool :=
  wfT c && hornHead (SLD.headBody c).1 && dbodyS s (SLD.headBody c).2

/-- a head the compiler accepts (any name but the list and the clause functor) -/
def headOK : Term → Bool
  | .atom _ => true
  | .app f as => decide (1 ≤ as.length) && f != "." && f != ":-"
  | _ => false

/-- a clause the compiler turns into one compiled clause, its body in the fragment: the clauses
    of the program (`clauseS`: with a user predicate name), the clause `call/1` compiles, and the
    control clauses of bootstrap.pl -/
def clauseC (s : Bool) (c : Term) : Bool :=
  wfT c && headOK (SLD.headBody c).1 && bodyS s (SLD.headBody c).2

structure FragS (s : Bool) (prog : List Term) (query : Term) : Prop where
  clauses : ∀ c ∈ prog, clauseS s c = true
  goal : dbodyS s query = true
  wf : wfT query = true
  nonvar : ∀ v, query ≠ .var v
  small : SLD.maxVar query + 10 ≤ 1000000

/-- a goal of the stage-2 fragment: a Horn goal or the cut -/
def cutGoal (t : Term) : Bool := t == .atom "!" || hornGoal t

/-- a body (or query) of the stage-2 fragment -/
def bodyOK (b : Term) : Bool := (SLD.conjuncts b).all cutGoal

/-- a clause of the stage-2 fragment -/
def clauseOK (c : Term) : Bool :=
  wfT c && hornHead (SLD.headBody c).1 && bodyOK (SLD.headBody c).2

/-- **the fragment (stage 2)**: stage 1 + `!` in clause bodies (and in the query) -/
structure CutFrag (prog : List Term) (query : Term) : Prop where
  clauses : ∀ c ∈ prog, clauseOK c = true
  goal : bodyOK query = true
  wf : wfT query = true
  small : SLD.maxVar query + 10 ≤ 1000000

theorem goalS_false (t : Term) : goalS false t = cutGoal t := by simp [goalS, stepGoal, cutGoal]

/-! ### fragments by a predicate `P` on the control goals

  The proofs work with `FragS true` (all control goals proved so far, `ctlGoal`); the named fragments
  of the stages are the instances `FragG P` for the control goals `P` of the stage. -/

def goalG (P : Term → Bool) (t : Term) : Bool := t == .atom "!" || (hornGoal t || P t)
def bodyG (P : Term → Bool) (b : Term) : Bool := (SLD.conjuncts b).all (goalG P)
def dbodyG (P : Term → Bool) (b : Term) : Bool := (SLD.disjuncts b).all (bodyG P)
def clauseG (P : Term → Bool) (c : Term) : Bool :=
  wfT c && hornHead (SLD.headBody c).1 && dbodyG P (SLD.headBody c).2

structure FragG (P : Term → Bool) (prog : List Term) (query : Term) : Prop where
  clauses : ∀ c ∈ prog, clauseG P c = true
  goal : dbodyG P query = true
  wf : wfT query = true
  nonvar : ∀ v, query ≠ .var v
  small : SLD.maxVar query + 10 ≤ 1000000

/-- **the fragment (stage 3)**: stage 2 + the control constructs `ctlGoal1` as goals of clause bodies,
    of the query and of the goals that are called: `call/1` (also as a variable in goal position),
    if-then-else, if-then, `once/1`, `\\+`/1; + disjunction at the top level of clause bodies, of the
    query and of called goals (`dbodyG`).  Decidable. -/
abbrev CtlFrag (prog : List Term) (query : Term) : Prop := FragG ctlGoal1 prog query
/-- (the name under which stage 3a was delivered) -/
abbrev CallFrag (prog : List Term) (query : Term) : Prop := FragG ctlGoal1 prog query
/-- **the fragment (stage 4a)**: stage 3 + `call/N`, 2 ≤ N ≤ 8, as a goal of clause bodies, of the
    query and of called goals. -/
abbrev CallNFrag (prog : List Term) (query : Term) : Prop :=
  FragG (fun t => ctlGoal1 t || callNGoal t) prog query

theorem ctlGoal1_sub {t : Term} (h : ctlGoal1 t = true) : ctlGoal t = true := by
  unfold ctlGoal1 at h
  split at h
  · rfl
  · rfl
  · rfl
  · rfl
  · simp [ctlGoal]
  · cases h

theorem callNGoal_sub {t : Term} (h : callNGoal t = true) : ctlGoal t = true := by
  unfold callNGoal at h
  split at h
  · simpa [ctlGoal] using h
  · cases h

theorem goalS_mono {t : Term} (h : goalS false t = true) (s : Bool) : goalS s t = true := by
  simp only [goalS, stepGoal, Bool.or_eq_true, Bool.and_eq_true, Bool.false_and, Bool.false_eq_true,
    or_false] at h ⊢
  rcases h with h | h
  · exact Or.inl h
  · exact Or.inr (Or.inl h)

theorem cutGoal_of_horn {t : Term} (h : hornGoal t = true) : cutGoal t = true := by
  simp [cutGoal, h]

theorem bodyOK_of_horn {b : Term} (h : hornBody b = true) : bodyOK b = true := by
  simp only [hornBody, bodyOK, List.all_eq_true] at h ⊢
  exact fun t ht => cutGoal_of_horn (h t ht)

theorem clauseOK_of_horn {c : Term} (h : hornClause c = true) : clauseOK c = true := by
  simp only [hornClause, clauseOK, Bool.and_eq_true] at h ⊢
  exact ⟨h.1, bodyOK_of_horn h.2⟩

theorem CutFrag.of_horn {prog : List Term} {query : Term} (h : HornFrag prog query) : CutFrag prog query :=
  ⟨fun c hc => clauseOK_of_horn (h.clauses c hc), bodyOK_of_horn h.goal, h.wf, h.small⟩

/-! ## `toRep` -/

theorem mkApp_wf (f : String) (rs : RepList) (h1 : rs.length ≥ 1) (h2 : WFs rs = true) :
    WF (mkApp f rs) = true := by
  unfold mkApp
  split
  · rename_i h tl
    simp only [WFs, Bool.and_eq_true] at h2
    split
    · simp [WF, WFs, RepList.length, h2.1]
    · rename_i es
      have := h2.2.1
      simp only [WF, Bool.and_eq_true, decide_eq_true_eq] at this
      simp [WF, WFs, RepList.length, h2.1, this.2]
    · rename_i es t
      have := h2.2.1
      simp only [WF, Bool.and_eq_true, decide_eq_true_eq] at this
      simp [WF, WFs, RepList.length, h2.1, this.1.2, this.2]
    · simp [WF, WFs, RepList.length, h2.1, h2.2.1]
  · simp [WF, h1, h2]

mutual
  theorem toRep_wf : ∀ t : Term, wfT t = true → WF (toRep t) = true
    | .var _, _ => rfl
    | .atom _, _ => rfl
    | .int _, _ => rfl
    | .flt _, _ => rfl
    | .str _, _ => rfl
    | .app f .nil, h => by simp [wfT] at h
    | .app f (.cons a as), h => by
      rw [toRep]
      exact mkApp_wf f _ (by simp [toReps, RepList.length]) (toReps_wf (.cons a as) (by simpa [wfT, wfAs] using h))
  theorem toReps_wf : ∀ as : Args, wfAs as = true → WFs (toReps as) = true
    | .nil, _ => rfl
    | .cons t ts, h => by
      simp only [wfAs, Bool.and_eq_true] at h
      simp [toReps, WFs, toRep_wf t h.1, toReps_wf ts h.2]
end

theorem abs_mkApp (f : String) (rs : RepList) : Rep.abs (mkApp f rs) = .app f (Rep.absArgs rs) := by
  unfold mkApp
  split
  · split
    · simp [Rep.abs, Rep.absList, Rep.absArgs]
    · simp [Rep.abs, Rep.absList, Rep.absArgs]
    · simp [Rep.abs, Rep.absList, Rep.absArgs, Rep.graft]
    · rename_i other h1 h2 h3
      simp [Rep.abs, Rep.absList, Rep.absArgs, Rep.graft]
  · rfl

mutual
  theorem abs_toRep : ∀ t : Term, Rep.abs (toRep t) = t
    | .var _ => rfl
    | .atom _ => rfl
    | .int _ => rfl
    | .flt _ => rfl
    | .str _ => rfl
    | .app f as => by rw [toRep, abs_mkApp, absArgs_toReps as]
  theorem absArgs_toReps : ∀ as : Args, Rep.absArgs (toReps as) = as
    | .nil => rfl
    | .cons t ts => by simp [toReps, Rep.absArgs, abs_toRep t, absArgs_toReps ts]
end

end PrologVerif.Refine

namespace PrologVerif.Refine
open PrologVerif PrologVerif.VM PrologVerif.DecompileCompile PrologVerif.Activation

/-! ## bodies -/

theorem mkApp_of_ne (f : String) (rs : RepList) (h : f ≠ ".") : mkApp f rs = .compound f rs := by
  unfold mkApp
  split
  · exact absurd rfl h
  · rfl

theorem toRep_app_ne_dot (f : String) (as : Args) (h : f ≠ ".") : toRep (.app f as) = .compound f (toReps as) := by
  rw [toRep]; exact mkApp_of_ne f _ h

theorem goalTerm_toRep (t : Term) : goalTerm (toRep t) = SLD.wrapVar t := by
  cases t with
  | var v => rfl
  | app f as =>
    have : goalTerm (toRep (.app f as)) = Rep.abs (toRep (.app f as)) := by
      rw [toRep]; unfold mkApp; split
      · split <;> rfl
      · rfl
    rw [this, abs_toRep]; rfl
  | _ => rfl

/-- the goals the compiler iterates over are the reference's conjuncts -/
theorem seqGoals_toRep (b : Term) : (seqGoals (toRep b)).map goalTerm = SLD.conjuncts b := by
  fun_induction SLD.conjuncts b with
  | case1 a b iha ihb =>
    rw [toRep_app_ne_dot _ _ (by decide)]
    simp only [toReps, seqGoals, List.map_append, iha, ihb]
  | case2 t hne =>
    have : seqGoals (toRep t) = [toRep t] := by
      cases t with
      | app f as =>
        by_cases hf : f = "."
        · subst hf
          rw [toRep]; unfold mkApp; split
          · split <;> simp [seqGoals]
          · simp [seqGoals]
        · rw [toRep_app_ne_dot _ _ hf]
          unfold seqGoals
          split
          · rename_i a b heq
            simp only [Rep.compound.injEq] at heq
            obtain ⟨rfl, hargs⟩ := heq
            cases as with
            | nil => simp [toReps] at hargs
            | cons x xs =>
              cases xs with
              | nil => simp [toReps] at hargs
              | cons y ys =>
                cases ys with
                | nil => exact absurd rfl (hne x y)
                | cons _ _ => simp [toReps] at hargs
          · rfl
      | _ => simp [toRep, seqGoals]
    rw [this]
    simp [goalTerm_toRep]

theorem seqGoals_toRep_wf (b : Term) (h : wfT b = true) : ∀ g ∈ seqGoals (toRep b), WF g = true :=
  wf_seqGoals _ (toRep_wf b h)

end PrologVerif.Refine

namespace PrologVerif.Refine
open PrologVerif PrologVerif.VM PrologVerif.DecompileCompile PrologVerif.Activation

/-! ## what `compile` makes of a clause of the fragment -/

theorem reserved_not_user {f : String} {n : Nat} (h : userPred f n = true) : f ∉ reservedNames := by
  simp only [userPred, Bool.and_eq_true, Bool.not_eq_true', List.contains_eq_mem, decide_eq_false_iff_not] at h
  exact h.1

theorem hornGoal_shape {g : Term} (h : hornGoal g = true) :
    (∃ f, g = .atom f ∧ (f = "true" ∨ userPred f 0 = true)) ∨
    (∃ a b, g = .app "=" (.cons a (.cons b .nil))) ∨
    (∃ f as, g = .app f as ∧ userPred f as.length = true ∧ 1 ≤ as.length) := by
  cases g with
  | atom f => simpa [hornGoal] using h
  | app f as =>
    simp only [hornGoal, Bool.or_eq_true, Bool.and_eq_true, beq_iff_eq, decide_eq_true_eq] at h
    obtain ⟨h1, h⟩ := h
    rcases h with ⟨rfl, hl⟩ | h
    · cases as with
      | nil => simp [Args.length] at hl
      | cons a as => cases as with
        | nil => simp [Args.length] at hl
        | cons b as => cases as with
          | nil => exact Or.inr (Or.inl ⟨a, b, rfl⟩)
          | cons _ _ => simp [Args.length] at hl
    · exact Or.inr (Or.inr ⟨f, as, rfl, h, h1⟩)
  | _ => simp [hornGoal] at h

/-- the shape of a goal of the fragment -/
theorem cutGoal_cases {g : Term} (h : cutGoal g = true) : g = .atom "!" ∨ hornGoal g = true := by
  simp only [cutGoal, Bool.or_eq_true, beq_iff_eq] at h
  exact h

theorem goalS_cases {s : Bool} {g : Term} (h : goalS s g = true) : g = .atom "!" ∨ stepGoal s g = true := by
  simp only [goalS, Bool.or_eq_true, beq_iff_eq] at h
  exact h

theorem bodyOK_not_var {b : Term} (h : bodyOK b = true) : ∀ v, b ≠ .var v := by
  rintro v rfl
  simp only [bodyOK, SLD.conjuncts, SLD.wrapVar, SLD.call1, List.all_cons, List.all_nil, Bool.and_true] at h
  rcases cutGoal_cases h with h | h
  · cases h
  rcases hornGoal_shape h with ⟨f, hf, _⟩ | ⟨a, b, hab⟩ | ⟨f, as, hfa, hu, _⟩
  · cases hf
  · simp at hab
  · simp only [Term.app.injEq] at hfa
    obtain ⟨rfl, rfl⟩ := hfa
    exact reserved_not_user hu (by decide)

theorem isCall1_shape {g : Term} (h : isCall1 g = true) : ∃ x, g = .app "call" (.cons x .nil) := by
  unfold isCall1 at h
  split at h
  · rename_i x; exact ⟨x, rfl⟩
  · cases h

/-- the control constructs, by shape -/
inductive Ctl (g : Term) : Prop
  | call (x : Term) : g = .app "call" (.cons x .nil) → Ctl g
  | ite (c t e : Term) : g = .app ";" (.cons (.app "->" (.cons c (.cons t .nil))) (.cons e .nil)) → Ctl g
  | ifthen (c t : Term) : g = .app "->" (.cons c (.cons t .nil)) → Ctl g
  | once (x : Term) : g = .app "once" (.cons x .nil) → Ctl g
  | neg (x : Term) : g = .app "\\+" (.cons x .nil) → Ctl g
  | callN (x e : Term) (es : Args) : g = .app "call" (.cons x (.cons e es)) → es.length ≤ 6 → Ctl g
  | disj (a b : Term) : g = .app ";" (.cons a (.cons b .nil)) → disjHead a = true → Ctl g

theorem ctlGoal_shape {g : Term} (h : ctlGoal g = true) : Ctl g := by
  unfold ctlGoal at h
  split at h
  · exact .call _ rfl
  · exact .callN _ _ _ rfl (by simpa using h)
  · exact .once _ rfl
  · exact .neg _ rfl
  · exact .ite _ _ _ rfl
  · exact .disj _ _ rfl h
  · exact .ifthen _ _ rfl
  · cases h

theorem ctlGoal_app {g : Term} (h : ctlGoal g = true) : ∃ f a as, g = .app f (.cons a as) := by
  cases ctlGoal_shape h with
  | call x hx => exact ⟨_, _, _, hx⟩
  | ite c t e hx => exact ⟨_, _, _, hx⟩
  | ifthen c t hx => exact ⟨_, _, _, hx⟩
  | once x hx => exact ⟨_, _, _, hx⟩
  | neg x hx => exact ⟨_, _, _, hx⟩
  | callN x e es hx _ => exact ⟨_, _, _, hx⟩
  | disj a b hx _ => exact ⟨_, _, _, hx⟩

/-- a `stepGoal`: a Horn goal or (with control constructs) a control construct -/
theorem stepGoal_cases {s : Bool} {g : Term} (h : stepGoal s g = true) :
    hornGoal g = true ∨ (s = true ∧ Ctl g) := by
  simp only [stepGoal, Bool.or_eq_true, Bool.and_eq_true] at h
  rcases h with h | ⟨h1, h2⟩
  · exact Or.inl h
  · exact Or.inr ⟨h1, ctlGoal_shape h2⟩

theorem not_horn_reserved {f : String} {as : Args} (hf : f ∈ reservedNames) (hne : f ≠ "=") :
    hornGoal (.app f as) = false := by
  cases h : hornGoal (.app f as) with
  | false => rfl
  | true =>
    exfalso
    simp only [hornGoal, Bool.and_eq_true, Bool.or_eq_true, beq_iff_eq, decide_eq_true_eq] at h
    rcases h.2 with h2 | h2
    · exact hne h2.1
    · exact reserved_not_user h2 hf

theorem disjuncts_ne_nil' (b : Term) : SLD.disjuncts b ≠ [] := by
  unfold SLD.disjuncts
  split <;> simp

/-- a term with one top-level disjunct is that disjunct -/
theorem disjuncts_single {b : Term} (h : (SLD.disjuncts b).length = 1) : SLD.disjuncts b = [b] := by
  unfold SLD.disjuncts at h ⊢
  split
  · rfl
  · rename_i a b' hna
    exfalso
    simp only [List.length_cons] at h
    have := disjuncts_ne_nil' b'
    cases hd : SLD.disjuncts b' with
    | nil => exact this hd
    | cons x xs => rw [hd] at h; simp at h
  · rfl

theorem disjuncts_horn (b : Term) {fl : Bool} (h : bodyS fl b = true) : SLD.disjuncts b = [b] :=
  disjuncts_single (bodyS_single h)

theorem conjuncts_semi (a b : Term) :
    SLD.conjuncts (.app ";" (.cons a (.cons b .nil))) = [.app ";" (.cons a (.cons b .nil))] := by
  simp [SLD.conjuncts, SLD.wrapVar]

/-- a body of stage 2 is not a disjunction -/
theorem bodyS_of_OK {b : Term} (h : bodyOK b = true) : bodyS false b = true := by
  refine bodyS_mk (fun t ht => ?_) ?_
  · simp only [bodyOK, List.all_eq_true] at h
    rw [goalS_false]; exact h t ht
  · unfold SLD.disjuncts
    split
    · rfl
    · rename_i a b' _
      exfalso
      simp only [bodyOK, conjuncts_semi, List.all_cons, List.all_nil, Bool.and_true] at h
      rcases cutGoal_cases h with h | h
      · cases h
      · rw [not_horn_reserved (by decide) (by decide)] at h; cases h
    · rfl

theorem dbodyS_of_body {fl : Bool} {b : Term} (h : bodyS fl b = true) : dbodyS fl b = true := by
  simp [dbodyS, disjuncts_horn b h, h]


theorem FragS.of_cut {prog : List Term} {query : Term} (h : CutFrag prog query) : FragS false prog query :=
  ⟨fun c hc => by
      have := h.clauses c hc
      simp only [clauseOK, clauseS, Bool.and_eq_true] at this ⊢
      exact ⟨this.1, dbodyS_of_body (bodyS_of_OK this.2)⟩, dbodyS_of_body (bodyS_of_OK h.goal), h.wf,
    bodyOK_not_var h.goal, h.small⟩

theorem FragS.mono {prog : List Term} {query : Term} (h : FragS false prog query) (s : Bool) : FragS s prog query := by
  have hb : ∀ b, bodyS false b = true → bodyS s b = true := by
    intro b hb
    exact bodyS_mk (fun t ht => goalS_mono (bodyS_all hb t ht) s) (bodyS_single hb)
  refine ⟨fun c hc => ?_, ?_, h.wf, h.nonvar, h.small⟩
  rotate_left
  · have := h.goal
    simp only [dbodyS, List.all_eq_true] at this ⊢
    exact fun dj hdj => hb dj (this dj hdj)
  have := h.clauses c hc
  simp only [clauseS, Bool.and_eq_true] at this ⊢
  refine ⟨this.1, ?_⟩
  have h2 := this.2
  simp only [dbodyS, List.all_eq_true] at h2 ⊢
  exact fun dj hdj => hb dj (h2 dj hdj)

theorem hornGoal_not_cut : hornGoal (.atom "!") = false := by
  simp only [hornGoal, Bool.or_eq_false_iff, beq_eq_false_iff_ne, ne_eq]
  refine ⟨by decide, ?_⟩
  cases h : userPred "!" 0 with
  | false => rfl
  | true => exact absurd (by decide) (reserved_not_user h)

theorem seqGoals_leaf (r : Rep) (h : ∀ a b, r ≠ .compound "," (.cons a (.cons b .nil))) : seqGoals r = [r] := by
  unfold seqGoals
  split
  · rename_i a b; exact absurd rfl (h a b)
  · rfl

theorem toRep_not_comma (t : Term) (hne : ∀ a b, t ≠ .app "," (.cons a (.cons b .nil))) :
    ∀ a b, toRep t ≠ .compound "," (.cons a (.cons b .nil)) := by
  intro a b heq
  cases t with
  | app f as =>
    by_cases hf : f = "."
    · subst hf
      rw [toRep] at heq; unfold mkApp at heq; split at heq
      · split at heq <;> simp at heq
      · simp at heq
    · rw [toRep_app_ne_dot _ _ hf] at heq
      simp only [Rep.compound.injEq] at heq
      obtain ⟨rfl, hargs⟩ := heq
      cases as with
      | nil => simp [toReps] at hargs
      | cons x xs =>
        cases xs with
        | nil => simp [toReps] at hargs
        | cons y ys =>
          cases ys with
          | nil => exact hne x y rfl
          | cons _ _ => simp [toReps] at hargs
  | _ => simp [toRep] at heq

/-- the goals the compiler iterates over are the encodings of the leaves of the ','/2 tree -/
theorem seqGoals_leaves (b : Term) : ∃ ts : List Term, seqGoals (toRep b) = ts.map toRep ∧
    SLD.conjuncts b = ts.map SLD.wrapVar := by
  fun_induction SLD.conjuncts b with
  | case1 a b iha ihb =>
    obtain ⟨ts1, h1, h1'⟩ := iha
    obtain ⟨ts2, h2, h2'⟩ := ihb
    refine ⟨ts1 ++ ts2, ?_, by simp [h1', h2']⟩
    rw [toRep_app_ne_dot _ _ (by decide)]
    simp only [toReps, seqGoals, h1, h2, List.map_append]
  | case2 t hne =>
    exact ⟨[t], seqGoals_leaf _ (toRep_not_comma t (fun a b h => hne a b h)), rfl⟩

/-- every goal of a body of the fragment is callable, and is the cut or a Horn goal -/
theorem bodyOK_goals {s : Bool} (b : Term) (h : bodyS s b = true) :
    ∀ g ∈ seqGoals (toRep b), CallableGoal g = true ∧ (g = .atom "!" ∨ stepGoal s (goalTerm g) = true) := by
  intro g hg
  obtain ⟨ts, hts, hconj⟩ := seqGoals_leaves b
  rw [hts, List.mem_map] at hg
  obtain ⟨t, ht, rfl⟩ := hg
  have hh : goalS s (SLD.wrapVar t) = true := by
    have := bodyS_all h
    rw [hconj] at this
    exact this _ (List.mem_map_of_mem ht)
  rw [goalTerm_toRep]
  rcases goalS_cases hh with hc | hc
  · have ht' : t = .atom "!" := by
      cases t <;> simp_all [SLD.wrapVar, SLD.call1]
    subst ht'
    exact ⟨rfl, Or.inl rfl⟩
  · refine ⟨?_, Or.inr hc⟩
    cases t with
    | var v => simp [toRep, CallableGoal]
    | atom _ => simp [toRep, CallableGoal]
    | app f as =>
      rw [toRep]; unfold mkApp; split
      · split <;> simp [CallableGoal]
      · simp [CallableGoal]
    | int _ => simp [SLD.wrapVar, hornGoal, stepGoal, ctlGoal] at hc
    | flt _ => simp [SLD.wrapVar, hornGoal, stepGoal, ctlGoal] at hc
    | str _ => simp [SLD.wrapVar, hornGoal, stepGoal, ctlGoal] at hc

/-! ### the alternatives of a body -/

theorem toRep_eq_compound {t : Term} {f : String} {rs : RepList} (h : toRep t = .compound f rs) (hf : f ≠ ".") :
    ∃ as, t = .app f as ∧ rs = toReps as := by
  cases t with
  | app g as =>
    by_cases hg : g = "."
    · subst hg
      rw [toRep] at h; unfold mkApp at h
      split at h
      · split at h <;> cases h
      · simp only [Rep.compound.injEq] at h; exact absurd h.1.symm hf
    · rw [toRep_app_ne_dot _ _ hg] at h
      simp only [Rep.compound.injEq] at h
      obtain ⟨rfl, rfl⟩ := h
      exact ⟨as, rfl, rfl⟩
  | _ => simp [toRep] at h

theorem toReps_eq_two {as : Args} {x y : Rep} (h : toReps as = .cons x (.cons y .nil)) :
    ∃ a b, as = .cons a (.cons b .nil) ∧ x = toRep a ∧ y = toRep b := by
  cases as with
  | nil => simp [toReps] at h
  | cons a as1 =>
    cases as1 with
    | nil => simp [toReps] at h
    | cons b as2 =>
      cases as2 with
      | nil =>
        simp only [toReps, RepList.cons.injEq, and_true] at h
        exact ⟨a, b, rfl, h.1.symm, h.2.symm⟩
      | cons _ _ => simp [toReps] at h

theorem altBodies_semi (x y : Rep) :
    altBodies (.compound ";" (.cons x (.cons y .nil))) =
      match x with
      | .compound "->" (.cons _ (.cons _ .nil)) => [.compound ";" (.cons x (.cons y .nil))]
      | _ => x :: altBodies y := by
  conv => lhs; unfold altBodies
  rfl

theorem altBodies_disj (b : Term) : altBodies (toRep b) = (SLD.disjuncts b).map toRep := by
  fun_induction SLD.disjuncts b with
  | case1 c t e =>
    have e1 : toRep (Term.app ";" (Args.cons (Term.app "->" (Args.cons c (Args.cons t Args.nil))) (Args.cons e Args.nil))) =
        .compound ";" (.cons (.compound "->" (.cons (toRep c) (.cons (toRep t) .nil))) (.cons (toRep e) .nil)) := by
      rw [toRep_app_ne_dot _ _ (by decide)]
      simp only [toReps]
      rw [toRep_app_ne_dot "->" _ (by decide)]
      simp only [toReps]
    simp only [SLD.ifThenElse, SLD.mk2, List.map_cons, List.map_nil, e1]
    rw [altBodies_semi]
    rfl
  | case2 a b hna ih =>
    have e1 : toRep (Term.app ";" (Args.cons a (Args.cons b Args.nil))) =
        .compound ";" (.cons (toRep a) (.cons (toRep b) .nil)) := by
      rw [toRep_app_ne_dot _ _ (by decide)]
      simp only [toReps]
    rw [e1, altBodies_semi]
    split
    · rename_i x y heq
      exfalso
      obtain ⟨as, rfl, has⟩ := toRep_eq_compound heq (by decide)
      obtain ⟨c, t, rfl, _, _⟩ := toReps_eq_two has.symm
      exact hna c t rfl
    · rw [ih]; rfl
  | case3 t h1 h2 =>
    unfold altBodies
    split
    · rename_i a b heq
      exfalso
      obtain ⟨as, rfl, has⟩ := toRep_eq_compound heq (by decide)
      obtain ⟨x, y, rfl, _, _⟩ := toReps_eq_two has.symm
      exact h2 x y rfl
    · rfl

/-- a body of the fragment is not a disjunction: the compiler sees ONE alternative -/
theorem altBodies_toRep {s : Bool} (b : Term) (h : bodyS s b = true) : altBodies (toRep b) = [toRep b] := by
  rw [altBodies_disj, disjuncts_horn b h]; rfl

/-- the shape of the compiled form of a clause of the fragment -/
structure HeadLayout (h : Term) (cl : Clause) (hargs : RepList) : Prop where
  wf : WFs hargs = true
  pre : (compileHeadArgs hargs {}).vars <+: cl.vars
  nodup : cl.vars.Nodup
  name : cl.name = functorName h
  arity : cl.arity = (argList h).length
  args : (Rep.absArgs hargs).toList = argList h
  horn : headOK h = true

theorem headOK_of_horn {h : Term} (hh : hornHead h = true) : headOK h = true := by
  cases h with
  | atom f => rfl
  | app f as =>
    have hu : userPred f as.length = true := by
      simp only [hornHead, Bool.and_eq_true] at hh; exact hh.2
    have hf : f ≠ "." := by rintro rfl; exact reserved_not_user hu (by decide)
    have hf2 : f ≠ ":-" := by rintro rfl; exact reserved_not_user hu (by decide)
    simp only [hornHead, Bool.and_eq_true] at hh
    simp [headOK, hh.1, hf, hf2]
  | _ => simp [hornHead] at hh

/-- a clause with a user predicate name whose body has one alternative -/
theorem clauseC_of_S1 {s : Bool} {c : Term} (h : wfT c = true) (hh : hornHead (SLD.headBody c).1 = true)
    (hb : bodyS s (SLD.headBody c).2 = true) : clauseC s c = true := by
  simp only [clauseC, Bool.and_eq_true]
  exact ⟨⟨h, headOK_of_horn hh⟩, hb⟩

theorem hornHead_toRep {h : Term} (hh : headOK h = true) (hw : wfT h = true) :
    CallableHead (toRep h) = true ∧ WF (toRep h) = true ∧
    headName (toRep h) = functorName h ∧ (Rep.absArgs (headArgs (toRep h))).toList = argList h ∧
    (∀ x y, toRep h ≠ .compound ":-" (.cons x (.cons y .nil))) := by
  cases h with
  | atom f =>
    refine ⟨rfl, rfl, rfl, rfl, by simp [toRep]⟩
  | app f as =>
    simp only [headOK, Bool.and_eq_true, bne_iff_ne, ne_eq, decide_eq_true_eq] at hh
    have hf : f ≠ "." := hh.1.2
    have hf2 : f ≠ ":-" := hh.2
    rw [toRep_app_ne_dot _ _ hf]
    refine ⟨rfl, ?_, rfl, by simp [headArgs, absArgs_toReps, argList], by simp [hf2]⟩
    have := toRep_wf _ hw
    rwa [toRep_app_ne_dot _ _ hf] at this
  | _ => simp [headOK] at hh

/-- **a rule of the fragment** compiles to one clause: head code, `enter`, the code of the body
    goals — which are the reference's conjuncts of the body — in order, `exit` -/
theorem horn_rule_layout {s : Bool} (h b : Term) (hc : clauseC s (.app ":-" (.cons h (.cons b .nil))) = true) :
    ∃ cl hargs bops gs, compile (toRep (.app ":-" (.cons h (.cons b .nil)))) = .ok [cl] ∧
      HeadLayout h cl hargs ∧
      cl.code = headCode hargs {} ++ Op.enter :: (bops ++ [Op.exit]) ∧
      BodySem cl.vars bops gs ∧ gs.map goalTerm = SLD.conjuncts b ∧
      (∀ g ∈ gs, g = .atom "!" ∨ stepGoal s (goalTerm g) = true) := by
  simp only [clauseC, SLD.headBody, Bool.and_eq_true, wfT, wfAs, Bool.and_true] at hc
  obtain ⟨⟨⟨hwh, hwb⟩, hh⟩, hb⟩ := hc
  obtain ⟨hch, hwfh, hname, hargs, _⟩ := hornHead_toRep hh hwh
  have hwfb := toRep_wf b hwb
  have hrep : toRep (.app ":-" (.cons h (.cons b .nil))) =
      .compound ":-" (.cons (toRep h) (.cons (toRep b) .nil)) := by
    rw [toRep_app_ne_dot _ _ (by decide)]; rfl
  rw [hrep]
  have halt := altBodies_toRep b hb
  cases hcomp : compile (.compound ":-" (.cons (toRep h) (.cons (toRep b) .nil))) with
  | error e =>
    exfalso
    obtain ⟨alt, hm, g, hg, hcg⟩ := (error_statement (toRep h) (toRep b) hwfh hwfb hch).1 ⟨e, hcomp⟩
    rw [halt, List.mem_singleton] at hm
    subst hm
    rw [(bodyOK_goals b hb g hg).1] at hcg
    cases hcg
  | ok cs =>
    obtain ⟨hlen, _⟩ := rule_statement (toRep h) (toRep b) cs hwfh hwfb hch hcomp
    rw [halt] at hlen
    obtain ⟨cl, rfl⟩ : ∃ cl, cs = [cl] := List.length_eq_one_iff.1 hlen
    obtain ⟨bops, hcode, hsem, hpre, hnd, hn, har⟩ :=
      rule_clause_layout (toRep h) (toRep b) [cl] hwfh hwfb hch hcomp 0 cl (toRep b) rfl (by rw [halt]; rfl)
    refine ⟨cl, headArgs (toRep h), bops, seqGoals (toRep b), rfl,
      ⟨wfs_headArgs _ hwfh, hpre, hnd, by rw [hn, hname], ?_, hargs, hh⟩, hcode, hsem, seqGoals_toRep b, ?_⟩
    · rw [har, ← hargs, absArgs_toList_length]
    · intro g hg
      exact (bodyOK_goals b hb g hg).2

/-- **a fact of the fragment** compiles to one clause: head code, `exit` -/
theorem horn_fact_layout {s : Bool} (c : Term) (hc : clauseC s c = true)
    (hne : ∀ h b, c ≠ .app ":-" (.cons h (.cons b .nil))) :
    ∃ cl hargs, compile (toRep c) = .ok [cl] ∧ HeadLayout c cl hargs ∧
      cl.code = headCode hargs {} ++ [Op.exit] := by
  have hhb : SLD.headBody c = (c, .atom "true") := by
    unfold SLD.headBody
    split
    · exact absurd rfl (hne _ _)
    · rfl
  simp only [clauseC, hhb, Bool.and_eq_true] at hc
  obtain ⟨⟨hw, hh⟩, _⟩ := hc
  obtain ⟨hch, hwf, hname, hargs, hne'⟩ := hornHead_toRep hh hw
  cases hcomp : compile (toRep c) with
  | error e =>
    exfalso
    have hco : compile (toRep c) =
        match compileClause (toRep c) none with
        | none => .error (typeErr "callable" (Rep.abs (toRep c)))
        | some (f, n, c') => .ok [{ name := f, arity := n, raw := Rep.abs (toRep c), vars := c'.vars, code := c'.code }] := by
      unfold compile
      split
      · rename_i heq; exact (hne' _ _ heq).elim
      · rfl
    rw [hco] at hcomp
    simp [compileClause] at hcomp
  | ok cs =>
    obtain ⟨cl, rfl, hcode, hvars, hnd, hn, har⟩ := fact_clause_layout (toRep c) cs hwf hch hne' hcomp
    refine ⟨cl, headArgs (toRep c), rfl,
      ⟨wfs_headArgs _ hwf, by rw [hvars]; exact List.prefix_refl _, hnd, by rw [hn, hname], ?_, hargs, hh⟩, hcode⟩
    rw [har, ← hargs, absArgs_toList_length]

theorem disjuncts_plain' (a b : Term) (hna : ∀ c t, a = .app "->" (.cons c (.cons t .nil)) → False) :
    SLD.disjuncts (.app ";" (.cons a (.cons b .nil))) = a :: SLD.disjuncts b := by
  conv => lhs; unfold SLD.disjuncts
  split
  · rename_i c t e heq
    simp only [Term.app.injEq, Args.cons.injEq, true_and, and_true] at heq
    exact absurd heq.1 (fun h => hna c t h)
  · rename_i a' b' _ heq
    simp only [Term.app.injEq, Args.cons.injEq, true_and, and_true] at heq
    obtain ⟨rfl, rfl⟩ := heq
    rfl
  · rename_i h2
    exact absurd rfl (h2 _ _)

/-- **the fragment (stage 4b)**: stage 4a + a disjunction `(A ; B)` that is not an if-then-else as a
    GOAL, i.e. as a conjunct of a conjunction (`disjGoal`: `A` an atom or a compound term other than
    `_ -> _`, NOT a variable; `B` any term whose top-level disjuncts are bodies at call time, see
    `CallsOK`); a body with ONE alternative (`bodyS`) is a conjunction of goals that is not itself a
    disjunction — a disjunction that is a whole body, a whole called goal or the whole query still
    gives one alternative per disjunct (`dbodyS`).  This is `FragS true`, the fragment the proofs work
    with: clause heads over user predicates; goals `!`, `true`, `=`/2, user predicates, `call/1..8`,
    `once/1`, `\\+`/1, `(C -> T ; E)`, `(C -> T)`, `(A ; B)`.  Decidable. -/
abbrev Ctl2Frag (prog : List Term) (query : Term) : Prop := FragS true prog query

theorem ctl1_single {t : Term} (h : ctlGoal1 t = true) : (SLD.disjuncts t).length = 1 := by
  unfold ctlGoal1 at h
  split at h
  · rfl
  · rfl
  · rfl
  · rfl
  · rfl
  · cases h

theorem callN_single {t : Term} (h : callNGoal t = true) : (SLD.disjuncts t).length = 1 := by
  unfold callNGoal at h
  split at h
  · rfl
  · cases h

/-- a fragment by control goals `P` that are control goals of the proofs (`ctlGoal`) and not
    disjunctions is part of the fragment `FragS true` the proofs work with -/
theorem FragG.toS {P : Term → Bool} {prog : List Term} {query : Term} (hP : ∀ t, P t = true → ctlGoal t = true)
    (hP2 : ∀ t, P t = true → (SLD.disjuncts t).length = 1)
    (h : FragG P prog query) : FragS true prog query := by
  have hg : ∀ t, goalG P t = true → goalS true t = true := by
    intro t ht
    simp only [goalG, goalS, stepGoal, Bool.or_eq_true, Bool.true_and] at ht ⊢
    rcases ht with ht | ht | ht
    · exact Or.inl ht
    · exact Or.inr (Or.inl ht)
    · exact Or.inr (Or.inr (hP t ht))
  have hb : ∀ b, bodyG P b = true → bodyS true b = true := by
    intro b hb
    simp only [bodyG, List.all_eq_true] at hb
    refine bodyS_mk (fun t ht => hg t (hb t ht)) ?_
    unfold SLD.disjuncts
    split
    · rfl
    · rename_i a b' _
      exfalso
      have hc := hb (.app ";" (.cons a (.cons b' .nil))) (by rw [conjuncts_semi]; simp)
      simp only [goalG, Bool.or_eq_true, beq_iff_eq] at hc
      rcases hc with hc | hc | hc
      · cases hc
      · rw [not_horn_reserved (by decide) (by decide)] at hc; cases hc
      · have := hP2 _ hc
        rw [disjuncts_plain' _ _ (by assumption)] at this
        simp only [List.length_cons] at this
        have hne := disjuncts_ne_nil' b'
        cases hd : SLD.disjuncts b' with
        | nil => exact hne hd
        | cons x xs => rw [hd] at this; simp at this
    · rfl
  have hd : ∀ b, dbodyG P b = true → dbodyS true b = true := by
    intro b hb'
    simp only [dbodyG, dbodyS, List.all_eq_true] at hb' ⊢
    exact fun t ht => hb t (hb' t ht)
  refine ⟨fun c hc => ?_, hd _ h.goal, h.wf, h.nonvar, h.small⟩
  have := h.clauses c hc
  simp only [clauseG, clauseS, Bool.and_eq_true] at this ⊢
  exact ⟨this.1, hd _ this.2⟩

end PrologVerif.Refine
