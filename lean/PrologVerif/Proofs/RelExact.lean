/-
  C16 helper lemmas: what "enumerates exactly the relation" means for a call (`Exact`), its generic
  consequences (monotonicity under instantiation), and the candidate enumerations of the text builtins.
-/
import PrologVerif.Proofs.RelMatch
import PrologVerif.Spec.Relations
namespace PrologVerif.Rel
open PrologVerif PrologVerif.Relations

/-- The answers `ans` of a call with arguments `args` enumerate exactly the tuples of `R` that are
    instances of the call: nothing else (`sound`), all of them (`complete`), each once (`nodup`). -/
structure Exact (R : List Term → Prop) (args : List Term) (ans : Answers) : Prop where
  sound : ∀ t ∈ ans, R t ∧ IsInstance args t
  complete : ∀ t, R t → IsInstance args t → t ∈ ans
  nodup : ans.Nodup

theorem Exact.mem_iff {R args ans} (h : Exact R args ans) (t : List Term) :
    t ∈ ans ↔ R t ∧ IsInstance args t :=
  ⟨h.sound t, fun ⟨a, b⟩ => h.complete t a b⟩

/-- instantiating further arguments selects exactly the matching subset of the answers -/
theorem Exact.monotone {R args args' ans ans'} (h : Exact R args ans) (h' : Exact R args' ans')
    (hi : IsInstance args args') :
    ans'.Perm (ans.filter fun t => decide (IsInstance args' t)) := by
  rw [List.perm_ext_iff_of_nodup h'.nodup (List.Pairwise.filter _ h.nodup)]
  intro t
  simp only [List.mem_filter, decide_eq_true_eq, h.mem_iff, h'.mem_iff]
  constructor
  · rintro ⟨hr, hinst⟩; exact ⟨⟨hr, hi.trans hinst⟩, hinst⟩
  · rintro ⟨⟨hr, _⟩, hinst⟩; exact ⟨hr, hinst⟩

theorem exact_selectCands {R : List Term → Prop} {args : List Term} {cands : Answers}
    (h1 : ∀ c ∈ cands, R c) (h2 : ∀ t, R t → IsInstance args t → t ∈ cands) (h3 : cands.Nodup) :
    Exact R args (selectCands args cands) where
  sound t ht := by
    rw [mem_selectCands] at ht
    exact ⟨h1 t ht.1, ht.2⟩
  complete t hr hi := mem_selectCands.mpr ⟨h2 t hr hi, hi⟩
  nodup := selectCands_nodup h3

theorem exact_nil {R : List Term → Prop} {args : List Term} (h : ∀ t, R t → IsInstance args t → False) :
    Exact R args [] where
  sound t ht := by cases ht
  complete t hr hi := (h t hr hi).elim
  nodup := List.Pairwise.nil

theorem exact_single {R : List Term → Prop} {args c : List Term} (hc : R c) (hi : IsInstance args c)
    (h : ∀ t, R t → IsInstance args t → t = c) : Exact R args [c] where
  sound t ht := by simp at ht; subst ht; exact ⟨hc, hi⟩
  complete t hr hi' := by simp [h t hr hi']
  nodup := by simp

theorem nodup_map_on {α β} {f : α → β} : {l : List α} → (∀ x ∈ l, ∀ y ∈ l, f x = f y → x = y) →
    l.Nodup → (l.map f).Nodup
  | [], _, _ => List.Pairwise.nil
  | a :: l, h, hl => by
    rw [List.nodup_cons] at hl
    simp only [List.map_cons, List.nodup_cons, List.mem_map, not_exists, not_and]
    refine ⟨fun x hx hfx => hl.1 ?_, nodup_map_on (fun x hx y hy => h x (by simp [hx]) y (by simp [hy])) hl.2⟩
    have := h x (by simp [hx]) a (by simp) hfx
    exact this ▸ hx

/-! ### instances of small call patterns -/

theorem isInstance_cons {a : Term} {as : List Term} {t : List Term} (h : IsInstance (a :: as) t) :
    ∃ σ, t = substT σ a :: as.map (substT σ) := by
  obtain ⟨σ, rfl⟩ := h; exact ⟨σ, rfl⟩

@[simp] theorem substT_atom (σ : Nat → Term) (s : String) : substT σ (.atom s) = .atom s := by simp [substT]
@[simp] theorem substT_int (σ : Nat → Term) (i : Int) : substT σ (.int i) = .int i := by simp [substT]

theorem mkAtom_toList (s : String) : mkAtom s.toList = .atom s := by simp [mkAtom, String.ofList_toList]

theorem mkAtom_inj {a b : List Char} (h : mkAtom a = mkAtom b) : a = b := by
  simp only [mkAtom, Term.atom.injEq] at h
  have := congrArg String.toList h
  simpa [String.toList_ofList] using this

/-! ### atom_concat: the splits -/

theorem concatSplits_eq (s : List Char) :
    concatSplits s = (List.range (s.length + 1)).map fun i => (s.take i, s.drop i) := by
  simp [concatSplits, List.range_succ]

theorem mem_concatSplits {s x y : List Char} : (x, y) ∈ concatSplits s ↔ x ++ y = s := by
  rw [concatSplits_eq]
  simp only [List.mem_map, List.mem_range, Prod.mk.injEq]
  constructor
  · rintro ⟨i, _, rfl, rfl⟩; exact List.take_append_drop i s
  · rintro rfl
    exact ⟨x.length, by simp; omega, by simp, by simp⟩

theorem concatSplits_nodup (s : List Char) : (concatSplits s).Nodup := by
  rw [concatSplits_eq]
  apply nodup_map_on _ List.nodup_range
  intro i hi j hj h
  simp only [List.mem_range] at hi hj
  simp only [Prod.mk.injEq] at h
  have := congrArg List.length h.1
  simp at this
  omega

/-! ### sub_atom: the (before, length) grid -/

theorem mem_subAtomCands {w : List Char} {t : List Term} :
    t ∈ subAtomCands w ↔ ∃ i l : Nat, i + l ≤ w.length ∧
      t = [mkAtom w, .int (Int.ofNat i), .int (Int.ofNat l), .int (Int.ofNat (w.length - i - l)),
           mkAtom ((w.drop i).take l)] := by
  simp only [subAtomCands, List.mem_flatMap, List.mem_map, List.mem_range]
  constructor
  · rintro ⟨i, hi, l, hl, rfl⟩; exact ⟨i, l, by omega, rfl⟩
  · rintro ⟨i, l, h, rfl⟩; exact ⟨i, by omega, l, by omega, rfl⟩

theorem subAtomCands_nodup (w : List Char) : (subAtomCands w).Nodup := by
  unfold subAtomCands
  rw [List.Nodup, List.pairwise_flatMap]
  constructor
  · intro i _
    apply nodup_map_on _ List.nodup_range
    intro l _ l' _ h
    simp at h
    omega
  · apply List.Pairwise.imp_of_mem _ (List.nodup_range (n := w.length + 1))
    intro i j _ _ hij x hx y hy hxy
    simp only [List.mem_map] at hx hy
    obtain ⟨l, _, rfl⟩ := hx
    obtain ⟨l', _, rfl⟩ := hy
    simp at hxy
    omega

end PrologVerif.Rel
