/-
  C06 — text written by writeq/write_canonical reads back as the same term.

  Property theorems only; helper lemmas live in Proofs/.  Everything is about the models
  Model/Lexer.lean (engine/lexer.go), Model/Read.lean (engine/parser.go), Model/Write.lean
  (engine/atom.go, integer.go, float.go, compound.go writers), tied to the Go code by the streams
  c06.lex, c06.atoms, c06.numbers, c06.terms.
-/
import PrologVerif.Proofs.LexerSpec
namespace PrologVerif.C06
open PrologVerif PrologVerif.Lexer

/-! ### lexer lemmas (shared with C05) -/

/-- the ring-buffer invariant: the buffer is sound (no `UnreadRune` has stepped over more runes than
    the 4 slots held, none has made the buffer look empty) and within its capacity -/
def RingOK (l : Lexer) : Prop := RI 0 l

/-- a lexer freshly created on any text has a sound ring buffer -/
theorem C06_ring_init (s : List Char) : RingOK (Lexer.ofList s) := by
  simp [RingOK, RI, Lexer.ofList]

/-- Termination of tokenisation, for every configuration (character-class oracle, conversion table)
    and every reachable lexer state: a `Token` call never exhausts the fuel the model gives it
    (fuel = 2·remaining + 8; the recursion `commentClose → commentClose`, `escapeSequence → cont`
    included), and it either fails with io.EOF or delivers a token having consumed ≥ 1 rune. -/
theorem C06_token_progress (cfg : Cfg) (l : Lexer) (h : RingOK l) :
    lexToken cfg l = .error .eof ∨
    ∃ t l', lexToken cfg l = .ok (t, l') ∧ l'.rest.length < l.rest.length := by
  have := lexToken_spec cfg l h
  cases hres : lexToken cfg l with
  | error e =>
    cases e
    · exact .inl rfl
    · simp [hres, Post] at this
  | ok v =>
    obtain ⟨t, l'⟩ := v
    simp only [hres, Post] at this
    exact .inr ⟨t, l', rfl, by omega⟩

/-- The ring buffer never backs up over more runes than it holds: every `Token` call started with a
    sound buffer ends with a sound buffer (the ghost flag `sound` is cleared by any `UnreadRune`
    that steps over an unread slot or makes `start` meet `end`), whatever the input. -/
theorem C06_ring_sound (cfg : Cfg) (l l' : Lexer) (t : Token) (h : RingOK l)
    (hres : lexToken cfg l = .ok (t, l')) : RingOK l' ∧ l'.ring.sound = true ∧ l'.ring.pend ≤ 3 := by
  have := lexToken_spec cfg l h
  simp only [hres, Post] at this
  refine ⟨this.1, this.1.1, ?_⟩
  have := this.1.2.2.1
  omega

/-- hence all states reached by any number of `Token` calls on any text are sound, and the token
    sequence is finite: `tokens` with fuel `length + 1` ends with io.EOF, never with "out of fuel" -/
theorem C06_tokens_terminate (cfg : Cfg) (n : Nat) (l : Lexer) (h : RingOK l) (hn : l.rest.length < n) :
    (tokens cfg n l).2 = .eof := by
  induction n generalizing l with
  | zero => omega
  | succ n ih =>
    unfold tokens
    have hs := lexToken_spec cfg l h
    cases hres : lexToken cfg l with
    | error e =>
      cases e
      · rfl
      · simp [hres, Post] at hs
    | ok v =>
      obtain ⟨t, l'⟩ := v
      simp only [hres, Post] at hs
      simp only
      exact ih l' hs.1 (by omega)

example : RingOK (Lexer.ofList "foo(0'a, 'x y', 1.5e+3) .".toList) := C06_ring_init _

end PrologVerif.C06
