package main

// C11: findall/bagof/setof over generated fact tables.
//
// case payload (fields separated by '|'):
//     kind | clause ; clause ; ... | V=t ; V=t ; ... | Template | Goal | Instances
//   kind = findall | bagof | setof; clauses are asserted in order (variables are clause-local);
//   the bindings are executed (as =/2 goals) before the call, so that the call sees variables that
//   are bound at call time; Template/Goal/Instances/bindings share the query variables V0..Vk.
//
// impl line:
//     sol <s(t0..tk)> ; ... ; end | gerr <Formal>   =>   ans <q(T,G,I)> ; ... | none | err <Formal>
//   left of "=>": the solution sequence of the goal itself (the iterated goal term for bagof/setof),
//   enumerated directly on the real interpreter (NOT through findall): the values of V0..Vk in each
//   solution; query variables keep their numbers, all other variables are numbered from k+1.
//   right: the answers of the real findall/bagof/setof call, each canonicalised by first occurrence;
//   for bagof/setof they are sorted (group order is not part of the property).

import (
	"context"
	"fmt"
	"math/rand"
	"sort"
	"strconv"
	"strings"
	"time"

	"github.com/ichiban/prolog/engine"
)

func init() {
	register(&stream{name: "c11.collect", gen: genC11, run: runC11})
}

// ---------------------------------------------------------------------------
// runner
// ---------------------------------------------------------------------------

const c11MaxDepth = 2000

type c11Cyclic struct{}

// c11Enc writes the resolved term; name maps variables to numbers. Panics with c11Cyclic when the
// term is deeper than c11MaxDepth (bindings made without occurs check can be cyclic).
func c11Enc(sb *strings.Builder, t engine.Term, env *engine.Env, name func(engine.Variable) int, depth int) {
	if depth > c11MaxDepth {
		panic(c11Cyclic{})
	}
	if sb.Len() > 0 {
		sb.WriteByte(' ')
	}
	switch t := env.Resolve(t).(type) {
	case engine.Variable:
		fmt.Fprintf(sb, "V%d", name(t))
	case engine.Atom:
		sb.WriteString("A" + encName(t.String()))
	case engine.Integer:
		fmt.Fprintf(sb, "I%d", int64(t))
	case engine.Compound:
		fmt.Fprintf(sb, "C%d:%s", t.Arity(), encName(t.Functor().String()))
		for i := 0; i < t.Arity(); i++ {
			c11Enc(sb, t.Arg(i), env, name, depth+1)
		}
	default:
		fmt.Fprintf(sb, "A%s", encName(fmt.Sprintf("$unknown(%T)", t)))
	}
}

func c11Wire(t engine.Term, env *engine.Env, name func(engine.Variable) int) (s string) {
	defer func() {
		if r := recover(); r != nil {
			if _, ok := r.(c11Cyclic); ok {
				s = "CYCLIC"
				return
			}
			panic(r)
		}
	}()
	var sb strings.Builder
	c11Enc(&sb, t, env, name, 0)
	return sb.String()
}

// c11Strip removes the ^-prefix of a goal (what ISO calls the iterated goal term).
func c11Strip(t engine.Term, env *engine.Env) engine.Term {
	for {
		c, ok := env.Resolve(t).(engine.Compound)
		if !ok || c.Functor().String() != "^" || c.Arity() != 2 {
			return t
		}
		t = c.Arg(1)
	}
}

func c11Vars(t engine.Term, env *engine.Env, acc map[engine.Variable]bool, depth int) {
	if depth > c11MaxDepth {
		return
	}
	switch t := env.Resolve(t).(type) {
	case engine.Variable:
		acc[t] = true
	case engine.Compound:
		for i := 0; i < t.Arity(); i++ {
			c11Vars(t.Arg(i), env, acc, depth+1)
		}
	}
}

// c11Witness: the harness's own reading of ISO 7.1.1.4, used only for the tags (nt, distribution).
func c11Witness(goal, template engine.Term, env *engine.Env) []engine.Variable {
	bound := map[engine.Variable]bool{}
	c11Vars(template, env, bound, 0)
	t := goal
	for {
		c, ok := env.Resolve(t).(engine.Compound)
		if !ok || c.Functor().String() != "^" || c.Arity() != 2 {
			break
		}
		c11Vars(c.Arg(0), env, bound, 0)
		t = c.Arg(1)
	}
	all := map[engine.Variable]bool{}
	c11Vars(goal, env, all, 0)
	var out []engine.Variable
	for v := range all {
		if !bound[v] {
			out = append(out, v)
		}
	}
	sort.Slice(out, func(i, j int) bool { return out[i] < out[j] })
	return out
}

func c11Fields(payload string) []string {
	f := strings.Split(payload, "|")
	for i := range f {
		f[i] = strings.TrimSpace(f[i])
	}
	return f
}

func c11SplitOps(s string) []string {
	var out []string
	for _, o := range strings.Split(s, " ; ") {
		if o = strings.TrimSpace(o); o != "" {
			out = append(out, o)
		}
	}
	return out
}

func c11MaxVar(fs ...string) int {
	max := -1
	for _, f := range fs {
		for _, tok := range strings.Fields(f) {
			if tok[0] == 'V' {
				if n, err := strconv.Atoi(tok[1:]); err == nil && n > max {
					max = n
				}
			}
		}
	}
	return max
}

// Go representations of lists.  In case payloads (this stream only) four reserved functors say how a
// list is to be built on the Go side; the Lean driver reads all of them as the plain list term:
//     '$l'(E1,..,En)       proper list, slice-backed `list`            (engine.List)
//     '$p'(E1,..,En,Tail)  `*partial`: n elements before the bar       (engine.PartialList)
//     '$s'(Atom)           the characters of the atom as a `charList`  (engine.CharList)
//     '$c'(Atom)           the codes of the atom's characters, `codeList` (engine.CodeList)
// '.'(H,T) stays a '.'/2 compound cell, [] the atom.  Solutions and answers are printed through the
// Compound interface, so every representation prints as the same '.'/2 chain.
func c11Rep(t engine.Term) engine.Term {
	c, ok := t.(engine.Compound)
	if !ok {
		return t
	}
	args := make([]engine.Term, c.Arity())
	for i := range args {
		args[i] = c11Rep(c.Arg(i))
	}
	switch c.Functor().String() {
	case "$l":
		return engine.List(args...)
	case "$p":
		return engine.PartialList(args[len(args)-1], args[:len(args)-1]...)
	case "$s":
		return engine.CharList(args[0].(engine.Atom).String())
	case "$c":
		return engine.CodeList(args[0].(engine.Atom).String())
	}
	return c.Functor().Apply(args...)
}

// c11Reps collects the Go encodings met in a resolved term (for the distribution tags).
func c11Reps(t engine.Term, env *engine.Env, acc map[string]bool, depth int) {
	if depth > 64 {
		return
	}
	t = env.Resolve(t)
	c, ok := t.(engine.Compound)
	if !ok {
		return
	}
	rep := engine.VerifTermRep(t)
	switch {
	case strings.HasPrefix(rep, "partial"):
		acc["partial"] = true
	case rep == "list" || rep == "charList" || rep == "codeList":
		acc[rep] = true
	case c.Functor().String() == "." && c.Arity() == 2:
		acc["cons"] = true
	}
	for i := 0; i < c.Arity(); i++ {
		c11Reps(c.Arg(i), env, acc, depth+1)
	}
}

func runC11(payload string) string {
	f := c11Fields(payload)
	if len(f) != 6 {
		panic("c11: bad payload")
	}
	kind := f[0]
	i, _ := newInterp("")
	vm := &i.VM
	for _, cl := range c11SplitOps(f[1]) {
		d := newTermDecoder()
		ts, err := d.terms(cl)
		must(err)
		if r := solveOnce(vm, compound("assertz", c11Rep(ts[0]))); r != "true" {
			panic("c11: assertz: " + r)
		}
	}
	// query variables, created in ascending order so that V<i> is older than V<j> for i < j
	k := c11MaxVar(f[2], f[3], f[4], f[5])
	d := newTermDecoder()
	qv := make([]engine.Variable, k+1)
	back := map[engine.Variable]int{}
	for n := 0; n <= k; n++ {
		qv[n] = d.variable(n)
		back[qv[n]] = n
	}
	var binds []engine.Term
	for _, b := range c11SplitOps(f[2]) {
		ts, err := d.terms(b)
		must(err)
		binds = append(binds, c11Rep(ts[0]))
	}
	dec1 := func(s string) engine.Term {
		ts, err := d.terms(s)
		must(err)
		if len(ts) != 1 {
			panic("c11: expected one term")
		}
		return c11Rep(ts[0])
	}
	tmpl, goal, inst := dec1(f[3]), dec1(f[4]), dec1(f[5])
	// The call-time bindings are made with Env.Unify and the built-in is invoked directly (not through
	// call/1, which would run it on renamed clause variables): the variables the built-in sees are
	// V0..Vk themselves, V<i> older than V<j> for i < j, all older than any variable created later.
	var env0 *engine.Env
	for _, b := range binds {
		c, ok := b.(engine.Compound)
		if !ok || c.Arity() != 2 {
			panic("c11: bad binding")
		}
		if env0, ok = env0.Unify(c.Arg(0), c.Arg(1)); !ok {
			panic("c11: binding does not unify")
		}
	}

	ctx, cancel := context.WithTimeout(context.Background(), 10*time.Second)
	defer cancel()

	// 1. the solution sequence of the goal, enumerated directly
	next := k + 1
	others := map[engine.Variable]int{}
	name := func(v engine.Variable) int {
		if n, ok := back[v]; ok {
			return n
		}
		if n, ok := others[v]; ok {
			return n
		}
		others[v] = next
		next++
		return others[v]
	}
	qvTerms := make([]engine.Term, len(qv))
	for n := range qv {
		qvTerms[n] = qv[n]
	}
	solTerm := atom("s").Apply(qvTerms...)
	var sols []string
	witnessClasses := map[string]int{}
	g := goal
	var wv []engine.Variable
	if kind != "findall" {
		g = c11Strip(goal, env0)
		wv = c11Witness(goal, tmpl, env0)
	}
	nfv := len(wv)
	wts := make([]engine.Term, len(wv))
	for n := range wv {
		wts[n] = wv[n]
	}
	reps := map[string]bool{}
	_, gerr := engine.Call(vm, g, func(env *engine.Env) *engine.Promise {
		sols = append(sols, "sol "+c11Wire(solTerm, env, name))
		c11Reps(tmpl, env, reps, 0)
		vn := newVarNamer()
		witnessClasses[c11Wire(atom("w").Apply(wts...), env, vn.name)]++
		return engine.Bool(false)
	}, env0).Force(ctx)
	left := strings.Join(sols, " ; ")
	if left != "" {
		left += " ; "
	}
	if gerr != nil {
		left += "g" + errWire(gerr)
	} else {
		left += "end"
	}

	// 2. the real call
	builtin := map[string]func(*engine.VM, engine.Term, engine.Term, engine.Term, engine.Cont, *engine.Env) *engine.Promise{
		"findall": engine.FindAll, "bagof": engine.BagOf, "setof": engine.SetOf,
	}[kind]
	if builtin == nil {
		panic("c11: bad kind " + kind)
	}
	qTerm := compound("q", tmpl, goal, inst)
	var answers []string
	_, err := builtin(vm, tmpl, goal, inst, func(env *engine.Env) *engine.Promise {
		vn := newVarNamer()
		answers = append(answers, "ans "+c11Wire(qTerm, env, vn.name))
		return engine.Bool(false)
	}, env0).Force(ctx)
	var right string
	switch {
	case err != nil:
		right = errWire(err)
	case len(answers) == 0:
		right = "none"
	default:
		if kind != "findall" {
			sort.Strings(answers)
		}
		right = strings.Join(answers, " ; ")
	}

	// tags
	maxClass := 0
	for _, c := range witnessClasses {
		if c > maxClass {
			maxClass = c
		}
	}
	nt := 0
	if kind == "findall" {
		if len(sols) >= 2 {
			nt = 1
		}
	} else if len(witnessClasses) >= 2 || (nfv >= 1 && maxClass >= 2) {
		nt = 1
	}
	outcome := "answers"
	switch {
	case err != nil:
		outcome = "error"
	case len(answers) == 0:
		outcome = "fail"
	}
	var repNames []string
	for n := range reps {
		repNames = append(repNames, n)
	}
	sort.Strings(repNames)
	repTag := strings.Join(repNames, "+")
	if repTag == "" {
		repTag = "none"
	}
	return fmt.Sprintf("%s => %s ### nt=%d kind=%s sols=%s classes=%s fv=%s outcome=%s answers=%s listreps=%s",
		left, right, nt, kind, bucket_c11(len(sols)), bucket_c11(len(witnessClasses)), bucket_c11(nfv), outcome, bucket_c11(len(answers)), repTag)
}

func bucket_c11(n int) string {
	switch {
	case n <= 3:
		return strconv.Itoa(n)
	case n <= 6:
		return "4-6"
	default:
		return "7+"
	}
}

// ---------------------------------------------------------------------------
// generator: terms are built directly in wire form
// ---------------------------------------------------------------------------

func wV(n int) string    { return "V" + strconv.Itoa(n) }
func wA(s string) string { return "A" + encName(s) }
func wI(n int) string    { return "I" + strconv.Itoa(n) }
func wC(f string, args ...string) string {
	if len(args) == 0 {
		return wA(f)
	}
	return fmt.Sprintf("C%d:%s %s", len(args), encName(f), strings.Join(args, " "))
}
func wList(tail string, xs ...string) string {
	out := tail
	for j := len(xs) - 1; j >= 0; j-- {
		out = wC(".", xs[j], out)
	}
	return out
}

var wNil = wA("[]")

type c11g struct {
	r *rand.Rand
	// per case
	// Unification in the engine has no occurs check, and comparing or copying a cyclic term does not
	// terminate.  Generated cases therefore stay in one of two families in which solving the goal is
	// not subject to occurs check:
	//   flat   – fact columns and goal arguments are variables or ground terms (variables may repeat
	//            anywhere): every binding is variable↦variable or variable↦ground;
	//   linear – arbitrary nesting in facts and goal arguments, but every query variable occurs at most
	//            once in the data positions of the goal (a linear goal against renamed-apart facts).
	flat     bool
	goalVars []int
	pool     []int // linear mode: goal variable slots not used yet
	nextVar  int
	binds    []string
}

// query variables: 0..3 goal variables (X Y Z W), 4.. others
func (g *c11g) fresh() int {
	g.nextVar++
	return g.nextVar - 1
}

// a value for a fact column; vars = clause-local variables introduced so far
func (g *c11g) factValue(vars *[]int, dom int) string {
	r := g.r
	newVar := func() string {
		v := len(*vars)
		*vars = append(*vars, v)
		return wV(v)
	}
	anyVar := func() string {
		if len(*vars) > 0 && r.Intn(2) == 0 {
			return wV((*vars)[r.Intn(len(*vars))])
		}
		return newVar()
	}
	k := r.Intn(20)
	if g.flat && k >= 15 && k != 18 {
		k = r.Intn(15)
	}
	switch {
	case k < 6:
		return wI(1 + r.Intn(dom))
	case k < 10:
		return wA(pick(r, []string{"a", "b", "c"}[:dom]))
	case k < 14:
		return anyVar()
	case k < 15:
		return wC("f", wI(1+r.Intn(dom)))
	case k < 17:
		return wC("f", anyVar())
	case k < 18:
		return wC("g", anyVar(), anyVar())
	case k < 19:
		return wList(wNil, wI(1), wI(1+r.Intn(dom)))
	default:
		return wList(anyVar(), wI(1+r.Intn(dom)))
	}
}

type c11pred struct {
	name  string
	arity int
}

func (g *c11g) program(tier string) ([]string, []c11pred) {
	r := g.r
	preds := []c11pred{{"p", 2}, {"q", 2}, {"t", 3}, {"u", 1}}
	r.Shuffle(len(preds), func(i, j int) { preds[i], preds[j] = preds[j], preds[i] })
	preds = preds[:1+r.Intn(2)]
	var clauses []string
	for _, p := range preds {
		n := 1 + r.Intn(5)
		if tier == "thorough" && r.Intn(4) == 0 {
			n += r.Intn(6)
		}
		if r.Intn(40) == 0 {
			n = 0
		}
		dom := 1 + r.Intn(3)
		// column styles: 0 = mixed, 1 = ground small domain, 2 = variables
		styles := make([]int, p.arity)
		for c := range styles {
			styles[c] = r.Intn(3)
		}
		for j := 0; j < n; j++ {
			var vars []int
			args := make([]string, p.arity)
			for c := range args {
				switch styles[c] {
				case 1:
					if r.Intn(2) == 0 {
						args[c] = wI(1 + r.Intn(dom))
					} else {
						args[c] = wA(pick(r, []string{"a", "b", "c"}[:dom]))
					}
				case 2:
					if len(vars) > 0 && r.Intn(3) == 0 {
						args[c] = wV(vars[r.Intn(len(vars))])
					} else if r.Intn(4) == 0 {
						args[c] = g.factValue(&vars, dom)
					} else {
						vars = append(vars, len(vars))
						args[c] = wV(len(vars) - 1)
					}
				default:
					args[c] = g.factValue(&vars, dom)
				}
			}
			clauses = append(clauses, wC(p.name, args...))
		}
	}
	return clauses, preds
}

func (g *c11g) goalVar() int {
	if !g.flat {
		// linear: a variable that has not been used in the goal yet
		var v int
		if len(g.pool) > 0 {
			v, g.pool = g.pool[0], g.pool[1:]
		} else {
			v = g.fresh()
		}
		g.goalVars = append(g.goalVars, v)
		return v
	}
	v := g.r.Intn(4)
	for _, w := range g.goalVars {
		if w == v {
			return v
		}
	}
	g.goalVars = append(g.goalVars, v)
	return v
}

func (g *c11g) goalArg() string {
	r := g.r
	k := r.Intn(20)
	if g.flat && (k == 16 || k == 17 || k == 19) {
		k = r.Intn(16)
	}
	switch {
	case k < 14:
		return wV(g.goalVar())
	case k < 15:
		return wI(1 + r.Intn(2))
	case k < 16:
		return wA(pick(r, []string{"a", "b"}))
	case k < 18:
		return wC("f", wV(g.goalVar()))
	case k < 19:
		return wV(g.fresh()) // a variable occurring once
	default:
		return wList(wV(g.goalVar()), wV(g.goalVar()))
	}
}

func (g *c11g) atomicGoal(preds []c11pred) string {
	r := g.r
	switch k := r.Intn(20); {
	case k < 13:
		p := pick(r, preds)
		args := make([]string, p.arity)
		for i := range args {
			args[i] = g.goalArg()
		}
		return wC(p.name, args...)
	case k < 16:
		n := 1 + r.Intn(4)
		items := make([]string, n)
		for i := range items {
			c := r.Intn(6)
			if g.flat && c >= 4 {
				c = r.Intn(4)
			}
			switch c {
			case 0, 1:
				items[i] = wI(1 + r.Intn(3))
			case 2:
				items[i] = wA(pick(r, []string{"a", "b"}))
			case 3:
				items[i] = wV(g.goalVar())
			case 4:
				items[i] = wC("f", wV(g.goalVar()))
			default:
				a, b := g.goalArg(), g.goalArg()
				items[i] = wC("-", a, b)
			}
		}
		var x string
		if !g.flat && r.Intn(4) == 0 {
			x = wC("-", wV(g.goalVar()), wV(g.goalVar()))
		} else {
			x = wV(g.goalVar())
		}
		return wC("member", x, wList(wNil, items...))
	case k < 17:
		return wC("=", wV(g.goalVar()), g.goalArg())
	case k < 18:
		if r.Intn(3) == 0 {
			return wA(pick(r, []string{"true", "fail"}))
		}
		return wC("\\+", wC("=", wV(g.goalVar()), wI(1)))
	case k < 19 && r.Intn(2) == 0:
		// goals that raise errors
		switch r.Intn(5) {
		case 0:
			return wV(g.fresh())
		case 1:
			return wI(3)
		case 2:
			return wC("undefined_pred", wV(g.goalVar()))
		case 3:
			return wC("is", wV(g.goalVar()), wC("+", wA("foo"), wI(1)))
		default:
			x := g.goalVar()
			return wC(",", wC("member", wV(x), wList(wNil, wI(1), wI(2), wA("a"))),
				wC("is", wV(g.fresh()), wC("+", wV(x), wI(1))))
		}
	default:
		p := pick(r, preds)
		args := make([]string, p.arity)
		for i := range args {
			args[i] = wV(g.goalVar())
		}
		return wC(p.name, args...)
	}
}

func (g *c11g) template() string {
	r := g.r
	gv := func() string {
		if len(g.goalVars) == 0 || r.Intn(8) == 0 {
			return wV(r.Intn(4))
		}
		return wV(pick(r, g.goalVars))
	}
	switch k := r.Intn(20); {
	case k < 9:
		return gv()
	case k < 13:
		return wC("-", gv(), gv())
	case k < 15:
		return wC("f", gv(), gv(), gv())
	case k < 16:
		return wI(1)
	case k < 17:
		return wV(g.fresh())
	case k < 18:
		x := gv()
		return wC("-", x, x)
	case k < 19:
		return wList(gv(), gv())
	default:
		return wC("-", gv(), wV(g.fresh()))
	}
}

func (g *c11g) caret(goal string) string {
	r := g.r
	n := r.Intn(3)
	for i := 0; i <= n; i++ {
		var v string
		switch k := r.Intn(12); {
		case k < 6 && len(g.goalVars) > 0:
			v = wV(pick(r, g.goalVars))
		case k < 8 && len(g.goalVars) > 0:
			v = wC("+", wV(pick(r, g.goalVars)), wV(pick(r, g.goalVars)))
		case k < 9:
			v = wV(g.fresh())
		case k < 10:
			v = wA("a")
		case k < 11 && len(g.goalVars) > 0:
			v = wC("f", wV(pick(r, g.goalVars)))
		default:
			v = wV(r.Intn(4))
		}
		goal = wC("^", v, goal)
	}
	return goal
}

func (g *c11g) instances(shareable []int, nsolsHint int) string {
	r := g.r
	lin := func() string { // a term without repeated or shared variables
		switch r.Intn(6) {
		case 0:
			return wI(1 + r.Intn(3))
		case 1:
			return wA(pick(r, []string{"a", "b"}))
		case 2:
			return wC("-", wV(g.fresh()), wV(g.fresh()))
		case 3:
			return wC("f", wI(1+r.Intn(2)))
		default:
			return wV(g.fresh())
		}
	}
	switch k := r.Intn(40); {
	case k < 20:
		return wV(g.fresh())
	case k < 26:
		n := nsolsHint
		if r.Intn(3) == 0 {
			n = r.Intn(4)
		}
		xs := make([]string, n)
		for i := range xs {
			xs[i] = wV(g.fresh())
		}
		if r.Intn(2) == 0 {
			return wList(wNil, xs...)
		}
		return wList(wV(g.fresh()), xs...)
	case k < 32:
		n := 1 + r.Intn(3)
		xs := make([]string, n)
		for i := range xs {
			xs[i] = lin()
		}
		if r.Intn(3) == 0 {
			return wList(wV(g.fresh()), xs...)
		}
		return wList(wNil, xs...)
	case k < 34:
		return pick(r, []string{wA("foo"), wI(7), wList(wA("b"), wA("a")), wC("f", wV(g.fresh())), wList(wI(3), wV(g.fresh()))})
	case k < 35:
		return wNil
	default:
		// exactly one occurrence of a variable of the call (free variable, template variable, ...)
		if len(shareable) == 0 {
			return wV(g.fresh())
		}
		s := wV(pick(r, shareable))
		switch r.Intn(4) {
		case 0:
			return s
		case 1:
			return wList(wV(g.fresh()), s)
		case 2:
			return wList(s, wV(g.fresh()))
		default:
			return wList(wNil, wV(g.fresh()), s)
		}
	}
}

func genC11Case(r *rand.Rand, tier string) string {
	g := &c11g{r: r, flat: r.Intn(2) == 0, nextVar: 4, pool: []int{0, 1, 2, 3}}
	r.Shuffle(len(g.pool), func(i, j int) { g.pool[i], g.pool[j] = g.pool[j], g.pool[i] })
	clauses, preds := g.program(tier)
	kind := pick(r, []string{"findall", "bagof", "bagof", "setof", "setof"})

	var goal string
	switch k := r.Intn(20); {
	case k < 11:
		goal = g.atomicGoal(preds)
	case k < 14:
		goal = wC(",", g.atomicGoal(preds), g.atomicGoal(preds))
	case k < 16:
		goal = wC(";", g.atomicGoal(preds), g.atomicGoal(preds))
	default:
		// nested all-solutions call; its Instances argument is a goal variable
		ik := pick(r, []string{"findall", "bagof", "setof"})
		inner := g.atomicGoal(preds)
		if r.Intn(3) == 0 {
			inner = wC(",", inner, g.atomicGoal(preds))
		}
		it := g.template()
		if ik != "findall" && r.Intn(2) == 0 {
			inner = g.caret(inner)
		}
		// its Instances argument is a variable of the outer goal that occurs nowhere else in it
		l := g.fresh()
		g.goalVars = append(g.goalVars, l)
		goal = wC(ik, it, inner, wV(l))
	}
	tmpl := g.template()
	if kind != "findall" && r.Intn(5) < 2 || kind == "findall" && r.Intn(25) == 0 {
		goal = g.caret(goal)
	}
	// call-time bindings
	var binds []string
	if r.Intn(6) == 0 {
		switch r.Intn(4) {
		case 0: // the goal is reached through a variable
			gv := g.fresh()
			binds = append(binds, wC("=", wV(gv), goal))
			goal = wV(gv)
		case 1: // the body under a ^ is reached through a variable
			gv := g.fresh()
			binds = append(binds, wC("=", wV(gv), goal))
			if len(g.goalVars) > 0 {
				goal = wC("^", wV(pick(r, g.goalVars)), wV(gv))
			} else {
				goal = wV(gv)
			}
		case 2: // a goal variable is bound to a constant
			binds = append(binds, wC("=", wV(r.Intn(4)), wI(1+r.Intn(2))))
		default: // a goal variable is bound to a term with another variable
			if g.flat {
				binds = append(binds, wC("=", wV(r.Intn(4)), wA("b")))
			} else {
				binds = append(binds, wC("=", wV(r.Intn(4)), wC("f", wV(g.fresh()))))
			}
		}
	}
	inst := g.instances(append([]int{0, 1, 2, 3}, g.goalVars...), 1+r.Intn(3))
	return strings.Join([]string{kind, strings.Join(clauses, " ; "), strings.Join(binds, " ; "), tmpl, goal, inst}, " | ")
}

// ---------------------------------------------------------------------------
// list family: instances, witnesses and templates that are LISTS, in every Go representation
// (see c11Rep): proper lists that are prefixes of each other (setof must order them by the standard
// order whatever the encoding), and open lists [E1,..,En|T] whose tail variable is shared with another
// part of the instance, with the witness, or between instances (copies must keep the sharing).
// All goals stay free of occurs-check problems: linear calls against renamed facts, or variables that
// are bound to ground terms before they are used again.
// ---------------------------------------------------------------------------

type c11lg struct {
	r    *rand.Rand
	mode int // 0 = slice-backed encodings preferred, 1 = '.'/2 cells, 2 = mixed
}

// encode a list with the given elements (wire texts) and tail (wNil for a proper list)
func (g *c11lg) enc(elems []string, tail string) string {
	r := g.r
	if len(elems) == 0 {
		return tail
	}
	m := g.mode
	if m == 2 {
		m = r.Intn(3)
		if m == 2 && len(elems) >= 2 {
			// a prefix in one encoding, the rest in another
			k := 1 + r.Intn(len(elems)-1)
			rest := (&c11lg{r: r, mode: r.Intn(2)}).enc(elems[k:], tail)
			return (&c11lg{r: r, mode: r.Intn(2)}).enc(elems[:k], rest)
		}
		m = m % 2
	}
	if m == 1 {
		return wList(tail, elems...)
	}
	if tail == wNil && r.Intn(8) != 0 {
		return wC("$l", elems...)
	}
	return wC("$p", append(append([]string{}, elems...), tail)...)
}

// a proper list of one-character atoms, possibly as a string
func (g *c11lg) encChars(chars string) string {
	r := g.r
	if chars == "" {
		return wNil
	}
	switch r.Intn(4) {
	case 0:
		return wC("$s", wA(chars))
	default:
		elems := make([]string, len(chars))
		for i, c := range chars {
			elems[i] = wA(string(c))
		}
		return g.enc(elems, wNil)
	}
}

// lists over a small alphabet, many of them prefixes of one another
func (g *c11lg) prefixPool() []string {
	r := g.r
	base := pick(r, []string{"abc", "abcd", "aab", "abz"})
	var pool []string
	for i := 0; i <= len(base); i++ {
		if i > 0 || r.Intn(3) == 0 {
			pool = append(pool, base[:i])
		}
	}
	pool = append(pool, pick(r, []string{"az", "b", "ab", "a", "ba", "abd"}))
	if r.Intn(2) == 0 {
		pool = append(pool, pick(r, []string{"z", "aa", "abcz", "ac"}))
	}
	return pool
}

func (g *c11lg) instArg(next *int) string {
	r := g.r
	fresh := func() string { *next++; return wV(*next - 1) }
	switch k := r.Intn(20); {
	case k < 16:
		return fresh()
	case k < 18:
		return wC("$p", fresh(), fresh())
	case k < 19:
		return wC("$l", fresh(), fresh())
	default:
		return wList(fresh(), fresh(), fresh())
	}
}

func genC11ListCase(r *rand.Rand, tier string) string {
	g := &c11lg{r: r, mode: pick(r, []int{0, 0, 0, 1, 2, 2})}
	next := 6 // V0..V5 are used by the shapes below
	var clauses []string
	var tmpl, goal string
	kind := pick(r, []string{"setof", "setof", "setof", "setof", "bagof", "findall"})
	caret := func(v int, gl string) string { return wC("^", wV(v), gl) }
	wrap := func(l string, k string) string { // a template around the list l (and the key k)
		switch r.Intn(8) {
		case 0:
			return wC("-", k, l)
		case 1:
			return wC("f", l)
		case 2:
			return wC("-", l, k)
		case 3:
			return g.enc([]string{l, k}, wNil)
		case 4:
			return wC("-", l, l)
		default:
			return l
		}
	}
	switch shape := r.Intn(20); {
	case shape < 5:
		// A. facts path(Key, List): setof over lists that are prefixes of one another
		pool := g.prefixPool()
		keys := []string{wA("n"), wA("m"), wI(1)}[:1+r.Intn(3)]
		n := 3 + r.Intn(5)
		if tier == "thorough" {
			n += r.Intn(4)
		}
		for i := 0; i < n; i++ {
			clauses = append(clauses, wC("path", pick(r, keys), g.encChars(pick(r, pool))))
		}
		goal = wC("path", wV(0), wV(1))
		switch r.Intn(4) {
		case 0:
			goal = caret(0, goal)
		case 1:
			goal = wC("path", keys[0], wV(1))
		}
		tmpl = wrap(wV(1), wV(0))
	case shape < 8:
		// B. the lists are given in the goal: member(L, [L1, L2, ...])
		pool := g.prefixPool()
		n := 2 + r.Intn(4)
		items := make([]string, n)
		for i := range items {
			items[i] = g.encChars(pick(r, pool))
			if r.Intn(6) == 0 { // a list of lists
				items[i] = g.enc([]string{items[i], g.encChars(pick(r, pool))}, wNil)
			}
		}
		goal = wC("member", wV(1), g.enc(items, wNil))
		tmpl = wrap(wV(1), wA("k"))
	case shape < 10:
		// C. strings: char lists and code lists that are prefixes of one another
		base := pick(r, []string{"abc", "abcd", "aab"})
		n := 2 + r.Intn(4)
		items := make([]string, n)
		codes := r.Intn(3) == 0
		for i := range items {
			p := base[:1+r.Intn(len(base))]
			switch {
			case codes && r.Intn(2) == 0:
				items[i] = wC("$c", wA(p))
			case codes:
				elems := make([]string, len(p))
				for j, c := range p {
					elems[j] = wI(int(c))
				}
				items[i] = g.enc(elems, wNil)
			default:
				items[i] = g.encChars(p)
				if r.Intn(2) == 0 {
					items[i] = wC("$s", wA(p))
				}
			}
		}
		if r.Intn(2) == 0 {
			goal = wC("member", wV(1), g.enc(items, wNil))
		} else {
			for _, it := range items {
				clauses = append(clauses, wC("path", wA("n"), it))
			}
			goal = wC("path", wV(0), wV(1))
		}
		tmpl = wrap(wV(1), wA("k"))
	case shape < 12:
		// D. the spine of the instance is completed by an earlier goal
		pool := g.prefixPool()
		n := 2 + r.Intn(3)
		tails := make([]string, n)
		for i := range tails {
			tails[i] = g.encChars(pick(r, pool))
		}
		prefix := []string{wA("a"), wA("b"), wA("c")}[:1+r.Intn(3)]
		var second string
		if r.Intn(3) == 0 {
			second = wC("append", g.enc(prefix, wNil), wV(2), wV(1))
		} else {
			second = wC("=", wV(1), g.enc(prefix, wV(2)))
		}
		goal = wC(",", wC("member", wV(2), g.enc(tails, wNil)), second)
		if r.Intn(4) != 0 {
			goal = caret(2, goal)
		}
		tmpl = wrap(wV(1), wA("k"))
	case shape < 14:
		// F. lists as witnesses: the same list in different encodings must fall into one group
		pool := g.prefixPool()[:3]
		n := 3 + r.Intn(5)
		for i := 0; i < n; i++ {
			gg := &c11lg{r: r, mode: r.Intn(3)}
			clauses = append(clauses, wC("pw", wI(1+r.Intn(3)), gg.encChars(pick(r, pool))))
		}
		goal = wC("pw", wV(0), wV(1))
		tmpl = pick(r, []string{wV(0), wC("f", wV(0))})
	default:
		// E. open lists [E1,..,En|T] whose tail is shared
		kind = pick(r, []string{"findall", "bagof", "setof", "findall", "bagof", "setof", "setof"})
		elemsOf := func(tailVar string) []string {
			n := 2 + r.Intn(3)
			if r.Intn(8) == 0 {
				n = 1
			}
			es := make([]string, n)
			for i := range es {
				es[i] = pick(r, []string{wA("a"), wA("b"), wA("x"), wA("y"), wI(1)})
				if tailVar != "" && r.Intn(8) == 0 {
					es[i] = tailVar // the tail also occurs as an element
				}
			}
			return es
		}
		openT := func(l, t string) string { // a template that mentions the list and its tail
			switch r.Intn(8) {
			case 0:
				return wC("f", t, l)
			case 1:
				return l
			case 2:
				return wC("-", wC("-", t, l), t)
			case 3:
				return g.enc([]string{l, t}, wNil)
			default:
				return wC("-", l, t)
			}
		}
		switch r.Intn(6) {
		case 0: // L = [a,b|T]
			goal = wC("=", wV(1), g.enc(elemsOf(wV(2)), wV(2)))
			tmpl = openT(wV(1), wV(2))
		case 1, 2: // dl(N, [..|T], T): difference lists in facts; Hole is a free variable or in the template
			n := 2 + r.Intn(3)
			for i := 0; i < n; i++ {
				key := wI(1 + r.Intn(2))
				if r.Intn(3) == 0 {
					key = wI(i + 1)
				}
				clauses = append(clauses, wC("dl", key, g.enc(elemsOf(wV(0)), wV(0)), wV(0)))
			}
			goal = wC("dl", wV(0), wV(1), wV(2))
			switch r.Intn(5) {
			case 0:
				tmpl = wC("-", wV(0), wV(1)) // Hole free
			case 1:
				tmpl = wV(1) // N and Hole free
			case 2:
				tmpl = openT(wV(1), wV(2))
			case 3:
				tmpl = wC("f", wV(2), wV(1), wV(0))
			default:
				tmpl = wV(1)
				goal = caret(0, goal) // Hole free
			}
		case 3: // append/3 makes the open list
			prefix := elemsOf("")
			var pl string
			if r.Intn(3) == 0 {
				pl = wC("$s", wA(pick(r, []string{"ab", "abc", "xy"})))
			} else {
				pl = g.enc(prefix, wNil)
			}
			goal = wC("append", pl, wV(2), wV(1))
			tmpl = openT(wV(1), wV(2))
		case 4: // the template itself is an open list; its tail occurs again in the template
			goal = wC("member", wV(0), g.enc([]string{wI(1), wI(2), wI(1)}, wNil))
			l := g.enc([]string{wV(0), pick(r, []string{wA("k"), wV(0)}), wA("z")}[:2+r.Intn(2)], wV(2))
			tmpl = openT(l, wV(2))
		default: // two parts of one instance share the tail; instances of one group share it through the witness
			n := 2 + r.Intn(2)
			for i := 0; i < n; i++ {
				clauses = append(clauses, wC("q", pick(r, []string{wA("k"), wA("j")}), g.enc(elemsOf(""), wV(0)), wV(0)))
			}
			goal = wC("q", wV(0), wV(1), wV(2))
			tmpl = pick(r, []string{wV(1), wC("-", wV(1), wV(1)), wC("-", wV(0), wV(1))})
		}
	}
	inst := g.instArg(&next)
	return strings.Join([]string{kind, strings.Join(clauses, " ; "), "", tmpl, goal, inst}, " | ")
}

func genC11(r *rand.Rand, n int, tier string) []string {
	out := make([]string, 0, n)
	for i := 0; i < n; i++ {
		if r.Intn(3) == 0 {
			out = append(out, genC11ListCase(r, tier))
		} else {
			out = append(out, genC11Case(r, tier))
		}
	}
	return out
}

// ---------------------------------------------------------------------------
// stream c11.variant: variant/2 and renamedCopy called directly (hooks VerifVariant, VerifRenamedCopy)
//   payload:  v | T1 | T2      impl: true | false
//             c | T            impl: c(T, Copy) canonicalised by first occurrence
// ---------------------------------------------------------------------------

func init() {
	register(&stream{name: "c11.variant", gen: genC11Variant, run: runC11Variant})
}

func runC11Variant(payload string) string {
	f := c11Fields(payload)
	d := newTermDecoder()
	k := c11MaxVar(f[1:]...)
	for n := 0; n <= k; n++ {
		d.variable(n)
	}
	dec1 := func(s string) engine.Term {
		ts, err := d.terms(s)
		must(err)
		return c11Rep(ts[0])
	}
	switch f[0] {
	case "v":
		t1, t2 := dec1(f[1]), dec1(f[2])
		r := engine.VerifVariant(t1, t2, nil)
		n1, n2 := map[engine.Variable]bool{}, map[engine.Variable]bool{}
		c11Vars(t1, nil, n1, 0)
		c11Vars(t2, nil, n2, 0)
		nt := 0
		if len(n1) >= 2 && len(n2) >= 1 {
			nt = 1
		}
		return fmt.Sprintf("%v ### nt=%d op=variant result=%v vars1=%s vars2=%s", r, nt, r, bucket_c11(len(n1)), bucket_c11(len(n2)))
	case "c":
		t := dec1(f[1])
		c, err := engine.VerifRenamedCopy(t, nil)
		must(err)
		n1 := map[engine.Variable]bool{}
		c11Vars(t, nil, n1, 0)
		nt := 0
		if len(n1) >= 2 {
			nt = 1
		}
		vn := newVarNamer()
		return fmt.Sprintf("%s ### nt=%d op=copy vars1=%s", c11Wire(compound("c", t, c), nil, vn.name), nt, bucket_c11(len(n1)))
	}
	panic("c11.variant: bad op")
}

// a random term over variables V0..V(nv-1); returns wire text
func c11RandTerm(r *rand.Rand, depth, nv int) string {
	switch k := r.Intn(10); {
	case k < 3 || depth == 0:
		if r.Intn(6) == 0 {
			return pick(r, []string{wA("a"), wA("b"), wI(1), wI(2), wNil})
		}
		return wV(r.Intn(nv))
	case k < 7:
		return wC(pick(r, []string{"f", "g"}), c11RandTerm(r, depth-1, nv))
	case k < 9:
		return wC(pick(r, []string{"f", ",", "-"}), c11RandTerm(r, depth-1, nv), c11RandTerm(r, depth-1, nv))
	default:
		return wC("h", c11RandTerm(r, depth-1, nv), c11RandTerm(r, depth-1, nv), c11RandTerm(r, depth-1, nv))
	}
}

// rename the variables of a wire term with a map (variables are tokens V<n>)
func c11RenameWire(t string, m func(int) int) string {
	toks := strings.Fields(t)
	for i, tok := range toks {
		if tok[0] == 'V' {
			n, _ := strconv.Atoi(tok[1:])
			toks[i] = wV(m(n))
		}
	}
	return strings.Join(toks, " ")
}

func genC11Variant(r *rand.Rand, n int, tier string) []string {
	out := make([]string, 0, n)
	for i := 0; i < n; i++ {
		nv := 1 + r.Intn(4)
		if r.Intn(4) != 0 {
			nv = 2 + r.Intn(3)
		}
		t1 := c11RandTerm(r, 2+r.Intn(3), nv)
		if r.Intn(4) == 0 {
			// lists in the Go representations of c11Rep: proper, and open with the tail occurring again
			lg := &c11lg{r: r, mode: r.Intn(3)}
			n := 1 + r.Intn(4)
			es := make([]string, n)
			for j := range es {
				es[j] = c11RandTerm(r, r.Intn(2), nv)
			}
			tail := wNil
			if r.Intn(3) != 0 {
				tail = wV(r.Intn(nv))
			}
			l := lg.enc(es, tail)
			t1 = pick(r, []string{l, wC("-", l, tail), wC("f", tail, l), wC("-", l, l), wC("-", l, t1)})
		}
		if r.Intn(5) == 0 {
			out = append(out, "c | "+t1)
			continue
		}
		var t2 string
		switch r.Intn(6) {
		case 0: // a bijective renaming onto new variables
			perm := r.Perm(nv)
			t2 = c11RenameWire(t1, func(v int) int { return 10 + perm[v] })
		case 1: // a permutation of its own variables
			perm := r.Perm(nv)
			t2 = c11RenameWire(t1, func(v int) int { return perm[v] })
		case 2: // a renaming that is not one-to-one (D11: true one way round on the pinned tree)
			t2 = c11RenameWire(t1, func(v int) int { return 10 + v/2 })
		case 3: // ... and the other way round
			t2 = t1
			t1 = c11RenameWire(t2, func(v int) int { return 10 + v/2 })
		case 4: // an unrelated term
			t2 = c11RandTerm(r, 1+r.Intn(3), nv)
		default: // same shape, one variable replaced by a constant
			target := r.Intn(nv)
			toks := strings.Fields(c11RenameWire(t1, func(v int) int { return 10 + v }))
			for j, tok := range toks {
				if tok == wV(10+target) && r.Intn(2) == 0 {
					toks[j] = wA("a")
				}
			}
			t2 = strings.Join(toks, " ")
		}
		out = append(out, "v | "+t1+" | "+t2)
	}
	return out
}
