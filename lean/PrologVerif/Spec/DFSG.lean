/-
  Reference semantics of the trampoline, GENERIC in the semantics record `Sem τ ρ ε σ`: the textbook
  recursive depth-first, left-to-right search with a cut barrier and catch/throw of `Spec/DFS.lean`,
  but over PROMISES that are produced lazily by `sem.evalThunk` (instead of static promise trees).
  A recursive function returning a signal — no stack.

  `live` lists the ids of the identified frames (promises with `id ≠ 0`) on the path to the root
  whose alternatives are still pending, innermost first.  It is only used to recognise well-scoped
  searches: every cut parent is a live ancestor, ids on a path are distinct (and non-zero).

  A signal that travels up carries the outermost cut executed so far that has not yet reached its
  parent (`co`), exactly as in `Spec/DFS.lean`.

  The machine state `M σ` is threaded exactly, the poll counter `M.iter` included (a thunk may read
  it: the nested trampolines of the VM poll the same context): `tick` marks the places where the
  trampoline spends one iteration.  `tf` is the fuel handed to `sem.evalThunk` (`none` = that fuel
  does not suffice; the search is then undefined).
-/
import PrologVerif.Model.Promise
namespace PrologVerif.DFSG
open PrologVerif.Promise

inductive SigG (ε : Type) where
  | found                               -- a success leaf was reached: the search stops
  | exhausted (co : Option Nat)         -- the subtree is exhausted (co = some c: and everything up to c is discarded)
  | raised (e : ε) (co : Option Nat)    -- an error is travelling up
  | illScoped                           -- outside the spec's domain (see above)
  deriving DecidableEq, Repr

variable {τ ρ ε σ : Type}

/-- the cut with parent `c` has been executed, then the rest of the subtree signalled `r` -/
def afterCut (c : Nat) : SigG ε → SigG ε
  | .exhausted none => .exhausted (some c)
  | .raised e none => .raised e (some c)
  | r => r    -- found; or a cut further out has been executed since (it subsumes this one)

/-- one iteration of the trampoline -/
def tick (m : M σ) : M σ := { m with iter := m.iter + 1 }

/-- a signal passes the frame `id` on its way up.  A cut whose parent is this frame ends here; when
    the search then backtracks, one iteration is spent on the exhausted parent. -/
def absorb (id : Nat) : SigG ε → M σ → SigG ε × M σ
  | .exhausted (some c), m => if c = id then (.exhausted none, tick m) else (.exhausted (some c), m)
  | .raised e (some c), m => if c = id then (.raised e none, m) else (.raised e (some c), m)
  | r, m => (r, m)

/-- the live ids once the frame `id` is on the path (`id = 0`: the frame is not identified) -/
def push (id : Nat) (live : List Nat) : List Nat := if id = 0 then live else id :: live

mutual
  /-- the search below the promise `p` -/
  def dfsP (sem : Sem τ ρ ε σ) (tf : Nat) : Nat → P τ ρ ε → List Nat → M σ → Option (SigG ε × M σ)
    | 0, _, _, _ => none
    | k + 1, p, live, m =>
      let m := tick m
      match p.delayed with
      | [] =>
        -- a leaf: error / success / failure
        match p.err with
        | some e => some (.raised e none, m)
        | none => some (if p.ok then .found else .exhausted none, m)
      | t :: _ =>
        if p.id ≠ 0 ∧ live.contains p.id then some (.illScoped, m)
        else
          -- the frame that stays behind while the first alternative is searched: the first thunk
          -- is dropped (unless the promise repeats), the cut is performed once only
          let f := afterChild { p with cutParent := none }
          match p.cutParent with
          | none => dfsAlts sem tf k t f live m
          | some c =>
            if live.contains c then
              -- everything created since c was called is discarded, c's own remaining alternatives
              -- included; c itself stays as the barrier for later cuts of the same clause
              match dfsAlts sem tf k t f (live.dropWhile (· ≠ c)) m with
              | none => none
              | some (r, m') => some (afterCut c r, m')
            else some (.illScoped, m)
  /-- the alternatives of a frame, in order: first the thunk `t`, then what is left in the frame `f` -/
  def dfsAlts (sem : Sem τ ρ ε σ) (tf : Nat) : Nat → τ → P τ ρ ε → List Nat → M σ → Option (SigG ε × M σ)
    | 0, _, _, _, _ => none
    | k + 1, t, f, live, m =>
      match sem.evalThunk tf t m with
      | none => none
      | some (q, m1) =>
        match dfsP sem tf k q (push f.id live) m1 with
        | none => none
        | some (.exhausted none, m2) => dfsP sem tf k f live m2     -- backtrack: the next alternative
        | some (.raised e none, m2) =>
          -- the frame has not been cut away; its handler (if any) is offered the error
          match f.recover with
          | none => some (.raised e none, m2)
          | some h =>
            match sem.evalRecover h e m2 with
            | (none, m3) => some (.raised e none, m3)               -- declined
            | (some q', m3) => dfsP sem tf k q' live m3             -- the search continues in the recovery promise
        | some (r, m2) => some (absorb f.id r m2)
end

end PrologVerif.DFSG
