/-
  P2 (writeq with operators reads back), lexing half, stage A: single tokens, generically in the fuel and
  in the "after layout" flag, so that every single-token lemma also holds for the text preceded by a space.
-/
import PrologVerif.Proofs.OpRoundtripDefs
set_option linter.unusedSimpArgs false
set_option linter.unusedVariables false
namespace PrologVerif.Write
open PrologVerif PrologVerif.Lexer PrologVerif.Ops

section
variable (cfg : Cfg)

/-- generic one-token statement: `layoutTextSequence` on `x ++ tail` delivers `tok` and leaves `tail`,
    for every sufficient fuel and both values of the flag "after layout" -/
def LexTokG (x : List Char) (tok : Token) (tail : List Char) : Prop :=
  ∀ (fuel : Nat) (al : Bool) (hist : List Char) (ring : Ring), (x ++ tail).length + 2 ≤ fuel →
    ∃ l', layoutTextSequence cfg fuel al ⟨hist, x ++ tail, [], ring⟩ = .ok (tok, l') ∧ l'.rest = tail

theorem LexTokG.lexTok {x : List Char} {tok : Token} {tail : List Char} (h : LexTokG cfg x tok tail) :
    LexTok cfg x tok tail := by
  intro hist chunk ring
  exact h (tokenFuel ⟨hist, x ++ tail, chunk, ring⟩) false hist ring (by simp [tokenFuel]; omega)

/-- a space before the token does not change it -/
theorem LexTokG.sp (hconv : ∀ c, cfg.conv c = c) {x : List Char} {tok : Token} {tail : List Char}
    (h : LexTokG cfg x tok tail) : LexTokG cfg (' ' :: x) tok tail := by
  intro fuel al hist ring hf
  obtain ⟨fuel, rfl⟩ : ∃ f, fuel = f + 1 := ⟨fuel - 1, by simp at hf; omega⟩
  obtain ⟨l', e1, e2⟩ := h fuel true (' ' :: hist) ring.read (by simp at hf ⊢; omega)
  refine ⟨l', ?_, e2⟩
  have h1 : isLayoutChar cfg ' ' = true := rfl
  simp only [List.cons_append, layoutTextSequence, next, rawNext, hconv, h1, if_true]
  exact e1

theorem LexTokG.lexTok_sp (hconv : ∀ c, cfg.conv c = c) {x : List Char} {tok : Token} {tail : List Char}
    (h : LexTokG cfg x tok tail) : LexTok cfg (' ' :: x) tok tail := (h.sp cfg hconv).lexTok

/-- the same one level below: `token` on `x ++ tail` -/
def TokenOn (x : List Char) (tok : Token) (tail : List Char) : Prop :=
  ∀ (fuel : Nat) (al : Bool) (hist : List Char) (ring : Ring), (x ++ tail).length + 1 ≤ fuel →
    ∃ l', token cfg fuel al ⟨hist, x ++ tail, [], ring⟩ = .ok (tok, l') ∧ l'.rest = tail

theorem TokenOn.lexTokG (hconv : ∀ c, cfg.conv c = c) {c : Char} {w : List Char} {tok : Token} {tail : List Char}
    (h : TokenOn cfg (c :: w) tok tail) (h1 : isLayoutChar cfg c = false) (h2 : c ≠ '%') (h3 : c ≠ '/') :
    LexTokG cfg (c :: w) tok tail := by
  intro fuel al hist ring hf
  obtain ⟨fuel, rfl⟩ : ∃ f, fuel = f + 1 := ⟨fuel - 1, by simp at hf; omega⟩
  obtain ⟨l', e1, e2⟩ := h fuel al hist ring.read.unread (by simp at hf ⊢; omega)
  refine ⟨l', ?_, e2⟩
  simp only [List.cons_append, layoutTextSequence, next, rawNext, hconv, h1, h2, h3, Bool.false_eq_true, if_false, backup]
  exact e1

/-! ## names -/

theorem lexTokG_ldName (hconv : ∀ c, cfg.conv c = c) (s tail : List Char) (hs : LDName cfg s)
    (ht : HeadIs (fun t => isAlphanumericChar cfg t = false) tail) :
    LexTokG cfg s ⟨.letterDigit, s⟩ tail := by
  obtain ⟨c, w, rfl, hl, hsm, hw⟩ := hs
  obtain ⟨h2, h3⟩ := small_ne cfg c hsm
  refine TokenOn.lexTokG cfg hconv ?_ hl h2 h3
  intro fuel al hist ring hf
  obtain ⟨l', e1, e2⟩ := letterDigitToken_run cfg hconv w fuel
    (accept ⟨c :: hist, w ++ tail, [], ring.read⟩ c) tail hw rfl ht (by simp at hf ⊢; omega)
  refine ⟨l', ?_, e2⟩
  simp only [List.cons_append, token, next, rawNext, hconv, hsm, if_true]
  simpa [accept] using e1

theorem lexTokG_graphicName (hconv : ∀ c, cfg.conv c = c) (s tail : List Char) (hs : GraphicName cfg s)
    (ht : HeadIs (fun t => isGraphicOrBs t = false) tail) :
    LexTokG cfg s ⟨.graphic, s⟩ tail := by
  obtain ⟨c, w, rfl, hg, hl, hsm, hslash, hdot⟩ := hs
  have hc := hg c (by simp)
  have hw : ∀ x ∈ w, isGraphicOrBs x = true := fun x hx => hg x (by simp [hx])
  have hpc := gbs_ne c hc
  by_cases hsl : c = '/'
  · -- `/`: through commentOpen
    subst hsl
    have hstar := hslash rfl
    intro fuel al hist ring hf
    obtain ⟨fuel, rfl⟩ : ∃ f, fuel = f + 1 + 1 := ⟨fuel - 2, by simp at hf; omega⟩
    cases hwt : w ++ tail with
    | nil =>
      obtain ⟨l', e1, e2⟩ := graphicToken_run cfg hconv w fuel
        (accept ⟨'/' :: hist, w ++ tail, [], ring.read⟩ '/') tail hw rfl ht
        (by simp at hwt; simp [hwt.1, hwt.2] at hf ⊢; omega)
      refine ⟨l', ?_, e2⟩
      simp only [List.cons_append, layoutTextSequence, commentOpen, next, rawNext, hconv, hl, Bool.false_eq_true, if_false,
        show ('/' : Char) ≠ '%' by decide, if_true]
      rw [hwt] at e1 ⊢
      simpa [accept] using e1
    | cons c2 r =>
      have h2 : c2 ≠ '*' := by
        cases w with
        | nil =>
          simp only [List.nil_append] at hwt
          have := ht c2 (by simp [hwt])
          intro e; subst e
          have hh : isGraphicOrBs '*' = true := rfl
          simp [hh] at this
        | cons x w' =>
          simp only [List.cons_append, List.cons.injEq] at hwt
          obtain ⟨rfl, _⟩ := hwt
          simpa using hstar
      obtain ⟨l', e1, e2⟩ := graphicToken_run cfg hconv w fuel
        (accept ⟨'/' :: hist, w ++ tail, [], ring.read.read.unread⟩ '/') tail hw rfl ht
        (by simp at hf ⊢; omega)
      refine ⟨l', ?_, e2⟩
      simp only [List.cons_append, layoutTextSequence, commentOpen, next, rawNext, hconv, hl, Bool.false_eq_true, if_false,
        show ('/' : Char) ≠ '%' by decide, if_true]
      rw [hwt] at e1 ⊢
      simp only [h2, if_false, backup]
      simpa [accept] using e1
  · refine TokenOn.lexTokG cfg hconv ?_ hl hpc hsl
    intro fuel al hist ring hf
    by_cases hd : c = '.'
    · -- `.` followed by something that does not end a clause
      subst hd
      obtain ⟨c2, w2, rfl, hl2⟩ := hdot rfl
      have hp2 := gbs_ne c2 (hw c2 (by simp))
      obtain ⟨l', e1, e2⟩ := graphicToken_run cfg hconv (c2 :: w2) fuel
        ⟨'.' :: hist, c2 :: w2 ++ tail, ['.'], ring.read.read.unread⟩ tail hw rfl ht (by simp at hf ⊢; omega)
      refine ⟨l', ?_, e2⟩
      simp only [token, next, rawNext, hconv, hsm, Bool.false_eq_true, if_false, if_true, wasEndChar, accept,
        List.cons_append, hl2, hp2, decide_false, Bool.or_self, backup, List.nil_append]
      simpa using e1
    · obtain ⟨l', e1, e2⟩ := graphicToken_run cfg hconv w fuel
        (accept ⟨c :: hist, w ++ tail, [], ring.read⟩ c) tail hw rfl ht (by simp at hf ⊢; omega)
      refine ⟨l', ?_, e2⟩
      simp only [isGraphicOrBs, Bool.or_eq_true, decide_eq_true_eq] at hc
      simp only [List.cons_append, token, next, rawNext, hconv, hsm, Bool.false_eq_true, if_false, hd, hc, if_true]
      simpa [accept] using e1

/-- a solo character is a token of its own, whatever follows -/
theorem lexTokG_solo (hconv : ∀ c, cfg.conv c = c) (c : Char) (tail : List Char)
    (hc : c = ';' ∨ c = '!' ∨ c = '[' ∨ c = ']' ∨ c = '{' ∨ c = '}' ∨ c = ',' ∨ c = ')' ∨ c = '|') :
    LexTokG cfg [c] ⟨soloTokenKind c, [c]⟩ tail := by
  have key : isLayoutChar cfg c = false ∧ c ≠ '%' ∧ c ≠ '/' ∧ ∀ (fuel : Nat) (al : Bool) (hist : List Char) (ring : Ring),
      token cfg fuel al ⟨hist, [c] ++ tail, [], ring⟩ =
        .ok (⟨soloTokenKind c, [c]⟩, ⟨c :: hist, tail, [c], ring.read⟩) := by
    rcases hc with h|h|h|h|h|h|h|h|h <;> subst h <;> refine ⟨rfl, by decide, by decide, ?_⟩ <;>
      intro fuel al hist ring <;> simp only [List.singleton_append, token, next, rawNext, hconv] <;> rfl
  obtain ⟨k1, k2, k3, k4⟩ := key
  refine TokenOn.lexTokG cfg hconv ?_ k1 k2 k3
  intro fuel al hist ring hf
  exact ⟨_, k4 fuel al hist ring, rfl⟩

/-- ` (`: the "open" token -/
theorem lexTok_open_sp (hconv : ∀ c, cfg.conv c = c) (tail : List Char) :
    LexTok cfg [' ', '('] ⟨.open_, ['(']⟩ tail := by
  intro hist chunk ring
  refine ⟨⟨'(' :: ' ' :: hist, tail, ['('], ring.read.read.unread.read⟩, ?_, rfl⟩
  have h1 : isLayoutChar cfg ' ' = true := rfl
  have h2 : isLayoutChar cfg '(' = false := rfl
  have h3 : isSmallLetterChar cfg '(' = false := rfl
  simp only [lexToken, tokenFuel, List.cons_append, List.nil_append, List.length_cons,
    show 2 * (tail.length + 1 + 1) + 8 = (2 * tail.length + 10) + 1 + 1 from by omega,
    layoutTextSequence, next, rawNext, hconv, h1, h2, if_true, Bool.false_eq_true, if_false,
    show ('(' : Char) ≠ '%' by decide, show ('(' : Char) ≠ '/' by decide, backup, token, h3]
  rfl

/-! ## variables -/

theorem lexTokG_varName (hconv : ∀ c, cfg.conv c = c) (s tail : List Char) (hs : VarName cfg s)
    (ht : HeadIs (fun t => isAlphanumericChar cfg t = false) tail) :
    LexTokG cfg s ⟨.variable, s⟩ tail := by
  obtain ⟨w, rfl, hw⟩ := hs
  refine TokenOn.lexTokG cfg hconv ?_ rfl (by decide) (by decide)
  intro fuel al hist ring hf
  obtain ⟨l', e1, e2⟩ := variableToken_run cfg hconv w fuel
    (accept ⟨'_' :: hist, w ++ tail, [], ring.read⟩ '_') tail hw rfl ht (by simp at hf ⊢; omega)
  refine ⟨l', ?_, e2⟩
  have c1 : isSmallLetterChar cfg '_' = false := rfl
  have c2 : isGraphicChar '_' = false := rfl
  simp only [List.cons_append, token, next, rawNext, hconv, c1, c2, Bool.false_eq_true, if_false,
    show ('_' : Char) ≠ '.' by decide, show ('_' : Char) ≠ '\\' by decide, show ('_' : Char) ≠ '\'' by decide,
    or_self, true_or, if_true]
  simpa [accept] using e1

/-! ## quoted atoms -/

theorem lexTokG_quote (hconv : ∀ c, cfg.conv c = c) (s tail : List Char) (ht : tail.head? ≠ some '\'') :
    LexTokG cfg (quote cfg s) ⟨.quoted, quote cfg s⟩ tail := by
  have hq : quote cfg s = '\'' :: (quoteBody cfg s ++ ['\'']) := rfl
  rw [hq]
  refine TokenOn.lexTokG cfg hconv ?_ rfl (by decide) (by decide)
  rw [← hq]
  intro fuel al hist ring hf
  exact token_quote cfg hconv s tail fuel al ⟨hist, quote cfg s ++ tail, [], ring⟩ rfl rfl ht hf

/-! ## integers -/

/-- what may follow the digits of an integer: not a digit, and (for the integer `0`) none of the markers -/
def IntTailC (t : Char) : Prop := isDecimalDigitChar t = false ∧ t ≠ '\'' ∧ t ≠ 'b' ∧ t ≠ 'o' ∧ t ≠ 'x'

/-- the text after an integer: its first character cannot continue the number, and a `.` is not followed
    by a digit (as in `1..2`, `1.=.2`) -/
def IntFollow (tail : List Char) : Prop :=
  HeadIs IntTailC tail ∧ ∀ c r, tail = '.' :: c :: r → isDecimalDigitChar c = false

theorem integerConstant_run2 (hconv : ∀ c, cfg.conv c = c) (ds : List Char) :
    ∀ (fuel : Nat) (l : Lexer) (tail : List Char), (∀ d ∈ ds, DecD d) →
      l.rest = ds ++ tail → IntFollow tail → ds.length + 1 ≤ fuel →
      ∃ l', integerConstant cfg fuel l = .ok (⟨.integer, l.chunk ++ ds⟩, l') ∧ l'.rest = tail := by
  induction ds with
  | nil =>
    intro fuel l tail _ hl ht hf
    rcases l with ⟨hist, r, chunk, ring⟩
    simp only [List.nil_append] at hl
    subst r
    obtain ⟨fuel, rfl⟩ : ∃ f, fuel = f + 1 := ⟨fuel - 1, by simp at hf; omega⟩
    cases tail with
    | nil => exact ⟨_, by simp [integerConstant, next, rawNext, emit]; rfl, rfl⟩
    | cons t tail =>
      obtain ⟨h1, _⟩ := ht.1 t rfl
      by_cases hd : t = '.'
      · subst hd
        cases tail with
        | nil => exact ⟨_, by simp [integerConstant, next, rawNext, emit, hconv, h1, backup]; rfl, rfl⟩
        | cons c r =>
          have hc := ht.2 c r rfl
          exact ⟨_, by simp [integerConstant, next, rawNext, emit, hconv, h1, hc, backup]; rfl, rfl⟩
      · exact ⟨_, by simp [integerConstant, next, rawNext, emit, hconv, h1, hd, backup]; rfl, rfl⟩
  | cons x w ih =>
    intro fuel l tail hw hl ht hf
    rcases l with ⟨hist, r, chunk, ring⟩
    simp only [List.cons_append] at hl
    subst hl
    obtain ⟨fuel, rfl⟩ : ∃ f, fuel = f + 1 := ⟨fuel - 1, by simp at hf; omega⟩
    have hx := (decD_not x (hw x (by simp))).2.2.2.2.2
    obtain ⟨l', h1, h2⟩ := ih fuel (accept ⟨x :: hist, w ++ tail, chunk, ring.read⟩ x) tail
      (fun y hy => hw y (by simp [hy])) rfl ht (by simp at hf ⊢; omega)
    refine ⟨l', ?_, h2⟩
    simp only [integerConstant, next, rawNext, hconv, hx, if_true]
    simpa [accept] using h1

/-- a non-empty string of decimal digits is one integer token -/
theorem lexTokG_digits (hconv : ∀ c, cfg.conv c = c) (ds tail : List Char) (hne : ds ≠ [])
    (hds : ∀ d ∈ ds, DecD d) (ht : IntFollow tail) :
    LexTokG cfg ds ⟨.integer, ds⟩ tail := by
  obtain ⟨d, w, rfl⟩ := List.exists_cons_of_ne_nil hne
  obtain ⟨c1, c2, c3, c4, c5, c6, c7, c8, c9, c10, c11⟩ := decD_class cfg d (hds d (by simp))
  have hw : ∀ x ∈ w, DecD x := fun x hx => hds x (by simp [hx])
  refine TokenOn.lexTokG cfg hconv ?_ c1 c2 c3
  intro fuel al hist ring hf
  simp only [List.cons_append, token, next, rawNext, hconv, c4, c5, c6, c7, c8, c9, c10, c11, Bool.false_eq_true, if_false,
    or_self, if_true, integerToken]
  by_cases h0 : d = '0'
  · subst h0
    simp only [if_true, accept, List.nil_append]
    cases hwt : w ++ tail with
    | nil =>
      obtain ⟨l', e1, e2⟩ := integerConstant_run2 cfg hconv w fuel
        ⟨'0' :: hist, w ++ tail, ['0'], ring.read⟩ tail hw rfl ht
        (by simp at hwt; simp [hwt.1, hwt.2] at hf ⊢; omega)
      refine ⟨l', ?_, e2⟩
      rw [hwt] at e1
      simpa using e1
    | cons r rest =>
      have hr : r ≠ '\'' ∧ r ≠ 'b' ∧ r ≠ 'o' ∧ r ≠ 'x' := by
        cases w with
        | nil =>
          simp only [List.nil_append] at hwt
          obtain ⟨_, a, b, c, d⟩ := ht.1 r (by simp [hwt])
          exact ⟨a, b, c, d⟩
        | cons x w' =>
          simp only [List.cons_append, List.cons.injEq] at hwt
          obtain ⟨rfl, _⟩ := hwt
          obtain ⟨a, b, c, d, _⟩ := decD_not x (hw x (by simp))
          exact ⟨a, b, c, d⟩
      obtain ⟨l', e1, e2⟩ := integerConstant_run2 cfg hconv w fuel
        ⟨'0' :: hist, w ++ tail, ['0'], ring.read.read.unread⟩ tail hw rfl ht
        (by simp at hf ⊢; omega)
      refine ⟨l', ?_, e2⟩
      rw [hwt] at e1
      simp only [next, rawNext, hconv, hr.1, hr.2.1, hr.2.2.1, hr.2.2.2, if_false, backup]
      simpa using e1
  · obtain ⟨l', e1, e2⟩ := integerConstant_run2 cfg hconv w fuel
      (accept ⟨d :: hist, w ++ tail, [], ring.read⟩ d) tail hw rfl ht (by simp at hf ⊢; omega)
    refine ⟨l', ?_, e2⟩
    simp only [h0, if_false]
    simpa [accept] using e1

/-! ## floats -/

theorem lexTokG_floatBody (hconv : ∀ c, cfg.conv c = c) (g : GText) (hg : g.WF) (tail : List Char)
    (ht : HeadIs FloatTail tail) : LexTokG cfg g.body ⟨.floatNumber, g.body⟩ tail := by
  obtain ⟨h1, h2, h3, h4⟩ := hg
  obtain ⟨d, is, hip⟩ := List.exists_cons_of_ne_nil h1
  obtain ⟨f, fs, hfr, hf0, hfs⟩ : ∃ f fs, (if g.fp = [] then ['0'] else g.fp) = f :: fs ∧ DecD f ∧ ∀ x ∈ fs, DecD x := by
    by_cases hfp : g.fp = []
    · exact ⟨'0', [], by simp [hfp], ⟨0, by decide, rfl⟩, by simp⟩
    · obtain ⟨f, fs, e⟩ := List.exists_cons_of_ne_nil hfp
      exact ⟨f, fs, by simp [hfp, e], h3 f (by simp [e]), fun x hx => h3 x (by simp [e, hx])⟩
  have his : ∀ x ∈ is, DecD x := fun x hx => h2 x (by simp [hip, hx])
  have hd : DecD d := h2 d (by simp [hip])
  obtain ⟨c1, c2, c3, c4, c5, c6, c7, c8, c9, c10, c11⟩ := decD_class cfg d hd
  have hbody : g.body = d :: (is ++ ('.' :: f :: (fs ++ expText g.ex))) := by
    unfold GText.body
    rw [hip, hfr]
    simp only [List.cons_append, List.append_assoc]
  rw [hbody]
  refine TokenOn.lexTokG cfg hconv ?_ c1 c2 c3
  intro fuel al hist ring hfu
  simp only [List.cons_append, List.append_assoc, token, next, rawNext, hconv, c4, c5, c6, c7, c8, c9, c10, c11,
    Bool.false_eq_true, if_false, or_self, if_true, integerToken]
  have hex : ExpWF g.ex := h4
  by_cases h0 : d = '0'
  · subst h0
    simp only [if_true, accept, List.nil_append]
    obtain ⟨r, rest, hr, hrne⟩ : ∃ r rest, is ++ ('.' :: f :: (fs ++ (expText g.ex ++ tail))) = r :: rest ∧
        (r ≠ '\'' ∧ r ≠ 'b' ∧ r ≠ 'o' ∧ r ≠ 'x') := by
      cases is with
      | nil => exact ⟨'.', _, rfl, by decide⟩
      | cons x w =>
        obtain ⟨a, b, c, d', _⟩ := decD_not x (his x (by simp))
        exact ⟨x, _, rfl, a, b, c, d'⟩
    obtain ⟨l', e1, e2⟩ := integerConstant_frac cfg hconv g.ex hex f fs hf0 hfs is fuel
      ⟨'0' :: hist, is ++ '.' :: f :: fs ++ expText g.ex ++ tail, ['0'], ring.read.read.unread⟩ tail his rfl ht
      (by simp at hfu ⊢; omega)
    refine ⟨l', ?_, e2⟩
    rw [hr]
    simp only [next, rawNext, hconv, hrne.1, hrne.2.1, hrne.2.2.1, hrne.2.2.2, if_false, backup]
    rw [← hr]
    simpa [List.append_assoc] using e1
  · obtain ⟨l', e1, e2⟩ := integerConstant_frac cfg hconv g.ex hex f fs hf0 hfs is fuel
      (accept ⟨d :: hist, is ++ '.' :: f :: fs ++ expText g.ex ++ tail, [], ring.read⟩ d) tail his rfl ht
      (by simp [accept] at hfu ⊢; omega)
    refine ⟨l', ?_, e2⟩
    simp only [h0, if_false]
    simpa [accept, List.append_assoc] using e1

end

end PrologVerif.Write
