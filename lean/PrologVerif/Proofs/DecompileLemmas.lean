/-
  Machinery for decompile_compile that does not depend on the well-formedness predicate:
  * `compileArg hd` — the common shape of `compileHeadArg` (hd = true) / `compileBodyArg` (hd = false)
  * "for every fuel ≥ N" readings of `decTerms`, `decPutSeq`, `decGoals` and their composition laws
-/
import PrologVerif.Model.Decompile
namespace PrologVerif.DecompileCompile
open PrologVerif PrologVerif.VM

/-! ## tables only grow -/

theorem indexOf_go_spec : ∀ (xs : List Nat) (v k i : Nat), indexOf?.go v xs k = some i →
    k ≤ i ∧ xs[i - k]? = some v
  | [], _, _, _, h => by simp [indexOf?.go] at h
  | x :: xs, v, k, i, h => by
    simp only [indexOf?.go] at h
    split at h
    · rename_i hx
      cases h
      simp [hx]
    · obtain ⟨h1, h2⟩ := indexOf_go_spec xs v (k + 1) i h
      refine ⟨by omega, ?_⟩
      have : i - k = (i - (k + 1)) + 1 := by omega
      rw [this]
      simpa using h2

theorem indexOf_spec (xs : List Nat) (v i : Nat) (h : indexOf? xs v = some i) : xs[i]? = some v := by
  have := (indexOf_go_spec xs v 0 i h).2
  simpa using this

theorem prefix_get {vs vs' : List Nat} {i v : Nat} (h : vs <+: vs') (hi : vs[i]? = some v) :
    vs'[i]? = some v := by
  obtain ⟨d, rfl⟩ := h
  have hlt : i < vs.length := by
    rcases Nat.lt_or_ge i vs.length with h | h
    · exact h
    · rw [List.getElem?_eq_none h] at hi; cases hi
  rw [List.getElem?_append_left hlt]; exact hi

theorem varOffset_spec (c : CState) (v : Nat) :
    ∃ i c', varOffset c v = (i, c') ∧ c'.code = c.code ∧ c.vars <+: c'.vars ∧ c'.vars[i]? = some v := by
  unfold varOffset
  cases h : indexOf? c.vars v with
  | some i => exact ⟨i, c, rfl, rfl, List.prefix_refl _, indexOf_spec _ _ _ h⟩
  | none =>
    refine ⟨c.vars.length, { c with vars := c.vars ++ [v] }, rfl, rfl, List.prefix_append _ _, ?_⟩
    simp

/-! ## the common shape of the two argument compilers -/

def opConst (hd : Bool) (t : Term) : Op := if hd then .getConst t else .putConst t
def opVar (hd : Bool) (i : Nat) : Op := if hd then .getVar i else .putVar i
def opFunctor (hd : Bool) (f : String) (n : Nat) : Op := if hd then .getFunctor f n else .putFunctor f n
def opList (hd : Bool) (n : Nat) : Op := if hd then .getList n else .putList n
def opPartial (hd : Bool) (n : Nat) : Op := if hd then .getPartial n else .putPartial n

mutual
  def compileArg (hd : Bool) : Rep → CState → CState
    | .var v, c => emit (varOffset c v).2 (opVar hd (varOffset c v).1)
    | .charList s, c => emit c (opConst hd (Rep.abs (.charList s)))
    | .codeList s, c => emit c (opConst hd (Rep.abs (.codeList s)))
    | .list elems, c =>
      emit (compileArgs hd elems (emit c (opList hd elems.length))) .pop
    | .part pre tail, c =>
      match pre with
      | .list elems =>
        emit (compileArgs hd elems (compileArg hd tail (emit c (opPartial hd elems.length)))) .pop
      | .charList s =>
        emit ((charConsts s).foldl (fun c t => emit c (opConst hd t))
          (compileArg hd tail (emit c (opPartial hd s.length)))) .pop
      | .codeList s =>
        emit ((codeConsts s).foldl (fun c t => emit c (opConst hd t))
          (compileArg hd tail (emit c (opPartial hd s.length)))) .pop
      | _ => emit c (.unsupported "partial over compound/partial prefix")
    | .compound f args, c =>
      emit (compileArgs hd args (emit c (opFunctor hd f args.length))) .pop
    | .atom s, c => emit c (opConst hd (.atom s))
    | .int i, c => emit c (opConst hd (.int i))
    | .flt b, c => emit c (opConst hd (.flt b))
    | .str n, c => emit c (opConst hd (.str n))
  def compileArgs (hd : Bool) : RepList → CState → CState
    | .nil, c => c
    | .cons r rs, c => compileArgs hd rs (compileArg hd r c)
end

mutual
  theorem compileHeadArg_eq : ∀ (r : Rep) (c : CState), compileHeadArg r c = compileArg true r c
    | .var v, c => by simp [compileHeadArg, compileArg, opVar]
    | .charList s, c => by simp [compileHeadArg, compileArg, opConst]
    | .codeList s, c => by simp [compileHeadArg, compileArg, opConst]
    | .list elems, c => by simp [compileHeadArg, compileArg, opList, compileHeadArgs_eq elems]
    | .part pre tail, c => by
      cases pre <;>
        simp [compileHeadArg, compileArg, opPartial, opConst, compileHeadArgs_eq, compileHeadArg_eq tail]
    | .compound f args, c => by simp [compileHeadArg, compileArg, opFunctor, compileHeadArgs_eq args]
    | .atom s, c => by simp [compileHeadArg, compileArg, opConst]
    | .int i, c => by simp [compileHeadArg, compileArg, opConst]
    | .flt b, c => by simp [compileHeadArg, compileArg, opConst]
    | .str n, c => by simp [compileHeadArg, compileArg, opConst]
  theorem compileHeadArgs_eq : ∀ (rs : RepList) (c : CState), compileHeadArgs rs c = compileArgs true rs c
    | .nil, c => by simp [compileHeadArgs, compileArgs]
    | .cons r rs, c => by
      simp [compileHeadArgs, compileArgs, compileHeadArg_eq r, compileHeadArgs_eq rs]
end

mutual
  theorem compileBodyArg_eq : ∀ (r : Rep) (c : CState), compileBodyArg r c = compileArg false r c
    | .var v, c => by simp [compileBodyArg, compileArg, opVar]
    | .charList s, c => by simp [compileBodyArg, compileArg, opConst]
    | .codeList s, c => by simp [compileBodyArg, compileArg, opConst]
    | .list elems, c => by simp [compileBodyArg, compileArg, opList, compileBodyArgs_eq elems]
    | .part pre tail, c => by
      cases pre <;>
        simp [compileBodyArg, compileArg, opPartial, opConst, compileBodyArgs_eq, compileBodyArg_eq tail]
    | .compound f args, c => by simp [compileBodyArg, compileArg, opFunctor, compileBodyArgs_eq args]
    | .atom s, c => by simp [compileBodyArg, compileArg, opConst]
    | .int i, c => by simp [compileBodyArg, compileArg, opConst]
    | .flt b, c => by simp [compileBodyArg, compileArg, opConst]
    | .str n, c => by simp [compileBodyArg, compileArg, opConst]
  theorem compileBodyArgs_eq : ∀ (rs : RepList) (c : CState), compileBodyArgs rs c = compileArgs false rs c
    | .nil, c => by simp [compileBodyArgs, compileArgs]
    | .cons r rs, c => by
      simp [compileBodyArgs, compileArgs, compileBodyArg_eq r, compileBodyArgs_eq rs]
end

/-! ## reading argument code back: `decTerms` for every large enough fuel -/

/-- `decTerms` reads `k` terms `r.1` off `code`, leaving `r.2`, with any fuel ≥ `N` -/
def D (hd : Bool) (vs : List Nat) (N k : Nat) (code : List Op) (r : List Term × List Op) : Prop :=
  ∀ fuel, N ≤ fuel → VM.decTerms fuel hd vs k code = some r

theorem D_zero (hd : Bool) (vs : List Nat) (code : List Op) : D hd vs 1 0 code ([], code) := by
  intro fuel h
  obtain ⟨f, rfl⟩ : ∃ f, fuel = f + 1 := ⟨fuel - 1, by omega⟩
  rfl

theorem D_weaken {hd vs N N' k code r} (h : D hd vs N k code r) (hN : N ≤ N') : D hd vs N' k code r :=
  fun fuel hf => h fuel (Nat.le_trans hN hf)

theorem dec_const (hd : Bool) (vs : List Nat) (f k : Nat) (t : Term) (rest : List Op)
    {ts : List Term} {rest' : List Op} (hk : VM.decTerms f hd vs k rest = some (ts, rest')) :
    VM.decTerms (f + 1) hd vs (k + 1) (opConst hd t :: rest) = some (t :: ts, rest') := by
  cases hd <;> simp [VM.decTerms, opConst, hk]

theorem dec_var (hd : Bool) (vs : List Nat) (f k i v : Nat) (rest : List Op) (hv : vs[i]? = some v)
    {ts : List Term} {rest' : List Op} (hk : VM.decTerms f hd vs k rest = some (ts, rest')) :
    VM.decTerms (f + 1) hd vs (k + 1) (opVar hd i :: rest) = some (.var v :: ts, rest') := by
  cases hd <;> simp [VM.decTerms, opVar, hv, hk]

theorem dec_functor (hd : Bool) (vs : List Nat) (f k n : Nat) (g : String) (code rest : List Op)
    (args : List Term) (h : VM.decTerms f hd vs n code = some (args, .pop :: rest))
    {ts : List Term} {rest' : List Op} (hk : VM.decTerms f hd vs k rest = some (ts, rest')) :
    VM.decTerms (f + 1) hd vs (k + 1) (opFunctor hd g n :: code) = some (.app g (Args.ofList args) :: ts, rest') := by
  cases hd <;> simp [VM.decTerms, opFunctor, h, hk]

theorem dec_list (hd : Bool) (vs : List Nat) (f k n : Nat) (code rest : List Op)
    (es : List Term) (h : VM.decTerms f hd vs n code = some (es, .pop :: rest))
    {ts : List Term} {rest' : List Op} (hk : VM.decTerms f hd vs k rest = some (ts, rest')) :
    VM.decTerms (f + 1) hd vs (k + 1) (opList hd n :: code) = some (Term.list es :: ts, rest') := by
  cases hd <;> simp [VM.decTerms, opList, h, hk]

theorem dec_partial (hd : Bool) (vs : List Nat) (f k n : Nat) (code rest : List Op)
    (tl : Term) (es : List Term) (h : VM.decTerms f hd vs (n + 1) code = some (tl :: es, .pop :: rest))
    {ts : List Term} {rest' : List Op} (hk : VM.decTerms f hd vs k rest = some (ts, rest')) :
    VM.decTerms (f + 1) hd vs (k + 1) (opPartial hd n :: code) = some (Term.list es tl :: ts, rest') := by
  cases hd <;> simp [VM.decTerms, opPartial, h, hk]

/-- `ops` denote the terms `ts` under any extension of the table `vs`, in front of any continuation -/
def Reads (hd : Bool) (vs : List Nat) (ops : List Op) (ts : List Term) : Prop :=
  ∀ vs', vs <+: vs' → ∀ N k rest ts' rest', D hd vs' N k rest (ts', rest') →
    D hd vs' (N + ops.length) (k + ts.length) (ops ++ rest) (ts ++ ts', rest')

theorem Reads_nil (hd : Bool) (vs : List Nat) : Reads hd vs [] [] := by
  intro vs' _ N k rest ts' rest' h
  simpa using h

theorem Reads_mono {hd vs vs1 ops ts} (h : Reads hd vs ops ts) (hp : vs <+: vs1) : Reads hd vs1 ops ts :=
  fun vs' hv => h vs' (List.IsPrefix.trans hp hv)

theorem Reads_append {hd vs ops1 ops2 ts1 ts2} (h1 : Reads hd vs ops1 ts1) (h2 : Reads hd vs ops2 ts2) :
    Reads hd vs (ops1 ++ ops2) (ts1 ++ ts2) := by
  intro vs' hv N k rest ts' rest' h
  have a := h1 vs' hv _ _ _ _ _ (h2 vs' hv N k rest ts' rest' h)
  have e1 : N + (ops1 ++ ops2).length = N + ops2.length + ops1.length := by simp; omega
  have e2 : k + (ts1 ++ ts2).length = k + ts2.length + ts1.length := by simp; omega
  rw [e1, e2]
  simpa [List.append_assoc] using a

theorem Reads_const (hd : Bool) (vs : List Nat) (t : Term) : Reads hd vs [opConst hd t] [t] := by
  intro vs' _ N k rest ts' rest' h fuel hf
  obtain ⟨f, rfl⟩ : ∃ f, fuel = f + 1 := ⟨fuel - 1, by simp at hf; omega⟩
  have := h f (by simp at hf; omega)
  simpa using dec_const hd vs' f k t rest this

theorem Reads_consts (hd : Bool) (vs : List Nat) : ∀ ts : List Term, Reads hd vs (ts.map (opConst hd)) ts
  | [] => Reads_nil hd vs
  | t :: ts => by
    have := Reads_append (Reads_const hd vs t) (Reads_consts hd vs ts)
    simpa using this

theorem Reads_var (hd : Bool) (vs : List Nat) (i v : Nat) (hv : vs[i]? = some v) :
    Reads hd vs [opVar hd i] [.var v] := by
  intro vs' hp N k rest ts' rest' h fuel hf
  obtain ⟨f, rfl⟩ : ∃ f, fuel = f + 1 := ⟨fuel - 1, by simp at hf; omega⟩
  have := h f (by simp at hf; omega)
  simpa using dec_var hd vs' f k i v rest (prefix_get hp hv) this

theorem Reads_functor (hd : Bool) (vs : List Nat) (g : String) (ops : List Op) (args : List Term)
    (h : Reads hd vs ops args) :
    Reads hd vs (opFunctor hd g args.length :: ops ++ [.pop]) [.app g (Args.ofList args)] := by
  intro vs' hp N k rest ts' rest' hr fuel hf
  obtain ⟨f, rfl⟩ : ∃ f, fuel = f + 1 := ⟨fuel - 1, by simp at hf; omega⟩
  have h1 := h vs' hp 1 0 (.pop :: rest) [] (.pop :: rest) (D_zero _ _ _) f (by simp at hf; omega)
  have h2 := hr f (by simp at hf; omega)
  simp only [Nat.zero_add, List.append_nil] at h1
  have e : (opFunctor hd g args.length :: ops ++ [.pop]) ++ rest
      = opFunctor hd g args.length :: (ops ++ .pop :: rest) := by simp
  rw [e, List.length_singleton, dec_functor hd vs' f k args.length g _ rest args h1 h2]
  rfl

theorem Reads_list (hd : Bool) (vs : List Nat) (ops : List Op) (es : List Term)
    (h : Reads hd vs ops es) :
    Reads hd vs (opList hd es.length :: ops ++ [.pop]) [Term.list es] := by
  intro vs' hp N k rest ts' rest' hr fuel hf
  obtain ⟨f, rfl⟩ : ∃ f, fuel = f + 1 := ⟨fuel - 1, by simp at hf; omega⟩
  have h1 := h vs' hp 1 0 (.pop :: rest) [] (.pop :: rest) (D_zero _ _ _) f (by simp at hf; omega)
  have h2 := hr f (by simp at hf; omega)
  simp only [Nat.zero_add, List.append_nil] at h1
  have e : (opList hd es.length :: ops ++ [.pop]) ++ rest
      = opList hd es.length :: (ops ++ .pop :: rest) := by simp
  rw [e, List.length_singleton, dec_list hd vs' f k es.length _ rest es h1 h2]
  rfl

theorem Reads_partial (hd : Bool) (vs : List Nat) (ops : List Op) (tl : Term) (es : List Term)
    (h : Reads hd vs ops (tl :: es)) :
    Reads hd vs (opPartial hd es.length :: ops ++ [.pop]) [Term.list es tl] := by
  intro vs' hp N k rest ts' rest' hr fuel hf
  obtain ⟨f, rfl⟩ : ∃ f, fuel = f + 1 := ⟨fuel - 1, by simp at hf; omega⟩
  have h1 := h vs' hp 1 0 (.pop :: rest) [] (.pop :: rest) (D_zero _ _ _) f (by simp at hf; omega)
  have h2 := hr f (by simp at hf; omega)
  simp only [Nat.zero_add, List.append_nil, List.length_cons] at h1
  have e : (opPartial hd es.length :: ops ++ [.pop]) ++ rest
      = opPartial hd es.length :: (ops ++ .pop :: rest) := by simp
  rw [e, List.length_singleton, dec_partial hd vs' f k es.length _ rest tl es h1 h2]
  rfl

/-! ## reading goals back: `decPutSeq`, `decGoals` -/

def isPut : Op → Bool
  | .putConst _ | .putVar _ | .putFunctor _ _ | .putList _ | .putPartial _ => true
  | _ => false

/-- the kind of instruction an argument of kind `hd` starts with -/
def isArgOp (hd : Bool) : Op → Bool
  | .getConst _ | .getVar _ | .getFunctor _ _ | .getList _ | .getPartial _ => hd
  | .putConst _ | .putVar _ | .putFunctor _ _ | .putList _ | .putPartial _ => !hd
  | _ => false

theorem isArgOp_false {o : Op} (h : isArgOp false o = true) : isPut o = true := by
  cases o <;> simp [isArgOp] at h <;> rfl

theorem isArgOp_const (hd : Bool) (t : Term) : isArgOp hd (opConst hd t) = true := by cases hd <;> rfl
theorem isArgOp_var (hd : Bool) (i : Nat) : isArgOp hd (opVar hd i) = true := by cases hd <;> rfl
theorem isArgOp_functor (hd : Bool) (f : String) (n : Nat) : isArgOp hd (opFunctor hd f n) = true := by
  cases hd <;> rfl
theorem isArgOp_list (hd : Bool) (n : Nat) : isArgOp hd (opList hd n) = true := by cases hd <;> rfl
theorem isArgOp_partial (hd : Bool) (n : Nat) : isArgOp hd (opPartial hd n) = true := by cases hd <;> rfl

def P (vs : List Nat) (N : Nat) (code : List Op) (r : List Term × List Op) : Prop :=
  ∀ fuel, N ≤ fuel → decPutSeq fuel vs code = some r

theorem P_call (vs : List Nat) (f : String) (n : Nat) (rest : List Op) :
    P vs 2 (.call f n :: rest) ([], .call f n :: rest) := by
  intro fuel h
  obtain ⟨k, rfl⟩ : ∃ k, fuel = k + 1 := ⟨fuel - 1, by omega⟩
  rfl

theorem putSeq_step {o : Op} (ho : isPut o = true) {f : Nat} {vs : List Nat} {code rest1 rest' : List Op}
    {t : Term} {ts : List Term}
    (h1 : VM.decTerms f false vs 1 (o :: code) = some ([t], rest1))
    (h2 : decPutSeq f vs rest1 = some (ts, rest')) :
    decPutSeq (f + 1) vs (o :: code) = some (t :: ts, rest') := by
  cases o <;> simp [isPut] at ho <;> simp [decPutSeq, h1, h2]

/-- put-code `ops` denotes the argument terms `ts`, read one term at a time by `decPutSeq` -/
def PutReads (vs : List Nat) (ops : List Op) (ts : List Term) : Prop :=
  ∀ vs', vs <+: vs' → ∀ N rest ts' rest', 2 ≤ N → P vs' N rest (ts', rest') →
    P vs' (N + ops.length) (ops ++ rest) (ts ++ ts', rest')

theorem PutReads_nil (vs : List Nat) : PutReads vs [] [] := by
  intro vs' _ N rest ts' rest' _ h
  simpa using h

theorem PutReads_mono {vs vs1 ops ts} (h : PutReads vs ops ts) (hp : vs <+: vs1) : PutReads vs1 ops ts :=
  fun vs' hv => h vs' (List.IsPrefix.trans hp hv)

theorem PutReads_append {vs ops1 ops2 ts1 ts2} (h1 : PutReads vs ops1 ts1) (h2 : PutReads vs ops2 ts2) :
    PutReads vs (ops1 ++ ops2) (ts1 ++ ts2) := by
  intro vs' hv N rest ts' rest' hN h
  have a := h1 vs' hv _ _ _ _ (by omega) (h2 vs' hv N rest ts' rest' hN h)
  have e1 : N + (ops1 ++ ops2).length = N + ops2.length + ops1.length := by simp; omega
  rw [e1]
  simpa [List.append_assoc] using a

theorem PutReads_of_Reads {vs : List Nat} {o : Op} {ops : List Op} {t : Term}
    (h : Reads false vs (o :: ops) [t]) (ho : isPut o = true) : PutReads vs (o :: ops) [t] := by
  intro vs' hp N rest ts' rest' hN hr fuel hf
  obtain ⟨f, rfl⟩ : ∃ f, fuel = f + 1 := ⟨fuel - 1, by simp at hf; omega⟩
  have h1 := h vs' hp 1 0 rest [] rest (D_zero _ _ _) f (by simp at hf ⊢; omega)
  have h2 := hr f (by simp at hf; omega)
  simp only [Nat.zero_add, List.append_nil, List.length_singleton] at h1
  exact putSeq_step ho h1 h2

def G (vs : List Nat) (N : Nat) (code : List Op) (gs : List Term) : Prop :=
  ∀ fuel, N ≤ fuel → decGoals fuel vs code = some gs

theorem G_exit (vs : List Nat) : G vs 2 [.exit] [] := by
  intro fuel h
  obtain ⟨k, rfl⟩ : ∃ k, fuel = k + 1 := ⟨fuel - 1, by omega⟩
  rfl

/-- goal code `ops` denotes the goals `gts` -/
def GoalReads (vs : List Nat) (ops : List Op) (gts : List Term) : Prop :=
  ∀ vs', vs <+: vs' → ∀ N rest gs, 2 ≤ N → G vs' N rest gs →
    G vs' (N + ops.length) (ops ++ rest) (gts ++ gs)

theorem GoalReads_nil (vs : List Nat) : GoalReads vs [] [] := by
  intro vs' _ N rest gs _ h
  simpa using h

theorem GoalReads_mono {vs vs1 ops gts} (h : GoalReads vs ops gts) (hp : vs <+: vs1) :
    GoalReads vs1 ops gts :=
  fun vs' hv => h vs' (List.IsPrefix.trans hp hv)

theorem GoalReads_append {vs ops1 ops2 g1 g2} (h1 : GoalReads vs ops1 g1) (h2 : GoalReads vs ops2 g2) :
    GoalReads vs (ops1 ++ ops2) (g1 ++ g2) := by
  intro vs' hv N rest gs hN h
  have a := h1 vs' hv _ _ _ (by omega) (h2 vs' hv N rest gs hN h)
  have e1 : N + (ops1 ++ ops2).length = N + ops2.length + ops1.length := by simp; omega
  rw [e1]
  simpa [List.append_assoc] using a

theorem GoalReads_cut (vs : List Nat) : GoalReads vs [.cut] [.atom "!"] := by
  intro vs' _ N rest gs _ h fuel hf
  obtain ⟨f, rfl⟩ : ∃ f, fuel = f + 1 := ⟨fuel - 1, by simp at hf; omega⟩
  have := h f (by simp at hf; omega)
  simp [decGoals, this]

theorem GoalReads_call0 (vs : List Nat) (f : String) : GoalReads vs [.call f 0] [.atom f] := by
  intro vs' _ N rest gs hN h fuel hf
  obtain ⟨k, rfl⟩ : ∃ k, fuel = k + 2 := ⟨fuel - 2, by simp at hf; omega⟩
  have := h (k + 1) (by simp at hf; omega)
  have e : decGoals (k + 2) vs' ([Op.call f 0] ++ rest) =
      (decGoals (k + 1) vs' rest).map (Term.atom f :: ·) := rfl
  rw [e, this]; rfl

theorem goals_step {o : Op} (ho : isPut o = true) {F : Nat} {vs : List Nat} {code rest : List Op}
    {f : String} {args gs : List Term} (hne : args ≠ [])
    (h1 : decPutSeq F vs (o :: code) = some (args, .call f args.length :: rest))
    (h2 : decGoals F vs rest = some gs) :
    decGoals (F + 1) vs (o :: code) = some (.app f (Args.ofList args) :: gs) := by
  have he : args.isEmpty = false := by cases args <;> simp at hne ⊢
  cases o <;> simp [isPut] at ho <;> simp [decGoals, h1, h2, he]

theorem GoalReads_call {vs : List Nat} {o : Op} {aops : List Op} {ts : List Term} (f : String)
    (h : PutReads vs (o :: aops) ts) (ho : isPut o = true) (hne : ts ≠ []) :
    GoalReads vs ((o :: aops) ++ [.call f ts.length]) [.app f (Args.ofList ts)] := by
  intro vs' hp N rest gs hN hr fuel hf
  obtain ⟨F, rfl⟩ : ∃ F, fuel = F + 1 := ⟨fuel - 1, by simp at hf; omega⟩
  have h1 := h vs' hp 2 (.call f ts.length :: rest) [] _ (Nat.le_refl _) (P_call _ _ _ _) F
    (by simp at hf ⊢; omega)
  have h2 := hr F (by simp at hf; omega)
  simp only [List.append_nil] at h1
  have e : ((o :: aops) ++ [.call f ts.length]) ++ rest = o :: (aops ++ .call f ts.length :: rest) := by
    simp
  rw [e]
  exact goals_step ho hne h1 h2

/-! ## `decompile` of code of the compiled shape -/

theorem decompile_rule (name : String) (raw : Term) (vars vs1 vs2 : List Nat) (hops gops : List Op)
    (ts gts : List Term) (hr : Reads true vs1 hops ts) (hg : GoalReads vs2 gops gts)
    (h1 : vs1 <+: vars) (h2 : vs2 <+: vars) :
    decompile { name := name, arity := ts.length, raw := raw, vars := vars,
                code := hops ++ .enter :: (gops ++ [.exit]) } =
      some (if ts.isEmpty then Term.atom name else Term.app name (Args.ofList ts), gts) := by
  have a := hr vars h1 1 0 (Op.enter :: (gops ++ [Op.exit])) [] _ (D_zero _ _ _)
    ((hops ++ Op.enter :: (gops ++ [Op.exit])).length + 2) (by simp; omega)
  have b := hg vars h2 2 [Op.exit] [] (Nat.le_refl _) (G_exit _)
    ((hops ++ Op.enter :: (gops ++ [Op.exit])).length + 2) (by simp; omega)
  simp only [Nat.zero_add, List.append_nil] at a b
  simp only [decompile, a, b]
  simp

theorem decompile_fact (name : String) (raw : Term) (vars vs1 : List Nat) (hops : List Op)
    (ts : List Term) (hr : Reads true vs1 hops ts) (h1 : vs1 <+: vars) :
    decompile { name := name, arity := ts.length, raw := raw, vars := vars,
                code := hops ++ [.exit] } =
      some (if ts.isEmpty then Term.atom name else Term.app name (Args.ofList ts), []) := by
  have a := hr vars h1 1 0 [Op.exit] [] _ (D_zero _ _ _) ((hops ++ [Op.exit]).length + 2) (by simp; omega)
  simp only [Nat.zero_add, List.append_nil] at a
  simp only [decompile, a]

end PrologVerif.DecompileCompile
