/-
  C13 at the VM level — cancellation reaches every nested trampoline of the VM.

  Part 1 (generic, any `Sem`): invariants carried through `force` (`force_inv`), "a cancelled
  `force` returns in a cancelled state" (`force_cancelled_iter`), "the iteration after a thunk that
  returns in a cancelled state returns `.cancelled`" (`force_cancel_wins`), and "an error that is only
  ever born in a cancelled state never is the result of `force`" (`force_no_leak`).

  Part 2 (the VM): `exec`, `applyCont`, `arrive`, `builtin` never touch the poll counter nor the
  context (`cancelAt`) and never create the Go error "context canceled" (`stepSame`); `evalThunk`
  (which runs the nested trampolines of `\+` and findall/3) never changes `cancelAt`, only advances
  the poll counter, never beyond the cancellation point, and returns the error "context canceled"
  only in a cancelled state (`thunkStep`).

  Part 3: the theorems `cancelAt_preserved`, `vm_force_bounded`, `vm_cancel_propagates`,
  `vm_cancel_wins`, `vm_no_cancel_leak`, `vm_run_cancelled`.
-/
import PrologVerif.Model.VM
import PrologVerif.Proofs.Promise
namespace PrologVerif.VMCancel
open PrologVerif PrologVerif.VM PrologVerif.Promise

/-! ## Part 1 — generic trampoline lemmas -/

section generic
variable {τ ρ ε σ : Type}

/-- thunks and recovery functions keep the machine invariant `Inv` -/
structure SemInv (sem : Sem τ ρ ε σ) (Inv : M σ → Prop) : Prop where
  thunk : ∀ n t m q m', sem.evalThunk n t m = some (q, m') → Inv m → Inv m'
  recover : ∀ r e m q m', sem.evalRecover r e m = (q, m') → Inv m → Inv m'

/-- `IterBounded` carrying a state invariant `Inv` (on the user state): what a nested trampoline
    needs in order to stay within the cancellation point — e.g. "the context is cancelled at `c`" -/
abbrev IterBoundedInv (sem : Sem τ ρ ε σ) (c : Nat) (Inv : σ → Prop) : Prop :=
  SemInv sem (fun m => Inv m.user ∧ m.iter ≤ c)

theorem iterBounded_iff (sem : Sem τ ρ ε σ) (c : Nat) :
    IterBounded sem c ↔ IterBoundedInv sem c (fun _ => True) :=
  ⟨fun h => ⟨fun n t m q m' he hi => ⟨trivial, h.thunk n t m q m' he hi.2⟩,
             fun r e m q m' he hi => ⟨trivial, h.recover r e m q m' he hi.2⟩⟩,
   fun h => ⟨fun n t m q m' he hi => (h.thunk n t m q m' he ⟨trivial, hi⟩).2,
             fun r e m q m' he hi => (h.recover r e m q m' he ⟨trivial, hi⟩).2⟩⟩

theorem recoverStack_inv (sem : Sem τ ρ ε σ) (Inv : M σ → Prop) (hs : SemInv sem Inv) (e : ε) :
    ∀ (stack : List (P τ ρ ε)) (m : M σ) (r : Option (List (P τ ρ ε))) (m' : M σ),
      recoverStack sem e stack m = (r, m') → Inv m → Inv m'
  | [], m, r, m', h, hm => by simp [recoverStack] at h; rw [← h.2]; exact hm
  | p :: rest, m, r, m', h, hm => by
    simp only [recoverStack] at h
    split at h
    · exact recoverStack_inv sem Inv hs e rest m r m' h hm
    · rename_i rr _
      split at h
      · rename_i q m2 he
        simp only [Prod.mk.injEq] at h
        rw [← h.2]; exact hs.recover rr e m (some q) m2 he hm
      · rename_i m2 he
        exact recoverStack_inv sem Inv hs e rest m2 r m' h (hs.recover rr e m none m2 he hm)

/-- **force_inv**: an invariant kept by thunks, recovery functions and by counting a poll that did
    not observe cancellation is kept by the whole run of the trampoline -/
theorem force_inv (sem : Sem τ ρ ε σ) (ca : Option Nat) (Inv : M σ → Prop) (hs : SemInv sem Inv)
    (hstep : ∀ m, Inv m → isCancelled ca m.iter = false → Inv { m with iter := m.iter + 1 }) :
    ∀ (n : Nat) (stack : List (P τ ρ ε)) (m : M σ) (r : Promise.Res ε) (m' : M σ),
      force sem ca n stack m = some (r, m') → Inv m → Inv m'
  | 0, _, _, _, _, h, _ => by simp [force] at h
  | n + 1, [], m, r, m', h, hm => by simp [force] at h; rw [← h.2]; exact hm
  | n + 1, p :: stack, m, r, m', h, hm => by
    simp only [force] at h
    split at h
    · simp only [Option.some.injEq, Prod.mk.injEq] at h; rw [← h.2]; exact hm
    · rename_i hnc
      have hm1 := hstep m hm (by simpa using hnc)
      split at h
      · split at h
        · split at h
          · rename_i m2 hrec
            simp only [Option.some.injEq, Prod.mk.injEq] at h
            rw [← h.2]
            exact recoverStack_inv sem Inv hs _ stack _ none m2 hrec hm1
          · rename_i st2 m2 hrec
            exact force_inv sem ca Inv hs hstep n st2 m2 r m' h
              (recoverStack_inv sem Inv hs _ stack _ (some st2) m2 hrec hm1)
        · split at h
          · simp only [Option.some.injEq, Prod.mk.injEq] at h; rw [← h.2]; exact hm1
          · exact force_inv sem ca Inv hs hstep n stack _ r m' h hm1
      · split at h
        · simp at h
        · rename_i q m2 hev
          exact force_inv sem ca Inv hs hstep n _ m2 r m' h (hs.thunk n _ _ q m2 hev hm1)

/-- **C13_bounded_work, with a state invariant**: with cancellation at `c`, if thunks and recovery
    functions keep `Inv` and — as long as `Inv` holds — never push the poll counter beyond `c`, then
    no run of `force` started within `c` ends beyond `c` -/
theorem force_bounded_inv (sem : Sem τ ρ ε σ) (c : Nat) (Inv : σ → Prop) (hb : IterBoundedInv sem c Inv)
    (n : Nat) (stack : List (P τ ρ ε)) (m : M σ) (r : Promise.Res ε) (m' : M σ)
    (h : force sem (some c) n stack m = some (r, m')) (hi : Inv m.user) (hm : m.iter ≤ c) :
    Inv m'.user ∧ m'.iter ≤ c := by
  refine force_inv sem (some c) (fun m => Inv m.user ∧ m.iter ≤ c) hb ?_ n stack m r m' h ⟨hi, hm⟩
  intro m ⟨h1, _⟩ hnc
  refine ⟨h1, ?_⟩
  simp [isCancelled] at hnc
  show m.iter + 1 ≤ c
  omega

/-- a run that ends with `.cancelled` ends in a state in which `ctx.Done()` is ready -/
theorem force_cancelled_iter (sem : Sem τ ρ ε σ) (ca : Option Nat) :
    ∀ (n : Nat) (stack : List (P τ ρ ε)) (m : M σ) (m' : M σ),
      force sem ca n stack m = some (.cancelled, m') → isCancelled ca m'.iter = true
  | 0, _, _, _, h => by simp [force] at h
  | n + 1, [], m, m', h => by simp [force] at h
  | n + 1, p :: stack, m, m', h => by
    simp only [force] at h
    split at h
    · rename_i hc
      simp only [Option.some.injEq, Prod.mk.injEq, true_and] at h
      rw [← h]; exact hc
    · split at h
      · split at h
        · split at h
          · simp at h
          · exact force_cancelled_iter sem ca n _ _ m' h
        · split at h
          · simp at h
          · exact force_cancelled_iter sem ca n _ _ m' h
      · split at h
        · simp at h
        · exact force_cancelled_iter sem ca n _ _ m' h

/-- **force_cancel_wins** (one step): if the thunk called in an iteration returns in a state in
    which `ctx.Done()` is ready — e.g. because a trampoline nested in it was cancelled, whatever the
    thunk made of that — the next iteration of THIS trampoline returns the context's error, with the
    state exactly as the thunk left it, and whatever promise the thunk returned -/
theorem force_cancel_wins (sem : Sem τ ρ ε σ) (ca : Option Nat) (n : Nat) (p : P τ ρ ε)
    (stack : List (P τ ρ ε)) (m : M σ) (t : τ) (ts : List τ) (q : P τ ρ ε) (m' : M σ)
    (hnc : isCancelled ca m.iter = false) (hd : p.delayed = t :: ts)
    (hev : sem.evalThunk (n + 1) t { m with iter := m.iter + 1 } = some (q, m'))
    (hc : isCancelled ca m'.iter = true) :
    force sem ca (n + 2) (p :: stack) m = some (.cancelled, m') := by
  rw [force]
  simp only [hnc, hd, hev, Bool.false_eq_true, if_false]
  rw [force]
  simp [hc]

/-- promise `p` carries an error of the class `Bad` only if `ctx.Done()` is ready in state `m` -/
def ErrOK (Bad : ε → Prop) (ca : Option Nat) (m : M σ) (p : P τ ρ ε) : Prop :=
  ∀ e, p.err = some e → Bad e → isCancelled ca m.iter = true

theorem isCancelled_mono (ca : Option Nat) {i j : Nat} (hij : i ≤ j) (h : isCancelled ca i = true) :
    isCancelled ca j = true := by
  unfold isCancelled at *
  split
  · rename_i c
    simp only [decide_eq_true_eq] at h ⊢
    omega
  · simp at h

theorem ErrOK.mono {Bad : ε → Prop} {ca : Option Nat} {m m' : M σ} {p : P τ ρ ε}
    (h : ErrOK Bad ca m p) (hi : m.iter ≤ m'.iter) : ErrOK Bad ca m' p :=
  fun e he hb => isCancelled_mono ca hi (h e he hb)

/-- thunks and recovery functions keep `Inv`, only advance the poll counter, and hand out errors of
    the class `Bad` only in a cancelled state -/
structure SemLeak (sem : Sem τ ρ ε σ) (ca : Option Nat) (Bad : ε → Prop) (Inv : M σ → Prop) : Prop where
  thunk : ∀ n t m q m', sem.evalThunk n t m = some (q, m') → Inv m →
    Inv m' ∧ m.iter ≤ m'.iter ∧ ErrOK Bad ca m' q
  recover : ∀ r e m q m', sem.evalRecover r e m = (q, m') → Inv m →
    Inv m' ∧ m.iter ≤ m'.iter ∧ ∀ p, q = some p → ErrOK Bad ca m' p

theorem recoverStack_leak (sem : Sem τ ρ ε σ) (ca : Option Nat) (Bad : ε → Prop) (Inv : M σ → Prop)
    (hs : SemLeak sem ca Bad Inv) (e : ε) :
    ∀ (stack : List (P τ ρ ε)) (m : M σ) (r : Option (List (P τ ρ ε))) (m' : M σ),
      recoverStack sem e stack m = (r, m') → Inv m → (∀ p ∈ stack, ErrOK Bad ca m p) →
      Inv m' ∧ m.iter ≤ m'.iter ∧ ∀ st, r = some st → ∀ p ∈ st, ErrOK Bad ca m' p
  | [], m, r, m', h, hm, _ => by
    simp [recoverStack] at h
    obtain ⟨rfl, rfl⟩ := h
    exact ⟨hm, Nat.le_refl _, by simp⟩
  | p :: rest, m, r, m', h, hm, hst => by
    have hrest : ∀ q ∈ rest, ErrOK Bad ca m q := fun q hq => hst q (by simp [hq])
    simp only [recoverStack] at h
    split at h
    · exact recoverStack_leak sem ca Bad Inv hs e rest m r m' h hm hrest
    · rename_i rr _
      split at h
      · rename_i q m2 he
        simp only [Prod.mk.injEq] at h
        obtain ⟨rfl, rfl⟩ := h
        obtain ⟨h1, h2, h3⟩ := hs.recover rr e m (some q) m2 he hm
        refine ⟨h1, h2, ?_⟩
        intro st hst' p' hp'
        simp only [Option.some.injEq] at hst'
        subst hst'
        rcases List.mem_cons.1 hp' with rfl | hp'
        · exact h3 _ rfl
        · exact (hrest p' hp').mono h2
      · rename_i m2 he
        obtain ⟨h1, h2, _⟩ := hs.recover rr e m none m2 he hm
        obtain ⟨h4, h5, h6⟩ := recoverStack_leak sem ca Bad Inv hs e rest m2 r m' h h1
          (fun q hq => (hrest q hq).mono h2)
        exact ⟨h4, Nat.le_trans h2 h5, h6⟩

theorem popUntil_mem' (c : Nat) : ∀ (stack : List (P τ ρ ε)) (p : P τ ρ ε), p ∈ popUntil c stack → p ∈ stack
  | [], p, h => by simp [popUntil] at h
  | q :: rest, p, h => by
    simp only [popUntil] at h
    split at h
    · exact List.mem_cons_of_mem _ h
    · exact List.mem_cons_of_mem _ (popUntil_mem' c rest p h)

/-- **force_no_leak**: if errors of the class `Bad` are only ever handed out in a cancelled state,
    no run of the trampoline ends with such an error (it ends with `.cancelled` instead: the poll
    comes first); the invariant is kept and the poll counter only advances -/
theorem force_no_leak (sem : Sem τ ρ ε σ) (ca : Option Nat) (Bad : ε → Prop) (Inv : M σ → Prop)
    (hs : SemLeak sem ca Bad Inv) (hstep : ∀ m, Inv m → Inv { m with iter := m.iter + 1 }) :
    ∀ (n : Nat) (stack : List (P τ ρ ε)) (m : M σ) (r : Promise.Res ε) (m' : M σ),
      force sem ca n stack m = some (r, m') → Inv m → (∀ p ∈ stack, ErrOK Bad ca m p) →
      Inv m' ∧ m.iter ≤ m'.iter ∧ ∀ e, r = .error e → ¬ Bad e
  | 0, _, _, _, _, h, _, _ => by simp [force] at h
  | n + 1, [], m, r, m', h, hm, _ => by
    simp [force] at h
    obtain ⟨rfl, rfl⟩ := h
    exact ⟨hm, Nat.le_refl _, fun e he => by cases he⟩
  | n + 1, p :: stack, m, r, m', h, hm, hst => by
    have hp : ErrOK Bad ca m p := hst p (by simp)
    have hrest : ∀ q ∈ stack, ErrOK Bad ca m q := fun q hq => hst q (by simp [hq])
    simp only [force] at h
    split at h
    · simp only [Option.some.injEq, Prod.mk.injEq] at h
      obtain ⟨rfl, rfl⟩ := h
      exact ⟨hm, Nat.le_refl _, fun e he => by cases he⟩
    · rename_i hnc
      have hm1 := hstep m hm
      have hle : m.iter ≤ ({ m with iter := m.iter + 1 } : M σ).iter := Nat.le_succ _
      have hrest1 : ∀ q ∈ stack, ErrOK Bad ca { m with iter := m.iter + 1 } q :=
        fun q hq => (hrest q hq).mono hle
      split at h
      · split at h
        · rename_i e he
          have hgood : ¬ Bad e := fun hb => hnc (hp e he hb)
          split at h
          · rename_i m2 hrec
            simp only [Option.some.injEq, Prod.mk.injEq] at h
            obtain ⟨rfl, rfl⟩ := h
            obtain ⟨h1, h2, _⟩ := recoverStack_leak sem ca Bad Inv hs e stack _ none m2 hrec hm1 hrest1
            refine ⟨h1, Nat.le_trans hle h2, ?_⟩
            intro e' he'
            cases he'
            exact hgood
          · rename_i st2 m2 hrec
            obtain ⟨h1, h2, h3⟩ := recoverStack_leak sem ca Bad Inv hs e stack _ (some st2) m2 hrec hm1 hrest1
            obtain ⟨h4, h5, h6⟩ := force_no_leak sem ca Bad Inv hs hstep n st2 m2 r m' h h1 (h3 st2 rfl)
            exact ⟨h4, Nat.le_trans hle (Nat.le_trans h2 h5), h6⟩
        · split at h
          · simp only [Option.some.injEq, Prod.mk.injEq] at h
            obtain ⟨rfl, rfl⟩ := h
            exact ⟨hm1, hle, fun e he => by cases he⟩
          · obtain ⟨h4, h5, h6⟩ := force_no_leak sem ca Bad Inv hs hstep n stack _ r m' h hm1 hrest1
            exact ⟨h4, Nat.le_trans hle h5, h6⟩
      · split at h
        · simp at h
        · rename_i q m2 hev
          obtain ⟨h1, h2, h3⟩ := hs.thunk n _ _ q m2 hev hm1
          have hle2 : m.iter ≤ m2.iter := Nat.le_trans hle h2
          obtain ⟨h4, h5, h6⟩ := force_no_leak sem ca Bad Inv hs hstep n _ m2 r m' h h1 (by
            intro p' hp'
            rcases List.mem_cons.1 hp' with rfl | hp'
            · exact h3
            · rcases List.mem_cons.1 hp' with rfl | hp'
              · intro e he hb
                have : p.err = some e := by
                  unfold afterChild at he
                  split at he <;> exact he
                exact isCancelled_mono ca hle2 (hp e this hb)
              · split at hp'
                · unfold cutStack at hp'
                  split at hp'
                  · simp at hp'
                  · rcases List.mem_cons.1 hp' with rfl | hp'
                    · intro e he; simp [marker] at he
                    · exact (hrest p' (popUntil_mem' _ stack p' hp')).mono hle2
                · exact (hrest p' hp').mono hle2)
          exact ⟨h4, Nat.le_trans hle2 h5, h6⟩

theorem recoverStack_congr (sem sem' : Sem τ ρ ε σ) (e : ε)
    (he : ∀ r m, sem'.evalRecover r e m = sem.evalRecover r e m) :
    ∀ (stack : List (P τ ρ ε)) (m : M σ), recoverStack sem' e stack m = recoverStack sem e stack m
  | [], m => rfl
  | p :: rest, m => by
    simp only [recoverStack, he]
    split
    · exact recoverStack_congr sem sem' e he rest m
    · split
      · rfl
      · exact recoverStack_congr sem sem' e he rest _

/-- the stack of the next iteration after a thunk was called -/
theorem errOK_push {Bad : ε → Prop} {ca : Option Nat} {m m2 : M σ} {p q : P τ ρ ε} {stack : List (P τ ρ ε)}
    (hp : ErrOK Bad ca m p) (hrest : ∀ q ∈ stack, ErrOK Bad ca m q) (hq : ErrOK Bad ca m2 q)
    (hle : m.iter ≤ m2.iter) :
    ∀ p' ∈ q :: afterChild { p with cutParent := none } ::
        (match p.cutParent with
          | some c => cutStack c stack
          | none => stack), ErrOK Bad ca m2 p' := by
  intro p' hp'
  rcases List.mem_cons.1 hp' with rfl | hp'
  · exact hq
  · rcases List.mem_cons.1 hp' with rfl | hp'
    · intro e he hb
      have : p.err = some e := by
        unfold afterChild at he
        split at he <;> exact he
      exact isCancelled_mono ca hle (hp e this hb)
    · split at hp'
      · unfold cutStack at hp'
        split at hp'
        · simp at hp'
        · rcases List.mem_cons.1 hp' with rfl | hp'
          · intro e he; simp [marker] at he
          · exact (hrest p' (popUntil_mem' _ stack p' hp')).mono hle
      · exact (hrest p' hp').mono hle

/-- **force_bad_irrelevant**: under the hypotheses of `force_no_leak` no recovery function is ever
    OFFERED an error of the class `Bad`: replacing the recovery functions by any others that agree
    with them on all other errors does not change any run of the trampoline -/
theorem force_bad_irrelevant (sem sem' : Sem τ ρ ε σ) (ca : Option Nat) (Bad : ε → Prop) (Inv : M σ → Prop)
    (hs : SemLeak sem ca Bad Inv) (hstep : ∀ m, Inv m → Inv { m with iter := m.iter + 1 })
    (ht : ∀ n t m, sem'.evalThunk n t m = sem.evalThunk n t m)
    (hr : ∀ r e m, ¬ Bad e → sem'.evalRecover r e m = sem.evalRecover r e m) :
    ∀ (n : Nat) (stack : List (P τ ρ ε)) (m : M σ), Inv m → (∀ p ∈ stack, ErrOK Bad ca m p) →
      force sem' ca n stack m = force sem ca n stack m
  | 0, _, _, _, _ => by simp [force]
  | n + 1, [], m, _, _ => by simp [force]
  | n + 1, p :: stack, m, hm, hst => by
    have hp : ErrOK Bad ca m p := hst p (by simp)
    have hrest : ∀ q ∈ stack, ErrOK Bad ca m q := fun q hq => hst q (by simp [hq])
    simp only [force]
    split
    · rfl
    · rename_i hnc
      have hm1 := hstep m hm
      have hle : m.iter ≤ ({ m with iter := m.iter + 1 } : M σ).iter := Nat.le_succ _
      have hrest1 : ∀ q ∈ stack, ErrOK Bad ca { m with iter := m.iter + 1 } q :=
        fun q hq => (hrest q hq).mono hle
      split
      · split
        · rename_i e he
          have hgood : ¬ Bad e := fun hb => hnc (hp e he hb)
          rw [recoverStack_congr sem sem' e (fun r m => hr r e m hgood)]
          split
          · rfl
          · rename_i st2 m2 hrec
            obtain ⟨h1, _, h3⟩ := recoverStack_leak sem ca Bad Inv hs e stack _ (some st2) m2 hrec hm1 hrest1
            exact force_bad_irrelevant sem sem' ca Bad Inv hs hstep ht hr n st2 m2 h1 (h3 st2 rfl)
        · split
          · rfl
          · exact force_bad_irrelevant sem sem' ca Bad Inv hs hstep ht hr n stack _ hm1 hrest1
      · rw [ht]
        split
        · rfl
        · rename_i q m2 hev
          obtain ⟨h1, h2, h3⟩ := hs.thunk n _ _ q m2 hev hm1
          exact force_bad_irrelevant sem sem' ca Bad Inv hs hstep ht hr n _ m2 h1
            (errOK_push hp hrest h3 (Nat.le_trans hle h2))

end generic

/-! ## Part 2 — the VM: who touches the poll counter and the context -/

/-- the Go error a cancelled nested trampoline turns into (`ctx.Err()` of a cancelled context) -/
def cancelErr : Err := .goErr "context canceled"

/-- the class of errors that only cancellation creates -/
def IsCancelErr (e : Err) : Prop := e = cancelErr

/-- the promise is not the error "context canceled" -/
def NoCE (p : Pr) : Prop := p.err ≠ some cancelErr

/-- the step left the poll counter and the context alone -/
def Same (m m' : MS) : Prop := m'.iter = m.iter ∧ m'.user.cancelAt = m.user.cancelAt

theorem Same.rfl' {m : MS} : Same m m := ⟨rfl, rfl⟩
theorem Same.trans {a b c : MS} (h1 : Same a b) (h2 : Same b c) : Same a c :=
  ⟨h2.1.trans h1.1, h2.2.trans h1.2⟩

/-- result of a step of the mutual block: counter and context untouched, no cancel error -/
def RS (m : MS) (r : Option (Pr × MS)) : Prop := ∀ p m', r = some (p, m') → Same m m' ∧ NoCE p
def RS2 (m : MS) (r : Option (Option (Pr × MS))) : Prop := ∀ p m', r = some (some (p, m')) → Same m m' ∧ NoCE p

theorem RS_none {m : MS} : RS m none := fun _ _ h => by cases h
theorem RS_pair {m : MS} {r : Pr × MS} (h : Same m r.2 ∧ NoCE r.1) : RS m (some r) := by
  intro p m' e; cases e; exact h
theorem RS_some {m m' : MS} {p : Pr} (h1 : Same m m') (h2 : NoCE p) : RS m (some (p, m')) :=
  RS_pair ⟨h1, h2⟩
theorem RS.of_same {m m1 : MS} {r : Option (Pr × MS)} (h : Same m m1) (hr : RS m1 r) : RS m r :=
  fun p m' e => ⟨h.trans (hr p m' e).1, (hr p m' e).2⟩
theorem RS2_none {m : MS} : RS2 m none := fun _ _ h => by cases h
theorem RS2_some_none {m : MS} : RS2 m (some none) := fun _ _ h => by cases h
theorem RS2_some {m : MS} {r : Option (Pr × MS)} (h : RS m r) : RS2 m (some r) := by
  intro p m' e; cases e; exact h p m' rfl
theorem RS2_pair {m : MS} {r : Pr × MS} (h : Same m r.2 ∧ NoCE r.1) : RS2 m (some (some r)) :=
  RS2_some (RS_pair h)

theorem NoCE_none {p : Pr} (h : p.err = none) : NoCE p := by
  intro h'; rw [h] at h'; cases h'
theorem NoCE_exc (t : Term) : NoCE (errP (.exc t)) := by
  intro h; simp [errP, cancelErr] at h
theorem NoCE_goErr (msg : String) (h : msg ≠ "context canceled") : NoCE (errP (.goErr msg)) := by
  intro h'; simp only [errP, cancelErr, Option.some.injEq, Err.goErr.injEq] at h'; exact h h'

theorem mkErr_same (formal : Term) (env : Env) (m : MS) :
    Same m (mkErr formal env m).2 ∧ NoCE (mkErr formal env m).1 := ⟨⟨rfl, rfl⟩, NoCE_exc _⟩

theorem clausesCall_same (cs : List Clause) (args : List Term) (k : Cont) (env : Env) (m : MS) :
    Same m (clausesCall cs args k env m).2 ∧ NoCE (clausesCall cs args k env m).1 :=
  ⟨⟨rfl, rfl⟩, NoCE_none rfl⟩

theorem callGoal_same (goal : Term) (k : Cont) (env : Env) (m : MS) :
    Same m (callGoal goal k env m).2 ∧ NoCE (callGoal goal k env m).1 := by
  unfold callGoal
  split
  · exact mkErr_same _ _ _
  · split
    · exact clausesCall_same _ _ _ _ _
    · exact mkErr_same _ _ _

theorem appendLists_same (xs ys zs : Term) (k : Cont) (env : Env) (m : MS) :
    Same m (appendLists xs ys zs k env m).2 ∧ NoCE (appendLists xs ys zs k env m).1 :=
  ⟨⟨rfl, rfl⟩, NoCE_none rfl⟩

/-- the induction hypothesis: every function of the mutual block at fuel `n` -/
structure StepSame (n : Nat) : Prop where
  exec : ∀ pc vars k args astack env cp (m : MS), RS m (exec n pc vars k args astack env cp m)
  applyCont : ∀ k env (m : MS), RS m (applyCont n k env m)
  arrive : ∀ f args k env (m : MS), RS m (arrive n f args k env m)
  builtin : ∀ f args k env (m : MS), RS2 m (builtin n f args k env m)

theorem assertClause_same {n : Nat} (ihc : ∀ k env (m : MS), RS m (applyCont n k env m))
    (front : Bool) (t : Term) (k : Cont) (env : Env) (m : MS) :
    Same m (assertClause front t k env m n).2 ∧ NoCE (assertClause front t k env m n).1 := by
  unfold assertClause
  simp only []
  split
  · exact mkErr_same _ _ _
  · exact mkErr_same _ _ _
  · exact mkErr_same _ _ _
  · exact mkErr_same _ _ _
  · split
    · exact mkErr_same _ _ _
    · split
      · exact ⟨⟨rfl, rfl⟩, NoCE_none rfl⟩
      · split
        · rename_i r hr
          have := ihc k env _ r.1 r.2 hr
          exact ⟨⟨this.1.1, this.1.2⟩, this.2⟩
        · exact ⟨⟨rfl, rfl⟩, NoCE_goErr _ (by decide)⟩

local macro "leafE" : tactic => `(tactic| first
  | exact RS_none
  | exact RS_pair ⟨⟨rfl, rfl⟩, NoCE_none rfl⟩
  | exact RS_pair ⟨⟨rfl, rfl⟩, NoCE_goErr _ (by decide)⟩
  | exact RS.of_same ⟨rfl, rfl⟩ (StepSame.exec ‹StepSame _› _ _ _ _ _ _ _ _)
  | exact StepSame.arrive ‹StepSame _› _ _ _ _ _
  | exact StepSame.applyCont ‹StepSame _› _ _ _)

theorem exec_same {n : Nat} (ih : StepSame n) : ∀ pc vars k args astack env cp (m : MS),
    RS m (exec (n + 1) pc vars k args astack env cp m) := by
  intro pc vars k args astack env cp m
  cases pc with
  | nil => simp only [exec]; leafE
  | cons op pc =>
    cases op <;> (first | simp only [exec] | (rw [exec.eq_def]; simp only [])) <;>
      (repeat' (first | leafE | split))

theorem applyCont_same {n : Nat} (ih : StepSame n) : ∀ k env (m : MS), RS m (applyCont (n + 1) k env m) := by
  intro k env m
  cases k with
  | done => simp only [applyCont]; exact RS_pair ⟨⟨rfl, rfl⟩, NoCE_none rfl⟩
  | exec pc vars cp k => simp only [applyCont]; exact ih.exec _ _ _ _ _ _ _ _
  | collect t mx =>
    simp only [applyCont]
    refine RS_some ⟨rfl, rfl⟩ ?_
    split <;> exact NoCE_none rfl
  | findallK t s => simp only [applyCont]; exact RS_pair ⟨⟨rfl, rfl⟩, NoCE_none rfl⟩
  | catchExit f k => simp only [applyCont]; exact RS_pair ⟨⟨rfl, rfl⟩, NoCE_none rfl⟩

theorem arrive_same {n : Nat} (ih : StepSame n) : ∀ f args k env (m : MS),
    RS m (arrive (n + 1) f args k env m) := by
  intro f args k env m
  simp only [arrive]
  split
  · rename_i r hr
    intro p m' e
    subst e
    exact ih.builtin _ _ _ _ _ p m' hr
  · split
    · exact RS_pair (clausesCall_same _ _ _ _ _)
    · exact RS_pair (mkErr_same _ _ _)

local macro "leafB" : tactic => `(tactic| first
  | exact RS2_none
  | exact RS2_some_none
  | exact RS2_pair (callGoal_same _ _ _ _)
  | exact RS2_pair (mkErr_same _ _ _)
  | exact RS2_pair (appendLists_same _ _ _ _ _ _)
  | exact RS2_pair (assertClause_same (StepSame.applyCont ‹StepSame _›) _ _ _ _ _)
  | exact RS2_pair ⟨⟨rfl, rfl⟩, NoCE_none rfl⟩
  | exact RS2_pair ⟨⟨rfl, rfl⟩, NoCE_exc _⟩
  | exact RS2_some (StepSame.applyCont ‹StepSame _› _ _ _))

attribute [local irreducible] callGoal mkErr appendLists in
theorem builtin_same {n : Nat} (ih : StepSame n) : ∀ f args k env (m : MS),
    RS2 m (builtin (n + 1) f args k env m) := by
  intro f args k env m
  rw [builtin.eq_def]
  simp only []
  split
  all_goals (repeat' (first | leafB | split))

theorem stepSame : ∀ n, StepSame n
  | 0 => ⟨by intros; simp only [exec]; exact RS_none, by intros; simp only [applyCont]; exact RS_none,
          by intros; simp only [arrive]; exact RS_none, by intros; simp only [builtin]; exact RS2_some_none⟩
  | n + 1 =>
    have ih := stepSame n
    ⟨exec_same ih, applyCont_same ih, arrive_same ih, builtin_same ih⟩

/-! ### thunks (the nested trampolines live here) -/

theorem evalRecover_same (h : Handler) (e : Err) (m : MS) :
    Same m (evalRecover h e m).2 ∧ ∀ p, (evalRecover h e m).1 = some p → NoCE p := by
  have key : ∀ ball : Term,
      Same m (match unify inner false h.env h.catcher ball with
          | some (env', .ok) => (some (callGoal h.recover h.k env' m).1, (callGoal h.recover h.k env' m).2)
          | _ => ((none : Option Pr), m)).2 ∧
      ∀ p, (match unify inner false h.env h.catcher ball with
          | some (env', .ok) => (some (callGoal h.recover h.k env' m).1, (callGoal h.recover h.k env' m).2)
          | _ => ((none : Option Pr), m)).1 = some p → NoCE p := by
    intro ball
    split
    · rename_i env' _
      have := callGoal_same h.recover h.k env' m
      exact ⟨this.1, fun p hp => by simp only [Option.some.injEq] at hp; subst hp; exact this.2⟩
    · exact ⟨⟨rfl, rfl⟩, by simp⟩
  unfold evalRecover
  split
  · exact key _
  · exact ⟨⟨rfl, rfl⟩, by simp⟩

/-- what calling a thunk does to the poll counter and the context: the context is never changed,
    the counter only advances and — with cancellation at `c` — not beyond `c`; the error
    "context canceled" is handed out only in a cancelled state -/
def TS (m : MS) (r : Option (Pr × MS)) : Prop :=
  ∀ q m', r = some (q, m') →
    m'.user.cancelAt = m.user.cancelAt ∧ m.iter ≤ m'.iter ∧
    (∀ c, m.user.cancelAt = some c → m.iter ≤ c → m'.iter ≤ c) ∧
    ErrOK IsCancelErr m.user.cancelAt m' q

theorem TS_none {m : MS} : TS m none := fun _ _ h => by cases h

theorem TS_of_RS {m : MS} {r : Option (Pr × MS)} (h : RS m r) : TS m r := by
  intro q m' e
  obtain ⟨⟨h1, h2⟩, h3⟩ := h q m' e
  refine ⟨h2, by omega, fun c _ hc => by omega, ?_⟩
  intro e' he' hb
  rw [hb] at he'
  exact absurd he' h3

theorem TS.of_same {m m1 : MS} {r : Option (Pr × MS)} (h : Same m m1) (hr : TS m1 r) : TS m r := by
  intro q m' e
  obtain ⟨h1, h2, h3, h4⟩ := hr q m' e
  obtain ⟨hi, hc⟩ := h
  refine ⟨h1.trans hc, by omega, fun c hcc hle => h3 c (hc.trans hcc) (by omega), ?_⟩
  rw [← hc]; exact h4

def ThunkStep (n : Nat) : Prop := ∀ t (m : MS), TS m (evalThunk n t m)

theorem semLeak_of {n : Nat} (ih : ThunkStep n) (ca : Option Nat) :
    SemLeak (sem n) ca IsCancelErr (fun m => m.user.cancelAt = ca) where
  thunk := by
    intro f t m q m' he hm
    obtain ⟨h1, h2, _, h4⟩ := ih t m q m' he
    exact ⟨h1.trans hm, h2, hm ▸ h4⟩
  recover := by
    intro r e m q m' he hm
    obtain ⟨⟨h1, h2⟩, h3⟩ := evalRecover_same r e m
    have e1 : (evalRecover r e m).1 = q := congrArg Prod.fst he
    have e2 : (evalRecover r e m).2 = m' := congrArg Prod.snd he
    rw [e2] at h1 h2
    refine ⟨h2.trans hm, by omega, ?_⟩
    intro p hp e' he' hb
    rw [hb] at he'
    exact absurd he' (h3 p (e1.trans hp))

theorem semInv_of {n : Nat} (ih : ThunkStep n) (c : Nat) :
    SemInv (sem n) (fun m => m.user.cancelAt = some c ∧ m.iter ≤ c) where
  thunk := by
    intro f t m q m' he ⟨hc, hi⟩
    obtain ⟨h1, _, h3, _⟩ := ih t m q m' he
    exact ⟨h1.trans hc, h3 c hc hi⟩
  recover := by
    intro r e m q m' he ⟨hc, hi⟩
    obtain ⟨⟨h1, h2⟩, _⟩ := evalRecover_same r e m
    have e2 : (evalRecover r e m).2 = m' := congrArg Prod.snd he
    rw [e2] at h1 h2
    exact ⟨h2.trans hc, by omega⟩

/-- a trampoline nested in a thunk, running under the context of the state (`m.user.cancelAt`) -/
theorem nested_force {n : Nat} (ih : ThunkStep n) (f : Nat) (p : Pr) (m : MS) (hp : NoCE p)
    (r : Promise.Res Err) (m' : MS) (h : force (sem n) m.user.cancelAt f [p] m = some (r, m')) :
    m'.user.cancelAt = m.user.cancelAt ∧ m.iter ≤ m'.iter ∧
    (∀ c, m.user.cancelAt = some c → m.iter ≤ c → m'.iter ≤ c) ∧
    (∀ e, r = .error e → e ≠ cancelErr) ∧
    (r = .cancelled → isCancelled m.user.cancelAt m'.iter = true) := by
  obtain ⟨h1, h2, h3⟩ := force_no_leak (sem n) m.user.cancelAt IsCancelErr _ (semLeak_of ih _)
    (fun _ h => h) f [p] m r m' h rfl (by
      intro p' hp' e he hb
      simp only [List.mem_singleton] at hp'
      subst hp'
      rw [hb] at he
      exact absurd he hp)
  refine ⟨h1, h2, ?_, h3, ?_⟩
  · intro c hc hi
    rw [hc] at h
    exact (force_inv (sem n) (some c) _ (semInv_of ih c) (by
      intro m ⟨h1, _⟩ hnc
      refine ⟨h1, ?_⟩
      simp [isCancelled] at hnc
      show m.iter + 1 ≤ c
      omega) f [p] m r m' h ⟨hc, hi⟩).2
  · intro hr
    subst hr
    exact force_cancelled_iter _ _ f _ _ _ h

theorem TS_cancelErr {m m' : MS} (h1 : m'.user.cancelAt = m.user.cancelAt) (h2 : m.iter ≤ m'.iter)
    (h3 : ∀ c, m.user.cancelAt = some c → m.iter ≤ c → m'.iter ≤ c)
    (h4 : isCancelled m.user.cancelAt m'.iter = true) : TS m (some (errP cancelErr, m')) := by
  intro q m2 e
  cases e
  exact ⟨h1, h2, h3, fun _ _ _ => h4⟩

theorem TS_noCE {m m' : MS} {q : Pr} (h1 : m'.user.cancelAt = m.user.cancelAt) (h2 : m.iter ≤ m'.iter)
    (h3 : ∀ c, m.user.cancelAt = some c → m.iter ≤ c → m'.iter ≤ c) (hq : NoCE q) :
    TS m (some (q, m')) := by
  intro q' m2 e
  cases e
  refine ⟨h1, h2, h3, ?_⟩
  intro e' he' hb
  rw [hb] at he'
  exact absurd he' hq

/-- continuing with a step of the mutual block after a nested trampoline -/
theorem TS_then {m m1 : MS} {r : Option (Pr × MS)} (h1 : m1.user.cancelAt = m.user.cancelAt)
    (h2 : m.iter ≤ m1.iter) (h3 : ∀ c, m.user.cancelAt = some c → m.iter ≤ c → m1.iter ≤ c)
    (hr : RS m1 r) : TS m r := by
  intro q m' e
  obtain ⟨⟨hi, hc⟩, hq⟩ := hr q m' e
  refine ⟨hc.trans h1, by omega, fun c hcc hle => by have := h3 c hcc hle; omega, ?_⟩
  intro e' he' hb
  rw [hb] at he'
  exact absurd he' hq

theorem evalThunk_succ {n : Nat} (ih : ThunkStep n) : ThunkStep (n + 1) := by
  intro t m
  have hs := stepSame n
  cases t with
  | clause c args k env parent =>
    simp only [evalThunk, freshVars]
    exact TS_of_RS (RS.of_same ⟨rfl, rfl⟩ (hs.exec _ _ _ _ _ _ _ _))
  | afterCut pc vars k args astack env cp =>
    simp only [evalThunk]
    exact TS_of_RS (hs.exec _ _ _ _ _ _ _ _)
  | contK k env =>
    simp only [evalThunk]
    exact TS_of_RS (hs.applyCont _ _ _)
  | exitAlt flag b k env =>
    cases k with
    | some k =>
      simp only [evalThunk]
      exact TS_of_RS (RS.of_same ⟨rfl, rfl⟩ (hs.applyCont _ _ _))
    | none =>
      simp only [evalThunk]
      exact TS_of_RS (RS_pair ⟨⟨rfl, rfl⟩, NoCE_none rfl⟩)
  | negate goal k env =>
    simp only [evalThunk]
    obtain ⟨⟨hi, hc⟩, hp⟩ := callGoal_same goal .done env m
    split
    · exact TS_none
    all_goals
      rename_i m' hf
      obtain ⟨h1, h2, h3, h4, h5⟩ := nested_force ih n _ _ hp _ m' hf
      have g1 : m'.user.cancelAt = m.user.cancelAt := h1.trans hc
      have g2 : m.iter ≤ m'.iter := by omega
      have g3 : ∀ c, m.user.cancelAt = some c → m.iter ≤ c → m'.iter ≤ c :=
        fun c hcc hle => h3 c (hc.trans hcc) (by omega)
    · exact TS_noCE g1 g2 g3 (NoCE_none rfl)
    · exact TS_then g1 g2 g3 (hs.applyCont _ _ _)
    · rename_i e
      exact TS_noCE g1 g2 g3 (by
        intro he
        simp only [errP, Option.some.injEq] at he
        exact h4 e rfl he)
    · exact TS_cancelErr g1 g2 g3 (hc ▸ h5 rfl)
  | findall tmpl goal inst k env =>
    simp only [evalThunk]
    obtain ⟨⟨hi, hc⟩, hp⟩ := callGoal_same goal (.findallK tmpl (freshId m).1) env (freshId m).2
    have hi' : (callGoal goal (.findallK tmpl (freshId m).1) env (freshId m).2).2.iter = m.iter := hi
    have hc' : (callGoal goal (.findallK tmpl (freshId m).1) env (freshId m).2).2.user.cancelAt =
        m.user.cancelAt := hc
    have nf : ∀ r m', force (sem n)
          (callGoal goal (.findallK tmpl (freshId m).1) env (freshId m).2).2.user.cancelAt n
          [(callGoal goal (.findallK tmpl (freshId m).1) env (freshId m).2).1]
          (callGoal goal (.findallK tmpl (freshId m).1) env (freshId m).2).2 = some (r, m') →
        (m'.user.cancelAt = m.user.cancelAt ∧ m.iter ≤ m'.iter ∧
          ∀ c, m.user.cancelAt = some c → m.iter ≤ c → m'.iter ≤ c) ∧
        (∀ e, r = .error e → e ≠ cancelErr) ∧
        (r = .cancelled → isCancelled m.user.cancelAt m'.iter = true) := by
      intro r m' hf
      obtain ⟨h1, h2, h3, h4, h5⟩ := nested_force ih n _ _ hp _ m' hf
      exact ⟨⟨h1.trans hc', by omega, fun c hcc hle => h3 c (hc'.trans hcc) (by omega)⟩, h4, hc' ▸ h5⟩
    split
    · exact TS_none
    · rename_i e m' hf
      obtain ⟨⟨g1, g2, g3⟩, h4, _⟩ := nf _ m' hf
      exact TS_noCE g1 g2 g3 (by
        intro he
        simp only [errP, Option.some.injEq] at he
        exact h4 e rfl he)
    · rename_i m' hf
      obtain ⟨⟨g1, g2, g3⟩, _, h5⟩ := nf _ m' hf
      exact TS_cancelErr g1 g2 g3 (h5 rfl)
    · rename_i m' _ _ hf
      obtain ⟨⟨g1, g2, g3⟩, _, _⟩ := nf _ m' hf
      split
      · exact TS_then g1 g2 g3 (hs.applyCont _ _ _)
      · exact TS_noCE g1 g2 g3 (NoCE_none rfl)
      · exact TS_none
  | catchBody goal flag k env =>
    simp only [evalThunk]
    exact TS_of_RS (RS_pair (callGoal_same _ _ _ _))
  | unifyK x y k env =>
    simp only [evalThunk]
    split
    · exact TS_of_RS (hs.applyCont _ _ _)
    · exact TS_of_RS (RS_pair ⟨⟨rfl, rfl⟩, NoCE_none rfl⟩)
    · exact TS_none
  | betweenNext low upper value k env =>
    simp only [evalThunk]
    split
    · rename_i r hr
      apply TS_of_RS
      intro p m' e
      cases e
      exact hs.builtin _ _ _ _ _ p m' hr
    · exact TS_none
  | appendRec xs ys zs k env =>
    simp only [evalThunk, freshVars]
    split
    · split
      · exact TS_of_RS (RS_pair (appendLists_same _ _ _ _ _ _))
      · exact TS_of_RS (RS_pair ⟨⟨rfl, rfl⟩, NoCE_none rfl⟩)
      · exact TS_none
    · exact TS_none

theorem thunkStep : ∀ n, ThunkStep n
  | 0 => by intro t m; simp only [evalThunk]; exact TS_none
  | n + 1 => evalThunk_succ (thunkStep n)

/-! ## Part 3 — the theorems -/

/-- **cancelAt_preserved**: no step of the VM ever changes the context (`St.cancelAt`), and only
    thunks (through their nested trampolines) and `force` itself advance the poll counter -/
theorem cancelAt_preserved :
    (∀ n pc vars k args astack env cp (m : MS) p m', exec n pc vars k args astack env cp m = some (p, m') →
      m'.user.cancelAt = m.user.cancelAt ∧ m'.iter = m.iter) ∧
    (∀ n k env (m : MS) p m', applyCont n k env m = some (p, m') →
      m'.user.cancelAt = m.user.cancelAt ∧ m'.iter = m.iter) ∧
    (∀ n f args k env (m : MS) p m', arrive n f args k env m = some (p, m') →
      m'.user.cancelAt = m.user.cancelAt ∧ m'.iter = m.iter) ∧
    (∀ n f args k env (m : MS) p m', builtin n f args k env m = some (some (p, m')) →
      m'.user.cancelAt = m.user.cancelAt ∧ m'.iter = m.iter) ∧
    (∀ n t (m : MS) p m', evalThunk n t m = some (p, m') →
      m'.user.cancelAt = m.user.cancelAt ∧ m.iter ≤ m'.iter) ∧
    (∀ h e (m : MS), (evalRecover h e m).2.user.cancelAt = m.user.cancelAt ∧ (evalRecover h e m).2.iter = m.iter) ∧
    (∀ fuel ca n stack (m : MS) r m', force (sem fuel) ca n stack m = some (r, m') →
      m'.user.cancelAt = m.user.cancelAt ∧ m.iter ≤ m'.iter) := by
  refine ⟨?_, ?_, ?_, ?_, ?_, ?_, ?_⟩
  · intro n pc vars k args astack env cp m p m' h
    have := ((stepSame n).exec pc vars k args astack env cp m p m' h).1
    exact ⟨this.2, this.1⟩
  · intro n k env m p m' h
    have := ((stepSame n).applyCont k env m p m' h).1
    exact ⟨this.2, this.1⟩
  · intro n f args k env m p m' h
    have := ((stepSame n).arrive f args k env m p m' h).1
    exact ⟨this.2, this.1⟩
  · intro n f args k env m p m' h
    have := ((stepSame n).builtin f args k env m p m' h).1
    exact ⟨this.2, this.1⟩
  · intro n t m p m' h
    obtain ⟨h1, h2, _, _⟩ := thunkStep n t m p m' h
    exact ⟨h1, h2⟩
  · intro h e m
    have := (evalRecover_same h e m).1
    exact ⟨this.2, this.1⟩
  · intro fuel ca n stack m r m' h
    refine force_inv (sem fuel) ca (fun x => x.user.cancelAt = m.user.cancelAt ∧ m.iter ≤ x.iter) ⟨?_, ?_⟩ ?_
      n stack m r m' h ⟨rfl, Nat.le_refl _⟩
    · intro f t x q x' he ⟨hc, hi⟩
      obtain ⟨h1, h2, _, _⟩ := thunkStep fuel t x q x' he
      exact ⟨h1.trans hc, by omega⟩
    · intro hd e x q x' he ⟨hc, hi⟩
      obtain ⟨⟨h1, h2⟩, _⟩ := evalRecover_same hd e x
      have e2 : (evalRecover hd e x).2 = x' := congrArg Prod.snd he
      rw [e2] at h1 h2
      exact ⟨h2.trans hc, by omega⟩
    · intro x ⟨hc, hi⟩ _
      exact ⟨hc, Nat.le_succ_of_le hi⟩

/-- the VM semantics is `IterBounded` relative to the state invariant "the context is cancelled at
    `c`": a thunk — its nested trampolines of `\+` and findall/3 included — and a recovery function
    started within `c` end within `c` and keep the invariant -/
theorem vm_iterBoundedInv (fuel c : Nat) : IterBoundedInv (sem fuel) c (fun s => s.cancelAt = some c) :=
  semInv_of (thunkStep fuel) c

/-- **vm_force_bounded** (C13_bounded_work for the VM): with the context cancelled at poll `c`, every
    run of the trampoline over the VM semantics that starts within `c` ends within `c` — the
    iterations of ALL trampolines nested in it (`\+`, findall/3, at any depth; they share the counter)
    included — and under the same context -/
theorem vm_force_bounded (fuel c n : Nat) (stack : List Pr) (m : MS) (r : Promise.Res Err) (m' : MS)
    (h : force (sem fuel) (some c) n stack m = some (r, m'))
    (hc : m.user.cancelAt = some c) (hm : m.iter ≤ c) :
    m'.user.cancelAt = some c ∧ m'.iter ≤ c :=
  force_bounded_inv (sem fuel) c (fun s => s.cancelAt = some c) (vm_iterBoundedInv fuel c) n stack m r m' h hc hm

/-- the same for one thunk: whatever it nests -/
theorem vm_thunk_bounded (fuel c : Nat) (t : Thunk) (m : MS) (q : Pr) (m' : MS)
    (h : evalThunk fuel t m = some (q, m')) (hc : m.user.cancelAt = some c) (hm : m.iter ≤ c) :
    m'.user.cancelAt = some c ∧ m'.iter ≤ c := by
  obtain ⟨h1, _, h3, _⟩ := thunkStep fuel t m q m' h
  exact ⟨h1.trans hc, h3 c hc hm⟩

/-- the trampoline nested in `\+ Goal`, as `evalThunk` runs it -/
def negateRun (n : Nat) (goal : Term) (env : Env) (m : MS) : Option (Promise.Res Err × MS) :=
  force (sem n) (callGoal goal .done env m).2.user.cancelAt n [(callGoal goal .done env m).1]
    (callGoal goal .done env m).2

/-- the trampoline nested in `findall(Tmpl, Goal, _)`, as `evalThunk` runs it -/
def findallRun (n : Nat) (tmpl goal : Term) (env : Env) (m : MS) : Option (Promise.Res Err × MS) :=
  force (sem n) (callGoal goal (.findallK tmpl (freshId m).1) env (freshId m).2).2.user.cancelAt n
    [(callGoal goal (.findallK tmpl (freshId m).1) env (freshId m).2).1]
    (callGoal goal (.findallK tmpl (freshId m).1) env (freshId m).2).2

/-- **vm_cancel_propagates**: the nested trampolines run under the caller's context
    (`m.user.cancelAt`); when one is cancelled, the thunk of `\+` / findall/3 returns the error
    promise `Error(ctx.Err())` = "context canceled" — in a state in which `ctx.Done()` is ready -/
theorem vm_cancel_propagates (n : Nat) (k : Cont) (env : Env) (m m' : MS) :
    (∀ goal, negateRun n goal env m = some (.cancelled, m') →
      evalThunk (n + 1) (.negate goal k env) m = some (errP (.goErr "context canceled"), m') ∧
      isCancelled m.user.cancelAt m'.iter = true) ∧
    (∀ tmpl goal inst, findallRun n tmpl goal env m = some (.cancelled, m') →
      evalThunk (n + 1) (.findall tmpl goal inst k env) m = some (errP (.goErr "context canceled"), m') ∧
      isCancelled m.user.cancelAt m'.iter = true) := by
  constructor
  · intro goal h
    unfold negateRun at h
    have hc := (callGoal_same goal .done env m).1.2
    refine ⟨?_, ?_⟩
    · simp only [evalThunk]
      have h' := h
      simp only [sem] at h'
      rw [h']
    · rw [← hc]; exact force_cancelled_iter _ _ _ _ _ _ h
  · intro tmpl goal inst h
    unfold findallRun at h
    have hc : (callGoal goal (.findallK tmpl (freshId m).1) env (freshId m).2).2.user.cancelAt =
        m.user.cancelAt := (callGoal_same goal _ env (freshId m).2).1.2
    refine ⟨?_, ?_⟩
    · simp only [evalThunk]
      have h' := h
      simp only [sem] at h'
      rw [h']
    · rw [← hc]; exact force_cancelled_iter _ _ _ _ _ _ h

/-- the nested trampolines do run under the context of the state: `cancelAt` of the state at the
    moment the nested `force` is entered is the one of the state the thunk was called in -/
theorem vm_nested_context (goal tmpl : Term) (env : Env) (m : MS) :
    (callGoal goal .done env m).2.user.cancelAt = m.user.cancelAt ∧
    (callGoal goal (.findallK tmpl (freshId m).1) env (freshId m).2).2.user.cancelAt = m.user.cancelAt :=
  ⟨(callGoal_same goal .done env m).1.2, (callGoal_same goal _ env (freshId m).2).1.2⟩

/-- what the error "context canceled" looks like to catch/3 -/
def cancelBall : Term := .app "error" (.cons (.atom "system_error") (.cons (.atom "context canceled") .nil))

/-- **vm_cancel_error_is_catchable**: the model (like the Go code) does NOT shield the error of a
    cancelled nested trampoline from catch/3: an active catch/3 whose catcher unifies with
    `error(system_error, 'context canceled')` — e.g. a variable — accepts it and runs its recovery.
    (What saves C13 is `vm_cancel_wins`: the enclosing trampoline polls before it does anything else.) -/
theorem vm_cancel_error_is_catchable (h : Handler) (m : MS) (env' : Env)
    (hflag : m.user.flag h.flag = true)
    (hu : unify inner false h.env h.catcher cancelBall = some (env', .ok)) :
    evalRecover h cancelErr m = (some (callGoal h.recover h.k env' m).1, (callGoal h.recover h.k env' m).2) := by
  unfold evalRecover cancelErr
  simp only [hflag, if_true]
  unfold cancelBall at hu
  rw [hu]

/-- **vm_cancel_wins**: if the thunk called in an iteration returns in a state in which
    `ctx.Done()` is ready — in particular after a trampoline nested in it, at any depth, was
    cancelled, and WHATEVER became of that error inside the thunk (propagated, or caught by a catch/3
    inside a nested trampoline whose recovery then succeeded, failed or threw) — the next iteration
    of the enclosing trampoline returns `.cancelled` with the state exactly as the thunk left it -/
theorem vm_cancel_wins (fuel n : Nat) (ca : Option Nat) (p : Pr) (stack : List Pr) (m : MS)
    (t : Thunk) (ts : List Thunk) (q : Pr) (m' : MS)
    (hnc : isCancelled ca m.iter = false) (hd : p.delayed = t :: ts)
    (hev : evalThunk fuel t { m with iter := m.iter + 1 } = some (q, m'))
    (hc : isCancelled ca m'.iter = true) :
    force (sem fuel) ca (n + 2) (p :: stack) m = some (.cancelled, m') :=
  force_cancel_wins (sem fuel) ca n p stack m t ts q m' hnc hd hev hc

/-- **vm_no_cancel_leak**: the error "context canceled" is created only by a cancelled nested
    trampoline, i.e. in a state in which `ctx.Done()` is ready, and from then on every enclosing
    trampoline returns `.cancelled` at its next poll: so no run of the trampoline (under the context
    of its state) ever ends with "context canceled" as an ordinary ERROR result — nor, by the same
    argument, does any nested one.  Together with `vm_force_bounded`: the context is the same at the
    end and the poll counter has only advanced. -/
theorem vm_no_cancel_leak (fuel n : Nat) (stack : List Pr) (m : MS) (r : Promise.Res Err) (m' : MS)
    (h : force (sem fuel) m.user.cancelAt n stack m = some (r, m'))
    (hst : ∀ p ∈ stack, p.err = some cancelErr → isCancelled m.user.cancelAt m.iter = true) :
    r ≠ .error cancelErr := by
  obtain ⟨_, _, h3⟩ := force_no_leak (sem fuel) m.user.cancelAt IsCancelErr _ (semLeak_of (thunkStep fuel) _)
    (fun _ h => h) n stack m r m' h rfl (by
      intro p hp e he hb
      rw [hb] at he
      exact hst p hp he)
  intro hr
  exact h3 cancelErr hr rfl

/-- the VM semantics with the recovery closures of catch/3 replaced, ON THE ERROR "context canceled"
    ONLY, by an arbitrary function `alt` -/
def semAlt (fuel : Nat) (alt : Handler → MS → Option Pr × MS) : Sem Thunk Handler Err St :=
  ⟨(sem fuel).evalThunk, fun h e m => if e = cancelErr then alt h m else evalRecover h e m⟩

/-- **vm_cancel_never_offered**: the error of a cancelled nested trampoline is never OFFERED to a
    catch/3 frame of the enclosing trampoline — what the recovery closures would do with it is
    irrelevant for every run (the poll at the top of the next iteration comes before the error
    promise is popped).  Stated for any trampoline running under the context of its state: the
    outermost one and (`negateRun`, `findallRun` are of this form) every nested one.  So although
    `Catch`'s closure by itself would accept it (`vm_cancel_error_is_catchable`), no
    `catch(_, error(system_error, _), _)` or `catch(_, _, _)` ever swallows a cancellation. -/
theorem vm_cancel_never_offered (fuel n : Nat) (alt : Handler → MS → Option Pr × MS)
    (stack : List Pr) (m : MS)
    (hst : ∀ p ∈ stack, p.err = some cancelErr → isCancelled m.user.cancelAt m.iter = true) :
    force (semAlt fuel alt) m.user.cancelAt n stack m = force (sem fuel) m.user.cancelAt n stack m := by
  refine force_bad_irrelevant (sem fuel) (semAlt fuel alt) m.user.cancelAt IsCancelErr _
    (semLeak_of (thunkStep fuel) _) (fun _ h => h) (fun _ _ _ => rfl) ?_ n stack m rfl ?_
  · intro r e x hb
    simp only [semAlt, sem]
    exact if_neg hb
  · intro p hp e he hb
    rw [hb] at he
    exact hst p hp he

/-! ### whole runs -/

/-- how `runQuery` reports the outcome of the outermost trampoline -/
def endOf : Promise.Res Err → End
  | .yes => .more
  | .no => .exhausted
  | .cancelled => .cancelled
  | .error (.exc (.app "error" (.cons f (.cons _ .nil)))) => .err f
  | .error (.exc t) => .ball t
  | .error (.goErr msg) => .goErr msg

/-- the state `runQuery` starts from -/
def initState (prog : List Term) (cancelAt : Option Nat) : St :=
  prog.foldl (fun (s : St) c =>
    match compile (toRep c) with
    | .ok (c1 :: cs) =>
      let old := (lookupProc s c1.name c1.arity).getD { dynamic := true }
      setProc s c1.name c1.arity { old with clauses := old.clauses ++ (c1 :: cs) }
    | _ => s) { loadClauses bootState [] with cancelAt := cancelAt }

/-- `runQuery` exposing the outcome of the outermost trampoline and the final machine state -/
def runQueryM (fuel : Nat) (prog : List Term) (query : Term) (max : Nat) (cancelAt : Option Nat) :
    Option (Promise.Res Err × MS) :=
  force (sem fuel) cancelAt fuel [(callGoal query (.collect query max) [] { user := initState prog cancelAt }).1]
    (callGoal query (.collect query max) [] { user := initState prog cancelAt }).2

/-- definitional: `runQuery` is `runQueryM` with the answers read off the final state -/
theorem runQuery_eq (fuel : Nat) (prog : List Term) (query : Term) (max : Nat) (cancelAt : Option Nat) :
    runQuery fuel prog query max cancelAt =
      (runQueryM fuel prog query max cancelAt).map (fun rm => (rm.2.user.answers.reverse, endOf rm.1)) := by
  have key : ∀ (o : Option (Promise.Res Err × MS)),
      (match o with
        | none => none
        | some (r, m') =>
          some (m'.user.answers.reverse, match r with
            | .yes => End.more
            | .no => .exhausted
            | .cancelled => .cancelled
            | .error (.exc (.app "error" (.cons f (.cons _ .nil)))) => .err f
            | .error (.exc t) => .ball t
            | .error (.goErr msg) => .goErr msg)) =
      o.map (fun rm => (rm.2.user.answers.reverse, endOf rm.1)) := by
    intro o
    cases o with
    | none => rfl
    | some rm =>
      obtain ⟨r, m'⟩ := rm
      simp only [Option.map_some, Option.some.injEq, Prod.mk.injEq, true_and]
      unfold endOf
      split <;> rfl
  exact key (runQueryM fuel prog query max cancelAt)

theorem initState_cancelAt (prog : List Term) (ca : Option Nat) : (initState prog ca).cancelAt = ca := by
  unfold initState
  generalize hs : ({ loadClauses bootState [] with cancelAt := ca } : St) = s0
  have h0 : s0.cancelAt = ca := by rw [← hs]
  clear hs
  induction prog generalizing s0 with
  | nil => exact h0
  | cons c cs ih =>
    simp only [List.foldl_cons]
    apply ih
    split
    · exact h0
    · exact h0

/-- **vm_run_cancelled**: a query run under a context that is cancelled at poll `c` — for every
    program, query, answer limit and fuel — ends within `c` polls in total (all nested trampolines
    included); it ends with `.cancelled` exactly at poll `c`, or else it ended on its own after at
    most `c` polls none of which observed the cancellation; the Go error "context canceled" of a
    cancelled NESTED trampoline never is the outcome of the run (the outcome is then `.cancelled`) -/
theorem vm_run_cancelled (fuel : Nat) (prog : List Term) (query : Term) (max c : Nat)
    (r : Promise.Res Err) (m' : MS) (h : runQueryM fuel prog query max (some c) = some (r, m')) :
    m'.user.cancelAt = some c ∧ m'.iter ≤ c ∧ (r = .cancelled → m'.iter = c) ∧ r ≠ .error cancelErr := by
  unfold runQueryM at h
  have hs := callGoal_same query (.collect query max) [] { user := initState prog (some c) }
  have hc : (callGoal query (.collect query max) [] { user := initState prog (some c) }).2.user.cancelAt = some c :=
    hs.1.2.trans (initState_cancelAt prog (some c))
  have hi : (callGoal query (.collect query max) [] { user := initState prog (some c) }).2.iter = 0 := hs.1.1
  obtain ⟨h1, h2⟩ := vm_force_bounded fuel c fuel _ _ r m' h hc (by omega)
  refine ⟨h1, h2, ?_, ?_⟩
  · intro hr
    subst hr
    have := force_cancelled_iter _ _ _ _ _ _ h
    simp [isCancelled] at this
    omega
  · refine vm_no_cancel_leak fuel fuel _ _ r m' (by rw [hc]; exact h) ?_
    intro p hp he
    simp only [List.mem_singleton] at hp
    subst hp
    exact absurd he hs.2

/-- the same read off `runQuery`'s result -/
theorem vm_run_end (fuel : Nat) (prog : List Term) (query : Term) (max c : Nat)
    (answers : List Term) (e : End) (h : runQuery fuel prog query max (some c) = some (answers, e)) :
    ∃ r m', runQueryM fuel prog query max (some c) = some (r, m') ∧ e = endOf r ∧
      answers = m'.user.answers.reverse ∧ m'.iter ≤ c ∧
      ((r = .cancelled ∧ m'.iter = c) ∨ (r ≠ .cancelled ∧ r ≠ .error cancelErr)) := by
  rw [runQuery_eq] at h
  cases hq : runQueryM fuel prog query max (some c) with
  | none => rw [hq] at h; cases h
  | some rm =>
    obtain ⟨r, m'⟩ := rm
    rw [hq] at h
    simp only [Option.map_some, Option.some.injEq, Prod.mk.injEq] at h
    obtain ⟨h1, h2, h3, h4⟩ := vm_run_cancelled fuel prog query max c r m' hq
    refine ⟨r, m', rfl, h.2.symm, h.1.symm, h2, ?_⟩
    by_cases hr : r = .cancelled
    · exact Or.inl ⟨hr, h3 hr⟩
    · exact Or.inr ⟨hr, h4⟩

/-! ## the hypotheses are satisfiable: a worked run

  `\+ repeat` called under a context that is cancelled at poll 2.  Poll 0: the outer trampoline
  calls the thunk of `\+`; poll 1: the nested trampoline calls the clause `'\0' :- repeat`;
  poll 2 (nested): cancelled — the thunk of `\+` returns the error "context canceled";
  the outer trampoline polls again: cancelled. -/
namespace Ex

def repC : Clause :=
  ⟨tupleName, 0, .app ":-" (.cons (.atom tupleName) (.cons (.atom "repeat") .nil)), [],
    [.enter, .call "repeat" 0, .exit]⟩

theorem compileCall_repeat : compileCall (.atom "repeat") [] = .ok ([repC], []) := by
  have : (match compileCall (.atom "repeat") [] with
      | .ok (cs, fvs) => decide (cs = [repC] ∧ fvs = [])
      | _ => false) = true := by decide +kernel
  revert this
  cases compileCall (.atom "repeat") [] with
  | error e => simp
  | ok r => obtain ⟨cs, fvs⟩ := r; simp

theorem callGoal_repeat (k : Cont) (m : MS) :
    callGoal (.atom "repeat") k [] m = clausesCall [repC] [] k [] m := by
  have rr : res [] (.atom "repeat") = .atom "repeat" := by decide +kernel
  unfold callGoal
  rw [rr]
  simp only [compileCall_repeat]

def ctxEnv : Env := Env.bind [] varContext (.app "/" (.cons (.atom "repeat") (.cons (.int 0) .nil)))

/-- the promise `repeat/0` returns -/
def repP (k : Cont) : Pr := { delayed := [.contK k ctxEnv], rep := true }

theorem clause_repeat (n : Nat) (k : Cont) (id : Nat) (m : MS) :
    evalThunk (n + 5) (.clause repC [] k [] id) m = some (repP (.exec [.exit] [] id k), m) := by
  simp only [evalThunk, freshVars, repC, exec, arrive, builtin, List.length_nil]
  rfl

/-- the context is cancelled at poll 2 -/
def m0 : MS := { user := { cancelAt := some 2 } }
def m1 : MS := { user := { cancelAt := some 2 }, iter := 1 }
def m2 : MS := { user := { cancelAt := some 2, nextId := 2 }, iter := 2 }

/-- the nested trampoline of `\+ repeat` is cancelled at its second poll -/
theorem negateRun_repeat (n : Nat) : negateRun (n + 5) (.atom "repeat") [] m1 = some (.cancelled, m2) := by
  unfold negateRun
  rw [callGoal_repeat]
  simp only [clausesCall, freshId, m1]
  rw [force]
  simp only [isCancelled, sem, List.map_cons, List.map_nil, clause_repeat]
  rw [force]
  simp [isCancelled, m2]

/-- `vm_cancel_propagates`, applied: the thunk of `\+` returns "context canceled" -/
theorem negate_thunk (n : Nat) (k : Cont) :
    evalThunk (n + 6) (.negate (.atom "repeat") k []) m1 = some (errP (.goErr "context canceled"), m2) :=
  ((vm_cancel_propagates (n + 5) k [] m1 m2).1 _ (negateRun_repeat n)).1

def negP : Pr := { delayed := [.negate (.atom "repeat") .done []] }

/-- `vm_cancel_wins`, applied: the outer trampoline returns `.cancelled` -/
theorem outer_run (n : Nat) : force (sem (n + 6)) (some 2) (n + 2) [negP] m0 = some (.cancelled, m2) :=
  vm_cancel_wins (n + 6) n (some 2) negP [] m0 _ [] _ m2 (by decide) rfl (negate_thunk n .done) (by decide)

/-- the hypotheses of `vm_force_bounded` / `vm_thunk_bounded` / `vm_no_cancel_leak` hold of this run -/
example : m2.user.cancelAt = some 2 ∧ m2.iter ≤ 2 :=
  vm_force_bounded 6 2 2 [negP] m0 .cancelled m2 (outer_run 0) rfl (by decide)
example : m2.user.cancelAt = some 2 ∧ m2.iter ≤ 2 :=
  vm_thunk_bounded 6 2 _ m1 _ m2 (negate_thunk 0 .done) rfl (by decide)
example : Promise.Res.cancelled ≠ .error cancelErr :=
  vm_no_cancel_leak 6 2 [negP] m0 .cancelled m2 (outer_run 0) (by intro p hp he; simp [negP] at hp; subst hp; cases he)

/-- `Catch`'s closure with a variable as catcher would accept the error … -/
example (m : MS) (hf : m.user.flag 7 = true) :
    evalRecover ⟨7, .var 5, .atom "true", .done, []⟩ cancelErr m =
      (some (callGoal (.atom "true") .done [(5, cancelBall)] m).1, (callGoal (.atom "true") .done [(5, cancelBall)] m).2) :=
  vm_cancel_error_is_catchable ⟨7, .var 5, .atom "true", .done, []⟩ m [(5, cancelBall)] hf (by decide +kernel)

/-- … but it is never offered: with the thunk of `\+` under such a catch/3 frame the run is the same
    whatever the closure does with "context canceled" -/
example (alt : Handler → MS → Option Pr × MS) (n : Nat) :
    force (semAlt 6 alt) m0.user.cancelAt n [negP, { recover := some ⟨7, .var 5, .atom "true", .done, []⟩ }] m0 =
    force (sem 6) m0.user.cancelAt n [negP, { recover := some ⟨7, .var 5, .atom "true", .done, []⟩ }] m0 :=
  vm_cancel_never_offered 6 n alt _ m0 (by
    intro p hp he
    simp only [List.mem_cons, List.not_mem_nil, or_false] at hp
    rcases hp with rfl | rfl <;> cases he)

/-- a context that is already cancelled: every query ends `.cancelled` at poll 0 -/
theorem run_cancelled_at_0 (fuel : Nat) (prog : List Term) (query : Term) (max : Nat) :
    runQueryM (fuel + 1) prog query max (some 0) =
      some (.cancelled, (callGoal query (.collect query max) [] { user := initState prog (some 0) }).2) := by
  unfold runQueryM
  rw [force]
  simp [isCancelled]

example (prog : List Term) (query : Term) (max : Nat) :=
  vm_run_cancelled 1 prog query max 0 _ _ (run_cancelled_at_0 0 prog query max)

/-- the naive formulation "a run under a context cancelled at `c` ends `.cancelled` or after fewer
    than `c` polls" is FALSE: a run may end on its own in the very iteration that follows the `c`-th
    successful poll — here: cancellation at poll 1, the only promise succeeds in iteration 0, the run
    ends `.yes` with the counter at 1 = c.  Hence `m'.iter ≤ c` (not `<`) in `vm_run_cancelled`. -/
theorem naive_formulation_false :
    ∃ (r : Promise.Res Err) (m' : MS),
      force (sem 1) (some 1) 2 [okP] { user := { cancelAt := some 1 } } = some (r, m') ∧
      r ≠ .cancelled ∧ ¬ m'.iter < 1 :=
  ⟨.yes, { user := { cancelAt := some 1 }, iter := 1 }, by simp [force, isCancelled, okP],
    (fun h => by cases h), by decide⟩

end Ex

end PrologVerif.VMCancel
