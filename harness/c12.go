package main

// C12: call sequences over {Next, Scan, Err, Close} on the real Solutions, each call under a watchdog.
//
//   c12.seq    payload  "<query> | <ops>"          e.g.  "fin 2 | N N N N N S C"
//   c12.inter  payload  "<queryA> ; <queryB> | <side><op> …"   e.g.  "fin 2 ; inf | aN bN aC bS bN"
//
// query:  fin K  = K answers 1..K then exhaustion     ( member(X,[1,…,K]), tick ; tick, fail )
//         err J  = J answers then throw(oops)         ( member(X,[1,…,J]), tick ; tick, throw(oops) )
//         inf    = answers 1,2,3,… without end        between(1, 1000000000, X), tick
// Every search for the next outcome runs tick/0 exactly once (a Go predicate counting its calls), so
// the counter at the end of the case = number of search steps = "goals run".
//
// output: one item per call (N:true|false, S:<answer>|-, E:<error>|-, C:nil|closed, <op>:BLOCKED and stop),
//         then "work=<ticks> g=<goroutines still alive>" measured after the producer settled.

import (
	"context"
	"hash/fnv"
	"fmt"
	"math/rand"
	"runtime"
	"strconv"
	"strings"
	"sync"
	"sync/atomic"
	"time"

	"github.com/ichiban/prolog"
	"github.com/ichiban/prolog/engine"
)

func init() {
	register(&stream{name: "c12.seq", gen: genC12Seq, run: runC12Seq, serial: true})
	register(&stream{name: "c12.inter", gen: genC12Inter, run: runC12Inter, serial: true})
}

const c12Watchdog = 2 * time.Second

var c12 struct {
	once    sync.Once
	i       *prolog.Interpreter
	ticks   [2]int64
	blocked int // cases that ended in a blocked call or a goroutine that did not go away so far
	//            (each costs a watchdog / settle period and leaks goroutines)
}

// after this many blocked cases in one process the remaining cases are not run any more: the failing
// inputs have been found, and a broken tree would otherwise cost one watchdog period per case
const c12MaxBlocked = 6

const c12Skipped = "SKIPPED (too many blocked calls in this run already)"

func c12Interp() *prolog.Interpreter {
	c12.once.Do(func() {
		i, _ := newInterp("")
		for k, name := range []string{"tick_a", "tick_b"} {
			k := k
			i.Register0(engine.NewAtom(name), func(_ *engine.VM, cont engine.Cont, env *engine.Env) *engine.Promise {
				atomic.AddInt64(&c12.ticks[k], 1)
				return cont(env)
			})
		}
		c12.i = i
	})
	return c12.i
}

// c12Query returns the Prolog text for a query spec; side selects the tick predicate.
// the variant (drawn from the whole case) only changes HOW the final failure / error comes about, never
// the outcome stream the specification sees
func c12Variant(payload string) int {
	h := fnv.New32a()
	h.Write([]byte(payload))
	return int(h.Sum32() % 7)
}

func c12Query(spec string, side int, variant int) string {
	tick := []string{"tick_a", "tick_b"}[side]
	f := strings.Fields(spec)
	nums := func(k int) string {
		xs := make([]string, k)
		for i := range xs {
			xs[i] = strconv.Itoa(i + 1)
		}
		return "[" + strings.Join(xs, ",") + "]"
	}
	switch f[0] {
	case "fin":
		k, err := strconv.Atoi(f[1])
		must(err)
		end := []string{"fail", "\\+ true", "repeat, !, fail", "fail", "call(fail)", "findall(_, fail, [_|_])", "catch(fail, _, true)"}[variant]
		return fmt.Sprintf("( member(X, %s), %s ; %s, %s ).", nums(k), tick, tick, end)
	case "err":
		k, err := strconv.Atoi(f[1])
		must(err)
		end := []string{"throw(oops)", "repeat, throw(oops)", "\\+ \\+ throw(oops)", "catch(throw(oops), other, true)",
			"findall(_, throw(oops), _)", "call((fail ; throw(oops)))", "once((repeat, throw(oops)))"}[variant]
		return fmt.Sprintf("( member(X, %s), %s ; %s, %s ).", nums(k), tick, tick, end)
	case "mix":
		// answers 1, unbound, 3, unbound, ...: a later answer leaves X unbound
		k, err := strconv.Atoi(f[1])
		must(err)
		xs := make([]string, k)
		for i := range xs {
			if i%2 == 0 {
				xs[i] = strconv.Itoa(i + 1)
			} else {
				xs[i] = "_"
			}
		}
		return fmt.Sprintf("( member(X, [%s]), %s ; %s, fail ).", strings.Join(xs, ","), tick, tick)
	case "inf", "can":
		return fmt.Sprintf("between(1, 1000000000, X), %s.", tick)
	case "cut":
		// only cuts: compiled inline, no predicate is called, the answer carries the nil environment
		return "!, !."
	}
	panic("bad query spec " + spec)
}

type c12ScanState struct {
	n int
	a struct{ X interface{} }
}

// touched only by the one consumer goroutine of the running case (the streams are serial)
var c12ScanStates = map[*prolog.Solutions]*c12ScanState{}

// c12Call performs one call on sols and renders its result.
func c12Call(sols *prolog.Solutions, op byte) string {
	switch op {
	case 'N':
		return "N:" + strconv.FormatBool(sols.Next())
	case 'S':
		// The destination rotates per Solutions: a fresh map, a struct REUSED by every third Scan of this
		// Solutions (it still holds what an earlier answer put there), and a struct of another type (other
		// field order): Scan reports the most recent answer whatever was scanned before, into whatever.
		st := c12ScanStates[sols]
		if st == nil {
			st = &c12ScanState{}
			c12ScanStates[sols] = st
		}
		st.n++
		var xv interface{}
		var err error
		switch st.n % 3 {
		case 1:
			m := map[string]interface{}{}
			err = sols.Scan(m)
			xv = m["X"]
		case 2:
			err = sols.Scan(&st.a)
			xv = st.a.X
		default:
			var b struct {
				Y interface{}
				X interface{}
			}
			err = sols.Scan(&b)
			xv = b.X
		}
		if err != nil {
			return "S:scanerr(" + encName(err.Error()) + ")"
		}
		switch x := xv.(type) {
		case nil:
			return "S:-"
		case int:
			return "S:" + strconv.Itoa(x)
		default:
			return "S:" + encName(fmt.Sprintf("%T(%v)", x, x))
		}
	case 'E':
		err := sols.Err()
		if err == nil {
			return "E:-"
		}
		return "E:" + encName(errWire(err))
	case 'C':
		switch err := sols.Close(); err {
		case nil:
			return "C:nil"
		case prolog.ErrClosed:
			return "C:closed"
		default:
			return "C:" + encName(err.Error())
		}
	}
	panic("bad op " + string(op))
}

// c12Consumer is the ONE goroutine that makes all calls of a case (the property is about calls made from
// one goroutine); the runner only watches it.  It stays parked until stop() so that it can be discounted
// exactly when goroutines are counted.
type c12Consumer struct {
	reqs chan func() string
	resp chan string
}

func newC12Consumer() *c12Consumer {
	c := &c12Consumer{reqs: make(chan func() string), resp: make(chan string, 1)}
	go func() {
		for f := range c.reqs {
			c.resp <- f()
		}
	}()
	return c
}

// call runs one call under the watchdog; ok=false means it did not return in time.
func (c *c12Consumer) call(sols *prolog.Solutions, op byte) (res string, ok bool) {
	c.reqs <- func() (r string) {
		defer func() {
			if p := recover(); p != nil {
				r = string(op) + ":PANIC(" + encName(fmt.Sprint(p)) + ")"
			}
		}()
		return c12Call(sols, op)
	}
	t := time.NewTimer(c12Watchdog)
	defer t.Stop()
	select {
	case r := <-c.resp:
		return r, true
	case <-t.C:
		return string(op) + ":BLOCKED", false
	}
}

func (c *c12Consumer) stop() { close(c.reqs) }

func minInt_c12(a, b int) int {
	if a < b {
		return a
	}
	return b
}

// c12Settle waits (briefly) for the number of goroutines above base to drop to want.
func c12Settle(base, want int, patient bool) int {
	limit := 3
	if patient {
		limit = 2000 // × 100µs = 200 ms
	}
	d := runtime.NumGoroutine() - base
	for n := 0; d > want && n < limit; n++ {
		if n < 3 {
			runtime.Gosched()
		} else {
			time.Sleep(100 * time.Microsecond)
		}
		d = runtime.NumGoroutine() - base
	}
	return d
}

func runC12Seq(payload string) string {
	parts := strings.SplitN(payload, "|", 2)
	spec, ops := strings.TrimSpace(parts[0]), strings.Fields(parts[1])
	if c12.blocked >= c12MaxBlocked {
		return c12Skipped
	}
	i := c12Interp()
	base := runtime.NumGoroutine()
	cons := newC12Consumer()
	base++ // the consumer goroutine stays parked until stop()
	atomic.StoreInt64(&c12.ticks[0], 0)
	// "can J": the endless query under a context that is CANCELLED right after its J-th answer was handed over
	// (the search goroutine is parked between two requests then): from there on the query has ended in an
	// error, i.e. the calls see what they see for "err J" (with the context's error, and without the search
	// step that would have found the end)
	canJ := -1
	ctx, cancel := context.WithCancel(context.Background())
	defer cancel()
	if f := strings.Fields(spec); f[0] == "can" {
		canJ, _ = strconv.Atoi(f[1])
	}
	doCancel := func() {
		cancel()
		time.Sleep(5 * time.Millisecond) // whoever watches the context has noticed by now
	}
	sols, err := i.QueryContext(ctx, c12Query(spec, 0, c12Variant(payload)))
	must(err)
	if canJ == 0 {
		doCancel()
	}
	var res []string
	mayExit, blocked := false, false
	afterEnd, nNext, nTrue := 0, 0, 0
	for _, o := range ops {
		if mayExit {
			afterEnd++
		}
		if o[0] == 'N' {
			nNext++
		}
		r, ok := cons.call(sols, o[0])
		res = append(res, r)
		if !ok {
			blocked = true
			c12.blocked++
			break
		}
		if r == "N:false" || r == "C:nil" {
			mayExit = true
		}
		if r == "N:true" {
			if nTrue++; nTrue == canJ {
				doCancel()
			}
		}
	}
	g := c12Settle(base, 0, mayExit && !blocked)
	work := atomic.LoadInt64(&c12.ticks[0])
	// clean up for the next case (not part of the observation)
	if !blocked {
		cons.call(sols, 'C')
		cons.stop()
		if (mayExit && g != 0) || c12Settle(base-1, 0, true) != 0 {
			c12.blocked++ // a goroutine that should be gone is still there
		}
	}
	nt := 0
	if afterEnd > 0 {
		nt = 1
	}
	return fmt.Sprintf("%s | work=%d g=%d ### nt=%d query=%s len=%d nexts=%d calls_after_end=%d",
		strings.Join(res, " "), work, g, nt, strings.ReplaceAll(spec, " ", ""), len(ops), nNext, minInt_c12(afterEnd, 4))
}

var c12Ops = []string{"N", "S", "E", "C"}

func c12AllSeqs(maxLen int) [][]string {
	out := [][]string{{}}
	level := [][]string{{}}
	for l := 1; l <= maxLen; l++ {
		var next [][]string
		for _, s := range level {
			for _, o := range c12Ops {
				t := append(append([]string{}, s...), o)
				next = append(next, t)
			}
		}
		out = append(out, next...)
		level = next
	}
	return out
}

func c12RandSeq(r *rand.Rand, n int) []string {
	ops := make([]string, n)
	for i := range ops {
		switch k := r.Intn(10); {
		case k < 5:
			ops[i] = "N"
		case k < 7:
			ops[i] = "S"
		case k < 9:
			ops[i] = "E"
		default:
			ops[i] = "C"
		}
	}
	return ops
}

func c12RandSpec(r *rand.Rand) string {
	switch r.Intn(5) {
	case 0, 1:
		return fmt.Sprintf("fin %d", r.Intn(7))
	case 2, 3:
		return fmt.Sprintf("err %d", r.Intn(5))
	default:
		return "inf"
	}
}

// genC12Seq: EXHAUSTIVE small scope (all sequences up to length 5, thorough: 7, over the four calls ×
// the queries fin 0..3, err 0..2, inf) followed by n random longer cases.
func genC12Seq(r *rand.Rand, n int, tier string) []string {
	maxLen := 5
	if tier == "thorough" {
		maxLen = 7
	}
	specs := []string{"fin 0", "fin 1", "fin 2", "fin 3", "err 0", "err 1", "err 2", "inf", "cut", "mix 3", "mix 4"}
	var out []string
	for _, seq := range c12AllSeqs(maxLen) {
		for _, sp := range specs {
			out = append(out, sp+" | "+strings.Join(seq, " "))
		}
	}
	for i := 0; i < n; i++ {
		out = append(out, c12RandSpec(r)+" | "+strings.Join(c12RandSeq(r, 6+r.Intn(9)), " "))
	}
	// cancelled contexts: all sequences over {N, S, E} up to length 5 (Close only after the end was reported:
	// what Err shows when Close and the cancellation race is not determined)
	for _, seq := range c12AllSeqs(5) {
		if strings.Contains(strings.Join(seq, ""), "C") {
			continue
		}
		for j := 0; j < 3; j++ {
			nN := strings.Count(strings.Join(seq, ""), "N")
			out = append(out, fmt.Sprintf("can %d | %s", j, strings.Join(seq, " ")))
			if nN == j+1 && seq[len(seq)-1] == "N" {
				for _, tail := range []string{"C", "C N E", "N N C C", "E C S N"} {
					out = append(out, fmt.Sprintf("can %d | %s %s", j, strings.Join(seq, " "), tail))
				}
			}
		}
	}
	return out
}

// ---------------------------------------------------------------------------------------------
// two open Solutions of one interpreter, calls interleaved by one consumer goroutine

func runC12Inter(payload string) string {
	parts := strings.SplitN(payload, "|", 2)
	specs := strings.Split(parts[0], ";")
	ops := strings.Fields(parts[1])
	if c12.blocked >= c12MaxBlocked {
		return c12Skipped
	}
	i := c12Interp()
	base := runtime.NumGoroutine()
	cons := newC12Consumer()
	base++
	var sols [2]*prolog.Solutions
	for k := 0; k < 2; k++ {
		atomic.StoreInt64(&c12.ticks[k], 0)
		var err error
		sols[k], err = i.Query(c12Query(strings.TrimSpace(specs[k]), k, c12Variant(payload)))
		must(err)
	}
	var res []string
	var mayExit [2]bool
	blocked := false
	switches, afterEnd := 0, 0
	last := byte(0)
	for _, o := range ops {
		side := int(o[0] - 'a')
		if last != 0 && last != o[0] {
			switches++
		}
		last = o[0]
		if mayExit[side] {
			afterEnd++
		}
		r, ok := cons.call(sols[side], o[1])
		res = append(res, string(o[0])+r)
		if !ok {
			blocked = true
			c12.blocked++
			break
		}
		if r == "N:false" || r == "C:nil" {
			mayExit[side] = true
		}
	}
	want := 0
	for k := 0; k < 2; k++ {
		if !mayExit[k] {
			want++
		}
	}
	g := c12Settle(base, want, !blocked)
	wa, wb := atomic.LoadInt64(&c12.ticks[0]), atomic.LoadInt64(&c12.ticks[1])
	if !blocked {
		cons.call(sols[0], 'C')
		cons.call(sols[1], 'C')
		cons.stop()
		if g != want || c12Settle(base-1, 0, true) != 0 {
			c12.blocked++
		}
	}
	nt := 0
	if switches >= 2 {
		nt = 1
	}
	return fmt.Sprintf("%s | work=%d,%d g=%d ### nt=%d len=%d switches=%d calls_after_end=%d",
		strings.Join(res, " "), wa, wb, g, nt, len(ops), minInt_c12(switches, 6), minInt_c12(afterEnd, 4))
}

func genC12Inter(r *rand.Rand, n int, tier string) []string {
	maxLen := 3
	if tier == "thorough" {
		maxLen = 4
	}
	specs := []string{"fin 1", "fin 2", "err 1", "inf", "mix 3"}
	var steps []string
	for _, s := range []string{"a", "b"} {
		for _, o := range c12Ops {
			steps = append(steps, s+o)
		}
	}
	var seqs [][]string
	level := [][]string{{}}
	for l := 1; l <= maxLen; l++ {
		var next [][]string
		for _, s := range level {
			for _, o := range steps {
				next = append(next, append(append([]string{}, s...), o))
			}
		}
		seqs = append(seqs, next...)
		level = next
	}
	var out []string
	for _, seq := range seqs {
		for _, a := range specs {
			for _, b := range specs {
				out = append(out, a+" ; "+b+" | "+strings.Join(seq, " "))
			}
		}
	}
	for i := 0; i < n; i++ {
		k := 4 + r.Intn(9)
		seq := make([]string, k)
		ops := c12RandSeq(r, k)
		for j := range seq {
			seq[j] = string(rune('a'+r.Intn(2))) + ops[j]
		}
		out = append(out, c12RandSpec(r)+" ; "+c12RandSpec(r)+" | "+strings.Join(seq, " "))
	}
	return out
}
