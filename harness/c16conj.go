package main

// C16, stream c16.conj: the relational built-ins called inside ONE conjunction, so that the call sees
// its list arguments in every Go representation the engine has for the same abstract term, and so that
// arguments can be instantiated AFTER the call (monotonicity of infinite enumerations).
//
// case payload:  <pred> <k> <arg1> … <argN> @ repr <name> <seed> [ @ V<n> <term> ]…
//   the part before the first " @ " is the abstract call, exactly as in c16.rel;
//   `repr`   says how the runner builds the list arguments (see c16Reprs); the abstract term is the same,
//            so the expected answers do not depend on it;
//   `V<n> t` are unifications `V<n> = t` executed AFTER the call, in the same conjunction; the effective
//            call judged by the model and the specification is the call with these bindings applied
//            (the generator takes k = 1 when the enumeration of the call is infinite).
// impl output: as c16.rel (the tuple of the ABSTRACT arguments under each answer of the conjunction).
//
// The conjunction is compiled once by engine.Call (as Interpreter.Query does); there is no call/1
// around the goal, so list/partial/charList values built by the reader instructions or by earlier
// goals reach the builtin as they are.

import (
	"fmt"
	"math/rand"
	"strings"
	"time"
	"unicode/utf8"

	"github.com/ichiban/prolog"
	"github.com/ichiban/prolog/engine"
)

func init() {
	register(&stream{name: "c16.conj", gen: genC16Conj, run: runC16Conj})
}

// representations of a list term
var c16Reprs = []string{
	"cmp",    // chain of '.'/2 compounds (Atom.Apply; what =../functor build)
	"list",   // engine.List / engine.PartialList: what the reader produces
	"part",   // a proper list as partial over a list prefix with a list tail; partial over partial
	"append", // the value append/3 returns for a proper first argument (partial{prefix, &tail}), made by an earlier goal
	"string", // charList / codeList (double-quoted text) where the elements allow it, partial over a string
	"bound",  // a variable bound to the list by an earlier goal `V = List`; tails bound by an earlier goal
	"cells",  // every cell made by an earlier goal `Vi = '.'(Ei, Vi+1)`: the spine runs through bound variables
	"univ",   // every cell made by an earlier goal `Vi =.. ['.', Ei, Vi+1]`
	"ebound", // the elements are variables bound by earlier goals `Ei = Elem`
	"mix",    // a random choice of the above for every (sub)list
}

type c16Builder struct {
	r   *rand.Rand
	pre []engine.Term // goals executed before the call
}

func (b *c16Builder) fresh() engine.Variable { return engine.NewVariable() }

// spineOf splits an abstract term (compound chains) into elements and tail.
func c16SpineOf(t engine.Term) ([]engine.Term, engine.Term) {
	var es []engine.Term
	for {
		c, ok := t.(engine.Compound)
		if !ok || c.Functor().String() != "." || c.Arity() != 2 {
			return es, t
		}
		es = append(es, c.Arg(0))
		t = c.Arg(1)
	}
}

func c16IsNil(t engine.Term) bool {
	a, ok := t.(engine.Atom)
	return ok && a.String() == "[]"
}

// build converts the abstract term t: every list inside it is represented according to mode.
func (b *c16Builder) build(t engine.Term, mode string) engine.Term {
	c, ok := t.(engine.Compound)
	if !ok {
		return t
	}
	if c.Functor().String() != "." || c.Arity() != 2 {
		args := make([]engine.Term, c.Arity())
		for i := range args {
			args[i] = b.build(c.Arg(i), mode)
		}
		return c.Functor().Apply(args...)
	}
	es, tl := c16SpineOf(t)
	m := mode
	if m == "mix" {
		m = c16Reprs[b.r.Intn(len(c16Reprs)-1)]
	}
	elems := make([]engine.Term, len(es))
	for i, e := range es {
		elems[i] = b.build(e, mode)
	}
	tail := b.build(tl, mode)
	n := len(elems)
	proper := c16IsNil(tl)
	cmp := func(es []engine.Term, tail engine.Term) engine.Term {
		out := tail
		for i := len(es) - 1; i >= 0; i-- {
			out = engine.NewAtom(".").Apply(es[i], out)
		}
		return out
	}
	lst := func(es []engine.Term, tail engine.Term) engine.Term {
		if c16IsNil(tail) {
			return engine.List(es...)
		}
		return engine.PartialList(tail, es...)
	}
	switch m {
	case "cmp":
		return cmp(elems, tail)
	case "list":
		return lst(elems, tail)
	case "part":
		k := 1 + b.r.Intn(n)
		inner := lst(elems[k:], tail)
		if b.r.Intn(3) == 0 && n-k >= 1 { // partial over partial
			j := k + 1 + b.r.Intn(n-k)
			inner = engine.PartialList(lst(elems[j:], tail), elems[k:j]...)
		}
		return engine.PartialList(inner, elems[:k]...)
	case "append":
		k := 1 + b.r.Intn(n)
		v := b.fresh()
		b.pre = append(b.pre, compound("append", engine.List(elems[:k]...), lst(elems[k:], tail), v))
		return v
	case "string":
		if s, ok := c16CharText(es); ok {
			if proper {
				return engine.CharList(s)
			}
			v := b.fresh()
			b.pre = append(b.pre, compound("append", engine.CharList(s), tail, v))
			return v
		}
		if s, ok := c16CodeText(es); ok {
			if proper {
				return engine.CodeList(s)
			}
			v := b.fresh()
			b.pre = append(b.pre, compound("append", engine.CodeList(s), tail, v))
			return v
		}
		return lst(elems, tail)
	case "bound":
		if !proper || b.r.Intn(2) == 0 {
			// the tail is a variable bound before the call: [E1,…|T] with T = Tail earlier
			tv := b.fresh()
			b.pre = append(b.pre, compound("=", tv, tail))
			return engine.PartialList(tv, elems...)
		}
		v := b.fresh()
		b.pre = append(b.pre, compound("=", v, lst(elems, tail)))
		return v
	case "cells", "univ":
		cur := tail
		for i := n - 1; i >= 0; i-- {
			v := b.fresh()
			if m == "cells" {
				b.pre = append(b.pre, compound("=", v, engine.NewAtom(".").Apply(elems[i], cur)))
			} else {
				b.pre = append(b.pre, compound("=..", v, engine.List(engine.NewAtom("."), elems[i], cur)))
			}
			cur = v
		}
		return cur
	case "ebound":
		vs := make([]engine.Term, n)
		for i := range vs {
			v := b.fresh()
			b.pre = append(b.pre, compound("=", v, elems[i]))
			vs[i] = v
		}
		return lst(vs, tail)
	}
	return cmp(elems, tail)
}

func c16CharText(es []engine.Term) (string, bool) {
	var sb strings.Builder
	for _, e := range es {
		a, ok := e.(engine.Atom)
		if !ok || utf8.RuneCountInString(a.String()) != 1 {
			return "", false
		}
		sb.WriteString(a.String())
	}
	return sb.String(), len(es) > 0
}

func c16CodeText(es []engine.Term) (string, bool) {
	var sb strings.Builder
	for _, e := range es {
		i, ok := e.(engine.Integer)
		if !ok || i < 0 || i > utf8.MaxRune || !utf8.ValidRune(rune(i)) {
			return "", false
		}
		sb.WriteRune(rune(i))
	}
	return sb.String(), len(es) > 0
}

func runC16Conj(payload string) string {
	parts := strings.Split(strings.TrimSpace(payload), " @ ")
	if len(parts) < 2 {
		panic("bad c16.conj payload")
	}
	f := strings.SplitN(parts[0], " ", 3)
	if len(f) < 3 {
		panic("bad c16.conj call")
	}
	pred := f[0]
	var k int
	_, err := fmt.Sscanf(f[1], "%d", &k)
	must(err)
	d := newTermDecoder()
	args, err := d.terms(f[2])
	must(err)
	var mode string
	var seed int64
	_, err = fmt.Sscanf(parts[1], "repr %s %d", &mode, &seed)
	must(err)
	b := &c16Builder{r: rand.New(rand.NewSource(seed))}
	built := make([]engine.Term, len(args))
	for j, a := range args {
		built[j] = b.build(a, mode)
	}
	name := pred
	if n, ok := c16Names[pred]; ok {
		name = n
	}
	goals := append([]engine.Term{}, b.pre...)
	goals = append(goals, compound(name, built...))
	for _, p := range parts[2:] {
		ts, err := d.terms(p)
		must(err)
		if len(ts) != 2 {
			panic("bad post binding " + p)
		}
		goals = append(goals, compound("=", ts[0], ts[1]))
	}
	goal := goals[len(goals)-1]
	for j := len(goals) - 2; j >= 0; j-- {
		goal = compound(",", goals[j], goal)
	}

	i := c16Pool.Get().(*prolog.Interpreter)
	defer c16Pool.Put(i)
	tmpl := compound("t", args...)
	var rows []string
	_, err = solve(&i.VM, goal, k, 10*time.Second, func(env *engine.Env) bool {
		var sb strings.Builder
		if !encTermSafe(&sb, tmpl, env, newVarNamer(), 0) {
			rows = append(rows, "CYCLIC")
			return false
		}
		rows = append(rows, sb.String())
		return true
	})
	var out string
	switch {
	case err != nil && len(rows) == 0:
		out = errWire(err)
	case err != nil:
		out = "ans [" + strings.Join(rows, ", ") + "] " + errWire(err)
	default:
		out = "ans [" + strings.Join(rows, ", ") + "]"
	}
	nt := 0
	if len(rows) >= 2 || len(b.pre) > 0 || len(parts) > 2 || (mode != "cmp" && mode != "list") {
		nt = 1
	}
	post := 0
	if len(parts) > 2 {
		post = 1
	}
	nb := "0"
	switch {
	case err != nil && len(rows) == 0:
		nb = "err"
	case len(rows) == 1:
		nb = "1"
	case len(rows) >= 2 && len(rows) <= 4:
		nb = "2-4"
	case len(rows) >= 5:
		nb = "5+"
	}
	return out + fmt.Sprintf(" ### nt=%d pred=%s repr=%s post=%d pregoals=%d answers=%s", nt, pred, mode, post, len(b.pre), nb)
}

// ---------------------------------------------------------------------------------------------
// generators
// ---------------------------------------------------------------------------------------------

// atoms with a special role in the reader/writer/engine, as ELEMENTS of lists
var c16SpecialElems = []string{"[]", "a", "{}", ".", "|", ",", "!"}

func c16Conj(call, repr string, seed int64, post ...string) string {
	out := call + " @ repr " + repr + " " + fmt.Sprint(seed)
	for _, p := range post {
		out += " @ " + p
	}
	return out
}

// calls of the list predicates (and of the term inspectors on list cells) over lists whose elements are
// the special atoms, nested empty lists, and one-character atoms / codes (so that strings apply)
func c16ConjCalls(scope int) []string {
	saved := c16Elems
	defer func() { c16Elems = saved }()
	var out []string
	for _, elems := range [][]string{{"[]", "a", "{}"}, {"[]", ".", "|"}, {",", "!", "[]"}, {"a", "b", "é"}} {
		c16Elems = elems
		out = append(out, sysNth(scope)...)
		out = append(out, sysLength(scope)...)
		out = append(out, sysAppend(scope)...)
		out = append(out, sysMemberSelect(scope)...)
	}
	c16Elems = saved
	e := func(s string) string { return wA_c16(s) }
	nilL := wNil_c16()
	// lists of lists, [] in every position, term inspection of list cells
	lists := []string{
		wList_c16(nilL), wList_c16(nilL, e("a")), wList_c16(e("a"), nilL), wList_c16(nilL, nilL), wList_c16(nilL, e("b"), nilL),
		wL(wV_c16(7), nilL, e("b")), wL(wV_c16(7), e("b"), nilL), wL(wV_c16(7), nilL), wL(wV_c16(7), nilL, nilL),
		wList_c16(wList_c16(nilL), nilL), wList_c16(e("{}"), e("."), e("|")), wL(wV_c16(7), e(","), e("!"), nilL),
		wList_c16(wI_c16(97), wI_c16(98)), wL(wV_c16(7), wI_c16(97), wI_c16(0x20ac)), wList_c16(e("a"), e("é"), e("b")), wL(wV_c16(7), e("a"), e("b")),
	}
	for _, l := range lists {
		for _, n := range []string{wV_c16(0), wI_c16(0), wI_c16(1), wI_c16(2), wI_c16(3)} {
			for _, x := range []string{wV_c16(1), nilL, e("b")} {
				out = append(out, c16Case("nth0", c16K, n, l, x), c16Case("nth1", c16K, n, l, x), c16Case("arg", c16K, n, l, x))
			}
		}
		for _, x := range []string{wV_c16(1), nilL, e("b"), e("a")} {
			out = append(out, c16Case("member", c16KInf, x, l), c16Case("select", c16KInf, x, l, wV_c16(2)))
		}
		out = append(out, c16Case("univ", c16K, l, wV_c16(0)), c16Case("univ", c16K, l, wList_c16(e("."), wV_c16(0), wV_c16(1))),
			c16Case("functor", c16K, l, wV_c16(0), wV_c16(1)), c16Case("length", c16KInf, l, wV_c16(0)), c16Case("length", c16KInf, l, wI_c16(3)),
			c16Case("append", c16KInf, l, wV_c16(0), wV_c16(1)), c16Case("append", c16KInf, l, wList_c16(e("a")), wV_c16(1)),
			c16Case("append", c16KInf, wV_c16(0), wV_c16(1), l), c16Case("append", c16KInf, wList_c16(nilL), wV_c16(1), l),
			c16Case("append", c16KInf, wV_c16(0), wList_c16(nilL), l), c16Case("append", c16KInf, l, l, wV_c16(1)),
			c16Case("atom_chars", c16K, wV_c16(0), l), c16Case("atom_codes", c16K, wV_c16(0), l), c16Case("atom_chars", c16K, e("ab"), l),
			c16Case("atom_codes", c16K, e("a€"), l), c16Case("atom_chars", c16K, e("aéb"), l))
	}
	return out
}

// calls followed by a later instantiation of one of their variables: `Call, V = T`.
// For an infinite enumeration only the first answer is taken (it exists by construction).
func c16PostCases(r *rand.Rand) []string {
	var out []string
	e := func(s string) string { return wA_c16(s) }
	add := func(call string, post ...string) {
		out = append(out, c16Conj(call, pick(r, c16Reprs), r.Int63n(1000), post...))
	}
	elems := []string{"a", "b", "c", "[]", "é"}
	for n := 0; n <= 2; n++ {
		for m := 1; m <= 3; m++ {
			pre := make([]string, n)
			for i := range pre {
				pre[i] = e(pick(r, elems))
			}
			suf := make([]string, m)
			for i := range suf {
				suf[i] = e(pick(r, elems))
			}
			all := append(append([]string{}, pre...), suf...)
			x := all[r.Intn(len(all))]
			inSuf := suf[r.Intn(m)]
			tail := "V9 " + wList_c16(suf...)
			// member/select on an open list, the tail given afterwards (the open-dictionary idiom)
			add(c16Case("member", 1, x, wL(wV_c16(9), pre...)), tail)
			add(c16Case("member", 1, inSuf, wL(wV_c16(9), pre...)), tail)
			add(c16Case("member", 1, wV_c16(0), wL(wV_c16(9), pre...)), tail)
			add(c16Case("member", 1, wV_c16(0), wL(wV_c16(9), pre...)), "V9 "+wL(wV_c16(8), suf...))
			add(c16Case("select", 1, x, wL(wV_c16(9), pre...), wV_c16(1)), tail)
			add(c16Case("select", 1, inSuf, wL(wV_c16(9), pre...), wV_c16(1)), tail)
			add(c16Case("select", 1, wV_c16(0), wL(wV_c16(9), pre...), wV_c16(1)), tail)
			add(c16Case("length", 1, wL(wV_c16(9), pre...), wV_c16(0)), tail)
			add(c16Case("length", 1, wL(wV_c16(9), pre...), wV_c16(0)), "V0 "+wI_c16(int64(n+m)))
			add(c16Case("append", 1, wL(wV_c16(9), pre...), wV_c16(0), wV_c16(1)), tail)
			add(c16Case("append", 1, wL(wV_c16(9), pre...), wList_c16(e("z")), wV_c16(1)), tail)
			add(c16Case("append", 1, wV_c16(0), wV_c16(1), wL(wV_c16(9), pre...)), tail)
			add(c16Case("append", 1, wV_c16(0), wList_c16(suf[m-1]), wL(wV_c16(9), pre...)), tail)
			add(c16Case("append", 1, wV_c16(0), wV_c16(1), wV_c16(9)), "V9 "+wList_c16(all...))
			add(c16Case("append", 1, wV_c16(9), wList_c16(suf...), wV_c16(1)), "V9 "+wList_c16(pre...))
			// finite enumerations: all answers, filtered afterwards
			l := wList_c16(all...)
			add(c16Case("member", c16K, wV_c16(0), l), "V0 "+x)
			add(c16Case("select", c16K, wV_c16(0), l, wV_c16(1)), "V0 "+x)
			add(c16Case("nth0", c16K, wV_c16(0), l, wV_c16(1)), "V1 "+x)
			add(c16Case("nth1", c16K, wV_c16(0), l, wV_c16(1)), "V0 "+wI_c16(int64(1+r.Intn(len(all)))))
			add(c16Case("append", c16K, wV_c16(0), wV_c16(1), l), "V0 "+wList_c16(pre...))
			add(c16Case("append", c16K, wV_c16(0), wV_c16(1), l), "V1 "+wList_c16(suf...))
			add(c16Case("length", c16K, l, wV_c16(0)), "V0 "+wI_c16(int64(n+m)))
		}
	}
	// text and integer predicates: instantiating further arguments selects the matching subset
	for i := 0; i < 12; i++ {
		cs := randText_c16(r, 1, 4)
		s := wA_c16(join(cs))
		a := r.Intn(len(cs) + 1)
		bb := a + r.Intn(len(cs)-a+1)
		add(c16Case("atom_concat", c16K, wV_c16(0), wV_c16(1), s), "V0 "+wA_c16(join(cs[:a])))
		add(c16Case("atom_concat", c16K, wV_c16(0), wV_c16(1), s), "V1 "+wA_c16(join(cs[a:])))
		add(c16Case("sub_atom", c16K, s, wV_c16(0), wV_c16(1), wV_c16(2), wV_c16(3)), "V3 "+wA_c16(join(cs[a:bb])))
		add(c16Case("sub_atom", c16K, s, wV_c16(0), wV_c16(1), wV_c16(2), wV_c16(3)), "V0 "+wI_c16(int64(a)), "V1 "+wI_c16(int64(bb-a)))
		add(c16Case("atom_length", c16K, s, wV_c16(0)), "V0 "+wI_c16(int64(len(cs))))
		add(c16Case("atom_chars", c16K, s, wV_c16(0)), "V0 "+wList_c16(charListW(cs)...))
		add(c16Case("atom_chars", c16K, s, wL(wV_c16(0), charListW(cs[:a])...)), "V0 "+wList_c16(charListW(cs[a:])...))
		lo := int64(r.Intn(5)) - 2
		add(c16Case("between", c16K, wI_c16(lo), wI_c16(lo+int64(r.Intn(4))), wV_c16(0)), "V0 "+wI_c16(lo+int64(r.Intn(4))))
		add(c16Case("between", 1, wI_c16(lo), wI_c16(c16MaxInt), wV_c16(0)), "V0 "+wI_c16(lo+int64(r.Intn(6))))
	}
	return out
}

func genC16Conj(r *rand.Rand, n int, tier string) []string {
	var out []string
	seen := map[string]bool{}
	add := func(c string) {
		if !seen[c] {
			seen[c] = true
			out = append(out, c)
		}
	}
	calls := c16ConjCalls(2)
	r.Shuffle(len(calls), func(i, j int) { calls[i], calls[j] = calls[j], calls[i] })
	// a quarter: later instantiation
	for len(out) < n/4 {
		before := len(out)
		for _, c := range c16PostCases(r) {
			if len(out) >= n/4 {
				break
			}
			add(c)
		}
		if len(out) == before {
			break
		}
	}
	// the rest: every call in some representations (all of them when the budget allows)
	per := (n - len(out)) / len(calls)
	if per < 1 {
		per = 1
	}
	if per > len(c16Reprs) {
		per = len(c16Reprs)
	}
	for _, c := range calls {
		if len(out) >= n {
			break
		}
		start := r.Intn(len(c16Reprs))
		for j := 0; j < per; j++ {
			add(c16Conj(c, c16Reprs[(start+j)%len(c16Reprs)], r.Int63n(1000)))
		}
	}
	for tries := 0; len(out) < n && tries < 4*n; tries++ {
		add(c16Conj(pick(r, calls), pick(r, c16Reprs), r.Int63n(1000)))
	}
	return out
}
