/-
  vm_well_scoped — DEFINITIONS: the scoping invariant of the VM (Model/VM.lean).

  Every cut parent the VM ever mentions is the id of a promise that is LIVE when the cut is
  performed.  The cut parents sit in continuations (`Cont.exec pc vars cp k`: the rest of a clause
  body, activation `cp`) and in thunks (`Thunk.clause … parent`, `Thunk.afterCut … cp`).  The
  invariant is relative to the list `live` of the ids of the identified frames of the trampoline's
  stack, innermost first (Spec/DFSG.lean):

  * a continuation is well-scoped on `live` when the activation `cp` of its first frame is live and
    the rest of the chain is well-scoped on what is live AT OR BELOW `cp` — the chain of activations
    is ordered like the stack, so a cut to `cp` (which discards everything above `cp`) never discards
    an activation the continuation still mentions;
  * a thunk held by the frame `id` is well-scoped when its continuation is, on the ids below the
    frame; a clause alternative (`Thunk.clause`) belongs to the frame that holds it (`parent = id`,
    the promise `clausesCall` created);
  * a promise is well-scoped on `live` when its cut parent (if any) is live and its thunks and its
    recovery closure are well-scoped on what the cut leaves.

  The statements and theorems are in `Proofs/VMScoped.lean`.
-/
import PrologVerif.Model.VM
import PrologVerif.Spec.DFSG
namespace PrologVerif.VMScoped
open PrologVerif PrologVerif.VM PrologVerif.Promise PrologVerif.DFSG

/-- a continuation is well-scoped on the live ids `live` (innermost first) -/
def ContOK : List Nat → Cont → Prop
  | _, .done => True
  | live, .exec _ _ cp k => cp ∈ live ∧ ContOK (live.dropWhile (· ≠ cp)) k
  | _, .collect _ _ => True
  | _, .findallK _ _ => True
  | live, .catchExit _ k => ContOK live k

/-- the continuation a thunk runs (for `afterCut`: the rest of the clause body, as a continuation) -/
def thunkCont : Thunk → Cont
  | .clause _ _ k _ _ => k
  | .afterCut pc vars k _ _ _ cp => .exec pc vars cp k
  | .contK k _ => k
  | .exitAlt _ _ (some k) _ => k
  | .exitAlt _ _ none _ => .done
  | .negate _ k _ => k
  | .findall _ _ _ k _ => k
  | .catchBody _ _ k _ => k
  | .unifyK _ _ k _ => k
  | .betweenNext _ _ _ k _ => k
  | .appendRec _ _ _ k _ => k

/-- a clause alternative names the promise that holds it as its cut parent -/
def thunkParentOK (id : Nat) : Thunk → Prop
  | .clause _ _ _ _ parent => parent = id ∧ id ≠ 0
  | _ => True

/-- a thunk held by the frame `id`, on the ids `live` below that frame -/
def ThunkOK (id : Nat) (live : List Nat) (t : Thunk) : Prop :=
  ContOK live (thunkCont t) ∧ thunkParentOK id t

/-- what is live once the cut of a promise has been performed -/
def cutLive : Option Nat → List Nat → List Nat
  | none, live => live
  | some c, live => live.dropWhile (· ≠ c)

/-- a promise about to sit on a stack whose identified frames are `live` -/
def PrOK (live : List Nat) (p : Pr) : Prop :=
  (∀ c, p.cutParent = some c → c ∈ live) ∧
  (∀ t ∈ p.delayed, ThunkOK p.id (cutLive p.cutParent live) t) ∧
  (∀ h, p.recover = some h → ContOK (cutLive p.cutParent live) h.k)

/-- the id of a new promise: none, or drawn from `St.nextId` between the states before (`nid` = its
    `nextId`) and after -/
def IdOK (nid : Nat) (m' : MS) (p : Pr) : Prop :=
  p.id = 0 ∨ (nid ≤ p.id ∧ p.id < m'.user.nextId)

/-- the result of a step (`none` = out of fuel): a well-scoped promise with a fresh id -/
def ROK (live : List Nat) (nid : Nat) (r : Option (Pr × MS)) : Prop :=
  ∀ p m', r = some (p, m') → PrOK live p ∧ IdOK nid m' p

/-- the same for `builtin` (outer `none` = not a builtin, `some none` = out of fuel) -/
def R2OK (live : List Nat) (nid : Nat) (r : Option (Option (Pr × MS))) : Prop :=
  ∀ p m', r = some (some (p, m')) → PrOK live p ∧ IdOK nid m' p

/-- `St.nextId` only grows -/
def MonoR (nid : Nat) (r : Option (Pr × MS)) : Prop :=
  ∀ p m', r = some (p, m') → nid ≤ m'.user.nextId

def Mono2 (nid : Nat) (r : Option (Option (Pr × MS))) : Prop :=
  ∀ p m', r = some (some (p, m')) → nid ≤ m'.user.nextId

/-- asserting one clause of the program, as the harness does (assertz marks the predicates dynamic) -/
def assertStep (s : St) (c : Term) : St :=
  match compile (toRep c) with
  | .ok (c1 :: cs) =>
    let old := (lookupProc s c1.name c1.arity).getD { dynamic := true }
    setProc s c1.name c1.arity { old with clauses := old.clauses ++ (c1 :: cs) }
  | _ => s

/-- the state from which `runQuery` starts: `bootState` + the asserted program -/
def initState (prog : List Term) (cancelAt : Option Nat) : St :=
  prog.foldl assertStep { loadClauses bootState [] with cancelAt := cancelAt }

/-- the promise of the query and the machine state `runQuery` forces it in -/
def queryPromise (prog : List Term) (query : Term) (max : Nat) (cancelAt : Option Nat) : Pr × MS :=
  callGoal query (.collect query max) [] { user := initState prog cancelAt }

end PrologVerif.VMScoped
