/-
  Proofs/StreamOps.lean — the built-in level of C19: continuation-passing = direct style, the term
  reader's loop against the specification's scan, and the per-goal simulation step.
-/
import PrologVerif.Proofs.StreamSim
import PrologVerif.Proofs.StreamOrder
namespace PrologVerif.Stream
open Spec

variable {σ : Type}

/-! ### continuation-passing = direct style -/

theorem charCase_eq (r : Rd (Nat × Nat)) (k : Cont) (s : Stream) :
    charCase r k s = andThen (charRes r, s) k := by
  cases r with
  | ok d =>
    unfold charCase charRes andThen
    by_cases h : d.1 = runeError
    · simp [h, Result.isErr, raise]
    · simp [h, Result.isErr]
  | eof => simp [charCase, charRes, andThen, Result.isErr]
  | err e => simp [charCase, charRes, andThen, Result.isErr, raise]

theorem byteCase_eq (r : Rd Nat) (k : Cont) (s : Stream) :
    byteCase r k s = andThen (byteRes r, s) k := by
  cases r with
  | ok d => simp [byteCase, byteRes, andThen, Result.isErr]
  | eof => simp [byteCase, byteRes, andThen, Result.isErr]
  | err e => simp [byteCase, byteRes, andThen, Result.isErr, raise]

theorem runOp_eq_stepOp (c : Cfg) (sc : Scanner σ) (o : Op) (k : Cont) (s : Stream) :
    runOp c sc o k s = andThen (stepOp c sc o s) k := by
  cases o with
  | getChar => simp only [runOp, getChar, stepOp, charCase_eq]
  | peekChar => simp only [runOp, peekChar, stepOp, charCase_eq]
  | getByte => simp only [runOp, getByte, stepOp, byteCase_eq]
  | peekByte => simp only [runOp, peekByte, stepOp, byteCase_eq]
  | readTerm =>
    simp only [runOp, readTerm, stepOp]
    generalize scanLoop c sc (c.src.length + 2) sc.init s = p
    obtain ⟨e, s'⟩ := p
    cases e with
    | done o => cases o <;> simp [termRes, andThen, Result.isErr, raise]
    | endOfFile => simp [termRes, andThen, Result.isErr]
    | ioErr e => simp [termRes, andThen, Result.isErr, raise]
    | outOfFuel => simp [termRes, andThen, Result.isErr, raise]
  | atEnd => simp [runOp, atEnd, stepOp, andThen, Result.isErr]
  | propPos => simp [runOp, propPos, stepOp, andThen, Result.isErr]
  | propEos => simp [runOp, propEos, stepOp, andThen, Result.isErr]

theorem runConj_eq_seqConj (c : Cfg) (sc : Scanner σ) (ops : List Op) :
    runConj c sc ops = seqConj c sc ops := by
  induction ops with
  | nil => rfl
  | cons o os ih =>
    funext s
    simp only [runConj, seqConj, runOp_eq_stepOp, ih]

/-! ### specification reads in terms of `cursorReadRune` / `cursorReadByte` -/

theorem pastAction_some (a : EofAction) (cu cu' : Cursor) (e : Err) (h : pastAction a cu = (some e, cu')) :
    e = .pastEOS ∧ cu' = cu := by
  unfold pastAction at h
  split at h
  · cases a <;> simp at h
    exact ⟨h.1.symm, h.2.symm⟩
  · simp at h

theorem spec_readChar (c : Cfg) (cu : Cursor) (consume : Bool) :
    Spec.readChar c.spec consume cu =
      (charRes (cursorReadRune c cu).1,
       if consume then (cursorReadRune c cu).2.1 else (cursorReadRune c cu).2.2) := by
  simp only [Spec.readChar, cursorReadRune, Cfg.spec]
  generalize hpa : pastAction c.action cu = pa
  obtain ⟨e, cu1⟩ := pa
  cases e with
  | some e =>
    obtain ⟨he, _⟩ := pastAction_some _ _ _ _ hpa
    subst he
    simp [charRes, charErr]
  | none =>
    simp only [cursorRuneBody]
    by_cases ht : c.typ ≠ .text
    · simp [ht, charRes, charErr]
    · simp only [ht, if_false]
      by_cases hlt : cu1.idx < c.src.length
      · simp only [hlt, if_true, charRes]
        by_cases hr : (decodeRune (c.src.drop cu1.idx)).1 = runeError
        · cases consume <;> simp [hr, advance]
        · cases consume <;> simp [hr, advance]
      · cases consume <;> simp [hlt, charRes, deliverEOF]

theorem spec_readByte (c : Cfg) (cu : Cursor) (consume : Bool) :
    Spec.readByte c.spec consume cu =
      (byteRes (cursorReadByte c cu).1,
       if consume then (cursorReadByte c cu).2.1 else (cursorReadByte c cu).2.2) := by
  simp only [Spec.readByte, cursorReadByte, Cfg.spec]
  generalize hpa : pastAction c.action cu = pa
  obtain ⟨e, cu1⟩ := pa
  cases e with
  | some e =>
    obtain ⟨he, _⟩ := pastAction_some _ _ _ _ hpa
    subst he
    simp [byteRes, byteErr]
  | none =>
    simp only [cursorByteBody]
    by_cases ht : c.typ ≠ .binary
    · simp [ht, byteRes, byteErr]
    · simp only [ht, if_false]
      cases hx : c.src[cu1.idx]? with
      | some x => cases consume <;> simp [byteRes, advance]
      | none => cases consume <;> simp [byteRes, deliverEOF]

/-! ### the term reader: the model's loop over Stream.ReadRune against the specification's scan -/

theorem scan_acc (sc : Scanner σ) : ∀ (fuel : Nat) (st : σ) (bytes : List Nat) (n : Nat),
    Spec.scan sc fuel st bytes n =
      ((Spec.scan sc fuel st bytes 0).1, n + (Spec.scan sc fuel st bytes 0).2) := by
  intro fuel
  induction fuel with
  | zero => intro st bytes n; simp [Spec.scan]
  | succ fuel ih =>
    intro st bytes n
    cases bytes with
    | nil => simp [Spec.scan]
    | cons b bs =>
      simp only [Spec.scan]
      cases hs : sc.step st (decodeRune (b :: bs)).1 with
      | inl st' =>
        simp only
        rw [ih st' _ (n + (decodeRune (b :: bs)).2), ih st' _ (0 + (decodeRune (b :: bs)).2)]
        simp only [Prod.mk.injEq, true_and]
        omega
      | inr o => simp

theorem cursorRuneBody_lt (c : Cfg) (cu : Cursor) (ht : c.typ = .text) (h : cu.idx < c.src.length) :
    cursorRuneBody c cu =
      (.ok (decodeRune (c.src.drop cu.idx)), { cu with idx := cu.idx + (decodeRune (c.src.drop cu.idx)).2 }, cu) := by
  unfold cursorRuneBody; simp [ht, h]

theorem cursorRuneBody_end (c : Cfg) (cu : Cursor) (ht : c.typ = .text) (h : ¬ cu.idx < c.src.length) :
    cursorRuneBody c cu = (.eof, { cu with delivered := true }, cu) := by
  unfold cursorRuneBody; simp [ht, h]

theorem cursorReadRune_of_none (c : Cfg) (cu : Cursor) (h : pastAction c.action cu = (none, cu)) :
    cursorReadRune c cu = cursorRuneBody c cu := by
  unfold cursorReadRune; rw [h]

theorem scanLoop_sim {c : Cfg} (hv : c.Valid) (sc : Scanner σ) (ht : c.typ = .text) :
    ∀ (fuel : Nat) (st : σ) (s : Stream) (cu : Cursor), Sim c s cu → pastAction c.action cu = (none, cu) →
      c.src.length - cu.idx + 1 ≤ fuel →
      (∀ o m, Spec.scan sc fuel st (c.src.drop cu.idx) 0 = (some (.out o), m) →
        (scanLoop c sc fuel st s).1 = .done o ∧
        Sim c (unreadRune c (scanLoop c sc fuel st s).2) { cu with idx := cu.idx + m }) ∧
      (∀ m, Spec.scan sc fuel st (c.src.drop cu.idx) 0 = (some .endOfFile, m) →
        (scanLoop c sc fuel st s).1 = .endOfFile ∧
        Sim c (scanLoop c sc fuel st s).2 { idx := cu.idx + m, delivered := true }) ∧
      (Spec.scan sc fuel st (c.src.drop cu.idx) 0).1 ≠ none := by
  intro fuel
  induction fuel with
  | zero => intro st s cu _ _ hf; omega
  | succ fuel ih =>
    intro st s cu h hpa hf
    obtain ⟨hres, hget, hpeek⟩ := readRune_sim hv h
    rw [cursorReadRune_of_none c cu hpa] at hres hget hpeek
    generalize hp : readRune c s = p at *
    obtain ⟨r, s1⟩ := p
    simp only at hres hget hpeek
    by_cases hlt : cu.idx < c.src.length
    · -- a rune: feed it
      rw [cursorRuneBody_lt c cu ht hlt] at hres hget hpeek
      simp only at hres hget hpeek
      subst hres
      have hdrop : c.src.drop cu.idx = c.src[cu.idx] :: c.src.drop (cu.idx + 1) := List.drop_eq_getElem_cons hlt
      have hne : c.src.drop cu.idx ≠ [] := by
        intro hh; have := congrArg List.length hh; simp at this; omega
      have hpos := decodeRune_size_pos _ hne
      generalize hd : decodeRune (c.src.drop cu.idx) = d at *
      have hsl : scanLoop c sc (fuel + 1) st s =
          match sc.step st d.1 with
          | .inl st' => scanLoop c sc fuel st' s1
          | .inr o => (.done o, s1) := by
        simp only [scanLoop, hp]; rfl
      have hsc : Spec.scan sc (fuel + 1) st (c.src.drop cu.idx) 0 =
          match sc.step st d.1 with
          | .inl st' => Spec.scan sc fuel st' (c.src.drop (cu.idx + d.2)) (0 + d.2)
          | .inr o => (some (.out o), 0) := by
        rw [hdrop, Spec.scan, ← hdrop, hd, List.drop_drop]; rfl
      rw [hsl, hsc]
      cases hstep : sc.step st d.1 with
      | inl st' =>
        simp only
        have hnd : cu.delivered = false := by
          cases hdl : cu.delivered with
          | false => rfl
          | true => have := h.delivered_end hdl; omega
        have hpa' : pastAction c.action { cu with idx := cu.idx + d.2 } = (none, { cu with idx := cu.idx + d.2 }) :=
          pastAction_not_delivered _ _ hnd
        have hf' : c.src.length - (cu.idx + d.2) + 1 ≤ fuel := by omega
        obtain ⟨i1, i2, i3⟩ := ih st' s1 { cu with idx := cu.idx + d.2 } hget hpa' hf'
        rw [scan_acc]
        refine ⟨?_, ?_, ?_⟩
        · intro o m hm
          simp only [Prod.mk.injEq] at hm
          obtain ⟨r1, r2⟩ := i1 o (Spec.scan sc fuel st' (c.src.drop (cu.idx + d.2)) 0).2 (by rw [← hm.1])
          refine ⟨r1, ?_⟩
          have : cu.idx + m = cu.idx + d.2 + (Spec.scan sc fuel st' (c.src.drop (cu.idx + d.2)) 0).2 := by omega
          rw [this]; exact r2
        · intro m hm
          simp only [Prod.mk.injEq] at hm
          obtain ⟨r1, r2⟩ := i2 (Spec.scan sc fuel st' (c.src.drop (cu.idx + d.2)) 0).2 (by rw [← hm.1])
          refine ⟨r1, ?_⟩
          have : cu.idx + m = cu.idx + d.2 + (Spec.scan sc fuel st' (c.src.drop (cu.idx + d.2)) 0).2 := by omega
          rw [this]; exact r2
        · exact i3
      | inr o =>
        simp only
        refine ⟨?_, ?_, ?_⟩
        · intro o' m hm
          simp only [Prod.mk.injEq, Option.some.injEq, EOFOut.out.injEq] at hm
          obtain ⟨ho, hm0⟩ := hm
          subst ho; subst hm0
          exact ⟨rfl, by simpa using hpeek⟩
        · intro m hm; simp at hm
        · simp
    · -- the end of the input
      rw [cursorRuneBody_end c cu ht hlt] at hres hget hpeek
      simp only at hres hget hpeek
      subst hres
      have hidx : cu.idx = c.src.length := by have := h.idx_le; omega
      have hdrop : c.src.drop cu.idx = [] := by rw [hidx]; simp
      have hsl : scanLoop c sc (fuel + 1) st s =
          match sc.eof st with
          | .out o => (.done o, s1)
          | .endOfFile => (.endOfFile, s1) := by
        simp only [scanLoop, hp]; rfl
      have hsc : Spec.scan sc (fuel + 1) st (c.src.drop cu.idx) 0 = (some (sc.eof st), 0) := by
        rw [hdrop, Spec.scan]
      rw [hsl, hsc]
      cases heof : sc.eof st with
      | out o =>
        simp only
        refine ⟨?_, ?_, ?_⟩
        · intro o' m hm
          simp only [Prod.mk.injEq, Option.some.injEq, EOFOut.out.injEq] at hm
          obtain ⟨ho, hm0⟩ := hm
          subst ho; subst hm0
          exact ⟨rfl, by simpa using hpeek⟩
        · intro m hm; simp at hm
        · simp
      | endOfFile =>
        simp only
        refine ⟨?_, ?_, ?_⟩
        · intro o' m hm; simp at hm
        · intro m hm
          simp only [Prod.mk.injEq, true_and] at hm
          subst hm
          refine ⟨trivial, ?_⟩
          simpa using hget
        · simp

theorem cursorReadRune_ne_np (c : Cfg) (cu : Cursor) : (cursorReadRune c cu).1 ≠ .err .noProgress := by
  unfold cursorReadRune
  generalize pastAction c.action cu = pa
  obtain ⟨e, cu1⟩ := pa
  cases e with
  | some e => simp
  | none =>
    simp only [cursorRuneBody]
    split
    · simp
    · split <;> simp

theorem cursorReadByte_ne_np (c : Cfg) (cu : Cursor) : (cursorReadByte c cu).1 ≠ .err .noProgress := by
  unfold cursorReadByte
  generalize pastAction c.action cu = pa
  obtain ⟨e, cu1⟩ := pa
  cases e with
  | some e => simp
  | none =>
    simp only [cursorByteBody]
    split
    · simp
    · split <;> simp

theorem charRes_ne_other (r : Rd (Nat × Nat)) (h : r ≠ .err .noProgress) : charRes r ≠ .err .other := by
  cases r with
  | ok d => simp only [charRes]; split <;> simp
  | eof => simp [charRes]
  | err e => cases e <;> simp_all [charRes, charErr]

theorem byteRes_ne_other (r : Rd Nat) (h : r ≠ .err .noProgress) : byteRes r ≠ .err .other := by
  cases r with
  | ok d => simp [byteRes]
  | eof => simp [byteRes]
  | err e => cases e <;> simp_all [byteRes, byteErr]

/-- what the specification's read_term does once the eof action and the stream type are dealt with -/
def specReadTermBody (c : Cfg) (sc : Scanner σ) (cu : Cursor) : Result × Cursor :=
  match Spec.scan sc (c.src.length + 2) sc.init (c.src.drop cu.idx) 0 with
  | (some (.out (.term t)), n) => (.term t, { cu with idx := cu.idx + n })
  | (some (.out .syntaxErr), n) => (.err .syntax, { cu with idx := cu.idx + n })
  | (some .endOfFile, n) => (.eof, { cu with idx := cu.idx + n, delivered := true })
  | (none, _) => (.err .other, cu)

theorem readTerm_core {c : Cfg} (hv : c.Valid) (sc : Scanner σ) (ht : c.typ = .text) {s : Stream} {cu : Cursor}
    (h : Sim c s cu) (hpa : pastAction c.action cu = (none, cu)) :
    (stepOp c sc .readTerm s).1 = (specReadTermBody c sc cu).1 ∧
    Sim c (stepOp c sc .readTerm s).2 (specReadTermBody c sc cu).2 ∧
    (specReadTermBody c sc cu).1 ≠ .err .other := by
  obtain ⟨i1, i2, i3⟩ := scanLoop_sim hv sc ht (c.src.length + 2) sc.init s cu h hpa (by omega)
  unfold specReadTermBody
  simp only [stepOp]
  generalize hsp : Spec.scan sc (c.src.length + 2) sc.init (c.src.drop cu.idx) 0 = sp at *
  obtain ⟨o, n⟩ := sp
  cases o with
  | none => exact absurd rfl i3
  | some eo =>
    cases eo with
    | out ro =>
      obtain ⟨r1, r2⟩ := i1 ro n rfl
      generalize hp : scanLoop c sc (c.src.length + 2) sc.init s = p at *
      obtain ⟨e, s'⟩ := p
      simp only at r1 r2
      subst r1
      cases ro with
      | term t => exact ⟨rfl, r2, by simp⟩
      | syntaxErr => exact ⟨rfl, r2, by simp⟩
    | endOfFile =>
      obtain ⟨r1, r2⟩ := i2 n rfl
      generalize hp : scanLoop c sc (c.src.length + 2) sc.init s = p at *
      obtain ⟨e, s'⟩ := p
      simp only at r1 r2
      subst r1
      exact ⟨rfl, r2, by simp⟩

theorem scanLoop_err (c : Cfg) (sc : Scanner σ) (fuel : Nat) (st : σ) (s : Stream) (e : RdErr)
    (h : (readRune c s).1 = .err e) :
    scanLoop c sc (fuel + 1) st s = (.ioErr e, (readRune c s).2) := by
  generalize hp : readRune c s = p at *
  obtain ⟨r, s1⟩ := p
  simp only at h
  subst h
  simp only [scanLoop, hp]

theorem readRune_reset_eq (c : Cfg) (s : Stream) (hp : s.endOfStream = .past) (ha : c.action = .reset) :
    readRune c s = readRune c (reset { s with lastRead := .none }) := by
  have h1 : readRune c s = readRuneBody c (reset { s with lastRead := .none }) := by
    unfold readRune initRead; simp [hp, ha]
  have h2 : readRune c (reset { s with lastRead := .none }) = readRuneBody c (reset { s with lastRead := .none }) := by
    unfold readRune initRead; simp [reset]
  rw [h1, h2]

theorem scanLoop_reset_eq (c : Cfg) (sc : Scanner σ) (fuel : Nat) (st : σ) (s : Stream)
    (hp : s.endOfStream = .past) (ha : c.action = .reset) :
    scanLoop c sc (fuel + 1) st s = scanLoop c sc (fuel + 1) st (reset { s with lastRead := .none }) := by
  rw [scanLoop, scanLoop, readRune_reset_eq c s hp ha]

/-- every goal: its result is acceptable to the specification at the current cursor, and the
    simulation continues at the specification's next cursor -/
theorem stepOp_sim {c : Cfg} (hv : c.Valid) (sc : Scanner σ) {s : Stream} {cu : Cursor} (h : Sim c s cu) (o : Op) :
    ∃ cu', Spec.check c.spec sc o cu (stepOp c sc o s).1 = some cu' ∧ Sim c (stepOp c sc o s).2 cu' ∧
      (stepOp c sc o s).1 ≠ .err .other := by
  cases o with
  | getChar =>
    obtain ⟨hr, hg, _⟩ := readRune_sim hv h
    refine ⟨(cursorReadRune c cu).2.1, ?_, hg, ?_⟩
    · simp only [Spec.check, stepOp, spec_readChar, hr, if_true]
    · simp only [stepOp, hr]; exact charRes_ne_other _ (cursorReadRune_ne_np c cu)
  | peekChar =>
    obtain ⟨hr, _, hpk⟩ := readRune_sim hv h
    refine ⟨(cursorReadRune c cu).2.2, ?_, hpk, ?_⟩
    · simp only [Spec.check, stepOp, spec_readChar, hr, if_true]
      simp
    · simp only [stepOp, hr]; exact charRes_ne_other _ (cursorReadRune_ne_np c cu)
  | getByte =>
    obtain ⟨hr, hg, _⟩ := readByte_sim hv h
    refine ⟨(cursorReadByte c cu).2.1, ?_, hg, ?_⟩
    · simp only [Spec.check, stepOp, spec_readByte, hr, if_true]
    · simp only [stepOp, hr]; exact byteRes_ne_other _ (cursorReadByte_ne_np c cu)
  | peekByte =>
    obtain ⟨hr, _, hpk⟩ := readByte_sim hv h
    refine ⟨(cursorReadByte c cu).2.2, ?_, hpk, ?_⟩
    · simp only [Spec.check, stepOp, spec_readByte, hr, if_true]
      simp
    · simp only [stepOp, hr]; exact byteRes_ne_other _ (cursorReadByte_ne_np c cu)
  | atEnd =>
    refine ⟨cu, ?_, h, by simp [stepOp]⟩
    simp only [Spec.check, stepOp, Cfg.spec]
    by_cases he : s.endOfStream ≠ .not
    · simp [he, h.end_of he]
    · have hnot : s.endOfStream = .not := by simpa using he
      have hnd : cu.delivered = false := by
        cases hd : cu.delivered with
        | false => rfl
        | true => have := h.past_iff.mpr hd; rw [hnot] at this; exact absurd this (by decide)
      simp [hnot, hnd]
  | propPos =>
    refine ⟨cu, ?_, h, by simp [stepOp]⟩
    simp [Spec.check, stepOp, h.pos_eq]
  | propEos =>
    refine ⟨cu, ?_, h, by simp [stepOp]⟩
    simp only [Spec.check, stepOp]
    have : Spec.eosOk c.spec cu s.endOfStream = true := by
      cases he : s.endOfStream with
      | past => simp [Spec.eosOk, h.past_iff.mp he]
      | «at» =>
        have hidx := h.end_of (by rw [he]; decide)
        have hnd : cu.delivered = false := by
          cases hd : cu.delivered with
          | false => rfl
          | true => have := h.past_iff.mpr hd; rw [he] at this; exact absurd this (by decide)
        simp [Spec.eosOk, Cfg.spec, hidx, hnd]
      | not =>
        have hnd : cu.delivered = false := by
          cases hd : cu.delivered with
          | false => rfl
          | true => have := h.past_iff.mpr hd; rw [he] at this; exact absurd this (by decide)
        simp [Spec.eosOk, hnd]
    simp [this]
  | readTerm =>
    obtain ⟨hr, hg, hpk⟩ := readRune_sim hv h
    -- the specification, case by case
    have hspec : Spec.readTerm c.spec sc cu =
        match pastAction c.action cu with
        | (some e, cu) => (.err e, cu)
        | (none, cu1) => if c.typ ≠ .text then (.err .binaryStream, cu1) else specReadTermBody c sc cu1 := by
      unfold Spec.readTerm specReadTermBody; rfl
    simp only [Spec.check, hspec]
    generalize hpa : pastAction c.action cu = pa at *
    obtain ⟨eo, cu1⟩ := pa
    cases eo with
    | some e =>
      obtain ⟨he, hcu⟩ := pastAction_some _ _ _ _ hpa
      subst he
      have hcr : cursorReadRune c cu = (.err .pastEOS, cu, cu) := by unfold cursorReadRune; rw [hpa, hcu]
      rw [hcr] at hr hg hpk
      have hsl := scanLoop_err c sc (c.src.length + 1) sc.init s .pastEOS hr
      refine ⟨cu1, ?_, ?_, ?_⟩
      · simp [stepOp, hsl, termRes, termErr]
      · simp only [stepOp, hsl]; rw [hcu]; exact hpk
      · simp [stepOp, hsl, termRes, termErr]
    | none =>
      have hcr : cursorReadRune c cu = cursorRuneBody c cu1 := by unfold cursorReadRune; rw [hpa]
      by_cases ht : c.typ ≠ .text
      · have hcb : cursorRuneBody c cu1 = (.err .wrongType, cu1, cu1) := by unfold cursorRuneBody; rw [if_pos ht]
        rw [hcr, hcb] at hr hg hpk
        have hsl := scanLoop_err c sc (c.src.length + 1) sc.init s .wrongType hr
        refine ⟨cu1, ?_, ?_, ?_⟩
        · simp [stepOp, hsl, termRes, termErr, ht]
        · simp only [stepOp, hsl]; exact hpk
        · simp [stepOp, hsl, termRes, termErr]
      · have ht' : c.typ = .text := by simpa using ht
        simp only [ht, if_false]
        by_cases hcu : cu1 = cu
        · subst hcu
          obtain ⟨r1, r2, r3⟩ := readTerm_core hv sc ht' h hpa
          exact ⟨_, by rw [r1]; simp, r2, by rw [r1]; exact r3⟩
        · -- the eof action reset the stream first
          have hdr : cu.delivered = true ∧ c.action = .reset := by
            unfold pastAction at hpa
            split at hpa
            · rename_i hd
              cases ha : c.action with
              | error => rw [ha] at hpa; simp at hpa
              | eofCode => rw [ha] at hpa; simp at hpa; exact absurd hpa.symm hcu
              | reset => exact ⟨hd, rfl⟩
            · simp at hpa; exact absurd hpa.symm hcu
          have hcu1 : cu1 = { cu with delivered := false } := by
            unfold pastAction at hpa; simp [hdr.1, hdr.2] at hpa; exact hpa.symm
          have hpast : s.endOfStream = .past := h.past_iff.mpr hdr.1
          have h0 : Sim c { s with lastRead := .none } cu := h.congr rfl rfl rfl rfl
          have hsim' := sim_reset h0 hpast
          have hpa' : pastAction c.action cu1 = (none, cu1) := by
            rw [hcu1]; exact pastAction_not_delivered _ _ rfl
          rw [← hcu1] at hsim'
          obtain ⟨r1, r2, r3⟩ := readTerm_core hv sc ht' hsim' hpa'
          have hstep : stepOp c sc .readTerm s = stepOp c sc .readTerm (reset { s with lastRead := .none }) := by
            simp only [stepOp]
            rw [show c.src.length + 2 = (c.src.length + 1) + 1 from rfl, scanLoop_reset_eq c sc _ _ s hpast hdr.2]
          rw [hstep]
          exact ⟨_, by rw [r1]; simp, r2, by rw [r1]; exact r3⟩

/-! ### conjunctions and programs -/

theorem seqConj_sim {c : Cfg} (hv : c.Valid) (sc : Scanner σ) (ops : List Op) :
    ∀ {s : Stream} {cu : Cursor}, Sim c s cu →
      ∃ cu', Spec.judgeConj c.spec sc ops (seqConj c sc ops s).1 cu = some cu' ∧ Sim c (seqConj c sc ops s).2 cu' := by
  induction ops with
  | nil => intro s cu h; exact ⟨cu, rfl, h⟩
  | cons o os ih =>
    intro s cu h
    obtain ⟨cu1, hck, hs1, _⟩ := stepOp_sim hv sc h o
    simp only [seqConj, andThen]
    by_cases he : (stepOp c sc o s).1.isErr = true
    · rw [if_pos he]
      refine ⟨cu1, ?_, hs1⟩
      simp [Spec.judgeConj, hck, he]
    · rw [if_neg he]
      obtain ⟨cu2, hj, hs2⟩ := ih hs1
      refine ⟨cu2, ?_, hs2⟩
      simp only [emit, Spec.judgeConj, hck, he]
      exact hj

theorem runProg_sim {c : Cfg} (hv : c.Valid) (sc : Scanner σ) (prog : List (List Op)) :
    ∀ {s : Stream} {cu : Cursor}, Sim c s cu →
      ∃ cu', Spec.judge c.spec sc prog (runProg c sc prog s).1 cu = some cu' ∧ Sim c (runProg c sc prog s).2 cu' := by
  induction prog with
  | nil => intro s cu h; exact ⟨cu, rfl, h⟩
  | cons q qs ih =>
    intro s cu h
    simp only [runProg, runConj_eq_seqConj]
    obtain ⟨cu1, hj1, hs1⟩ := seqConj_sim hv sc q h
    obtain ⟨cu2, hj2, hs2⟩ := ih hs1
    refine ⟨cu2, ?_, hs2⟩
    simp only [Spec.judge, hj1]
    exact hj2

/-- results of a conjunction that ran to its end without an error -/
def NoErr (rs : List Result) : Prop := ∀ r ∈ rs, r.isErr = false

theorem seqConj_append (c : Cfg) (sc : Scanner σ) (a b : List Op) (s : Stream)
    (h : NoErr (seqConj c sc a s).1) :
    seqConj c sc (a ++ b) s =
      ((seqConj c sc a s).1 ++ (seqConj c sc b (seqConj c sc a s).2).1, (seqConj c sc b (seqConj c sc a s).2).2) := by
  induction a generalizing s with
  | nil => simp [seqConj]
  | cons o os ih =>
    simp only [List.cons_append, seqConj, andThen] at h ⊢
    by_cases he : (stepOp c sc o s).1.isErr = true
    · rw [if_pos he] at h
      have := h (stepOp c sc o s).1 (by simp)
      rw [he] at this; exact absurd this (by decide)
    · rw [if_neg he] at h ⊢
      simp only [emit] at h ⊢
      have h' : NoErr (seqConj c sc os (stepOp c sc o s).2).1 := by
        intro r hr; exact h r (by simp [hr])
      rw [ih _ h']
      simp [he]

theorem runProg_flatten (c : Cfg) (sc : Scanner σ) (prog : List (List Op)) (s : Stream)
    (h : NoErr (runProg c sc prog s).1.flatten) :
    seqConj c sc prog.flatten s = ((runProg c sc prog s).1.flatten, (runProg c sc prog s).2) := by
  induction prog generalizing s with
  | nil => simp [seqConj, runProg]
  | cons q qs ih =>
    simp only [runProg, runConj_eq_seqConj, List.flatten_cons] at h ⊢
    have h1 : NoErr (seqConj c sc q s).1 := by intro r hr; exact h r (by simp [hr])
    have h2 : NoErr (runProg c sc qs (seqConj c sc q s).2).1.flatten := by intro r hr; exact h r (by simp [hr])
    rw [seqConj_append c sc q qs.flatten s h1, ih _ h2]

/-! ### a peek: end_of_stream, and what follows it -/

theorem peekRune_eos {c : Cfg} (hv : c.Valid) {s : Stream} {cu : Cursor} (h : Sim c s cu)
    (hnr : s.endOfStream ≠ .past ∨ c.action ≠ .reset) :
    (unreadRune c (readRune c s).2).endOfStream = s.endOfStream ∨
    ((readRune c s).1 = .eof ∧ s.endOfStream = .not ∧ (unreadRune c (readRune c s).2).endOfStream = .at) := by
  have h0 : Sim c { s with lastRead := .none } cu := h.congr rfl rfl rfl rfl
  by_cases hp : s.endOfStream = .past
  · have hd : cu.delivered = true := h.past_iff.mp hp
    cases ha : c.action with
    | error =>
      have hval : readRune c s = (.err .pastEOS, { s with lastRead := .none }) := by
        unfold readRune initRead; simp [hp, ha]
      left; rw [hval, unreadRune_of_none _ _ rfl]
    | reset => rcases hnr with h1 | h1 <;> contradiction
    | eofCode =>
      have hval : readRune c s = readRuneBody c { s with lastRead := .none } := by
        unfold readRune initRead; simp [hp, ha]
      left
      rw [hval, peekRuneBody_eos h0]
      have hidx := h.delivered_end hd
      by_cases ht : c.typ ≠ .text
      · rw [if_pos ht]
      · rw [if_neg ht, if_neg (by omega)]; simp [hp]
  · have hval : readRune c s = readRuneBody c { s with lastRead := .none } := by
      unfold readRune initRead; simp [hp]
    have hd : cu.delivered = false := by
      cases hd : cu.delivered with
      | false => rfl
      | true => exact absurd (h.past_iff.mpr hd) hp
    by_cases ht : c.typ ≠ .text
    · left; rw [hval, peekRuneBody_eos h0, if_pos ht]
    · by_cases hlt : cu.idx < c.src.length
      · left
        rw [hval, peekRuneBody_eos h0, if_neg ht, if_pos hlt]
        by_cases hn : s.endOfStream = .not
        · exact hn.symm
        · have := h.end_of hn; omega
      · cases he : s.endOfStream with
        | past => exact absurd he hp
        | «at» =>
          left; rw [hval, peekRuneBody_eos h0, if_neg ht, if_neg hlt]
          show (if s.endOfStream = EOS.past then EOS.past else EOS.at) = EOS.at
          rw [if_neg hp]
        | not =>
          right
          obtain ⟨hr, _, _⟩ := readRune_sim hv h
          refine ⟨?_, rfl, ?_⟩
          · have ht' : c.typ = .text := by simpa using ht
            rw [hr, cursorReadRune_of_none c cu (pastAction_not_delivered _ _ hd),
              cursorRuneBody_end c cu ht' hlt]
          · rw [hval, peekRuneBody_eos h0, if_neg ht, if_neg hlt]
            show (if s.endOfStream = EOS.past then EOS.past else EOS.at) = EOS.at
            rw [if_neg hp]

theorem pastAction_idem (a : EofAction) (cu cu1 : Cursor) (h : pastAction a cu = (none, cu1)) :
    pastAction a cu1 = (none, cu1) := by
  unfold pastAction at h
  split at h
  · rename_i hd
    cases a with
    | error => simp at h
    | eofCode => simp at h; subst h; unfold pastAction; simp [hd]
    | reset => simp at h; subst h; exact pastAction_not_delivered _ _ rfl
  · simp at h; subst h; rename_i hd; exact pastAction_not_delivered _ _ (by simpa using hd)

theorem cursorRuneBody_peek (c : Cfg) (cu : Cursor) : (cursorRuneBody c cu).2.2 = cu := by
  unfold cursorRuneBody; split
  · rfl
  · split <;> rfl

theorem cursorByteBody_peek (c : Cfg) (cu : Cursor) : (cursorByteBody c cu).2.2 = cu := by
  unfold cursorByteBody; split
  · rfl
  · split <;> rfl

/-- a read directly after a peek meets the same cursor: the cursor after read+unread is a fixed point -/
theorem cursorReadRune_peek_fix (c : Cfg) (cu : Cursor) :
    cursorReadRune c (cursorReadRune c cu).2.2 = cursorReadRune c cu := by
  unfold cursorReadRune
  generalize hpa : pastAction c.action cu = pa
  obtain ⟨e, cu1⟩ := pa
  cases e with
  | some e =>
    obtain ⟨_, hcu⟩ := pastAction_some _ _ _ _ hpa
    subst hcu
    simp only [hpa]
  | none =>
    simp only [cursorRuneBody_peek, pastAction_idem _ _ _ hpa]

theorem cursorReadByte_peek_fix (c : Cfg) (cu : Cursor) :
    cursorReadByte c (cursorReadByte c cu).2.2 = cursorReadByte c cu := by
  unfold cursorReadByte
  generalize hpa : pastAction c.action cu = pa
  obtain ⟨e, cu1⟩ := pa
  cases e with
  | some e =>
    obtain ⟨_, hcu⟩ := pastAction_some _ _ _ _ hpa
    subst hcu
    simp only [hpa]
  | none =>
    simp only [cursorByteBody_peek, pastAction_idem _ _ _ hpa]

theorem cursorByteBody_end (c : Cfg) (cu : Cursor) (ht : c.typ = .binary) (h : ¬ cu.idx < c.src.length) :
    cursorByteBody c cu = (.eof, { cu with delivered := true }, cu) := by
  have : c.src[cu.idx]? = none := by simp; omega
  unfold cursorByteBody; simp [ht, this]

theorem peekByte_eos {c : Cfg} (hv : c.Valid) {s : Stream} {cu : Cursor} (h : Sim c s cu)
    (hnr : s.endOfStream ≠ .past ∨ c.action ≠ .reset) :
    (unreadByte c (readByte c s).2).endOfStream = s.endOfStream ∨
    ((readByte c s).1 = .eof ∧ s.endOfStream = .not ∧ (unreadByte c (readByte c s).2).endOfStream = .at) := by
  have h0 : Sim c { s with lastRead := .none } cu := h.congr rfl rfl rfl rfl
  by_cases hp : s.endOfStream = .past
  · have hd : cu.delivered = true := h.past_iff.mp hp
    cases ha : c.action with
    | error =>
      have hval : readByte c s = (.err .pastEOS, { s with lastRead := .none }) := by
        unfold readByte initRead; simp [hp, ha]
      left; rw [hval, unreadByte_of_none _ _ rfl]
    | reset => rcases hnr with h1 | h1 <;> contradiction
    | eofCode =>
      have hval : readByte c s = readByteBody c { s with lastRead := .none } := by
        unfold readByte initRead; simp [hp, ha]
      left
      rw [hval, peekByteBody_eos h0]
      have hidx := h.delivered_end hd
      by_cases ht : c.typ ≠ .binary
      · rw [if_pos ht]
      · rw [if_neg ht, if_neg (by omega)]; simp [hp]
  · have hval : readByte c s = readByteBody c { s with lastRead := .none } := by
      unfold readByte initRead; simp [hp]
    have hd : cu.delivered = false := by
      cases hd : cu.delivered with
      | false => rfl
      | true => exact absurd (h.past_iff.mpr hd) hp
    by_cases ht : c.typ ≠ .binary
    · left; rw [hval, peekByteBody_eos h0, if_pos ht]
    · by_cases hlt : cu.idx < c.src.length
      · left
        rw [hval, peekByteBody_eos h0, if_neg ht, if_pos hlt]
        by_cases hn : s.endOfStream = .not
        · exact hn.symm
        · have := h.end_of hn; omega
      · cases he : s.endOfStream with
        | past => exact absurd he hp
        | «at» =>
          left; rw [hval, peekByteBody_eos h0, if_neg ht, if_neg hlt]
          show (if s.endOfStream = EOS.past then EOS.past else EOS.at) = EOS.at
          rw [if_neg hp]
        | not =>
          right
          obtain ⟨hr, _, _⟩ := readByte_sim hv h
          refine ⟨?_, rfl, ?_⟩
          · have ht' : c.typ = .binary := by simpa using ht
            have : cursorReadByte c cu = cursorByteBody c cu := by
              unfold cursorReadByte; rw [pastAction_not_delivered _ _ hd]
            rw [hr, this, cursorByteBody_end c cu ht' hlt]
          · rw [hval, peekByteBody_eos h0, if_neg ht, if_neg hlt]
            show (if s.endOfStream = EOS.past then EOS.past else EOS.at) = EOS.at
            rw [if_neg hp]

/-! ### small facts about the specification used by the property theorems -/

theorem pastAction_idx (a : EofAction) (cu : Cursor) : (pastAction a cu).2.idx = cu.idx :=
  pastAction_idx' a cu

theorem cursorReadRune_peek_idx (c : Cfg) (cu : Cursor) : (cursorReadRune c cu).2.2.idx = cu.idx := by
  unfold cursorReadRune
  generalize hpa : pastAction c.action cu = pa
  obtain ⟨e, cu1⟩ := pa
  have := pastAction_idx c.action cu
  rw [hpa] at this
  cases e with
  | some e => exact this
  | none => simp only [cursorRuneBody_peek]; exact this

theorem cursorReadByte_peek_idx (c : Cfg) (cu : Cursor) : (cursorReadByte c cu).2.2.idx = cu.idx := by
  unfold cursorReadByte
  generalize hpa : pastAction c.action cu = pa
  obtain ⟨e, cu1⟩ := pa
  have := pastAction_idx c.action cu
  rw [hpa] at this
  cases e with
  | some e => exact this
  | none => simp only [cursorByteBody_peek]; exact this

/-- the specification marks end_of_file as delivered whenever a consuming read returns it -/
theorem spec_readChar_eof (c : SCfg) (cu cu' : Cursor) (h : Spec.readChar c true cu = (.eof, cu')) :
    cu'.delivered = true := by
  unfold Spec.readChar at h
  split at h
  · simp at h
  · split at h
    · simp at h
    · split at h
      · simp only at h; split at h <;> simp at h
      · simp [deliverEOF] at h; rw [← h]

theorem spec_readByte_eof (c : SCfg) (cu cu' : Cursor) (h : Spec.readByte c true cu = (.eofByte, cu')) :
    cu'.delivered = true := by
  unfold Spec.readByte at h
  split at h
  · simp at h
  · split at h
    · simp at h
    · split at h
      · simp at h
      · simp [deliverEOF] at h; rw [← h]

theorem spec_readTerm_eof (c : SCfg) (sc : Scanner σ) (cu cu' : Cursor) (h : Spec.readTerm c sc cu = (.eof, cu')) :
    cu'.delivered = true := by
  unfold Spec.readTerm at h
  split at h
  · simp at h
  · split at h
    · simp at h
    · split at h <;> simp at h
      rw [← h]

/-- a read_term that the specification lets fail with a syntax error (on a stream that is not past, so
    no eof action interferes) leaves the cursor behind the bytes its reader consumed -/
theorem spec_readTerm_syntax (c : SCfg) (sc : Scanner σ) (cu cu' : Cursor) (ht : c.typ = .text)
    (hd : cu.delivered = false) (h : Spec.readTerm c sc cu = (.err .syntax, cu')) :
    cu' = { cu with idx := cu.idx + (Spec.scan sc (c.bytes.length + 2) sc.init (c.bytes.drop cu.idx) 0).2 } := by
  unfold Spec.readTerm at h
  rw [pastAction_not_delivered _ _ hd] at h
  simp only [ht, ne_eq, not_true_eq_false, if_false] at h
  generalize Spec.scan sc (c.bytes.length + 2) sc.init (c.bytes.drop cu.idx) 0 = sp at h ⊢
  obtain ⟨o, n⟩ := sp
  cases o with
  | none => simp at h
  | some eo =>
    cases eo with
    | endOfFile => simp at h
    | out ro =>
      cases ro with
      | term t => simp at h
      | syntaxErr => simp at h; exact h.symm

end PrologVerif.Stream
