/-
  vm_well_scoped, part 2 — one-step preservation, by induction on the fuel: from a well-scoped
  configuration, `exec`, `applyCont`, `arrive`, the builtins and calling a thunk return a well-scoped
  promise whose id (if any) is freshly drawn from `St.nextId`.
-/
import PrologVerif.Proofs.VMScopedMono
namespace PrologVerif.VMScoped
open PrologVerif PrologVerif.VM PrologVerif.Promise PrologVerif.DFSG

/-! ## continuations: more live frames on top do not hurt -/

theorem dropWhile_append_of_mem (c : Nat) (suf : List Nat) (hc : c ∈ suf) : ∀ pre : List Nat,
    ∃ pre', (pre ++ suf).dropWhile (· ≠ c) = pre' ++ suf.dropWhile (· ≠ c)
  | [] => ⟨[], rfl⟩
  | a :: pre => by
    by_cases ha : a = c
    · refine ⟨a :: pre ++ suf.takeWhile (· ≠ c), ?_⟩
      simp only [List.cons_append, List.dropWhile, ha, ne_eq, not_true_eq_false, decide_false,
        List.append_assoc, List.takeWhile_append_dropWhile]
    · obtain ⟨pre', h⟩ := dropWhile_append_of_mem c suf hc pre
      exact ⟨pre', by simp only [List.cons_append, List.dropWhile, ne_eq, ha, not_false_eq_true, decide_true, h]⟩

theorem ContOK_weaken : ∀ (k : Cont) (pre suf : List Nat), ContOK suf k → ContOK (pre ++ suf) k
  | .done, _, _, _ => trivial
  | .collect _ _, _, _, _ => trivial
  | .findallK _ _, _, _, _ => trivial
  | .catchExit _ k, pre, suf, h => ContOK_weaken k pre suf h
  | .exec _ _ cp k, pre, suf, h => by
    obtain ⟨hc, hk⟩ := h
    refine ⟨List.mem_append_right _ hc, ?_⟩
    obtain ⟨pre', he⟩ := dropWhile_append_of_mem cp suf hc pre
    rw [he]
    exact ContOK_weaken k pre' _ hk

theorem ContOK_dropWhile {L : List Nat} {k : Cont} (p : Nat → Bool) (h : ContOK (L.dropWhile p) k) : ContOK L k := by
  have := ContOK_weaken k (L.takeWhile p) _ h
  rwa [List.takeWhile_append_dropWhile] at this

theorem ContOK_cons {live : List Nat} {k : Cont} (id : Nat) (h : ContOK live k) : ContOK (id :: live) k :=
  ContOK_weaken k [id] live h

theorem ContOK_push {live : List Nat} {k : Cont} (id : Nat) (h : ContOK live k) : ContOK (push id live) k := by
  unfold push
  split
  · exact h
  · exact ContOK_cons id h

theorem mem_dropWhile_self {c : Nat} : ∀ {L : List Nat}, c ∈ L → c ∈ L.dropWhile (· ≠ c)
  | [], h => by cases h
  | a :: L, h => by
    by_cases ha : a = c
    · simp [List.dropWhile, ha]
    · simp only [List.dropWhile, ne_eq, ha, not_false_eq_true, decide_true]
      rcases List.mem_cons.1 h with h | h
      · exact absurd h.symm ha
      · exact mem_dropWhile_self h

theorem dropWhile_idem (p : Nat → Bool) : ∀ L : List Nat, (L.dropWhile p).dropWhile p = L.dropWhile p
  | [] => rfl
  | a :: L => by
    by_cases ha : p a = true
    · simp only [List.dropWhile, ha]; exact dropWhile_idem p L
    · have ha' : p a = false := by simpa using ha
      simp only [List.dropWhile, ha']

/-! ## results -/

theorem ROK_none {L : List Nat} {nid : Nat} : ROK L nid none := fun _ _ h => by cases h

theorem ROK_some {L : List Nat} {nid : Nat} {p : Pr} {m : MS} (hp : PrOK L p) (hi : IdOK nid m p) :
    ROK L nid (some (p, m)) := by
  intro p' m' h; cases h; exact ⟨hp, hi⟩

theorem ROK_pair {L : List Nat} {nid : Nat} {r : Pr × MS} (h : PrOK L r.1 ∧ IdOK nid r.2 r.1) :
    ROK L nid (some r) := by
  intro p' m' e; cases e; exact h

theorem IdOK_le {nid nid' : Nat} {m' : MS} {p : Pr} (hle : nid ≤ nid') (h : IdOK nid' m' p) : IdOK nid m' p := by
  rcases h with h | ⟨h1, h2⟩
  · exact Or.inl h
  · exact Or.inr ⟨Nat.le_trans hle h1, h2⟩

theorem ROK_le {L : List Nat} {nid nid' : Nat} {r : Option (Pr × MS)} (hle : nid ≤ nid') (h : ROK L nid' r) :
    ROK L nid r :=
  fun p m' e => ⟨(h p m' e).1, IdOK_le hle (h p m' e).2⟩

theorem R2OK_none {L : List Nat} {nid : Nat} : R2OK L nid none := fun _ _ h => by cases h
theorem R2OK_some_none {L : List Nat} {nid : Nat} : R2OK L nid (some none) := fun _ _ h => by cases h

theorem R2OK_some {L : List Nat} {nid : Nat} {r : Option (Pr × MS)} (h : ROK L nid r) : R2OK L nid (some r) := by
  intro p m' e; cases e; exact h p m' rfl

theorem R2OK_pair {L : List Nat} {nid : Nat} {r : Pr × MS} (h : PrOK L r.1 ∧ IdOK nid r.2 r.1) :
    R2OK L nid (some (some r)) :=
  R2OK_some (ROK_pair h)

/-! ## promises -/

/-- a promise without alternatives, handler and cut -/
theorem PrOK_leaf {L : List Nat} (p : Pr) (hd : p.delayed = []) (hr : p.recover = none) (hc : p.cutParent = none) :
    PrOK L p :=
  ⟨by simp [hc], by simp [hd], by simp [hr]⟩

theorem PrOK_failP {L : List Nat} : PrOK L failP := PrOK_leaf _ rfl rfl rfl
theorem PrOK_okP {L : List Nat} : PrOK L okP := PrOK_leaf _ rfl rfl rfl
theorem PrOK_errP {L : List Nat} (e : Err) : PrOK L (errP e) := PrOK_leaf _ rfl rfl rfl

theorem IdOK_zero {nid : Nat} {m : MS} {p : Pr} (h : p.id = 0) : IdOK nid m p := Or.inl h

/-- a promise that only holds alternatives -/
theorem PrOK_delayed {L : List Nat} (id : Nat) (ts : List Thunk) (rep : Bool) (h : ∀ t ∈ ts, ThunkOK id L t) :
    PrOK L { id := id, delayed := ts, rep := rep } :=
  ⟨by simp, h, by simp⟩

theorem all1 {P : Thunk → Prop} {a : Thunk} (ha : P a) : ∀ t ∈ [a], P t := by
  intro t ht
  simp only [List.mem_singleton] at ht
  exact ht ▸ ha

theorem all2 {P : Thunk → Prop} {a b : Thunk} (ha : P a) (hb : P b) : ∀ t ∈ [a, b], P t := by
  intro t ht
  simp only [List.mem_cons, List.not_mem_nil, or_false] at ht
  rcases ht with rfl | rfl
  · exact ha
  · exact hb

theorem mkErr_ok {L : List Nat} {nid : Nat} (formal : Term) (env : Env) (m : MS) :
    PrOK L (mkErr formal env m).1 ∧ IdOK nid (mkErr formal env m).2 (mkErr formal env m).1 :=
  ⟨PrOK_leaf _ rfl rfl rfl, IdOK_zero rfl⟩

theorem clausesCall_ok {L : List Nat} (cs : List Clause) (args : List Term) (k : Cont) (env : Env) (m : MS)
    (hk : ContOK L k) (h0 : 0 < m.user.nextId) :
    PrOK L (clausesCall cs args k env m).1 ∧
      IdOK m.user.nextId (clausesCall cs args k env m).2 (clausesCall cs args k env m).1 := by
  refine ⟨PrOK_delayed _ _ false ?_, Or.inr ⟨Nat.le_refl _, Nat.lt_succ_self _⟩⟩
  intro t ht
  simp only [List.mem_map] at ht
  obtain ⟨c, _, rfl⟩ := ht
  exact ⟨hk, rfl, Nat.pos_iff_ne_zero.1 h0⟩

theorem appendLists_ok {L : List Nat} (xs ys zs : Term) (k : Cont) (env : Env) (m : MS) (hk : ContOK L k) :
    PrOK L (appendLists xs ys zs k env m).1 ∧
      IdOK m.user.nextId (appendLists xs ys zs k env m).2 (appendLists xs ys zs k env m).1 := by
  unfold appendLists
  exact ⟨PrOK_delayed _ _ false (all2 ⟨hk, trivial⟩ ⟨hk, trivial⟩), Or.inr ⟨Nat.le_refl _, Nat.lt_succ_self _⟩⟩

theorem callGoal_ok {L : List Nat} (goal : Term) (k : Cont) (env : Env) (m : MS)
    (hk : ContOK L k) (h0 : 0 < m.user.nextId) :
    PrOK L (callGoal goal k env m).1 ∧ IdOK m.user.nextId (callGoal goal k env m).2 (callGoal goal k env m).1 := by
  unfold callGoal
  split
  · exact mkErr_ok _ _ _
  · split
    · exact clausesCall_ok _ _ k env m hk h0
    · exact mkErr_ok _ _ _

/-! ## the execution core, by induction on the fuel -/

/-- the induction hypothesis: every function of the mutual block (and `evalThunk`) at fuel `n` -/
structure StepOK (n : Nat) : Prop where
  exec : ∀ L pc vars k args astack env cp (m : MS),
    cp ∈ L → ContOK (L.dropWhile (· ≠ cp)) k → 0 < m.user.nextId →
    ROK L m.user.nextId (exec n pc vars k args astack env cp m)
  applyCont : ∀ L k env (m : MS), ContOK L k → 0 < m.user.nextId → ROK L m.user.nextId (applyCont n k env m)
  arrive : ∀ L f args k env (m : MS), ContOK L k → 0 < m.user.nextId →
    ROK L m.user.nextId (arrive n f args k env m)
  builtin : ∀ L f args k env (m : MS), ContOK L k → 0 < m.user.nextId →
    R2OK L m.user.nextId (builtin n f args k env m)
  evalThunk : ∀ id live t (m : MS), ThunkOK id live t → 0 < m.user.nextId →
    ROK (push id live) m.user.nextId (evalThunk n t m)

theorem exec_succ {n : Nat} (ih : StepOK n) : ∀ L pc vars k args astack env cp (m : MS),
    cp ∈ L → ContOK (L.dropWhile (· ≠ cp)) k → 0 < m.user.nextId →
    ROK L m.user.nextId (exec (n + 1) pc vars k args astack env cp m) := by
  intro L pc vars k args astack env cp m hcp hk h0
  have leafOK : ∀ (e : Err) (m' : MS), ROK L m.user.nextId (some (errP e, m')) :=
    fun e m' => ROK_some (PrOK_errP e) (IdOK_zero rfl)
  have failOK : ∀ (m' : MS), ROK L m.user.nextId (some (failP, m')) :=
    fun m' => ROK_some PrOK_failP (IdOK_zero rfl)
  cases pc with
  | nil => simp only [exec]; exact leafOK _ _
  | cons op pc =>
    cases op with
    | getConst c =>
      cases args with
      | nil => simp only [exec]; exact leafOK _ _
      | cons a rest =>
        simp only [exec]
        split
        · exact ih.exec L _ _ _ _ _ _ _ _ hcp hk h0
        · exact failOK _
        · exact ROK_none
    | putConst c => simp only [exec]; exact ih.exec L _ _ _ _ _ _ _ _ hcp hk h0
    | getVar i =>
      rw [exec.eq_def]
      simp only []
      split
      · split
        · exact ih.exec L _ _ _ _ _ _ _ _ hcp hk h0
        · exact failOK _
        · exact ROK_none
      · exact leafOK _ _
    | putVar i =>
      rw [exec.eq_def]
      simp only []
      split
      · exact ih.exec L _ _ _ _ _ _ _ _ hcp hk h0
      · exact leafOK _ _
    | getFunctor f ar =>
      cases args with
      | nil => simp only [exec]; exact leafOK _ _
      | cons a rest =>
        simp only [exec, freshVars]
        split
        · exact ih.exec L _ _ _ _ _ _ _ _ hcp hk h0
        · exact failOK _
        · exact ROK_none
    | putFunctor f ar => simp only [exec]; exact ih.exec L _ _ _ _ _ _ _ _ hcp hk h0
    | pop =>
      cases astack with
      | nil => simp only [exec]; exact leafOK _ _
      | cons fr as' =>
        cases fr with
        | get rest => simp only [exec]; exact ih.exec L _ _ _ _ _ _ _ _ hcp hk h0
        | put outer c => simp only [exec]; exact ih.exec L _ _ _ _ _ _ _ _ hcp hk h0
    | enter => simp only [exec]; exact ih.exec L _ _ _ _ _ _ _ _ hcp hk h0
    | call f ar =>
      simp only [exec]
      exact ih.arrive L _ _ (.exec pc vars cp k) _ _ ⟨hcp, hk⟩ h0
    | exit =>
      simp only [exec]
      exact ih.applyCont L _ _ _ (ContOK_dropWhile _ hk) h0
    | cut =>
      -- the cut promise: its parent is the activation's promise, which is live; what runs after
      -- the cut is well-scoped on what the cut leaves
      simp only [exec]
      refine ROK_some ⟨?_, ?_, by simp⟩ (IdOK_zero rfl)
      · intro c hc
        simp only [Option.some.injEq] at hc
        exact hc ▸ hcp
      · refine all1 ⟨⟨?_, ?_⟩, trivial⟩
        · exact mem_dropWhile_self hcp
        · simp only [cutLive]
          rw [dropWhile_idem]
          exact hk
    | getList l =>
      cases args with
      | nil => simp only [exec]; exact leafOK _ _
      | cons a rest =>
        simp only [exec, freshVars]
        split
        · exact ih.exec L _ _ _ _ _ _ _ _ hcp hk h0
        · exact failOK _
        · exact ROK_none
    | putList l => simp only [exec]; exact ih.exec L _ _ _ _ _ _ _ _ hcp hk h0
    | getPartial l =>
      cases args with
      | nil => simp only [exec]; exact leafOK _ _
      | cons a rest =>
        simp only [exec, freshVars]
        split
        · exact ih.exec L _ _ _ _ _ _ _ _ hcp hk h0
        · exact failOK _
        · exact ROK_none
    | putPartial l => simp only [exec]; exact ih.exec L _ _ _ _ _ _ _ _ hcp hk h0
    | unsupported w => simp only [exec]; exact leafOK _ _

theorem applyCont_succ {n : Nat} (ih : StepOK n) : ∀ L k env (m : MS), ContOK L k → 0 < m.user.nextId →
    ROK L m.user.nextId (applyCont (n + 1) k env m) := by
  intro L k env m hk h0
  cases k with
  | done => simp only [applyCont]; exact ROK_some PrOK_okP (IdOK_zero rfl)
  | exec pc vars cp k =>
    simp only [applyCont]
    exact ih.exec L _ _ _ _ _ _ _ _ hk.1 hk.2 h0
  | collect t mx =>
    simp only [applyCont]
    split
    · exact ROK_some PrOK_okP (IdOK_zero rfl)
    · exact ROK_some PrOK_failP (IdOK_zero rfl)
  | findallK t s =>
    simp only [applyCont]
    exact ROK_some PrOK_failP (IdOK_zero rfl)
  | catchExit f k =>
    simp only [applyCont, freshId]
    exact ROK_some (PrOK_delayed _ _ false (all2 ⟨hk, trivial⟩ ⟨trivial, trivial⟩))
      (Or.inr ⟨Nat.le_refl _, Nat.lt_succ_self _⟩)

theorem arrive_succ {n : Nat} (ih : StepOK n) : ∀ L f args k env (m : MS), ContOK L k → 0 < m.user.nextId →
    ROK L m.user.nextId (arrive (n + 1) f args k env m) := by
  intro L f args k env m hk h0
  simp only [arrive]
  split
  · rename_i r hr
    intro p m' e
    subst e
    exact ih.builtin L _ _ _ _ _ hk h0 p m' hr
  · split
    · exact ROK_pair (clausesCall_ok _ _ _ _ _ hk h0)
    · exact ROK_pair (mkErr_ok _ _ _)

theorem assertClause_ok {n : Nat} {L : List Nat}
    (ihc : ∀ k env (m : MS), ContOK L k → 0 < m.user.nextId → ROK L m.user.nextId (applyCont n k env m))
    (front : Bool) (t : Term) (k : Cont) (env : Env) (m : MS) (hk : ContOK L k) (h0 : 0 < m.user.nextId) :
    PrOK L (assertClause front t k env m n).1 ∧
      IdOK m.user.nextId (assertClause front t k env m n).2 (assertClause front t k env m n).1 := by
  unfold assertClause
  simp only []
  split
  · exact mkErr_ok _ _ _
  · exact mkErr_ok _ _ _
  · exact mkErr_ok _ _ _
  · exact mkErr_ok _ _ _
  · split
    · exact mkErr_ok _ _ _
    · split
      · exact ⟨PrOK_failP, IdOK_zero rfl⟩
      · split
        · rename_i r hr
          have := ihc k env _ hk (by exact h0) r.1 r.2 hr
          exact this
        · exact ⟨PrOK_errP _, IdOK_zero rfl⟩

local macro "leaf" : tactic => `(tactic| first
  | exact R2OK_none
  | exact R2OK_some_none
  | exact R2OK_pair (callGoal_ok _ _ _ _ ‹ContOK _ _› ‹0 < _›)
  | exact R2OK_pair (mkErr_ok _ _ _)
  | exact R2OK_pair (appendLists_ok _ _ _ _ _ _ ‹ContOK _ _›)
  | exact R2OK_pair (assertClause_ok (StepOK.applyCont ‹StepOK _› _) _ _ _ _ _ ‹ContOK _ _› ‹0 < _›)
  | exact R2OK_pair ⟨PrOK_failP, IdOK_zero rfl⟩
  | exact R2OK_pair ⟨PrOK_errP _, IdOK_zero rfl⟩
  | exact R2OK_some (StepOK.applyCont ‹StepOK _› _ _ _ _ ‹ContOK _ _› ‹0 < _›)
  | exact R2OK_pair ⟨PrOK_delayed _ _ _ (all1 ⟨‹ContOK _ _›, trivial⟩),
      Or.inr ⟨Nat.le_refl _, Nat.lt_succ_self _⟩⟩
  | exact R2OK_pair ⟨PrOK_delayed _ _ _ (all2 ⟨‹ContOK _ _›, trivial⟩ ⟨‹ContOK _ _›, trivial⟩),
      Or.inr ⟨Nat.le_refl _, Nat.lt_succ_self _⟩⟩
  | exact R2OK_pair ⟨PrOK_delayed _ _ _ (all1 ⟨‹ContOK _ _›, trivial⟩), IdOK_zero rfl⟩
  | exact R2OK_pair ⟨⟨by simp, all1 ⟨‹ContOK _ _›, trivial⟩, by intro h hh; cases hh; assumption⟩,
      IdOK_zero rfl⟩)

attribute [local irreducible] callGoal mkErr appendLists in
theorem builtin_succ {n : Nat} (ih : StepOK n) : ∀ L f args k env (m : MS), ContOK L k → 0 < m.user.nextId →
    R2OK L m.user.nextId (builtin (n + 1) f args k env m) := by
  intro L f args k env m hk h0
  rw [builtin.eq_def]
  simp only [freshId]
  split
  all_goals (repeat' (first | leaf | split))

theorem evalThunk_succ {n : Nat} (ih : StepOK n) : ∀ id live t (m : MS), ThunkOK id live t → 0 < m.user.nextId →
    ROK (push id live) m.user.nextId (evalThunk (n + 1) t m) := by
  intro id live t m ht h0
  obtain ⟨hk, hp⟩ := ht
  have hk' := ContOK_push id hk
  have hmono := semMonoId_of (stepMono n)
  cases t with
  | clause c args k env parent =>
    obtain ⟨rfl, hid⟩ := hp
    simp only [thunkCont] at hk
    simp only [evalThunk, freshVars]
    have hpush : push parent live = parent :: live := by simp [push, hid]
    rw [hpush]
    refine ih.exec _ _ _ _ _ _ _ _ _ (List.mem_cons_self ..) ?_ h0
    simp only [List.dropWhile, ne_eq, not_true_eq_false, decide_false]
    exact ContOK_cons parent hk
  | afterCut pc vars k args astack env cp =>
    simp only [evalThunk]
    exact ih.exec _ _ _ _ _ _ _ _ _ hk'.1 hk'.2 h0
  | contK k env =>
    simp only [evalThunk]
    exact ih.applyCont _ _ _ _ hk' h0
  | exitAlt f b k env =>
    cases k with
    | some k => simp only [evalThunk]; exact ih.applyCont _ _ _ _ hk' h0
    | none => simp only [evalThunk]; exact ROK_some PrOK_failP (IdOK_zero rfl)
  | negate g k env =>
    simp only [evalThunk]
    have h1 := callGoal_mono g .done env m
    split
    · exact ROK_none
    · exact ROK_some PrOK_failP (IdOK_zero rfl)
    · rename_i m' hf
      have h2 := Nat.le_trans h1 (force_mono _ hmono _ _ _ _ _ _ hf)
      exact ROK_le h2 (ih.applyCont _ _ _ _ hk' (Nat.lt_of_lt_of_le h0 h2))
    · exact ROK_some (PrOK_errP _) (IdOK_zero rfl)
    · exact ROK_some (PrOK_errP _) (IdOK_zero rfl)
  | findall t g i k env =>
    simp only [evalThunk]
    have h1 : m.user.nextId ≤ (callGoal g (.findallK t (freshId m).1) env (freshId m).2).2.user.nextId :=
      Nat.le_trans (Nat.le_succ _) (callGoal_mono g _ env (freshId m).2)
    split
    · exact ROK_none
    · exact ROK_some (PrOK_errP _) (IdOK_zero rfl)
    · exact ROK_some (PrOK_errP _) (IdOK_zero rfl)
    · rename_i r m' _ _ hf
      have h2 := Nat.le_trans h1 (force_mono _ hmono _ _ _ _ _ _ hf)
      split
      · exact ROK_le h2 (ih.applyCont _ _ _ _ hk' (Nat.lt_of_lt_of_le h0 h2))
      · exact ROK_some PrOK_failP (IdOK_zero rfl)
      · exact ROK_none
  | catchBody g f k env =>
    simp only [evalThunk]
    exact ROK_pair (callGoal_ok _ _ _ _ (show ContOK _ (.catchExit f k) from hk') h0)
  | unifyK x y k env =>
    simp only [evalThunk]
    split
    · exact ih.applyCont _ _ _ _ hk' h0
    · exact ROK_some PrOK_failP (IdOK_zero rfl)
    · exact ROK_none
  | betweenNext l u v k env =>
    simp only [evalThunk]
    split
    · rename_i r hr
      intro p m' e
      cases e
      exact ih.builtin _ _ _ _ _ _ hk' h0 p m' hr
    · exact ROK_none
  | appendRec x y z k env =>
    simp only [evalThunk, freshVars]
    split
    · split
      · exact ROK_pair (appendLists_ok _ _ _ _ _ _ hk')
      · exact ROK_some PrOK_failP (IdOK_zero rfl)
      · exact ROK_none
    · exact ROK_none

theorem stepOK_zero : StepOK 0 where
  exec := by intros; simp only [exec]; exact ROK_none
  applyCont := by intros; simp only [applyCont]; exact ROK_none
  arrive := by intros; simp only [arrive]; exact ROK_none
  builtin := by intros; simp only [builtin]; exact R2OK_some_none
  evalThunk := by intros; simp only [evalThunk]; exact ROK_none

theorem stepOK : ∀ n, StepOK n
  | 0 => stepOK_zero
  | n + 1 =>
    have ih := stepOK n
    ⟨exec_succ ih, applyCont_succ ih, arrive_succ ih, builtin_succ ih, evalThunk_succ ih⟩

/-- the recovery closure of catch/3 -/
theorem evalRecover_ok {L : List Nat} (h : Handler) (e : Err) (m : MS) (hk : ContOK L h.k) (h0 : 0 < m.user.nextId) :
    ∀ q, (VM.evalRecover h e m).1 = some q →
      PrOK L q ∧ IdOK m.user.nextId (VM.evalRecover h e m).2 q := by
  unfold VM.evalRecover
  split
  · simp only []
    split
    · rename_i env' _
      intro q hq
      simp only [Option.some.injEq] at hq
      subst hq
      exact callGoal_ok h.recover h.k env' m hk h0
    · intro q hq; cases hq
  · intro q hq; cases hq

end PrologVerif.VMScoped
