import PrologVerif.Driver.Common
import PrologVerif.Model.PTree
import PrologVerif.Spec.DFS
namespace PrologVerif.Driver.C03
open PrologVerif PrologVerif.Driver PrologVerif.PTree PrologVerif.Promise

-- tree description (a Term) → PT; fuel = size of the term
mutual
  def toPT : Nat → Term → Option PT
    | 0, _ => none
    | _ + 1, .atom "ok" => some .ok
    | _ + 1, .atom "fail" => some .fail
    | _ + 1, .app "err" (.cons (.int e) .nil) => some (.err e.toNat)
    | n + 1, .app "delay" (.cons (.int id) (.cons alts .nil)) =>
      (toPTs n alts).map (.delay id.toNat)
    | n + 1, .app "cut" (.cons (.int p) (.cons k .nil)) => (toPT n k).map (.cut p.toNat)
    | n + 1, .app "catch" (.cons (.int f) (.cons hs (.cons k .nil))) =>
      match toHandles n hs, toPT n k with
      | some hs', some k' => some (.catch_ f.toNat hs' k')
      | _, _ => none
    | n + 1, .app "rep" (.cons k .nil) => (toPT n k).map .rep
    | n + 1, .app "log" (.cons (.int i) (.cons k .nil)) => (toPT n k).map (.log i.toNat)
    | n + 1, .app "set" (.cons (.int f) (.cons (.atom b) (.cons k .nil))) =>
      (toPT n k).map (.set f.toNat (b == "true"))
    | _ + 1, _ => none
  def toPTs : Nat → Term → Option PTs
    | 0, _ => none
    | _ + 1, .atom "[]" => some .nil
    | n + 1, .app "." (.cons h (.cons t .nil)) =>
      match toPT n h, toPTs n t with
      | some h', some t' => some (.cons h' t')
      | _, _ => none
    | _ + 1, _ => none
  def toHandles : Nat → Term → Option Handles
    | 0, _ => none
    | _ + 1, .atom "[]" => some .nil
    | n + 1, .app "." (.cons (.app "-" (.cons (.int e) (.cons t .nil))) (.cons rest .nil)) =>
      match toPT n t, toHandles n rest with
      | some t', some r' => some (.cons e.toNat t' r')
      | _, _ => none
    | _ + 1, _ => none
end

def showTrace (tr : List Nat) : String := "[" ++ " ".intercalate (tr.reverse.map toString) ++ "]"

def handler : Handler := fun payload impl =>
  match fields payload with
  | [cancel, tree] =>
    match Term.ofWire tree with
    | none => ("BAD-TREE", "-")
    | some tt =>
      match toPT (tt.size + 2) tt with
      | none => ("BAD-TREE", "-")
      | some pt =>
        let cancelAt := cancel.toNat?
        let model := match run 200000 cancelAt pt with
          | none => "BUDGET"
          | some (r, m) =>
            let rs := match r with
              | .yes => "yes" | .no => "no" | .error e => s!"error {e}" | .cancelled => "cancelled"
            -- a cancelled Force has polled once more than it has completed iterations
            let iters := match r with | .cancelled => m.iter + 1 | _ => m.iter
            s!"{rs} ; iters={iters} ; trace={showTrace m.user.trace}"
        -- spec: the recursive reference search (only defined without cancellation)
        let verdict :=
          if cancelAt.isSome then
            -- C13: a cancelled run must report the context's error having evaluated no thunk beyond
            -- the poll at which Done became ready: its trace is a prefix of the uncancelled trace
            match run 200000 none pt with
            | none => "-"
            | some (_, m0) =>
              let full := showTrace m0.user.trace
              let pre := (full.dropEnd 1).toString
              let t := (impl.splitOn "trace=").getD 1 ""
              let tp := (t.dropEnd 1).toString
              if m0.iter ≤ cancelAt.getD 0 then
                (if impl.startsWith "cancelled" then "FAIL cancellation reported although the search finished before the context was done" else "ok")
              else if !impl.startsWith "cancelled" then "FAIL the context was done at iteration " ++ cancel ++ " but Force returned " ++ impl
              else if pre.startsWith tp then "ok" else "FAIL thunks ran that the uncancelled search does not run in this order"
          else
            match DFS.dfs 200000 pt [] {} with
            | none => "-"
            | some (.illScoped, _) => "-"
            | some (sig, s) =>
              let rs := match sig with
                | .found => "yes" | .exhausted _ => "no" | .raised e _ => s!"error {e}" | .illScoped => "?"
              let want := s!"{rs} ; trace={showTrace s.trace}"
              let got := match impl.splitOn " ; " with
                | [r, _, t] => r ++ " ; " ++ t
                | _ => impl
              if got = want then "ok" else "FAIL reference depth-first search says " ++ want
        (model, verdict)
  | _ => ("BAD-CASE", "-")

end PrologVerif.Driver.C03
