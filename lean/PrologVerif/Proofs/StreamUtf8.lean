/-
  Proofs/Utf8.lean — facts about the UTF-8 decoder of Model/StreamTypes.lean used by C19.
-/
import PrologVerif.Model.StreamTypes
namespace PrologVerif.Stream

theorem decodeRune_nil : decodeRune [] = (runeError, 0) := rfl

/-- the decoder never claims more bytes than it was given -/
theorem decodeRune_size_le (p : List Nat) : (decodeRune p).2 ≤ p.length := by
  unfold decodeRune
  split
  · simp
  · rename_i b0 rest
    repeat' split
    all_goals simp_all <;> omega

theorem decodeRune_size_pos (p : List Nat) (h : p ≠ []) : 1 ≤ (decodeRune p).2 := by
  unfold decodeRune
  split
  · contradiction
  · repeat' split
    all_goals simp

theorem decodeRune_size_le4 (p : List Nat) : (decodeRune p).2 ≤ 4 := by
  unfold decodeRune
  repeat' split
  all_goals simp

theorem leadSize_le4 (b : Nat) : leadSize b ≤ 4 := by
  unfold leadSize; repeat' split
  all_goals omega

/-- four bytes always hold a full rune -/
theorem fullRune_of_length_ge4 (p : List Nat) (h : 4 ≤ p.length) : fullRune p = true := by
  cases p with
  | nil => simp at h
  | cons b0 rest =>
    have := leadSize_le4 b0
    simp only [List.length_cons] at h
    simp only [fullRune]
    split
    · rfl
    · split
      · rfl
      · omega

theorem fullRune_ne_nil (p : List Nat) (h : fullRune p = true) : p ≠ [] := by
  intro hp; subst hp; simp [fullRune] at h

/-- once the available bytes hold a full rune (valid or known to be invalid), bytes arriving later do
    not change what is decoded: bufio may decode from a partially filled buffer -/
theorem decodeRune_append_of_full (p q : List Nat) (h : fullRune p = true) :
    decodeRune (p ++ q) = decodeRune p := by
  match p with
  | [] => simp [fullRune] at h
  | [b0] =>
    unfold fullRune at h
    simp only [List.length_nil, Nat.zero_add] at h
    unfold decodeRune
    simp only [List.cons_append, List.nil_append]
    by_cases h1 : leadSize b0 = 1
    · simp [h1]
    · by_cases h0 : leadSize b0 = 0
      · simp [h0]
      · have : ¬ leadSize b0 ≤ 1 := by omega
        simp [this] at h
  | [b0, b1] =>
    unfold fullRune at h
    unfold decodeRune
    simp only [List.cons_append, List.nil_append, List.length_cons, List.length_nil] at h ⊢
    by_cases h1 : leadSize b0 = 1
    · simp [h1]
    · by_cases h0 : leadSize b0 = 0
      · simp [h0]
      · simp only [h1, h0, if_false]
        by_cases ha : accepts2 b0 b1
        · simp only [ha, not_true_eq_false, if_false]
          by_cases h2 : leadSize b0 = 2
          · simp [h2]
          · have : ¬ leadSize b0 ≤ 1 := by omega
            have : ¬ leadSize b0 ≤ 0 + 1 + 1 := by omega
            simp_all
        · simp [ha]
  | [b0, b1, b2] =>
    unfold fullRune at h
    unfold decodeRune
    simp only [List.cons_append, List.nil_append, List.length_cons, List.length_nil] at h ⊢
    by_cases h1 : leadSize b0 = 1
    · simp [h1]
    · by_cases h0 : leadSize b0 = 0
      · simp [h0]
      · simp only [h1, h0, if_false]
        by_cases ha : accepts2 b0 b1
        · simp only [ha, not_true_eq_false, if_false]
          by_cases h2 : leadSize b0 = 2
          · simp [h2]
          · simp only [h2, if_false]
            by_cases hc : isCont b2
            · simp only [hc, not_true_eq_false, if_false]
              by_cases h3 : leadSize b0 = 3
              · simp [h3]
              · have : ¬ leadSize b0 ≤ 1 := by omega
                have : ¬ leadSize b0 ≤ 0 + 1 + 1 + 1 := by omega
                simp_all
            · simp [hc]
        · simp [ha]
  | b0 :: b1 :: b2 :: b3 :: rest =>
    unfold decodeRune
    simp only [List.cons_append]
    repeat' split
    all_goals first | rfl | simp_all

/-- decoding only looks at a prefix that holds a full rune -/
theorem decodeRune_take_of_full (p : List Nat) (n : Nat) (h : fullRune (p.take n) = true) :
    decodeRune p = decodeRune (p.take n) := by
  have := decodeRune_append_of_full (p.take n) (p.drop n) h
  rwa [List.take_append_drop] at this

/-! ### encode / decode -/

theorem encodeRune_length (r : Nat) :
    (encodeRune r).length = if r < 0x80 then 1 else if r < 0x800 then 2 else if r < 0x10000 then 3 else 4 := by
  unfold encodeRune; repeat' split
  all_goals rfl

/-- a scalar value's encoding decodes to itself, whatever follows: a multi-byte character advances the
    cursor by its encoded length -/
theorem decodeRune_encodeRune (r : Nat) (h : validRune r) (q : List Nat) :
    decodeRune (encodeRune r ++ q) = (r, (encodeRune r).length) := by
  unfold validRune at h
  unfold encodeRune
  by_cases h1 : r < 0x80
  · simp only [h1, if_true, List.cons_append, List.nil_append, List.length_cons, List.length_nil]
    unfold decodeRune
    have : leadSize r = 1 := by unfold leadSize; simp [h1]
    simp [this]
  · by_cases h2 : r < 0x800
    · simp only [h1, h2, if_true, if_false, List.cons_append, List.nil_append, List.length_cons, List.length_nil]
      unfold decodeRune
      have hl : leadSize (0xC0 + r / 64) = 2 := by
        unfold leadSize
        have : ¬ (0xC0 + r / 64 < 0x80) := by omega
        have : ¬ (0xC0 + r / 64 < 0xC2) := by omega
        have : 0xC0 + r / 64 < 0xE0 := by omega
        simp [*]
      have ha : accepts2 (0xC0 + r / 64) (0x80 + r % 64) := by
        unfold accepts2 acceptLo acceptHi
        have : ¬ (0xC0 + r / 64 = 0xE0) := by omega
        have : ¬ (0xC0 + r / 64 = 0xF0) := by omega
        have : ¬ (0xC0 + r / 64 = 0xED) := by omega
        have : ¬ (0xC0 + r / 64 = 0xF4) := by omega
        simp [*]; omega
      simp only [hl, ha]
      simp
      omega
    · by_cases h3 : r < 0x10000
      · simp only [h1, h2, h3, if_true, if_false, List.cons_append, List.nil_append, List.length_cons, List.length_nil]
        unfold decodeRune
        have hl : leadSize (0xE0 + r / 4096) = 3 := by
          unfold leadSize
          have : ¬ (0xE0 + r / 4096 < 0x80) := by omega
          have : ¬ (0xE0 + r / 4096 < 0xC2) := by omega
          have : ¬ (0xE0 + r / 4096 < 0xE0) := by omega
          have : 0xE0 + r / 4096 < 0xF0 := by omega
          simp [*]
        have ha : accepts2 (0xE0 + r / 4096) (0x80 + r / 64 % 64) := by
          unfold accepts2 acceptLo acceptHi
          repeat' split
          all_goals omega
        have hc : isCont (0x80 + r % 64) := by unfold isCont; omega
        simp only [hl, ha, hc]
        simp
        omega
      · simp only [h1, h2, h3, if_false, List.cons_append, List.nil_append, List.length_cons, List.length_nil]
        unfold decodeRune
        have hl : leadSize (0xF0 + r / 262144) = 4 := by
          unfold leadSize
          have : ¬ (0xF0 + r / 262144 < 0x80) := by omega
          have : ¬ (0xF0 + r / 262144 < 0xC2) := by omega
          have : ¬ (0xF0 + r / 262144 < 0xE0) := by omega
          have : ¬ (0xF0 + r / 262144 < 0xF0) := by omega
          have : 0xF0 + r / 262144 < 0xF5 := by omega
          simp [*]
        have ha : accepts2 (0xF0 + r / 262144) (0x80 + r / 4096 % 64) := by
          unfold accepts2 acceptLo acceptHi
          repeat' split
          all_goals omega
        have hc2 : isCont (0x80 + r / 64 % 64) := by unfold isCont; omega
        have hc3 : isCont (0x80 + r % 64) := by unfold isCont; omega
        simp only [hl, ha, hc2, hc3]
        simp
        omega

/-- a byte that can never start an encoding is a RuneError of width 1 -/
theorem decodeRune_invalid_lead (b0 : Nat) (rest : List Nat) (h : leadSize b0 = 0) :
    decodeRune (b0 :: rest) = (runeError, 1) := by
  unfold decodeRune; simp [h]

end PrologVerif.Stream
