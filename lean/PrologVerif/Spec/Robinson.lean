/-
  Reference unification for the C02 oracle: the textbook algorithm on a list of equations with
  EAGER substitution (Robinson / Martelli–Montanari), written independently of the model of the
  Go code (which keeps a triangular environment and resolves lazily).  With the occurs check it
  decides unifiability and returns an idempotent mgu as an association list.
-/
import PrologVerif.Basic
namespace PrologVerif.Robinson

mutual
  def occurs (v : Nat) : Term → Bool
    | .var w => w == v
    | .app _ as => occursArgs v as
    | _ => false
  def occursArgs (v : Nat) : Args → Bool
    | .nil => false
    | .cons t ts => occurs v t || occursArgs v ts
end

mutual
  def replace (v : Nat) (s : Term) : Term → Term
    | .var w => if w = v then s else .var w
    | .app f as => .app f (replaceArgs v s as)
    | t => t
  def replaceArgs (v : Nat) (s : Term) : Args → Args
    | .nil => .nil
    | .cons t ts => .cons (replace v s t) (replaceArgs v s ts)
end

def zipArgs : Args → Args → List (Term × Term)
  | .cons a as, .cons b bs => (a, b) :: zipArgs as bs
  | _, _ => []

inductive Outcome where
  | mgu (σ : List (Nat × Term))   -- idempotent most general unifier
  | clash                         -- not unifiable: functor / arity / constant clash
  | occurs                        -- the occurs check fired (no FINITE unifier; subject to occurs check)
  | outOfFuel

/-- equations are processed depth-first, left to right (the order the engine uses) -/
def solve : Nat → List (Term × Term) → List (Nat × Term) → Outcome
  | 0, _, _ => .outOfFuel
  | _ + 1, [], acc => .mgu acc
  | n + 1, (s, t) :: rest, acc =>
    if s = t then solve n rest acc
    else
      let bind := fun (v : Nat) (u : Term) =>
        if occurs v u then Outcome.occurs
        else
          solve n (rest.map fun p => (replace v u p.1, replace v u p.2))
            ((v, u) :: acc.map fun p => (p.1, replace v u p.2))
      match s, t with
      | .var v, u => bind v u
      | u, .var v => bind v u
      | .app f as, .app g bs =>
        if f = g ∧ as.length = bs.length then solve n (zipArgs as bs ++ rest) acc
        else .clash
      | _, _ => .clash

/-- SUBJECT TO OCCURS CHECK (ISO 7.3.3): some way of proceeding through the Herbrand algorithm makes
    the occurs check fire.  Clashing equations can be postponed indefinitely, so: run the algorithm,
    set clashing equations aside, report whether the occurs check ever fires. `none` = out of fuel. -/
def sto : Nat → List (Term × Term) → Option Bool
  | 0, _ => none
  | _ + 1, [] => some false
  | n + 1, (s, t) :: rest =>
    if s = t then sto n rest
    else
      let bind := fun (v : Nat) (u : Term) =>
        if occurs v u then some true
        else sto n (rest.map fun p => (replace v u p.1, replace v u p.2))
      match s, t with
      | .var v, u => bind v u
      | u, .var v => bind v u
      | .app f as, .app g bs =>
        if f = g ∧ as.length = bs.length then sto n (zipArgs as bs ++ rest)
        else sto n rest
      | _, _ => sto n rest

def applySubst (σ : List (Nat × Term)) (t : Term) : Term :=
  -- σ is idempotent with the most recently eliminated variable first; its ranges are already
  -- fully substituted, so one pass per binding suffices
  σ.foldr (fun p acc => replace p.1 p.2 acc) t

end PrologVerif.Robinson
