/-
  Proofs/DCGSem2XTerm — a terminal list when the remainder argument is an ARBITRARY term `sT`
  (phrase/3 with any third argument): the SLD side runs `S0 = [t1,…,tn | sT]`, the denotation
  `consume`s the terminals and then unifies what is left with its third argument `rD` (sT ~ rD).
-/
import PrologVerif.Proofs.DCGSem2Flip
namespace PrologVerif.Grammar
open PrologVerif

/-- the denotation's side: consume, then unify what is left with `rD` -/
def consumeX (uf : Nat) (ts : List Term) (st : St) (l rD : Term) : Fuel (Option St) :=
  match consume uf ts st l with
  | .out => .out
  | .done none => .done none
  | .done (some (st', rem)) =>
    match unify uf st'.σ rem rD with
    | .out => .out
    | .done none => .done none
    | .done (some σ') => .done (some { st' with σ := σ' })

/-- outcomes: the SLD side is out of fuel, or both fail, or both succeed in a world after `W` -/
def XOut (W : World) : Fuel (Option Subst) → Fuel (Option St) → Prop
  | .out, _ => True
  | .done none, .done none => True
  | .done (some σS'), .done (some dst') =>
    ∃ W' : World, W'.σS = σS' ∧ W'.nS = W.nS ∧ dst' = W'.stD ∧ W'.Good ∧ Step W W' (fun _ => False)
  | _, _ => False

theorem XOut.trans {W W1 : World} (h1 : Step W W1 (fun _ => False)) (e1 : W1.nS = W.nS)
    {rS : Fuel (Option Subst)} {rD : Fuel (Option St)} (h : XOut W1 rS rD) : XOut W rS rD := by
  match rS, rD, h with
  | .out, _, _ => trivial
  | .done none, .done none, _ => trivial
  | .done (some _), .done (some _), ⟨W', a, b, c, d, e⟩ =>
    exact ⟨W', a, by rw [b, e1], c, d, h1.trans e (fun _ h => h) (fun _ h => h)⟩

theorem XOut.of_uout {W : World} {rS rD : Fuel (Option Subst)} :
    UOut W rS rD →
    XOut W rS (match rD with
      | .out => .out
      | .done none => .done none
      | .done (some σ') => .done (some { W.stD with σ := σ' })) := by
  intro h
  match rS, rD, h with
  | .out, _, _ => trivial
  | .done none, .done none, _ => trivial
  | .done (some _), .done (some _), ⟨W', a, b, c, d, e, f⟩ =>
    exact ⟨W', a, c, by simp [World.stD, b, d], e, f⟩

/-- the generated cells, with something on top of them: the list pattern `[t… | base]` of the SLD
    side is what the generated variable is, given that `base` is what the last variable is -/
theorem gen_suffixG (W' : World) (k : Nat) (baseS : Term) (Δtop : Subst) :
    ∀ (tsS tsD : List Term), All2 (Sim W' k) tsS tsD → ∀ (v n : Nat) (σlo : Subst),
      W'.σD = Δtop ++ (genΔ tsD v n ++ σlo) → (∀ p ∈ σlo, p.1 < n ∧ p.1 ≠ v) → v < n →
      (∀ j, j ≤ k → Sim W' j baseS (.var (genLast tsD v n))) →
      ∀ j, j ≤ k → Sim W' j (Term.list tsS baseS) (.var v) := by
  intro tsS tsD h
  induction h with
  | nil => intro v n σlo _ _ _ hbase j hj; exact hbase j hj
  | @cons tS tD tsS tsD r _ ih =>
    intro v n σlo e hlo hv hbase j hj
    cases j with
    | zero => trivial
    | succ j =>
      have hw : walk W'.σD (.var v) = Term.consT tD (.var n) := by
        rw [e]
        simp only [genΔ, List.append_assoc, List.singleton_append]
        rw [walk_append, walk_append, walk_bind σlo v _ (fun p hp => (hlo p hp).2)]
        rw [walk_nonvar (genΔ tsD n (n + 1)) _ rfl, walk_nonvar Δtop _ rfl]
      unfold Sim
      rw [list_cons, walk_nonvar _ _ rfl, hw]
      refine .app (.cons (Sim.le W' (by omega) r) (.cons ?_ .nil))
      refine ih n (n + 1) ((v, Term.consT tD (.var n)) :: σlo) ?_ ?_ (by omega) hbase j (by omega)
      · rw [e]; simp [genΔ]
      · intro p hp
        rcases List.mem_cons.1 hp with rfl | hp
        · simp; omega
        · have := hlo p hp; omega

/-- the world after `S0 = [t… | sT]` (SLD) resp. generating the cells and unifying the last
    variable with the third argument (denotation), `S0` unbound -/
def World.genX (W : World) (aS : Nat) (tsS : List Term) (sT : Term) (aD : Nat) (tsD : List Term) (u : Term) :
    World :=
  { σS := (aS, Term.list tsS sT) :: W.σS,
    σD := (genLast tsD aD W.nD, u) :: (genΔ tsD aD W.nD ++ W.σD),
    ρ := fun x y => W.ρ x y ∧ x ≠ aS,
    nS := W.nS, nD := W.nD + tsD.length }

theorem World.genX_ok {W : World} (hW : W.Good) {aS aD : Nat} (ha : W.ρ aS aD) {tS tD : Term}
    {tsS tsD : List Term} (ht : W.Eq tS tD) (hts : All2 W.Eq tsS tsD) {sT rD : Term} (hr : W.Eq sT rD) :
    (W.genX aS (tS :: tsS) sT aD (tD :: tsD) (walk (genΔ (tD :: tsD) aD W.nD ++ W.σD) rD)).Good ∧
      Step W (W.genX aS (tS :: tsS) sT aD (tD :: tsD) (walk (genΔ (tD :: tsD) aD W.nD ++ W.σD) rD))
        (fun _ => False) ∧
      walk (genΔ (tD :: tsD) aD W.nD ++ W.σD) rD ≠ .var (genLast (tD :: tsD) aD W.nD) ∧
      (∀ p ∈ genΔ (tD :: tsD) aD W.nD ++ W.σD, p.1 ≠ genLast (tD :: tsD) aD W.nD) := by
  have haD : aD < W.nD := hW.scD aD (.inr ⟨aS, ha⟩)
  have hlast : genLast (tD :: tsD) aD W.nD = W.nD + tsD.length := genLast_cons tsD tD aD W.nD
  have hσD : ∀ p ∈ W.σD, p.1 < W.nD := fun p hp => hW.scD _ (.inl ⟨p, hp, rfl⟩)
  have tS' : ∀ v, (W.genX aS (tS :: tsS) sT aD (tD :: tsD) (walk (genΔ (tD :: tsD) aD W.nD ++ W.σD) rD)).TS v →
      W.TS v := by
    intro v hv
    rcases hv with ⟨p, hp, e⟩ | ⟨b, r⟩
    · simp only [World.genX, List.mem_cons] at hp
      rcases hp with rfl | hp
      · exact .inr ⟨aD, e ▸ ha⟩
      · exact .inl ⟨p, hp, e⟩
    · exact .inr ⟨b, r.1⟩
  have tD' : ∀ v, (W.genX aS (tS :: tsS) sT aD (tD :: tsD) (walk (genΔ (tD :: tsD) aD W.nD ++ W.σD) rD)).TD v →
      W.TD v ∨ (W.nD ≤ v ∧ v < W.nD + (tsD.length + 1)) := by
    intro v hv
    rcases hv with ⟨p, hp, e⟩ | ⟨x, r⟩
    · simp only [World.genX, List.mem_cons, List.mem_append] at hp
      rcases hp with rfl | hp | hp
      · simp only at e; rw [hlast] at e; exact .inr (by omega)
      · rcases genΔ_keys _ _ _ p hp with h | h
        · exact .inl (.inr ⟨aS, by rw [← e, h]; exact ha⟩)
        · simp only [List.length_cons] at h; exact .inr (by omega)
      · exact .inl (.inl ⟨p, hp, e⟩)
    · exact .inl (.inr ⟨x, r.1⟩)
  -- what the third argument is after the cells have been generated
  have hu : ∀ (w0 : Term), walk W.σD rD = w0 → (∀ c, w0 = .var c → c < W.nD) →
      walk (genΔ (tD :: tsD) aD W.nD ++ W.σD) rD ≠ .var (genLast (tD :: tsD) aD W.nD) := by
    intro w0 hw0 hc
    rw [walk_append, hw0, hlast]
    cases w0 with
    | var c =>
      have hclt := hc c rfl
      by_cases hca : c = aD
      · subst hca; rw [walk_genΔ_first]; simp [Term.consT]
      · rw [walk_genΔ_other _ _ _ _ hclt hca]; intro e; injection e; omega
    | _ => rw [walk_nonvar _ _ rfl]; simp
  have hune : walk (genΔ (tD :: tsD) aD W.nD ++ W.σD) rD ≠ .var (genLast (tD :: tsD) aD W.nD) := by
    refine hu _ rfl (fun c hc => ?_)
    have h1 := (W.Eq_unfold sT rD).1 hr
    rw [hc] at h1
    revert h1; generalize walk W.σS sT = w; intro h1
    cases h1 with
    | var r => exact hW.scD c (.inr ⟨_, r⟩)
  have hunb0 : ∀ p ∈ genΔ (tD :: tsD) aD W.nD ++ W.σD, p.1 ≠ genLast (tD :: tsD) aD W.nD := by
    intro p hp
    rw [hlast]
    rcases List.mem_append.1 hp with hp | hp
    · rcases genΔ_keys _ _ _ p hp with h | h
      · omega
      · simp only [List.length_cons] at h; omega
    · have := hσD p hp; omega
  have hunb : ∀ x y,
      (W.genX aS (tS :: tsS) sT aD (tD :: tsD) (walk (genΔ (tD :: tsD) aD W.nD ++ W.σD) rD)).ρ x y →
      (∀ p ∈ (W.genX aS (tS :: tsS) sT aD (tD :: tsD) (walk (genΔ (tD :: tsD) aD W.nD ++ W.σD) rD)).σS, p.1 ≠ x) ∧
      (∀ p ∈ (W.genX aS (tS :: tsS) sT aD (tD :: tsD) (walk (genΔ (tD :: tsD) aD W.nD ++ W.σD) rD)).σD, p.1 ≠ y) := by
    intro x y r
    have hy : y ≠ aD := fun e => r.2 (hW.inj _ _ _ r.1 (e ▸ ha))
    have hylt : y < W.nD := hW.scD y (.inr ⟨x, r.1⟩)
    constructor
    · intro p hp
      simp only [World.genX, List.mem_cons] at hp
      rcases hp with rfl | hp
      · exact fun e => r.2 e.symm
      · exact (hW.unb x y r.1).1 p hp
    · intro p hp
      simp only [World.genX, List.mem_cons, List.mem_append] at hp
      rcases hp with rfl | hp | hp
      · simp only; rw [hlast]; omega
      · rcases genΔ_keys _ _ _ p hp with h | h
        · omega
        · omega
      · exact (hW.unb x y r.1).2 p hp
  refine ⟨⟨fun a b b' h h' => hW.fn a b b' h.1 h'.1, fun a a' b h h' => hW.inj a a' b h.1 h'.1,
    fun v hv => hW.scS v (tS' v hv), fun v hv => ?_, hunb⟩,
    ⟨?_, ⟨[(aS, Term.list (tS :: tsS) sT)], rfl⟩,
      ⟨(genLast (tD :: tsD) aD W.nD, walk (genΔ (tD :: tsD) aD W.nD ++ W.σD) rD) :: genΔ (tD :: tsD) aD W.nD, rfl⟩,
      Nat.le_refl _, Nat.le_add_right _ _, fun v hv => .inl (tS' v hv), fun v hv => ?_⟩, hune, hunb0⟩
  · show v < W.nD + (tD :: tsD).length
    rcases tD' v hv with h | h
    · have := hW.scD v h; simp; omega
    · simpa using h.2
  · refine persist (ΔS := [(aS, Term.list (tS :: tsS) sT)])
      (ΔD := (genLast (tD :: tsD) aD W.nD, walk (genΔ (tD :: tsD) aD W.nD ++ W.σD) rD) :: genΔ (tD :: tsD) aD W.nD)
      rfl rfl ?_
    intro x y r k Hk
    rw [walk_single]
    have hwtop : ∀ t : Term, isVar t = false →
        walk ((genLast (tD :: tsD) aD W.nD, walk (genΔ (tD :: tsD) aD W.nD ++ W.σD) rD) :: genΔ (tD :: tsD) aD W.nD) t = t :=
      fun t ht => walk_nonvar _ _ ht
    by_cases hx : x = aS
    · subst hx
      have hy : y = aD := hW.fn _ _ _ r ha
      subst hy
      simp only [if_true]
      have hwy : walk ((genLast (tD :: tsD) y W.nD, walk (genΔ (tD :: tsD) y W.nD ++ W.σD) rD) :: genΔ (tD :: tsD) y W.nD)
          (.var y) = Term.consT tD (.var W.nD) := by
        simp only [walk]
        rw [walk_genΔ_first]
        rfl
      rw [hwy, list_cons]
      refine .app (.cons (Hk _ _ ht) (.cons ?_ .nil))
      refine gen_suffixG _ k sT [(genLast (tD :: tsD) y W.nD, walk (genΔ (tD :: tsD) y W.nD ++ W.σD) rD)]
        tsS tsD (hts.imp (fun a b h => Hk a b h)) W.nD (W.nD + 1)
        ((y, Term.consT tD (.var W.nD)) :: W.σD) ?_ ?_ (by omega) ?_ k (Nat.le_refl _)
      · simp [World.genX, genΔ]
      · intro p hp
        rcases List.mem_cons.1 hp with rfl | hp
        · simp; omega
        · have := hσD p hp; omega
      · -- the base: `sT` is what the last generated variable is
        intro j hj
        have hs : Sim _ j sT rD := Sim.le _ hj (Hk _ _ hr)
        cases j with
        | zero => trivial
        | succ j =>
          unfold Sim at hs ⊢
          have e1 : genLast tsD W.nD (W.nD + 1) = genLast (tD :: tsD) y W.nD := rfl
          rw [e1]
          have hwl : walk (W.genX x (tS :: tsS) sT y (tD :: tsD) (walk (genΔ (tD :: tsD) y W.nD ++ W.σD) rD)).σD
                (.var (genLast (tD :: tsD) y W.nD)) =
              walk (W.genX x (tS :: tsS) sT y (tD :: tsD) (walk (genΔ (tD :: tsD) y W.nD ++ W.σD) rD)).σD rD := by
            show walk ((genLast (tD :: tsD) y W.nD, _) :: (genΔ (tD :: tsD) y W.nD ++ W.σD)) _ =
              walk ((genLast (tD :: tsD) y W.nD, _) :: (genΔ (tD :: tsD) y W.nD ++ W.σD)) rD
            have hunb : ∀ p ∈ genΔ (tD :: tsD) y W.nD ++ W.σD, p.1 ≠ genLast (tD :: tsD) y W.nD := by
              intro p hp
              rw [hlast]
              rcases List.mem_append.1 hp with hp | hp
              · rcases genΔ_keys _ _ _ p hp with h | h
                · omega
                · simp only [List.length_cons] at h; omega
              · have := hσD p hp; omega
            rw [walk_bind _ _ _ hunb]
            exact (walk_bind_other _ _ _ _ hune).symm ▸ rfl
          rw [hwl]
          exact hs
    · have hy : y ≠ aD := fun e => hx (hW.inj _ _ _ (e ▸ r) ha)
      have hylt : y < W.nD := hW.scD y (.inr ⟨x, r⟩)
      simp only [hx, if_false]
      have : walk ((genLast (tD :: tsD) aD W.nD, walk (genΔ (tD :: tsD) aD W.nD ++ W.σD) rD) :: genΔ (tD :: tsD) aD W.nD)
          (.var y) = .var y := by
        simp only [walk]
        rw [walk_genΔ_other _ _ _ _ hylt hy]
        simp only [hlast]
        have : y ≠ W.nD + tsD.length := by omega
        simp [this]
      rw [this]
      exact .var ⟨r, hx⟩
  · rcases tD' v hv with h | h
    · exact .inl h
    · exact .inr h.1

theorem consumeX_cell (uf : Nat) (t : Term) (ts : List Term) (st : St) (l rD h tl : Term)
    (hw : walk st.σ l = .app "." (.cons h (.cons tl .nil))) :
    consumeX uf (t :: ts) st l rD =
      (match unify uf st.σ h t with
       | .out => .out
       | .done none => .done none
       | .done (some σ') => consumeX uf ts { st with σ := σ' } tl rD) := by
  unfold consumeX
  rw [consume_cell uf t ts st l h tl hw]
  cases unify uf st.σ h t with
  | out => rfl
  | done o => cases o <;> rfl

theorem consumeX_other (uf : Nat) (t : Term) (ts : List Term) (st : St) (l rD : Term)
    (h1 : ∀ v, walk st.σ l ≠ .var v) (h2 : ∀ h tl, walk st.σ l ≠ .app "." (.cons h (.cons tl .nil))) :
    consumeX uf (t :: ts) st l rD = .done none := by
  unfold consumeX
  rw [consume_other uf t ts st l h1 h2]

theorem terminalsX_sim (uf : Nat) : ∀ (tsS tsD : List Term) (k : Nat), k ≤ uf → ∀ (W : World), W.Good →
    ∀ (x l : Term), W.Eq x l → All2 W.Eq tsS tsD → ∀ (sT rD : Term), W.Eq sT rD →
      XOut W (unify k W.σS x (Term.list tsS sT)) (consumeX uf tsD W.stD l rD)
  | _, _, 0, _, _, _, _, _, _, _, _, _, _ => by simp only [unify]; trivial
  | [], _, k + 1, hk, W, hW, x, l, hx, hts, sT, rD, hr => by
    cases hts
    simp only [Term.list, List.foldr_nil, consumeX, consume]
    exact XOut.of_uout (unify_sim (k + 1) uf hk W hW x sT l rD hx hr)
  | tS :: tsS, _, k + 1, hk, W, hW, x, l, hx, hts, sT, rD, hr => by
    cases hts with
    | cons ht hts =>
      rename_i tD tsD
      have hx' := (W.Eq_unfold x l).1 hx
      unfold unify
      rw [walk_nonvar W.σS (Term.list (tS :: tsS) sT) rfl]
      cases hwS : walk W.σS x with
      | var a =>
        obtain ⟨aD, hwD, r⟩ := hx.var_left hwS
        have hgen := consume_gen uf tsD tD W.σD W.nD l aD hwD
          (fun p hp => hW.scD _ (.inl ⟨p, hp, rfl⟩)) (hW.scD _ (.inr ⟨a, r⟩))
        obtain ⟨g, st, hune, hunb⟩ := World.genX_ok hW r ht hts hr
        obtain ⟨j, hj⟩ : ∃ j, uf = j + 1 := ⟨uf - 1, by omega⟩
        show XOut W _ (consumeX uf (tD :: tsD) ⟨W.σD, W.nD⟩ l rD)
        unfold consumeX
        rw [hgen]
        simp only []
        rw [hj, unify_var_any j _ _ rD hunb hune]
        simp only [list_cons]
        exact ⟨W.genX a (tS :: tsS) sT aD (tD :: tsD) (walk (genΔ (tD :: tsD) aD W.nD ++ W.σD) rD), rfl, rfl,
          by simp [World.stD, World.genX], g, st⟩
      | app f as =>
        rw [hwS] at hx'
        revert hx'
        cases hwD : walk W.σD l with
        | app f' bs =>
          intro hx'
          cases hx' with
          | app rargs =>
            simp only [list_cons]
            by_cases hf : f = "."
            · subst hf
              simp only [if_true]
              cases rargs with
              | nil =>
                rw [consumeX_other uf tD tsD W.stD l rD (by simp [World.stD, hwD]) (by simp [World.stD, hwD])]
                simp only [unifyArgsWith]; trivial
              | cons rh rtl =>
                rename_i h h' as1 bs1
                cases rtl with
                | nil =>
                  rw [consumeX_other uf tD tsD W.stD l rD (by simp [World.stD, hwD]) (by simp [World.stD, hwD])]
                  simp only [unifyArgsWith]
                  cases unify k W.σS h tS with
                  | out => trivial
                  | done o => cases o <;> trivial
                | cons rt rrest =>
                  rename_i tl tl' as2 bs2
                  cases rrest with
                  | cons _ _ =>
                    rw [consumeX_other uf tD tsD W.stD l rD (by simp [World.stD, hwD]) (by simp [World.stD, hwD])]
                    simp only [unifyArgsWith]
                    cases unify k W.σS h tS with
                    | out => trivial
                    | done o =>
                      cases o with
                      | none => trivial
                      | some σ1 =>
                        simp only []
                        cases unify k σ1 tl (Term.list tsS sT) with
                        | out => trivial
                        | done o => cases o <;> trivial
                  | nil =>
                    rw [consumeX_cell uf tD tsD W.stD l rD h' tl' (by simp [World.stD, hwD])]
                    simp only [unifyArgsWith]
                    have hu := unify_sim k uf (by omega) W hW h tS h' tD rh ht
                    match hS : unify k W.σS h tS, hD : unify uf W.stD.σ h' tD, hu with
                    | .out, _, _ => trivial
                    | .done none, .done none, _ => trivial
                    | .done (some σ1), .done (some σ1'), ⟨W1, e1, e2, e3, e4, g, st⟩ =>
                      simp only []
                      subst e1 e2
                      have := terminalsX_sim uf tsS tsD k (by omega) W1 g tl tl' (st.eq _ _ rt)
                        (hts.imp (fun _ _ h => st.eq _ _ h)) sT rD (st.eq _ _ hr)
                      have e5 : W1.stD = { W.stD with σ := W1.σD } := by simp [World.stD, e4]
                      rw [← e5]
                      have key := XOut.trans st e3 this
                      revert key
                      cases unify k W1.σS tl (Term.list tsS sT) with
                      | out => intro _; trivial
                      | done o => cases o <;> exact fun h => h
            · simp only [hf, if_false]
              rw [consumeX_other uf tD tsD W.stD l rD (by simp [World.stD, hwD])
                (by intro h tl; simp only [World.stD, hwD]; intro e; injection e with e1 _; exact hf e1)]
              trivial
        | var _ => intro hx'; cases hx'
        | atom _ => intro hx'; cases hx'
        | int _ => intro hx'; cases hx'
        | flt _ => intro hx'; cases hx'
        | str _ => intro hx'; cases hx'
      | atom c =>
        rw [hwS] at hx'
        have hwD : walk W.σD l = .atom c := by
          revert hx'; generalize walk W.σD l = w; intro hx'; cases hx'; rfl
        rw [consumeX_other uf tD tsD W.stD l rD (by simp [World.stD, hwD]) (by simp [World.stD, hwD])]
        simp [list_cons]; trivial
      | int c =>
        rw [hwS] at hx'
        have hwD : walk W.σD l = .int c := by
          revert hx'; generalize walk W.σD l = w; intro hx'; cases hx'; rfl
        rw [consumeX_other uf tD tsD W.stD l rD (by simp [World.stD, hwD]) (by simp [World.stD, hwD])]
        simp [list_cons]; trivial
      | flt c =>
        rw [hwS] at hx'
        have hwD : walk W.σD l = .flt c := by
          revert hx'; generalize walk W.σD l = w; intro hx'; cases hx'; rfl
        rw [consumeX_other uf tD tsD W.stD l rD (by simp [World.stD, hwD]) (by simp [World.stD, hwD])]
        simp [list_cons]; trivial
      | str c =>
        rw [hwS] at hx'
        have hwD : walk W.σD l = .str c := by
          revert hx'; generalize walk W.σD l = w; intro hx'; cases hx'; rfl
        rw [consumeX_other uf tD tsD W.stD l rD (by simp [World.stD, hwD]) (by simp [World.stD, hwD])]
        simp [list_cons]; trivial

end PrologVerif.Grammar
