/-
  Proofs/DCGSemCall — calls: resolving a translated non-terminal with the translated rules
  corresponds to trying the rules in the denotation; and the induction on the fuel.
-/
import PrologVerif.Proofs.DCGSem
namespace PrologVerif.Grammar
open PrologVerif

/-! ### renaming apart does nothing to ground terms and shifts the hidden variables -/

mutual
  theorem renameT_ground (k : Nat) : (t : Term) → groundT t = true → renameT k t = t
    | .var _, h => by simp [groundT] at h
    | .app f as, h => by
      simp only [renameT]
      rw [renameA_ground k as (by simpa [groundT] using h)]
    | .atom _, _ => rfl
    | .int _, _ => rfl
    | .flt _, _ => rfl
    | .str _, _ => rfl
  theorem renameA_ground (k : Nat) : (as : Args) → groundA as = true → renameA k as = as
    | .nil, _ => rfl
    | .cons t ts, h => by
      simp only [groundA, Bool.and_eq_true] at h
      simp only [renameA]
      rw [renameT_ground k t h.1, renameA_ground k ts h.2]
end

theorem renameL_ground (k : Nat) (ts : List Term) (h : ∀ t ∈ ts, groundT t = true) :
    ts.map (renameT k) = ts := by
  induction ts with
  | nil => rfl
  | cons t ts ih =>
    simp only [List.map_cons]
    rw [renameT_ground k t (h t (by simp)), ih (fun t ht => h t (by simp [ht]))]

theorem renameT_a2 (k : Nat) (f : String) (x y : Term) :
    renameT k (Term.a2 f x y) = Term.a2 f (renameT k x) (renameT k y) := by
  simp [Term.a2, renameT, renameA]

theorem renameT_list (k : Nat) (s : Term) : ∀ ts : List Term,
    renameT k (Term.list ts s) = Term.list (ts.map (renameT k)) (renameT k s)
  | [] => by simp [Term.list]
  | t :: ts => by
    have ih := renameT_list k s ts
    simp only [Term.list, List.foldr_cons, List.map_cons] at ih ⊢
    simp [Term.consT, renameT, renameA, ih]

/-- renaming a translated simple body apart = translating with the renamed hidden arguments and
    the shifted supply -/
theorem tr_rename (k : Nat) (b : Body) (hb : b.simple = true) :
    ∀ (i o : Term) (n : Nat), renameT k (b.tr i o n).1 = (b.tr (renameT k i) (renameT k o) (n + k)).1 := by
  induction b with
  | eps => intro i o n; simp [Body.tr, renameT_a2]
  | terminals ts =>
    intro i o n
    simp only [Body.simple, List.all_eq_true] at hb
    simp [Body.tr, renameT_a2, renameT_list, renameL_ground k ts hb]
  | nt f as =>
    intro i o n
    simp only [Body.simple, Bool.and_eq_true, List.isEmpty_iff] at hb
    obtain ⟨rfl, _⟩ := hb
    simp [Body.tr, Term.mk, Args.ofList, renameT, renameA]
  | seq a b iha ihb =>
    intro i o n
    simp only [Body.simple, Bool.and_eq_true] at hb
    simp only [Body.tr, tr_next, renameT_a2, iha hb.1, ihb hb.2]
    simp [renameT, Nat.add_assoc, Nat.add_comm]
  | alt a b iha ihb =>
    intro i o n
    simp only [Body.simple, Bool.and_eq_true] at hb
    simp only [Body.tr, tr_next, renameT_a2, iha hb.1.1, ihb hb.1.2]
    rw [Nat.add_right_comm n a.nhid k]
  | ite c t e ihc iht ihe =>
    intro i o n
    simp only [Body.simple, Bool.and_eq_true] at hb
    simp only [Body.tr, tr_next, renameT_a2, ihc hb.1.1, iht hb.1.2, ihe hb.2]
    simp [renameT, Nat.add_assoc, Nat.add_comm, Nat.add_left_comm]
  | ifthen c t ihc iht =>
    intro i o n
    simp only [Body.simple, Bool.and_eq_true] at hb
    simp only [Body.tr, tr_next, renameT_a2, ihc hb.1, iht hb.2]
    simp [renameT, Nat.add_assoc, Nat.add_comm, Nat.add_left_comm]
  | block g =>
    intro i o n
    simp only [Body.simple, blockGoal, Bool.or_eq_true, beq_iff_eq] at hb
    rcases hb with ((rfl | rfl) | rfl) | rfl <;> simp [Body.tr, renameT_a2, renameT]
  | not b ih =>
    intro i o n
    simp only [Body.simple] at hb
    simp only [Body.tr, renameT_a2, Term.a1, renameT, renameA, ih hb]
    simp [Nat.add_assoc, Nat.add_comm, Nat.add_left_comm]
  | cut => intro i o n; simp [Body.tr, renameT_a2, renameT]
  | _ => simp [Body.simple] at hb

theorem rename_simple (k : Nat) (b : Body) (hb : b.simple = true) : b.rename k = b := by
  induction b with
  | eps => rfl
  | terminals ts =>
    simp only [Body.simple, List.all_eq_true] at hb
    simp [Body.rename, renameL_ground k ts hb]
  | nt f as =>
    simp only [Body.simple, Bool.and_eq_true, List.isEmpty_iff] at hb
    obtain ⟨rfl, _⟩ := hb
    simp [Body.rename]
  | seq a b iha ihb =>
    simp only [Body.simple, Bool.and_eq_true] at hb
    simp [Body.rename, iha hb.1, ihb hb.2]
  | alt a b iha ihb =>
    simp only [Body.simple, Bool.and_eq_true] at hb
    simp [Body.rename, iha hb.1.1, ihb hb.1.2]
  | ite c t e ihc iht ihe =>
    simp only [Body.simple, Bool.and_eq_true] at hb
    simp [Body.rename, ihc hb.1.1, iht hb.1.2, ihe hb.2]
  | ifthen c t ihc iht =>
    simp only [Body.simple, Bool.and_eq_true] at hb
    simp [Body.rename, ihc hb.1, iht hb.2]
  | block g =>
    simp only [Body.simple, blockGoal, Bool.or_eq_true, beq_iff_eq] at hb
    rcases hb with ((rfl | rfl) | rfl) | rfl <;> simp [Body.rename, renameT]
  | not b ih =>
    simp only [Body.simple] at hb
    simp [Body.rename, ih hb]
  | cut => rfl
  | _ => simp [Body.simple] at hb

/-- the clause of a simple rule -/
theorem clause_simple (r : Rule) (hr : r.simple = true) :
    r.clause = { head := .app r.name (.cons (.var 0) (.cons (.var 2) .nil)),
                 body := (r.body.tr (.var 0) (.var 2) 3).1,
                 nv := 3 + r.body.nhid } := by
  simp only [Rule.simple, Bool.and_eq_true, List.isEmpty_iff, Option.isNone_iff_eq_none, beq_iff_eq] at hr
  obtain ⟨⟨⟨⟨ha, hp⟩, _⟩, hn⟩, _⟩ := hr
  simp [Rule.clause, Rule.tr, ha, hp, hn, Term.mk, Args.ofList, Term.a2, tr_next]

/-! ### head unification -/

theorem unify_head (uf : Nat) (huf : 2 ≤ uf) (σ : Subst) (f : String) (x : Term) (l : List Term) (s k : Nat)
    (hx : walk σ x = Term.list l Term.nilT) (hs : ∀ p ∈ σ, p.1 ≠ s)
    (hk : ∀ p ∈ σ, p.1 < k) (hsk : s < k) :
    unify uf σ (.app f (.cons x (.cons (.var s) .nil))) (.app f (.cons (.var k) (.cons (.var (k + 2)) .nil))) =
      .done (some ((s, .var (k + 2)) :: (k, Term.list l Term.nilT) :: σ)) := by
  obtain ⟨j, rfl⟩ : ∃ j, uf = j + 2 := ⟨uf - 2, by omega⟩
  have hk0 : ∀ p ∈ σ, p.1 ≠ k := fun p hp => by have := hk p hp; omega
  have h1 := unify_nonvar_var j σ x _ k hx (isVar_list l) hk0
  have hs1 : ∀ p ∈ (k, Term.list l Term.nilT) :: σ, p.1 ≠ s := by
    intro p hp
    rcases List.mem_cons.1 hp with rfl | hp
    · simp; omega
    · exact hs p hp
  have hk2 : ∀ p ∈ (k, Term.list l Term.nilT) :: σ, p.1 ≠ k + 2 := by
    intro p hp
    rcases List.mem_cons.1 hp with rfl | hp
    · simp
    · have := hk p hp; omega
  have h2 := unify_var_var j ((k, Term.list l Term.nilT) :: σ) s (k + 2) (by omega) hs1 hk2
  unfold unify
  rw [walk_nonvar σ _ rfl, walk_nonvar σ _ rfl]
  simp [unifyArgsWith, h1, h2]

/-! ### rules -/

/-- the statement at one fuel level -/
def LevelSim (cfg : Cfg) (gr : Grammar) (n : Nat) : Prop :=
  ∀ (b : Body), b.simple = true → b.need ≤ cfg.uf →
    ∀ (top : Bool) (st dst : St) (x : Term) (l : List Term) (s m : Nat),
      Pre st x l s m (m + b.nhid) →
      Rel st s m (m + b.nhid) dst (solve cfg.uf (programOf gr) n (b.tr x (.var s) m).1 st)
        (den cfg gr n top b dst (Term.list l Term.nilT))

def RelL (st : St) (s : Nat) (dst : St) : Res (List St) → Res (List (St × Term)) → Prop
  | .error _, .error _ => True
  | .ok A, .ok D => All2 (AnsRel st s 0 0 dst) A D
  | _, _ => False

def GoodRule (cfg : Cfg) (r : Rule) : Prop := r.simple = true ∧ r.body.need ≤ cfg.uf

theorem rules_sim (cfg : Cfg) (huf : 2 ≤ cfg.uf) (gr : Grammar) (n : Nat) (L : LevelSim cfg gr n)
    (f : String) (st dst : St) (x : Term) (l : List Term) (s : Nat) (P : Pre st x l s 0 0) :
    ∀ rules : List Rule, (∀ r ∈ rules, GoodRule cfg r ∧ r.name = f) →
      RelL st s dst
        (tryClauses cfg.uf (solve cfg.uf (programOf gr) n) (.app f (.cons x (.cons (.var s) .nil))) st
          (rules.map Rule.clause))
        (tryRules cfg.uf (den cfg gr n) [] dst (Term.list l Term.nilT) rules) := by
  intro rules
  induction rules with
  | nil => intro _; simp [tryClauses, tryRules, RelL]; exact .nil
  | cons r rs ih =>
    intro hr
    obtain ⟨⟨hsimple, hneed⟩, hname⟩ := hr r (by simp)
    have ih' := ih (fun r' h' => hr r' (by simp [h']))
    have hsimple' := hsimple
    simp only [Rule.simple, Bool.and_eq_true, List.isEmpty_iff, Option.isNone_iff_eq_none, beq_iff_eq] at hsimple'
    obtain ⟨⟨⟨⟨hargs, hpb⟩, hbody⟩, hnv⟩, _⟩ := hsimple'
    -- the reference evaluation: unify the head, run the renamed body
    have hhead := unify_head cfg.uf huf st.σ f x l s st.next P.inp P.sUnb P.wf P.sLt
    have hbodyR : renameT st.next (r.body.tr (.var 0) (.var 2) 3).1 =
        (r.body.tr (.var st.next) (.var (st.next + 2)) (st.next + 3)).1 := by
      rw [tr_rename st.next r.body hbody]
      simp [renameT, Nat.add_comm]
    let σ' : Subst := (s, .var (st.next + 2)) :: (st.next, Term.list l Term.nilT) :: st.σ
    let st2 : St := { σ := σ', next := st.next + (3 + r.body.nhid) }
    have hk0 : ∀ p ∈ st.σ, p.1 ≠ st.next := fun p hp => by have := P.wf p hp; omega
    have Pb : Pre st2 (.var st.next) l (st.next + 2) (st.next + 3) (st.next + 3 + r.body.nhid) := by
      refine ⟨?_, P.gl, ?_, ?_, ?_, ?_, ?_, ?_⟩
      · show walk σ' (.var st.next) = _
        have h1 : walk ((st.next, Term.list l Term.nilT) :: st.σ) (.var st.next) = Term.list l Term.nilT :=
          walk_bind _ _ _ hk0
        rw [walk_bind_other _ _ _ _ (by rw [h1]; cases l <;> simp [Term.list, Term.nilT, Term.consT]), h1]
      · intro p hp
        simp only [st2, σ', List.mem_cons] at hp
        rcases hp with rfl | rfl | hp
        · simp; have := P.sLt; omega
        · simp
        · have := P.wf p hp; omega
      · intro p hp
        simp only [st2, σ', List.mem_cons] at hp
        rcases hp with rfl | rfl | hp
        · simp; have := P.sLt; omega
        · simp; omega
        · have := P.wf p hp; omega
      · simp [st2]; omega
      · simp [st2]; omega
      · omega
      · intro p hp
        simp only [st2, σ', List.mem_cons] at hp
        rcases hp with rfl | rfl | hp
        · simp [st2]; have := P.sLt; omega
        · simp [st2]; omega
        · have := P.wf p hp; simp [st2]; omega
    have hL := L r.body hbody hneed true st2 dst (.var st.next) l (st.next + 2) (st.next + 3) Pb
    -- unfold one step on both sides
    have hden : tryRules cfg.uf (den cfg gr n) [] dst (Term.list l Term.nilT) (r :: rs) =
        (match den cfg gr n true r.body dst (Term.list l Term.nilT) with
         | .error e => .error e
         | .ok o =>
           if o.cut then .ok o.answers
           else match tryRules cfg.uf (den cfg gr n) [] dst (Term.list l Term.nilT) rs with
             | .error e => .error e
             | .ok more => .ok (o.answers ++ more)) := by
      simp [tryRules, hargs, hpb, hnv, unifyList, rename_simple _ _ hbody]
      rfl
    have hsld : tryClauses cfg.uf (solve cfg.uf (programOf gr) n) (.app f (.cons x (.cons (.var s) .nil))) st
          ((r :: rs).map Rule.clause) =
        (match solve cfg.uf (programOf gr) n (r.body.tr (.var st.next) (.var (st.next + 2)) (st.next + 3)).1 st2 with
         | .error e => .error e
         | .ok o =>
           if o.cut then .ok o.answers
           else match tryClauses cfg.uf (solve cfg.uf (programOf gr) n) (.app f (.cons x (.cons (.var s) .nil))) st
                (rs.map Rule.clause) with
             | .error e => .error e
             | .ok more => .ok (o.answers ++ more)) := by
      simp only [List.map_cons, tryClauses, clause_simple r hsimple, renameT, renameA, hname,
        Nat.zero_add, Nat.add_comm 2 st.next, hhead]
      rw [hbodyR]
      rfl
    rw [hden, hsld]
    cases hx : solve cfg.uf (programOf gr) n (r.body.tr (.var st.next) (.var (st.next + 2)) (st.next + 3)).1 st2 with
    | error e =>
      cases hy : den cfg gr n true r.body dst (Term.list l Term.nilT) with
      | error e' => simp [RelL]
      | ok od => simp [hx, hy, Rel] at hL
    | ok o =>
      cases hy : den cfg gr n true r.body dst (Term.list l Term.nilT) with
      | error e' => simp [hx, hy, Rel] at hL
      | ok od =>
        simp only [hx, hy, Rel] at hL
        obtain ⟨c1, hall⟩ := hL
        -- answers of this rule, seen from the caller
        have hconv : All2 (AnsRel st s 0 0 dst) o.answers od.answers := by
          refine hall.imp (fun st' a h => ?_)
          obtain ⟨f1, r', f2, f3, f4, f5⟩ := h
          obtain ⟨n1, w1, Δ, e1, g1⟩ := f5
          have hs2 : ∀ p ∈ (st.next, Term.list l Term.nilT) :: st.σ, p.1 ≠ s := by
            intro p hp
            rcases List.mem_cons.1 hp with rfl | hp
            · simp; have := P.sLt; omega
            · exact P.sUnb p hp
          have hw1 : walk σ' (.var s) = .var (st.next + 2) := walk_bind _ _ _ hs2
          have hw2 : walk σ' (.var (st.next + 2)) = .var (st.next + 2) := walk_unbound _ _ Pb.sUnb
          refine ⟨f1, r', f2, f3, ?_, ?_⟩
          · have e1' : st'.σ = Δ ++ σ' := e1
            rw [e1', walk_append, hw1, ← hw2, ← walk_append, ← e1']
            exact f4
          · have hn2 : st.next + (3 + r.body.nhid) ≤ st'.next := n1
            refine ⟨by omega, w1, Δ ++ [(s, .var (st.next + 2)), (st.next, Term.list l Term.nilT)], ?_, ?_⟩
            · have e1' : st'.σ = Δ ++ σ' := e1
              rw [e1']; simp [σ']
            · intro p hp
              rcases List.mem_append.1 hp with hp | hp
              · have hst2 : st2.next = st.next + (3 + r.body.nhid) := rfl
                rcases g1 p hp with h | h | h
                · exact .inr (.inr ⟨by omega, by omega⟩)
                · exact .inr (.inr ⟨by omega, by omega⟩)
                · exact .inr (.inr ⟨by omega, h.2⟩)
              · simp only [List.mem_cons, List.mem_nil_iff, or_false] at hp
                rcases hp with rfl | rfl
                · exact .inl rfl
                · exact .inr (.inr ⟨Nat.le_refl _, by simp; omega⟩)
        by_cases hc : o.cut = true
        · have hc' : od.cut = true := c1 ▸ hc
          simp only [hc, hc', if_true, RelL]
          exact hconv
        · have hc0 : o.cut = false := by simpa using hc
          have hc' : od.cut = false := c1 ▸ hc0
          simp only [hc0, hc', Bool.false_eq_true, if_false]
          cases hx2 : tryClauses cfg.uf (solve cfg.uf (programOf gr) n) (.app f (.cons x (.cons (.var s) .nil))) st
              (rs.map Rule.clause) with
          | error e =>
            cases hy2 : tryRules cfg.uf (den cfg gr n) [] dst (Term.list l Term.nilT) rs with
            | error e' => simp [RelL]
            | ok more' => simp [hx2, hy2, RelL] at ih'
          | ok more =>
            cases hy2 : tryRules cfg.uf (den cfg gr n) [] dst (Term.list l Term.nilT) rs with
            | error e' => simp [hx2, hy2, RelL] at ih'
            | ok more' =>
              simp only [hx2, hy2, RelL] at ih' ⊢
              exact hconv.append ih'

/-! ### the induction on the fuel -/

theorem filter_clauses (gr : Grammar) (hgr : ∀ r ∈ gr, r.simple = true) (f : String) :
    (programOf gr).filter (fun c => decide (sig c.head = some (f, 2))) =
      (gr.filter (fun r => decide (r.name = f ∧ r.args.length = ([] : List Term).length))).map Rule.clause := by
  unfold programOf
  rw [List.filter_map]
  congr 1
  apply List.filter_congr
  intro r hr
  have hs := hgr r hr
  rw [Function.comp_apply, clause_simple r hs]
  simp only [Rule.simple, Bool.and_eq_true, List.isEmpty_iff] at hs
  simp [sig, Args.length, hs.1.1.1.1]

theorem level_sim (cfg : Cfg) (hcfg : cfg.engine = false) (huf : 2 ≤ cfg.uf) (gr : Grammar)
    (hgr : ∀ r ∈ gr, GoodRule cfg r) : ∀ n, LevelSim cfg gr n := by
  intro n
  induction n with
  | zero => intro b _ _ top st dst x l s m _; simp [solve, den, Rel]
  | succ n ih =>
    intro b hs hn top st dst x l s m P
    show Rel _ _ _ _ _ (solveGoal cfg.uf _ _ st) (denBody cfg _ top b dst _)
    refine body_sim cfg hcfg (by omega) _ _ ?_ b hs hn top st dst x l s m P
    intro f hf st dst x l s P
    have hsig : sig (Term.app f (.cons x (.cons (.var s) .nil))) = some (f, 2) := rfl
    have hfc : f ≠ "call" := by intro h; subst h; simp [reserved] at hf
    simp only []
    split
    · rename_i heq; injection heq with h1 _; exact absurd h1 hfc
    · rename_i heq; injection heq with _ h2; injection h2 with _ h3; injection h3 with _ h4; cases h4
    simp only [hsig]
    rw [filter_clauses gr (fun r hr => (hgr r hr).1) f]
    simp only [List.isEmpty_map]
    split
    · simp [Rel]
    · have hr := rules_sim cfg huf gr n ih f st dst x l s P
        (gr.filter (fun r => decide (r.name = f ∧ r.args.length = ([] : List Term).length)))
        (fun r hr => by
          rw [List.mem_filter] at hr
          exact ⟨hgr r hr.1, by simpa using (of_decide_eq_true hr.2).1⟩)
      cases hx : tryClauses cfg.uf (solve cfg.uf (programOf gr) n)
          (.app f (.cons x (.cons (.var s) .nil))) st
          ((gr.filter (fun r => decide (r.name = f ∧ r.args.length = ([] : List Term).length))).map Rule.clause) with
      | error e =>
        cases hy : tryRules cfg.uf (den cfg gr n) [] dst (Term.list l Term.nilT)
            (gr.filter (fun r => decide (r.name = f ∧ r.args.length = ([] : List Term).length))) with
        | error e' => simp [Rel]
        | ok ds => simp only [hx, hy, RelL] at hr
      | ok as =>
        cases hy : tryRules cfg.uf (den cfg gr n) [] dst (Term.list l Term.nilT)
            (gr.filter (fun r => decide (r.name = f ∧ r.args.length = ([] : List Term).length))) with
        | error e' => simp only [hx, hy, RelL] at hr
        | ok ds =>
          simp only [hx, hy, RelL] at hr
          exact ⟨rfl, hr⟩

/-! ### definitions used to state the property theorems (Properties/C17.lean) -/

/-- the instantiation of the two hidden arguments S0 = `x`, S = `y` of a clause by actual
    arguments `l`, `r` -/
def inst (x : Nat) (l : Term) (y : Nat) (r : Term) : Nat → Term :=
  fun w => if w = x then l else if w = y then r else .var w

/-- the answers of a query, projected on a template: the template under each answer
    substitution, variables renamed by first occurrence -/
def projected (uf : Nat) (tmpl : Term) (sts : List St) : List (Option Term) :=
  sts.map fun st => (resolve uf st.σ tmpl).map Term.canon

/-- a rule whose name and arity, with the two hidden arguments added, is a control construct or
    built-in of the reference evaluation (`'='`//0 would become =/2, …) -/
def clash (f : String) (nargs : Nat) : Bool :=
  (nargs == 0 && [",", ";", "->", "=", "\\=", "==", "\\=="].contains f) || (f == "call" && nargs < 2)

/-- the fragment for which the statement is proved: ISO mode; rules `name --> body` without
    arguments and push-back; bodies from `[]`, ground terminal lists, non-terminals without
    arguments (not named like a control construct), `,` and `;`; a ground input list; enough
    unification fuel for the terminal lists -/
structure SimpleSetting (cfg : Cfg) (gr : Grammar) (b : Body) (l : List Term) : Prop where
  iso : cfg.engine = false
  uf : 2 ≤ cfg.uf
  rules : ∀ r ∈ gr, r.simple = true ∧ r.body.need ≤ cfg.uf
  body : b.simple = true ∧ b.need ≤ cfg.uf
  input : ∀ t ∈ l, groundT t = true

/-- a grammar in the fragment (the D16 witness plus recursion, negation and a condition):
      a --> [x], !, [y].     a --> [x], [z].     a --> \\+ [z], ( b -> [] ; [y] ).
      b --> [x], b ; []. -/
def exampleGrammar : Grammar :=
  let x := Term.atom "x"; let y := Term.atom "y"; let z := Term.atom "z"
  [ { name := "a", args := [], pushback := none, nv := 0,
      body := .seq (.terminals [x]) (.seq .cut (.terminals [y])) },
    { name := "a", args := [], pushback := none, nv := 0,
      body := .seq (.terminals [x]) (.terminals [z]) },
    { name := "a", args := [], pushback := none, nv := 0,
      body := .seq (.not (.terminals [z])) (.ite (.nt "b" []) .eps (.terminals [y])) },
    { name := "b", args := [], pushback := none, nv := 0,
      body := .alt (.seq (.terminals [x]) (.nt "b" [])) .eps } ]

end PrologVerif.Grammar
