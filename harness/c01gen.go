package main

// Generators of the answer streams (see c01.go for the payload format and DESIGN §6 C01/C03/C04 for
// the intended distributions).  Every candidate is screened with the reference interpreter of
// c01ref.go: a candidate whose search exceeds the step/depth/size budget or meets a unification
// subject to occurs check is dropped and another one is drawn (the drop rate is printed on stderr
// when VERIF_GENSTATS is set).

import (
	"fmt"
	"math/rand"
	"os"
	"strconv"
	"strings"
)

func gConj(gs ...*gt) *gt {
	if len(gs) == 0 {
		return gAtom("true")
	}
	t := gs[len(gs)-1]
	for i := len(gs) - 2; i >= 0; i-- {
		t = gApp(",", gs[i], t)
	}
	return t
}

func gDisj(gs ...*gt) *gt {
	t := gs[len(gs)-1]
	for i := len(gs) - 2; i >= 0; i-- {
		t = gApp(";", gs[i], t)
	}
	return t
}

func gClause(h *gt, body ...*gt) *gt {
	if len(body) == 0 {
		return h
	}
	return gApp(":-", h, gConj(body...))
}

// renumber gives a clause (or query) its own variable numbering V0, V1, ... by first occurrence.
func renumber(t *gt) *gt { return refCanon(t, 0, map[int]int{}) }

func answersPayload(max int, query *gt, prog []*gt) string {
	parts := []string{strconv.Itoa(max), renumber(query).String()}
	for _, c := range prog {
		parts = append(parts, renumber(c).String())
	}
	return strings.Join(parts, " | ")
}

type genStats struct{ tried, steps, depth, sto, size int }

func (s *genStats) screen(prog []*gt, query *gt, max int) bool {
	s.tried++
	q := renumber(query)
	p := make([]*gt, len(prog))
	for i, c := range prog {
		p[i] = renumber(c)
	}
	why := refSolveQuery(p, q, max, false).abort
	if why != "" && os.Getenv("VERIF_GENSTATS") == "2" {
		fmt.Fprintf(os.Stderr, "DROP %s %s\n", why, answersPayload(max, query, prog))
	}
	switch why {
	case "":
		return true
	case "steps":
		s.steps++
	case "depth":
		s.depth++
	case "sto":
		s.sto++
	case "size":
		s.size++
	}
	return false
}

func (s *genStats) report(name string) {
	if os.Getenv("VERIF_GENSTATS") != "" {
		fmt.Fprintf(os.Stderr, "%s: candidates=%d dropped: steps=%d depth=%d sto=%d size=%d\n", name, s.tried, s.steps, s.depth, s.sto, s.size)
	}
}

// ---------------------------------------------------------------------------
// c01.answers: pure programs
// ---------------------------------------------------------------------------

type c01Pred struct {
	name  string
	arity int
	kind  int // 0 plain, 1 recursion over a list in the first argument, 2 over a peano numeral
}

type c01Gen struct {
	r     *rand.Rand
	preds []c01Pred
	nvars int // variables of the clause under construction
	pvar  int // share (percent) of variables among generated argument terms
	used  bool // the helper predicates or/2 and/2 or2/2 and2/2 are called
}

func (g *c01Gen) newVar() *gt { g.nvars++; return gVar(g.nvars - 1) }

// variable: shared with probability 1/2
func (g *c01Gen) variable() *gt {
	if g.nvars > 0 && g.r.Intn(2) == 0 {
		return gVar(g.r.Intn(g.nvars))
	}
	return g.newVar()
}

func (g *c01Gen) atomic() *gt {
	if g.r.Intn(3) == 0 {
		return gInt(int64(g.r.Intn(3)))
	}
	return gAtom(pick(g.r, []string{"a", "b", "c"}))
}

func (g *c01Gen) term(d int) *gt {
	if g.r.Intn(100) < g.pvar {
		return g.variable()
	}
	k := g.r.Intn(100)
	switch {
	case k < 45 || d <= 0:
		return g.atomic()
	case k < 57:
		return gApp("f", g.term(d-1))
	case k < 61: // the same name with another arity: f/2, g/1, g/3
		return gApp("f", g.term(d-1), g.term(d-1))
	case k < 70:
		return gApp("g", g.term(d-1), g.term(d-1))
	case k < 72:
		return gApp("g", g.term(d-1))
	case k < 74:
		return gApp("g", g.term(d-1), g.term(d-1), g.term(d-1))
	default:
		return g.list(d-1, g.r.Intn(4) == 0)
	}
}

func (g *c01Gen) list(d int, partial bool) *gt {
	n := g.r.Intn(4)
	if g.r.Intn(25) == 0 {
		return g.longList(partial)
	}
	es := make([]*gt, n)
	for i := range es {
		es[i] = g.term(d)
	}
	if partial {
		return gList(es, g.variable())
	}
	return gList(es, gAtom("[]"))
}

// longList: a long literal (the engine treats lists beyond 8 elements differently in places): mostly
// constants, clause variables INSIDE compound elements, in half of them also as elements
func (g *c01Gen) longList(partial bool) *gt {
	n := 9 + g.r.Intn(6)
	es := make([]*gt, n)
	bare := g.r.Intn(2) == 0
	for i := range es {
		switch k := g.r.Intn(10); {
		case k == 0 || i == n/2:
			es[i] = gApp("f", g.variable())
		case k == 1:
			es[i] = gApp("g", g.variable(), g.atomic())
		case k == 2 && bare:
			es[i] = g.variable()
		case k == 3:
			es[i] = gList([]*gt{g.atomic()}, gAtom("[]"))
		default:
			es[i] = g.atomic()
		}
	}
	if partial {
		return gList(es, g.variable())
	}
	return gList(es, gAtom("[]"))
}

func peano(n int) *gt {
	t := gAtom("z")
	for i := 0; i < n; i++ {
		t = gApp("s", t)
	}
	return t
}

func (g *c01Gen) args(n, d int) []*gt {
	as := make([]*gt, n)
	for i := range as {
		as[i] = g.term(d)
	}
	return as
}

// callTo builds a call of predicate p; a recursive predicate gets a bounded first argument most of the time.
func (g *c01Gen) callTo(p c01Pred, d int, bounded bool) *gt {
	as := g.args(p.arity, d)
	if p.arity > 0 && bounded {
		switch p.kind {
		case 1:
			as[0] = g.list(1, false)
		case 2:
			as[0] = peano(g.r.Intn(4))
		}
	}
	if p.kind == 3 {
		as[0] = g.keyList(true)
		if g.r.Intn(3) > 0 {
			as[1] = g.variable()
		}
	}
	return refMk(p.name, as)
}

// keyList: a short list over a two-letter (or two-code) alphabet, so that keys of facts and of calls
// coincide often; in a call it may be partial, contain a variable, or be a variable
func (g *c01Gen) keyList(call bool) *gt {
	n := 1 + g.r.Intn(3)
	es := make([]*gt, n)
	codes := g.r.Intn(3) == 0
	for i := range es {
		if codes {
			es[i] = gInt(int64(1 + g.r.Intn(2)))
		} else {
			es[i] = gAtom(pick(g.r, []string{"a", "b"}))
		}
	}
	if call {
		switch g.r.Intn(8) {
		case 0:
			return g.variable()
		case 1:
			return gList(es[:1+g.r.Intn(n)], g.variable())
		case 2:
			es[g.r.Intn(n)] = g.variable()
		}
	}
	return gList(es, gAtom("[]"))
}

// goal of a clause body / query. from = lowest predicate index that may be called (keeps plain
// predicates acyclic most of the time).
func (g *c01Gen) goal(from, d int) *gt {
	k := g.r.Intn(100)
	userCall := func() *gt {
		lo := from
		if g.r.Intn(20) == 0 {
			lo = 0 // unguarded (possibly recursive) call: screened by the step budget
		}
		if lo >= len(g.preds) {
			return gApp("=", g.variable(), g.term(2))
		}
		p := g.preds[lo+g.r.Intn(len(g.preds)-lo)]
		return g.callTo(p, 2, g.r.Intn(16) > 0)
	}
	switch {
	case k < 40:
		return userCall()
	case k < 52:
		if g.r.Intn(6) == 0 {
			// a structure built in the body around the clause's variables and handed out through one of them
			return gApp("=", g.variable(), g.longList(g.r.Intn(8) == 0))
		}
		return gApp("=", g.variable(), g.term(2))
	case k < 55:
		return gApp("between", gInt(int64(g.r.Intn(2))), gInt(int64(1+g.r.Intn(2))), g.variable())
	case k < 65:
		return gApp("member", g.term(1), g.list(1, g.r.Intn(20) == 0))
	case k < 73:
		switch g.r.Intn(3) {
		case 0:
			return gApp("append", g.variable(), g.variable(), g.list(1, false))
		case 1:
			return gApp("append", g.list(1, false), g.term(1), g.variable())
		default:
			if g.r.Intn(4) > 0 {
				return gApp("append", g.list(1, false), g.list(1, false), g.term(1))
			}
			return gApp("append", g.term(1), g.list(1, false), g.term(1))
		}
	case k < 81 && d > 0:
		return gApp(";", g.goal(from, d-1), g.goal(from, d-1))
	case k < 87 && d > 0:
		return gApp(",", g.goal(from, d-1), g.goal(from, d-1))
	case k < 97:
		// call/N
		switch g.r.Intn(4) {
		case 0:
			return refCall1(g.goal(from, 0))
		case 1:
			return gApp("call", gAtom("member"), g.term(1), g.list(1, false))
		case 2:
			return gApp("call", gApp("=", g.term(1)), g.term(1))
		default:
			// a partially applied user closure
			c := userCall()
			f, as, _ := refFunctor(c)
			if len(as) == 0 {
				return refCall1(c)
			}
			cut := g.r.Intn(len(as))
			return gApp("call", append([]*gt{refMk(f, as[:cut])}, as[cut:]...)...)
		}
	default:
		// goals and control constructs passed through variables that are bound only at call time
		v := g.newVar()
		g.used = true
		switch g.r.Intn(6) {
		case 0:
			return gConj(gApp("=", v, g.goal(from, 0)), refCall1(v))
		case 1:
			return gConj(gApp("=", v, gApp(",", g.goal(from, 0), g.goal(from, 0))), refCall1(gApp(",", v, g.goal(from, 0))))
		case 2:
			return gConj(gApp("=", v, gApp(";", g.goal(from, 0), g.goal(from, 0))), refCall1(gApp(";", v, g.goal(from, 0))))
		case 3:
			return gApp(pick(g.r, []string{"or", "or2"}), g.goal(from, 1), g.goal(from, 0))
		case 4:
			return gApp(pick(g.r, []string{"and", "and2"}), g.goal(from, 1), g.goal(from, 0))
		default:
			return gConj(gApp("=", v, gApp(";", g.goal(from, 0), g.goal(from, 0))), gApp(",", v, g.goal(from, 0)))
		}
	}
}

func (g *c01Gen) body(from, max int) []*gt {
	n := g.r.Intn(max + 1)
	gs := make([]*gt, n)
	for i := range gs {
		gs[i] = g.goal(from, 2)
	}
	return gs
}

func (g *c01Gen) clausesOf(i int) []*gt {
	p := g.preds[i]
	var out []*gt
	n := 1 + g.r.Intn(4)
	if p.kind == 3 {
		// a table keyed by text: w(Key, Value) facts (and a rule) whose first argument is a proper list
		// of characters / codes - the runner stores some of them as double-quoted strings
		for c := 0; c < n+1; c++ {
			g.nvars = 0
			h := refMk(p.name, []*gt{g.keyList(false), g.atomic()})
			if c == n && g.r.Intn(2) == 0 {
				out = append(out, gClause(h, g.body(i+1, 1)...))
			} else {
				out = append(out, gClause(h))
			}
		}
		return out
	}
	if p.kind == 0 || p.arity == 0 {
		for c := 0; c < n; c++ {
			g.nvars = 0
			if p.arity >= 2 && g.r.Intn(8) == 0 {
				// a record constructor: distinct head variables, the first one bound in the body to a long
				// literal built around the others
				as := make([]*gt, p.arity)
				for j := range as {
					as[j] = g.newVar()
				}
				l := g.longList(false)
				out = append(out, gClause(refMk(p.name, as), append([]*gt{gApp("=", as[0], l)}, g.body(i+1, 1)...)...))
				continue
			}
			h := refMk(p.name, g.args(p.arity, 2))
			out = append(out, gClause(h, g.body(i+1, 3)...))
		}
		return out
	}
	// structural recursion: base clause(s) and recursive clause(s), descending on the first argument
	if n < 2 {
		n = 2
	}
	for c := 0; c < n; c++ {
		g.nvars = 0
		as := g.args(p.arity, 2)
		if c == 0 || (c > 1 && g.r.Intn(2) == 0) {
			if p.kind == 1 {
				as[0] = gAtom("[]")
			} else {
				as[0] = gAtom("z")
			}
			out = append(out, gClause(refMk(p.name, as), g.body(i+1, 1)...))
			continue
		}
		rest := g.newVar()
		if p.kind == 1 {
			as[0] = gApp(".", g.term(1), rest)
		} else {
			as[0] = gApp("s", rest)
		}
		// the recursive call: to itself or to another predicate recursing over the same kind of structure
		q := p
		if g.r.Intn(4) == 0 {
			var same []c01Pred
			for _, o := range g.preds {
				if o.kind == p.kind && o.arity > 0 {
					same = append(same, o)
				}
			}
			q = pick(g.r, same)
		}
		ras := g.args(q.arity, 1)
		ras[0] = rest
		body := g.body(i+1, 2)
		body = append(body, refMk(q.name, ras))
		if g.r.Intn(4) == 0 {
			body = append(body, g.goal(i+1, 1))
		}
		out = append(out, gClause(refMk(p.name, as), body...))
	}
	return out
}

func (g *c01Gen) program() []*gt {
	g.pvar = 30 + g.r.Intn(40)
	np := 2 + g.r.Intn(4)
	g.preds = nil
	for i := 0; i < np; i++ {
		p := c01Pred{name: "p" + strconv.Itoa(i), arity: g.r.Intn(4)}
		if p.arity > 0 {
			switch k := g.r.Intn(10); {
			case k < 3:
				p.kind = 1
			case k < 5:
				p.kind = 2
			}
		}
		g.preds = append(g.preds, p)
	}
	if g.r.Intn(3) == 0 {
		g.preds = append(g.preds, c01Pred{name: "w", arity: 2, kind: 3})
	}
	var prog []*gt
	for i := range g.preds {
		prog = append(prog, g.clausesOf(i)...)
	}
	return prog
}

func (g *c01Gen) query() *gt {
	g.nvars = 0
	g.pvar = 40 + g.r.Intn(40)
	n := 1 + g.r.Intn(3)
	gs := make([]*gt, n)
	for i := range gs {
		if g.r.Intn(4) > 0 {
			p := g.preds[g.r.Intn(len(g.preds))]
			gs[i] = g.callTo(p, 2, g.r.Intn(8) > 0)
		} else {
			gs[i] = g.goal(0, 2)
		}
	}
	if n > 1 && g.r.Intn(6) == 0 {
		return gDisj(gs...)
	}
	return gConj(gs...)
}

func genC01Answers(r *rand.Rand, n int, tier string) []string {
	var out []string
	var st genStats
	g := &c01Gen{r: r}
	for len(out) < n {
		g.used = false
		prog := g.program()
		// several queries per program
		for k := 0; k < 3 && len(out) < n; k++ {
			q := g.query()
			max := pick(r, []int{1, 2, 3, 5, 8, 8, 8, 12})
			full := prog
			if g.used {
				full = append(append([]*gt{}, prog...), ctlHelpers...)
			}
			if st.screen(full, q, max) {
				out = append(out, answersPayload(max, q, full))
			}
		}
	}
	st.report("c01.answers")
	return out
}

// ---------------------------------------------------------------------------
// c03.answers: control skeletons
// ---------------------------------------------------------------------------

// control constructs reached through variables that are bound only at call time:
//   or(A,B) :- call((A;B)).   and(A,B) :- call((A,B)).   or2(A,B) :- A ; B.   and2(A,B) :- A, B.
// or((C -> T), E) must behave as if-then-else (the body of call/1 is inspected when it is called),
// or2((C -> T), E) as the disjunction of call((C -> T)) and call(E) (the clause was split when stored).
var ctlHelpers = []*gt{
	gApp(":-", gApp("or", gVar(0), gVar(1)), refCall1(gApp(";", gVar(0), gVar(1)))),
	gApp(":-", gApp("and", gVar(0), gVar(1)), refCall1(gApp(",", gVar(0), gVar(1)))),
	gApp(":-", gApp("or2", gVar(0), gVar(1)), gApp(";", gVar(0), gVar(1))),
	gApp(":-", gApp("and2", gVar(0), gVar(1)), gApp(",", gVar(0), gVar(1))),
	// a goal parameter as ONE conjunct of a conjunction written inside call/1: the whole conjunction is
	// the body call/1 converts when it is called, so a cut G is bound to by then cuts a/1's alternatives
	gApp(":-", gApp("ag", gVar(0), gVar(1)), refCall1(gApp(",", gApp("a", gVar(1)), gVar(0)))),
	gApp(":-", gApp("ga", gVar(0), gVar(1)), refCall1(gApp(",", gVar(0), gApp("a", gVar(1))))),
	gApp(":-", gApp("aga", gVar(0), gVar(1), gVar(2)), refCall1(gApp(",", gApp("a", gVar(1)), gApp(",", gVar(0), gApp("b", gVar(2)))))),
}

var c03Facts = []*gt{
	gApp("a", gInt(1)), gApp("a", gInt(2)), gApp("a", gInt(3)),
	gApp("b", gInt(1)), gApp("b", gInt(2)),
}

// variables of a skeleton clause: X Y, three markers, the counter of the recursive predicate, locals
const (
	c03X = iota
	c03Y
	c03M0
	c03M1
	c03M2
	c03N
	c03L
)

type c03Gen struct {
	r       *rand.Rand
	clause  int  // index of the clause under construction (marker value)
	marker  int  // next unused marker variable
	local   int  // next unused local variable
	recPred bool // the program has the recursive predicate u/2
	inU     bool // building a clause of u/2 (the recursive call is available)
	used    bool // the helper predicates or/2 and/2 or2/2 and2/2 are called
}

func (g *c03Gen) xy() *gt { return gVar(g.r.Intn(2)) }

// simple goal without cut
func (g *c03Gen) simple() *gt {
	switch k := g.r.Intn(100); {
	case k < 3:
		return gAtom("true")
	case k < 8:
		return gAtom("fail")
	case k < 12:
		switch g.r.Intn(4) {
		case 0:
			return gApp("var", g.xy())
		case 1:
			return gApp("nonvar", g.xy())
		case 2:
			return gApp("\\=", g.xy(), gInt(int64(1+g.r.Intn(2))))
		default:
			return gApp("between", gInt(1), gInt(int64(2+g.r.Intn(2))), g.xy())
		}
	case k < 37:
		return gApp("a", g.xy())
	case k < 55:
		return gApp("b", g.xy())
	case k < 67:
		return gApp("==", g.xy(), gInt(int64(1+g.r.Intn(3))))
	case k < 73:
		return gApp("\\==", g.xy(), gInt(int64(1+g.r.Intn(2))))
	case k < 79:
		return gApp("=", g.xy(), gInt(int64(1+g.r.Intn(3))))
	case k < 91:
		if g.marker <= c03M2 {
			g.marker++
			return gApp("=", gVar(g.marker-1), gInt(int64(g.clause)))
		}
		return gAtom("true")
	default:
		if g.recPred && !g.inU {
			return gApp("u", peano(1+g.r.Intn(2)), g.xy())
		}
		return gApp("a", g.xy())
	}
}

// conjunction of 1..3 goals; withCut: may contain `!` as a direct conjunct
func (g *c03Gen) seq(d int, withCut bool) *gt {
	n := 1 + g.r.Intn(2) + g.r.Intn(2)
	gs := make([]*gt, n)
	forced := -1
	if withCut && g.r.Intn(2) == 0 {
		if n < 2 {
			n, gs = 2, make([]*gt, 2)
		}
		forced = 1 + g.r.Intn(n-1) // a cut after at least one goal
	}
	for i := range gs {
		if i == forced || (withCut && g.r.Intn(5) == 0) {
			gs[i] = gAtom("!")
		} else {
			gs[i] = g.item(d, withCut)
		}
	}
	return gConj(gs...)
}

// a goal: simple, or a control construct over sub-conjunctions. opaque: cuts may be placed inside
// nested constructs (where they are local in the engine under verification).
func (g *c03Gen) item(d int, opaque bool) *gt {
	if d <= 0 || g.r.Intn(100) < 70 {
		return g.simple()
	}
	cutIn := opaque && g.r.Intn(3) > 0 // a cut inside a nested branch / left-nested conjunction
	if g.r.Intn(5) == 0 {
		return g.viaVar(d, cutIn)
	}
	switch k := g.r.Intn(100); {
	case k < 22:
		return refCall1(g.seq(d-1, true)) // call/1 with a cut inside: local by definition
	case k < 34:
		if g.r.Intn(3) == 0 {
			// the goal FAILS AFTER its cut has run: the cut is local to \+, which therefore succeeds
			last := gAtom("fail")
			switch g.r.Intn(3) {
			case 0:
				last = gApp("==", g.xy(), gInt(3))
			case 1:
				last = g.simple()
			}
			if g.r.Intn(2) == 0 {
				return gApp("\\+", gConj(gAtom("!"), last))
			}
			return gApp("\\+", gConj(g.simple(), gAtom("!"), last))
		}
		return gApp("\\+", g.seq(d-1, g.r.Intn(3) == 0))
	case k < 46:
		return gApp("once", g.seq(d-1, g.r.Intn(3) == 0))
	case k < 58:
		return gApp("->", g.seq(d-1, g.r.Intn(4) == 0), g.seq(d-1, cutIn))
	case k < 74:
		return refITE(g.seq(d-1, g.r.Intn(4) == 0), g.seq(d-1, cutIn), g.seq(d-1, cutIn))
	case k < 86:
		return gApp(";", g.seq(d-1, cutIn), g.seq(d-1, cutIn)) // nested disjunction
	case k < 93:
		// left-nested conjunctions, one to three levels deep: transparent to cut at every depth
		t := gApp(",", g.seq(d-1, cutIn || g.r.Intn(2) == 0), g.simple())
		for extra := g.r.Intn(3); extra > 0; extra-- {
			t = gApp(",", t, g.simple())
		}
		return t
	default:
		g.local++
		l := gVar(g.local - 1)
		if g.marker <= c03M2 {
			g.marker++
			return gConj(gApp("findall", g.xy(), g.seq(d-1, true), l), gApp("=", gVar(g.marker-1), l))
		}
		return gApp("findall", g.xy(), g.seq(d-1, true), l)
	}
}

// a condition that succeeds most of the time (so that wrongly running an else branch shows)
func (g *c03Gen) cond() *gt {
	switch g.r.Intn(6) {
	case 0:
		return gAtom("true")
	case 1:
		return gApp("==", g.xy(), gInt(int64(1+g.r.Intn(2))))
	case 2:
		return gAtom("fail")
	default:
		return gApp(pick(g.r, []string{"a", "b"}), g.xy())
	}
}

// a goal that publishes that it ran
func (g *c03Gen) trace(d int) *gt {
	if g.marker <= c03M2 {
		g.marker++
		return gApp("=", gVar(g.marker-1), gInt(int64(10*g.clause+g.r.Intn(10))))
	}
	return gApp("=", g.xy(), gInt(int64(1+g.r.Intn(3))))
}

// control constructs that reach ; , -> through a variable bound at call time
func (g *c03Gen) viaVar(d int, cutIn bool) *gt {
	g.used = true
	ifThen := gApp("->", g.cond(), g.trace(d))
	els := g.trace(d)
	if g.r.Intn(3) == 0 {
		els = g.seq(d-1, cutIn)
	}
	newV := func() *gt { g.local++; return gVar(g.local - 1) }
	cutGoal := func() *gt {
		switch g.r.Intn(4) {
		case 0:
			return gAtom("!")
		case 1:
			return gConj(gApp("==", g.xy(), gInt(int64(1+g.r.Intn(3)))), gAtom("!"))
		case 2:
			return gConj(gAtom("!"), g.simple())
		default:
			return g.seq(d-1, true)
		}
	}
	switch g.r.Intn(15) {
	case 11:
		return gApp("ag", cutGoal(), g.xy())
	case 12:
		return gApp("ga", cutGoal(), g.xy())
	case 13:
		return gApp("aga", cutGoal(), gVar(c03X), gVar(c03Y))
	case 14:
		return gApp("and", gApp(pick(g.r, []string{"a", "b"}), g.xy()), cutGoal())
	case 0:
		return gApp("or", ifThen, els) // if-then-else assembled inside call/1
	case 1:
		return gApp("or2", ifThen, els) // disjunction of a stored clause: call((C -> T)) ; call(E)
	case 2:
		v := newV()
		return gConj(gApp("=", v, ifThen), refCall1(gApp(";", v, els)))
	case 3:
		v := newV()
		return gConj(gApp("=", v, ifThen), gApp(";", v, els)) // ;/2 reached as a goal with its left argument bound by now
	case 4:
		v := newV()
		return gConj(gApp("=", v, g.seq(d-1, cutIn)), refCall1(gApp(",", v, g.simple())))
	case 5:
		return gApp(pick(g.r, []string{"and", "and2"}), g.seq(d-1, cutIn), g.simple())
	case 6:
		v, l := newV(), newV()
		return gConj(gApp("=", v, ifThen), gApp("findall", g.xy(), gApp(";", v, els), l))
	case 7:
		v := newV()
		return gConj(gApp("=", v, ifThen), gApp("\\+", gApp(";", v, gAtom("fail"))))
	case 8:
		v := newV()
		return gConj(gApp("=", v, ifThen), gApp("catch", gApp(";", v, els), newV(), gAtom("true")))
	case 9:
		v := newV()
		return gConj(gApp("=", v, gApp(";", g.seq(d-1, cutIn), g.simple())), refCall1(gApp(";", v, els)))
	default:
		return gApp("or", g.seq(d-1, cutIn), els)
	}
}

// body of a clause: direct conjuncts with cuts in the claimed placements, possibly split into
// top-level disjuncts; opaque placements of cut in a share of the bodies
func (g *c03Gen) body() *gt {
	opaque := g.r.Intn(3) == 0
	conj := func() *gt {
		n := g.r.Intn(3) + g.r.Intn(3)
		var gs []*gt
		for i := 0; i < n; i++ {
			switch k := g.r.Intn(100); {
			case k < 24:
				gs = append(gs, gAtom("!"))
			case k < 30 && g.inU:
				gs = append(gs, gApp("u", gVar(c03N), g.xy()))
			default:
				gs = append(gs, g.item(1+g.r.Intn(2), opaque))
			}
		}
		return gConj(gs...)
	}
	switch k := g.r.Intn(10); {
	case k < 7:
		return conj()
	case k < 9:
		return gDisj(conj(), conj())
	default:
		return gDisj(conj(), conj(), conj())
	}
}

func (g *c03Gen) program() []*gt {
	prog := g.program1()
	if g.used {
		prog = append(prog, ctlHelpers...)
	}
	return prog
}

func (g *c03Gen) program1() []*gt {
	g.used = false
	g.recPred = g.r.Intn(3) == 0
	prog := append([]*gt{}, c03Facts...)
	nc := 1 + g.r.Intn(3)
	for c := 0; c < nc; c++ {
		g.clause, g.marker, g.local, g.inU = c+1, c03M0, c03L, false
		h := gApp("t", gVar(c03X), gVar(c03Y), gApp("m", gVar(c03M0), gVar(c03M1), gVar(c03M2)))
		if g.r.Intn(6) == 0 { // a clause with a more specific head
			h = gApp("t", gInt(int64(1+g.r.Intn(3))), gVar(c03Y), gApp("m", gVar(c03M0), gVar(c03M1), gVar(c03M2)))
		}
		prog = append(prog, gApp(":-", h, g.body()))
	}
	if g.recPred {
		// u(s(N), X) :- ... u(N, X) ...  ;  u(z, X) :- ...   (cut + recursion)
		g.inU = true
		for c := 0; c < 1+g.r.Intn(2); c++ {
			g.clause, g.marker, g.local = 7+c, c03M2+1, c03L // no markers inside u
			prog = append(prog, gApp(":-", gApp("u", gApp("s", gVar(c03N)), gVar(c03X)), g.body()))
		}
		g.clause, g.marker, g.local = 9, c03M2+1, c03L
		g.inU = false
		base := gApp("u", gAtom("z"), gVar(c03X))
		if g.r.Intn(2) == 0 {
			prog = append(prog, gApp(":-", base, g.body()))
		} else {
			prog = append(prog, base)
		}
		if g.r.Intn(2) == 0 { // base clause first
			k := len(prog) - 1
			first := len(c03Facts) + nc
			b := prog[k]
			copy(prog[first+1:], prog[first:k])
			prog[first] = b
		}
	}
	return prog
}

func (g *c03Gen) query() *gt {
	t := gApp("t", gVar(0), gVar(1), gVar(2))
	z, w := gVar(3), gVar(4)
	switch k := g.r.Intn(100); {
	case k < 40:
		return t
	case k < 52:
		return gConj(t, gApp("a", z)) // the continuation backtracks into t
	case k < 64:
		return gConj(gApp("b", z), t) // older choice points must survive
	case k < 72:
		return gConj(gApp("findall", gApp("-", gVar(0), gVar(1)), t, w))
	case k < 78:
		return gConj(refCall1(t), gApp("b", z))
	case k < 84:
		return refITE(t, gApp("=", z, gAtom("yes")), gApp("=", z, gAtom("no")))
	case k < 90:
		return gConj(gApp("=", gVar(0), gInt(int64(1+g.r.Intn(3)))), t)
	case k < 95:
		return gConj(gApp("\\+", t))
	default:
		return gConj(gApp("once", t), gApp("a", z))
	}
}

// the alphabet and the programs of the exhaustive enumeration: two clauses t(X,Y) :- Body with
// bodies of 0..3 goals over the alphabet, followed by the fact t(0,0)
func c03Alphabet() []*gt {
	x, y := gVar(0), gVar(1)
	return []*gt{
		gAtom("!"), gAtom("fail"), gApp("a", x), gApp("b", y),
		gApp("==", x, gInt(2)), gApp("==", y, gInt(2)), gApp("once", gApp("a", x)),
	}
}

func c03Bodies(maxLen int) [][]*gt {
	al := c03Alphabet()
	out := [][]*gt{{}}
	level := [][]*gt{{}}
	for l := 1; l <= maxLen; l++ {
		var next [][]*gt
		for _, b := range level {
			for _, a := range al {
				nb := append(append([]*gt{}, b...), a)
				next = append(next, nb)
			}
		}
		out = append(out, next...)
		level = next
	}
	return out
}

func c03Exhaustive(part, parts int) []string {
	bodies := c03Bodies(3)
	h := gApp("t", gVar(0), gVar(1))
	q := gApp("t", gVar(0), gVar(1))
	var out []string
	k := 0
	for _, b1 := range bodies {
		for _, b2 := range bodies {
			k++
			if k%parts != part {
				continue
			}
			prog := append(append([]*gt{}, c03Facts...), gClause(h, b1...), gClause(h, b2...), gApp("t", gInt(0), gInt(0)))
			out = append(out, answersPayload(20, q, prog))
		}
	}
	return out
}

func genC03Answers(r *rand.Rand, n int, tier string) []string {
	var out []string
	var st genStats
	if tier == "thorough" {
		// the enumeration is split over three consecutive seeds (bin/check runs the thorough tier
		// with seeds s, s+1, s+2); without a -seed argument the whole enumeration is produced
		part, parts := 0, 1
		for i, a := range os.Args {
			if (a == "-seed" || a == "--seed") && i+1 < len(os.Args) {
				if sd, err := strconv.Atoi(os.Args[i+1]); err == nil {
					part, parts = ((sd%3)+3)%3, 3
				}
			}
		}
		out = append(out, c03Exhaustive(part, parts)...)
	}
	g := &c03Gen{r: r}
	for k := 0; k < n; {
		prog := g.program()
		// a third of the programs get a WIDER t: 2..7 further (unused, distinct) arguments in the head
		// and in every call, so that heads of 9..14 instructions and calls with many variables occur
		pad := 0
		if r.Intn(3) == 0 {
			pad = 2 + r.Intn(6)
			for ci, cl := range prog {
				prog[ci] = padPred(cl, "t", 3, pad)
			}
		}
		for j := 0; j < 2 && k < n; j++ {
			q := g.query()
			if pad > 0 {
				q = padPred(q, "t", 3, pad)
			}
			max := pick(r, []int{1, 3, 30, 30, 30, 30})
			if st.screen(prog, q, max) {
				out = append(out, answersPayload(max, q, prog))
				k++
			}
		}
	}
	st.report("c03.answers")
	return out
}

// padPred gives every occurrence of name/arity in the clause (or query) t `k` further arguments:
// fresh variables, distinct from each other and from every variable of t.
func padPred(t *gt, name string, arity, k int) *gt {
	next := gtMaxVar(t) + 1
	var walk func(t *gt) *gt
	walk = func(t *gt) *gt {
		if t.kind != "app" {
			return t
		}
		args := make([]*gt, len(t.args), len(t.args)+k)
		for i, a := range t.args {
			args[i] = walk(a)
		}
		if t.s == name && len(t.args) == arity {
			for i := 0; i < k; i++ {
				args = append(args, gVar(next))
				next++
			}
		}
		return gApp(t.s, args...)
	}
	return walk(t)
}

func gtMaxVar(t *gt) int {
	m := -1
	if t.kind == "var" && t.v > m {
		m = t.v
	}
	for _, a := range t.args {
		if v := gtMaxVar(a); v > m {
			m = v
		}
	}
	return m
}

// ---------------------------------------------------------------------------
// c04.answers: catch / throw
// ---------------------------------------------------------------------------

// variables of a clause: X Y R are the head arguments; locals are numbered from c04Local
const (
	c04X = iota
	c04Y
	c04R
	c04Local
)

type c04Gen struct {
	useCN     bool // the helper cn(G) :- call_nth(G, 1). is called
	r         *rand.Rand
	local     int
	mark      int
	hasQ      bool
	protected bool // generating the goal of some catch/3
}

func (g *c04Gen) xy() *gt     { return gVar(g.r.Intn(2)) }
func (g *c04Gen) newLocal() *gt { g.local++; return gVar(g.local - 1) }

func (g *c04Gen) ball() *gt {
	switch k := g.r.Intn(100); {
	case k < 25:
		return gAtom("b1")
	case k < 40:
		return gAtom("b2")
	case k < 70:
		return gApp("bb", g.xy()) // shares a variable with the goal
	case k < 80:
		return gApp("bb", gInt(int64(1+g.r.Intn(2))))
	case k < 88:
		return gApp("bb", g.newLocal()) // an unbound variable inside the ball
	case k < 91:
		return gApp("error", gAtom("my_error"), gAtom("my_context"))
	case k < 95:
		// a user ball of the shape error(Formal, _): the context stays the (copied) variable
		return gApp("error", gAtom("my_error"), g.newLocal())
	default:
		return g.newLocal() // throw(_): instantiation error
	}
}

// a goal that raises (or may raise) an error of a built-in predicate or of the engine
func (g *c04Gen) errGoal() *gt {
	switch g.r.Intn(9) {
	case 0:
		return gAtom("undefined_pred")
	case 1:
		return gApp("undefined_pred", g.xy())
	case 2:
		return gApp("atom_length", gInt(1), g.newLocal())
	case 3:
		return gApp("atom_length", g.xy(), g.newLocal()) // instantiation error or type error, depending on the binding
	case 4:
		return refCall1(gInt(1))
	case 5:
		return refCall1(g.xy()) // instantiation error / type_error(callable, 1)
	case 6:
		return gApp("between", gAtom("a"), gInt(2), g.newLocal())
	case 7:
		return gApp("atom_length", gAtom("abc"), gAtom("x"))
	default:
		return refCall1(gApp(",", gAtom("fail"), gInt(1)))
	}
}

func (g *c04Gen) leaf() *gt {
	k := g.r.Intn(100)
	if k >= 60 && k < 88 && !g.protected && g.r.Intn(3) > 0 {
		k = g.r.Intn(60) // outside every catch/3 most throws are replaced by ordinary goals
	}
	switch {
	case k < 26:
		return gApp("a", g.xy())
	case k < 40:
		return gApp("b", g.xy())
	case k < 46:
		return gApp("==", g.xy(), gInt(int64(1+g.r.Intn(3))))
	case k < 54:
		g.mark++
		return gApp("=", gVar(c04R), gApp("k", gInt(int64(g.mark))))
	case k < 57:
		return gAtom("true")
	case k < 58 && g.r.Intn(2) == 0:
		// call_nth(G, 1) with a deterministic built-in, a user predicate, or a throwing goal
		g.useCN = true
		switch g.r.Intn(4) {
		case 0:
			g.mark++
			return gApp("cn", gApp("=", gVar(c04R), gApp("k", gInt(int64(g.mark)))))
		case 1:
			return gApp("cn", gApp("atom_length", gAtom("abc"), g.newLocal()))
		case 2:
			return gApp("cn", gApp("a", g.xy()))
		default:
			return gApp("cn", gApp("throw", g.ball()))
		}
	case k < 58:
		// the ball is a COPY of the thrown term: the unbound context of a user ball error(F, _) reaches
		// the catcher unbound (nothing is filled in on the way)
		c := g.newLocal()
		return gApp("catch", gApp("throw", gApp("error", gAtom("my_error"), g.newLocal())),
			gApp("error", gAtom("my_error"), c),
			refITE(gApp("var", c), gApp("=", gVar(c04R), gAtom("ctx_var")), gApp("=", gVar(c04R), gApp("ctx", c))))
	case k < 60:
		return gAtom("fail")
	case k < 80:
		return gApp("throw", g.ball())
	case k < 88:
		return g.errGoal()
	default:
		if g.hasQ {
			return gApp("q", g.xy())
		}
		return gApp("a", g.xy())
	}
}

// catcher and a recovery goal that may use what the catcher binds
func (g *c04Gen) catcherRecovery(d int) (*gt, *gt) {
	var catcher *gt
	var exposes []*gt // recovery goals that publish what was caught (never the context of an error)
	switch k := g.r.Intn(100); {
	case k < 10:
		catcher = gAtom("b1")
	case k < 16:
		catcher = gAtom("b2")
	case k < 46:
		w := g.newLocal()
		catcher = gApp("bb", w)
		exposes = []*gt{gApp("=", gVar(c04R), gApp("c", w)), gApp("=", w, gInt(1)), gApp("throw", gApp("bb", gApp("f", w)))}
	case k < 52:
		catcher = gApp("bb", gInt(int64(1+g.r.Intn(2))))
	case k < 58:
		catcher = gApp("bb", g.xy()) // the catcher shares a variable with the goal
	case k < 82:
		c := g.newLocal()
		catcher = c // catches everything
		exposes = []*gt{gApp("throw", c), gApp("throw", gApp("wrapped", gAtom("w")))}
	case k < 92:
		e := g.newLocal()
		catcher = gApp("error", e, g.newLocal())
		exposes = []*gt{gApp("=", gVar(c04R), gApp("e", e)), gApp("throw", e)}
	case k < 96:
		// only user balls have the formal my_error, so their context may be observed: it is whatever
		// the thrown term had there - a variable stays a variable
		catcher = gApp("error", gAtom("my_error"), gAtom("my_context"))
	default:
		c := g.newLocal()
		catcher = gApp("error", gAtom("my_error"), c)
		exposes = []*gt{refITE(gApp("var", c), gApp("=", gVar(c04R), gAtom("ctx_var")), gApp("=", gVar(c04R), gApp("ctx", c)))}
	}
	var rec *gt
	switch k := g.r.Intn(100); {
	case k < 40 && len(exposes) > 0:
		rec = pick(g.r, exposes)
	case k < 55:
		rec = gAtom("true")
	case k < 63:
		rec = gAtom("fail")
	case k < 73:
		rec = gApp("a", g.xy()) // nondeterministic recovery
	case k < 83:
		g.mark++
		rec = gApp("=", gVar(c04R), gApp("r", gInt(int64(g.mark))))
	case k < 91:
		rec = gApp("throw", g.ball())
	default:
		rec = g.goal(d - 1)
	}
	return catcher, rec
}

func (g *c04Gen) seq(d int) *gt {
	n := 1 + g.r.Intn(2) + g.r.Intn(2)
	gs := make([]*gt, n)
	for i := range gs {
		gs[i] = g.goal(d)
	}
	return gConj(gs...)
}

func (g *c04Gen) goal(d int) *gt {
	if d <= 0 || g.r.Intn(100) < 50 {
		return g.leaf()
	}
	switch k := g.r.Intn(100); {
	case k < 55:
		return g.catchGoal(d)
	case k < 61:
		return gApp(";", g.seq(d-1), g.seq(d-1))
	case k < 67:
		l := g.newLocal()
		return gApp("findall", g.xy(), g.seq(d-1), l)
	case k < 73:
		return gApp("\\+", g.seq(d-1))
	case k < 81:
		return refCall1(g.seq(d - 1))
	case k < 86:
		if g.hasQ {
			return gApp("call", gAtom("q"), g.xy())
		}
		return gApp("call", gAtom("throw"), g.ball())
	case k < 92:
		return gApp("once", g.seq(d-1))
	default:
		return refITE(g.seq(d-1), g.seq(d-1), g.seq(d-1))
	}
}

func (g *c04Gen) catchGoal(d int) *gt {
	c, rec := g.catcherRecovery(d)
	saved := g.protected
	g.protected = true
	goal := g.seq(d - 1)
	g.protected = saved
	return gApp("catch", goal, c, rec)
}

// the goal of a catch/3 exits leaving a choice point, the continuation fails, execution re-enters
// the goal, and the goal THEN throws a ball the catcher matches (the catch must be active again);
// optionally inside an outer catch/3 that must not get the ball
func (g *c04Gen) redoThrow() *gt {
	x := g.xy()
	ball, catcher := gAtom("oops"), gAtom("oops")
	switch g.r.Intn(4) {
	case 0:
		ball, catcher = gApp("bb", x), gApp("bb", g.newLocal())
	case 1:
		ball, catcher = gApp("bb", gInt(2)), g.newLocal()
	case 2:
		ball, catcher = gAtom("b1"), pick(g.r, []*gt{gAtom("b1"), gAtom("b2")})
	}
	var goal *gt
	k := int64(2 + g.r.Intn(2))
	switch g.r.Intn(4) {
	case 0:
		goal = gApp(";", gApp("=", x, gInt(1)), gApp("throw", ball))
	case 1:
		goal = gConj(gApp("a", x), refITE(gApp("==", x, gInt(k)), gApp("throw", ball), gAtom("true")))
	case 2:
		goal = gConj(gApp("member", x, gList([]*gt{gInt(1), gInt(2), gInt(3)}, gAtom("[]"))), gApp(";", gApp("==", x, gInt(1)), gApp("throw", ball)))
	default:
		goal = gApp(";", gApp("b", x), gConj(gApp("=", x, gInt(7)), gApp("throw", ball)))
	}
	g.mark++
	rec := pick(g.r, []*gt{gApp("=", x, gAtom("caught")), gApp("=", gVar(c04R), gApp("r", gInt(int64(g.mark)))), gAtom("true"), gAtom("fail")})
	c := gApp("catch", goal, catcher, rec)
	if g.r.Intn(2) == 0 {
		g.mark++
		c = gApp("catch", c, g.newLocal(), gApp("=", gVar(c04R), gApp("outer", gInt(int64(g.mark)))))
	}
	// the continuation rejects the first answer(s) of the goal
	test := pick(g.r, []*gt{gApp("\\==", x, gInt(1)), gApp("==", x, gInt(k)), gApp("==", x, gInt(3)), gApp("==", x, gAtom("caught")), gAtom("fail")})
	return gConj(c, test)
}

func (g *c04Gen) body(d int) *gt {
	if g.r.Intn(6) == 0 {
		return g.redoThrow()
	}
	n := 1 + g.r.Intn(2) + g.r.Intn(2)
	forced := g.r.Intn(n) // every body has a catch/3 among its direct conjuncts
	var gs []*gt
	for i := 0; i < n; i++ {
		if i == forced {
			gs = append(gs, g.catchGoal(d))
		} else if g.r.Intn(12) == 0 {
			gs = append(gs, gAtom("!"))
		} else {
			gs = append(gs, g.goal(d))
		}
	}
	return gConj(gs...)
}

func (g *c04Gen) program() []*gt {
	prog := g.program0()
	if g.useCN {
		prog = append(prog, gApp(":-", gApp("cn", gVar(0)), gApp("call_nth", gVar(0), gInt(1))))
	}
	return prog
}

func (g *c04Gen) program0() []*gt {
	prog := append([]*gt{}, c03Facts...)
	g.useCN = false
	g.hasQ = g.r.Intn(2) == 0
	g.mark = 0
	g.protected = false
	depth := 2 + g.r.Intn(3) // nesting of catch up to 4
	for c := 0; c < 1+g.r.Intn(2); c++ {
		g.local = c04Local
		body := g.body(depth)
		switch g.r.Intn(10) {
		case 0, 1, 2: // a last line of defence that catches everything
			g.mark++
			body = gApp("catch", body, g.newLocal(), gApp("=", gVar(c04R), gApp("top", gInt(int64(g.mark)))))
		case 3, 4: // ... or every error
			e := g.newLocal()
			body = gApp("catch", body, gApp("error", e, g.newLocal()), gApp("=", gVar(c04R), gApp("e", e)))
		}
		prog = append(prog, gApp(":-", gApp("p", gVar(c04X), gVar(c04Y), gVar(c04R)), body))
	}
	if g.hasQ {
		hq := g.hasQ
		g.hasQ = false // q does not call itself
		for c := 0; c < 1+g.r.Intn(2); c++ {
			g.local = c04Local
			prog = append(prog, gApp(":-", gApp("q", gVar(c04X)), g.body(1)))
		}
		g.hasQ = hq
	}
	return prog
}

func (g *c04Gen) query() *gt {
	p := gApp("p", gVar(0), gVar(1), gVar(2))
	z := gVar(3)
	g.local = 4
	cont := func() *gt {
		switch g.r.Intn(6) {
		case 0:
			return gApp("throw", gAtom("b1"))
		case 1:
			return gApp("==", gVar(g.r.Intn(2)), gInt(2))
		case 2:
			return gConj(gApp("==", gVar(1), gInt(2)), gApp("throw", gApp("bb", gVar(1))))
		case 3:
			return gAtom("fail")
		case 4:
			return gConj(gApp("a", z), gApp("==", z, gInt(2)), gApp("throw", gApp("bb", z)))
		default:
			return gApp("throw", gApp("bb", gVar(g.r.Intn(2))))
		}
	}
	// catchers of the query are user patterns: the query's variables are part of the answer, and the
	// context argument of an error term is implementation defined
	userCatch := func(goal *gt) *gt {
		switch g.r.Intn(4) {
		case 0:
			return gApp("catch", goal, gAtom("b1"), gApp("=", z, gAtom("caught")))
		case 1:
			return gApp("catch", goal, gApp("bb", z), gAtom("true"))
		case 2:
			return gApp("catch", goal, gApp("bb", gInt(2)), gApp("a", z))
		default:
			return gApp("catch", goal, gApp("bb", gVar(0)), gAtom("true"))
		}
	}
	switch k := g.r.Intn(100); {
	case k < 35:
		return p
	case k < 55:
		return gConj(p, cont())
	case k < 75:
		return gConj(userCatch(p), cont())
	case k < 85:
		return userCatch(gConj(p, cont()))
	case k < 92:
		return gApp("findall", gVar(2), p, z)
	default:
		return gConj(gApp("b", z), userCatch(p))
	}
}

func genC04Answers(r *rand.Rand, n int, tier string) []string {
	var out []string
	var st genStats
	g := &c04Gen{r: r}
	for len(out) < n {
		prog := g.program()
		for j := 0; j < 2 && len(out) < n; j++ {
			q := g.query()
			max := pick(r, []int{1, 2, 20, 20, 20})
			if st.screen(prog, q, max) {
				out = append(out, answersPayload(max, q, prog))
			}
		}
	}
	st.report("c04.answers")
	return out
}
