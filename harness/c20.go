package main

// C20: loading Prolog texts.  Case format: see lean/PrologVerif/Driver/C20.lean.
//
// For every generated base text the generator emits the text itself, the text with one fault of each
// kind inserted at EVERY item position, and the text truncated at EVERY byte offset; every variant is
// loaded on top of the same earlier loads of overlapping predicates.

import (
	"errors"
	"fmt"
	"io"
	"math/rand"
	"sort"
	"strconv"
	"strings"
	"sync"
	"testing/fstest"

	"github.com/ichiban/prolog"
	"github.com/ichiban/prolog/engine"
)

func init() {
	register(&stream{name: "c20.load", gen: genC20, run: runC20})
}

// ---------------------------------------------------------------------------------------------
// items and their layout as text
// ---------------------------------------------------------------------------------------------

type c20item struct {
	kind byte // 't' term, 'g' DCG rule (src => exp), 'x' syntax fault, 'c' comment
	t    *gt_c09
	exp  string // wire of the expansion ('g')
	sub  string // 'x': paren|tok|ops ; 'c': line|block
}

func (it c20item) payload() string {
	switch it.kind {
	case 't':
		return "t " + it.t.wire()
	case 'g':
		return "g " + it.t.wire() + " => " + it.exp
	case 'x':
		return "x " + it.sub
	default:
		return "c " + it.sub
	}
}

func gtList(elems ...*gt_c09) *gt_c09 {
	l := ga("[]")
	for i := len(elems) - 1; i >= 0; i-- {
		l = gc(".", elems[i], l)
	}
	return l
}

var c20ops = map[string]int{":-": 1200, "-->": 1200, ";": 1100, "->": 1050, ",": 1000, "=": 700, "/": 400}

// src renders a term as source text with the usual operators; max = maximal priority allowed here.
func (t *gt_c09) src(max int) string {
	switch t.k {
	case 'V':
		return fmt.Sprintf("X%d", t.n)
	case 'A':
		return plAtom(t.s)
	case 'I':
		if t.n < 0 {
			return fmt.Sprintf("- %d", -t.n) // not generated
		}
		return strconv.FormatInt(t.n, 10)
	}
	if t.s == "." && len(t.args) == 2 {
		var elems []string
		cur := t
		for cur.k == 'C' && cur.s == "." && len(cur.args) == 2 {
			elems = append(elems, cur.args[0].src(999))
			cur = cur.args[1]
		}
		if cur.k == 'A' && cur.s == "[]" {
			return "[" + strings.Join(elems, ", ") + "]"
		}
		return "[" + strings.Join(elems, ", ") + "|" + cur.src(999) + "]"
	}
	if p, ok := c20ops[t.s]; ok && len(t.args) == 2 {
		l, r := p-1, p-1
		switch t.s {
		case ";", "->", ",":
			r = p // xfy
		case "/":
			l = p // yfx
		}
		op := " " + t.s + " "
		if t.s == "," {
			op = ", "
		}
		if t.s == "/" {
			op = "/"
		}
		s := t.args[0].src(l) + op + t.args[1].src(r)
		if p > max {
			return "(" + s + ")"
		}
		return s
	}
	if t.s == ":-" && len(t.args) == 1 {
		return ":- " + t.args[0].src(1199)
	}
	args := make([]string, len(t.args))
	for i, a := range t.args {
		args[i] = a.src(999)
	}
	return plAtom(t.s) + "(" + strings.Join(args, ", ") + ")"
}

var c20faultText = map[string]string{"paren": "foo(.", "tok": "a b c.", "ops": ":- :- .", "close": ")."}

func (it c20item) text() string {
	switch it.kind {
	case 't', 'g':
		return it.t.src(1200) + "."
	case 'x':
		return c20faultText[it.sub]
	default:
		if it.sub == "line" {
			return "% a note. not a clause"
		}
		return "/* a note. 'quoted */"
	}
}

type c20span struct {
	start, end int
	item       c20item
}

// layout: one item per line.
func c20layout(items []c20item) (string, []c20span) {
	var sb strings.Builder
	var spans []c20span
	for _, it := range items {
		s := it.text()
		spans = append(spans, c20span{sb.Len(), sb.Len() + len(s), it})
		sb.WriteString(s)
		sb.WriteString("\n")
	}
	return sb.String(), spans
}

// c20cut classifies a truncation at byte n: number of intact read items, whether the text then ends
// inside an item, and where the cut falls.
func c20cut(spans []c20span, n int) (k int, fault int, where string) {
	where = "gap"
	for _, sp := range spans {
		read := sp.item.kind != 'c'
		if sp.end <= n {
			if read {
				k++
			}
			continue
		}
		if n <= sp.start {
			break
		}
		// strictly inside sp
		switch {
		case sp.item.kind == 'c' && sp.item.sub == "line":
			where = "linecomment"
		case sp.item.kind == 'c':
			fault = 1
			if n-sp.start >= 2 {
				where = "comment" // unterminated /* ... : D19
			} else {
				where = "item" // a lone "/"
			}
		default:
			fault = 1
			where = "item"
			txt := sp.item.text()
			if txt[0] == '\'' {
				// leading quoted atom: the cut is inside it if the closing quote is not in the prefix
				closing := strings.IndexByte(txt[1:], '\'') + 1
				if n-sp.start <= closing {
					where = "quoted" // D19
				}
			}
		}
		break
	}
	return
}

// ---------------------------------------------------------------------------------------------
// generator
// ---------------------------------------------------------------------------------------------

type c20pred struct {
	name  string
	arity int
	dcg   bool
}

var c20preds = []c20pred{{"a", 1, false}, {"b", 1, false}, {"c", 2, false}, {"d", 0, false}, {"e", 1, false},
	{"q q", 1, false}, {"g", 0, true}, {"h", 0, true}, {"f4", 4, false}, {"f5", 5, false}, {"f6", 6, false}}

type c20gen struct {
	r  *rand.Rand
	nv int
	// per base text: is k/1 defined by an earlier load; a predicate declared multifile in every text
	kDefined bool
	shared   *c20pred
}

func (g *c20gen) v() *gt_c09 { g.nv++; return gv(g.nv - 1) }

func (g *c20gen) arg() *gt_c09 {
	switch k := g.r.Intn(10); {
	case k < 4:
		return gi(int64(g.r.Intn(4)))
	case k < 7:
		return ga(pick(g.r, []string{"x", "y", "Zed", "two words"}))
	default:
		return g.v()
	}
}

func (g *c20gen) goal() *gt_c09 {
	switch g.r.Intn(5) {
	case 0:
		return ga("true")
	case 1:
		return gc("=", g.v(), g.arg())
	case 2:
		return gc("b", g.arg())
	case 3:
		return gc("c", g.arg(), g.arg())
	default:
		return ga("d")
	}
}

var c20expandMu sync.Mutex

// clause of predicate p (a DCG rule for grammar predicates)
func (g *c20gen) clause(p c20pred) c20item {
	if p.dcg {
		var body *gt_c09
		switch g.r.Intn(3) {
		case 0:
			body = gtList(ga(pick(g.r, []string{"x", "y"})))
		case 1:
			body = gc(",", gtList(ga("x")), ga(pick(g.r, []string{"g", "h"})))
		default:
			body = gc(",", ga(pick(g.r, []string{"g", "h"})), gtList(ga("y")))
		}
		src := gc("-->", ga(p.name), body)
		d := newTermDecoder()
		ts, err := d.terms(src.wire())
		must(err)
		exp, err := engine.VerifExpandDCG(ts[0], nil)
		must(err)
		return c20item{kind: 'g', t: src, exp: wire(exp, nil, newVarNamer())}
	}
	args := make([]*gt_c09, p.arity)
	for i := range args {
		args[i] = g.arg()
	}
	h := mk(p.name, args)
	if p.arity >= 4 && g.r.Intn(2) == 0 {
		// wide heads with 2..3 SHORT alternatives (each alternative becomes a clause of its own, with its own
		// copy of the head code)
		short := func() *gt_c09 {
			switch g.r.Intn(4) {
			case 0:
				return ga("true")
			case 1:
				return ga("d")
			case 2:
				return gc("b", g.arg())
			default:
				return gc(",", ga("d"), ga("d"))
			}
		}
		body := gc(";", short(), short())
		if g.r.Intn(2) == 0 {
			body = gc(";", short(), body)
		}
		return c20item{kind: 't', t: grule(h, body)}
	}
	switch k := g.r.Intn(10); {
	case k < 5:
		return c20item{kind: 't', t: h}
	case k < 7:
		return c20item{kind: 't', t: grule(h, g.goal())}
	case k < 8:
		return c20item{kind: 't', t: grule(h, gc(",", g.goal(), g.goal()))}
	case k < 9:
		return c20item{kind: 't', t: grule(h, gc(";", g.goal(), g.goal()))} // two clauses
	default:
		return c20item{kind: 't', t: grule(h, gc(";", gc("->", g.goal(), g.goal()), g.goal()))} // if-then-else: one clause
	}
}

func c20directive(t *gt_c09) c20item { return c20item{kind: 't', t: gc(":-", t)} }

func c20pi(p c20pred) *gt_c09 {
	ar := p.arity
	if p.dcg {
		ar += 2
	}
	return gc("/", ga(p.name), gi(int64(ar)))
}

type c20base struct {
	files  map[string][]c20item
	prior  [][]c20item
	items  []c20item
	npreds int
}

// text generates a text over some of the predicates: blocks of clauses (some predicates split into two
// runs), declarations, side-effect-free directives, comments, possibly an include.
func (g *c20gen) text(valid bool, files map[string][]c20item) ([]c20item, int) {
	preds := append([]c20pred(nil), c20preds...)
	g.r.Shuffle(len(preds), func(i, j int) { preds[i], preds[j] = preds[j], preds[i] })
	preds = preds[:3+g.r.Intn(4)]
	if g.shared != nil {
		found := false
		for _, p := range preds {
			found = found || p.name == g.shared.name
		}
		if !found {
			preds[0] = *g.shared
		}
	}
	var blocks [][]c20item
	var head []c20item
	var late []c20item
	anywhere := func(it c20item) {
		// between two blocks (or in front)
		if len(blocks) == 0 || g.r.Intn(3) == 0 {
			head = append(head, it)
			return
		}
		k := g.r.Intn(len(blocks))
		blocks[k] = append(blocks[k], it)
	}
	for _, p := range preds {
		n := 1 + g.r.Intn(4)
		var cs []c20item
		for i := 0; i < n; i++ {
			cs = append(cs, g.clause(p))
		}
		if n >= 2 && g.r.Intn(100) < 35 {
			// two runs
			k := 1 + g.r.Intn(n-1)
			blocks = append(blocks, cs[:k], cs[k:])
			declared := g.r.Intn(10) < 7
			if valid {
				declared = true
			}
			if declared {
				d := c20directive(gc("discontiguous", c20pi(p)))
				if valid || g.r.Intn(5) != 0 {
					head = append(head, d)
				} else {
					late = append(late, d) // possibly too late
				}
			}
		} else {
			blocks = append(blocks, cs)
		}
		if g.r.Intn(5) == 0 {
			head = append(head, c20directive(gc("dynamic", c20pi(p))))
		}
		if g.r.Intn(6) == 0 || (g.shared != nil && g.shared.name == p.name) {
			head = append(head, c20directive(gc("multifile", c20pi(p))))
		}
	}
	if !g.kDefined && g.r.Intn(3) == 0 {
		blocks = append(blocks, []c20item{{kind: 't', t: gc("k", gi(1))}, {kind: 't', t: gc("k", gi(2))}})
	}
	// keep the two runs of a predicate apart: shuffle blocks, then repair adjacent runs of one predicate
	g.r.Shuffle(len(blocks), func(i, j int) { blocks[i], blocks[j] = blocks[j], blocks[i] })
	for _, d := range late {
		anywhere(d)
	}
	// directives and comments at block boundaries
	for i, n := 0, g.r.Intn(4); i < n; i++ {
		var d *gt_c09
		switch k := g.r.Intn(8); {
		case k == 0:
			d = ga("true")
		case k == 1 && g.kDefined:
			d = gc("k", gi(int64(1+g.r.Intn(2)))) // sees the LIVE database (an earlier load), not this text
		case k == 2:
			d = gc("=", g.v(), gi(1))
		case k == 3:
			d = gc("initialization", ga("true"))
		case k == 4 && g.kDefined:
			d = gc("initialization", gc("k", gi(1)))
		case k == 5 && !valid && g.r.Intn(3) == 0:
			d = gc("initialization", gc("k", gi(3))) // fails (or existence error) AFTER the commit
		case k == 6 && !valid && g.r.Intn(3) == 0:
			d = gc("initialization", gc("zz_undefined", g.v()))
		default:
			d = gc("=", ga("x"), ga("x"))
		}
		anywhere(c20directive(d))
	}
	if files != nil && g.r.Intn(6) == 0 {
		name := fmt.Sprintf("inc%d", len(files)+1)
		var inc []c20item
		p := pick(g.r, c20preds[:5])
		for i, n := 0, 1+g.r.Intn(3); i < n; i++ {
			inc = append(inc, g.clause(p))
		}
		files[name] = inc
		anywhere(c20directive(gc("include", ga(name))))
	}
	var items []c20item
	items = append(items, head...)
	for _, b := range blocks {
		if g.r.Intn(4) == 0 {
			items = append(items, c20item{kind: 'c', sub: pick(g.r, []string{"line", "block"})})
		}
		items = append(items, b...)
	}
	return items, len(preds)
}

// one fault of each kind, as an item to insert
func (g *c20gen) faults(items []c20item) map[string]c20item {
	fs := map[string]c20item{
		"syn_paren":  {kind: 'x', sub: "paren"},
		"syn_tok":    {kind: 'x', sub: "tok"},
		"syn_close":  {kind: 'x', sub: "close"},
		"var":        {kind: 't', t: gv(900)},
		"num":        {kind: 't', t: gi(3)},
		"nbody":      {kind: 't', t: grule(ga("zz"), gi(3))},
		"nbody2":     {kind: 't', t: grule(ga("zz"), gc(",", ga("true"), gi(3)))},
		"nhead":      {kind: 't', t: grule(gi(3), ga("true"))},
		"vhead":      {kind: 't', t: grule(gv(901), ga("true"))},
		"dfail":      c20directive(ga("fail")),
		"dthrow":     c20directive(gc("throw", ga("oops"))),
		"dunknown":   c20directive(ga("zz_undefined")),
		"dbaddecl":   c20directive(gc("dynamic", gi(3))),
		"dvardecl":   c20directive(gc("discontiguous", gc("/", ga("a"), gv(902)))),
		"dvar":       c20directive(gv(903)),
		"incmissing": c20directive(gc("include", ga("no_such_file"))),
	}
	// a clause of a predicate that already has a run and is not declared discontiguous (if any)
	for _, it := range items {
		if it.kind == 't' && it.t.k == 'C' && it.t.s != ":-" && it.t.s != "k" {
			fs["stray"] = c20item{kind: 't', t: mk(it.t.s, it.t.args)}
			break
		}
	}
	return fs
}

func c20itemsPayload(items []c20item) string {
	parts := make([]string, len(items))
	for i, it := range items {
		parts[i] = it.payload()
	}
	return strings.Join(parts, " ; ")
}

func (b *c20base) prefix() string {
	var sb strings.Builder
	if len(b.files) > 0 {
		var names []string
		for n := range b.files {
			names = append(names, n)
		}
		sort.Strings(names)
		sb.WriteString("fs ")
		for i, n := range names {
			if i > 0 {
				sb.WriteString(" ;; ")
			}
			sb.WriteString(n + " = " + c20itemsPayload(b.files[n]))
		}
		sb.WriteString(" // ")
	}
	for _, p := range b.prior {
		sb.WriteString("load " + c20itemsPayload(p) + " // ")
	}
	return sb.String()
}

func genC20(r *rand.Rand, n int, tier string) []string {
	var out []string
	g := &c20gen{r: r}
	for len(out) < n {
		b := &c20base{files: map[string][]c20item{}}
		g.kDefined, g.shared = false, nil
		if r.Intn(3) == 0 {
			g.shared = &c20preds[r.Intn(5)]
		}
		if r.Intn(10) < 6 {
			b.prior = append(b.prior, []c20item{{kind: 't', t: gc("k", gi(1))}, {kind: 't', t: gc("k", gi(2))}})
			g.kDefined = true
		}
		for i, k := 0, r.Intn(3); i < k; i++ {
			p, _ := g.text(true, nil)
			b.prior = append(b.prior, p)
		}
		b.items, b.npreds = g.text(false, b.files)
		pre := b.prefix()
		// the text itself
		out = append(out, pre+"load "+c20itemsPayload(b.items)+" @tag kind=none pos=0 npreds="+strconv.Itoa(b.npreds))
		// one fault of each kind at every position
		faults := g.faults(b.items)
		var kinds []string
		for k := range faults {
			kinds = append(kinds, k)
		}
		sort.Strings(kinds)
		for _, k := range kinds {
			for pos := 0; pos <= len(b.items); pos++ {
				items := append(append(append([]c20item(nil), b.items[:pos]...), faults[k]), b.items[pos:]...)
				out = append(out, pre+"load "+c20itemsPayload(items)+fmt.Sprintf(" @tag kind=%s pos=%d npreds=%d", k, pos, b.npreds))
			}
		}
		// truncation at every byte offset
		text, spans := c20layout(b.items)
		for off := 0; off <= len(text); off++ {
			k, f, where := c20cut(spans, off)
			out = append(out, pre+"load "+c20itemsPayload(b.items)+fmt.Sprintf(" @cut %d %d %d %s @tag kind=cut_%s pos=%d npreds=%d", off, k, f, where, where, k, b.npreds))
		}
	}
	return out
}

// ---------------------------------------------------------------------------------------------
// runner
// ---------------------------------------------------------------------------------------------

var (
	c20baselineOnce sync.Once
	c20baseline     map[string]bool
)

func c20parseItems(s string) []c20item {
	var items []c20item
	for _, p := range strings.Split(s, " ; ") {
		p = strings.TrimSpace(p)
		if p == "" {
			continue
		}
		f := strings.SplitN(p, " ", 2)
		switch f[0] {
		case "t":
			items = append(items, c20item{kind: 't', t: parseGT_c20(f[1])})
		case "g":
			se := strings.SplitN(f[1], " => ", 2)
			items = append(items, c20item{kind: 'g', t: parseGT_c20(se[0]), exp: se[1]})
		case "x":
			items = append(items, c20item{kind: 'x', sub: f[1]})
		case "c":
			items = append(items, c20item{kind: 'c', sub: f[1]})
		default:
			panic("bad item " + p)
		}
	}
	return items
}

// parseGT_c20 parses one wire term into a gt_c09.
func parseGT_c20(s string) *gt_c09 {
	toks := strings.Fields(s)
	var dec func() *gt_c09
	dec = func() *gt_c09 {
		tok := toks[0]
		toks = toks[1:]
		body := tok[1:]
		switch tok[0] {
		case 'V':
			n, err := strconv.Atoi(body)
			must(err)
			return gv(n)
		case 'A':
			a, err := decName(body)
			must(err)
			return ga(a)
		case 'I':
			n, err := strconv.ParseInt(body, 10, 64)
			must(err)
			return gi(n)
		case 'C':
			i := strings.IndexByte(body, ':')
			n, err := strconv.Atoi(body[:i])
			must(err)
			f, err := decName(body[i+1:])
			must(err)
			args := make([]*gt_c09, n)
			for j := range args {
				args[j] = dec()
			}
			return &gt_c09{k: 'C', s: f, args: args}
		}
		panic("bad token " + tok)
	}
	return dec()
}

func c20listing(i *prolog.Interpreter) string {
	var rows []string
	for _, p := range i.VM.VerifProcedures() {
		key := fmt.Sprintf("%s/%d", p.Name, p.Arity)
		if p.Builtin || c20baseline[key] {
			continue
		}
		fl := []byte("----")
		if p.Public {
			fl[0] = 'p'
		}
		if p.Dynamic {
			fl[1] = 'd'
		}
		if p.Multifile {
			fl[2] = 'm'
		}
		if p.Discontiguous {
			fl[3] = 'c'
		}
		var cs []string
		for _, c := range p.Clauses {
			cs = append(cs, wire(c.Raw, nil, newVarNamer()))
		}
		rows = append(rows, fmt.Sprintf("%s/%d:%s[%s]%s", encName(p.Name), p.Arity, fl, strings.Join(cs, ", "), c20codeCheck(p)))
	}
	sort.Strings(rows)
	return "{" + strings.Join(rows, ", ") + "}"
}

func c20result(err error) string {
	if err == nil {
		return "ok"
	}
	var ex engine.Exception
	if errors.As(err, &ex) {
		return errWire(err)
	}
	msg := err.Error()
	switch {
	case strings.HasSuffix(msg, " is discontiguous"):
		pi := strings.TrimSuffix(msg, " is discontiguous")
		i := strings.LastIndexByte(pi, '/')
		name := pi[:i]
		if strings.HasPrefix(name, "'") && strings.HasSuffix(name, "'") && len(name) >= 2 {
			name = strings.NewReplacer(`\'`, `'`, `\\`, `\`).Replace(name[1 : len(name)-1])
		}
		return "discontiguous " + encName(name) + pi[i:]
	case strings.HasPrefix(msg, "failed directive"):
		return "failed_directive"
	case strings.HasPrefix(msg, "failed initialization goal"):
		return "failed_init"
	case errors.Is(err, io.EOF), strings.HasPrefix(msg, "unexpected token"):
		return "syntax"
	}
	return "goerr " + encName(msg)
}

func runC20(payload string) string {
	c20baselineOnce.Do(func() {
		c20baseline = map[string]bool{}
		i, _ := newInterp("")
		for _, p := range i.VM.VerifProcedures() {
			c20baseline[fmt.Sprintf("%s/%d", p.Name, p.Arity)] = true
		}
	})
	tags := ""
	if k := strings.Index(payload, " @tag "); k >= 0 {
		tags = payload[k+6:]
		payload = payload[:k]
	}
	parts := strings.Split(payload, " // ")
	i, _ := newInterp("")
	if strings.HasPrefix(parts[0], "fs ") {
		mfs := fstest.MapFS{}
		for _, f := range strings.Split(parts[0][3:], " ;; ") {
			ne := strings.SplitN(f, " = ", 2)
			body := ""
			if len(ne) > 1 {
				body = ne[1]
			}
			text, _ := c20layout(c20parseItems(body))
			mfs[strings.TrimSpace(ne[0])+".pl"] = &fstest.MapFile{Data: []byte(text)}
		}
		i.FS = mfs
		parts = parts[1:]
	}
	var out []string
	for _, l := range parts {
		l = strings.TrimSpace(l)
		if !strings.HasPrefix(l, "load") {
			panic("bad load " + l)
		}
		body := strings.TrimPrefix(l, "load")
		cut := -1
		if k := strings.Index(body, " @cut "); k >= 0 {
			f := strings.Fields(body[k+6:])
			n, err := strconv.Atoi(f[0])
			must(err)
			cut = n
			body = body[:k]
		}
		text, _ := c20layout(c20parseItems(body))
		if cut >= 0 {
			text = text[:cut]
		}
		err := i.Exec(text)
		out = append(out, c20result(err)+" "+c20listing(i))
	}
	nt := 0
	tg := map[string]string{}
	for _, kv := range strings.Fields(tags) {
		if j := strings.IndexByte(kv, '='); j > 0 {
			tg[kv[:j]] = kv[j+1:]
		}
	}
	np, _ := strconv.Atoi(tg["npreds"])
	pos, _ := strconv.Atoi(tg["pos"])
	if np >= 2 && (tg["kind"] == "none" || pos > 0) {
		nt = 1
	}
	last := strings.SplitN(out[len(out)-1], " ", 2)[0]
	return strings.Join(out, " // ") + fmt.Sprintf(" ### nt=%d kind=%s outcome=%s prior_loads=%d", nt, tg["kind"], last, len(parts)-1)
}

// ---------------------------------------------------------------------------------------------
// The stored TERM of a clause is what the listing compares with the model; its CODE is what runs. A rule whose
// body is a top-level disjunction is stored as one compiled clause per alternative, all carrying the whole
// rule as their term: the code of the j-th of them must be the code the engine produces for `Head :- Alt_j`
// alone (compiled here through assertz/1 on a scratch interpreter, cached by clause text).

var c20code struct {
	mu    sync.Mutex
	i     *prolog.Interpreter
	cache map[string]string
}

func c20codeText(code []engine.VerifInstr) string {
	var sb strings.Builder
	n := newVarNamer()
	for _, in := range code {
		sb.WriteString(in.Op)
		if in.Operand != nil {
			sb.WriteString("(" + wire(in.Operand, nil, n) + ")")
		}
		sb.WriteByte(' ')
	}
	return sb.String()
}

// c20alternatives mirrors the engine's split of a body into clauses: (A ; B) splits unless A is (C -> T).
func c20alternatives(b engine.Term) []engine.Term {
	var out []engine.Term
	for {
		c, ok := b.(engine.Compound)
		if !ok || c.Functor().String() != ";" || c.Arity() != 2 {
			break
		}
		if l, ok := c.Arg(0).(engine.Compound); ok && l.Functor().String() == "->" && l.Arity() == 2 {
			break
		}
		out = append(out, c.Arg(0))
		b = c.Arg(1)
	}
	return append(out, b)
}

func c20expectedCode(name string, arity int, clause engine.Term) string {
	key := wire(clause, nil, newVarNamer())
	c20code.mu.Lock()
	defer c20code.mu.Unlock()
	if c20code.cache == nil {
		c20code.cache = map[string]string{}
		c20code.i, _ = newInterp("")
	}
	if r, ok := c20code.cache[key]; ok {
		return r
	}
	r := "?"
	vm := &c20code.i.VM
	if solveOnce(vm, compound("assertz", clause)) == "true" {
		for _, p := range vm.VerifProcedures() {
			if p.Name == name && p.Arity == arity && len(p.Clauses) == 1 {
				r = c20codeText(p.Clauses[0].Code)
			}
		}
		_ = solveOnce(vm, compound("abolish", compound("/", atom(name), engine.Integer(arity))))
	}
	c20code.cache[key] = r
	return r
}

func c20codeCheck(p engine.VerifProc) string {
	bad := ""
	for k := 0; k < len(p.Clauses); {
		raw := p.Clauses[k].Raw
		alts := []engine.Term{nil}
		var head engine.Term = raw
		if c, ok := raw.(engine.Compound); ok && c.Functor().String() == ":-" && c.Arity() == 2 {
			head, alts = c.Arg(0), c20alternatives(c.Arg(1))
		}
		for j, a := range alts {
			if k+j >= len(p.Clauses) {
				return bad + fmt.Sprintf("!CODE(%d:missing)", k+j)
			}
			cl := head
			if a != nil {
				cl = compound(":-", head, a)
			}
			if want := c20expectedCode(p.Name, p.Arity, cl); want != "?" && want != c20codeText(p.Clauses[k+j].Code) {
				bad += fmt.Sprintf("!CODE(%d)", k+j)
			}
		}
		k += len(alts)
	}
	return bad
}
