/-
  P2 (writeq with operators reads back), lexing half, stage C: the first character of a term written to the
  right of an operator is never glued to the text of that operator.
-/
import PrologVerif.Proofs.OpRoundtripLex2
set_option linter.unusedSimpArgs false
set_option linter.unusedVariables false
namespace PrologVerif.Write
open PrologVerif PrologVerif.Lexer PrologVerif.Ops PrologVerif.Read

/-! ## the options of writeq, as far as lexing depends on them -/

structure QO (ops : Table) (o : WOpts) : Prop where
  ign : o.ignoreOps = false
  quo : o.quoted = true
  tab : o.ops = ops

theorem QOpts.qo {ops : Table} {o : WOpts} (h : QOpts ops o) : QO ops o := ⟨h.ign, h.quo, h.tab⟩

theorem QO.of_eq {ops : Table} {o o' : WOpts} (h : QO ops o) (h1 : o'.ignoreOps = o.ignoreOps)
    (h2 : o'.quoted = o.quoted) (h3 : o'.ops = o.ops) : QO ops o' :=
  ⟨h1 ▸ h.ign, h2 ▸ h.quo, h3 ▸ h.tab⟩

theorem QO.inner {ops : Table} {o : WOpts} (h : QO ops o) (oc : Bool) : QO ops (inner oc o) := by
  cases oc
  · exact h
  · exact h.of_eq rfl rfl rfl

/-! ## operators picked by the writer -/

theorem opOf_spec {ops : Table} {f : String} {c : Class} {op : Op} (h : opOf ops f c = some op) :
    op.name = f ∧ op.spec.cls = c ∧ ∃ d ∈ ops, d.name = f ∧ d.spec = op.spec := by
  unfold opOf lookup at h
  cases hf : ops.find? (slot · f c) with
  | none => simp [hf] at h
  | some d =>
    simp only [hf, Option.map_some, Option.some.injEq] at h
    have h1 := List.find?_some hf
    have h2 := List.mem_of_find?_eq_some hf
    simp only [slot, Bool.and_eq_true, beq_iff_eq] at h1
    subst h
    exact ⟨h1.1, h1.2, d, h2, h1.1, rfl⟩

theorem pickOp_spec {ops : Table} {f : String} {n : Nat} {op : Op} (h : pickOp ops f n = some op) :
    op.name = f ∧ (∃ d ∈ ops, d.name = f ∧ d.spec = op.spec) ∧ (n = 1 → op.spec.cls ≠ .inf) := by
  unfold pickOp at h
  simp only [List.findSome?] at h
  have key : ∀ c o', opOf ops f c = some o' → (if (if o'.spec.cls = .inf then 2 else 1) = n then some o' else none) = some op →
      op.name = f ∧ (∃ d ∈ ops, d.name = f ∧ d.spec = op.spec) ∧ (n = 1 → op.spec.cls ≠ .inf) := by
    intro c o' h1 h2
    by_cases har : (if o'.spec.cls = Class.inf then 2 else 1) = n
    · rw [if_pos har] at h2
      simp only [Option.some.injEq] at h2
      subst h2
      obtain ⟨a, _, b⟩ := opOf_spec h1
      refine ⟨a, b, ?_⟩
      intro hn hcls
      rw [if_pos hcls] at har
      omega
    · rw [if_neg har] at h2
      cases h2
  have key2 : ∀ c, (match opOf ops f c with
      | some o => if (if o.spec.cls = Class.inf then 2 else 1) = n then some o else none
      | none => none) = some op →
      op.name = f ∧ (∃ d ∈ ops, d.name = f ∧ d.spec = op.spec) ∧ (n = 1 → op.spec.cls ≠ .inf) := by
    intro c hc
    cases h1 : opOf ops f c with
    | none => simp [h1] at hc
    | some o' => simp only [h1] at hc; exact key c o' h1 hc
  split at h
  · rename_i b hb
    simp only [Option.some.injEq] at h
    subst h
    exact key2 _ hb
  · split at h
    · rename_i b hb
      simp only [Option.some.injEq] at h
      subst h
      exact key2 _ hb
    · split at h
      · rename_i b hb
        simp only [Option.some.injEq] at h
        subst h
        exact key2 _ hb
      · simp at h

/-- by `tableOK`, an operator written in prefix or postfix notation is not named `,` or `|` -/
theorem tableOK_unary {ops : Table} (hops : tableOK ops = true) {f : String} {op : Op}
    (h : pickOp ops f 1 = some op) : f ≠ "," ∧ f ≠ "|" := by
  obtain ⟨_, ⟨d, hd, hdn, hds⟩, hcls⟩ := pickOp_spec h
  have := List.all_eq_true.mp hops d hd
  simp only [Bool.and_eq_true, decide_eq_true_eq] at this
  obtain ⟨⟨⟨_, h4⟩, h5⟩, _⟩ := this
  constructor
  · intro hf
    have := (h4 (by rw [hdn, hf])).1
    rw [hds] at this
    exact hcls rfl this
  · intro hf
    have := (h5 (by rw [hdn, hf])).1
    rw [hds] at this
    exact hcls rfl this

theorem numberVarsOf_none (o : WOpts) (f : String) (a0 : Term)
    (h : (decide (f = "$VAR") && isVarArg (.cons a0 .nil)) = false) : numberVarsOf o f a0 = none := by
  unfold numberVarsOf
  cases a0 with
  | int n =>
    simp only [isVarArg] at h
    simp only []
    rw [if_neg]
    intro ⟨_, h1, h2⟩
    simp [h1, h2] at h
  | _ => rfl

/-! ## the first character -/

/-- the text `w` is not empty and its first character is not glued to the text of the operator `lo` -/
def FirstOK (e : Env) (lo : Op) (w : List Char) : Prop := ∃ c r, w = c :: r ∧ AfterOp e lo.name.toList c

theorem FirstOK.of_head {e : Env} {lo : Op} {w : List Char} {c : Char} (h : w.head? = some c) (hp : Punct c) :
    FirstOK e lo w := by
  cases w with
  | nil => simp at h
  | cons c' r =>
    simp only [List.head?_cons, Option.some.injEq] at h
    subst h
    exact ⟨_, _, rfl, Punct.afterOp e _ hp⟩

theorem FirstOK.append {e : Env} {lo : Op} {w : List Char} (h : FirstOK e lo w) (z : List Char) :
    FirstOK e lo (w ++ z) := by
  obtain ⟨c, r, rfl, h⟩ := h
  exact ⟨c, r ++ z, rfl, h⟩

theorem FirstOK.headIs {e : Env} {lo : Op} {w : List Char} (h : FirstOK e lo w) (z : List Char) :
    HeadIs (AfterOp e lo.name.toList) (w ++ z) := by
  obtain ⟨c, r, rfl, h⟩ := h
  exact HeadIs.cons h

theorem FirstOK.spaced {e : Env} {lo : Op} (b : Bool) (w : List Char) (h : b = false → FirstOK e lo w) :
    FirstOK e lo (Write.sp b ++ w) := by
  cases b
  · simpa [Write.sp] using h rfl
  · exact FirstOK.of_head (c := ' ') (by simp [Write.sp]) punct_space

theorem fc_var (e : Env) (G : UInt64 → GText) (P : UInt64 → Bool) (he : EnvOK e G P) (o : WOpts) (v : Nat) (lo : Op)
    (hl : o.left = some lo) : FirstOK e lo (writeVar e o v) := by
  unfold writeVar
  rw [List.append_assoc]
  refine FirstOK.spaced _ _ (fun hL => ?_)
  obtain ⟨w, hw, _⟩ := (he.varShape v).1
  rw [hw]
  refine ⟨'_', _, rfl, fun _ => by decide, fun _ h => ?_, fun _ _ => rfl⟩
  rw [hl] at hL
  simp only [opName] at hL
  rw [hL] at h
  simp at h

theorem fc_atom (e : Env) (hcap : CapOK e.cfg) (o : WOpts) (hq : o.quoted = true) (a : List Char) (lo : Op)
    (hl : o.left = some lo) : FirstOK e lo (writeAtom e o a) := by
  by_cases hoc : ((o.left.isSome || o.right.isSome) && defined o.ops (String.ofList a)) = true
  · rw [writeAtom_oc e o a hq hoc, List.append_assoc, List.append_assoc]
    exact FirstOK.spaced _ _ (fun _ => FirstOK.of_head (c := '(') (by simp) punct_open)
  · rw [writeAtom_plain e o a hq (Bool.eq_false_iff.mpr hoc), List.append_assoc]
    refine FirstOK.spaced _ _ (fun hL => ?_)
    obtain ⟨c, r, h1, h2⟩ := atomText_head e a
    rw [h1]
    refine ⟨c, _, rfl, ?_⟩
    unfold atomL at hL
    rw [hl] at hL
    simp only [opName, Option.isSome_some, Bool.true_and] at hL
    refine atom_atom hcap h2 ?_ ?_ ?_
    · intro h1 h2; simp [h1, h2] at hL
    · intro _ h0 h1 h2; simp [h0, h1, h2] at hL
    · intro _ h0 h1 h2; simp [h0, h1, h2] at hL

theorem fc_int (e : Env) (o : WOpts) (i : Int) (lo : Op) (hlo : -9223372036854775808 ≤ i)
    (hhi : i ≤ 9223372036854775807) (hl : o.left = some lo) : FirstOK e lo (writeInt e o i) := by
  unfold writeInt
  by_cases hoc : (isPrefixMinus o.left && decide (i ≥ 0)) = true
  · simp only [hoc, if_true]
    exact FirstOK.of_head (c := ' ') (by simp) punct_space
  · simp only [hoc, Bool.false_eq_true, if_false]
    rw [List.append_assoc]
    refine FirstOK.spaced _ _ (fun hL => ?_)
    rw [hl] at hL
    simp only [opName, Option.isSome_some, Bool.true_and, Bool.or_eq_false_iff] at hL
    obtain ⟨hL1, hL2⟩ := hL
    obtain ⟨h1, h2, _⟩ := decDigits_spec i.natAbs (by omega)
    obtain ⟨d, ds, hds⟩ := List.exists_cons_of_ne_nil h1
    have hd := h2 d (by simp [hds])
    unfold formatInt
    by_cases hneg : i < 0
    · simp only [hneg, if_true]
      refine ⟨'-', _, rfl, fun _ => by decide, fun _ _ => rfl, fun _ h => ?_⟩
      simp [hneg, h] at hL2
    · simp only [hneg, if_false, hds]
      refine ⟨d, _, rfl, fun _ => (decD_not d hd).1, fun _ h => ?_, fun _ _ => decD_not_gbs d hd⟩
      rw [hL1] at h
      simp at h

theorem fc_float (e : Env) (G : UInt64 → GText) (P : UInt64 → Bool) (he : EnvOK e G P) (hs : SignOK G P) (o : WOpts)
    (b : UInt64) (lo : Op) (hb : P b = true) (hl : o.left = some lo) : FirstOK e lo (writeFloat e o b) := by
  unfold writeFloat
  rw [he.fltText b hb, hl]
  simp only [List.append_assoc]
  refine FirstOK.spaced _ _ (fun hL => ?_)
  simp only [opName, Option.isSome_some, Bool.true_and, Bool.or_eq_false_iff] at hL
  obtain ⟨hoc, hsb, hld⟩ := hL
  simp only [hoc, Bool.false_eq_true, if_false, List.nil_append]
  rw [patchFloat_render _ (he.fltWF b hb)]
  have hneg : (G b).neg = false := by rw [← hs b hb]; exact hsb
  obtain ⟨h1, h2, _⟩ := he.fltWF b hb
  obtain ⟨d, is, hip⟩ := List.exists_cons_of_ne_nil h1
  have hd := h2 d (by simp [hip])
  simp only [signText, hneg, Bool.false_eq_true, if_false, List.nil_append, GText.body, hip, List.cons_append]
  refine ⟨d, _, rfl, fun _ => (decD_not d hd).1, fun _ h => ?_, fun _ _ => decD_not_gbs d hd⟩
  rw [hld] at h
  simp at h

/-! ## compound terms in operator notation: the two shapes (bracketed or not) -/

/-- the options of the left operand of `op` -/
def oL (o : WOpts) (op : Op) : WOpts := { o with priority := (bindingPriorities op).1, right := some op }
/-- the options of the right operand of `op` -/
def oR (o : WOpts) (op : Op) : WOpts := { o with priority := (bindingPriorities op).2, left := some op }

theorem writePrefix_oc (e : Env) (f : String) (wa : WOpts → List Char) (o : WOpts) (op : Op) (hq : o.quoted = true)
    (h : prefixOC o op = true) :
    writePrefix e f wa o op = sp o.left.isSome ++ ['('] ++ atomText e.cfg f.toList ++ wa (oR o.bare op) ++ [')'] := by
  have : writePrefix e f wa o op = sp o.left.isSome ++ (if prefixOC o op then ['('] else []) ++
      writeAtom e (inner (prefixOC o op) o).bare f.toList ++ wa (oR (inner (prefixOC o op) o) op) ++
      (if prefixOC o op then [')'] else []) := rfl
  rw [this, h]
  simp only [inner, if_true]
  rw [writeAtom_bare e o.bare.bare f.toList hq rfl rfl]

theorem writePrefix_no (e : Env) (f : String) (wa : WOpts → List Char) (o : WOpts) (op : Op) (hq : o.quoted = true)
    (h : prefixOC o op = false) :
    writePrefix e f wa o op = sp o.left.isSome ++ atomText e.cfg f.toList ++ wa (oR o op) := by
  have : writePrefix e f wa o op = sp o.left.isSome ++ (if prefixOC o op then ['('] else []) ++
      writeAtom e (inner (prefixOC o op) o).bare f.toList ++ wa (oR (inner (prefixOC o op) o) op) ++
      (if prefixOC o op then [')'] else []) := rfl
  rw [this, h]
  simp only [inner, Bool.false_eq_true, if_false, List.append_nil]
  rw [writeAtom_bare e o.bare f.toList hq rfl rfl]

theorem tPrefix_oc (e : Env) (f : String) (ta : WOpts → List Token) (o : WOpts) (op : Op) (h : prefixOC o op = true) :
    tPrefix e f ta o op = [openTok o.left.isSome] ++ atomTokens e.cfg f.toList ++ ta (oR o.bare op) ++ [closeTok] := by
  unfold tPrefix
  simp only [h, if_true, inner]
  rfl

theorem tPrefix_no (e : Env) (f : String) (ta : WOpts → List Token) (o : WOpts) (op : Op) (h : prefixOC o op = false) :
    tPrefix e f ta o op = atomTokens e.cfg f.toList ++ ta (oR o op) := by
  unfold tPrefix
  simp only [h, Bool.false_eq_true, if_false, inner, List.nil_append, List.append_nil]
  rfl

theorem writePostfix_oc (e : Env) (f : String) (wa : WOpts → List Char) (o : WOpts) (op : Op) (hq : o.quoted = true)
    (h : postfixOC o op = true) :
    writePostfix e f wa o op = sp o.left.isSome ++ ['('] ++ wa (oL o.bare op) ++ atomText e.cfg f.toList ++ [')'] := by
  have : writePostfix e f wa o op = (if postfixOC o op then sp o.left.isSome ++ ['('] else []) ++
      wa (oL (inner (postfixOC o op) o) op) ++ writeAtom e (inner (postfixOC o op) o).bare f.toList ++
      (if postfixOC o op then [')'] else sp (inner (postfixOC o op) o).right.isSome) := rfl
  rw [this, h]
  simp only [inner, if_true]
  rw [writeAtom_bare e o.bare.bare f.toList hq rfl rfl]

theorem writePostfix_no (e : Env) (f : String) (wa : WOpts → List Char) (o : WOpts) (op : Op) (hq : o.quoted = true)
    (h : postfixOC o op = false) :
    writePostfix e f wa o op = wa (oL o op) ++ atomText e.cfg f.toList ++ sp o.right.isSome := by
  have : writePostfix e f wa o op = (if postfixOC o op then sp o.left.isSome ++ ['('] else []) ++
      wa (oL (inner (postfixOC o op) o) op) ++ writeAtom e (inner (postfixOC o op) o).bare f.toList ++
      (if postfixOC o op then [')'] else sp (inner (postfixOC o op) o).right.isSome) := rfl
  rw [this, h]
  simp only [inner, Bool.false_eq_true, if_false, List.nil_append]
  rw [writeAtom_bare e o.bare f.toList hq rfl rfl]

theorem tPostfix_oc (e : Env) (f : String) (ta : WOpts → List Token) (o : WOpts) (op : Op) (h : postfixOC o op = true) :
    tPostfix e f ta o op = [openTok o.left.isSome] ++ ta (oL o.bare op) ++ atomTokens e.cfg f.toList ++ [closeTok] := by
  unfold tPostfix
  simp only [h, if_true, inner]
  rfl

theorem tPostfix_no (e : Env) (f : String) (ta : WOpts → List Token) (o : WOpts) (op : Op) (h : postfixOC o op = false) :
    tPostfix e f ta o op = ta (oL o op) ++ atomTokens e.cfg f.toList := by
  unfold tPostfix
  simp only [h, Bool.false_eq_true, if_false, inner, List.nil_append, List.append_nil]
  rfl

theorem infix_opText (e : Env) (f : String) (o : WOpts) (hq : o.quoted = true) :
    (if f = "," ∨ f = "|" then f.toList else writeAtom e o.bare f.toList) = opText e f := by
  unfold opText
  rw [writeAtom_bare e o.bare f.toList hq rfl rfl]

theorem writeInfix_oc (e : Env) (f : String) (wa wb : WOpts → List Char) (o : WOpts) (op : Op) (hq : o.quoted = true)
    (h : infixOC o op = true) :
    writeInfix e f wa wb o op =
      sp (isPrefixOp o.left) ++ ['('] ++ wa (oL o.bare op) ++ opText e f ++ wb (oR o.bare op) ++ [')'] := by
  have : writeInfix e f wa wb o op = (if infixOC o op then sp (isPrefixOp o.left) ++ ['('] else []) ++
      wa (oL (inner (infixOC o op) o) op) ++
      (if f = "," ∨ f = "|" then f.toList else writeAtom e (inner (infixOC o op) o).bare f.toList) ++
      wb (oR (inner (infixOC o op) o) op) ++ (if infixOC o op then [')'] else []) := rfl
  rw [this, h]
  simp only [inner, if_true]
  rw [infix_opText e f o.bare hq]

theorem writeInfix_no (e : Env) (f : String) (wa wb : WOpts → List Char) (o : WOpts) (op : Op) (hq : o.quoted = true)
    (h : infixOC o op = false) :
    writeInfix e f wa wb o op = wa (oL o op) ++ opText e f ++ wb (oR o op) := by
  have : writeInfix e f wa wb o op = (if infixOC o op then sp (isPrefixOp o.left) ++ ['('] else []) ++
      wa (oL (inner (infixOC o op) o) op) ++
      (if f = "," ∨ f = "|" then f.toList else writeAtom e (inner (infixOC o op) o).bare f.toList) ++
      wb (oR (inner (infixOC o op) o) op) ++ (if infixOC o op then [')'] else []) := rfl
  rw [this, h]
  simp only [inner, Bool.false_eq_true, if_false, List.nil_append, List.append_nil]
  rw [infix_opText e f o hq]

theorem tInfix_oc (e : Env) (f : String) (ta tb : WOpts → List Token) (o : WOpts) (op : Op) (h : infixOC o op = true) :
    tInfix e f ta tb o op =
      [openTok (isPrefixOp o.left)] ++ ta (oL o.bare op) ++ opToks e f ++ tb (oR o.bare op) ++ [closeTok] := by
  unfold tInfix
  simp only [h, if_true, inner]
  rfl

theorem tInfix_no (e : Env) (f : String) (ta tb : WOpts → List Token) (o : WOpts) (op : Op) (h : infixOC o op = false) :
    tInfix e f ta tb o op = ta (oL o op) ++ opToks e f ++ tb (oR o op) := by
  unfold tInfix
  simp only [h, Bool.false_eq_true, if_false, inner, List.nil_append, List.append_nil]
  rfl

/-! ## compound terms: the first character -/

theorem fc_prefix (e : Env) (f : String) (wa : WOpts → List Char) (o : WOpts) (op lo : Op) (hl : o.left = some lo) :
    FirstOK e lo (writePrefix e f wa o op) := by
  have : writePrefix e f wa o op = sp o.left.isSome ++ ((if prefixOC o op then ['('] else []) ++
      writeAtom e (inner (prefixOC o op) o).bare f.toList ++ wa (oR (inner (prefixOC o op) o) op) ++
      (if prefixOC o op then [')'] else [])) := by
    simp only [← List.append_assoc]; rfl
  rw [this, hl]
  exact FirstOK.of_head (c := ' ') (by simp [sp]) punct_space

theorem fc_postfix (e : Env) (f : String) (wa : WOpts → List Char) (o : WOpts) (hq : o.quoted = true) (op lo : Op)
    (hl : o.left = some lo)
    (FCa : ∀ o' : WOpts, o'.left = some lo → o'.ignoreOps = o.ignoreOps → o'.quoted = o.quoted → o'.ops = o.ops →
      FirstOK e lo (wa o')) : FirstOK e lo (writePostfix e f wa o op) := by
  cases hoc : postfixOC o op with
  | true =>
    rw [writePostfix_oc e f wa o op hq hoc, hl]
    exact FirstOK.of_head (c := ' ') (by simp [sp]) punct_space
  | false =>
    rw [writePostfix_no e f wa o op hq hoc, List.append_assoc]
    exact (FCa (oL o op) hl rfl rfl rfl).append _

theorem fc_infix (e : Env) (f : String) (wa wb : WOpts → List Char) (o : WOpts) (hq : o.quoted = true) (op lo : Op)
    (hl : o.left = some lo)
    (FCa : ∀ o' : WOpts, o'.left = some lo → o'.ignoreOps = o.ignoreOps → o'.quoted = o.quoted → o'.ops = o.ops →
      FirstOK e lo (wa o')) : FirstOK e lo (writeInfix e f wa wb o op) := by
  cases hoc : infixOC o op with
  | true =>
    rw [writeInfix_oc e f wa wb o op hq hoc]
    simp only [List.append_assoc]
    exact FirstOK.spaced _ _ (fun _ => FirstOK.of_head (c := '(') (by simp) punct_open)
  | false =>
    rw [writeInfix_no e f wa wb o op hq hoc, List.append_assoc]
    exact (FCa (oL o op) hl rfl rfl rfl).append _

theorem fc_functor (e : Env) (hcap : CapOK e.cfg) (o : WOpts) (hq : o.quoted = true) (f : String) (lo : Op)
    (hl : o.left = some lo) : FirstOK e lo (writeFunctor e o f) := by
  unfold writeFunctor
  split
  · exact FirstOK.of_head (c := ' ') (by simp) punct_space
  · exact fc_atom e hcap { o with right := none } hq f.toList lo hl

/-- the first character of a term written to the right of the operator `lo` -/
theorem fc_term (e : Env) (G : UInt64 → GText) (P : UInt64 → Bool) (he : EnvOK e G P) (hs : SignOK G P)
    (hcap : CapOK e.cfg) (ops : Table) (lo : Op) :
    (t : Term) → (o : WOpts) → wfTerm t = true → numsOK P t = true → noVAR t = true → QO ops o →
      o.left = some lo → FirstOK e lo (writeTerm e t o)
  | .var v, o, _, _, _, _, hl => by
    simp only [writeTerm]
    exact fc_var e G P he o v lo hl
  | .atom a, o, _, _, _, hq, hl => by
    simp only [writeTerm]
    exact fc_atom e hcap o hq.quo a.toList lo hl
  | .int i, o, _, hn, _, _, hl => by
    simp only [numsOK, decide_eq_true_eq] at hn
    simp only [writeTerm]
    exact fc_int e o i lo hn.1 hn.2 hl
  | .flt b, o, _, hn, _, _, hl => by
    simp only [numsOK] at hn
    simp only [writeTerm]
    exact fc_float e G P he hs o b lo hn hl
  | .str _, _, hw, _, _, _, _ => by simp [wfTerm] at hw
  | .app f .nil, _, hw, _, _, _, _ => by simp [wfTerm] at hw
  | .app f (.cons a0 .nil), o, hw, hn, hv, hq, hl => by
    simp only [wfTerm, wfArgs, Bool.and_eq_true] at hw
    simp only [numsOK, numsOKArgs, Bool.and_eq_true] at hn
    simp only [noVAR, noVARArgs, Bool.and_eq_true, Bool.not_eq_true'] at hv
    have hnv := numberVarsOf_none o f a0 hv.1
    simp only [writeTerm, writeCompound, hnv, hq.ign, Bool.false_eq_true, if_false]
    by_cases hcurly : f = "{}"
    · simp only [hcurly, if_true]
      exact FirstOK.of_head (c := '{') (by simp) (by simp [Punct])
    · simp only [hcurly, if_false]
      cases hp : pickOp o.ops f 1 with
      | none =>
        simp only [List.append_assoc]
        exact (fc_functor e hcap o hq.quo f lo hl).append _
      | some opr =>
        simp only []
        split
        · exact fc_prefix e f _ o opr lo hl
        · exact fc_postfix e f _ o hq.quo opr lo hl
            (fun o' hl' h1 h2 h3 => fc_term e G P he hs hcap ops lo a0 o' hw.1 hn.1 hv.2.1 (hq.of_eq h1 h2 h3) hl')
  | .app f (.cons a0 (.cons a1 .nil)), o, hw, hn, hv, hq, hl => by
    simp only [wfTerm, wfArgs, Bool.and_eq_true] at hw
    simp only [numsOK, numsOKArgs, Bool.and_eq_true] at hn
    simp only [noVAR, noVARArgs, Bool.and_eq_true, Bool.not_eq_true'] at hv
    simp only [writeTerm, writeCompound, hq.ign, Bool.false_eq_true, if_false]
    by_cases hdot : f = "."
    · simp only [hdot, if_true]
      exact FirstOK.of_head (c := '[') (by simp) (by simp [Punct])
    · simp only [hdot, if_false]
      cases hp : pickOp o.ops f 2 with
      | none =>
        simp only [List.append_assoc]
        exact (fc_functor e hcap o hq.quo f lo hl).append _
      | some opr =>
        simp only []
        exact fc_infix e f _ _ o hq.quo opr lo hl
          (fun o' hl' h1 h2 h3 => fc_term e G P he hs hcap ops lo a0 o' hw.1 hn.1 hv.2.1 (hq.of_eq h1 h2 h3) hl')
  | .app f (.cons a0 (.cons a1 (.cons a2 rest))), o, hw, hn, hv, hq, hl => by
    simp only [writeTerm, writeCompound, List.append_assoc]
    exact (fc_functor e hcap o hq.quo f lo hl).append _

end PrologVerif.Write
