/-
  The model of the Go `Compare` methods (Model/Order.lean) against the specification order:
  equal on all NaN-free terms; antisymmetric on ALL terms.
-/
import PrologVerif.Proofs.OrderSpec
import PrologVerif.Proofs.Utf8
namespace PrologVerif.OrderProofs
open PrologVerif PrologVerif.Order PrologVerif.OrderSpec

theorem cmpText_lawful : Lawful cmpText := by
  constructor
  · intro x y; simp only [cmpText_eq]; exact cmpCodePoints_lawful.swap _ _
  · intro x y z; simp only [cmpText_eq]; exact cmpCodePoints_lawful.trans _ _ _

/-! ### the model computes the specification order (NaN-free terms) -/

mutual
  theorem compare_eq_std : ∀ x y : Term, noNaN x = true → noNaN y = true →
      Order.compare x y = stdCompare x y
    | .var v, y => by
      cases y <;> simp [Order.compare, compareVar, stdCompare, rank, cmpNat_eq, cmpOfLt]
    | .flt f, y => by
      cases y <;> simp [Order.compare, compareFloat, stdCompare, rank, cmpOfLt, noNaN]
      intro h1 h2; rw [cmpFlt_eq _ _ h1 h2]; simp [cmpOfLt]
    | .int i, y => by
      cases y <;> simp [Order.compare, compareInt, stdCompare, rank, cmpInt_eq, cmpOfLt]
    | .atom a, y => by
      cases y <;> simp [Order.compare, compareAtom, stdCompare, rank, cmpText_eq, cmpOfLt]
    | .str s, y => by
      cases y <;> simp [Order.compare, compareStream, stdCompare, rank, cmpNat_eq, cmpOfLt]
    | .app f as, y => by
      cases y with
      | app g bs =>
        simp only [Order.compare, stdCompare, noNaN, cmpNat_eq, cmpText_eq]
        intro hx hy
        by_cases hl : as.length = bs.length
        · rw [compareArgs_eq_std as bs hl hx hy]
        · have : cmpOfLt (· < ·) as.length bs.length ≠ .eq := by rw [Ne, cmpOfLt_nat_eq]; exact hl
          cases h : cmpOfLt (· < ·) as.length bs.length <;> simp_all [Ordering.then]
      | _ => simp [Order.compare, stdCompare, rank, cmpOfLt]
  theorem compareArgs_eq_std : ∀ as bs : Args, as.length = bs.length →
      noNaNArgs as = true → noNaNArgs bs = true → compareArgs as bs = stdCompareArgs as bs
    | .nil, bs => by cases bs <;> simp [compareArgs, stdCompareArgs, Args.length]
    | .cons a as, bs => by
      cases bs with
      | nil => simp [Args.length]
      | cons b bs =>
        simp only [compareArgs, stdCompareArgs, noNaNArgs, Args.length, Bool.and_eq_true]
        intro hl ⟨h1, h2⟩ ⟨h3, h4⟩
        rw [compare_eq_std a b h1 h3, compareArgs_eq_std as bs (by omega) h2 h4]
end

/-! ### antisymmetry of the model on ALL terms (NaN included) -/

mutual
  theorem compare_swap : ∀ x y : Term, Order.compare y x = (Order.compare x y).swap
    | .var v, y => by
      cases y <;> simp [Order.compare, compareVar, compareFloat, compareInt, compareAtom, compareStream,
        Ordering.swap, cmpNat_eq]
      exact cmpOfLt_nat_lawful.swap _ _
    | .flt f, y => by
      cases y <;> simp [Order.compare, compareVar, compareFloat, compareInt, compareAtom, compareStream,
        Ordering.swap]
      exact cmpFlt_swap _ _
    | .int i, y => by
      cases y <;> simp [Order.compare, compareVar, compareFloat, compareInt, compareAtom, compareStream,
        Ordering.swap, cmpInt_eq]
      exact cmpOfLt_int_lawful.swap _ _
    | .atom a, y => by
      cases y <;> simp [Order.compare, compareVar, compareFloat, compareInt, compareAtom, compareStream,
        Ordering.swap]
      exact cmpText_lawful.swap _ _
    | .str s, y => by
      cases y <;> simp [Order.compare, compareVar, compareFloat, compareInt, compareAtom, compareStream,
        Ordering.swap, cmpNat_eq]
      exact cmpOfLt_nat_lawful.swap _ _
    | .app f as, y => by
      cases y with
      | app g bs =>
        simp only [Order.compare, Ordering.swap_then, cmpNat_eq]
        rw [cmpOfLt_nat_lawful.swap as.length, cmpText_lawful.swap f, compareArgs_swap as bs]
      | _ => simp [Order.compare, compareVar, compareFloat, compareInt, compareAtom, compareStream,
        Ordering.swap]
  theorem compareArgs_swap : ∀ as bs : Args, compareArgs bs as = (compareArgs as bs).swap
    | .nil, bs => by cases bs <;> simp [compareArgs, Ordering.swap]
    | .cons a as, bs => by
      cases bs with
      | nil => simp [compareArgs, Ordering.swap]
      | cons b bs =>
        simp only [compareArgs, Ordering.swap_then]
        rw [compare_swap a b, compareArgs_swap as bs]
end

/-! ### `ListIterator` on the lists the theorems talk about -/

theorem spine_list_nil : ∀ xs : List Term, (Term.list xs).spine = (xs, Term.nilT)
  | [] => rfl
  | a :: as => by
    have ih := spine_list_nil as
    simp only [Term.list, List.foldr, Term.consT, Term.spine, Args.spineArgs] at ih ⊢
    simp [ih]

theorem spine_list_var (v : Nat) : ∀ xs : List Term, (Term.list xs (.var v)).spine = (xs, .var v)
  | [] => rfl
  | a :: as => by
    have ih := spine_list_var v as
    simp only [Term.list, List.foldr, Term.consT, Term.spine, Args.spineArgs] at ih ⊢
    simp [ih]

end PrologVerif.OrderProofs
