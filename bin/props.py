"""Per-property configuration of bin/check (streams, sizes, trusted base). See DESIGN.md §6."""

COMMON_TRUSTED = [
    "Lean 4.33.0 kernel (thorough tier: re-checked with leanchecker); axioms allowed in property theorems: propext, Classical.choice, Quot.sound only (audited on every run by PrologVerif/Audit.lean); no sorry/admit/native_decide/bv_decide/own axioms (grep on every run)",
    "hand-written Lean model mirrors the Go code: CHECKED by the correspondence streams (differential testing, bounded by the generators; distributions are in this file), not proved",
    "/verif/extract (regenerated facts / translated definitions) and /verif/harness (in-process runner, canonicalisation: variables renamed by first occurrence, map-ordered output sorted, error context dropped)",
    "Go compiler/runtime and standard library behave as documented",
]

NOT_APPLICABLE = {}

PROPS = {
    "C05": dict(
        level_text="Proof, PARTIAL (as designed, DESIGN.md §6 C05): kernel-checked for ALL inputs are (a) the error constructors of exception.go over their regenerated vocabulary tables only build ISO error terms, and the residue of a recovered Go panic is not one (C05_errors_iso, C05_error_tables_iso, C05_panic_not_iso); (b) the token-level term reader of parser.go (term/termLoop/term0/term0Atom/arg/list/curly/openClose/functionalNotation/prefix/infix/op/atom/name over an explicit token buffer with explicit backup()) terminates on every token list under every operator table (C05_parser_terminates: every call consumes input or moves to a function of smaller rank) and its buffer stays in step with what was read — every backup() undoes a token delivered to the same call (C05_ring_buffer_sound, C05_read_terminates_sound); on the model of the PINNED reader the negations are proved (C05_parser_terminates_witness: '[-' diverges for every fuel = the stack overflow D1; C05_ring_buffer_sound_witness: the 4-slot ring aliases and skips tokens, D20; C05_backup_at_eof_witness, D21); (c) the procedure list the matrix runs over is the regenerated list of Register* calls + bootstrap.pl heads (C05_builtins_tie). NOT proved, only driven on the real code in an isolated worker process: the ~150 procedures themselves (c05.matrix: every procedure x argument-shape vectors, oracle = returned, process alive, error is an ISO error term by the Lean predicate isIsoError, no panic residue), and whole-text handling by Query/Exec (c05.text: grammar-generated, mutated, truncated, raw bytes, every string of <= 4 tokens over a 16-token alphabet).",
        level_note="Trusted: Lean kernel; the hand-written model of the token-level reader (checked against the real Parser result by result on ~10^4..10^5 token lists incl. all of length <= 4 over 16 tokens; 0 disagreements), the lexer is NOT part of this model (C06); extractor for exception.go/interpreter.go tables; the matrix/text oracles are observations bounded by the generators (41 argument shapes, pairwise for arity >= 3). halt/0,1 excluded; cyclic terms and memory-bound inputs excluded by the property.",
        technique="Lean 4: termination/soundness of the recursive-descent reader by induction on fuel with a lexicographic measure over a zipper model of the token buffer; decidable ISO-error predicate over regenerated tables; divergence witness for the pinned code; isolated-process matrix and text fuzzing of the real engine judged by the Lean predicate",
        lean_module="PrologVerif.Properties.C05",
        ns="PrologVerif.C05",
        thorough_seeds=1,
        streams=[
            dict(name="c05.matrix", quick=4000, thorough=100000, isolated=True, case_timeout=15, no_model_compare=True),
            dict(name="c05.text", quick=2500, thorough=30000, isolated=True, case_timeout=15, no_model_compare=True),
            dict(name="c05.parse", quick=3000, thorough=60000, isolated=True, case_timeout=15),
        ],
        rule="c05.matrix: goal p(t1..tn) for every procedure of a fresh interpreter (hook VerifProcedures; halt/0,1 excluded) x vectors over 41 argument shapes (unbound, atom, [], 1, 0, 10^14, -1, minInt, maxInt, 1.5, f(_), (true,!), (a,b), (true,1), [a,b], [1,2], [a|_], [a|b], \"ab\" as chars / codes, append/3-built lists over charList/codeList closed and open, f(L) with such an L, text-in / text-out / binary-in stream, closed stream, user_input, user_output, and 12 values that pass specific argument checks: foo, read, write, double_quotes, foo/1, [b-2,a-1], [quoted(true)], [type(binary)], [variable_names(['X'=_])], 1114112, a 1500-deep term, a 1500-element list): arity <= 2 all vectors, arity 3..8 a pairwise-covering array (41^2 rows); the quick tier runs this complete matrix over 19 core shapes plus a uniform sample of the rest, the thorough tier all of it — non-trivial = the call raised an error term (an argument check fired and the oracle judged its result). c05.text: non-trivial = Query or Exec took an error path. c05.parse: non-trivial = at least 2 tokens. distinct = distinct case text",
        trusted=[
            "modelled (hand-written, correspondence-checked on c05.parse): engine/parser.go next/backup/current (tokenBuffer), name, atom, op, prefix, infix, term (incl. its infix loop), term0, term0Atom, openClose, curlyBracketedTerm, list, functionalNotation, arg, Term, More; variable numbering; integer() for small decimals",
            "regenerated from source on every run: the eight vocabulary tables, the constructors and typed wrappers of engine/exception.go, every atomError.Apply site outside it, the format string of promise.go panicError (Generated/ErrorAtoms.lean); every Register* call of interpreter.go and every clause head of bootstrap.pl (Generated/Builtins.lean); the default operator table (Generated/Bootstrap.lean)",
            "specification typed in from ISO/IEC 13211-1 7.12.2 (+Cor.2): Spec/IsoError.lean (vocabularies, isIsoFormal/isIsoError); the three extensions pair, float, order are listed explicitly and proved to be the only ones",
            "not modelled, observed through the isolated worker only: every builtin of engine/builtin.go, the VM, the lexer, float/escape conversion of tokens, Parser.number, placeholders",
        ],
        modelled={"hand_modelled": ["Parser.next", "Parser.backup", "Parser.current", "tokenBuffer", "Parser.name", "Parser.atom", "Parser.op", "Parser.prefix", "Parser.infix", "Parser.term", "Parser.term0", "Parser.term0Atom", "Parser.openClose", "Parser.curlyBracketedTerm", "Parser.list", "Parser.functionalNotation", "Parser.arg", "Parser.Term", "Parser.More", "Parser.variable", "exception.go constructors", "promise.go panicError", "builtin.go Catch (error wrapping)"],
                  "regenerated": ["exception.go tables/constructors", "interpreter.go Register* calls", "bootstrap.pl heads and op/3 directives"],
                  "observed_only": ["every procedure of engine/builtin.go (c05.matrix)", "Interpreter.Query / Exec on arbitrary bytes (c05.text)", "Lexer"]},
        assumptions=["the lexer delivers a finite token list and then its error forever (true for the string readers of Query/Exec; the lexer itself is C06's model)",
                     "argument shapes of the matrix are the 41 listed ones; cyclic terms, halt/0,1 and inputs beyond the memory bound are excluded by the property"],
    ),
    "C18": dict(
        level_text="Proof: the operator-table state machine (Op/validateOp/CurrentOp and the operators methods) is modelled in Lean; for ALL histories of op/3 calls with arbitrary argument terms the ISO invariant (C18_inv), atomicity of failed updates (C18_atomic), the exact effect of successful updates (C18_update_exact: latest wins, 0 removes, other classes kept) and exactness of current_op/3 (C18_current_op_exact) are kernel-checked theorems, the default table being regenerated from bootstrap.pl. The model is tied to the Go code by the c18.hist correspondence stream (impl vs model, plus an independent executable ISO specification as oracle, plus reader/writer probes).",
        level_note="Trusted: Lean kernel; the hand-written model of Op/validateOp/CurrentOp (checked by differential runs, not proved); harness canonicalisation; reader/writer use of the table is only probed, not modelled. Pattern variables of current_op/3 assumed pairwise distinct.",
        technique="Lean 4 invariant proof by induction over op/3 histories + regenerated default table + model/implementation correspondence",
        lean_module="PrologVerif.Properties.C18",
        ns="PrologVerif.C18",
        streams=[dict(name="c18.hist", quick=3000, thorough=40000)],
        rule="histories of 1..8 operations over op/3 (valid and invalid priorities, specifiers, names, lists with invalid members, partial lists, special names , | [] {}), current_op/3 in every instantiation pattern, and a reader/writer probe; generated from one PRNG (VERIF_SEED); non-trivial = at least two op/3 calls in the history changed the table, or one changed it and another was rejected; distinct = distinct case text",
        trusted=[
            "modelled (hand-written, correspondence-checked): engine/builtin.go Op, validateOp, appendUniqNewAtom, CurrentOp; engine/parser.go operators.define/remove/definedInClass; ListIterator as used by Op",
            "regenerated from source on every run: the default operator table = the op/3 directives of bootstrap.pl read by the real parser (Generated/Bootstrap.lean); C18_default_valid is re-proved against it by kernel evaluation",
            "not modelled: the reader and writer themselves (only probed: 'a n b', 'n a', 'a n' parse / writeq(n(a,b)), writeq(n(a)) print according to the table); Go map iteration order (answers compared as sets)",
        ],
        modelled={"hand_modelled": ["Op", "validateOp", "appendUniqNewAtom", "CurrentOp", "operators.define", "operators.remove", "operators.definedInClass"],
                  "regenerated": ["bootstrap.pl op/3 directives"], "observed_only": ["Parser (probe)", "WriteCompound (probe)"]},
        assumptions=["pattern variables of current_op/3 calls are pairwise distinct (the model matches argument-wise)"],
    ),
}
