package main

// C03/C04/C13 at the trampoline level: random promise TREES are built from the exported
// constructors (Delay/Bool/Error) and the hook wrappers of cut/catch/repeat, forced on the real
// trampoline with a context whose Done channel becomes ready at an exact iteration, and compared
// with the Lean model of Force (and judged by the recursive reference search).
//
// Tree description = a term in wire format:
//   ok | fail | err(E) | delay(Id, [T…]) | cut(ParentId, T) | catch(Flag, [E-T,…], T) | rep(T)
//   | log(N, T) | set(Flag, true|false, T)
// payload: "<cancelAt or -> | <tree>"

import (
	"context"
	"errors"
	"fmt"
	"math/rand"
	"strings"
	"time"

	"github.com/ichiban/prolog/engine"
)

func init() {
	register(&stream{name: "c03.force", gen: genC03Force, run: runC03Force})
}

// countingCtx: Done() is called exactly once per iteration of every Force; the channel it returns is
// ready from call number cancelAt on.
type countingCtx struct {
	calls    int
	cancelAt int // -1 = never
	closed   chan struct{}
	open     chan struct{}
}

func newCountingCtx(cancelAt int) *countingCtx {
	c := &countingCtx{cancelAt: cancelAt, closed: make(chan struct{}), open: make(chan struct{})}
	close(c.closed)
	return c
}

func (c *countingCtx) Deadline() (time.Time, bool) { return time.Time{}, false }
func (c *countingCtx) Done() <-chan struct{} {
	i := c.calls
	c.calls++
	if c.cancelAt >= 0 && i >= c.cancelAt {
		return c.closed
	}
	if i >= countingCtxCap {
		// a trampoline that is still running after this many iterations on a tree of a few dozen nodes
		// does not terminate: stop it (the result "cancelled" with this count is then judged)
		return c.closed
	}
	return c.open
}
func (c *countingCtx) Err() error {
	if (c.cancelAt >= 0 && c.calls > c.cancelAt) || c.calls > countingCtxCap {
		return context.Canceled
	}
	return nil
}

const countingCtxCap = 300000
func (c *countingCtx) Value(interface{}) interface{} { return nil }

type treeErr int

func (e treeErr) Error() string { return fmt.Sprintf("treeErr%d", int(e)) }

type treeRun struct {
	trace   []int
	flags   map[int]bool
	created map[int]*engine.Promise
	thunks  int
	maxThunks int
}

func intArg(t engine.Term) int { return int(t.(engine.Integer)) }

func listElems(t engine.Term) []engine.Term {
	var out []engine.Term
	for {
		c, ok := t.(engine.Compound)
		if !ok || c.Functor().String() != "." || c.Arity() != 2 {
			return out
		}
		out = append(out, c.Arg(0))
		t = c.Arg(1)
	}
}

// thunk returns the Go closure for a tree description.
func (r *treeRun) thunk(t engine.Term) func(context.Context) *engine.Promise {
	return func(context.Context) *engine.Promise {
		r.thunks++
		if r.thunks > r.maxThunks {
			return engine.Error(errors.New("harness: thunk budget exceeded"))
		}
		return r.promise(t)
	}
}

func (r *treeRun) promise(t engine.Term) *engine.Promise {
	switch t := t.(type) {
	case engine.Atom:
		switch t.String() {
		case "ok":
			return engine.Bool(true)
		case "fail":
			return engine.Bool(false)
		}
	case engine.Compound:
		switch t.Functor().String() {
		case "err":
			return engine.Error(treeErr(intArg(t.Arg(0))))
		case "delay":
			var ks []func(context.Context) *engine.Promise
			for _, a := range listElems(t.Arg(1)) {
				ks = append(ks, r.thunk(a))
			}
			p := engine.Delay(ks...)
			r.created[intArg(t.Arg(0))] = p
			return p
		case "cut":
			return engine.VerifCut(r.created[intArg(t.Arg(0))], r.thunk(t.Arg(1)))
		case "catch":
			flag := intArg(t.Arg(0))
			handles := map[int]engine.Term{}
			for _, h := range listElems(t.Arg(1)) {
				c := h.(engine.Compound)
				if _, dup := handles[intArg(c.Arg(0))]; !dup {
					handles[intArg(c.Arg(0))] = c.Arg(1)
				}
			}
			return engine.VerifCatch(func(err error) *engine.Promise {
				active, set := r.flags[flag]
				if set && !active {
					return nil
				}
				var te treeErr
				if !errors.As(err, &te) {
					return nil
				}
				h, ok := handles[int(te)]
				if !ok {
					return nil
				}
				return r.promise(h)
			}, r.thunk(t.Arg(2)))
		case "rep":
			return engine.VerifRepeat(r.thunk(t.Arg(0)))
		case "log":
			r.trace = append(r.trace, intArg(t.Arg(0)))
			return r.promise(t.Arg(1))
		case "set":
			r.flags[intArg(t.Arg(0))] = t.Arg(1).(engine.Atom).String() == "true"
			return r.promise(t.Arg(2))
		}
	}
	panic(fmt.Sprintf("bad tree %v", t))
}

func runC03Force(payload string) string {
	f := strings.SplitN(payload, " | ", 2)
	cancelAt := -1
	if f[0] != "-" {
		fmt.Sscanf(f[0], "%d", &cancelAt)
	}
	d := newTermDecoder()
	ts, err := d.terms(f[1])
	must(err)
	r := &treeRun{flags: map[int]bool{}, created: map[int]*engine.Promise{}, maxThunks: 5000}
	ctx := newCountingCtx(cancelAt)
	root := r.promise(ts[0])
	ok, ferr := root.Force(ctx)
	var res string
	switch {
	case ferr == nil && ok:
		res = "yes"
	case ferr == nil:
		res = "no"
	case errors.Is(ferr, context.Canceled):
		res = "cancelled"
	default:
		var te treeErr
		if errors.As(ferr, &te) {
			res = fmt.Sprintf("error %d", int(te))
		} else {
			res = "goerr " + encName(ferr.Error())
		}
	}
	if r.thunks > r.maxThunks {
		return "BUDGET ### nt=0 res=budget"
	}
	var sb strings.Builder
	for i, n := range r.trace {
		if i > 0 {
			sb.WriteByte(' ')
		}
		fmt.Fprintf(&sb, "%d", n)
	}
	nt := 0
	txt := f[1]
	if strings.Contains(txt, "cut") || strings.Contains(txt, "catch") {
		nt = 1
	}
	return fmt.Sprintf("%s ; iters=%d ; trace=[%s] ### nt=%d res=%s cancel=%v", res, ctx.calls, sb.String(), nt, strings.Fields(res)[0], cancelAt >= 0)
}

// ---------------------------------------------------------------------------
// generator
// ---------------------------------------------------------------------------

type treeGen struct {
	r       *rand.Rand
	nextID  int
	nextLog int
	nflags  int
	wellScoped bool
}

func tInt(n int) engine.Term { return engine.Integer(n) }

func (g *treeGen) leaf() engine.Term {
	switch k := g.r.Intn(20); {
	case k < 15:
		return atom("fail")
	case k < 17:
		return atom("ok")
	default:
		return compound("err", tInt(1+g.r.Intn(2)))
	}
}

// tree generates a subtree; anc = ids of the enclosing delay nodes (innermost last),
// older = ids of delay nodes generated earlier (for ill-scoped cuts).
func (g *treeGen) tree(d int, anc []int, older *[]int) engine.Term {
	g.nextLog++
	me := g.nextLog
	wrap := func(t engine.Term) engine.Term { // most nodes announce themselves in the trace
		if g.r.Intn(4) > 0 {
			return compound("log", tInt(me), t)
		}
		return t
	}
	if d <= 0 {
		return wrap(g.leaf())
	}
	switch k := g.r.Intn(20); {
	case k < 4:
		return wrap(g.leaf())
	case k < 11:
		g.nextID++
		id := g.nextID
		*older = append(*older, id)
		n := 1 + g.r.Intn(3)
		alts := make([]engine.Term, n)
		for i := range alts {
			alts[i] = g.tree(d-1, append(append([]int{}, anc...), id), older)
		}
		return wrap(compound("delay", tInt(id), engine.List(alts...)))
	case k < 15:
		var parent int
		switch {
		case len(anc) > 0 && (g.wellScoped || g.r.Intn(8) > 0):
			parent = anc[g.r.Intn(len(anc))]
		case g.wellScoped:
			return wrap(g.leaf())
		case len(*older) > 0 && g.r.Intn(2) == 0:
			parent = (*older)[g.r.Intn(len(*older))] // possibly not on the stack any more
		default:
			parent = 900 + g.r.Intn(3) // never allocated: nil -> dummyCutParent
		}
		return wrap(compound("cut", tInt(parent), g.tree(d-1, anc, older)))
	case k < 18:
		g.nflags++
		flag := g.nflags
		nh := 1 + g.r.Intn(2)
		hs := make([]engine.Term, nh)
		for i := range hs {
			hs[i] = compound("-", tInt(1+g.r.Intn(2)), g.tree(d-1, anc, older))
		}
		body := g.tree(d-1, anc, older)
		if g.r.Intn(2) == 0 {
			// the shape the fixed Catch builds: goal exit = a two-alternative promise that disarms the
			// catch while the continuation runs and re-arms it on backtracking
			g.nextID++
			id := g.nextID
			*older = append(*older, id)
			cont := g.tree(d-1, append(append([]int{}, anc...), id), older)
			exit := compound("delay", tInt(id), engine.List(
				compound("set", tInt(flag), atom("false"), cont),
				compound("set", tInt(flag), atom("true"), atom("fail"))))
			g.nextID++
			id2 := g.nextID
			*older = append(*older, id2)
			body = compound("delay", tInt(id2), engine.List(exit, body))
		}
		return wrap(compound("catch", tInt(flag), engine.List(hs...), body))
	case k < 19:
		// repeat over a subtree that eventually stops it: a cut to an ancestor or a success/error
		// (the second alternative cuts to an ancestor OUTSIDE the repeat, which removes the repeating
		// frame: every generated repeat stops after at most one round)
		g.nextID++
		id := g.nextID
		*older = append(*older, id)
		inner := g.tree(d-1, anc, older) // (the helper delay itself is not offered as a cut target)
		stop := compound("cut", tInt(anc[g.r.Intn(len(anc))]), g.leaf())
		return wrap(compound("rep", compound("delay", tInt(id), engine.List(inner, stop))))
	default:
		return wrap(compound("set", tInt(1+g.r.Intn(3)), atom(pick(g.r, []string{"true", "false"})), g.tree(d-1, anc, older)))
	}
}

func genC03Force(r *rand.Rand, n int, tier string) []string {
	var out []string
	for i := 0; i < n; i++ {
		g := &treeGen{r: r, wellScoped: r.Intn(5) > 0}
		var older []int
		g.nextID++
		root := g.nextID
		older = append(older, root)
		k := 1 + r.Intn(3)
		alts := make([]engine.Term, k)
		for j := range alts {
			alts[j] = g.tree(2+r.Intn(4), []int{root}, &older)
		}
		t := compound("delay", tInt(root), engine.List(alts...))
		cancel := "-"
		if r.Intn(4) == 0 {
			cancel = fmt.Sprint(r.Intn(30))
		}
		out = append(out, cancel+" | "+wireRaw(t))
	}
	return out
}
