/-
  Machinery for the clause-activation theorems (Proofs/Activation.lean):

  * substitutions that agree below a bound, terms / environments whose meaning only depends on the
    variables below a bound (`TBelow`, `SolBelow`), renamings (`Term.rename`);
  * `MGUStep N env E N' env'` — "env' is env plus a most general solution of the equations E, up to
    the auxiliary variables [N, N')" and its composition laws;
  * one-instruction equations of `VM.exec`;
  * `GetsR` / `PutsR` — what a run of get- / put-instructions does at run time, with the same
    composition laws as `Reads` in Proofs/DecompileLemmas.lean;
  * `compileArg_sem` — ONE induction over the encodings (`Rep`/`RepList`), generic in the semantic
    predicate, instantiated for head code (`Gets`) and body code (`Puts`).
-/
import PrologVerif.Model.VM
import PrologVerif.Proofs.UnifyOC
import PrologVerif.Proofs.DecompileCompile

namespace PrologVerif

/-- renaming of variables = substitution by variables -/
def Term.rename (ρ : Nat → Nat) (t : Term) : Term := t.subst (fun v => .var (ρ v))
def Args.rename (ρ : Nat → Nat) (as : Args) : Args := as.subst (fun v => .var (ρ v))

end PrologVerif

namespace PrologVerif.Activation
open PrologVerif PrologVerif.VM PrologVerif.DecompileCompile

/-! ## substitutions agreeing below a bound -/

/-- θ and θ' agree on all variables below `N` -/
def AgreeBelow (N : Nat) (θ θ' : Subst) : Prop := ∀ v, v < N → θ v = θ' v

theorem AgreeBelow.refl (N : Nat) (θ : Subst) : AgreeBelow N θ θ := fun _ _ => rfl
theorem AgreeBelow.symm {N : Nat} {θ θ' : Subst} (h : AgreeBelow N θ θ') : AgreeBelow N θ' θ :=
  fun v hv => (h v hv).symm
theorem AgreeBelow.trans {N : Nat} {θ θ' θ'' : Subst} (h : AgreeBelow N θ θ') (h' : AgreeBelow N θ' θ'') :
    AgreeBelow N θ θ'' := fun v hv => (h v hv).trans (h' v hv)
theorem AgreeBelow.mono {N N' : Nat} {θ θ' : Subst} (h : AgreeBelow N' θ θ') (hN : N ≤ N') :
    AgreeBelow N θ θ' := fun v hv => h v (Nat.lt_of_lt_of_le hv hN)

mutual
  theorem subst_congr : ∀ (t : Term) (σ σ' : Subst), (∀ v, t.hasVar v = true → σ v = σ' v) →
      t.subst σ = t.subst σ'
    | .var w, σ, σ', h => by simpa [Term.subst] using h w (by simp [Term.hasVar])
    | .atom _, _, _, _ => rfl
    | .int _, _, _, _ => rfl
    | .flt _, _, _, _ => rfl
    | .str _, _, _, _ => rfl
    | .app f as, σ, σ', h => by
      simp only [Term.subst]
      rw [substArgs_congr as σ σ' (fun v hv => h v (by simpa [Term.hasVar] using hv))]
  theorem substArgs_congr : ∀ (as : Args) (σ σ' : Subst), (∀ v, as.hasVar v = true → σ v = σ' v) →
      as.subst σ = as.subst σ'
    | .nil, _, _, _ => rfl
    | .cons t ts, σ, σ', h => by
      simp only [Args.subst]
      rw [subst_congr t σ σ' (fun v hv => h v (by simp [Args.hasVar, hv])),
        substArgs_congr ts σ σ' (fun v hv => h v (by simp [Args.hasVar, hv]))]
end

/-- the meaning of `t` only depends on the variables below `N` (⇔ all variables of `t` are `< N`) -/
def TBelow (N : Nat) (t : Term) : Prop := ∀ θ θ', AgreeBelow N θ θ' → t.subst θ = t.subst θ'

/-- the solutions of `e` only depend on the variables below `N` (true when all variables of `e`,
    bound ones and those in the bound terms, are `< N`: `SolBelow.of_vars`) -/
def SolBelow (N : Nat) (e : Env) : Prop := ∀ θ θ', AgreeBelow N θ θ' → Sol e θ → Sol e θ'

/-- syntactic form: every variable of `t` is below `N` -/
def VarsLt (N : Nat) (t : Term) : Prop := ∀ v, t.hasVar v = true → v < N

theorem TBelow.of_vars {N : Nat} {t : Term} (h : VarsLt N t) : TBelow N t :=
  fun θ θ' ha => subst_congr t θ θ' (fun v hv => ha v (h v hv))

theorem TBelow.mono {N N' : Nat} {t : Term} (h : TBelow N t) (hN : N ≤ N') : TBelow N' t :=
  fun θ θ' ha => h θ θ' (ha.mono hN)

theorem TBelow.var {N v : Nat} (h : v < N) : TBelow N (.var v) := fun _ _ ha => ha v h

theorem SolBelow.mono {N N' : Nat} {e : Env} (h : SolBelow N e) (hN : N ≤ N') : SolBelow N' e :=
  fun θ θ' ha => h θ θ' (ha.mono hN)

theorem SolBelow.of_vars {N : Nat} {e : Env}
    (h : ∀ v t, e.lookup v = some t → v < N ∧ VarsLt N t) : SolBelow N e := by
  intro θ θ' ha hs v t hl
  obtain ⟨hv, ht⟩ := h v t hl
  rw [← ha v hv, hs v t hl]
  exact TBelow.of_vars ht θ θ' ha

theorem SolBelow.nil (N : Nat) : SolBelow N [] := fun _ _ _ _ v t hl => by simp [Env.lookup] at hl

/-! ## pointwise unification of two lists of terms -/

/-- θ unifies `xs` and `ys` pointwise -/
def UnifiesL (θ : Subst) (xs ys : List Term) : Prop := xs.map (Term.subst θ) = ys.map (Term.subst θ)

theorem UnifiesL.single {θ : Subst} {x y : Term} : UnifiesL θ [x] [y] ↔ x.subst θ = y.subst θ := by
  simp [UnifiesL]

theorem UnifiesL.append {θ : Subst} {xs1 xs2 ys1 ys2 : List Term} (h : xs1.length = ys1.length) :
    UnifiesL θ (xs1 ++ xs2) (ys1 ++ ys2) ↔ UnifiesL θ xs1 ys1 ∧ UnifiesL θ xs2 ys2 := by
  simp only [UnifiesL, List.map_append]
  constructor
  · intro he
    exact List.append_inj he (by simp [h])
  · rintro ⟨h1, h2⟩; rw [h1, h2]

/-- a property of substitutions that only depends on the variables below `N` -/
def EBelow (N : Nat) (E : Subst → Prop) : Prop := ∀ θ θ', AgreeBelow N θ θ' → E θ → E θ'

theorem map_subst_below {N : Nat} {xs : List Term} (h : ∀ x ∈ xs, TBelow N x) {θ θ' : Subst}
    (ha : AgreeBelow N θ θ') : xs.map (Term.subst θ) = xs.map (Term.subst θ') :=
  List.map_congr_left (fun x hx => h x hx θ θ' ha)

theorem EBelow.unifiesL {N : Nat} {xs ys : List Term} (hx : ∀ x ∈ xs, TBelow N x)
    (hy : ∀ y ∈ ys, TBelow N y) : EBelow N (fun θ => UnifiesL θ xs ys) := by
  intro θ θ' ha h
  simp only [UnifiesL] at h ⊢
  rw [← map_subst_below hx ha, ← map_subst_below hy ha]; exact h

/-! ## "env' = env + mgu of E, up to the auxiliary variables [N, N')" -/

/-- `env'` extends `env` by a most general solution of the equations `E`:
    a substitution (looked at below `N`) extends to a solution of `env'` iff it solves `env` and `E`;
    the extension to the auxiliary variables `[N, N')` is unique; `env'` mentions nothing from `N'` on -/
structure MGUStep (N : Nat) (env : Env) (E : Subst → Prop) (N' : Nat) (env' : Env) : Prop where
  le : N ≤ N'
  below : SolBelow N' env'
  iff : ∀ θ, (∃ θ', AgreeBelow N θ' θ ∧ Sol env' θ') ↔ (Sol env θ ∧ E θ)
  det : ∀ θ₁ θ₂, Sol env' θ₁ → Sol env' θ₂ → AgreeBelow N θ₁ θ₂ → AgreeBelow N' θ₁ θ₂

theorem MGUStep.congr {N N' : Nat} {env env' : Env} {E E' : Subst → Prop}
    (h : MGUStep N env E N' env') (he : ∀ θ, E θ ↔ E' θ) : MGUStep N env E' N' env' :=
  ⟨h.le, h.below, fun θ => by rw [h.iff θ, he θ], h.det⟩

/-- no auxiliary variables: the new environment has exactly the solutions of the old one that satisfy `E` -/
theorem MGUStep.of_iff {N : Nat} {env env' : Env} {E : Subst → Prop}
    (h : ∀ θ, Sol env' θ ↔ (Sol env θ ∧ E θ)) (hb : SolBelow N env) (hE : EBelow N E) :
    MGUStep N env E N env' := by
  refine ⟨Nat.le_refl _, ?_, ?_, fun _ _ _ _ ha => ha⟩
  · intro θ θ' ha hs
    obtain ⟨h1, h2⟩ := (h θ).1 hs
    exact (h θ').2 ⟨hb θ θ' ha h1, hE θ θ' ha h2⟩
  · intro θ
    constructor
    · rintro ⟨θ', ha, hs⟩
      obtain ⟨h1, h2⟩ := (h θ').1 hs
      exact ⟨hb θ' θ ha h1, hE θ' θ ha h2⟩
    · intro hs
      exact ⟨θ, AgreeBelow.refl _ _, (h θ).2 hs⟩

theorem MGUStep.refl {N : Nat} {env : Env} (hb : SolBelow N env) : MGUStep N env (fun _ => True) N env :=
  MGUStep.of_iff (fun θ => by simp) hb (fun _ _ _ h => h)

theorem MGUStep.trans {N N1 N2 : Nat} {env env1 env2 : Env} {E1 E2 : Subst → Prop}
    (h1 : MGUStep N env E1 N1 env1) (h2 : MGUStep N1 env1 E2 N2 env2) (hE2 : EBelow N E2) :
    MGUStep N env (fun θ => E1 θ ∧ E2 θ) N2 env2 := by
  refine ⟨Nat.le_trans h1.le h2.le, h2.below, ?_, ?_⟩
  · intro θ
    constructor
    · rintro ⟨θ', ha, hs⟩
      obtain ⟨hs1, he2⟩ := (h2.iff θ').1 ⟨θ', AgreeBelow.refl _ _, hs⟩
      obtain ⟨hs0, he1⟩ := (h1.iff θ).1 ⟨θ', ha, hs1⟩
      exact ⟨hs0, he1, hE2 θ' θ ha he2⟩
    · rintro ⟨hs0, he1, he2⟩
      obtain ⟨θ', ha, hs1⟩ := (h1.iff θ).2 ⟨hs0, he1⟩
      obtain ⟨θ'', ha', hs2⟩ := (h2.iff θ').2 ⟨hs1, hE2 θ θ' ha.symm he2⟩
      exact ⟨θ'', (ha'.mono h1.le).trans ha, hs2⟩
  · intro θ₁ θ₂ hs1 hs2 ha
    have a1 := (h2.iff θ₁).1 ⟨θ₁, AgreeBelow.refl _ _, hs1⟩
    have a2 := (h2.iff θ₂).1 ⟨θ₂, AgreeBelow.refl _ _, hs2⟩
    exact h2.det θ₁ θ₂ hs1 hs2 (h1.det θ₁ θ₂ a1.1 a2.1 ha)

/-! ## skeleton variables: get_functor / get_list / get_partial -/

/-- the `n` fresh variables `freshVars` draws when the counter stands at `N` -/
def freshL (N n : Nat) : List Nat := (List.range n).map (· + N)

@[simp] theorem freshL_length (N n : Nat) : (freshL N n).length = n := by simp [freshL]

theorem freshL_get (N n i : Nat) (h : i < n) : (freshL N n)[i]? = some (i + N) := by
  simp [freshL, h]

@[simp] theorem freshL_getElem (N n i : Nat) (h : i < (freshL N n).length) : (freshL N n)[i] = i + N := by
  simp [freshL]

theorem freshL_mem {N n v : Nat} (h : v ∈ freshL N n) : N ≤ v ∧ v < N + n := by
  simp only [freshL, List.mem_map, List.mem_range] at h
  obtain ⟨i, hi, rfl⟩ := h
  omega

/-- θ, with the auxiliary variable `N + i` sent to what θ makes of `ps[i]` -/
def extend (θ : Subst) (N : Nat) (ps : List Term) : Subst := fun v =>
  match (if N ≤ v then ps[v - N]? else none) with
  | some p => p.subst θ
  | none => θ v

theorem extend_agree (θ : Subst) (N : Nat) (ps : List Term) : AgreeBelow N (extend θ N ps) θ := by
  intro v hv
  have : ¬ N ≤ v := by omega
  simp [extend, this]

theorem extend_fresh (θ : Subst) (N : Nat) (ps : List Term) :
    ((freshL N ps.length).map Term.var).map (Term.subst (extend θ N ps)) = ps.map (Term.subst θ) := by
  apply List.ext_getElem?
  intro i
  by_cases hi : i < ps.length
  · simp [Term.subst, extend, hi]
  · have h1 : ps.length ≤ i := by omega
    simp [h1]

theorem unifiesL_fresh_get {θ : Subst} {N : Nat} {ps : List Term}
    (h : UnifiesL θ ((freshL N ps.length).map Term.var) ps) (i : Nat) (hi : i < ps.length) :
    θ (i + N) = (ps[i]).subst θ := by
  have := congrArg (fun l => l[i]?) h
  simpa [Term.subst, hi] using this

/-- how the three get-instructions build the term they unify the argument with -/
structure Builder (B : List Term → Term) : Prop where
  subst : ∀ (θ : Subst) (ts : List Term), (B ts).subst θ = B (ts.map (Term.subst θ))
  inj : ∀ xs ys : List Term, xs.length = ys.length → B xs = B ys → xs = ys

theorem builder_below {B : List Term → Term} (hB : Builder B) {N : Nat} {ps : List Term}
    (hps : ∀ p ∈ ps, TBelow N p) : TBelow N (B ps) := by
  intro θ θ' ha
  rw [hB.subst, hB.subst, map_subst_below hps ha]

theorem builder_below_inv {B : List Term → Term} (hB : Builder B) {N : Nat} {ps : List Term}
    (h : TBelow N (B ps)) : ∀ p ∈ ps, TBelow N p := by
  intro p hp θ θ' hag
  have := h θ θ' hag
  rw [hB.subst, hB.subst] at this
  exact List.map_inj_left.1 (hB.inj _ _ (by simp) this) p hp

theorem fresh_below (N n : Nat) : ∀ x ∈ (freshL N n).map Term.var, TBelow (N + n) x := by
  intro x hx
  simp only [List.mem_map] at hx
  obtain ⟨v, hv, rfl⟩ := hx
  exact TBelow.var (freshL_mem hv).2

/-- a unifier of `a` with the pattern `B ps` extends, on the fresh skeleton variables, to a unifier
    of `a` with the skeleton and of the skeleton variables with the sub-patterns -/
theorem skeleton_extend {N : Nat} {env : Env} {a : Term} {B : List Term → Term} {ps : List Term}
    (hB : Builder B) (hb : SolBelow N env) (ha : TBelow N a) (hps : ∀ p ∈ ps, TBelow N p)
    (θ : Subst) (hs : Sol env θ) (he : a.subst θ = (B ps).subst θ) :
    ∃ θ0, AgreeBelow N θ0 θ ∧ Sol env θ0 ∧
      a.subst θ0 = (B ((freshL N ps.length).map Term.var)).subst θ0 ∧
      UnifiesL θ0 ((freshL N ps.length).map Term.var) ps := by
  have hag := extend_agree θ N ps
  refine ⟨extend θ N ps, hag, hb θ _ hag.symm hs, ?_, ?_⟩
  · rw [ha _ _ hag, he, hB.subst, hB.subst, extend_fresh]
  · simp only [UnifiesL]
    rw [extend_fresh, map_subst_below hps hag]

theorem skeleton_fail0 {N : Nat} {env : Env} {a : Term} {B : List Term → Term} {ps : List Term}
    (hB : Builder B) (hb : SolBelow N env) (ha : TBelow N a) (hps : ∀ p ∈ ps, TBelow N p)
    (h : ∀ θ, Sol env θ → a.subst θ ≠ (B ((freshL N ps.length).map Term.var)).subst θ) :
    ∀ θ, Sol env θ → a.subst θ ≠ (B ps).subst θ := by
  intro θ hs he
  obtain ⟨θ0, _, hs0, he0, _⟩ := skeleton_extend hB hb ha hps θ hs he
  exact h θ0 hs0 he0

theorem skeleton_fail1 {N : Nat} {env env0 : Env} {a : Term} {B : List Term → Term} {ps : List Term}
    (hB : Builder B) (hb : SolBelow N env) (ha : TBelow N a) (hps : ∀ p ∈ ps, TBelow N p)
    (h0 : ∀ θ, Sol env0 θ ↔ (Sol env θ ∧ a.subst θ = (B ((freshL N ps.length).map Term.var)).subst θ))
    (h : ∀ θ, Sol env0 θ → ¬ UnifiesL θ ((freshL N ps.length).map Term.var) ps) :
    ∀ θ, Sol env θ → a.subst θ ≠ (B ps).subst θ := by
  intro θ hs he
  obtain ⟨θ0, _, hs0, he0, hu⟩ := skeleton_extend hB hb ha hps θ hs he
  exact h θ0 ((h0 θ0).2 ⟨hs0, he0⟩) hu

theorem MGUStep.skeleton {N N' : Nat} {env env0 env' : Env} {a : Term} {B : List Term → Term}
    {ps : List Term} (hB : Builder B) (hb : SolBelow N env) (ha : TBelow N a)
    (hps : ∀ p ∈ ps, TBelow N p)
    (h0 : ∀ θ, Sol env0 θ ↔ (Sol env θ ∧ a.subst θ = (B ((freshL N ps.length).map Term.var)).subst θ))
    (h1 : MGUStep (N + ps.length) env0 (fun θ => UnifiesL θ ((freshL N ps.length).map Term.var) ps) N' env') :
    MGUStep N env (fun θ => a.subst θ = (B ps).subst θ) N' env' := by
  have hle : N ≤ N + ps.length := Nat.le_add_right _ _
  refine ⟨Nat.le_trans hle h1.le, h1.below, ?_, ?_⟩
  · intro θ
    constructor
    · rintro ⟨θ', hag, hs⟩
      obtain ⟨hs0, hu⟩ := (h1.iff θ').1 ⟨θ', AgreeBelow.refl _ _, hs⟩
      obtain ⟨hse, he⟩ := (h0 θ').1 hs0
      refine ⟨hb θ' θ hag hse, ?_⟩
      rw [← ha θ' θ hag, ← builder_below hB hps θ' θ hag, he, hB.subst, hB.subst]
      exact congrArg B hu
    · rintro ⟨hs, he⟩
      obtain ⟨θ0, hag0, hs0, he0, hu⟩ := skeleton_extend hB hb ha hps θ hs he
      obtain ⟨θ'', hag'', hs''⟩ := (h1.iff θ0).2 ⟨(h0 θ0).2 ⟨hs0, he0⟩, hu⟩
      exact ⟨θ'', (hag''.mono hle).trans hag0, hs''⟩
  · intro θ₁ θ₂ hs1 hs2 hag
    obtain ⟨_, hu1⟩ := (h1.iff θ₁).1 ⟨θ₁, AgreeBelow.refl _ _, hs1⟩
    obtain ⟨_, hu2⟩ := (h1.iff θ₂).1 ⟨θ₂, AgreeBelow.refl _ _, hs2⟩
    apply h1.det θ₁ θ₂ hs1 hs2
    intro v hv
    by_cases hvN : v < N
    · exact hag v hvN
    · obtain ⟨i, rfl⟩ : ∃ i, v = i + N := ⟨v - N, by omega⟩
      have hi : i < ps.length := by omega
      rw [unifiesL_fresh_get hu1 i hi, unifiesL_fresh_get hu2 i hi]
      exact hps _ (List.getElem_mem hi) θ₁ θ₂ hag

/-! ### the three builders -/

theorem ofList_subst (θ : Subst) : ∀ ts : List Term,
    (Args.ofList ts).subst θ = Args.ofList (ts.map (Term.subst θ))
  | [] => rfl
  | t :: ts => by simp [Args.ofList, Args.subst, ofList_subst θ ts]

theorem list_subst (θ : Subst) (tl : Term) : ∀ ts : List Term,
    (Term.list ts tl).subst θ = Term.list (ts.map (Term.subst θ)) (tl.subst θ)
  | [] => rfl
  | t :: ts => by
    have := list_subst θ tl ts
    simp only [Term.list] at this
    simp [Term.list, Term.consT, Term.subst, Args.subst, this]

theorem list_inj : ∀ (xs ys : List Term) (t t' : Term), xs.length = ys.length →
    Term.list xs t = Term.list ys t' → xs = ys ∧ t = t'
  | [], [], _, _, _, h => ⟨rfl, by simpa [Term.list] using h⟩
  | [], _ :: _, _, _, hl, _ => by simp at hl
  | _ :: _, [], _, _, hl, _ => by simp at hl
  | x :: xs, y :: ys, t, t', hl, h => by
    simp only [Term.list, List.foldr_cons, Term.consT, Term.app.injEq, Args.cons.injEq, true_and,
      and_true] at h
    obtain ⟨h1, h2⟩ := list_inj xs ys t t' (by simpa using hl) (by simpa [Term.list] using h.2)
    exact ⟨by rw [h.1, h1], h2⟩

theorem builder_functor (f : String) : Builder (fun ts => Term.app f (Args.ofList ts)) where
  subst θ ts := by simp [Term.subst, ofList_subst]
  inj xs ys _ h := by
    simp only [Term.app.injEq, true_and] at h
    have := congrArg Args.toList h
    simpa using this

theorem builder_list : Builder (fun ts => Term.list ts) where
  subst θ ts := by rw [list_subst]; rfl
  inj xs ys hl h := (list_inj xs ys _ _ hl h).1

theorem builder_partial : Builder (buildCtor .partial_) where
  subst θ ts := by
    cases ts with
    | nil => rfl
    | cons tl es => simp [buildCtor, list_subst]
  inj xs ys hl h := by
    cases xs with
    | nil => cases ys with
      | nil => rfl
      | cons _ _ => simp at hl
    | cons t es => cases ys with
      | nil => simp at hl
      | cons t' es' =>
        simp only [buildCtor] at h
        obtain ⟨h1, h2⟩ := list_inj es es' t t' (by simpa using hl) h
        rw [h1, h2]

/-! ## one instruction of `VM.exec` -/

/-- the machine state with the variable counter moved to `N'` (nothing else changes) -/
def bump (m : MS) (N' : Nat) : MS := { m with user := { m.user with nextVar := N' } }

@[simp] theorem bump_nextVar (m : MS) (N' : Nat) : (bump m N').user.nextVar = N' := rfl
@[simp] theorem bump_bump (m : MS) (a b : Nat) : bump (bump m a) b = bump m b := rfl
@[simp] theorem bump_self (m : MS) : bump m m.user.nextVar = m := rfl

theorem freshVars_eq (n : Nat) (m : MS) :
    freshVars n m = (freshL m.user.nextVar n, bump m (m.user.nextVar + n)) := rfl

/-- the `unifyThen` closure of `exec` -/
def unifyThen (env : Env) (a b : Term) (m : MS) (X : Env → Option (Pr × MS)) : Option (Pr × MS) :=
  match unify inner false env a b with
  | some (env', .ok) => X env'
  | some _ => some (failP, m)
  | none => none

theorem unifyThen_cases {env : Env} {a b : Term} {m : MS} {X : Env → Option (Pr × MS)} {res : Pr × MS}
    (h : unifyThen env a b m X = some res) :
    (∃ env', (∀ θ, Sol env' θ ↔ (Sol env θ ∧ a.subst θ = b.subst θ)) ∧ X env' = some res) ∨
    (res = (failP, m) ∧ ∀ θ, Sol env θ → a.subst θ ≠ b.subst θ) := by
  unfold unifyThen at h
  cases hu : unify inner false env a b with
  | none => simp [hu] at h
  | some p =>
    obtain ⟨env', r⟩ := p
    have hs := unify_spec inner false env a b env' r hu
    cases r with
    | ok => rw [hu] at h; exact Or.inl ⟨env', hs, h⟩
    | clash => rw [hu] at h; simp only [Option.some.injEq] at h; exact Or.inr ⟨h.symm, hs⟩
    | occurs => rw [hu] at h; simp only [Option.some.injEq] at h; exact Or.inr ⟨h.symm, hs⟩

section steps
variable (n : Nat) (pc : List Op) (vars : List Nat) (k : Cont) (args : List Term)
  (astack : List Frame) (env : Env) (cp : Nat) (m : MS)

theorem exec_zero (pc : List Op) : exec 0 pc vars k args astack env cp m = none := by rw [exec]

theorem exec_getConst (c a : Term) (rest : List Term) :
    exec (n + 1) (.getConst c :: pc) vars k (a :: rest) astack env cp m =
      unifyThen env a c m (fun env' => exec n pc vars k rest astack env' cp m) := by
  rw [exec]; rfl

theorem exec_getVar (i v : Nat) (a : Term) (rest : List Term) (hv : vars[i]? = some v) :
    exec (n + 1) (.getVar i :: pc) vars k (a :: rest) astack env cp m =
      unifyThen env a (.var v) m (fun env' => exec n pc vars k rest astack env' cp m) := by
  rw [exec] <;> first | rfl | exact hv

theorem exec_getFunctor (f : String) (ar : Nat) (a : Term) (rest : List Term) :
    exec (n + 1) (.getFunctor f ar :: pc) vars k (a :: rest) astack env cp m =
      unifyThen env a (.app f (Args.ofList ((freshL m.user.nextVar ar).map Term.var)))
        (bump m (m.user.nextVar + ar))
        (fun env' => exec n pc vars k ((freshL m.user.nextVar ar).map Term.var) (.get rest :: astack)
          env' cp (bump m (m.user.nextVar + ar))) := by
  rw [exec]; rfl

theorem exec_getList (l : Nat) (a : Term) (rest : List Term) :
    exec (n + 1) (.getList l :: pc) vars k (a :: rest) astack env cp m =
      unifyThen env a (Term.list ((freshL m.user.nextVar l).map Term.var))
        (bump m (m.user.nextVar + l))
        (fun env' => exec n pc vars k ((freshL m.user.nextVar l).map Term.var) (.get rest :: astack)
          env' cp (bump m (m.user.nextVar + l))) := by
  rw [exec]; rfl

theorem exec_getPartial (l : Nat) (a : Term) (rest : List Term) :
    exec (n + 1) (.getPartial l :: pc) vars k (a :: rest) astack env cp m =
      unifyThen env a (buildCtor .partial_ ((freshL m.user.nextVar (l + 1)).map Term.var))
        (bump m (m.user.nextVar + (l + 1)))
        (fun env' => exec n pc vars k ((freshL m.user.nextVar (l + 1)).map Term.var) (.get rest :: astack)
          env' cp (bump m (m.user.nextVar + (l + 1)))) := by
  rw [exec]; rfl

theorem exec_pop_get (rest : List Term) :
    exec (n + 1) (.pop :: pc) vars k args (.get rest :: astack) env cp m =
      exec n pc vars k rest astack env cp m := by
  rw [exec]

theorem exec_pop_put (outer : List Term) (c : Ctor) :
    exec (n + 1) (.pop :: pc) vars k args (.put outer c :: astack) env cp m =
      exec n pc vars k (outer ++ [buildCtor c args]) astack env cp m := by
  rw [exec]

theorem exec_putConst (c : Term) :
    exec (n + 1) (.putConst c :: pc) vars k args astack env cp m =
      exec n pc vars k (args ++ [c]) astack env cp m := by
  rw [exec]

theorem exec_putVar (i v : Nat) (hv : vars[i]? = some v) :
    exec (n + 1) (.putVar i :: pc) vars k args astack env cp m =
      exec n pc vars k (args ++ [.var v]) astack env cp m := by
  rw [exec]; simp only [hv]

theorem exec_putFunctor (f : String) (ar : Nat) :
    exec (n + 1) (.putFunctor f ar :: pc) vars k args astack env cp m =
      exec n pc vars k [] (.put args (.functor f) :: astack) env cp m := by
  rw [exec]

theorem exec_putList (l : Nat) :
    exec (n + 1) (.putList l :: pc) vars k args astack env cp m =
      exec n pc vars k [] (.put args .list :: astack) env cp m := by
  rw [exec]

theorem exec_putPartial (l : Nat) :
    exec (n + 1) (.putPartial l :: pc) vars k args astack env cp m =
      exec n pc vars k [] (.put args .partial_ :: astack) env cp m := by
  rw [exec]

theorem exec_enter :
    exec (n + 1) (.enter :: pc) vars k args astack env cp m = exec n pc vars k args astack env cp m := by
  rw [exec]

theorem exec_call (f : String) (ar : Nat) :
    exec (n + 1) (.call f ar :: pc) vars k args astack env cp m =
      arrive n f args (.exec pc vars cp k) env m := by
  rw [exec]

theorem exec_exit :
    exec (n + 1) (.exit :: pc) vars k args astack env cp m = applyCont n k env m := by
  rw [exec]

theorem exec_cut :
    exec (n + 1) (.cut :: pc) vars k args astack env cp m =
      some ({ delayed := [.afterCut pc vars k args astack env cp], cutParent := some cp }, m) := by
  rw [exec]

end steps

/-! ## run-time meaning of get-code -/

/-- what running head code ends in, `E` being the equations the code is supposed to solve:
    * failure, and no solution of `env` satisfies `E`; or
    * the run goes on (`cont`) under an environment that is `env` + a most general solution of `E`
      (`MGUStep`), the variable counter having moved from `m.user.nextVar` to `N'` and nothing else
      in the machine state having changed -/
def HeadOutcome (fuel : Nat) (m : MS) (env : Env) (E : Subst → Prop)
    (cont : Nat → Env → MS → Option (Pr × MS)) (res : Pr × MS) : Prop :=
  (∃ N', m.user.nextVar ≤ N' ∧ res = (failP, bump m N') ∧ ∀ θ, Sol env θ → ¬ E θ) ∨
  (∃ fuel' env' N', fuel' ≤ fuel ∧ cont fuel' env' (bump m N') = some res ∧
    MGUStep m.user.nextVar env E N' env')

/-- `ops` (get-instructions) unify the first `ps.length` arguments with the patterns `ps` -/
def GetsR (vars : List Nat) (ops : List Op) (ps : List Term) : Prop :=
  ∀ (fuel : Nat) (rest : List Op) (k : Cont) (as args : List Term) (astack : List Frame)
    (env : Env) (cp : Nat) (m : MS) (res : Pr × MS),
    as.length = ps.length → (∀ a ∈ as, TBelow m.user.nextVar a) →
    (∀ p ∈ ps, TBelow m.user.nextVar p) → SolBelow m.user.nextVar env →
    exec fuel (ops ++ rest) vars k (as ++ args) astack env cp m = some res →
    HeadOutcome fuel m env (fun θ => UnifiesL θ as ps)
      (fun f e m' => exec f rest vars k args astack e cp m') res

theorem GetsR_nil (vars : List Nat) : GetsR vars [] [] := by
  intro fuel rest k as args astack env cp m res hl _ _ hb h
  have : as = [] := List.eq_nil_of_length_eq_zero hl
  subst this
  exact Or.inr ⟨fuel, env, m.user.nextVar, Nat.le_refl _, by simpa using h,
    (MGUStep.refl hb).congr (fun θ => by simp [UnifiesL])⟩

/-- one instruction that unifies the next argument with a fixed term -/
theorem GetsR_unify1 (vars : List Nat) (op : Op) (b : Term)
    (hstep : ∀ n pc k a rest astack env cp m,
      exec (n + 1) (op :: pc) vars k (a :: rest) astack env cp m =
        unifyThen env a b m (fun env' => exec n pc vars k rest astack env' cp m)) :
    GetsR vars [op] [b] := by
  intro fuel rest k as args astack env cp m res hl ha hp hb h
  obtain ⟨a, rfl⟩ : ∃ a, as = [a] := List.length_eq_one_iff.1 hl
  cases fuel with
  | zero => simp [exec_zero] at h
  | succ n =>
    simp only [List.singleton_append] at h
    rw [hstep] at h
    have haB : TBelow m.user.nextVar a := ha a (by simp)
    have hbB : TBelow m.user.nextVar b := hp b (by simp)
    rcases unifyThen_cases h with ⟨env', hiff, hx⟩ | ⟨rfl, hf⟩
    · refine Or.inr ⟨n, env', m.user.nextVar, Nat.le_succ n, by simpa using hx, ?_⟩
      have : MGUStep m.user.nextVar env (fun θ => a.subst θ = b.subst θ) m.user.nextVar env' :=
        MGUStep.of_iff hiff hb (fun θ θ' hag he => by rw [← haB θ θ' hag, ← hbB θ θ' hag]; exact he)
      exact this.congr (fun θ => UnifiesL.single.symm)
    · exact Or.inl ⟨m.user.nextVar, Nat.le_refl _, rfl, fun θ hs hu => hf θ hs (UnifiesL.single.1 hu)⟩

theorem GetsR_const (vars : List Nat) (c : Term) : GetsR vars [.getConst c] [c] :=
  GetsR_unify1 vars _ _ (fun n pc k a rest astack env cp m => exec_getConst n pc vars k astack env cp m c a rest)

theorem GetsR_var (vars : List Nat) (i v : Nat) (hv : vars[i]? = some v) :
    GetsR vars [.getVar i] [.var v] :=
  GetsR_unify1 vars _ _ (fun n pc k a rest astack env cp m => exec_getVar n pc vars k astack env cp m i v a rest hv)

theorem GetsR_append {vars : List Nat} {ops1 ops2 : List Op} {ps1 ps2 : List Term}
    (h1 : GetsR vars ops1 ps1) (h2 : GetsR vars ops2 ps2) : GetsR vars (ops1 ++ ops2) (ps1 ++ ps2) := by
  intro fuel rest k as args astack env cp m res hl ha hp hb h
  have hl' : as.length = ps1.length + ps2.length := by simpa using hl
  have hsplit : as = as.take ps1.length ++ as.drop ps1.length := (List.take_append_drop _ _).symm
  generalize hA1 : as.take ps1.length = as1 at hsplit
  generalize hA2 : as.drop ps1.length = as2 at hsplit
  have hl1 : as1.length = ps1.length := by rw [← hA1, List.length_take]; omega
  have hl2 : as2.length = ps2.length := by rw [← hA2, List.length_drop]; omega
  subst hsplit
  have hE : ∀ θ, UnifiesL θ (as1 ++ as2) (ps1 ++ ps2) ↔ UnifiesL θ as1 ps1 ∧ UnifiesL θ as2 ps2 :=
    fun θ => UnifiesL.append hl1
  have ha1 : ∀ a ∈ as1, TBelow m.user.nextVar a := fun a hm => ha a (by simp [hm])
  have ha2 : ∀ a ∈ as2, TBelow m.user.nextVar a := fun a hm => ha a (by simp [hm])
  have hp1 : ∀ p ∈ ps1, TBelow m.user.nextVar p := fun p hm => hp p (by simp [hm])
  have hp2 : ∀ p ∈ ps2, TBelow m.user.nextVar p := fun p hm => hp p (by simp [hm])
  rw [List.append_assoc, List.append_assoc] at h
  rcases h1 fuel (ops2 ++ rest) k as1 (as2 ++ args) astack env cp m res hl1 ha1 hp1 hb h with
    ⟨N1, hN1, hres, hf⟩ | ⟨fuel1, env1, N1, hfu1, hx1, hs1⟩
  · exact Or.inl ⟨N1, hN1, hres, fun θ hs hu => hf θ hs ((hE θ).1 hu).1⟩
  · have hle : m.user.nextVar ≤ N1 := hs1.le
    rcases h2 fuel1 rest k as2 args astack env1 cp (bump m N1) res hl2
        (fun a hm => (ha2 a hm).mono hle) (fun p hm => (hp2 p hm).mono hle) hs1.below hx1 with
      ⟨N2, hN2, hres, hf⟩ | ⟨fuel2, env2, N2, hfu2, hx2, hs2⟩
    · refine Or.inl ⟨N2, Nat.le_trans hle hN2, by simpa using hres, ?_⟩
      intro θ hs hu
      obtain ⟨hu1, hu2⟩ := (hE θ).1 hu
      obtain ⟨θ', hag, hs'⟩ := (hs1.iff θ).2 ⟨hs, hu1⟩
      exact hf θ' hs' (EBelow.unifiesL ha2 hp2 θ θ' hag.symm hu2)
    · refine Or.inr ⟨fuel2, env2, N2, Nat.le_trans hfu2 hfu1, by simpa using hx2, ?_⟩
      exact (hs1.trans hs2 (EBelow.unifiesL ha2 hp2)).congr (fun θ => (hE θ).symm)

/-- get_functor / get_list / get_partial: unify the argument with a skeleton of fresh variables,
    descend into it, come back with `pop` -/
theorem GetsR_skel {vars : List Nat} {ops : List Op} {ps : List Term} (op : Op)
    (B : List Term → Term) (hB : Builder B)
    (hstep : ∀ n pc k a rest astack env cp (m : MS),
      exec (n + 1) (op :: pc) vars k (a :: rest) astack env cp m =
        unifyThen env a (B ((freshL m.user.nextVar ps.length).map Term.var))
          (bump m (m.user.nextVar + ps.length))
          (fun env' => exec n pc vars k ((freshL m.user.nextVar ps.length).map Term.var)
            (.get rest :: astack) env' cp (bump m (m.user.nextVar + ps.length))))
    (h : GetsR vars ops ps) : GetsR vars (op :: ops ++ [.pop]) [B ps] := by
  intro fuel rest k as args astack env cp m res hl ha hp hb hx
  obtain ⟨a, rfl⟩ : ∃ a, as = [a] := List.length_eq_one_iff.1 hl
  have haB : TBelow m.user.nextVar a := ha a (by simp)
  cases fuel with
  | zero => simp [exec_zero] at hx
  | succ n =>
    have e : (op :: ops ++ [Op.pop]) ++ rest = op :: (ops ++ (Op.pop :: rest)) := by simp
    rw [e, List.singleton_append, hstep] at hx
    -- the patterns are below the counter: recover that from the hypothesis on `B ps`
    have hps : ∀ p ∈ ps, TBelow m.user.nextVar p := builder_below_inv hB (hp _ (by simp))
    have hle : m.user.nextVar ≤ m.user.nextVar + ps.length := Nat.le_add_right _ _
    rcases unifyThen_cases hx with ⟨env0, h0, hx0⟩ | ⟨rfl, hf⟩
    · have hb0 : SolBelow (m.user.nextVar + ps.length) env0 := by
        intro θ θ' hag hs
        obtain ⟨hs', he⟩ := (h0 θ).1 hs
        refine (h0 θ').2 ⟨hb.mono hle θ θ' hag hs', ?_⟩
        rw [← haB.mono hle θ θ' hag, ← builder_below hB (fresh_below _ _) θ θ' hag]
        exact he
      rcases h n (Op.pop :: rest) k _ [] (.get args :: astack) env0 cp
          (bump m (m.user.nextVar + ps.length)) res (by simp) (fresh_below _ _)
          (fun p hm => (hps p hm).mono hle) hb0 (by simpa using hx0) with
        ⟨N2, hN2, hres, hf⟩ | ⟨fuel1, env', N', hfu, hx1, hs1⟩
      · refine Or.inl ⟨N2, Nat.le_trans hle hN2, by simpa using hres, ?_⟩
        intro θ hs hu
        exact skeleton_fail1 hB hb haB hps h0 hf θ hs (UnifiesL.single.1 hu)
      · cases fuel1 with
        | zero => simp [exec_zero] at hx1
        | succ f =>
          simp only [exec_pop_get, bump_bump] at hx1
          refine Or.inr ⟨f, env', N', by omega, hx1, ?_⟩
          exact (MGUStep.skeleton hB hb haB hps h0 hs1).congr (fun θ => UnifiesL.single.symm)
    · refine Or.inl ⟨m.user.nextVar + ps.length, hle, rfl, ?_⟩
      intro θ hs hu
      exact skeleton_fail0 hB hb haB hps hf θ hs (UnifiesL.single.1 hu)

theorem GetsR_functor {vars : List Nat} {ops : List Op} {ps : List Term} (g : String)
    (h : GetsR vars ops ps) :
    GetsR vars (.getFunctor g ps.length :: ops ++ [.pop]) [.app g (Args.ofList ps)] :=
  GetsR_skel (.getFunctor g ps.length) (fun ts => Term.app g (Args.ofList ts)) (builder_functor g)
    (fun n pc k a rest astack env cp m => exec_getFunctor n pc vars k astack env cp m g ps.length a rest) h

theorem GetsR_list {vars : List Nat} {ops : List Op} {ps : List Term} (h : GetsR vars ops ps) :
    GetsR vars (.getList ps.length :: ops ++ [.pop]) [Term.list ps] :=
  GetsR_skel (.getList ps.length) (fun ts => Term.list ts) builder_list
    (fun n pc k a rest astack env cp m => exec_getList n pc vars k astack env cp m ps.length a rest) h

theorem GetsR_partial {vars : List Nat} {ops : List Op} {tl : Term} {es : List Term}
    (h : GetsR vars ops (tl :: es)) :
    GetsR vars (.getPartial es.length :: ops ++ [.pop]) [Term.list es tl] :=
  GetsR_skel (ps := tl :: es) (.getPartial es.length) (buildCtor .partial_) builder_partial
    (fun n pc k a rest astack env cp m => exec_getPartial n pc vars k astack env cp m es.length a rest) h

/-! ## run-time meaning of put-code -/

/-- `ops` (put-instructions) append the terms `ps` to the argument registers — nothing else happens:
    no unification, no fresh variable; one unit of fuel per instruction (`none` = out of fuel) -/
def PutsR (vars : List Nat) (ops : List Op) (ps : List Term) : Prop :=
  ∀ (fuel : Nat) (rest : List Op) (k : Cont) (args : List Term) (astack : List Frame)
    (env : Env) (cp : Nat) (m : MS),
    exec fuel (ops ++ rest) vars k args astack env cp m =
      if ops.length ≤ fuel then exec (fuel - ops.length) rest vars k (args ++ ps) astack env cp m
      else none

theorem PutsR_nil (vars : List Nat) : PutsR vars [] [] := by
  intro fuel rest k args astack env cp m
  simp

theorem PutsR_append {vars : List Nat} {ops1 ops2 : List Op} {ps1 ps2 : List Term}
    (h1 : PutsR vars ops1 ps1) (h2 : PutsR vars ops2 ps2) : PutsR vars (ops1 ++ ops2) (ps1 ++ ps2) := by
  intro fuel rest k args astack env cp m
  rw [List.append_assoc, h1]
  by_cases c1 : ops1.length ≤ fuel
  · rw [if_pos c1, h2]
    by_cases c2 : ops2.length ≤ fuel - ops1.length
    · have c3 : (ops1 ++ ops2).length ≤ fuel := by simp only [List.length_append]; omega
      have e : fuel - ops1.length - ops2.length = fuel - (ops1 ++ ops2).length := by
        simp only [List.length_append]; omega
      rw [if_pos c2, if_pos c3, e, List.append_assoc]
    · have c3 : ¬ (ops1 ++ ops2).length ≤ fuel := by simp only [List.length_append]; omega
      rw [if_neg c2, if_neg c3]
  · have c3 : ¬ (ops1 ++ ops2).length ≤ fuel := by simp only [List.length_append]; omega
    rw [if_neg c1, if_neg c3]

/-- one instruction that appends a fixed term -/
theorem PutsR_put1 (vars : List Nat) (op : Op) (b : Term)
    (hstep : ∀ n pc k args astack env cp (m : MS),
      exec (n + 1) (op :: pc) vars k args astack env cp m =
        exec n pc vars k (args ++ [b]) astack env cp m) : PutsR vars [op] [b] := by
  intro fuel rest k args astack env cp m
  cases fuel with
  | zero => simp [exec_zero]
  | succ n => simp [hstep]

theorem PutsR_const (vars : List Nat) (c : Term) : PutsR vars [.putConst c] [c] :=
  PutsR_put1 vars _ _ (fun n pc k args astack env cp m => exec_putConst n pc vars k args astack env cp m c)

theorem PutsR_var (vars : List Nat) (i v : Nat) (hv : vars[i]? = some v) :
    PutsR vars [.putVar i] [.var v] :=
  PutsR_put1 vars _ _ (fun n pc k args astack env cp m => exec_putVar n pc vars k args astack env cp m i v hv)

theorem PutsR_ctor {vars : List Nat} {ops : List Op} {ps : List Term} (op : Op) (c : Ctor)
    (hstep : ∀ n pc k args astack env cp (m : MS),
      exec (n + 1) (op :: pc) vars k args astack env cp m =
        exec n pc vars k [] (.put args c :: astack) env cp m)
    (h : PutsR vars ops ps) : PutsR vars (op :: ops ++ [.pop]) [buildCtor c ps] := by
  intro fuel rest k args astack env cp m
  have e2 : (op :: ops ++ [Op.pop]) ++ rest = op :: (ops ++ (Op.pop :: rest)) := by simp
  have el : (op :: ops ++ [Op.pop]).length = ops.length + 2 := by simp
  rw [e2, el]
  cases fuel with
  | zero => simp [exec_zero]
  | succ n =>
    rw [hstep, h]
    by_cases c1 : ops.length ≤ n
    · rw [if_pos c1]
      cases hj : n - ops.length with
      | zero =>
        have c3 : ¬ ops.length + 2 ≤ n + 1 := by omega
        rw [if_neg c3, exec_zero]
      | succ j =>
        have c3 : ops.length + 2 ≤ n + 1 := by omega
        have e : n + 1 - (ops.length + 2) = j := by omega
        rw [if_pos c3, exec_pop_put, e, List.nil_append]
    · have c3 : ¬ ops.length + 2 ≤ n + 1 := by omega
      rw [if_neg c1, if_neg c3]

theorem PutsR_functor {vars : List Nat} {ops : List Op} {ps : List Term} (g : String) (n : Nat)
    (h : PutsR vars ops ps) :
    PutsR vars (.putFunctor g n :: ops ++ [.pop]) [.app g (Args.ofList ps)] :=
  PutsR_ctor (.putFunctor g n) (.functor g)
    (fun n' pc k args astack env cp m => exec_putFunctor n' pc vars k args astack env cp m g n) h

theorem PutsR_list {vars : List Nat} {ops : List Op} {ps : List Term} (n : Nat)
    (h : PutsR vars ops ps) : PutsR vars (.putList n :: ops ++ [.pop]) [Term.list ps] :=
  PutsR_ctor (.putList n) .list
    (fun n' pc k args astack env cp m => exec_putList n' pc vars k args astack env cp m n) h

theorem PutsR_partial {vars : List Nat} {ops : List Op} {tl : Term} {es : List Term} (n : Nat)
    (h : PutsR vars ops (tl :: es)) : PutsR vars (.putPartial n :: ops ++ [.pop]) [Term.list es tl] :=
  PutsR_ctor (ps := tl :: es) (.putPartial n) .partial_
    (fun n' pc k args astack env cp m => exec_putPartial n' pc vars k args astack env cp m n) h

/-! ## compile time: one induction over the encodings, generic in the meaning of the code -/

/-- a term without variables -/
def Closed (t : Term) : Prop := ∀ v, t.hasVar v = false

theorem closed_list {ts : List Term} {tl : Term} (h : ∀ t ∈ ts, Closed t) (htl : Closed tl) :
    Closed (Term.list ts tl) := by
  induction ts with
  | nil => exact htl
  | cons t ts ih =>
    intro v
    have := ih (fun t' ht' => h t' (by simp [ht'])) v
    simp only [Term.list] at this
    simp [Term.list, Term.consT, Term.hasVar, Args.hasVar, h t (by simp) v, this]

theorem closed_charConsts (s : List Char) : ∀ t ∈ charConsts s, Closed t := by
  intro t ht
  simp only [charConsts, List.mem_map] at ht
  obtain ⟨c, _, rfl⟩ := ht
  exact fun _ => rfl

theorem closed_codeConsts (s : List Char) : ∀ t ∈ codeConsts s, Closed t := by
  intro t ht
  simp only [codeConsts, List.mem_map] at ht
  obtain ⟨c, _, rfl⟩ := ht
  exact fun _ => rfl

theorem closed_charList (s : List Char) : Closed (Rep.abs (.charList s)) := by
  have := closed_list (closed_charConsts s) (tl := Term.nilT) (fun _ => rfl)
  simpa [Rep.abs, charConsts] using this

theorem closed_codeList (s : List Char) : Closed (Rep.abs (.codeList s)) := by
  have := closed_list (closed_codeConsts s) (tl := Term.nilT) (fun _ => rfl)
  simpa [Rep.abs, codeConsts] using this

theorem rename_closed {t : Term} (h : Closed t) (ρ : Nat → Nat) : t.rename ρ = t := by
  have := subst_congr t (fun v => .var (ρ v)) (fun v => .var v) (fun v hv => by simp [h v] at hv)
  rw [Term.rename, this, Term.subst_id]

/-- what the generic induction needs to know about the meaning `R tbl ops ts` of argument code
    (`tbl` = variable table at compile time, `ts` = the source terms) -/
structure ArgSem (hd : Bool) (R : List Nat → List Op → List Term → Prop) : Prop where
  nil : ∀ vs, R vs [] []
  mono : ∀ {vs vs1 ops ts}, R vs ops ts → vs <+: vs1 → R vs1 ops ts
  append : ∀ {vs ops1 ops2 ts1 ts2}, R vs ops1 ts1 → R vs ops2 ts2 → R vs (ops1 ++ ops2) (ts1 ++ ts2)
  const : ∀ vs t, Closed t → R vs [opConst hd t] [t]
  var : ∀ vs i v, vs[i]? = some v → R vs [opVar hd i] [.var v]
  functor : ∀ vs g ops args, R vs ops args →
    R vs (opFunctor hd g args.length :: ops ++ [.pop]) [.app g (Args.ofList args)]
  list : ∀ vs ops es, R vs ops es → R vs (opList hd es.length :: ops ++ [.pop]) [Term.list es]
  partial_ : ∀ vs ops tl es, R vs ops (tl :: es) →
    R vs (opPartial hd es.length :: ops ++ [.pop]) [Term.list es tl]

theorem ArgSem.consts {hd : Bool} {R : List Nat → List Op → List Term → Prop} (S : ArgSem hd R)
    (vs : List Nat) : ∀ ts : List Term, (∀ t ∈ ts, Closed t) → R vs (ts.map (opConst hd)) ts
  | [], _ => S.nil vs
  | t :: ts, h => by
    have := S.append (S.const vs t (h t (by simp))) (S.consts vs ts (fun t' ht' => h t' (by simp [ht'])))
    simpa using this

theorem indexOf_go_none (v : Nat) : ∀ (xs : List Nat) (k : Nat), indexOf?.go v xs k = none → v ∉ xs
  | [], _, _ => by simp
  | x :: xs, k, h => by
    simp only [indexOf?.go] at h
    split at h
    · cases h
    · rename_i hx
      have := indexOf_go_none v xs (k + 1) h
      simp [this, Ne.symm hx]

theorem varOffset_nodup (c : CState) (v : Nat) (h : c.vars.Nodup) : (varOffset c v).2.vars.Nodup := by
  unfold varOffset
  cases hi : indexOf? c.vars v with
  | some i => exact h
  | none =>
    have hn : v ∉ c.vars := indexOf_go_none v c.vars 0 hi
    simp only
    rw [List.nodup_append]
    exact ⟨h, by simp, fun a ha b hb => by
      simp only [List.mem_singleton] at hb
      subst hb
      exact fun e => hn (e ▸ ha)⟩

mutual
  theorem compileArg_sem {hd : Bool} {R : List Nat → List Op → List Term → Prop} (S : ArgSem hd R) :
      ∀ (r : Rep) (c : CState), WF r = true →
      ∃ ops, (compileArg hd r c).code = c.code ++ ops ∧ c.vars <+: (compileArg hd r c).vars ∧
        (c.vars.Nodup → (compileArg hd r c).vars.Nodup) ∧
        R (compileArg hd r c).vars ops [Rep.abs r]
    | .var v, c, _ => by
      obtain ⟨i, c', h, hc, hp, hv⟩ := varOffset_spec c v
      have hn := varOffset_nodup c v
      refine ⟨[opVar hd i], ?_, ?_, ?_, ?_⟩
      · simp [compileArg, h, hc]
      · simpa [compileArg, h] using hp
      · simpa [compileArg, h] using hn
      · simpa [compileArg, h, Rep.abs] using S.var c'.vars i v hv
    | .atom s, c, _ =>
      ⟨[opConst hd (.atom s)], by simp [compileArg], by simp [compileArg], by simp [compileArg],
        by simpa [compileArg, Rep.abs] using S.const c.vars (.atom s) (fun _ => rfl)⟩
    | .int i, c, _ =>
      ⟨[opConst hd (.int i)], by simp [compileArg], by simp [compileArg], by simp [compileArg],
        by simpa [compileArg, Rep.abs] using S.const c.vars (.int i) (fun _ => rfl)⟩
    | .flt b, c, _ =>
      ⟨[opConst hd (.flt b)], by simp [compileArg], by simp [compileArg], by simp [compileArg],
        by simpa [compileArg, Rep.abs] using S.const c.vars (.flt b) (fun _ => rfl)⟩
    | .str n, c, _ =>
      ⟨[opConst hd (.str n)], by simp [compileArg], by simp [compileArg], by simp [compileArg],
        by simpa [compileArg, Rep.abs] using S.const c.vars (.str n) (fun _ => rfl)⟩
    | .charList s, c, _ =>
      ⟨[opConst hd (Rep.abs (.charList s))], by simp [compileArg], by simp [compileArg],
        by simp [compileArg],
        by simpa [compileArg] using S.const c.vars (Rep.abs (.charList s)) (closed_charList s)⟩
    | .codeList s, c, _ =>
      ⟨[opConst hd (Rep.abs (.codeList s))], by simp [compileArg], by simp [compileArg],
        by simp [compileArg],
        by simpa [compileArg] using S.const c.vars (Rep.abs (.codeList s)) (closed_codeList s)⟩
    | .compound f args, c, h => by
      simp only [WF, Bool.and_eq_true] at h
      obtain ⟨ops, hcode, hp, hn, hr⟩ := compileArgs_sem S args (emit c (opFunctor hd f args.length)) h.2
      refine ⟨opFunctor hd f args.length :: ops ++ [.pop], ?_, ?_, ?_, ?_⟩
      · simp [compileArg, hcode]
      · simpa [compileArg] using hp
      · simpa [compileArg] using hn
      · have := S.functor _ f ops _ hr
        simpa [compileArg, Rep.abs, absArgs_toList_length, absArgs_len] using this
    | .list elems, c, h => by
      simp only [WF, Bool.and_eq_true] at h
      obtain ⟨ops, hcode, hp, hn, hr⟩ := compileArgs_sem S elems (emit c (opList hd elems.length)) h.2
      refine ⟨opList hd elems.length :: ops ++ [.pop], ?_, ?_, ?_, ?_⟩
      · simp [compileArg, hcode]
      · simpa [compileArg] using hp
      · simpa [compileArg] using hn
      · have := S.list _ ops _ hr
        simpa [compileArg, Rep.abs, absArgs_toList_length, absArgs_len, list_absArgs_nil] using this
    | .part pre tail, c, h => by
      cases pre with
      | list elems =>
        simp only [WF, Bool.and_eq_true] at h
        obtain ⟨ops1, hcode1, hp1, hn1, hr1⟩ :=
          compileArg_sem S tail (emit c (opPartial hd elems.length)) h.2
        obtain ⟨ops2, hcode2, hp2, hn2, hr2⟩ :=
          compileArgs_sem S elems (compileArg hd tail (emit c (opPartial hd elems.length))) h.1.2
        refine ⟨opPartial hd elems.length :: (ops1 ++ ops2) ++ [.pop], ?_, ?_, ?_, ?_⟩
        · simp [compileArg, hcode1, hcode2]
        · simpa [compileArg] using List.IsPrefix.trans hp1 hp2
        · intro hc
          simpa [compileArg] using hn2 (hn1 (by simpa using hc))
        · have := S.partial_ _ _ (Rep.abs tail) _ (S.append (S.mono hr1 hp2) hr2)
          simpa [compileArg, Rep.abs, absArgs_toList_length, absArgs_len, list_absArgs] using this
      | charList s =>
        simp only [WF, Bool.and_eq_true] at h
        obtain ⟨ops1, hcode1, hp1, hn1, hr1⟩ :=
          compileArg_sem S tail (emit c (opPartial hd s.length)) h.2
        obtain ⟨hf1, hf2⟩ := foldl_emit (opConst hd) (charConsts s)
          (compileArg hd tail (emit c (opPartial hd s.length)))
        refine ⟨opPartial hd s.length :: (ops1 ++ (charConsts s).map (opConst hd)) ++ [.pop], ?_, ?_, ?_, ?_⟩
        · simp [compileArg, hcode1, hf1]
        · simpa [compileArg, hf2] using hp1
        · intro hc
          simpa [compileArg, hf2] using hn1 (by simpa using hc)
        · have := S.partial_ _ _ (Rep.abs tail) _
            (S.append hr1 (S.consts _ (charConsts s) (closed_charConsts s)))
          have e : Rep.abs (.part (.charList s) tail) = Term.list (charConsts s) (Rep.abs tail) := by
            simp [Rep.abs, charConsts, graft_list]
          have el : (charConsts s).length = s.length := by simp [charConsts]
          rw [e]
          simpa [compileArg, hf2, el] using this
      | codeList s =>
        simp only [WF, Bool.and_eq_true] at h
        obtain ⟨ops1, hcode1, hp1, hn1, hr1⟩ :=
          compileArg_sem S tail (emit c (opPartial hd s.length)) h.2
        obtain ⟨hf1, hf2⟩ := foldl_emit (opConst hd) (codeConsts s)
          (compileArg hd tail (emit c (opPartial hd s.length)))
        refine ⟨opPartial hd s.length :: (ops1 ++ (codeConsts s).map (opConst hd)) ++ [.pop], ?_, ?_, ?_, ?_⟩
        · simp [compileArg, hcode1, hf1]
        · simpa [compileArg, hf2] using hp1
        · intro hc
          simpa [compileArg, hf2] using hn1 (by simpa using hc)
        · have := S.partial_ _ _ (Rep.abs tail) _
            (S.append hr1 (S.consts _ (codeConsts s) (closed_codeConsts s)))
          have e : Rep.abs (.part (.codeList s) tail) = Term.list (codeConsts s) (Rep.abs tail) := by
            simp [Rep.abs, codeConsts, graft_list]
          have el : (codeConsts s).length = s.length := by simp [codeConsts]
          rw [e]
          simpa [compileArg, hf2, el] using this
      | _ => simp [WF] at h
  theorem compileArgs_sem {hd : Bool} {R : List Nat → List Op → List Term → Prop} (S : ArgSem hd R) :
      ∀ (rs : RepList) (c : CState), WFs rs = true →
      ∃ ops, (compileArgs hd rs c).code = c.code ++ ops ∧ c.vars <+: (compileArgs hd rs c).vars ∧
        (c.vars.Nodup → (compileArgs hd rs c).vars.Nodup) ∧
        R (compileArgs hd rs c).vars ops (Rep.absArgs rs).toList
    | .nil, c, _ => ⟨[], by simp [compileArgs], by simp [compileArgs], by simp [compileArgs],
        by simpa [compileArgs, Rep.absArgs, Args.toList] using S.nil c.vars⟩
    | .cons r rs, c, h => by
      simp only [WFs, Bool.and_eq_true] at h
      obtain ⟨ops1, hcode1, hp1, hn1, hr1⟩ := compileArg_sem S r c h.1
      obtain ⟨ops2, hcode2, hp2, hn2, hr2⟩ := compileArgs_sem S rs (compileArg hd r c) h.2
      refine ⟨ops1 ++ ops2, ?_, ?_, fun hc => ?_, ?_⟩
      · simp [compileArgs, hcode1, hcode2]
      · simpa [compileArgs] using List.IsPrefix.trans hp1 hp2
      · simpa [compileArgs] using hn2 (hn1 hc)
      · have := S.append (S.mono hr1 hp2) hr2
        simpa [compileArgs, Rep.absArgs, Args.toList] using this
end

/-! ## from run time to compile time: renaming the source variables to the activation's variables -/

/-- ρ sends the source variable at offset `i` of the table to the activation variable `vars[i]` -/
def Renames (tbl vars : List Nat) (ρ : Nat → Nat) : Prop :=
  ∀ (i v : Nat), tbl[i]? = some v → vars[i]? = some (ρ v)

theorem Renames.mono {tbl tbl' vars : List Nat} {ρ : Nat → Nat} (h : Renames tbl' vars ρ)
    (hp : tbl <+: tbl') : Renames tbl vars ρ := fun i v hi => h i v (prefix_get hp hi)

theorem Renames.mem {tbl vars : List Nat} {ρ : Nat → Nat} (h : Renames tbl vars ρ) {v : Nat}
    (hv : v ∈ tbl) : ρ v ∈ vars := by
  obtain ⟨i, hi, rfl⟩ := List.getElem_of_mem hv
  exact List.mem_of_getElem? (h i _ (List.getElem?_eq_getElem hi))

/-- every variable of the terms `ts` is in the table -/
def VarsIn (tbl : List Nat) (ts : List Term) : Prop := ∀ t ∈ ts, ∀ v, t.hasVar v = true → v ∈ tbl

theorem hasVar_ofList {v : Nat} : ∀ {ts : List Term}, (Args.ofList ts).hasVar v = true →
    ∃ t ∈ ts, t.hasVar v = true
  | [], h => by simp [Args.ofList, Args.hasVar] at h
  | t :: ts, h => by
    simp only [Args.ofList, Args.hasVar, Bool.or_eq_true] at h
    rcases h with h | h
    · exact ⟨t, by simp, h⟩
    · obtain ⟨t', hm, ht'⟩ := hasVar_ofList h
      exact ⟨t', by simp [hm], ht'⟩

theorem hasVar_list {v : Nat} {tl : Term} : ∀ {es : List Term}, (Term.list es tl).hasVar v = true →
    (∃ t ∈ es, t.hasVar v = true) ∨ tl.hasVar v = true
  | [], h => Or.inr h
  | e :: es, h => by
    have e1 : Term.list (e :: es) tl = Term.consT e (Term.list es tl) := rfl
    rw [e1] at h
    simp only [Term.consT, Term.hasVar, Args.hasVar, Bool.or_false, Bool.or_eq_true] at h
    rcases h with h | h
    · exact Or.inl ⟨e, by simp, h⟩
    · rcases hasVar_list h with ⟨t', hm, ht'⟩ | h'
      · exact Or.inl ⟨t', by simp [hm], ht'⟩
      · exact Or.inr h'

/-- the variables of a renamed term are images of its variables -/
theorem rename_below {N : Nat} {ρ : Nat → Nat} (t : Term) (h : ∀ v, t.hasVar v = true → ρ v < N) :
    TBelow N (t.rename ρ) := by
  intro θ θ' hag
  simp only [Term.rename, Term.subst_comp]
  exact subst_congr t _ _ (fun v hv => by simp [Subst.comp, Term.subst, hag (ρ v) (h v hv)])

theorem rename_app (ρ : Nat → Nat) (g : String) (args : List Term) :
    (Term.app g (Args.ofList args)).rename ρ = .app g (Args.ofList (args.map (Term.rename ρ))) := by
  show Term.subst _ _ = _
  rw [Term.subst, ofList_subst]; rfl

theorem rename_list (ρ : Nat → Nat) (es : List Term) (tl : Term) :
    (Term.list es tl).rename ρ = Term.list (es.map (Term.rename ρ)) (tl.rename ρ) := by
  show Term.subst _ _ = _
  rw [list_subst]; rfl

/-- closure properties of a run-time meaning `RR vars ops ps` of argument code -/
structure RunSem (hd : Bool) (RR : List Nat → List Op → List Term → Prop) : Prop where
  nil : ∀ vars, RR vars [] []
  append : ∀ {vars ops1 ops2 ps1 ps2}, RR vars ops1 ps1 → RR vars ops2 ps2 →
    RR vars (ops1 ++ ops2) (ps1 ++ ps2)
  const : ∀ vars c, RR vars [opConst hd c] [c]
  var : ∀ vars i v, vars[i]? = some v → RR vars [opVar hd i] [.var v]
  functor : ∀ {vars ops ps} g, RR vars ops ps →
    RR vars (opFunctor hd g ps.length :: ops ++ [.pop]) [.app g (Args.ofList ps)]
  list : ∀ {vars ops ps}, RR vars ops ps → RR vars (opList hd ps.length :: ops ++ [.pop]) [Term.list ps]
  partial_ : ∀ {vars ops tl es}, RR vars ops (tl :: es) →
    RR vars (opPartial hd es.length :: ops ++ [.pop]) [Term.list es tl]

/-- the compile-time reading of a run-time meaning: the variables of the source terms are in the
    table, and for every activation (`vars`, with ρ the renaming it induces) the code means the
    RENAMED terms -/
def Lift (RR : List Nat → List Op → List Term → Prop) (tbl : List Nat) (ops : List Op)
    (ts : List Term) : Prop :=
  VarsIn tbl ts ∧ ∀ vars ρ, Renames tbl vars ρ → RR vars ops (ts.map (Term.rename ρ))

theorem lift_argSem {hd : Bool} {RR : List Nat → List Op → List Term → Prop} (S : RunSem hd RR) :
    ArgSem hd (Lift RR) where
  nil vs := ⟨fun _ h => by simp at h, fun vars _ _ => S.nil vars⟩
  mono h hp := ⟨fun t ht v hv => hp.subset (h.1 t ht v hv), fun vars ρ hr => h.2 vars ρ (hr.mono hp)⟩
  append h1 h2 :=
    ⟨fun t ht v hv => by
        rcases List.mem_append.1 ht with ht | ht
        · exact h1.1 t ht v hv
        · exact h2.1 t ht v hv,
      fun vars ρ hr => by
        rw [List.map_append]
        exact S.append (h1.2 vars ρ hr) (h2.2 vars ρ hr)⟩
  const vs t hc :=
    ⟨fun t' ht' v hv => by
        simp only [List.mem_singleton] at ht'
        subst ht'
        simp [hc v] at hv,
      fun vars ρ _ => by
        simp only [List.map_cons, List.map_nil, rename_closed hc]
        exact S.const vars t⟩
  var vs i v hv :=
    ⟨fun t' ht' w hw => by
        simp only [List.mem_singleton] at ht'
        subst ht'
        simp only [Term.hasVar, beq_iff_eq] at hw
        subst hw
        exact List.mem_of_getElem? hv,
      fun vars ρ hr => S.var vars i (ρ v) (hr i v hv)⟩
  functor vs g ops args h :=
    ⟨fun t' ht' w hw => by
        simp only [List.mem_singleton] at ht'
        subst ht'
        obtain ⟨t, hm, ht⟩ := hasVar_ofList (by simpa [Term.hasVar] using hw)
        exact h.1 t hm w ht,
      fun vars ρ hr => by
        have := S.functor g (h.2 vars ρ hr)
        simpa [rename_app] using this⟩
  list vs ops es h :=
    ⟨fun t' ht' w hw => by
        simp only [List.mem_singleton] at ht'
        subst ht'
        rcases hasVar_list hw with ⟨t, hm, ht⟩ | hw'
        · exact h.1 t hm w ht
        · simp [Term.nilT, Term.hasVar] at hw',
      fun vars ρ hr => by
        have := S.list (h.2 vars ρ hr)
        have e : (Term.list es).rename ρ = Term.list (es.map (Term.rename ρ)) := rename_list ρ es _
        simpa [e] using this⟩
  partial_ vs ops tl es h :=
    ⟨fun t' ht' w hw => by
        simp only [List.mem_singleton] at ht'
        subst ht'
        rcases hasVar_list hw with ⟨t, hm, ht⟩ | hw'
        · exact h.1 t (by simp [hm]) w ht
        · exact h.1 tl (by simp) w hw',
      fun vars ρ hr => by
        have := S.partial_ (h.2 vars ρ hr)
        simpa [rename_list] using this⟩

theorem getsR_runSem : RunSem true GetsR where
  nil := GetsR_nil
  append := GetsR_append
  const := GetsR_const
  var := GetsR_var
  functor g h := GetsR_functor g h
  list h := GetsR_list h
  partial_ h := GetsR_partial h

theorem putsR_runSem : RunSem false PutsR where
  nil := PutsR_nil
  append := PutsR_append
  const := PutsR_const
  var := PutsR_var
  functor g h := PutsR_functor g _ h
  list h := PutsR_list _ h
  partial_ h := PutsR_partial _ h

/-- compile-time meaning of head code / body-argument code -/
abbrev Gets := Lift GetsR
abbrev Puts := Lift PutsR

theorem compileHeadArgs_gets (rs : RepList) (c : CState) (hw : WFs rs = true) :
    ∃ ops, (compileHeadArgs rs c).code = c.code ++ ops ∧ c.vars <+: (compileHeadArgs rs c).vars ∧
      (c.vars.Nodup → (compileHeadArgs rs c).vars.Nodup) ∧
      Gets (compileHeadArgs rs c).vars ops (Rep.absArgs rs).toList := by
  rw [compileHeadArgs_eq]
  exact compileArgs_sem (lift_argSem getsR_runSem) rs c hw

theorem compileBodyArgs_puts (rs : RepList) (c : CState) (hw : WFs rs = true) :
    ∃ ops, (compileBodyArgs rs c).code = c.code ++ ops ∧ c.vars <+: (compileBodyArgs rs c).vars ∧
      (c.vars.Nodup → (compileBodyArgs rs c).vars.Nodup) ∧
      Puts (compileBodyArgs rs c).vars ops (Rep.absArgs rs).toList := by
  rw [compileBodyArgs_eq]
  exact compileArgs_sem (lift_argSem putsR_runSem) rs c hw

/-! ## the canonical renaming of an activation -/

/-- source variable ↦ the activation variable at its offset in the table (identity off the table) -/
def renOf (tbl vars : List Nat) (v : Nat) : Nat :=
  match indexOf? tbl v with
  | some i => vars.getD i v
  | none => v

theorem indexOf_go_nodup (v : Nat) : ∀ (xs : List Nat) (k i : Nat), xs.Nodup → xs[i]? = some v →
    indexOf?.go v xs k = some (i + k)
  | [], _, _, _, h => by simp at h
  | x :: xs, k, 0, _, h => by
    simp only [List.getElem?_cons_zero, Option.some.injEq] at h
    simp [indexOf?.go, h]
  | x :: xs, k, i + 1, hn, h => by
    simp only [List.getElem?_cons_succ] at h
    have hv : v ∈ xs := List.mem_of_getElem? h
    have hx : x ≠ v := by
      rintro rfl
      exact (List.nodup_cons.1 hn).1 hv
    simp only [indexOf?.go, hx, if_false]
    rw [indexOf_go_nodup v xs (k + 1) i (List.nodup_cons.1 hn).2 h]
    congr 1; omega

theorem renames_renOf {tbl vars : List Nat} (hn : tbl.Nodup) (hl : tbl.length ≤ vars.length) :
    Renames tbl vars (renOf tbl vars) := by
  intro i v hi
  have hidx : indexOf? tbl v = some i := by
    have := indexOf_go_nodup v tbl 0 i hn hi
    simpa [indexOf?] using this
  have hlt : i < tbl.length := by
    rcases Nat.lt_or_ge i tbl.length with h | h
    · exact h
    · rw [List.getElem?_eq_none h] at hi; cases hi
  have hlt' : i < vars.length := Nat.lt_of_lt_of_le hlt hl
  simp [renOf, hidx, List.getD, List.getElem?_eq_getElem hlt']

theorem nodup_getElem?_inj {a : Nat} : ∀ {l : List Nat} {i j : Nat}, l.Nodup → l[i]? = some a →
    l[j]? = some a → i = j
  | [], _, _, _, h, _ => by simp at h
  | x :: xs, 0, 0, _, _, _ => rfl
  | x :: xs, 0, j + 1, hn, h1, h2 => by
    simp only [List.getElem?_cons_zero, Option.some.injEq] at h1
    simp only [List.getElem?_cons_succ] at h2
    subst h1
    exact absurd (List.mem_of_getElem? h2) (List.nodup_cons.1 hn).1
  | x :: xs, i + 1, 0, hn, h1, h2 => by
    simp only [List.getElem?_cons_zero, Option.some.injEq] at h2
    simp only [List.getElem?_cons_succ] at h1
    subst h2
    exact absurd (List.mem_of_getElem? h1) (List.nodup_cons.1 hn).1
  | x :: xs, i + 1, j + 1, hn, h1, h2 => by
    simp only [List.getElem?_cons_succ] at h1 h2
    rw [nodup_getElem?_inj (List.nodup_cons.1 hn).2 h1 h2]

/-- a renaming onto pairwise distinct activation variables is one-to-one on the table:
    the renamed clause is a VARIANT of the source clause -/
theorem Renames.inj {tbl vars : List Nat} {ρ : Nat → Nat} (h : Renames tbl vars ρ) (hn : vars.Nodup)
    {v w : Nat} (hv : v ∈ tbl) (hw : w ∈ tbl) (he : ρ v = ρ w) : v = w := by
  obtain ⟨i, hi, rfl⟩ := List.getElem_of_mem hv
  obtain ⟨j, hj, rfl⟩ := List.getElem_of_mem hw
  have h1 := h i _ (List.getElem?_eq_getElem hi)
  have h2 := h j _ (List.getElem?_eq_getElem hj)
  rw [he] at h1
  have := nodup_getElem?_inj hn h1 h2
  subst this
  rfl

theorem freshL_nodup (N n : Nat) : (freshL N n).Nodup := by
  simp only [freshL]
  rw [List.nodup_iff_pairwise_ne, List.pairwise_map]
  exact List.Pairwise.imp (fun {a b} (h : a < b) => by omega) List.pairwise_lt_range

/-! ## body goals -/

/-- functor name and argument list of a callable term -/
def functorName : Term → String
  | .atom s => s
  | .app f _ => f
  | _ => ""

def argList : Term → List Term
  | .app _ as => as.toList
  | _ => []

theorem toList_subst (θ : Subst) : ∀ as : Args, (as.subst θ).toList = as.toList.map (Term.subst θ)
  | .nil => rfl
  | .cons t ts => by simp [Args.subst, Args.toList, toList_subst θ ts]

theorem functorName_rename (ρ : Nat → Nat) (t : Term) (h : ∀ v, t ≠ .var v) :
    functorName (t.rename ρ) = functorName t := by
  cases t with
  | var v => exact absurd rfl (h v)
  | _ => rfl

theorem argList_rename (ρ : Nat → Nat) (t : Term) :
    argList (t.rename ρ) = (argList t).map (Term.rename ρ) := by
  cases t with
  | app f as => simp only [Term.rename, Term.subst, argList, toList_subst]; rfl
  | _ => rfl

/-- `seg` builds the arguments `ps` and calls `f`: running it IS arriving at `f(ps)` with the rest
    of the clause as the continuation — same environment, same machine state -/
def CallsR (vars : List Nat) (seg : List Op) (f : String) (ps : List Term) : Prop :=
  ∀ (fuel : Nat) (rest : List Op) (k : Cont) (env : Env) (cp : Nat) (m : MS),
    exec fuel (seg ++ rest) vars k [] [] env cp m =
      if seg.length ≤ fuel then arrive (fuel - seg.length) f ps (.exec rest vars cp k) env m else none

theorem CallsR_of_puts {vars : List Nat} {ops : List Op} {ps : List Term} (f : String) (n : Nat)
    (h : PutsR vars ops ps) : CallsR vars (ops ++ [.call f n]) f ps := by
  intro fuel rest k env cp m
  rw [List.append_assoc, h, List.length_append, List.length_singleton, List.nil_append,
    List.singleton_append]
  by_cases c1 : ops.length ≤ fuel
  · rw [if_pos c1]
    cases hj : fuel - ops.length with
    | zero =>
      have c3 : ¬ ops.length + 1 ≤ fuel := by omega
      rw [if_neg c3, exec_zero]
    | succ j =>
      have c3 : ops.length + 1 ≤ fuel := by omega
      have e : fuel - (ops.length + 1) = j := by omega
      rw [if_pos c3, exec_call, e]
  · have c3 : ¬ ops.length + 1 ≤ fuel := by omega
    rw [if_neg c1, if_neg c3]

/-- compile-time meaning of the code of a goal that is not `!`: for every activation the code
    calls the RENAMED goal -/
def CallSem (tbl : List Nat) (seg : List Op) (T : Term) : Prop :=
  VarsIn tbl [T] ∧
  ∀ vars ρ, Renames tbl vars ρ → CallsR vars seg (functorName (T.rename ρ)) (argList (T.rename ρ))

theorem CallSem.mono {tbl tbl' : List Nat} {seg : List Op} {T : Term} (h : CallSem tbl seg T)
    (hp : tbl <+: tbl') : CallSem tbl' seg T :=
  ⟨fun t ht v hv => hp.subset (h.1 t ht v hv), fun vars ρ hr => h.2 vars ρ (hr.mono hp)⟩

/-- meaning of the code of one body goal: `!` is the cut instruction, anything else a call -/
def GoalSem (tbl : List Nat) (seg : List Op) (g : Rep) : Prop :=
  (g = .atom "!" ∧ seg = [.cut]) ∨ (g ≠ .atom "!" ∧ CallSem tbl seg (goalTerm g))

theorem GoalSem.mono {tbl tbl' : List Nat} {seg : List Op} {g : Rep} (h : GoalSem tbl seg g)
    (hp : tbl <+: tbl') : GoalSem tbl' seg g := by
  rcases h with h | ⟨h1, h2⟩
  · exact Or.inl h
  · exact Or.inr ⟨h1, h2.mono hp⟩

/-- meaning of the code of a goal sequence: the goals' segments, in order -/
inductive BodySem (tbl : List Nat) : List Op → List Rep → Prop
  | nil : BodySem tbl [] []
  | cons {seg ops : List Op} {g : Rep} {gs : List Rep} :
      GoalSem tbl seg g → BodySem tbl ops gs → BodySem tbl (seg ++ ops) (g :: gs)

theorem BodySem.mono {tbl tbl' : List Nat} {ops : List Op} {gs : List Rep} (h : BodySem tbl ops gs)
    (hp : tbl <+: tbl') : BodySem tbl' ops gs := by
  induction h with
  | nil => exact .nil
  | cons hg _ ih => exact .cons (hg.mono hp) ih

theorem hasVar_toList {v : Nat} {as : Args} (h : as.hasVar v = true) : ∃ t ∈ as.toList, t.hasVar v = true := by
  have := hasVar_ofList (ts := as.toList) (v := v) (by simpa using h)
  exact this

/-- a goal with its arguments compiled by `compileBodyArgs`, then `call` -/
theorem call_sem (f : String) (rs : RepList) (c : CState) (hw : WFs rs = true) :
    ∃ seg, (emit (compileBodyArgs rs c) (.call f rs.length)).code = c.code ++ seg ∧
      c.vars <+: (compileBodyArgs rs c).vars ∧
      (c.vars.Nodup → (compileBodyArgs rs c).vars.Nodup) ∧
      CallSem (compileBodyArgs rs c).vars seg (.app f (Rep.absArgs rs)) := by
  obtain ⟨ops, hcode, hp, hn, hv, hr⟩ := compileBodyArgs_puts rs c hw
  refine ⟨ops ++ [.call f rs.length], by simp [hcode], hp, hn, ?_, ?_⟩
  · intro t ht v hvv
    simp only [List.mem_singleton] at ht
    subst ht
    obtain ⟨t', hm, ht'⟩ := hasVar_toList (by simpa [Term.hasVar] using hvv)
    exact hv t' hm v ht'
  · intro vars ρ hren
    have := CallsR_of_puts f rs.length (hr vars ρ hren)
    rw [argList_rename, functorName_rename _ _ (fun v => by simp)]
    exact this

theorem compilePred_sem (g : Rep) (c c' : CState) (hw : WF g = true) (h : compilePred g c = some c') :
    ∃ seg, c'.code = c.code ++ seg ∧ c.vars <+: c'.vars ∧ (c.vars.Nodup → c'.vars.Nodup) ∧
      GoalSem c'.vars seg g := by
  have cell : isCell g = true → ∃ seg, c'.code = c.code ++ seg ∧ c.vars <+: c'.vars ∧
      (c.vars.Nodup → c'.vars.Nodup) ∧ GoalSem c'.vars seg g := by
    intro hc
    obtain ⟨a, b, h0, h1, hwa, hwb, habs⟩ := cell_args g hw hc
    rw [compilePred_cell c hc h0 h1] at h
    cases h
    obtain ⟨seg, h1, h2, h3, h4⟩ :=
      call_sem "." (.cons a (.cons b .nil)) c (by simp [WFs, hwa, hwb])
    have hg : goalTerm g = Rep.abs g := by cases g <;> simp [isCell] at hc <;> rfl
    have hne : g ≠ .atom "!" := by rintro rfl; simp [isCell] at hc
    refine ⟨seg, ?_, ?_, ?_, Or.inr ⟨hne, ?_⟩⟩
    · simpa [compileBodyArgs, RepList.length] using h1
    · simpa [compileBodyArgs] using h2
    · simpa [compileBodyArgs] using h3
    · simpa [compileBodyArgs, Rep.absArgs, hg, habs] using h4
  cases g with
  | var v =>
    simp only [compilePred, Option.some.injEq] at h
    subst h
    obtain ⟨seg, h1, h2, h3, h4⟩ := call_sem "call" (.cons (.var v) .nil) c (by simp [WFs, WF])
    refine ⟨seg, ?_, ?_, ?_, Or.inr ⟨by simp, ?_⟩⟩
    · simpa [compileBodyArgs, RepList.length] using h1
    · simpa [compileBodyArgs] using h2
    · simpa [compileBodyArgs] using h3
    · simpa [compileBodyArgs, Rep.absArgs, goalTerm, Rep.abs] using h4
  | atom s =>
    by_cases hs : s = "!"
    · subst hs
      simp only [compilePred, Option.some.injEq] at h
      subst h
      exact ⟨[.cut], by simp, by simp, by simp, Or.inl ⟨rfl, rfl⟩⟩
    · simp only [compilePred, Option.some.injEq] at h
      subst h
      refine ⟨[.call s 0], by simp, by simp, by simp, Or.inr ⟨by simpa using hs, ?_, ?_⟩⟩
      · intro t ht v hv
        simp only [List.mem_singleton] at ht
        subst ht
        simp [goalTerm, Rep.abs, Term.hasVar] at hv
      · intro vars ρ _
        have := CallsR_of_puts s 0 (PutsR_nil vars)
        simpa [goalTerm, Rep.abs, Term.rename, Term.subst, functorName, argList] using this
  | compound f args =>
    simp only [compilePred, Option.some.injEq] at h
    subst h
    simp only [WF, Bool.and_eq_true] at hw
    obtain ⟨seg, h1, h2, h3, h4⟩ := call_sem f args c hw.2
    exact ⟨seg, h1, by simpa using h2, by simpa using h3,
      Or.inr ⟨by simp, by simpa [goalTerm, Rep.abs] using h4⟩⟩
  | int _ => simp [compilePred] at h
  | flt _ => simp [compilePred] at h
  | str _ => simp [compilePred] at h
  | list _ => exact cell rfl
  | charList _ => exact cell rfl
  | codeList _ => exact cell rfl
  | part _ _ => exact cell rfl

theorem goals_sem : ∀ (gs : List Rep) (c c' : CState), (∀ g ∈ gs, WF g = true) →
    gs.foldl (fun oc g => oc.bind (compilePred g)) (some c) = some c' →
    ∃ ops, c'.code = c.code ++ ops ∧ c.vars <+: c'.vars ∧ (c.vars.Nodup → c'.vars.Nodup) ∧
      BodySem c'.vars ops gs
  | [], c, c', _, h => by
    simp only [List.foldl, Option.some.injEq] at h
    subst h
    exact ⟨[], by simp, List.prefix_refl _, id, .nil⟩
  | g :: gs, c, c', hw, h => by
    simp only [List.foldl, Option.bind_some] at h
    cases h1 : compilePred g c with
    | none => rw [h1, foldl_bind_none] at h; cases h
    | some c1 =>
      rw [h1] at h
      obtain ⟨seg, hc1, hp1, hn1, hr1⟩ := compilePred_sem g c c1 (hw g (by simp)) h1
      obtain ⟨ops, hc2, hp2, hn2, hr2⟩ := goals_sem gs c1 c' (fun g' hg' => hw g' (by simp [hg'])) h
      exact ⟨seg ++ ops, by simp [hc2, hc1], List.IsPrefix.trans hp1 hp2, fun hc => hn2 (hn1 hc),
        .cons (hr1.mono hp2) hr2⟩

theorem compileBody_sem (body : Rep) (c c' : CState) (hw : ∀ g ∈ seqGoals body, WF g = true)
    (h : compileBody body c = some c') :
    ∃ ops, c'.code = c.code ++ Op.enter :: ops ∧ c.vars <+: c'.vars ∧
      (c.vars.Nodup → c'.vars.Nodup) ∧ BodySem c'.vars ops (seqGoals body) := by
  obtain ⟨ops, hc, hp, hn, hr⟩ := goals_sem (seqGoals body) (emit c .enter) c' hw h
  exact ⟨ops, by simp [hc], by simpa using hp, by simpa using hn, hr⟩

/-! ## helpers for running the VM on concrete code by rewriting (used by the non-vacuity examples;
    `exec` is defined by well-founded recursion and does not reduce in the kernel) -/

/-- the environment a finished unification returns -/
def uni (env : Env) (a b : Term) : Env :=
  match unify inner false env a b with
  | some (e, _) => e
  | none => env

theorem unifyThen_ok {env : Env} {a b : Term} {m : MS} {X : Env → Option (Pr × MS)}
    (h : (unify inner false env a b).map (·.2) = some .ok) : unifyThen env a b m X = X (uni env a b) := by
  unfold unifyThen uni
  cases hu : unify inner false env a b with
  | none => simp [hu] at h
  | some p =>
    obtain ⟨e, r⟩ := p
    simp only [hu, Option.map_some, Option.some.injEq] at h
    subst h
    rfl

theorem unifyThen_clash {env : Env} {a b : Term} {m : MS} {X : Env → Option (Pr × MS)}
    (h : (unify inner false env a b).map (·.2) = some .clash) : unifyThen env a b m X = some (failP, m) := by
  unfold unifyThen
  cases hu : unify inner false env a b with
  | none => simp [hu] at h
  | some p =>
    obtain ⟨e, r⟩ := p
    simp only [hu, Option.map_some, Option.some.injEq] at h
    subst h
    rfl

theorem exec_getVar' (n : Nat) (pc : List Op) (vars : List Nat) (k : Cont) (astack : List Frame)
    (env : Env) (cp : Nat) (m : MS) (i : Nat) (a : Term) (rest : List Term) (h : i < vars.length) :
    exec (n + 1) (.getVar i :: pc) vars k (a :: rest) astack env cp m =
      unifyThen env a (.var (vars.getD i 0)) m (fun env' => exec n pc vars k rest astack env' cp m) :=
  exec_getVar n pc vars k astack env cp m i _ a rest (by simp [List.getD, List.getElem?_eq_getElem h])

theorem freshL_zero (N : Nat) : freshL N 0 = [] := rfl

theorem freshL_succ (N n : Nat) : freshL N (n + 1) = N :: freshL (N + 1) n := by
  simp only [freshL, List.range_succ_eq_map, List.map_cons, List.map_map, Nat.zero_add]
  congr 1
  apply List.map_congr_left
  intro i _
  simp only [Function.comp]
  omega

mutual
  /-- decidable form of `VarsLt` -/
  def varsLtB (N : Nat) : Term → Bool
    | .var v => decide (v < N)
    | .app _ as => argsLtB N as
    | _ => true
  def argsLtB (N : Nat) : Args → Bool
    | .nil => true
    | .cons t ts => varsLtB N t && argsLtB N ts
end

mutual
  theorem varsLt_of_check (N : Nat) : ∀ t : Term, varsLtB N t = true → ∀ v, t.hasVar v = true → v < N
    | .var w, h, v, hv => by
      simp only [Term.hasVar, beq_iff_eq] at hv
      simp only [varsLtB, decide_eq_true_eq] at h
      omega
    | .app _ as, h, v, hv => argsLt_of_check N as (by simpa [varsLtB] using h) v (by simpa [Term.hasVar] using hv)
    | .atom _, _, _, hv => by simp [Term.hasVar] at hv
    | .int _, _, _, hv => by simp [Term.hasVar] at hv
    | .flt _, _, _, hv => by simp [Term.hasVar] at hv
    | .str _, _, _, hv => by simp [Term.hasVar] at hv
  theorem argsLt_of_check (N : Nat) : ∀ as : Args, argsLtB N as = true → ∀ v, as.hasVar v = true → v < N
    | .nil, _, _, hv => by simp [Args.hasVar] at hv
    | .cons t ts, h, v, hv => by
      simp only [argsLtB, Bool.and_eq_true] at h
      simp only [Args.hasVar, Bool.or_eq_true] at hv
      rcases hv with hv | hv
      · exact varsLt_of_check N t h.1 v hv
      · exact argsLt_of_check N ts h.2 v hv
end

/-- the freshness hypothesis on call arguments, from a decidable check -/
theorem tbelow_of_check {N : Nat} {args : List Term} (h : ∀ a ∈ args, varsLtB N a = true) :
    ∀ a ∈ args, TBelow N a :=
  fun a ha => TBelow.of_vars (varsLt_of_check N a (h a ha))

end PrologVerif.Activation
