package main

// arith.go — the Go→Lean TRANSLATOR for the arithmetic kernels of engine/number.go (DESIGN §2.2).
//
// Output: Generated/Arith.lean, namespace PrologVerif.Generated.Arith.  Every function of number.go
// whose signature only mentions Integer, Float, float64, Number, bool and error is translated into a
// Lean definition over the hand-written support of Model/ArithBase.lean:
//
//   Integer            I64 (64-bit two's complement; + - * and unary - are the WRAPPING wadd wsub wmul wneg)
//   / % << >>          goDiv goRem goShl goShr : … → Except GoPanic I64, bound in evaluation order
//                      (division by zero and a negative shift count are Go panics)
//   & | ^ ^x           I64.and or xor not
//   Float / float64    F with [FloatOps F] (a parameter): + - * / neg, comparisons, float64(n), Integer(f),
//                      math.Floor/Trunc/Round/Ceil/Abs/IsInf/IsNaN/MaxFloat64; other math.* are `lib1/lib2`
//   Number             Num F = int | flt; type switches and `v, ok := x.(T)` become matches; clauses that
//                      can only be reached by a third implementation of Number are dropped and LISTED
//   (T, error)         Except Err T; `return 0, e` ↦ .error e (the value must be the zero value),
//                      `v, err := f(…); if err != nil { return …, err }` ↦ bind, `v, _ := f(…)` ↦ ignoreErr
//   if / switch{case}  nested if-then-else on Prop conditions; && || become ∧ ∨ (a partial operator on
//   switch tag         their right-hand side is refused)
//   for { … break }    a fuel-recursive auxiliary definition `<fn>_loop` over the loop-carried variables;
//                      fuel bound from `loopFuel`, exhaustion is the explicit outcome GoPanic.outOfFuel
//
// Anything else makes the translation of THAT function fail: a stub is emitted, the failure is written
// to stderr and the extractor exits non-zero (a broken proof obligation).  The dispatch tables
// unaryFunctors/binaryFunctors, the kernels the comparison predicates call and the registration of the
// arithmetic predicates are emitted as facts.

import (
	"bytes"
	"fmt"
	"go/ast"
	"go/parser"
	"go/printer"
	"go/token"
	"os"
	"path/filepath"
	"sort"
	"strconv"
	"strings"
)

func init() {
	extractors = append(extractors, extractor{file: "Arith.lean", run: genArith})
}

// fuel for translated loops: a bound on the number of iterations, justified by a theorem on the Lean side
// (C07_intPow_fuel: for b ≥ 0 the loop of intPow ends within 64 iterations).
var loopFuel = map[string]int{"intPow": 64}

type ty int

const (
	tyNone ty = iota
	tyInt
	tyFloat
	tyNum
	tyBool
	tyErr
	tyConst // untyped integer constant
)

func (t ty) lean() string {
	switch t {
	case tyInt:
		return "I64"
	case tyFloat:
		return "F"
	case tyNum:
		return "Num F"
	case tyBool:
		return "Bool"
	}
	return "?"
}

type param struct {
	name string
	t    ty
}

type fnSig struct {
	name      string
	params    []param
	res       ty
	hasErr    bool
	decl      *ast.FuncDecl
	explicitF bool // F does not occur in the signature but the body needs it
	sigF      bool // F occurs in the signature
	failed    string
}

type transErr struct{ msg string }

type arithTranslator struct {
	fset         *token.FileSet
	fns          map[string]*fnSig
	atoms        map[string]string // atomX -> text
	vtypes       map[string]string // validTypeX -> atom text
	excvals      map[string]string // exceptionalValueX -> ExcVal constructor
	notes        []string
	droppedTexts map[string]bool
}

func (t *arithTranslator) fail(n ast.Node, format string, a ...interface{}) {
	pos := ""
	if n != nil {
		p := t.fset.Position(n.Pos())
		pos = fmt.Sprintf("%s:%d: ", filepath.Base(p.Filename), p.Line)
	}
	panic(transErr{pos + fmt.Sprintf(format, a...)})
}

func goTy(e ast.Expr) ty {
	if id, ok := e.(*ast.Ident); ok {
		switch id.Name {
		case "Integer":
			return tyInt
		case "Float", "float64":
			return tyFloat
		case "Number":
			return tyNum
		case "bool":
			return tyBool
		case "error":
			return tyErr
		}
	}
	return tyNone
}

// ---------------------------------------------------------------------------------------------
// tables from other files of the package
// ---------------------------------------------------------------------------------------------

func (t *arithTranslator) collectTables(files []*ast.File) {
	// atomX = NewAtom("…")
	for _, f := range files {
		for _, d := range f.Decls {
			gd, ok := d.(*ast.GenDecl)
			if !ok || gd.Tok != token.VAR {
				continue
			}
			for _, s := range gd.Specs {
				vs := s.(*ast.ValueSpec)
				for i, n := range vs.Names {
					if i >= len(vs.Values) {
						continue
					}
					if c, ok := vs.Values[i].(*ast.CallExpr); ok {
						if id, ok := c.Fun.(*ast.Ident); ok && id.Name == "NewAtom" && len(c.Args) == 1 {
							if bl, ok := c.Args[0].(*ast.BasicLit); ok && bl.Kind == token.STRING {
								if s, err := strconv.Unquote(bl.Value); err == nil {
									t.atoms[n.Name] = s
								}
							}
						}
					}
					// validTypeAtoms / exceptionalValueAtoms = [...]Atom{ k: atomX, … }
					if n.Name == "validTypeAtoms" || n.Name == "exceptionalValueAtoms" {
						if cl, ok := vs.Values[i].(*ast.CompositeLit); ok {
							for _, el := range cl.Elts {
								kv, ok := el.(*ast.KeyValueExpr)
								if !ok {
									continue
								}
								k, ok1 := kv.Key.(*ast.Ident)
								v, ok2 := kv.Value.(*ast.Ident)
								if ok1 && ok2 {
									if n.Name == "validTypeAtoms" {
										t.vtypes[k.Name] = v.Name
									} else {
										t.excvals[k.Name] = v.Name
									}
								}
							}
						}
					}
				}
			}
		}
	}
	for k, a := range t.vtypes {
		t.vtypes[k] = t.atoms[a]
	}
	ctor := map[string]string{"float_overflow": "floatOverflow", "int_overflow": "intOverflow", "underflow": "underflow",
		"zero_divisor": "zeroDivisor", "undefined": "undefined"}
	for k, a := range t.excvals {
		t.excvals[k] = ctor[t.atoms[a]]
	}
}

// ---------------------------------------------------------------------------------------------
// scopes
// ---------------------------------------------------------------------------------------------

type varInfo struct {
	t     ty
	depth int
	lean  string
}

type scope struct {
	vars map[string]varInfo
}

func (s *scope) with(name string, v varInfo) *scope {
	n := &scope{vars: make(map[string]varInfo, len(s.vars)+1)}
	for k, x := range s.vars {
		n.vars[k] = x
	}
	n.vars[name] = v
	return n
}

var leanKeywords = map[string]bool{"at": true, "do": true, "end": true, "from": true, "have": true, "show": true, "then": true,
	"fun": true, "open": true, "in": true, "let": true, "if": true, "else": true, "match": true, "with": true, "where": true,
	"by": true, "def": true, "theorem": true, "instance": true, "class": true, "structure": true, "namespace": true,
	"section": true, "variable": true, "universe": true, "import": true, "export": true, "F": true, "fuel": true, "Type": true}

func leanName(n string) string {
	if leanKeywords[n] {
		return n + "_"
	}
	return n
}

// a statement together with the nesting depth of the block it belongs to
type dstmt struct {
	s     ast.Stmt
	depth int
}

type loopCtx struct {
	name string
	vars []param // loop-carried variables, in order
	rest []dstmt // statements after the loop (continuation of `break`)
}

type fctx struct {
	t       *arithTranslator
	fn      *fnSig
	tmp     int
	usesF   bool
	loop    *loopCtx
	aux     []string // auxiliary definitions (loops), emitted before the function
	depth   int      // depth of the statement being translated (for the shadowing check)
	visited map[ast.Stmt]bool
}

type hoist struct{ name, rhs string }

type ex struct {
	s      string
	t      ty
	hoists []hoist
	cval   *int64 // untyped constant value
}

func indent(s string) string {
	return "  " + strings.ReplaceAll(s, "\n", "\n  ")
}

func (c *fctx) fresh() string {
	c.tmp++
	return fmt.Sprintf("t%d", c.tmp)
}

func (c *fctx) needF() { c.usesF = true }

// ---------------------------------------------------------------------------------------------
// expressions
// ---------------------------------------------------------------------------------------------

func constLit(v int64, want ty, c *fctx, n ast.Node) ex {
	vv := v
	switch want {
	case tyInt:
		if v < 0 {
			return ex{s: fmt.Sprintf("(I64.ofInt (%d))", v), t: tyInt, cval: &vv}
		}
		return ex{s: fmt.Sprintf("(%d : I64)", v), t: tyInt, cval: &vv}
	case tyFloat:
		c.needF()
		if v < 0 {
			return ex{s: fmt.Sprintf("(FloatOps.ofInt (%d) : F)", v), t: tyFloat, cval: &vv}
		}
		return ex{s: fmt.Sprintf("(FloatOps.ofInt %d : F)", v), t: tyFloat, cval: &vv}
	case tyNone, tyConst:
		return ex{s: fmt.Sprint(v), t: tyConst, cval: &vv}
	}
	c.t.fail(n, "integer constant %d used at unsupported type", v)
	return ex{}
}

func (c *fctx) lookup(id *ast.Ident, sc *scope) (varInfo, bool) {
	v, ok := sc.vars[id.Name]
	if ok && v.depth > c.depth {
		c.t.fail(id, "identifier %s refers to an outer variable that the flattened translation shadows", id.Name)
	}
	return v, ok
}

func (c *fctx) expr(e ast.Expr, sc *scope, want ty) ex {
	t := c.t
	switch e := e.(type) {
	case *ast.ParenExpr:
		return c.expr(e.X, sc, want)
	case *ast.BasicLit:
		if e.Kind == token.INT {
			v, err := strconv.ParseInt(e.Value, 0, 64)
			if err != nil {
				t.fail(e, "integer literal %s", e.Value)
			}
			return constLit(v, want, c, e)
		}
		t.fail(e, "literal %s is outside the fragment", e.Value)
	case *ast.Ident:
		if v, ok := c.lookup(e, sc); ok {
			if v.t == tyBool {
				return ex{s: "(" + v.lean + " = true)", t: tyBool}
			}
			return ex{s: v.lean, t: v.t}
		}
		switch e.Name {
		case "maxInt":
			return ex{s: "I64.maxInt", t: tyInt}
		case "minInt":
			return ex{s: "I64.minInt", t: tyInt}
		case "true":
			return ex{s: "True", t: tyBool}
		case "false":
			return ex{s: "False", t: tyBool}
		}
		if cn, ok := t.excvals[e.Name]; ok && cn != "" {
			return ex{s: "(Err.ev ." + cn + ")", t: tyErr}
		}
		t.fail(e, "identifier %s is outside the fragment", e.Name)
	case *ast.SelectorExpr:
		if p, ok := e.X.(*ast.Ident); ok && p.Name == "math" {
			switch e.Sel.Name {
			case "MaxFloat64":
				c.needF()
				return ex{s: "(FloatOps.maxFloat : F)", t: tyFloat}
			}
		}
		t.fail(e, "selector is outside the fragment")
	case *ast.UnaryExpr:
		switch e.Op {
		case token.SUB:
			x := c.expr(e.X, sc, want)
			switch x.t {
			case tyConst:
				return constLit(-*x.cval, want, c, e)
			case tyInt:
				if x.cval != nil {
					return constLit(-*x.cval, tyInt, c, e)
				}
				return ex{s: "(I64.wneg " + x.s + ")", t: tyInt, hoists: x.hoists}
			case tyFloat:
				if x.cval != nil {
					return constLit(-*x.cval, tyFloat, c, e)
				}
				return ex{s: "(FloatOps.neg " + x.s + ")", t: tyFloat, hoists: x.hoists}
			}
		case token.XOR:
			x := c.expr(e.X, sc, tyInt)
			if x.t == tyInt {
				return ex{s: "(I64.not " + x.s + ")", t: tyInt, hoists: x.hoists}
			}
		case token.NOT:
			x := c.expr(e.X, sc, tyBool)
			if x.t == tyBool {
				return ex{s: "(¬ " + x.s + ")", t: tyBool, hoists: x.hoists}
			}
		}
		t.fail(e, "unary operator %s at this type is outside the fragment", e.Op)
	case *ast.BinaryExpr:
		return c.binary(e, sc, want)
	case *ast.CallExpr:
		return c.call(e, sc, want)
	}
	t.fail(e, "expression form %T is outside the fragment", e)
	return ex{}
}

func (c *fctx) binary(e *ast.BinaryExpr, sc *scope, want ty) ex {
	t := c.t
	switch e.Op {
	case token.LAND, token.LOR:
		l := c.expr(e.X, sc, tyBool)
		r := c.expr(e.Y, sc, tyBool)
		if l.t != tyBool || r.t != tyBool {
			t.fail(e, "operands of %s are not boolean", e.Op)
		}
		if len(r.hoists) > 0 {
			t.fail(e, "a partial operator (/ %% << >>) on the right of %s would be evaluated conditionally: outside the fragment", e.Op)
		}
		op := " ∧ "
		if e.Op == token.LOR {
			op = " ∨ "
		}
		return ex{s: "(" + l.s + op + r.s + ")", t: tyBool, hoists: l.hoists}
	}
	// operand types: an untyped constant takes the type of the other operand
	opWant := tyNone
	switch e.Op {
	case token.ADD, token.SUB, token.MUL, token.QUO, token.REM, token.AND, token.OR, token.XOR:
		if want == tyInt || want == tyFloat {
			opWant = want
		}
	}
	l := c.expr(e.X, sc, opWant)
	r := c.expr(e.Y, sc, opWant)
	if e.Op == token.SHL || e.Op == token.SHR {
		// the count has its own type
		if l.t == tyConst {
			l = c.expr(e.X, sc, tyInt)
		}
		if r.t == tyConst {
			r = c.expr(e.Y, sc, tyInt)
		}
	}
	if l.t == tyConst && r.t != tyConst {
		l = c.expr(e.X, sc, r.t)
	}
	if r.t == tyConst && l.t != tyConst {
		r = c.expr(e.Y, sc, l.t)
	}
	if l.t == tyConst && r.t == tyConst {
		t.fail(e, "constant expression: outside the fragment")
	}
	if l.t != r.t {
		t.fail(e, "operands of %s have different types", e.Op)
	}
	hs := append(append([]hoist{}, l.hoists...), r.hoists...)
	switch l.t {
	case tyInt:
		switch e.Op {
		case token.ADD:
			return ex{s: "(I64.wadd " + l.s + " " + r.s + ")", t: tyInt, hoists: hs}
		case token.SUB:
			return ex{s: "(I64.wsub " + l.s + " " + r.s + ")", t: tyInt, hoists: hs}
		case token.MUL:
			return ex{s: "(I64.wmul " + l.s + " " + r.s + ")", t: tyInt, hoists: hs}
		case token.AND:
			return ex{s: "(I64.and " + l.s + " " + r.s + ")", t: tyInt, hoists: hs}
		case token.OR:
			return ex{s: "(I64.or " + l.s + " " + r.s + ")", t: tyInt, hoists: hs}
		case token.XOR:
			return ex{s: "(I64.xor " + l.s + " " + r.s + ")", t: tyInt, hoists: hs}
		case token.QUO, token.REM, token.SHL, token.SHR:
			fn := map[token.Token]string{token.QUO: "goDiv", token.REM: "goRem", token.SHL: "goShl", token.SHR: "goShr"}[e.Op]
			v := c.fresh()
			hs = append(hs, hoist{name: v, rhs: fn + " " + l.s + " " + r.s})
			return ex{s: v, t: tyInt, hoists: hs}
		case token.EQL:
			return ex{s: "(" + l.s + " = " + r.s + ")", t: tyBool, hoists: hs}
		case token.NEQ:
			return ex{s: "(" + l.s + " ≠ " + r.s + ")", t: tyBool, hoists: hs}
		case token.LSS:
			return ex{s: "(" + l.s + " < " + r.s + ")", t: tyBool, hoists: hs}
		case token.LEQ:
			return ex{s: "(" + l.s + " ≤ " + r.s + ")", t: tyBool, hoists: hs}
		case token.GTR:
			return ex{s: "(" + l.s + " > " + r.s + ")", t: tyBool, hoists: hs}
		case token.GEQ:
			return ex{s: "(" + l.s + " ≥ " + r.s + ")", t: tyBool, hoists: hs}
		}
	case tyFloat:
		c.needF()
		ops := map[token.Token]string{token.ADD: "FloatOps.add", token.SUB: "FloatOps.sub", token.MUL: "FloatOps.mul", token.QUO: "FloatOps.div"}
		if f, ok := ops[e.Op]; ok {
			return ex{s: "(" + f + " " + l.s + " " + r.s + ")", t: tyFloat, hoists: hs}
		}
		cmp := map[token.Token]string{token.EQL: "feq", token.NEQ: "fne", token.LSS: "flt", token.LEQ: "fle", token.GTR: "fgt", token.GEQ: "fge"}
		if f, ok := cmp[e.Op]; ok {
			return ex{s: "(" + f + " " + l.s + " " + r.s + ")", t: tyBool, hoists: hs}
		}
	case tyBool:
		switch e.Op {
		case token.EQL:
			return ex{s: "(" + l.s + " ↔ " + r.s + ")", t: tyBool, hoists: hs}
		case token.NEQ:
			return ex{s: "(¬ (" + l.s + " ↔ " + r.s + "))", t: tyBool, hoists: hs}
		}
	}
	t.fail(e, "operator %s at this operand type is outside the fragment", e.Op)
	return ex{}
}

var mathUnary = map[string]string{"Floor": "FloatOps.floor", "Trunc": "FloatOps.trunc", "Round": "FloatOps.round", "Ceil": "FloatOps.ceil", "Abs": "FloatOps.abs"}
var mathLib1 = map[string]bool{"Sin": true, "Cos": true, "Tan": true, "Asin": true, "Acos": true, "Atan": true, "Exp": true, "Log": true, "Sqrt": true}
var mathLib2 = map[string]bool{"Pow": true, "Atan2": true}

func (c *fctx) call(e *ast.CallExpr, sc *scope, want ty) ex {
	t := c.t
	if sel, ok := e.Fun.(*ast.SelectorExpr); ok {
		p, ok := sel.X.(*ast.Ident)
		if !ok || p.Name != "math" {
			t.fail(e, "call of a method or of a package other than math: outside the fragment")
		}
		c.needF()
		name := sel.Sel.Name
		args := make([]ex, len(e.Args))
		var hs []hoist
		for i, a := range e.Args {
			args[i] = c.expr(a, sc, tyFloat)
			hs = append(hs, args[i].hoists...)
		}
		switch {
		case mathUnary[name] != "" && len(args) == 1 && args[0].t == tyFloat:
			return ex{s: "(" + mathUnary[name] + " " + args[0].s + ")", t: tyFloat, hoists: hs}
		case name == "IsNaN" && len(args) == 1 && args[0].t == tyFloat:
			return ex{s: "(FloatOps.isNaN " + args[0].s + " = true)", t: tyBool, hoists: hs}
		case name == "IsInf" && len(args) == 2 && args[0].t == tyFloat:
			if bl, ok := e.Args[1].(*ast.BasicLit); !ok || bl.Value != "0" {
				t.fail(e, "math.IsInf with a sign other than 0: outside the fragment")
			}
			return ex{s: "(FloatOps.isInf " + args[0].s + " = true)", t: tyBool, hoists: hs}
		case mathLib1[name] && len(args) == 1 && args[0].t == tyFloat:
			return ex{s: fmt.Sprintf("(FloatOps.lib1 %q %s)", name, args[0].s), t: tyFloat, hoists: hs}
		case mathLib2[name] && len(args) == 2 && args[0].t == tyFloat && args[1].t == tyFloat:
			return ex{s: fmt.Sprintf("(FloatOps.lib2 %q %s %s)", name, args[0].s, args[1].s), t: tyFloat, hoists: hs}
		}
		t.fail(e, "math.%s: outside the fragment", name)
	}
	id, ok := e.Fun.(*ast.Ident)
	if !ok {
		t.fail(e, "call form outside the fragment")
	}
	switch id.Name {
	case "Integer":
		if len(e.Args) != 1 {
			t.fail(e, "conversion")
		}
		a := c.expr(e.Args[0], sc, tyInt)
		switch a.t {
		case tyInt:
			return a
		case tyFloat:
			c.needF()
			return ex{s: "(FloatOps.toInt " + a.s + ")", t: tyInt, hoists: a.hoists}
		}
		t.fail(e, "Integer(…) of this operand: outside the fragment")
	case "Float", "float64":
		if len(e.Args) != 1 {
			t.fail(e, "conversion")
		}
		a := c.expr(e.Args[0], sc, tyNone)
		c.needF()
		switch a.t {
		case tyFloat:
			return a
		case tyInt:
			return ex{s: "(FloatOps.ofInt " + a.s + ".val : F)", t: tyFloat, hoists: a.hoists}
		case tyConst:
			return constLit(*a.cval, tyFloat, c, e)
		}
		t.fail(e, "%s(…) of this operand: outside the fragment", id.Name)
	case "typeError":
		if len(e.Args) != 3 {
			t.fail(e, "typeError arity")
		}
		vt, ok := e.Args[0].(*ast.Ident)
		if !ok || t.vtypes[vt.Name] == "" {
			t.fail(e, "typeError: unknown valid type")
		}
		if n, ok := e.Args[2].(*ast.Ident); !ok || n.Name != "nil" {
			t.fail(e, "typeError with an environment: outside the fragment")
		}
		a := c.expr(e.Args[1], sc, tyNone)
		var cul string
		switch a.t {
		case tyNum:
			c.needF()
			cul = "(Num.culprit " + a.s + ")"
		case tyInt:
			cul = "(Culprit.int " + a.s + ".val)"
		case tyFloat:
			c.needF()
			cul = "(Culprit.flt (FloatOps.bits " + a.s + "))"
		default:
			t.fail(e, "typeError culprit: outside the fragment")
		}
		return ex{s: fmt.Sprintf("(Err.typeError %q %s)", t.vtypes[vt.Name], cul), t: tyErr, hoists: a.hoists}
	}
	fn, ok := t.fns[id.Name]
	if !ok {
		t.fail(e, "call of %s: not a kernel of number.go", id.Name)
	}
	if fn.hasErr {
		t.fail(e, "call of %s (returns an error) in expression position: outside the fragment", id.Name)
	}
	s, hs := c.callText(fn, e, sc)
	if fn.res == tyBool {
		return ex{s: "(" + s + " = true)", t: tyBool, hoists: hs}
	}
	return ex{s: "(" + s + ")", t: fn.res, hoists: hs}
}

// callText renders `f a b` (with the explicit F argument where the callee needs it).
func (c *fctx) callText(fn *fnSig, e *ast.CallExpr, sc *scope) (string, []hoist) {
	t := c.t
	if len(e.Args) != len(fn.params) {
		t.fail(e, "arity of call to %s", fn.name)
	}
	var sb strings.Builder
	sb.WriteString(leanName(fn.name))
	if fn.explicitF {
		c.needF()
		sb.WriteString(" F")
	}
	if fn.sigF {
		c.needF()
	}
	var hs []hoist
	for i, a := range e.Args {
		x := c.expr(a, sc, fn.params[i].t)
		x = c.coerce(x, fn.params[i].t, a)
		hs = append(hs, x.hoists...)
		sb.WriteString(" " + x.s)
	}
	return sb.String(), hs
}

func (c *fctx) coerce(x ex, to ty, n ast.Node) ex {
	if x.t == to {
		return x
	}
	switch {
	case x.t == tyConst && (to == tyInt || to == tyFloat):
		y := constLit(*x.cval, to, c, n)
		y.hoists = x.hoists
		return y
	case x.t == tyConst && to == tyNum:
		c.t.fail(n, "untyped constant used as a Number: outside the fragment")
	case x.t == tyInt && to == tyNum:
		return ex{s: "(Num.int " + x.s + ")", t: tyNum, hoists: x.hoists}
	case x.t == tyFloat && to == tyNum:
		c.needF()
		return ex{s: "(Num.flt " + x.s + ")", t: tyNum, hoists: x.hoists}
	}
	c.t.fail(n, "type mismatch (%v used as %v)", x.t, to)
	return ex{}
}

// ---------------------------------------------------------------------------------------------
// statements (continuation-passing: a branch is translated together with the statements after it)
// ---------------------------------------------------------------------------------------------

func (c *fctx) wrapHoists(hs []hoist, body string, n ast.Node) string {
	if len(hs) > 0 && !c.fn.hasErr {
		c.t.fail(n, "a partial operator (/ %% << >>) in a function without an error result: a panic could not be represented")
	}
	for i := len(hs) - 1; i >= 0; i-- {
		body = "(Except.bind (liftP (" + hs[i].rhs + ")) fun " + hs[i].name + " =>\n" + indent(body) + ")"
	}
	return body
}

func isIdent(e ast.Expr, name string) bool {
	id, ok := e.(*ast.Ident)
	return ok && id.Name == name
}

func isZeroValue(e ast.Expr) bool {
	if isIdent(e, "nil") {
		return true
	}
	if bl, ok := e.(*ast.BasicLit); ok && bl.Kind == token.INT && bl.Value == "0" {
		return true
	}
	return false
}

func block(b *ast.BlockStmt, depth int) []dstmt {
	if b == nil {
		return nil
	}
	out := make([]dstmt, len(b.List))
	for i, s := range b.List {
		out[i] = dstmt{s, depth}
	}
	return out
}

func stmtsOf(list []ast.Stmt, depth int) []dstmt {
	out := make([]dstmt, len(list))
	for i, s := range list {
		out[i] = dstmt{s, depth}
	}
	return out
}

func cat(a, b []dstmt) []dstmt {
	out := make([]dstmt, 0, len(a)+len(b))
	out = append(out, a...)
	return append(out, b...)
}

// noteDropped lists the statements of the function that no path of the translation visited: with
// Number = Integer | Float they are unreachable (default clauses of type switches and what follows them).
func (c *fctx) noteDropped() {
	var walk func(list []ast.Stmt)
	report := func(st ast.Stmt) {
		p := c.t.fset.Position(st.Pos())
		var buf bytes.Buffer
		_ = printer.Fprint(&buf, c.t.fset, st)
		txt := strings.Join(strings.Fields(buf.String()), " ")
		if len(txt) > 70 {
			txt = txt[:70] + "…"
		}
		c.t.notes = append(c.t.notes, fmt.Sprintf("%s line %d: unreachable unless a Number is neither Integer nor Float: %s", c.fn.name, p.Line, txt))
		c.t.droppedTexts[txt] = true
	}
	walk = func(list []ast.Stmt) {
		for _, st := range list {
			if !c.visited[st] {
				report(st)
				continue
			}
			switch s := st.(type) {
			case *ast.IfStmt:
				walk(s.Body.List)
				switch el := s.Else.(type) {
				case *ast.BlockStmt:
					walk(el.List)
				case *ast.IfStmt:
					walk([]ast.Stmt{el})
				}
			case *ast.SwitchStmt:
				for _, cl := range s.Body.List {
					walk(cl.(*ast.CaseClause).Body)
				}
			case *ast.TypeSwitchStmt:
				for _, cl := range s.Body.List {
					walk(cl.(*ast.CaseClause).Body)
				}
			case *ast.ForStmt:
				walk(s.Body.List)
			}
		}
	}
	walk(c.fn.decl.Body.List)
}

func containsBreak(list []ast.Stmt) bool {
	found := false
	for _, s := range list {
		ast.Inspect(s, func(n ast.Node) bool {
			switch n := n.(type) {
			case *ast.ForStmt, *ast.RangeStmt, *ast.FuncLit:
				return false
			case *ast.BranchStmt:
				if n.Tok == token.BREAK || n.Tok == token.FALLTHROUGH || n.Tok == token.GOTO {
					found = true
				}
			}
			return true
		})
	}
	return found
}

func (c *fctx) retOK(x ex, n ast.Node) string {
	x = c.coerce(x, c.fn.res, n)
	if c.fn.hasErr {
		return c.wrapHoists(x.hoists, "(.ok "+x.s+")", n)
	}
	if len(x.hoists) > 0 {
		c.wrapHoists(x.hoists, "", n) // fails
	}
	if c.fn.res == tyBool {
		return "(decide " + x.s + ")"
	}
	return x.s
}

func (c *fctx) stmts(list []dstmt, sc *scope) string {
	t := c.t
	if len(list) == 0 {
		t.fail(c.fn.decl, "control can reach the end of the function without a return (for a Number that is neither Integer nor Float, or a missing return): outside the fragment")
	}
	st, rest := list[0], list[1:]
	c.depth = st.depth
	c.visited[st.s] = true
	switch s := st.s.(type) {
	case *ast.ReturnStmt:
		return c.ret(s, sc)

	case *ast.BranchStmt:
		if c.loop == nil {
			t.fail(s, "%s outside a translated loop", s.Tok)
		}
		switch s.Tok {
		case token.CONTINUE:
			var sb strings.Builder
			sb.WriteString("(" + c.loop.name + " fuel")
			for _, v := range c.loop.vars {
				vi, ok := sc.vars[v.name]
				if !ok {
					t.fail(s, "loop variable %s", v.name)
				}
				sb.WriteString(" " + vi.lean)
			}
			sb.WriteString(")")
			return sb.String()
		case token.BREAK:
			lp := c.loop
			c.loop = nil
			out := c.stmts(lp.rest, sc)
			c.loop = lp
			return out
		}
		t.fail(s, "%s: outside the fragment", s.Tok)

	case *ast.IfStmt:
		if s.Init != nil {
			t.fail(s, "if with an init statement: outside the fragment")
		}
		cond := c.expr(s.Cond, sc, tyBool)
		if cond.t != tyBool {
			t.fail(s, "condition is not boolean")
		}
		if containsBreak(s.Body.List) && c.loop == nil {
			t.fail(s, "break outside a loop")
		}
		thenS := c.stmts(cat(block(s.Body, st.depth+1), rest), sc)
		var elseS string
		switch el := s.Else.(type) {
		case nil:
			elseS = c.stmts(rest, sc)
		case *ast.BlockStmt:
			elseS = c.stmts(cat(block(el, st.depth+1), rest), sc)
		case *ast.IfStmt:
			elseS = c.stmts(cat([]dstmt{{el, st.depth}}, rest), sc)
		default:
			t.fail(s, "else form")
		}
		c.depth = st.depth
		return c.wrapHoists(cond.hoists, "(if "+cond.s+" then\n"+indent(thenS)+"\nelse\n"+indent(elseS)+")", s)

	case *ast.SwitchStmt:
		if s.Init != nil {
			t.fail(s, "switch with an init statement: outside the fragment")
		}
		var tag *ex
		if s.Tag != nil {
			x := c.expr(s.Tag, sc, tyNone)
			if x.t != tyInt || len(x.hoists) > 0 {
				t.fail(s, "switch tag must be a plain Integer expression")
			}
			tag = &x
		}
		var deflt *ast.CaseClause
		var clauses []*ast.CaseClause
		for _, cl := range s.Body.List {
			cc := cl.(*ast.CaseClause)
			if containsBreak(cc.Body) {
				t.fail(cc, "break/fallthrough/goto inside a switch: outside the fragment")
			}
			if cc.List == nil {
				deflt = cc
			} else {
				clauses = append(clauses, cc)
			}
		}
		// else-part first (innermost)
		var out string
		if deflt != nil {
			out = c.stmts(cat(stmtsOf(deflt.Body, st.depth+1), rest), sc)
		} else {
			out = c.stmts(rest, sc)
		}
		for i := len(clauses) - 1; i >= 0; i-- {
			cc := clauses[i]
			c.depth = st.depth
			var conds []string
			for _, ce := range cc.List {
				if tag != nil {
					v := c.expr(ce, sc, tyInt)
					if v.t != tyInt || len(v.hoists) > 0 {
						t.fail(ce, "case value")
					}
					conds = append(conds, "("+tag.s+" = "+v.s+")")
				} else {
					v := c.expr(ce, sc, tyBool)
					if v.t != tyBool {
						t.fail(ce, "case condition is not boolean")
					}
					if len(v.hoists) > 0 {
						t.fail(ce, "a partial operator in a case condition: outside the fragment")
					}
					conds = append(conds, v.s)
				}
			}
			cond := conds[0]
			if len(conds) > 1 {
				cond = "(" + strings.Join(conds, " ∨ ") + ")"
			}
			body := c.stmts(cat(stmtsOf(cc.Body, st.depth+1), rest), sc)
			out = "(if " + cond + " then\n" + indent(body) + "\nelse\n" + indent(out) + ")"
		}
		return out

	case *ast.TypeSwitchStmt:
		return c.typeSwitch(s, st.depth, rest, sc)

	case *ast.DeclStmt:
		gd, ok := s.Decl.(*ast.GenDecl)
		if !ok || gd.Tok != token.VAR {
			t.fail(s, "declaration form")
		}
		type decl struct {
			name string
			t    ty
			val  *ex
		}
		var ds []decl
		cur := sc
		for _, sp := range gd.Specs {
			vs := sp.(*ast.ValueSpec)
			for i, n := range vs.Names {
				var vt ty
				if vs.Type != nil {
					vt = goTy(vs.Type)
				}
				var val *ex
				if i < len(vs.Values) {
					x := c.expr(vs.Values[i], cur, vt)
					if vt == tyNone {
						vt = x.t
					}
					x = c.coerce(x, vt, vs)
					val = &x
				}
				if vt == tyErr && val == nil {
					// `err error`: only used by the bind patterns
					cur = cur.with(n.Name, varInfo{t: tyErr, depth: st.depth, lean: leanName(n.Name)})
					continue
				}
				if vt != tyInt && vt != tyFloat {
					t.fail(s, "variable %s of unsupported type", n.Name)
				}
				if val == nil {
					z := constLit(0, vt, c, s)
					val = &z
				}
				ds = append(ds, decl{n.Name, vt, val})
				cur = cur.with(n.Name, varInfo{t: vt, depth: st.depth, lean: leanName(n.Name)})
			}
		}
		body := c.stmts(rest, cur)
		for i := len(ds) - 1; i >= 0; i-- {
			d := ds[i]
			if d.t == tyFloat {
				c.needF()
			}
			body = c.wrapHoists(d.val.hoists, "(let "+leanName(d.name)+" : "+d.t.lean()+" := "+d.val.s+";\n"+body+")", s)
		}
		return body

	case *ast.IncDecStmt:
		id, ok := s.X.(*ast.Ident)
		if !ok {
			t.fail(s, "inc/dec target")
		}
		v, ok := c.lookup(id, sc)
		if !ok || v.t != tyInt {
			t.fail(s, "inc/dec of a non-Integer")
		}
		op := "I64.wadd"
		if s.Tok == token.DEC {
			op = "I64.wsub"
		}
		body := c.stmts(rest, sc.with(id.Name, varInfo{t: tyInt, depth: v.depth, lean: v.lean}))
		return "(let " + v.lean + " : I64 := (" + op + " " + v.lean + " (1 : I64));\n" + body + ")"

	case *ast.AssignStmt:
		return c.assign(s, st.depth, rest, sc)

	case *ast.ForStmt:
		return c.forLoop(s, st.depth, rest, sc)
	}
	t.fail(st.s, "statement form %T is outside the fragment", st.s)
	return ""
}

func (c *fctx) ret(s *ast.ReturnStmt, sc *scope) string {
	t := c.t
	fn := c.fn
	if !fn.hasErr {
		if len(s.Results) != 1 {
			t.fail(s, "return arity")
		}
		return c.retOK(c.expr(s.Results[0], sc, fn.res), s)
	}
	switch len(s.Results) {
	case 2:
		if isIdent(s.Results[1], "nil") {
			return c.retOK(c.expr(s.Results[0], sc, fn.res), s)
		}
		if !isZeroValue(s.Results[0]) {
			t.fail(s, "an error is returned together with a non-zero value: outside the fragment")
		}
		e := c.expr(s.Results[1], sc, tyErr)
		if e.t != tyErr {
			t.fail(s, "second result is not an error value")
		}
		return c.wrapHoists(e.hoists, "(.error "+e.s+")", s)
	case 1:
		call, ok := s.Results[0].(*ast.CallExpr)
		if !ok {
			t.fail(s, "return of a single non-call expression in a function with an error result")
		}
		id, ok := call.Fun.(*ast.Ident)
		if !ok {
			t.fail(s, "return call form")
		}
		callee, ok := t.fns[id.Name]
		if !ok || !callee.hasErr {
			t.fail(s, "return %s(…): not a kernel with an error result", id.Name)
		}
		txt, hs := c.callText(callee, call, sc)
		switch {
		case callee.res == fn.res:
			txt = "(" + txt + ")"
		case callee.res == tyInt && fn.res == tyNum:
			c.needF()
			txt = "(liftI (" + txt + "))"
		case callee.res == tyFloat && fn.res == tyNum:
			c.needF()
			txt = "(liftF (" + txt + "))"
		default:
			t.fail(s, "result type of %s does not fit", id.Name)
		}
		return c.wrapHoists(hs, txt, s)
	}
	t.fail(s, "return arity")
	return ""
}

func (c *fctx) typeSwitch(s *ast.TypeSwitchStmt, depth int, rest []dstmt, sc *scope) string {
	t := c.t
	if s.Init != nil {
		t.fail(s, "type switch with init")
	}
	as, ok := s.Assign.(*ast.AssignStmt)
	if !ok || len(as.Lhs) != 1 || len(as.Rhs) != 1 {
		t.fail(s, "type switch must have the form `switch v := x.(type)`")
	}
	bound := as.Lhs[0].(*ast.Ident).Name
	ta, ok := as.Rhs[0].(*ast.TypeAssertExpr)
	if !ok || ta.Type != nil {
		t.fail(s, "type switch form")
	}
	subj, ok := ta.X.(*ast.Ident)
	if !ok {
		t.fail(s, "type switch subject must be a variable")
	}
	sv, ok := c.lookup(subj, sc)
	if !ok || sv.t != tyNum {
		t.fail(s, "type switch on something that is not a Number")
	}
	c.needF()
	var deflt *ast.CaseClause
	byTy := map[ty]*ast.CaseClause{}
	for _, cl := range s.Body.List {
		cc := cl.(*ast.CaseClause)
		if containsBreak(cc.Body) {
			t.fail(cc, "break/fallthrough inside a type switch: outside the fragment")
		}
		if cc.List == nil {
			deflt = cc
			continue
		}
		if len(cc.List) != 1 {
			t.fail(cc, "type switch clause with several types: outside the fragment")
		}
		ct := goTy(cc.List[0])
		if ct != tyInt && ct != tyFloat || isIdent(cc.List[0], "float64") {
			t.fail(cc, "type switch clause for a type other than Integer/Float")
		}
		byTy[ct] = cc
	}
	arm := func(ct ty, ctor string) string {
		c.depth = depth
		if cc := byTy[ct]; cc != nil {
			b := leanName(bound)
			inner := sc.with(bound, varInfo{t: ct, depth: depth + 1, lean: b})
			return "| ." + ctor + " " + b + " =>\n" + indent(c.stmts(cat(stmtsOf(cc.Body, depth+1), rest), inner))
		}
		if deflt != nil {
			inner := sc
			pre := ""
			if bound != subj.Name {
				inner = sc.with(bound, varInfo{t: tyNum, depth: depth + 1, lean: leanName(bound)})
				pre = "let " + leanName(bound) + " : Num F := " + sv.lean + ";\n"
			}
			return "| ." + ctor + " _ =>\n" + indent(pre+c.stmts(cat(stmtsOf(deflt.Body, depth+1), rest), inner))
		}
		return "| ." + ctor + " _ =>\n" + indent(c.stmts(rest, sc))
	}
	a1 := arm(tyInt, "int")
	a2 := arm(tyFloat, "flt")
	return "(match " + sv.lean + " with\n" + indent(a1) + "\n" + indent(a2) + ")"
}

func (c *fctx) assign(s *ast.AssignStmt, depth int, rest []dstmt, sc *scope) string {
	t := c.t
	define := s.Tok == token.DEFINE
	// compound assignment  v op= e
	if !define && s.Tok != token.ASSIGN {
		opTok := map[token.Token]token.Token{token.ADD_ASSIGN: token.ADD, token.SUB_ASSIGN: token.SUB, token.MUL_ASSIGN: token.MUL,
			token.QUO_ASSIGN: token.QUO, token.REM_ASSIGN: token.REM, token.SHL_ASSIGN: token.SHL, token.SHR_ASSIGN: token.SHR,
			token.AND_ASSIGN: token.AND, token.OR_ASSIGN: token.OR, token.XOR_ASSIGN: token.XOR}[s.Tok]
		if opTok == token.ILLEGAL || len(s.Lhs) != 1 {
			t.fail(s, "assignment operator %s", s.Tok)
		}
		id, ok := s.Lhs[0].(*ast.Ident)
		if !ok {
			t.fail(s, "assignment target")
		}
		v, ok := c.lookup(id, sc)
		if !ok {
			t.fail(s, "assignment to unknown variable %s", id.Name)
		}
		x := c.binary(&ast.BinaryExpr{X: id, Op: opTok, Y: s.Rhs[0], OpPos: s.TokPos}, sc, v.t)
		if x.t != v.t {
			t.fail(s, "type of compound assignment")
		}
		body := c.stmts(rest, sc)
		c.depth = depth
		return c.wrapHoists(x.hoists, "(let "+v.lean+" : "+v.t.lean()+" := "+x.s+";\n"+body+")", s)
	}
	// v, ok := x.(T) ; if !ok { A }
	if define && len(s.Lhs) == 2 && len(s.Rhs) == 1 {
		if ta, ok := s.Rhs[0].(*ast.TypeAssertExpr); ok && ta.Type != nil {
			return c.assertPattern(s, ta, depth, rest, sc)
		}
	}
	// v, err := f(…) ; if err != nil { return zero, err }      /      v, _ := f(…)      (also with `=`)
	if len(s.Lhs) == 2 && len(s.Rhs) == 1 {
		call, ok := s.Rhs[0].(*ast.CallExpr)
		if !ok {
			t.fail(s, "two-value assignment form")
		}
		id, ok := call.Fun.(*ast.Ident)
		if !ok {
			t.fail(s, "two-value assignment form")
		}
		callee, ok := t.fns[id.Name]
		if !ok || !callee.hasErr {
			t.fail(s, "%s is not a kernel with an error result", id.Name)
		}
		vname := s.Lhs[0].(*ast.Ident).Name
		ename := s.Lhs[1].(*ast.Ident).Name
		if callee.res != tyInt && callee.res != tyFloat {
			t.fail(s, "two-value assignment from a kernel returning a Number: outside the fragment")
		}
		txt, hs := c.callText(callee, call, sc)
		vdepth := depth
		if !define {
			v, ok := c.lookup(s.Lhs[0].(*ast.Ident), sc)
			if !ok || v.t != callee.res {
				t.fail(s, "assignment to %s", vname)
			}
			vdepth = v.depth
		}
		inner := sc.with(vname, varInfo{t: callee.res, depth: vdepth, lean: leanName(vname)})
		if ename == "_" {
			if callee.res != tyInt {
				t.fail(s, "`v, _ :=` from a kernel that does not return an Integer")
			}
			body := c.stmts(rest, inner)
			c.depth = depth
			return c.wrapHoists(hs, "(Except.bind (ignoreErr ("+txt+")) fun "+leanName(vname)+" =>\n"+indent(body)+")", s)
		}
		// the next statement must be the error check
		if len(rest) == 0 {
			t.fail(s, "error value of %s is not checked immediately", id.Name)
		}
		chk, ok := rest[0].s.(*ast.IfStmt)
		good := ok && chk.Init == nil && chk.Else == nil && len(chk.Body.List) == 1
		if good {
			be, ok := chk.Cond.(*ast.BinaryExpr)
			good = ok && be.Op == token.NEQ && isIdent(be.X, ename) && isIdent(be.Y, "nil")
		}
		if good {
			r, ok := chk.Body.List[0].(*ast.ReturnStmt)
			good = ok && len(r.Results) == 2 && isZeroValue(r.Results[0]) && isIdent(r.Results[1], ename) && c.fn.hasErr
		}
		if !good {
			t.fail(s, "the error of %s must be checked by `if %s != nil { return <zero>, %s }` right after the call", id.Name, ename, ename)
		}
		c.visited[rest[0].s] = true
		c.visited[chk.Body.List[0]] = true
		body := c.stmts(rest[1:], inner)
		c.depth = depth
		return c.wrapHoists(hs, "(Except.bind ("+txt+") fun "+leanName(vname)+" =>\n"+indent(body)+")", s)
	}
	if len(s.Lhs) != 1 || len(s.Rhs) != 1 {
		t.fail(s, "assignment form")
	}
	id, ok := s.Lhs[0].(*ast.Ident)
	if !ok {
		t.fail(s, "assignment target")
	}
	var vt ty
	vdepth := depth
	if !define {
		v, ok := c.lookup(id, sc)
		if !ok {
			t.fail(s, "assignment to unknown variable %s", id.Name)
		}
		vt, vdepth = v.t, v.depth
	}
	x := c.expr(s.Rhs[0], sc, vt)
	if vt == tyNone {
		vt = x.t
	}
	if vt == tyConst {
		t.fail(s, "variable initialised with an untyped constant: outside the fragment")
	}
	x = c.coerce(x, vt, s)
	if vt != tyInt && vt != tyFloat {
		t.fail(s, "local variable %s of unsupported type", id.Name)
	}
	if vt == tyFloat {
		c.needF()
	}
	inner := sc.with(id.Name, varInfo{t: vt, depth: vdepth, lean: leanName(id.Name)})
	body := c.stmts(rest, inner)
	c.depth = depth
	return c.wrapHoists(x.hoists, "(let "+leanName(id.Name)+" : "+vt.lean()+" := "+x.s+";\n"+body+")", s)
}

func (c *fctx) assertPattern(s *ast.AssignStmt, ta *ast.TypeAssertExpr, depth int, rest []dstmt, sc *scope) string {
	t := c.t
	vname := s.Lhs[0].(*ast.Ident).Name
	okname := s.Lhs[1].(*ast.Ident).Name
	ct := goTy(ta.Type)
	if ct != tyInt && ct != tyFloat || isIdent(ta.Type, "float64") {
		t.fail(s, "type assertion to a type other than Integer/Float")
	}
	subj, ok := ta.X.(*ast.Ident)
	if !ok {
		t.fail(s, "type assertion subject")
	}
	sv, ok := c.lookup(subj, sc)
	if !ok || sv.t != tyNum {
		t.fail(s, "type assertion on something that is not a Number")
	}
	if len(rest) == 0 {
		t.fail(s, "type assertion result is not checked")
	}
	chk, ok := rest[0].s.(*ast.IfStmt)
	good := ok && chk.Init == nil && chk.Else == nil
	if good {
		u, ok := chk.Cond.(*ast.UnaryExpr)
		good = ok && u.Op == token.NOT && isIdent(u.X, okname)
	}
	if !good {
		t.fail(s, "`%s, %s := x.(T)` must be followed by `if !%s { … }`", vname, okname, okname)
	}
	c.visited[rest[0].s] = true
	c.needF()
	// failing branch: the body of `if !ok` followed by the rest (it must return; the zero value of v is bound)
	zero := constLit(0, ct, c, s)
	failSc := sc.with(vname, varInfo{t: ct, depth: depth, lean: leanName(vname)})
	failBody := "(let " + leanName(vname) + " : " + ct.lean() + " := " + zero.s + ";\n" + c.stmts(cat(block(chk.Body, rest[0].depth+1), rest[1:]), failSc) + ")"
	c.depth = depth
	okSc := sc.with(vname, varInfo{t: ct, depth: depth, lean: leanName(vname)})
	okBody := c.stmts(rest[1:], okSc)
	ctorOK, ctorFail := "int", "flt"
	if ct == tyFloat {
		ctorOK, ctorFail = "flt", "int"
	}
	return "(match " + sv.lean + " with\n" + indent("| ."+ctorOK+" "+leanName(vname)+" =>\n"+indent(okBody)) + "\n" +
		indent("| ."+ctorFail+" _ =>\n"+indent(failBody)) + ")"
}

// forLoop translates `for { body }` (no init/condition/post) whose only exits are `break` and `return`.
func (c *fctx) forLoop(s *ast.ForStmt, depth int, rest []dstmt, sc *scope) string {
	t := c.t
	if s.Init != nil || s.Cond != nil || s.Post != nil {
		t.fail(s, "for with init/condition/post: outside the fragment")
	}
	if c.loop != nil || len(c.aux) > 0 {
		t.fail(s, "more than one loop in a function: outside the fragment")
	}
	fuel, ok := loopFuel[c.fn.name]
	if !ok {
		t.fail(s, "no fuel bound is declared for the loop of %s (extract/arith.go loopFuel)", c.fn.name)
	}
	// loop-carried variables: every Integer/Float variable of the enclosing scope that the body assigns
	assigned := map[string]bool{}
	ast.Inspect(s.Body, func(n ast.Node) bool {
		switch n := n.(type) {
		case *ast.AssignStmt:
			if n.Tok != token.DEFINE {
				for _, l := range n.Lhs {
					if id, ok := l.(*ast.Ident); ok {
						assigned[id.Name] = true
					}
				}
			}
		case *ast.IncDecStmt:
			if id, ok := n.X.(*ast.Ident); ok {
				assigned[id.Name] = true
			}
		}
		return true
	})
	var vars []param
	var names []string
	for n := range assigned {
		names = append(names, n)
	}
	sort.Strings(names)
	// parameters first (in order), then locals by name
	seen := map[string]bool{}
	for _, p := range c.fn.params {
		if assigned[p.name] {
			vars = append(vars, p)
			seen[p.name] = true
		}
	}
	for _, n := range names {
		if seen[n] {
			continue
		}
		v, ok := sc.vars[n]
		if !ok {
			t.fail(s, "loop assigns unknown variable %s", n)
		}
		if v.t == tyErr {
			continue
		}
		if v.t != tyInt && v.t != tyFloat {
			t.fail(s, "loop-carried variable %s of unsupported type", n)
		}
		vars = append(vars, param{n, v.t})
	}
	lname := leanName(c.fn.name) + "_loop"
	lp := &loopCtx{name: lname, vars: vars, rest: rest}
	// the auxiliary definition
	c.loop = lp
	lsc := sc
	var sig, pats strings.Builder
	for _, v := range vars {
		lsc = lsc.with(v.name, varInfo{t: v.t, depth: sc.vars[v.name].depth, lean: leanName(v.name)})
		sig.WriteString(v.t.lean() + " → ")
		pats.WriteString(", " + leanName(v.name))
	}
	// free variables of the enclosing scope that are not loop-carried are not supported (none in number.go)
	for n, v := range sc.vars {
		if !assigned[n] && v.t != tyErr {
			used := false
			ast.Inspect(s.Body, func(x ast.Node) bool {
				if id, ok := x.(*ast.Ident); ok && id.Name == n {
					used = true
				}
				return true
			})
			for _, d := range rest {
				ast.Inspect(d.s, func(x ast.Node) bool {
					if id, ok := x.(*ast.Ident); ok && id.Name == n {
						used = true
					}
					return true
				})
			}
			if used {
				vars = append(vars, param{n, v.t})
				lp.vars = vars
				sig.WriteString(v.t.lean() + " → ")
				pats.WriteString(", " + leanName(n))
			}
		}
	}
	cont := dstmt{&ast.BranchStmt{Tok: token.CONTINUE, TokPos: s.Body.Rbrace}, depth + 1}
	body := c.stmts(cat(block(s.Body, depth+1), []dstmt{cont}), lsc)
	c.loop = nil
	resT := c.fn.res.lean()
	under := strings.Repeat(", _", len(vars))
	aux := fmt.Sprintf("/-- the `for` loop of %s; `fuel` bounds the number of iterations, running out of it is the explicit outcome `outOfFuel` -/\ndef %s : Nat → %sExcept Err %s\n  | 0%s => .error (.panic (.outOfFuel %q))\n  | fuel + 1%s =>\n%s\n",
		c.fn.name, lname, sig.String(), resT, under, c.fn.name, pats.String(), indent(indent(body)))
	c.aux = append(c.aux, aux)
	// the call
	var call strings.Builder
	call.WriteString("(" + lname + " " + strconv.Itoa(fuel))
	for _, v := range vars {
		call.WriteString(" " + sc.vars[v.name].lean)
	}
	call.WriteString(")")
	return call.String()
}

// ---------------------------------------------------------------------------------------------
// functions
// ---------------------------------------------------------------------------------------------

func (t *arithTranslator) signature(fd *ast.FuncDecl) *fnSig {
	if fd.Recv != nil || fd.Type.TypeParams != nil {
		return nil
	}
	s := &fnSig{name: fd.Name.Name, decl: fd}
	for _, f := range fd.Type.Params.List {
		pt := goTy(f.Type)
		if pt != tyInt && pt != tyFloat && pt != tyNum {
			return nil
		}
		if len(f.Names) == 0 {
			return nil
		}
		for _, n := range f.Names {
			s.params = append(s.params, param{n.Name, pt})
		}
	}
	if fd.Type.Results == nil {
		return nil
	}
	var rs []ty
	for _, f := range fd.Type.Results.List {
		if len(f.Names) > 0 {
			return nil
		}
		rs = append(rs, goTy(f.Type))
	}
	switch {
	case len(rs) == 1 && (rs[0] == tyInt || rs[0] == tyFloat || rs[0] == tyBool || rs[0] == tyNum):
		s.res = rs[0]
	case len(rs) == 2 && rs[1] == tyErr && (rs[0] == tyInt || rs[0] == tyFloat || rs[0] == tyNum):
		s.res, s.hasErr = rs[0], true
	default:
		return nil
	}
	for _, p := range s.params {
		if p.t == tyFloat || p.t == tyNum {
			s.sigF = true
		}
	}
	if s.res == tyFloat || s.res == tyNum {
		s.sigF = true
	}
	return s
}

func (t *arithTranslator) header(fn *fnSig) string {
	var sb strings.Builder
	sb.WriteString("def " + leanName(fn.name))
	if fn.explicitF {
		sb.WriteString(" (F : Type) [FloatOps F]")
	}
	for _, p := range fn.params {
		sb.WriteString(" (" + leanName(p.name) + " : " + p.t.lean() + ")")
	}
	if fn.hasErr {
		sb.WriteString(" : Except Err " + parenTy(fn.res))
	} else {
		sb.WriteString(" : " + fn.res.lean())
	}
	return sb.String()
}

func parenTy(t ty) string {
	if t == tyNum {
		return "(Num F)"
	}
	return t.lean()
}

func (t *arithTranslator) goText(n ast.Node) string {
	var buf bytes.Buffer
	_ = printer.Fprint(&buf, t.fset, n)
	return buf.String()
}

func (t *arithTranslator) translate(fn *fnSig) (out string) {
	pos := t.fset.Position(fn.decl.Pos())
	doc := fmt.Sprintf("/-- number.go:%d  `%s` -/\n", pos.Line, strings.Join(strings.Fields(t.goText(&ast.FuncDecl{Name: fn.decl.Name, Type: fn.decl.Type})), " "))
	defer func() {
		if r := recover(); r != nil {
			te, ok := r.(transErr)
			if !ok {
				panic(r)
			}
			fn.failed = te.msg
			fn.explicitF = false
			var stub string
			switch {
			case fn.hasErr:
				stub = fmt.Sprintf(".error (.panic (.untranslated %q))", fn.name)
			case fn.res == tyBool:
				stub = "false"
			case fn.res == tyInt:
				stub = "I64.ofInt 0"
			case fn.res == tyFloat:
				stub = "FloatOps.ofInt 0"
			default:
				stub = "Num.int (I64.ofInt 0)"
			}
			out = fmt.Sprintf("-- TRANSLATION FAILED: %s\n%s%s :=\n  %s\n", te.msg, doc, t.header(fn), stub)
		}
	}()
	c := &fctx{t: t, fn: fn, visited: map[ast.Stmt]bool{}}
	sc := &scope{vars: map[string]varInfo{}}
	for _, p := range fn.params {
		sc = sc.with(p.name, varInfo{t: p.t, depth: 0, lean: leanName(p.name)})
	}
	if fn.decl.Body == nil {
		t.fail(fn.decl, "no body")
	}
	body := c.stmts(block(fn.decl.Body, 1), sc)
	c.noteDropped()
	if c.usesF && !fn.sigF {
		fn.explicitF = true
	}
	return strings.Join(c.aux, "\n") + doc + t.header(fn) + " :=\n" + indent(body) + "\n"
}

// callees lists the kernels a function calls (for the topological order).
func (t *arithTranslator) callees(fn *fnSig) []string {
	set := map[string]bool{}
	ast.Inspect(fn.decl, func(n ast.Node) bool {
		if ce, ok := n.(*ast.CallExpr); ok {
			if id, ok := ce.Fun.(*ast.Ident); ok {
				if _, ok := t.fns[id.Name]; ok && id.Name != fn.name {
					set[id.Name] = true
				}
			}
		}
		return true
	})
	var out []string
	for n := range set {
		out = append(out, n)
	}
	sort.Strings(out)
	return out
}

func (t *arithTranslator) mapTable(f *ast.File, name string) ([][2]string, error) {
	for _, d := range f.Decls {
		gd, ok := d.(*ast.GenDecl)
		if !ok || gd.Tok != token.VAR {
			continue
		}
		for _, s := range gd.Specs {
			vs := s.(*ast.ValueSpec)
			for i, n := range vs.Names {
				if n.Name != name || i >= len(vs.Values) {
					continue
				}
				cl, ok := vs.Values[i].(*ast.CompositeLit)
				if !ok {
					return nil, fmt.Errorf("%s is not a composite literal", name)
				}
				var out [][2]string
				for _, el := range cl.Elts {
					kv, ok := el.(*ast.KeyValueExpr)
					if !ok {
						return nil, fmt.Errorf("%s: element form", name)
					}
					k, ok1 := kv.Key.(*ast.Ident)
					v, ok2 := kv.Value.(*ast.Ident)
					if !ok1 || !ok2 {
						return nil, fmt.Errorf("%s: entry is not `atomX: function`", name)
					}
					a, ok := t.atoms[k.Name]
					if !ok {
						return nil, fmt.Errorf("%s: unknown atom %s", name, k.Name)
					}
					out = append(out, [2]string{a, v.Name})
				}
				return out, nil
			}
		}
	}
	return nil, fmt.Errorf("%s not found", name)
}

func genArith(repo string) (string, error) {
	fset := token.NewFileSet()
	dir := filepath.Join(repo, "engine")
	ents, err := os.ReadDir(dir)
	if err != nil {
		return "", err
	}
	var files []*ast.File
	var number *ast.File
	for _, e := range ents {
		n := e.Name()
		if !strings.HasSuffix(n, ".go") || strings.HasSuffix(n, "_test.go") {
			continue
		}
		f, err := parser.ParseFile(fset, filepath.Join(dir, n), nil, parser.ParseComments)
		if err != nil {
			return "", err
		}
		files = append(files, f)
		if n == "number.go" {
			number = f
		}
	}
	if number == nil {
		return "", fmt.Errorf("engine/number.go not found")
	}
	t := &arithTranslator{fset: fset, fns: map[string]*fnSig{}, atoms: map[string]string{}, vtypes: map[string]string{}, excvals: map[string]string{}, droppedTexts: map[string]bool{}}
	t.collectTables(files)

	var order []string
	var notKernels []string
	for _, d := range number.Decls {
		fd, ok := d.(*ast.FuncDecl)
		if !ok {
			continue
		}
		if s := t.signature(fd); s != nil {
			t.fns[s.name] = s
			order = append(order, s.name)
		} else {
			notKernels = append(notKernels, fd.Name.Name)
		}
	}
	// topological order (callees first); source order otherwise
	var sorted []string
	state := map[string]int{}
	var failures []string
	var visit func(n string, path []string)
	visit = func(n string, path []string) {
		switch state[n] {
		case 2:
			return
		case 1:
			t.fns[n].failed = "recursive call cycle: " + strings.Join(append(path, n), " → ")
			return
		}
		state[n] = 1
		for _, cal := range t.callees(t.fns[n]) {
			visit(cal, append(path, n))
		}
		state[n] = 2
		sorted = append(sorted, n)
	}
	for _, n := range order {
		visit(n, nil)
	}

	var sb strings.Builder
	sb.WriteString("import PrologVerif.Model.ArithBase\n")
	sb.WriteString("set_option linter.unusedVariables false\n")
	sb.WriteString("namespace PrologVerif.Generated.Arith\nopen PrologVerif.Arith\n\nvariable {F : Type} [FloatOps F]\n\n")
	var translated []string
	for _, n := range sorted {
		fn := t.fns[n]
		var txt string
		if fn.failed != "" {
			msg := fn.failed
			txt = fmt.Sprintf("-- TRANSLATION FAILED: %s\n%s :=\n  .error (.panic (.untranslated %q))\n", msg, t.header(fn), n)
		} else {
			txt = t.translate(fn)
		}
		if fn.failed != "" {
			failures = append(failures, n+": "+fn.failed)
		} else {
			translated = append(translated, n)
		}
		sb.WriteString(txt + "\n")
	}

	// uniform-signature wrappers -----------------------------------------------------------------
	sb.WriteString("/-! Uniform-signature wrappers: `F` is always the explicit first argument.  Model/Eval and the driver call\n    the kernels only through these (and through evalUnary/evalBinary), so that a kernel that starts or stops\n    using floats internally does not change the types they depend on — the driver and the search keep\n    working when such an edit breaks a proof. -/\nnamespace U\n\n")
	for _, n := range sorted {
		fn := t.fns[n]
		var hd, call strings.Builder
		hd.WriteString("def " + leanName(fn.name) + " (F : Type) [FloatOps F]")
		call.WriteString("PrologVerif.Generated.Arith." + leanName(fn.name))
		switch {
		case fn.explicitF:
			call.WriteString(" F")
		case fn.sigF:
			call.WriteString(" (F := F)")
		}
		for _, p := range fn.params {
			hd.WriteString(" (" + leanName(p.name) + " : " + p.t.lean() + ")")
			call.WriteString(" " + leanName(p.name))
		}
		if fn.hasErr {
			hd.WriteString(" : Except Err " + parenTy(fn.res))
		} else {
			hd.WriteString(" : " + fn.res.lean())
		}
		sb.WriteString(hd.String() + " :=\n  " + call.String() + "\n")
	}
	sb.WriteString("\nend U\n\n")

	// facts ------------------------------------------------------------------------------------
	strList := func(xs []string) string {
		qs := make([]string, len(xs))
		for i, x := range xs {
			qs[i] = leanString(x)
		}
		return "[" + strings.Join(qs, ", ") + "]"
	}
	sort.Strings(translated)
	sb.WriteString("/-- kernels translated above (sorted) -/\ndef translated : List String :=\n  " + strList(translated) + "\n\n")
	sb.WriteString("/-- functions of number.go that are NOT kernels (their signature mentions terms, environments or promises);\n    `eval` and the comparison predicates are hand-modelled in Model/Eval.lean -/\ndef notKernels : List String :=\n  " + strList(notKernels) + "\n\n")
	sb.WriteString("/-- statements the translation drops, with the reason -/\ndef dropped : List String := [\n")
	for i, n := range t.notes {
		if i > 0 {
			sb.WriteString(",\n")
		}
		sb.WriteString("  " + leanString(n))
	}
	sb.WriteString("]\n\n")
	{
		var ds []string
		for d := range t.droppedTexts {
			ds = append(ds, d)
		}
		sort.Strings(ds)
		sb.WriteString("/-- the distinct statement texts among `dropped` -/\ndef droppedStatements : List String :=\n  " + strList(ds) + "\n\n")
	}

	for _, tbl := range []struct{ goName, lean, fnTy string }{
		{"unaryFunctors", "Unary", "Num F → Except Err (Num F)"},
		{"binaryFunctors", "Binary", "Num F → Num F → Except Err (Num F)"},
	} {
		rows, err := t.mapTable(number, tbl.goName)
		if err != nil {
			failures = append(failures, err.Error())
			rows = nil
		}
		sb.WriteString(fmt.Sprintf("/-- the dispatch table `%s` of number.go: evaluable functor ↦ Go function, in source order -/\ndef %s : List (String × String) := [\n", tbl.goName, tbl.goName))
		for i, r := range rows {
			if i > 0 {
				sb.WriteString(",\n")
			}
			sb.WriteString("  (" + leanString(r[0]) + ", " + leanString(r[1]) + ")")
		}
		sb.WriteString("]\n\n")
		sb.WriteString(fmt.Sprintf("/-- `%s[name]` -/\ndef eval%s (name : String) : Option (%s) :=\n  match name with\n", tbl.goName, tbl.lean, tbl.fnTy))
		seen := map[string]bool{}
		for _, r := range rows {
			if seen[r[0]] {
				failures = append(failures, tbl.goName+": duplicate key "+r[0])
				continue
			}
			seen[r[0]] = true
			fn, ok := t.fns[r[1]]
			if !ok || fn.res != tyNum || !fn.hasErr {
				failures = append(failures, fmt.Sprintf("%s: %s is not a translated Number kernel", tbl.goName, r[1]))
				continue
			}
			sb.WriteString("  | " + leanString(r[0]) + " => some " + leanName(r[1]) + "\n")
		}
		sb.WriteString("  | _ => none\n\n")
	}

	// constants
	{
		var names []string
		for _, d := range number.Decls {
			gd, ok := d.(*ast.GenDecl)
			if !ok || gd.Tok != token.VAR {
				continue
			}
			for _, s := range gd.Specs {
				vs := s.(*ast.ValueSpec)
				for i, n := range vs.Names {
					if n.Name == "constants" && i < len(vs.Values) {
						if cl, ok := vs.Values[i].(*ast.CompositeLit); ok {
							for _, el := range cl.Elts {
								if kv, ok := el.(*ast.KeyValueExpr); ok {
									k, _ := kv.Key.(*ast.Ident)
									if k != nil {
										names = append(names, t.atoms[k.Name]+" = "+strings.Join(strings.Fields(t.goText(kv.Value)), " "))
									}
								}
							}
						}
					}
				}
			}
		}
		sb.WriteString("/-- the table `constants` of number.go -/\ndef constants : List String :=\n  " + strList(names) + "\n\n")
	}

	// which kernels the comparison predicates call: [ii, if, fi, ff] per predicate, from `ok = k(ev1, ev2)`
	{
		sb.WriteString("/-- the kernels the arithmetic comparison predicates dispatch to: (Go predicate, [Integer×Integer, Integer×Float, Float×Integer, Float×Float]) -/\ndef comparisonKernels : List (String × List String) := [\n")
		first := true
		for _, d := range number.Decls {
			fd, ok := d.(*ast.FuncDecl)
			if !ok || t.fns[fd.Name.Name] != nil || fd.Name.Name == "eval" || fd.Name.Name == "Is" {
				continue
			}
			var ks []string
			ast.Inspect(fd, func(n ast.Node) bool {
				if as, ok := n.(*ast.AssignStmt); ok && as.Tok == token.ASSIGN && len(as.Lhs) == 1 && isIdent(as.Lhs[0], "ok") {
					if ce, ok := as.Rhs[0].(*ast.CallExpr); ok {
						if id, ok := ce.Fun.(*ast.Ident); ok {
							ks = append(ks, id.Name)
						}
					}
				}
				return true
			})
			if !first {
				sb.WriteString(",\n")
			}
			first = false
			sb.WriteString("  (" + leanString(fd.Name.Name) + ", " + strList(ks) + ")")
		}
		sb.WriteString("]\n\n")
	}

	// registration of the arithmetic predicates (interpreter.go)
	{
		src, err := os.ReadFile(filepath.Join(repo, "interpreter.go"))
		if err != nil {
			return "", err
		}
		f, err := parser.ParseFile(fset, "interpreter.go", src, 0)
		if err != nil {
			return "", err
		}
		want := map[string]bool{"Is": true, "Equal": true, "NotEqual": true, "LessThan": true, "LessThanOrEqual": true, "GreaterThan": true, "GreaterThanOrEqual": true}
		var rows []string
		ast.Inspect(f, func(n ast.Node) bool {
			ce, ok := n.(*ast.CallExpr)
			if !ok || len(ce.Args) != 2 {
				return true
			}
			sel, ok := ce.Fun.(*ast.SelectorExpr)
			if !ok || sel.Sel.Name != "Register2" {
				return true
			}
			fsel, ok := ce.Args[1].(*ast.SelectorExpr)
			if !ok || !want[fsel.Sel.Name] {
				return true
			}
			na, ok := ce.Args[0].(*ast.CallExpr)
			if !ok || len(na.Args) != 1 {
				return true
			}
			bl, ok := na.Args[0].(*ast.BasicLit)
			if !ok {
				return true
			}
			s, _ := strconv.Unquote(bl.Value)
			rows = append(rows, "("+leanString(s)+", "+leanString(fsel.Sel.Name)+")")
			return true
		})
		sb.WriteString("/-- interpreter.go: predicate name ↦ Go function for is/2 and the six comparisons -/\ndef arithPredicates : List (String × String) :=\n  [" + strings.Join(rows, ", ") + "]\n\n")
	}

	// normalised source text of the hand-modelled functions (eval and one comparison predicate per shape)
	for _, n := range []string{"eval", "Is", "Equal"} {
		for _, d := range number.Decls {
			if fd, ok := d.(*ast.FuncDecl); ok && fd.Name.Name == n {
				fd2 := *fd
				fd2.Doc = nil
				txt := strings.Join(strings.Fields(t.goText(&fd2)), " ")
				sb.WriteString(fmt.Sprintf("/-- normalised source text of `%s` (hand-modelled in Model/Eval.lean; a tie theorem compares it with the text the model was written against) -/\ndef source_%s : String :=\n  %s\n\n", n, n, leanString(txt)))
			}
		}
	}

	sb.WriteString("end PrologVerif.Generated.Arith\n")
	if len(failures) > 0 {
		for _, f := range failures {
			fmt.Fprintln(os.Stderr, "extract Arith.lean: TRANSLATION FAILED:", f)
		}
		softFailures = append(softFailures, failures...)
	}
	return sb.String(), nil
}
