/-
  C04 at the VM level, part 2 — the activity flags of catch/3 are FRESH: an invariant of every
  reachable configuration.

  Flags are drawn from `St.nextId` (`freshId`).  Well-formedness (`contFl`, `thunkFl`, `prFl`): every
  flag mentioned by a continuation (`.catchExit`), a thunk (`.catchBody`, `.exitAlt`) or a recovery
  closure is below the current `nextId`; `FlagsBelow`: so is every flag that has been written.  Every
  step of the VM (the mutual block, thunks with their nested trampolines, recovery closures, the
  trampoline) keeps this and only increases `nextId`.  Hence the flag of a new catch/3 call
  (`= nextId`) has never been written (it is born active) and differs from the flag of every other
  catch/3 frame, thunk and continuation in existence.
-/
import PrologVerif.Proofs.VMCatch
import PrologVerif.Proofs.VMCancel
namespace PrologVerif.VMCatch
open PrologVerif PrologVerif.VM PrologVerif.Promise

/-- every flag mentioned by the continuation is below `b` -/
def contFl (b : Nat) : Cont → Prop
  | .done => True
  | .exec _ _ _ k => contFl b k
  | .collect _ _ => True
  | .findallK _ _ => True
  | .catchExit f k => f < b ∧ contFl b k

def thunkFl (b : Nat) : Thunk → Prop
  | .clause _ _ k _ _ => contFl b k
  | .afterCut _ _ k _ _ _ _ => contFl b k
  | .contK k _ => contFl b k
  | .exitAlt f _ (some k) _ => f < b ∧ contFl b k
  | .exitAlt f _ none _ => f < b
  | .negate _ k _ => contFl b k
  | .findall _ _ _ k _ => contFl b k
  | .catchBody _ f k _ => f < b ∧ contFl b k
  | .unifyK _ _ k _ => contFl b k
  | .betweenNext _ _ _ k _ => contFl b k
  | .appendRec _ _ _ k _ => contFl b k

def prFl (b : Nat) (p : Pr) : Prop :=
  (∀ t ∈ p.delayed, thunkFl b t) ∧ (∀ h, p.recover = some h → h.flag < b ∧ contFl b h.k)

theorem contFl_mono {b b' : Nat} (hb : b ≤ b') : ∀ {k : Cont}, contFl b k → contFl b' k
  | .done, _ => trivial
  | .exec _ _ _ k, h => contFl_mono hb (k := k) h
  | .collect _ _, _ => trivial
  | .findallK _ _, _ => trivial
  | .catchExit _ _, h => ⟨Nat.lt_of_lt_of_le h.1 hb, contFl_mono hb h.2⟩

theorem thunkFl_mono {b b' : Nat} (hb : b ≤ b') {t : Thunk} (h : thunkFl b t) : thunkFl b' t := by
  cases t with
  | exitAlt _ v k env =>
    cases k with
    | some k => exact ⟨Nat.lt_of_lt_of_le h.1 hb, contFl_mono hb h.2⟩
    | none => exact Nat.lt_of_lt_of_le h hb
  | catchBody g f k env => exact ⟨Nat.lt_of_lt_of_le h.1 hb, contFl_mono hb h.2⟩
  | _ => exact contFl_mono hb h

theorem prFl_mono {b b' : Nat} (hb : b ≤ b') {p : Pr} (h : prFl b p) : prFl b' p :=
  ⟨fun t ht => thunkFl_mono hb (h.1 t ht),
   fun hd hr => ⟨Nat.lt_of_lt_of_le (h.2 hd hr).1 hb, contFl_mono hb (h.2 hd hr).2⟩⟩

/-- a promise without alternatives and recovery closure -/
theorem prFl_leaf (b : Nat) {p : Pr} (hd : p.delayed = []) (hr : p.recover = none) : prFl b p :=
  ⟨by simp [hd], by simp [hr]⟩

theorem prFl_thunks (b : Nat) {p : Pr} (hd : ∀ t ∈ p.delayed, thunkFl b t) (hr : p.recover = none) : prFl b p :=
  ⟨hd, by simp [hr]⟩

/-- result of a step: `nextId` only grows, the promise mentions only flags below the new `nextId`,
    every written flag is below it -/
def RF (m : MS) (r : Option (Pr × MS)) : Prop :=
  ∀ p m', r = some (p, m') → m.user.nextId ≤ m'.user.nextId ∧ prFl m'.user.nextId p ∧ FlagsBelow m'.user
def RF2 (m : MS) (r : Option (Option (Pr × MS))) : Prop :=
  ∀ p m', r = some (some (p, m')) → m.user.nextId ≤ m'.user.nextId ∧ prFl m'.user.nextId p ∧ FlagsBelow m'.user

theorem RF_none {m : MS} : RF m none := fun _ _ h => by cases h
theorem RF_pair {m : MS} {r : Pr × MS}
    (h : m.user.nextId ≤ r.2.user.nextId ∧ prFl r.2.user.nextId r.1 ∧ FlagsBelow r.2.user) : RF m (some r) := by
  intro p m' e; cases e; exact h
theorem RF_some {m m' : MS} {p : Pr} (h1 : m.user.nextId ≤ m'.user.nextId) (h2 : prFl m'.user.nextId p)
    (h3 : FlagsBelow m'.user) : RF m (some (p, m')) := RF_pair ⟨h1, h2, h3⟩
theorem RF2_none {m : MS} : RF2 m none := fun _ _ h => by cases h
theorem RF2_some_none {m : MS} : RF2 m (some none) := fun _ _ h => by cases h
theorem RF2_some {m : MS} {r : Option (Pr × MS)} (h : RF m r) : RF2 m (some r) := by
  intro p m' e; cases e; exact h p m' rfl
theorem RF2_pair {m : MS} {r : Pr × MS}
    (h : m.user.nextId ≤ r.2.user.nextId ∧ prFl r.2.user.nextId r.1 ∧ FlagsBelow r.2.user) :
    RF2 m (some (some r)) := RF2_some (RF_pair h)

theorem flagsBelow_freshId {m : MS} (h : FlagsBelow m.user) : FlagsBelow (freshId m).2.user :=
  fun f b hf => Nat.lt_succ_of_lt (h f b hf)

theorem mkErr_fl (formal : Term) (env : Env) (m : MS) (hm : FlagsBelow m.user) :
    m.user.nextId ≤ (mkErr formal env m).2.user.nextId ∧
    prFl (mkErr formal env m).2.user.nextId (mkErr formal env m).1 ∧ FlagsBelow (mkErr formal env m).2.user :=
  ⟨Nat.le_refl _, prFl_leaf _ rfl rfl, hm⟩

theorem clausesCall_fl (cs : List Clause) (args : List Term) (k : Cont) (env : Env) (m : MS)
    (hk : contFl m.user.nextId k) (hm : FlagsBelow m.user) :
    m.user.nextId ≤ (clausesCall cs args k env m).2.user.nextId ∧
    prFl (clausesCall cs args k env m).2.user.nextId (clausesCall cs args k env m).1 ∧
    FlagsBelow (clausesCall cs args k env m).2.user := by
  refine ⟨Nat.le_succ _, prFl_thunks _ ?_ rfl, flagsBelow_freshId hm⟩
  intro t ht
  simp only [clausesCall, List.mem_map] at ht
  obtain ⟨c, _, rfl⟩ := ht
  exact contFl_mono (Nat.le_succ _) hk

theorem callGoal_fl (goal : Term) (k : Cont) (env : Env) (m : MS)
    (hk : contFl m.user.nextId k) (hm : FlagsBelow m.user) :
    m.user.nextId ≤ (callGoal goal k env m).2.user.nextId ∧
    prFl (callGoal goal k env m).2.user.nextId (callGoal goal k env m).1 ∧
    FlagsBelow (callGoal goal k env m).2.user := by
  unfold callGoal
  split
  · exact mkErr_fl _ _ _ hm
  · split
    · exact clausesCall_fl _ _ _ _ _ hk hm
    · exact mkErr_fl _ _ _ hm

theorem appendLists_fl (xs ys zs : Term) (k : Cont) (env : Env) (m : MS)
    (hk : contFl m.user.nextId k) (hm : FlagsBelow m.user) :
    m.user.nextId ≤ (appendLists xs ys zs k env m).2.user.nextId ∧
    prFl (appendLists xs ys zs k env m).2.user.nextId (appendLists xs ys zs k env m).1 ∧
    FlagsBelow (appendLists xs ys zs k env m).2.user := by
  refine ⟨Nat.le_succ _, prFl_thunks _ ?_ rfl, flagsBelow_freshId hm⟩
  intro t ht
  simp only [appendLists, List.mem_cons, List.not_mem_nil, or_false] at ht
  rcases ht with rfl | rfl <;> exact contFl_mono (Nat.le_succ _) hk

structure StepFl (n : Nat) : Prop where
  exec : ∀ pc vars k args astack env cp (m : MS), contFl m.user.nextId k → FlagsBelow m.user →
    RF m (exec n pc vars k args astack env cp m)
  applyCont : ∀ k env (m : MS), contFl m.user.nextId k → FlagsBelow m.user → RF m (applyCont n k env m)
  arrive : ∀ f args k env (m : MS), contFl m.user.nextId k → FlagsBelow m.user → RF m (arrive n f args k env m)
  builtin : ∀ f args k env (m : MS), contFl m.user.nextId k → FlagsBelow m.user → RF2 m (builtin n f args k env m)

theorem assertClause_fl {n : Nat}
    (ihc : ∀ k env (m : MS), contFl m.user.nextId k → FlagsBelow m.user → RF m (applyCont n k env m))
    (front : Bool) (t : Term) (k : Cont) (env : Env) (m : MS)
    (hk : contFl m.user.nextId k) (hm : FlagsBelow m.user) :
    m.user.nextId ≤ (assertClause front t k env m n).2.user.nextId ∧
    prFl (assertClause front t k env m n).2.user.nextId (assertClause front t k env m n).1 ∧
    FlagsBelow (assertClause front t k env m n).2.user := by
  unfold assertClause
  simp only []
  split
  · exact mkErr_fl _ _ _ hm
  · exact mkErr_fl _ _ _ hm
  · exact mkErr_fl _ _ _ hm
  · exact mkErr_fl _ _ _ hm
  · split
    · exact mkErr_fl _ _ _ hm
    · split
      · exact ⟨Nat.le_refl _, prFl_leaf _ rfl rfl, hm⟩
      · split
        · rename_i r hr
          have h := fun hk' hm' => ihc k env _ hk' hm' r.1 r.2 hr
          exact h hk hm
        · exact ⟨Nat.le_refl _, prFl_leaf _ rfl rfl, hm⟩

local macro "leafE" : tactic => `(tactic| first
  | exact RF_none
  | exact RF_some (Nat.le_refl _) (prFl_leaf _ rfl rfl) ‹FlagsBelow _›
  | exact StepFl.exec ‹StepFl _› _ _ _ _ _ _ _ _ ‹contFl _ _› ‹FlagsBelow _›
  | exact StepFl.arrive ‹StepFl _› _ _ _ _ _ ‹contFl _ _› ‹FlagsBelow _›
  | exact StepFl.applyCont ‹StepFl _› _ _ _ ‹contFl _ _› ‹FlagsBelow _›
  | exact RF_some (Nat.le_refl _) (prFl_thunks _ (by
      intro t ht
      simp only [List.mem_singleton] at ht
      subst ht
      assumption) rfl) ‹FlagsBelow _›)

theorem exec_fl {n : Nat} (ih : StepFl n) : ∀ pc vars k args astack env cp (m : MS),
    contFl m.user.nextId k → FlagsBelow m.user → RF m (exec (n + 1) pc vars k args astack env cp m) := by
  intro pc vars k args astack env cp m hk hm
  cases pc with
  | nil => simp only [exec]; leafE
  | cons op pc =>
    cases op <;> (first | simp only [exec] | (rw [exec.eq_def]; simp only [])) <;>
      (repeat' (first | leafE | split))

theorem applyCont_fl {n : Nat} (ih : StepFl n) : ∀ k env (m : MS), contFl m.user.nextId k → FlagsBelow m.user →
    RF m (applyCont (n + 1) k env m) := by
  intro k env m hk hm
  cases k with
  | done => simp only [applyCont]; exact RF_some (Nat.le_refl _) (prFl_leaf _ rfl rfl) hm
  | exec pc vars cp k => simp only [applyCont]; exact ih.exec _ _ _ _ _ _ _ _ hk hm
  | collect t mx =>
    simp only [applyCont]
    refine RF_some (Nat.le_refl _) ?_ hm
    split <;> exact prFl_leaf _ rfl rfl
  | findallK t s => simp only [applyCont]; exact RF_some (Nat.le_refl _) (prFl_leaf _ rfl rfl) hm
  | catchExit f k =>
    simp only [applyCont]
    refine RF_some (Nat.le_succ _) (prFl_thunks _ ?_ rfl) (flagsBelow_freshId hm)
    intro t ht
    simp only [List.mem_cons, List.not_mem_nil, or_false] at ht
    rcases ht with rfl | rfl
    · exact ⟨Nat.lt_succ_of_lt hk.1, contFl_mono (Nat.le_succ _) hk.2⟩
    · exact Nat.lt_succ_of_lt hk.1

theorem arrive_fl {n : Nat} (ih : StepFl n) : ∀ f args k env (m : MS), contFl m.user.nextId k →
    FlagsBelow m.user → RF m (arrive (n + 1) f args k env m) := by
  intro f args k env m hk hm
  simp only [arrive]
  split
  · rename_i r hr
    intro p m' e
    subst e
    exact ih.builtin _ _ _ _ _ hk hm p m' hr
  · split
    · exact RF_pair (clausesCall_fl _ _ _ _ _ hk hm)
    · exact RF_pair (mkErr_fl _ _ _ hm)

theorem prFl_one {b : Nat} {t : Thunk} (id : Nat) (rep : Bool) (h : thunkFl b t) :
    prFl b { id := id, delayed := [t], rep := rep } :=
  prFl_thunks _ (by intro t' ht; simp only [List.mem_singleton] at ht; exact ht ▸ h) rfl

theorem prFl_two {b : Nat} {t u : Thunk} (id : Nat) (h : thunkFl b t) (h' : thunkFl b u) :
    prFl b { id := id, delayed := [t, u] } :=
  prFl_thunks _ (by
    intro t' ht
    simp only [List.mem_cons, List.not_mem_nil, or_false] at ht
    rcases ht with rfl | rfl
    · exact h
    · exact h') rfl

local macro "leafB" : tactic => `(tactic| first
  | exact RF2_none
  | exact RF2_some_none
  | exact RF2_pair (callGoal_fl _ _ _ _ ‹contFl _ _› ‹FlagsBelow _›)
  | exact RF2_pair (mkErr_fl _ _ _ ‹FlagsBelow _›)
  | exact RF2_pair (appendLists_fl _ _ _ _ _ _ ‹contFl _ _› ‹FlagsBelow _›)
  | exact RF2_pair (assertClause_fl (StepFl.applyCont ‹StepFl _›) _ _ _ _ _ ‹contFl _ _› ‹FlagsBelow _›)
  | exact RF2_pair ⟨Nat.le_refl _, prFl_leaf _ rfl rfl, ‹FlagsBelow _›⟩
  | exact RF2_some (StepFl.applyCont ‹StepFl _› _ _ _ ‹contFl _ _› ‹FlagsBelow _›)
  | exact RF2_pair ⟨Nat.le_refl _, prFl_one _ _ ‹contFl _ _›, ‹FlagsBelow _›⟩
  | exact RF2_pair ⟨Nat.le_succ _, prFl_one _ _ (contFl_mono (Nat.le_succ _) ‹contFl _ _›),
      flagsBelow_freshId ‹FlagsBelow _›⟩
  | exact RF2_pair ⟨Nat.le_succ _, prFl_two _ (contFl_mono (Nat.le_succ _) ‹contFl _ _›)
      (contFl_mono (Nat.le_succ _) ‹contFl _ _›), flagsBelow_freshId ‹FlagsBelow _›⟩
  | exact RF2_pair ⟨Nat.le_succ _,
      ⟨by intro t ht
          simp only [List.mem_singleton] at ht
          subst ht
          exact ⟨Nat.lt_succ_self _, contFl_mono (Nat.le_succ _) ‹contFl _ _›⟩,
       by intro h hh
          simp only [Option.some.injEq] at hh
          subst hh
          exact ⟨Nat.lt_succ_self _, contFl_mono (Nat.le_succ _) ‹contFl _ _›⟩⟩,
      flagsBelow_freshId ‹FlagsBelow _›⟩)

attribute [local irreducible] callGoal mkErr appendLists in
theorem builtin_fl {n : Nat} (ih : StepFl n) : ∀ f args k env (m : MS), contFl m.user.nextId k →
    FlagsBelow m.user → RF2 m (builtin (n + 1) f args k env m) := by
  intro f args k env m hk hm
  rw [builtin.eq_def]
  simp only []
  split
  all_goals (repeat' (first | leafB | split))

theorem stepFl : ∀ n, StepFl n
  | 0 => ⟨by intros; simp only [exec]; exact RF_none, by intros; simp only [applyCont]; exact RF_none,
          by intros; simp only [arrive]; exact RF_none, by intros; simp only [builtin]; exact RF2_some_none⟩
  | n + 1 =>
    have ih := stepFl n
    ⟨exec_fl ih, applyCont_fl ih, arrive_fl ih, builtin_fl ih⟩

/-! ### recovery closures, the trampoline, thunks -/

theorem evalRecover_fl (h : Handler) (e : Err) (m : MS)
    (hh : h.flag < m.user.nextId ∧ contFl m.user.nextId h.k) (hm : FlagsBelow m.user) :
    m.user.nextId ≤ (evalRecover h e m).2.user.nextId ∧
    (∀ q, (evalRecover h e m).1 = some q → prFl (evalRecover h e m).2.user.nextId q) ∧
    FlagsBelow (evalRecover h e m).2.user := by
  rw [evalRecover_eq]
  split
  · split
    · rename_i env' _
      obtain ⟨h1, h2, h3⟩ := callGoal_fl h.recover h.k env' m hh.2 hm
      exact ⟨h1, fun q hq => by simp only [Option.some.injEq] at hq; subst hq; exact h2, h3⟩
    · exact ⟨Nat.le_refl _, by simp, hm⟩
  · exact ⟨Nat.le_refl _, by simp, hm⟩

/-- what the trampoline needs of the closures it calls -/
structure SemFl (sem : Sem Thunk Handler Err St) : Prop where
  thunk : ∀ f t (m : MS), thunkFl m.user.nextId t → FlagsBelow m.user → RF m (sem.evalThunk f t m)
  recover : ∀ h e (m : MS), (h.flag < m.user.nextId ∧ contFl m.user.nextId h.k) → FlagsBelow m.user →
    m.user.nextId ≤ (sem.evalRecover h e m).2.user.nextId ∧
    (∀ q, (sem.evalRecover h e m).1 = some q → prFl (sem.evalRecover h e m).2.user.nextId q) ∧
    FlagsBelow (sem.evalRecover h e m).2.user

theorem recoverStack_fl (sem : Sem Thunk Handler Err St) (hsem : SemFl sem) (e : Err) :
    ∀ (stack : List Pr) (m : MS), (∀ p ∈ stack, prFl m.user.nextId p) → FlagsBelow m.user →
      m.user.nextId ≤ (recoverStack sem e stack m).2.user.nextId ∧
      (∀ st, (recoverStack sem e stack m).1 = some st →
        ∀ p ∈ st, prFl (recoverStack sem e stack m).2.user.nextId p) ∧
      FlagsBelow (recoverStack sem e stack m).2.user
  | [], m, _, hm => by simp [recoverStack, hm]
  | p :: rest, m, hst, hm => by
    have hrest : ∀ q ∈ rest, prFl m.user.nextId q := fun q hq => hst q (by simp [hq])
    unfold recoverStack
    split
    · exact recoverStack_fl sem hsem e rest m hrest hm
    · rename_i r hr
      obtain ⟨h1, h2, h3⟩ := hsem.recover r e m ((hst p (by simp)).2 r hr) hm
      split
      · rename_i q m' heq
        rw [heq] at h1 h2 h3
        refine ⟨h1, ?_, h3⟩
        intro st hst'
        simp only [Option.some.injEq] at hst'
        subst hst'
        intro p' hp'
        rcases List.mem_cons.1 hp' with rfl | hp'
        · exact h2 _ rfl
        · exact prFl_mono h1 (hrest p' hp')
      · rename_i m' heq
        rw [heq] at h1 h3
        obtain ⟨g1, g2, g3⟩ := recoverStack_fl sem hsem e rest m' (fun q hq => prFl_mono h1 (hrest q hq)) h3
        exact ⟨Nat.le_trans h1 g1, g2, g3⟩

theorem popUntil_mem'' (c : Nat) : ∀ (stack : List Pr) (p : Pr), p ∈ popUntil c stack → p ∈ stack
  | [], p, h => by simp [popUntil] at h
  | q :: rest, p, h => by
    simp only [popUntil] at h
    split at h
    · exact List.mem_cons_of_mem _ h
    · exact List.mem_cons_of_mem _ (popUntil_mem'' c rest p h)

/-- **force_fl**: the trampoline keeps the well-formedness of the flags -/
theorem force_fl (sem : Sem Thunk Handler Err St) (hsem : SemFl sem) (ca : Option Nat) :
    ∀ (n : Nat) (stack : List Pr) (m : MS) (r : Promise.Res Err) (m' : MS),
      force sem ca n stack m = some (r, m') → (∀ p ∈ stack, prFl m.user.nextId p) → FlagsBelow m.user →
      m.user.nextId ≤ m'.user.nextId ∧ FlagsBelow m'.user
  | 0, _, _, _, _, h, _, _ => by simp [force] at h
  | n + 1, [], m, r, m', h, _, hm => by
    simp only [force, Option.some.injEq, Prod.mk.injEq] at h
    obtain ⟨rfl, rfl⟩ := h
    exact ⟨Nat.le_refl _, hm⟩
  | n + 1, p :: stack, m, r, m', h, hst, hm => by
    have hp : prFl m.user.nextId p := hst p (by simp)
    have hrest : ∀ q ∈ stack, prFl m.user.nextId q := fun q hq => hst q (by simp [hq])
    simp only [force] at h
    split at h
    · simp only [Option.some.injEq, Prod.mk.injEq] at h
      obtain ⟨rfl, rfl⟩ := h
      exact ⟨Nat.le_refl _, hm⟩
    · have hm1 : FlagsBelow ({ m with iter := m.iter + 1 } : MS).user := hm
      split at h
      · split at h
        · rename_i e he
          obtain ⟨h1, h2, h3⟩ := recoverStack_fl sem hsem e stack { m with iter := m.iter + 1 } hrest hm1
          split at h
          · rename_i m1 heq
            simp only [Option.some.injEq, Prod.mk.injEq] at h
            obtain ⟨rfl, rfl⟩ := h
            rw [heq] at h1 h3
            exact ⟨h1, h3⟩
          · rename_i st m1 heq
            rw [heq] at h1 h2 h3
            obtain ⟨g1, g2⟩ := force_fl sem hsem ca n st m1 r m' h (h2 st rfl) h3
            exact ⟨Nat.le_trans h1 g1, g2⟩
        · split at h
          · simp only [Option.some.injEq, Prod.mk.injEq] at h
            obtain ⟨rfl, rfl⟩ := h
            exact ⟨Nat.le_refl _, hm⟩
          · exact force_fl sem hsem ca n stack { m with iter := m.iter + 1 } r m' h hrest hm1
      · rename_i t ts hd
        have ht : thunkFl m.user.nextId t := hp.1 t (by rw [hd]; simp)
        split at h
        · cases h
        · rename_i q m1 heq
          obtain ⟨h1, hq, hm2⟩ := hsem.thunk n t { m with iter := m.iter + 1 } ht hm1 q m1 heq
          have h1' : m.user.nextId ≤ m1.user.nextId := h1
          obtain ⟨g1, g2⟩ := force_fl sem hsem ca n _ m1 r m' h (by
            intro p' hp'
            rcases List.mem_cons.1 hp' with rfl | hp'
            · exact hq
            · rcases List.mem_cons.1 hp' with rfl | hp'
              · refine prFl_mono h1' ?_
                unfold afterChild
                split
                · exact hp
                · exact ⟨fun t' ht' => hp.1 t' (List.mem_of_mem_tail ht'), hp.2⟩
              · split at hp'
                · unfold cutStack at hp'
                  split at hp'
                  · simp at hp'
                  · rcases List.mem_cons.1 hp' with rfl | hp'
                    · exact prFl_leaf _ rfl rfl
                    · exact prFl_mono h1' (hrest p' (popUntil_mem'' _ stack p' hp'))
                · exact prFl_mono h1' (hrest p' hp')) hm2
          exact ⟨Nat.le_trans h1' g1, g2⟩

theorem semFl_of {n : Nat} (ih : ∀ t (m : MS), thunkFl m.user.nextId t → FlagsBelow m.user → RF m (evalThunk n t m)) :
    SemFl (sem n) :=
  ⟨fun _ t m ht hm => ih t m ht hm, fun h e m hh hm => evalRecover_fl h e m hh hm⟩

theorem flagsBelow_setFlag {m : MS} {f : Nat} (b : Bool) (hf : f < m.user.nextId) (hm : FlagsBelow m.user) :
    FlagsBelow (setFlag m f b).user := by
  intro f' b' h
  simp only [setFlag, List.mem_cons, Prod.mk.injEq] at h
  rcases h with ⟨rfl, _⟩ | h
  · exact hf
  · exact hm f' b' h

theorem RF.trans {m m1 : MS} {r : Option (Pr × MS)} (h : m.user.nextId ≤ m1.user.nextId) (hr : RF m1 r) : RF m r :=
  fun p m' e => ⟨Nat.le_trans h (hr p m' e).1, (hr p m' e).2⟩

theorem evalThunk_fl : ∀ (n : Nat) (t : Thunk) (m : MS), thunkFl m.user.nextId t → FlagsBelow m.user →
    RF m (evalThunk n t m)
  | 0, t, m, _, _ => by simp only [evalThunk]; exact RF_none
  | n + 1, t, m, ht, hm => by
    have hs := stepFl n
    have hsem : SemFl (sem n) := semFl_of (evalThunk_fl n)
    cases t with
    | clause c args k env parent =>
      simp only [evalThunk, freshVars]
      exact hs.exec _ _ _ _ _ _ _ _ ht hm
    | afterCut pc vars k args astack env cp =>
      simp only [evalThunk]
      exact hs.exec _ _ _ _ _ _ _ _ ht hm
    | contK k env =>
      simp only [evalThunk]
      exact hs.applyCont _ _ _ ht hm
    | exitAlt flag b k env =>
      cases k with
      | some k =>
        simp only [evalThunk]
        exact hs.applyCont k env (setFlag m flag b) ht.2 (flagsBelow_setFlag b ht.1 hm)
      | none =>
        simp only [evalThunk]
        exact RF_some (m' := setFlag m flag b) (Nat.le_refl _) (prFl_leaf _ rfl rfl) (flagsBelow_setFlag b ht hm)
    | negate goal k env =>
      simp only [evalThunk]
      obtain ⟨h1, h2, h3⟩ := callGoal_fl goal .done env m trivial hm
      have hst : ∀ p ∈ [(callGoal goal .done env m).1], prFl (callGoal goal .done env m).2.user.nextId p := by
        intro p hp; simp only [List.mem_singleton] at hp; exact hp ▸ h2
      split
      · exact RF_none
      all_goals
        rename_i m' hf
        obtain ⟨g1, g2⟩ := force_fl (sem n) hsem _ n _ _ _ m' hf hst h3
        have g0 : m.user.nextId ≤ m'.user.nextId := Nat.le_trans h1 g1
      · exact RF_some g0 (prFl_leaf _ rfl rfl) g2
      · exact RF.trans g0 (hs.applyCont _ _ _ (contFl_mono g0 ht) g2)
      · exact RF_some g0 (prFl_leaf _ rfl rfl) g2
      · exact RF_some g0 (prFl_leaf _ rfl rfl) g2
    | findall tmpl goal inst k env =>
      simp only [evalThunk]
      obtain ⟨h1, h2, h3⟩ := callGoal_fl goal (.findallK tmpl (freshId m).1) env (freshId m).2 trivial
        (flagsBelow_freshId hm)
      have hst : ∀ p ∈ [(callGoal goal (.findallK tmpl (freshId m).1) env (freshId m).2).1],
          prFl (callGoal goal (.findallK tmpl (freshId m).1) env (freshId m).2).2.user.nextId p := by
        intro p hp; simp only [List.mem_singleton] at hp; exact hp ▸ h2
      have h0 : m.user.nextId ≤ (callGoal goal (.findallK tmpl (freshId m).1) env (freshId m).2).2.user.nextId :=
        Nat.le_trans (Nat.le_succ _) h1
      have nf : ∀ r m', force (sem n)
            (callGoal goal (.findallK tmpl (freshId m).1) env (freshId m).2).2.user.cancelAt n
            [(callGoal goal (.findallK tmpl (freshId m).1) env (freshId m).2).1]
            (callGoal goal (.findallK tmpl (freshId m).1) env (freshId m).2).2 = some (r, m') →
          m.user.nextId ≤ m'.user.nextId ∧ FlagsBelow m'.user := by
        intro r m' hf
        obtain ⟨g1, g2⟩ := force_fl (sem n) hsem _ n _ _ _ m' hf hst h3
        exact ⟨Nat.le_trans h0 g1, g2⟩
      split
      · exact RF_none
      · rename_i e m' hf
        obtain ⟨g0, g2⟩ := nf _ m' hf
        exact RF_some g0 (prFl_leaf _ rfl rfl) g2
      · rename_i m' hf
        obtain ⟨g0, g2⟩ := nf _ m' hf
        exact RF_some g0 (prFl_leaf _ rfl rfl) g2
      · rename_i m' _ _ hf
        obtain ⟨g0, g2⟩ := nf _ m' hf
        split
        · exact RF.trans g0 (hs.applyCont _ _ _ (contFl_mono g0 ht) g2)
        · exact RF_some g0 (prFl_leaf _ rfl rfl) g2
        · exact RF_none
    | catchBody goal flag k env =>
      simp only [evalThunk]
      exact RF_pair (callGoal_fl _ _ _ _ ht hm)
    | unifyK x y k env =>
      simp only [evalThunk]
      split
      · exact hs.applyCont _ _ _ ht hm
      · exact RF_some (Nat.le_refl _) (prFl_leaf _ rfl rfl) hm
      · exact RF_none
    | betweenNext low upper value k env =>
      simp only [evalThunk]
      split
      · rename_i r hr
        intro p m' e
        cases e
        exact hs.builtin _ _ _ _ _ ht hm p m' hr
      · exact RF_none
    | appendRec xs ys zs k env =>
      simp only [evalThunk, freshVars]
      split
      · split
        · exact RF_pair (appendLists_fl _ _ _ _ _ _ ht hm)
        · exact RF_some (Nat.le_refl _) (prFl_leaf _ rfl rfl) hm
        · exact RF_none
      · exact RF_none

theorem semFl (fuel : Nat) : SemFl (sem fuel) := semFl_of (evalThunk_fl fuel)

/-! ### the theorems -/

/-- **vm_flags_wellformed_preserved**: from a well-formed configuration every step of the VM —
    `exec`, `applyCont`, `arrive`, a built-in, a thunk (nested trampolines included), a recovery
    closure, a whole run of the trampoline — returns a well-formed promise and state, and `nextId`
    only grows -/
theorem vm_flags_wellformed_preserved :
    (∀ n pc vars k args astack env cp (m : MS), contFl m.user.nextId k → FlagsBelow m.user →
      RF m (exec n pc vars k args astack env cp m)) ∧
    (∀ n k env (m : MS), contFl m.user.nextId k → FlagsBelow m.user → RF m (applyCont n k env m)) ∧
    (∀ n f args k env (m : MS), contFl m.user.nextId k → FlagsBelow m.user → RF m (arrive n f args k env m)) ∧
    (∀ n f args k env (m : MS), contFl m.user.nextId k → FlagsBelow m.user → RF2 m (builtin n f args k env m)) ∧
    (∀ n t (m : MS), thunkFl m.user.nextId t → FlagsBelow m.user → RF m (evalThunk n t m)) ∧
    (∀ fuel ca n stack (m : MS) r m', force (sem fuel) ca n stack m = some (r, m') →
      (∀ p ∈ stack, prFl m.user.nextId p) → FlagsBelow m.user →
      m.user.nextId ≤ m'.user.nextId ∧ FlagsBelow m'.user) :=
  ⟨fun n => (stepFl n).exec, fun n => (stepFl n).applyCont, fun n => (stepFl n).arrive,
   fun n => (stepFl n).builtin, evalThunk_fl, fun fuel ca => force_fl (sem fuel) (semFl fuel) ca⟩

/-- **vm_catch_flag_fresh**: in a well-formed state, the flag of a new catch/3 call is the current
    `nextId`; it has never been written — so the catch is BORN ACTIVE — and it differs from the flag
    of every recovery closure, thunk and continuation that is well-formed at this moment (i.e. of
    every other catch/3 call in existence): switching it never disturbs another catch/3 -/
theorem vm_catch_flag_fresh (n : Nat) (goal catcher recover : Term) (k : Cont) (env : Env) (m : MS)
    (hm : FlagsBelow m.user) :
    builtin (n + 1) "catch" [goal, catcher, recover] k env m =
      some (some ({ delayed := [.catchBody goal m.user.nextId k env],
                    recover := some ⟨m.user.nextId, catcher, recover, k, env⟩ }, (freshId m).2)) ∧
    (freshId m).2.user.flag m.user.nextId = true ∧
    (∀ b, (m.user.nextId, b) ∉ (freshId m).2.user.flags) ∧
    (∀ q, prFl m.user.nextId q → ∀ h, q.recover = some h → h.flag ≠ m.user.nextId) ∧
    (∀ f b k' env', thunkFl m.user.nextId (.exitAlt f b k' env') → f ≠ m.user.nextId) := by
  refine ⟨vm_catch_call n goal catcher recover k env m, vm_catch_born_active m hm, ?_, ?_, ?_⟩
  · intro b hb
    exact Nat.lt_irrefl _ (hm _ b hb)
  · intro q hq h hr
    exact Nat.ne_of_lt (hq.2 h hr).1
  · intro f b k' env' ht
    cases k' with
    | some k' => exact Nat.ne_of_lt ht.1
    | none => exact Nat.ne_of_lt ht

theorem loadClauses_flags (s : St) (ts : List Term) :
    (loadClauses s ts).flags = s.flags ∧ (loadClauses s ts).nextId = s.nextId := by
  unfold loadClauses
  induction ts generalizing s with
  | nil => exact ⟨rfl, rfl⟩
  | cons t ts ih =>
    simp only [List.foldl_cons]
    refine ⟨(ih _).1.trans ?_, (ih _).2.trans ?_⟩
    · split
      · rfl
      · split <;> rfl
    · split
      · rfl
      · split <;> rfl

theorem initState_flags (prog : List Term) (ca : Option Nat) : (VMCancel.initState prog ca).flags = [] := by
  unfold VMCancel.initState
  have hb : bootState.flags = [] := by
    unfold bootState
    rw [(loadClauses_flags _ _).1]
  generalize bootState = b at hb ⊢
  generalize hs : ({ loadClauses b [] with cancelAt := ca } : St) = s0
  have h0 : s0.flags = [] := by
    rw [← hs]
    exact (loadClauses_flags b []).1.trans hb
  clear hs
  induction prog generalizing s0 with
  | nil => exact h0
  | cons c cs ih =>
    simp only [List.foldl_cons]
    apply ih
    split
    · exact h0
    · exact h0

/-- **vm_run_flags_ok**: every configuration a query run passes through is well-formed — in
    particular the final state: the initial state has no flag written, the promise of the query
    mentions none -/
theorem vm_run_flags_ok (fuel : Nat) (prog : List Term) (query : Term) (max : Nat) (ca : Option Nat)
    (r : Promise.Res Err) (m' : MS) (h : VMCancel.runQueryM fuel prog query max ca = some (r, m')) :
    FlagsBelow m'.user := by
  unfold VMCancel.runQueryM at h
  have h0 : FlagsBelow ({ user := VMCancel.initState prog ca } : MS).user := by
    intro f b hf
    rw [initState_flags] at hf
    cases hf
  obtain ⟨_, h2, h3⟩ := callGoal_fl query (.collect query max) [] { user := VMCancel.initState prog ca } trivial h0
  exact (force_fl (sem fuel) (semFl fuel) ca fuel _ _ r m' h (by
    intro p hp; simp only [List.mem_singleton] at hp; exact hp ▸ h2) h3).2

/-! ### the hypotheses are satisfiable -/

example : FlagsBelow ({} : St) := fun _ _ h => by cases h
example : contFl 5 (.catchExit 3 (.exec [] [] 0 (.catchExit 4 .done))) := ⟨by decide, by decide, trivial⟩
example : ¬ contFl 4 (.catchExit 3 (.exec [] [] 0 (.catchExit 4 .done))) := fun h => absurd h.2.1 (by decide)
example (g c r : Term) (k : Cont) (env : Env) :=
  vm_catch_flag_fresh 0 g c r k env { user := {} } (fun _ _ h => by cases h)

end PrologVerif.VMCatch
