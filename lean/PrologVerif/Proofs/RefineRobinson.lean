/-
  Correctness of the reference unifier `Robinson.solve` (Spec/Robinson.lean), the oracle of C02:

  * `.mgu θ`   — θ unifies (`solve_mgu_sound`), is most general and idempotent (`solve_mgu_general`)
                 and introduces no new variables (`solve_mgu_vars`);
  * `.clash`   — there is no unifier (`solve_clash_no_unifier`);
  * `.occurs`  — there is no unifier in finite terms (`solve_occurs_no_unifier`).

  The association list is read as the substitution `substOf` (exactly what `applySubst` applies).
  The proof is the textbook one: an invariant `Inv` relating the current equations and accumulator
  to the solutions of the original problem, preserved by every step of `solve`.
-/
import PrologVerif.Spec.Robinson
import PrologVerif.Proofs.ActivationLemmas
namespace PrologVerif.RefineRobinson
open PrologVerif

/-- the substitution an association list denotes (what `applySubst` applies) -/
def substOf (σ : List (Nat × Term)) : Subst := fun v => Robinson.applySubst σ (.var v)

/-! ### the primitives of the reference algorithm are the ones of the specification -/

mutual
  theorem replace_eq_subst (v : Nat) (u : Term) : ∀ t : Term,
      Robinson.replace v u t = t.subst (upd v u)
    | .var w => by simp [Robinson.replace, Term.subst, upd]
    | .atom _ => by simp [Robinson.replace, Term.subst]
    | .int _ => by simp [Robinson.replace, Term.subst]
    | .flt _ => by simp [Robinson.replace, Term.subst]
    | .str _ => by simp [Robinson.replace, Term.subst]
    | .app f as => by simp [Robinson.replace, Term.subst, replaceArgs_eq_subst v u as]
  theorem replaceArgs_eq_subst (v : Nat) (u : Term) : ∀ as : Args,
      Robinson.replaceArgs v u as = as.subst (upd v u)
    | .nil => by simp [Robinson.replaceArgs, Args.subst]
    | .cons t ts => by
      simp [Robinson.replaceArgs, Args.subst, replace_eq_subst v u t, replaceArgs_eq_subst v u ts]
end

mutual
  theorem occurs_eq_hasVar (v : Nat) : ∀ t : Term, Robinson.occurs v t = t.hasVar v
    | .var w => by simp [Robinson.occurs, Term.hasVar]
    | .atom _ => by simp [Robinson.occurs, Term.hasVar]
    | .int _ => by simp [Robinson.occurs, Term.hasVar]
    | .flt _ => by simp [Robinson.occurs, Term.hasVar]
    | .str _ => by simp [Robinson.occurs, Term.hasVar]
    | .app f as => by simp [Robinson.occurs, Term.hasVar, occursArgs_eq_hasVar v as]
  theorem occursArgs_eq_hasVar (v : Nat) : ∀ as : Args, Robinson.occursArgs v as = as.hasVar v
    | .nil => by simp [Robinson.occursArgs, Args.hasVar]
    | .cons t ts => by
      simp [Robinson.occursArgs, Args.hasVar, occurs_eq_hasVar v t, occursArgs_eq_hasVar v ts]
end

theorem substOf_nil (w : Nat) : substOf [] w = .var w := rfl

theorem substOf_cons (p : Nat × Term) (rest : List (Nat × Term)) (w : Nat) :
    substOf (p :: rest) w = (substOf rest w).subst (upd p.1 p.2) := by
  show Robinson.replace p.1 p.2 (Robinson.applySubst rest (.var w)) = _
  rw [replace_eq_subst]; rfl

theorem applySubst_eq (σ : List (Nat × Term)) (t : Term) :
    Robinson.applySubst σ t = t.subst (substOf σ) := by
  induction σ with
  | nil =>
    show t = _
    have : substOf [] = fun v => .var v := rfl
    rw [this, Term.subst_id]
  | cons p rest ih =>
    show Robinson.replace p.1 p.2 (Robinson.applySubst rest t) = _
    rw [replace_eq_subst, ih, Term.subst_comp]
    exact Term.subst_ext (fun w => (substOf_cons p rest w).symm) t

/-! ### variables of substituted terms, sizes -/

mutual
  theorem hasVar_subst (σ : Subst) (x : Nat) : ∀ t : Term, (t.subst σ).hasVar x = true →
      ∃ y, t.hasVar y = true ∧ (σ y).hasVar x = true
    | .var w, h => ⟨w, by simp [Term.hasVar], by simpa [Term.subst] using h⟩
    | .atom _, h => by simp [Term.subst, Term.hasVar] at h
    | .int _, h => by simp [Term.subst, Term.hasVar] at h
    | .flt _, h => by simp [Term.subst, Term.hasVar] at h
    | .str _, h => by simp [Term.subst, Term.hasVar] at h
    | .app f as, h => by
      simp only [Term.subst, Term.hasVar] at h
      obtain ⟨y, hy, hx⟩ := hasVarArgs_subst σ x as h
      exact ⟨y, by simpa [Term.hasVar] using hy, hx⟩
  theorem hasVarArgs_subst (σ : Subst) (x : Nat) : ∀ as : Args, (as.subst σ).hasVar x = true →
      ∃ y, as.hasVar y = true ∧ (σ y).hasVar x = true
    | .nil, h => by simp [Args.subst, Args.hasVar] at h
    | .cons t ts, h => by
      simp only [Args.subst, Args.hasVar, Bool.or_eq_true] at h
      rcases h with h | h
      · obtain ⟨y, hy, hx⟩ := hasVar_subst σ x t h
        exact ⟨y, by simp [Args.hasVar, hy], hx⟩
      · obtain ⟨y, hy, hx⟩ := hasVarArgs_subst σ x ts h
        exact ⟨y, by simp [Args.hasVar, hy], hx⟩
end

theorem hasVar_subst_upd {v : Nat} {u t : Term} {x : Nat}
    (h : (t.subst (upd v u)).hasVar x = true) :
    (t.hasVar x = true ∧ x ≠ v) ∨ u.hasVar x = true := by
  obtain ⟨y, hy, hx⟩ := hasVar_subst _ x t h
  unfold upd at hx
  split at hx
  · exact Or.inr hx
  · rename_i hne
    simp only [Term.hasVar, beq_iff_eq] at hx
    subst hx
    exact Or.inl ⟨hy, hne⟩

mutual
  theorem size_of_hasVar (γ : Subst) (v : Nat) : ∀ t : Term, t.hasVar v = true →
      (γ v).size ≤ (t.subst γ).size
    | .var w, h => by
      simp only [Term.hasVar, beq_iff_eq] at h
      subst h
      simp [Term.subst]
    | .atom _, h => by simp [Term.hasVar] at h
    | .int _, h => by simp [Term.hasVar] at h
    | .flt _, h => by simp [Term.hasVar] at h
    | .str _, h => by simp [Term.hasVar] at h
    | .app f as, h => by
      have := sizeArgs_of_hasVar γ v as (by simpa [Term.hasVar] using h)
      simp only [Term.subst, Term.size]; omega
  theorem sizeArgs_of_hasVar (γ : Subst) (v : Nat) : ∀ as : Args, as.hasVar v = true →
      (γ v).size ≤ (as.subst γ).size
    | .nil, h => by simp [Args.hasVar] at h
    | .cons t ts, h => by
      simp only [Args.hasVar, Bool.or_eq_true] at h
      simp only [Args.subst, Args.size]
      rcases h with h | h
      · have := size_of_hasVar γ v t h; omega
      · have := sizeArgs_of_hasVar γ v ts h; omega
end

/-- `v = u` with `v` a proper subterm of `u` has no solution in finite terms -/
theorem occurs_no_solution {v : Nat} {u : Term} (h : u.hasVar v = true) (hne : u ≠ .var v)
    (γ : Subst) : γ v ≠ u.subst γ := by
  intro heq
  cases u with
  | var w =>
    simp only [Term.hasVar, beq_iff_eq] at h
    subst h; exact hne rfl
  | app f as =>
    have h1 := sizeArgs_of_hasVar γ v as (by simpa [Term.hasVar] using h)
    have h2 : (γ v).size = (Term.subst γ (.app f as)).size := by rw [heq]
    simp only [Term.subst, Term.size] at h2
    omega
  | atom _ => simp [Term.hasVar] at h
  | int _ => simp [Term.hasVar] at h
  | flt _ => simp [Term.hasVar] at h
  | str _ => simp [Term.hasVar] at h

/-! ### argument lists -/

theorem length_subst (γ : Subst) : ∀ as : Args, (as.subst γ).length = as.length
  | .nil => rfl
  | .cons _ ts => by simp [Args.subst, Args.length, length_subst γ ts]

theorem zipArgs_unif (γ : Subst) : ∀ as bs : Args, as.length = bs.length →
    (as.subst γ = bs.subst γ ↔ ∀ q ∈ Robinson.zipArgs as bs, q.1.subst γ = q.2.subst γ)
  | .nil, .nil, _ => by simp [Robinson.zipArgs, Args.subst]
  | .nil, .cons _ _, h => by simp [Args.length] at h
  | .cons _ _, .nil, h => by simp [Args.length] at h
  | .cons a as, .cons b bs, h => by
    simp only [Args.length, Nat.add_right_cancel_iff] at h
    simp [Robinson.zipArgs, Args.subst, zipArgs_unif γ as bs h]

theorem zipArgs_hasVar (x : Nat) : ∀ (as bs : Args) (q : Term × Term), q ∈ Robinson.zipArgs as bs →
    (q.1.hasVar x = true → as.hasVar x = true) ∧ (q.2.hasVar x = true → bs.hasVar x = true)
  | .nil, _, q, h => by simp [Robinson.zipArgs] at h
  | .cons _ _, .nil, q, h => by simp [Robinson.zipArgs] at h
  | .cons a as, .cons b bs, q, h => by
    simp only [Robinson.zipArgs, List.mem_cons] at h
    rcases h with rfl | h
    · simp only [Args.hasVar, Bool.or_eq_true]
      exact ⟨Or.inl, Or.inl⟩
    · have := zipArgs_hasVar x as bs q h
      simp only [Args.hasVar, Bool.or_eq_true]
      exact ⟨fun h1 => Or.inr (this.1 h1), fun h2 => Or.inr (this.2 h2)⟩

/-! ### substitution algebra for one binding -/

theorem not_hasVar_subst_upd_self {v : Nat} {u : Term} (hv : u.hasVar v = false) (t : Term) :
    (t.subst (upd v u)).hasVar v = false := by
  rw [Bool.eq_false_iff]
  intro h
  rcases hasVar_subst_upd h with ⟨_, h2⟩ | h2
  · exact h2 rfl
  · rw [hv] at h2; cases h2

theorem not_hasVar_subst_upd {v : Nat} {u t : Term} {x : Nat} (ht : t.hasVar x = false)
    (hu : u.hasVar x = false) : (t.subst (upd v u)).hasVar x = false := by
  rw [Bool.eq_false_iff]
  intro h
  rcases hasVar_subst_upd h with ⟨h1, _⟩ | h2
  · rw [ht] at h1; cases h1
  · rw [hu] at h2; cases h2

/-- a solution of `v = u` absorbs the binding -/
theorem comp_upd_of_solves {γ : Subst} {v : Nat} {u : Term} (h : γ v = u.subst γ) (t : Term) :
    (t.subst (upd v u)).subst γ = t.subst γ := by
  rw [Term.subst_comp]
  apply Term.subst_ext
  intro w
  simp only [Subst.comp, upd]
  split
  · rename_i hw; subst hw; exact h.symm
  · rfl

theorem substOf_fresh : ∀ {acc : List (Nat × Term)} {w : Nat}, (∀ p ∈ acc, p.1 ≠ w) →
    substOf acc w = .var w
  | [], _, _ => rfl
  | p :: rest, w, h => by
    rw [substOf_cons, substOf_fresh (fun q hq => h q (List.mem_cons_of_mem _ hq))]
    have : w ≠ p.1 := fun e => h p (List.mem_cons_self ..) e.symm
    simp [Term.subst, upd, this]

/-- eager substitution in the ranges, then the new binding = the old substitution followed by
    the new binding -/
theorem substOf_map_replace {v : Nat} {u : Term} (hv : u.hasVar v = false) :
    ∀ (acc : List (Nat × Term)), (∀ p ∈ acc, p.1 ≠ v ∧ u.hasVar p.1 = false) → ∀ w,
    (substOf (acc.map fun p => (p.1, Robinson.replace v u p.2)) w).subst (upd v u)
      = (substOf acc w).subst (upd v u)
  | [], _, _ => rfl
  | p :: rest, h, w => by
    have ih := substOf_map_replace hv rest (fun q hq => h q (List.mem_cons_of_mem _ hq)) w
    obtain ⟨hpv, hpu⟩ := h p (List.mem_cons_self ..)
    rw [List.map_cons, substOf_cons, substOf_cons]
    show Term.subst (upd v u) (Term.subst (upd p.1 (Robinson.replace v u p.2)) _) = _
    rw [replace_eq_subst]
    have ht' : (p.2.subst (upd v u)).hasVar v = false := not_hasVar_subst_upd_self hv p.2
    have c1 : ∀ s : Term, (s.subst (upd p.1 (p.2.subst (upd v u)))).subst (upd v u)
        = (s.subst (upd v u)).subst (upd p.1 (p.2.subst (upd v u))) := by
      intro s
      rw [Term.subst_comp, Term.subst_comp]
      apply Term.subst_ext
      intro y
      by_cases h1 : y = p.1
      · have h2 : y ≠ v := fun e => hpv (h1 ▸ e)
        simp [Subst.comp, upd, h1, hpv, Term.subst, Term.subst_upd_of_not_hasVar v u _ ht']
      · by_cases h2 : y = v
        · simp [Subst.comp, upd, h2, Ne.symm hpv, Term.subst,
            Term.subst_upd_of_not_hasVar p.1 _ u hpu]
        · simp [Subst.comp, upd, h1, h2, Term.subst]
    have c2 : ∀ s : Term, (s.subst (upd p.1 (p.2.subst (upd v u)))).subst (upd v u)
        = (s.subst (upd p.1 p.2)).subst (upd v u) := by
      intro s
      rw [Term.subst_comp, Term.subst_comp]
      apply Term.subst_ext
      intro y
      by_cases h1 : y = p.1
      · simp [Subst.comp, upd, h1, Term.subst_upd_of_not_hasVar v u _ ht']
      · simp [Subst.comp, upd, h1]
    rw [c1, ih, ← c1, c2]

/-! ### the invariant -/

/-- γ unifies every equation -/
def Unif (γ : Subst) (eqs : List (Term × Term)) : Prop := ∀ q ∈ eqs, q.1.subst γ = q.2.subst γ
/-- x occurs in some equation -/
def EVar (eqs : List (Term × Term)) (x : Nat) : Prop :=
  ∃ q ∈ eqs, q.1.hasVar x = true ∨ q.2.hasVar x = true
/-- x occurs in the range of the accumulator -/
def RVar (acc : List (Nat × Term)) (x : Nat) : Prop := ∃ p ∈ acc, p.2.hasVar x = true

/-- the state `(eqs, acc)` of `solve` w.r.t. the original problem, given by its set of unifiers
    `U0` and its set of variables `V` -/
structure Inv (U0 : Subst → Prop) (V : Nat → Prop) (eqs : List (Term × Term))
    (acc : List (Nat × Term)) : Prop where
  /-- the unifiers of the original problem are the unifiers of `eqs` that factor through `acc` -/
  sols : ∀ γ, U0 γ ↔ (Unif γ eqs ∧ ∀ w, γ w = (substOf acc w).subst γ)
  /-- eliminated variables do not occur in the remaining equations … -/
  freshE : ∀ p ∈ acc, ¬ EVar eqs p.1
  /-- … nor in the ranges -/
  freshR : ∀ p ∈ acc, ¬ RVar acc p.1
  varsE : ∀ x, EVar eqs x → V x
  varsD : ∀ p ∈ acc, V p.1
  varsR : ∀ x, RVar acc x → V x

theorem Inv.change_eqs {U0 : Subst → Prop} {V : Nat → Prop} {eqs eqs' : List (Term × Term)}
    {acc : List (Nat × Term)} (h : Inv U0 V eqs acc)
    (hu : ∀ γ, Unif γ eqs ↔ Unif γ eqs') (hv : ∀ x, EVar eqs' x → EVar eqs x) :
    Inv U0 V eqs' acc :=
  ⟨fun γ => by rw [h.sols γ, hu γ], fun p hp he => h.freshE p hp (hv _ he), h.freshR,
    fun x hx => h.varsE x (hv x hx), h.varsD, h.varsR⟩

theorem Inv.bind {U0 : Subst → Prop} {V : Nat → Prop} {v : Nat} {u : Term}
    {rest : List (Term × Term)} {acc : List (Nat × Term)}
    (h : Inv U0 V ((.var v, u) :: rest) acc) (hocc : u.hasVar v = false) :
    Inv U0 V (rest.map fun p => (Robinson.replace v u p.1, Robinson.replace v u p.2))
      ((v, u) :: acc.map fun p => (p.1, Robinson.replace v u p.2)) := by
  have hdom : ∀ p ∈ acc, p.1 ≠ v ∧ u.hasVar p.1 = false := by
    intro p hp
    have := h.freshE p hp
    constructor
    · intro e; exact this ⟨_, List.mem_cons_self .., Or.inl (by simp [Term.hasVar, e])⟩
    · rw [Bool.eq_false_iff]; intro e; exact this ⟨_, List.mem_cons_self .., Or.inr e⟩
  have hδ : ∀ w, substOf ((v, u) :: acc.map fun p => (p.1, Robinson.replace v u p.2)) w
      = (substOf acc w).subst (upd v u) := by
    intro w; rw [substOf_cons]; exact substOf_map_replace hocc acc hdom w
  have hδv : substOf acc v = .var v := substOf_fresh (fun p hp => (hdom p hp).1)
  have hrep : ∀ (t : Term) (x : Nat), (Robinson.replace v u t).hasVar x = true →
      x ≠ v ∧ (t.hasVar x = true ∨ u.hasVar x = true) := by
    intro t x hx
    rw [replace_eq_subst] at hx
    refine ⟨fun e => ?_, ?_⟩
    · subst e; rw [not_hasVar_subst_upd_self hocc] at hx; cases hx
    · rcases hasVar_subst_upd hx with ⟨h1, _⟩ | h2
      · exact Or.inl h1
      · exact Or.inr h2
  have hE : ∀ x, EVar (rest.map fun p => (Robinson.replace v u p.1, Robinson.replace v u p.2)) x →
      x ≠ v ∧ EVar ((.var v, u) :: rest) x := by
    rintro x ⟨q, hq, hx⟩
    simp only [List.mem_map] at hq
    obtain ⟨q0, hq0, rfl⟩ := hq
    rcases hx with hx | hx
    · obtain ⟨h1, h2⟩ := hrep _ x hx
      refine ⟨h1, ?_⟩
      rcases h2 with h2 | h2
      · exact ⟨q0, List.mem_cons_of_mem _ hq0, Or.inl h2⟩
      · exact ⟨_, List.mem_cons_self .., Or.inr h2⟩
    · obtain ⟨h1, h2⟩ := hrep _ x hx
      refine ⟨h1, ?_⟩
      rcases h2 with h2 | h2
      · exact ⟨q0, List.mem_cons_of_mem _ hq0, Or.inr h2⟩
      · exact ⟨_, List.mem_cons_self .., Or.inr h2⟩
  have hR : ∀ x, RVar ((v, u) :: acc.map fun p => (p.1, Robinson.replace v u p.2)) x →
      x ≠ v ∧ (EVar ((.var v, u) :: rest) x ∨ RVar acc x) := by
    rintro x ⟨p, hp, hx⟩
    simp only [List.mem_cons, List.mem_map] at hp
    rcases hp with rfl | ⟨p0, hp0, rfl⟩
    · refine ⟨fun e => ?_, Or.inl ⟨_, List.mem_cons_self .., Or.inr hx⟩⟩
      subst e; simp only [hocc] at hx; cases hx
    · obtain ⟨h1, h2⟩ := hrep _ x hx
      refine ⟨h1, ?_⟩
      rcases h2 with h2 | h2
      · exact Or.inr ⟨p0, hp0, h2⟩
      · exact Or.inl ⟨_, List.mem_cons_self .., Or.inr h2⟩
  have hD : ∀ p ∈ ((v, u) :: acc.map fun p => (p.1, Robinson.replace v u p.2)),
      p.1 = v ∨ ∃ p0 ∈ acc, p.1 = p0.1 := by
    intro p hp
    simp only [List.mem_cons, List.mem_map] at hp
    rcases hp with rfl | ⟨p0, hp0, rfl⟩
    · exact Or.inl rfl
    · exact Or.inr ⟨p0, hp0, rfl⟩
  refine ⟨?_, ?_, ?_, ?_, ?_, ?_⟩
  · intro γ
    rw [h.sols γ]
    constructor
    · rintro ⟨hu, hg⟩
      have hv : γ v = u.subst γ := by simpa [Term.subst] using hu _ (List.mem_cons_self ..)
      refine ⟨?_, ?_⟩
      · intro q hq
        simp only [List.mem_map] at hq
        obtain ⟨q0, hq0, rfl⟩ := hq
        simp only [replace_eq_subst, comp_upd_of_solves hv]
        exact hu q0 (List.mem_cons_of_mem _ hq0)
      · intro w
        rw [hδ, comp_upd_of_solves hv]; exact hg w
    · rintro ⟨hu, hg⟩
      have hv : γ v = u.subst γ := by
        have := hg v
        rw [hδ, hδv] at this
        simpa [Term.subst, upd] using this
      refine ⟨?_, ?_⟩
      · intro q hq
        simp only [List.mem_cons] at hq
        rcases hq with rfl | hq
        · simpa [Term.subst] using hv
        · have := hu _ (List.mem_map_of_mem hq)
          simpa only [replace_eq_subst, comp_upd_of_solves hv] using this
      · intro w
        have := hg w
        rwa [hδ, comp_upd_of_solves hv] at this
  · intro p hp he
    obtain ⟨hne, he'⟩ := hE _ he
    rcases hD p hp with e | ⟨p0, hp0, e⟩
    · exact hne e
    · rw [e] at he'; exact h.freshE p0 hp0 he'
  · intro p hp hr
    obtain ⟨hne, hr'⟩ := hR _ hr
    rcases hD p hp with e | ⟨p0, hp0, e⟩
    · exact hne e
    · rw [e] at hr'
      rcases hr' with hr' | hr'
      · exact h.freshE p0 hp0 hr'
      · exact h.freshR p0 hp0 hr'
  · intro x hx
    exact h.varsE x (hE x hx).2
  · intro p hp
    rcases hD p hp with e | ⟨p0, hp0, e⟩
    · rw [e]; exact h.varsE v ⟨_, List.mem_cons_self .., Or.inl (by simp [Term.hasVar])⟩
    · rw [e]; exact h.varsD p0 hp0
  · intro x hx
    rcases (hR x hx).2 with h1 | h1
    · exact h.varsE x h1
    · exact h.varsR x h1

theorem Inv.swap {U0 : Subst → Prop} {V : Nat → Prop} {s t : Term}
    {rest : List (Term × Term)} {acc : List (Nat × Term)}
    (h : Inv U0 V ((s, t) :: rest) acc) : Inv U0 V ((t, s) :: rest) acc := by
  refine h.change_eqs (fun γ => ?_) ?_
  · simp only [Unif, List.mem_cons, forall_eq_or_imp]
    exact ⟨fun ⟨a, b⟩ => ⟨a.symm, b⟩, fun ⟨a, b⟩ => ⟨a.symm, b⟩⟩
  · rintro x ⟨q, hq, hx⟩
    simp only [List.mem_cons] at hq
    rcases hq with rfl | hq
    · exact ⟨_, List.mem_cons_self .., hx.symm⟩
    · exact ⟨q, List.mem_cons_of_mem _ hq, hx⟩

theorem Inv.drop {U0 : Subst → Prop} {V : Nat → Prop} {s : Term}
    {rest : List (Term × Term)} {acc : List (Nat × Term)}
    (h : Inv U0 V ((s, s) :: rest) acc) : Inv U0 V rest acc := by
  refine h.change_eqs (fun γ => ?_) ?_
  · simp [Unif]
  · rintro x ⟨q, hq, hx⟩
    exact ⟨q, List.mem_cons_of_mem _ hq, hx⟩

theorem Inv.decomp {U0 : Subst → Prop} {V : Nat → Prop} {f : String} {as bs : Args}
    {rest : List (Term × Term)} {acc : List (Nat × Term)}
    (h : Inv U0 V ((.app f as, .app f bs) :: rest) acc) (hl : as.length = bs.length) :
    Inv U0 V (Robinson.zipArgs as bs ++ rest) acc := by
  refine h.change_eqs (fun γ => ?_) ?_
  · simp only [Unif, List.mem_cons, forall_eq_or_imp, List.mem_append]
    have := zipArgs_unif γ as bs hl
    simp only [Term.subst, Term.app.injEq, true_and, this]
    constructor
    · rintro ⟨a, b⟩ q (hq | hq)
      · exact a q hq
      · exact b q hq
    · intro a
      exact ⟨fun q hq => a q (Or.inl hq), fun q hq => a q (Or.inr hq)⟩
  · rintro x ⟨q, hq, hx⟩
    simp only [List.mem_append] at hq
    rcases hq with hq | hq
    · have := zipArgs_hasVar x as bs q hq
      refine ⟨_, List.mem_cons_self .., ?_⟩
      simp only [Term.hasVar]
      rcases hx with hx | hx
      · exact Or.inl (this.1 hx)
      · exact Or.inr (this.2 hx)
    · exact ⟨q, List.mem_cons_of_mem _ hq, hx⟩

/-- an equation without unifier: the original problem has none -/
theorem Inv.no_unifier {U0 : Subst → Prop} {V : Nat → Prop} {s t : Term}
    {rest : List (Term × Term)} {acc : List (Nat × Term)}
    (h : Inv U0 V ((s, t) :: rest) acc) (hst : ∀ γ : Subst, s.subst γ ≠ t.subst γ) :
    ∀ γ, ¬ U0 γ := by
  intro γ hγ
  exact hst γ (((h.sols γ).1 hγ).1 _ (List.mem_cons_self ..))

/-! ### the main induction -/

/-- what an outcome of `solve` claims about the original problem -/
def Good (U0 : Subst → Prop) (V : Nat → Prop) : Robinson.Outcome → Prop
  | .mgu θ => Inv U0 V [] θ
  | .clash => ∀ γ, ¬ U0 γ
  | .occurs => ∀ γ, ¬ U0 γ
  | .outOfFuel => True

theorem solve_bind_good {U0 : Subst → Prop} {V : Nat → Prop} {n : Nat} {v : Nat} {u : Term}
    {rest : List (Term × Term)} {acc : List (Nat × Term)}
    (ih : ∀ eqs acc, Inv U0 V eqs acc → Good U0 V (Robinson.solve n eqs acc))
    (h : Inv U0 V ((.var v, u) :: rest) acc) (hne : u ≠ .var v) :
    Good U0 V (if Robinson.occurs v u then Robinson.Outcome.occurs
      else Robinson.solve n (rest.map fun p => (Robinson.replace v u p.1, Robinson.replace v u p.2))
        ((v, u) :: acc.map fun p => (p.1, Robinson.replace v u p.2))) := by
  rw [occurs_eq_hasVar]
  cases hocc : u.hasVar v with
  | true =>
    simp only [if_true]
    intro γ hγ
    have := ((h.sols γ).1 hγ).1 _ (List.mem_cons_self ..)
    exact occurs_no_solution hocc hne γ (by simpa [Term.subst] using this)
  | false =>
    simp only [Bool.false_eq_true, if_false]
    exact ih _ _ (h.bind hocc)

theorem solve_good (U0 : Subst → Prop) (V : Nat → Prop) : ∀ (n : Nat) (eqs : List (Term × Term))
    (acc : List (Nat × Term)), Inv U0 V eqs acc → Good U0 V (Robinson.solve n eqs acc)
  | 0, _, _, _ => by simp [Robinson.solve, Good]
  | n + 1, [], acc, h => by simpa [Robinson.solve, Good] using h
  | n + 1, (s, t) :: rest, acc, h => by
    have ih := solve_good U0 V n
    by_cases hst : s = t
    · subst hst
      simp only [Robinson.solve, if_true]
      exact ih _ _ h.drop
    · cases s with
      | var v =>
        simp only [Robinson.solve, hst, if_false]
        exact solve_bind_good ih h (fun e => hst e.symm)
      | app f as =>
        cases t with
        | var w =>
          simp only [Robinson.solve, hst, if_false]
          exact solve_bind_good ih h.swap hst
        | app g bs =>
          simp only [Robinson.solve, hst, if_false]
          split
          · rename_i hfg
            obtain ⟨rfl, hl⟩ := hfg
            exact ih _ _ (h.decomp hl)
          · rename_i hfg
            refine h.no_unifier (fun γ e => hfg ?_)
            simp only [Term.subst, Term.app.injEq] at e
            refine ⟨e.1, ?_⟩
            have := congrArg Args.length e.2
            simpa only [length_subst] using this
        | _ =>
          simp only [Robinson.solve, hst, if_false]
          exact h.no_unifier (fun γ e => by simp [Term.subst] at e)
      | _ =>
        cases t with
        | var w =>
          simp only [Robinson.solve, hst, if_false]
          exact solve_bind_good ih h.swap hst
        | _ =>
          simp only [Robinson.solve, hst, if_false]
          exact h.no_unifier (fun γ e => by simp [Term.subst] at e <;> exact hst (by simp [e]))

/-! ### reading the final accumulator -/

/-- with eliminated variables absent from the ranges, the association list is a simultaneous
    substitution: a variable is untouched or mapped to the range of one of its bindings -/
theorem substOf_cases : ∀ {acc : List (Nat × Term)}, (∀ p ∈ acc, ¬ RVar acc p.1) → ∀ w,
    (substOf acc w = .var w ∧ ∀ p ∈ acc, p.1 ≠ w) ∨ ∃ p ∈ acc, p.1 = w ∧ substOf acc w = p.2
  | [], _, w => Or.inl ⟨rfl, fun p hp => by cases hp⟩
  | p :: rest, h, w => by
    have hrest : ∀ q ∈ rest, ¬ RVar rest q.1 := fun q hq ⟨r, hr, hx⟩ =>
      h q (List.mem_cons_of_mem _ hq) ⟨r, List.mem_cons_of_mem _ hr, hx⟩
    rw [substOf_cons]
    rcases substOf_cases hrest w with ⟨h1, h2⟩ | ⟨q, hq, hqw, h1⟩
    · rw [h1]
      by_cases hw : w = p.1
      · exact Or.inr ⟨p, List.mem_cons_self .., hw.symm, by simp [Term.subst, upd, hw]⟩
      · refine Or.inl ⟨by simp [Term.subst, upd, hw], ?_⟩
        intro r hr
        simp only [List.mem_cons] at hr
        rcases hr with rfl | hr
        · exact fun e => hw e.symm
        · exact h2 r hr
    · refine Or.inr ⟨q, List.mem_cons_of_mem _ hq, hqw, ?_⟩
      rw [h1]
      apply Term.subst_upd_of_not_hasVar
      rw [Bool.eq_false_iff]
      intro e
      exact h p (List.mem_cons_self ..) ⟨q, List.mem_cons_of_mem _ hq, e⟩

theorem subst_substOf_fresh {acc : List (Nat × Term)} {t : Term}
    (h : ∀ p ∈ acc, t.hasVar p.1 = false) : t.subst (substOf acc) = t := by
  have := Activation.subst_congr t (substOf acc) (fun v => .var v) (fun v hv =>
    substOf_fresh (fun p hp e => by have := h p hp; rw [e, hv] at this; cases this))
  rw [this, Term.subst_id]

/-- idempotence -/
theorem substOf_idem {acc : List (Nat × Term)} (h : ∀ p ∈ acc, ¬ RVar acc p.1) (w : Nat) :
    (substOf acc w).subst (substOf acc) = substOf acc w := by
  rcases substOf_cases h w with ⟨h1, _⟩ | ⟨p, hp, _, h1⟩
  · rw [h1]; exact h1
  · rw [h1]
    apply subst_substOf_fresh
    intro p' hp'
    rw [Bool.eq_false_iff]
    intro e
    exact h p' hp' ⟨p, hp, e⟩

theorem inv_init (a b : Term) :
    Inv (fun γ => a.subst γ = b.subst γ) (fun x => a.hasVar x = true ∨ b.hasVar x = true)
      [(a, b)] [] := by
  refine ⟨fun γ => ?_, ?_, ?_, ?_, ?_, ?_⟩
  · simp [Unif, substOf_nil, Term.subst]
  · intro p hp; cases hp
  · intro p hp; cases hp
  · rintro x ⟨q, hq, hx⟩
    simp only [List.mem_singleton] at hq
    subst hq; exact hx
  · intro p hp; cases hp
  · rintro x ⟨p, hp, _⟩; cases hp

theorem solve_mgu_inv {n : Nat} {a b : Term} {θ : List (Nat × Term)}
    (h : Robinson.solve n [(a, b)] [] = .mgu θ) :
    Inv (fun γ => a.subst γ = b.subst γ) (fun x => a.hasVar x = true ∨ b.hasVar x = true) [] θ := by
  have := solve_good _ _ n _ _ (inv_init a b)
  rw [h] at this
  exact this

/-! ### the theorems -/

/-- soundness: the result unifies -/
theorem solve_mgu_sound {n : Nat} {a b : Term} {θ : List (Nat × Term)}
    (h : Robinson.solve n [(a, b)] [] = .mgu θ) : a.subst (substOf θ) = b.subst (substOf θ) := by
  have inv := solve_mgu_inv h
  exact (inv.sols (substOf θ)).2
    ⟨fun q hq => (by cases hq), fun w => (substOf_idem inv.freshR w).symm⟩

/-- soundness, in terms of what the oracle computes -/
theorem solve_mgu_sound_applySubst {n : Nat} {a b : Term} {θ : List (Nat × Term)}
    (h : Robinson.solve n [(a, b)] [] = .mgu θ) :
    Robinson.applySubst θ a = Robinson.applySubst θ b := by
  rw [applySubst_eq, applySubst_eq]; exact solve_mgu_sound h

/-- most general + idempotent: every unifier γ factors through it, γ = γ ∘ θ -/
theorem solve_mgu_general {n : Nat} {a b : Term} {θ : List (Nat × Term)}
    (h : Robinson.solve n [(a, b)] [] = .mgu θ) (γ : Subst) (hγ : a.subst γ = b.subst γ) :
    ∀ v, γ v = (substOf θ v).subst γ :=
  (((solve_mgu_inv h).sols γ).1 hγ).2

/-- idempotence of the computed substitution, stated on its own -/
theorem solve_mgu_idempotent {n : Nat} {a b : Term} {θ : List (Nat × Term)}
    (h : Robinson.solve n [(a, b)] [] = .mgu θ) :
    ∀ v, (substOf θ v).subst (substOf θ) = substOf θ v :=
  substOf_idem (solve_mgu_inv h).freshR

/-- no new variables: the range of the mgu only mentions variables of a and b; variables not in
    a, b are untouched -/
theorem solve_mgu_vars {n : Nat} {a b : Term} {θ : List (Nat × Term)}
    (h : Robinson.solve n [(a, b)] [] = .mgu θ) :
    (∀ v, a.hasVar v = false → b.hasVar v = false → substOf θ v = .var v) ∧
    (∀ v x, (substOf θ v).hasVar x = true → x = v ∨ a.hasVar x = true ∨ b.hasVar x = true) := by
  have inv := solve_mgu_inv h
  refine ⟨fun v ha hb => ?_, fun v x hx => ?_⟩
  · apply substOf_fresh
    intro p hp e
    have := inv.varsD p hp
    rw [e, ha, hb] at this
    rcases this with e | e <;> cases e
  · rcases substOf_cases inv.freshR v with ⟨h1, _⟩ | ⟨p, hp, _, h1⟩
    · rw [h1] at hx
      simp only [Term.hasVar, beq_iff_eq] at hx
      exact Or.inl hx.symm
    · rw [h1] at hx
      exact Or.inr (inv.varsR x ⟨p, hp, hx⟩)

/-- a clash means: not unifiable (in finite terms) -/
theorem solve_clash_no_unifier {n : Nat} {a b : Term}
    (h : Robinson.solve n [(a, b)] [] = .clash) : ¬ ∃ γ : Subst, a.subst γ = b.subst γ := by
  have := solve_good _ _ n _ _ (inv_init a b)
  rw [h] at this
  rintro ⟨γ, hγ⟩
  exact this γ hγ

/-- the occurs check fires only on non-unifiable inputs -/
theorem solve_occurs_no_unifier {n : Nat} {a b : Term}
    (h : Robinson.solve n [(a, b)] [] = .occurs) : ¬ ∃ γ : Subst, a.subst γ = b.subst γ := by
  have := solve_good _ _ n _ _ (inv_init a b)
  rw [h] at this
  rintro ⟨γ, hγ⟩
  exact this γ hγ

end PrologVerif.RefineRobinson
