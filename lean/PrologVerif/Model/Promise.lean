/-
  Model of engine/promise.go: `Promise`, `Force` (the trampoline), `child`, `popUntil`, `recover`.

  Go closures are data here: a promise holds thunks of type `τ` and an optional recovery handler of
  type `ρ`; what they do when called is given by a `Sem` (the VM model and the pure promise-tree
  model are two instances).  Pointer identity (`pop == p` in `popUntil`) is modelled by ids; id 0 is
  `dummyCutParent` (never on the stack).  The stack is a list, top first.

  Cancellation: `ctx.Done()` becomes ready at iteration `cancelAt` (iterations of all trampolines,
  nested ones included, are counted in `M.iter` in execution order).
-/
import PrologVerif.Basic
namespace PrologVerif.Promise

/-- `Promise` -/
structure P (τ ρ ε : Type) where
  id : Nat := 0
  delayed : List τ := []
  ok : Bool := false
  err : Option ε := none
  cutParent : Option Nat := none
  rep : Bool := false
  recover : Option ρ := none

/-- machine state: the user state (whatever thunks read and write) and the poll counter -/
structure M (σ : Type) where
  user : σ
  iter : Nat := 0

/-- what calling a thunk / a recovery function does.  `evalThunk` gets fuel because a thunk may run a
    nested trampoline (`\+`, `findall/3`); `none` = out of fuel. -/
structure Sem (τ ρ ε σ : Type) where
  evalThunk : Nat → τ → M σ → Option (P τ ρ ε × M σ)
  evalRecover : ρ → ε → M σ → Option (P τ ρ ε) × M σ

inductive Res (ε : Type) where
  | yes                 -- (true, nil)
  | no                  -- (false, nil): the stack ran empty
  | error (e : ε)       -- (false, err): unhandled error
  | cancelled           -- (false, ctx.Err())
  deriving Repr

variable {τ ρ ε σ : Type}

/-- `promiseStack.popUntil(p)`: pop down to and including the promise with id `c` -/
def popUntil (c : Nat) : List (P τ ρ ε) → List (P τ ρ ε)
  | [] => []
  | p :: rest => if p.id = c then rest else popUntil c rest

/-- the exhausted cut parent that `Force` pushes back as a marker -/
def marker (c : Nat) : P τ ρ ε := { id := c }

/-- the cut step of `Force`: `popUntil(cutParent)`, then (unless it is the dummy) the exhausted cut
    parent goes back on the stack so that a later cut of the same clause stops there too -/
def cutStack (c : Nat) (stack : List (P τ ρ ε)) : List (P τ ρ ε) :=
  if c = 0 then []   -- `dummyCutParent` is never on the stack: popUntil empties it; no marker is pushed
  else marker c :: popUntil c stack

/-- `promiseStack.recover(err)`: pop frames until one has a recovery function that returns a promise -/
def recoverStack (sem : Sem τ ρ ε σ) (e : ε) : List (P τ ρ ε) → M σ → Option (List (P τ ρ ε)) × M σ
  | [], m => (none, m)
  | p :: rest, m =>
    match p.recover with
    | none => recoverStack sem e rest m
    | some r =>
      match sem.evalRecover r e m with
      | (some q, m') => (some (q :: rest), m')
      | (none, m') => recoverStack sem e rest m'

/-- `Promise.child`: call the first thunk; drop it unless the promise repeats -/
def afterChild (p : P τ ρ ε) : P τ ρ ε :=
  if p.rep then p else { p with delayed := p.delayed.tail }

/-- is `ctx.Done()` ready at iteration `i`? -/
def isCancelled (cancelAt : Option Nat) (i : Nat) : Bool :=
  match cancelAt with
  | some c => decide (c ≤ i)
  | none => false

/-- `Force`.  One unit of fuel per loop iteration. -/
def force (sem : Sem τ ρ ε σ) (cancelAt : Option Nat) :
    Nat → List (P τ ρ ε) → M σ → Option (Res ε × M σ)
  | 0, _, _ => none
  | _ + 1, [], m => some (.no, m)
  | n + 1, p :: stack, m =>
    -- select { case <-ctx.Done(): … }
    if isCancelled cancelAt m.iter then some (.cancelled, m)
    else
      let m := { m with iter := m.iter + 1 }
      match p.delayed with
      | [] =>
        match p.err with
        | some e =>
          match recoverStack sem e stack m with
          | (none, m') => some (.error e, m')
          | (some stack', m') => force sem cancelAt n stack' m'
        | none => if p.ok then some (.yes, m) else force sem cancelAt n stack m
      | t :: _ =>
        -- If cut, we eliminate other possibilities.
        let stack1 := match p.cutParent with
          | some c => cutStack c stack
          | none => stack
        let p1 := { p with cutParent := none }
        match sem.evalThunk n t m with
        | none => none
        | some (q, m') => force sem cancelAt n (q :: afterChild p1 :: stack1) m'

end PrologVerif.Promise
