/-
  vm_well_scoped, part 1 — `St.nextId` only grows: every function of the execution core, every
  thunk, every recovery closure and every run of a (nested) trampoline leaves `nextId` at least
  where it was.  Unconditional (no invariant needed).
-/
import PrologVerif.Proofs.VMScopedDefs
namespace PrologVerif.VMScoped
open PrologVerif PrologVerif.VM PrologVerif.Promise PrologVerif.DFSG

theorem MonoR_none {nid : Nat} : MonoR nid none := fun _ _ h => by cases h

theorem MonoR_some {nid : Nat} {p : Pr} {m : MS} (h : nid ≤ m.user.nextId) : MonoR nid (some (p, m)) := by
  intro p' m' e; cases e; exact h

theorem MonoR_pair {nid : Nat} {r : Pr × MS} (h : nid ≤ r.2.user.nextId) : MonoR nid (some r) := by
  intro p' m' e; cases e; exact h

theorem MonoR_le {nid nid' : Nat} {r : Option (Pr × MS)} (hle : nid ≤ nid') (h : MonoR nid' r) : MonoR nid r :=
  fun p m' e => Nat.le_trans hle (h p m' e)

theorem Mono2_none {nid : Nat} : Mono2 nid none := fun _ _ h => by cases h
theorem Mono2_some_none {nid : Nat} : Mono2 nid (some none) := fun _ _ h => by cases h

theorem Mono2_some {nid : Nat} {r : Option (Pr × MS)} (h : MonoR nid r) : Mono2 nid (some r) := by
  intro p m' e; cases e; exact h p m' rfl

theorem Mono2_pair {nid : Nat} {r : Pr × MS} (h : nid ≤ r.2.user.nextId) : Mono2 nid (some (some r)) :=
  Mono2_some (MonoR_pair h)

theorem mkErr_nextId (formal : Term) (env : Env) (m : MS) : (mkErr formal env m).2.user.nextId = m.user.nextId := rfl

theorem clausesCall_nextId (cs : List Clause) (args : List Term) (k : Cont) (env : Env) (m : MS) :
    (clausesCall cs args k env m).2.user.nextId = m.user.nextId + 1 := rfl

theorem appendLists_nextId (xs ys zs : Term) (k : Cont) (env : Env) (m : MS) :
    (appendLists xs ys zs k env m).2.user.nextId = m.user.nextId + 1 := by
  unfold appendLists; rfl

theorem callGoal_mono (goal : Term) (k : Cont) (env : Env) (m : MS) :
    m.user.nextId ≤ (callGoal goal k env m).2.user.nextId := by
  unfold callGoal
  split
  · exact Nat.le_of_eq (mkErr_nextId _ _ _).symm
  · split
    · rw [clausesCall_nextId]; omega
    · exact Nat.le_of_eq (mkErr_nextId _ _ _).symm

theorem evalRecover_mono (h : Handler) (e : Err) (m : MS) :
    m.user.nextId ≤ (VM.evalRecover h e m).2.user.nextId := by
  unfold VM.evalRecover
  split
  · simp only []
    split
    · exact callGoal_mono _ _ _ _
    · exact Nat.le_refl _
  · exact Nat.le_refl _

/-! ### the trampoline -/

/-- what `force` needs of the closures it calls -/
structure SemMonoId (sem : Sem Thunk Handler Err St) : Prop where
  thunk : ∀ f t (m : MS), MonoR m.user.nextId (sem.evalThunk f t m)
  recover : ∀ h e (m : MS), m.user.nextId ≤ (sem.evalRecover h e m).2.user.nextId

theorem recoverStack_mono (sem : Sem Thunk Handler Err St) (hsem : SemMonoId sem) (e : Err) :
    ∀ (stack : List Pr) (m : MS), m.user.nextId ≤ (recoverStack sem e stack m).2.user.nextId
  | [], m => Nat.le_refl _
  | p :: rest, m => by
    unfold recoverStack
    split
    · exact recoverStack_mono sem hsem e rest m
    · rename_i r hr
      have h1 := hsem.recover r e m
      split
      · rename_i q m' heq
        rw [heq] at h1; exact h1
      · rename_i m' heq
        rw [heq] at h1
        exact Nat.le_trans h1 (recoverStack_mono sem hsem e rest m')

theorem force_mono (sem : Sem Thunk Handler Err St) (hsem : SemMonoId sem) (cancelAt : Option Nat) :
    ∀ (n : Nat) (stack : List Pr) (m : MS) (r : Promise.Res Err) (m' : MS),
      force sem cancelAt n stack m = some (r, m') → m.user.nextId ≤ m'.user.nextId
  | 0, _, _, _, _, h => by simp [force] at h
  | n + 1, [], m, r, m', h => by
    simp only [force, Option.some.injEq, Prod.mk.injEq] at h
    obtain ⟨_, rfl⟩ := h
    exact Nat.le_refl _
  | n + 1, p :: stack, m, r, m', h => by
    simp only [force] at h
    split at h
    · simp only [Option.some.injEq, Prod.mk.injEq] at h
      obtain ⟨_, rfl⟩ := h
      exact Nat.le_refl _
    · split at h
      · split at h
        · rename_i e he
          have h1 := recoverStack_mono sem hsem e stack { m with iter := m.iter + 1 }
          split at h
          · rename_i m1 heq
            simp only [Option.some.injEq, Prod.mk.injEq] at h
            obtain ⟨_, rfl⟩ := h
            rw [heq] at h1; exact h1
          · rename_i st m1 heq
            rw [heq] at h1
            exact Nat.le_trans h1 (force_mono sem hsem cancelAt n st m1 r m' h)
        · split at h
          · simp only [Option.some.injEq, Prod.mk.injEq] at h
            obtain ⟨_, rfl⟩ := h
            exact Nat.le_refl _
          · exact force_mono sem hsem cancelAt n stack { m with iter := m.iter + 1 } r m' h
      · rename_i t ts hd
        split at h
        · cases h
        · rename_i q m1 heq
          have h1 := hsem.thunk n t _ q m1 heq
          exact Nat.le_trans h1 (force_mono sem hsem cancelAt n _ m1 r m' h)

/-! ### the execution core, by induction on the fuel -/

/-- the induction hypothesis: every function of the mutual block (and `evalThunk`) at fuel `n` -/
structure StepMono (n : Nat) : Prop where
  exec : ∀ pc vars k args astack env cp (m : MS), MonoR m.user.nextId (exec n pc vars k args astack env cp m)
  applyCont : ∀ k env (m : MS), MonoR m.user.nextId (applyCont n k env m)
  arrive : ∀ f args k env (m : MS), MonoR m.user.nextId (arrive n f args k env m)
  builtin : ∀ f args k env (m : MS), Mono2 m.user.nextId (builtin n f args k env m)
  evalThunk : ∀ t (m : MS), MonoR m.user.nextId (evalThunk n t m)

theorem exec_mono_succ {n : Nat} (ih : StepMono n) : ∀ pc vars k args astack env cp (m : MS),
    MonoR m.user.nextId (exec (n + 1) pc vars k args astack env cp m) := by
  intro pc vars k args astack env cp m
  cases pc with
  | nil => simp only [exec]; exact MonoR_some (Nat.le_refl _)
  | cons op pc =>
    cases op with
    | getConst c =>
      cases args with
      | nil => simp only [exec]; exact MonoR_some (Nat.le_refl _)
      | cons a rest =>
        simp only [exec]
        split
        · exact ih.exec _ _ _ _ _ _ _ _
        · exact MonoR_some (Nat.le_refl _)
        · exact MonoR_none
    | putConst c => simp only [exec]; exact ih.exec _ _ _ _ _ _ _ _
    | getVar i =>
      rw [exec.eq_def]
      simp only []
      split
      · split
        · exact ih.exec _ _ _ _ _ _ _ _
        · exact MonoR_some (Nat.le_refl _)
        · exact MonoR_none
      · exact MonoR_some (Nat.le_refl _)
    | putVar i =>
      rw [exec.eq_def]
      simp only []
      split
      · exact ih.exec _ _ _ _ _ _ _ _
      · exact MonoR_some (Nat.le_refl _)
    | getFunctor f ar =>
      cases args with
      | nil => simp only [exec]; exact MonoR_some (Nat.le_refl _)
      | cons a rest =>
        simp only [exec, freshVars]
        split
        · exact ih.exec _ _ _ _ _ _ _ _
        · exact MonoR_some (Nat.le_refl _)
        · exact MonoR_none
    | putFunctor f ar => simp only [exec]; exact ih.exec _ _ _ _ _ _ _ _
    | pop =>
      cases astack with
      | nil => simp only [exec]; exact MonoR_some (Nat.le_refl _)
      | cons fr as' =>
        cases fr with
        | get rest => simp only [exec]; exact ih.exec _ _ _ _ _ _ _ _
        | put outer c => simp only [exec]; exact ih.exec _ _ _ _ _ _ _ _
    | enter => simp only [exec]; exact ih.exec _ _ _ _ _ _ _ _
    | call f ar => simp only [exec]; exact ih.arrive _ _ _ _ _
    | exit => simp only [exec]; exact ih.applyCont _ _ _
    | cut => simp only [exec]; exact MonoR_some (Nat.le_refl _)
    | getList l =>
      cases args with
      | nil => simp only [exec]; exact MonoR_some (Nat.le_refl _)
      | cons a rest =>
        simp only [exec, freshVars]
        split
        · exact ih.exec _ _ _ _ _ _ _ _
        · exact MonoR_some (Nat.le_refl _)
        · exact MonoR_none
    | putList l => simp only [exec]; exact ih.exec _ _ _ _ _ _ _ _
    | getPartial l =>
      cases args with
      | nil => simp only [exec]; exact MonoR_some (Nat.le_refl _)
      | cons a rest =>
        simp only [exec, freshVars]
        split
        · exact ih.exec _ _ _ _ _ _ _ _
        · exact MonoR_some (Nat.le_refl _)
        · exact MonoR_none
    | putPartial l => simp only [exec]; exact ih.exec _ _ _ _ _ _ _ _
    | unsupported w => simp only [exec]; exact MonoR_some (Nat.le_refl _)

theorem applyCont_mono_succ {n : Nat} (ih : StepMono n) : ∀ k env (m : MS),
    MonoR m.user.nextId (applyCont (n + 1) k env m) := by
  intro k env m
  cases k with
  | done => simp only [applyCont]; exact MonoR_some (Nat.le_refl _)
  | exec pc vars cp k => simp only [applyCont]; exact ih.exec _ _ _ _ _ _ _ _
  | collect t mx => simp only [applyCont]; exact MonoR_some (Nat.le_refl _)
  | findallK t s => simp only [applyCont]; exact MonoR_some (Nat.le_refl _)
  | catchExit f k => simp only [applyCont]; exact MonoR_some (Nat.le_succ _)

theorem arrive_mono_succ {n : Nat} (ih : StepMono n) : ∀ f args k env (m : MS),
    MonoR m.user.nextId (arrive (n + 1) f args k env m) := by
  intro f args k env m
  simp only [arrive]
  split
  · rename_i r hr
    intro p m' e
    subst e
    exact ih.builtin _ _ _ _ _ p m' hr
  · split
    · exact MonoR_pair (by rw [clausesCall_nextId]; omega)
    · exact MonoR_pair (Nat.le_of_eq (mkErr_nextId _ _ _).symm)

theorem assertClause_mono {n : Nat} (ihc : ∀ k env (m : MS), MonoR m.user.nextId (applyCont n k env m))
    (front : Bool) (t : Term) (k : Cont) (env : Env) (m : MS) :
    m.user.nextId ≤ (assertClause front t k env m n).2.user.nextId := by
  unfold assertClause
  simp only []
  split
  · exact Nat.le_refl _
  · exact Nat.le_refl _
  · exact Nat.le_refl _
  · exact Nat.le_refl _
  · split
    · exact Nat.le_refl _
    · split
      · exact Nat.le_refl _
      · split
        · rename_i r hr
          have := ihc k env _ r.1 r.2 hr
          exact this
        · exact Nat.le_refl _

local macro "leafm" : tactic => `(tactic| first
  | exact Mono2_none
  | exact Mono2_some_none
  | exact Mono2_pair (callGoal_mono _ _ _ _)
  | exact Mono2_pair (Nat.le_refl _)
  | exact Mono2_pair (Nat.le_succ _)
  | exact Mono2_pair (Nat.le_of_eq (mkErr_nextId _ _ _).symm)
  | exact Mono2_pair (Nat.le_of_lt (Nat.lt_of_lt_of_eq (Nat.lt_succ_self _) (appendLists_nextId _ _ _ _ _ _).symm))
  | exact Mono2_pair (assertClause_mono (StepMono.applyCont ‹StepMono _›) _ _ _ _ _)
  | exact Mono2_some (StepMono.applyCont ‹StepMono _› _ _ _))

attribute [local irreducible] callGoal mkErr appendLists in
theorem builtin_mono_succ {n : Nat} (ih : StepMono n) : ∀ f args k env (m : MS),
    Mono2 m.user.nextId (builtin (n + 1) f args k env m) := by
  intro f args k env m
  rw [builtin.eq_def]
  simp only []
  split
  all_goals (repeat' (first | leafm | split))

theorem semMonoId_of {n : Nat} (ih : StepMono n) : SemMonoId ⟨fun _ t m => evalThunk n t m, VM.evalRecover⟩ :=
  ⟨fun _ t m => ih.evalThunk t m, fun h e m => evalRecover_mono h e m⟩

theorem evalThunk_mono_succ {n : Nat} (ih : StepMono n) : ∀ t (m : MS),
    MonoR m.user.nextId (evalThunk (n + 1) t m) := by
  intro t m
  cases t with
  | clause c args k env parent =>
    simp only [evalThunk, freshVars]
    exact ih.exec _ _ _ _ _ _ _ _
  | afterCut pc vars k args astack env cp =>
    simp only [evalThunk]
    exact ih.exec _ _ _ _ _ _ _ _
  | contK k env =>
    simp only [evalThunk]
    exact ih.applyCont _ _ _
  | exitAlt f b k env =>
    cases k with
    | some k => simp only [evalThunk]; exact ih.applyCont _ _ _
    | none => simp only [evalThunk]; exact MonoR_some (Nat.le_refl _)
  | negate g k env =>
    simp only [evalThunk]
    have h0 := callGoal_mono g .done env m
    split
    · exact MonoR_none
    · rename_i m' hf
      exact MonoR_some (Nat.le_trans h0 (force_mono _ (semMonoId_of ih) _ _ _ _ _ _ hf))
    · rename_i m' hf
      exact MonoR_le (Nat.le_trans h0 (force_mono _ (semMonoId_of ih) _ _ _ _ _ _ hf)) (ih.applyCont _ _ _)
    · rename_i e m' hf
      exact MonoR_some (Nat.le_trans h0 (force_mono _ (semMonoId_of ih) _ _ _ _ _ _ hf))
    · rename_i m' hf
      exact MonoR_some (Nat.le_trans h0 (force_mono _ (semMonoId_of ih) _ _ _ _ _ _ hf))
  | findall t g i k env =>
    simp only [evalThunk]
    have h0 : m.user.nextId ≤ (callGoal g (.findallK t (freshId m).1) env (freshId m).2).2.user.nextId :=
      Nat.le_trans (Nat.le_succ _) (callGoal_mono g _ env (freshId m).2)
    split
    · exact MonoR_none
    · rename_i e m' hf
      exact MonoR_some (Nat.le_trans h0 (force_mono _ (semMonoId_of ih) _ _ _ _ _ _ hf))
    · rename_i m' hf
      exact MonoR_some (Nat.le_trans h0 (force_mono _ (semMonoId_of ih) _ _ _ _ _ _ hf))
    · rename_i r m' _ _ hf
      have h2 := Nat.le_trans h0 (force_mono _ (semMonoId_of ih) _ _ _ _ _ _ hf)
      split
      · exact MonoR_le h2 (ih.applyCont _ _ _)
      · exact MonoR_some h2
      · exact MonoR_none
  | catchBody g f k env =>
    simp only [evalThunk]
    exact MonoR_pair (callGoal_mono _ _ _ _)
  | unifyK x y k env =>
    simp only [evalThunk]
    split
    · exact ih.applyCont _ _ _
    · exact MonoR_some (Nat.le_refl _)
    · exact MonoR_none
  | betweenNext l u v k env =>
    simp only [evalThunk]
    split
    · rename_i r hr
      intro p m' e
      cases e
      exact ih.builtin _ _ _ _ _ p m' hr
    · exact MonoR_none
  | appendRec x y z k env =>
    simp only [evalThunk, freshVars]
    split
    · split
      · exact MonoR_pair (by rw [appendLists_nextId]; exact Nat.le_succ _)
      · exact MonoR_some (Nat.le_refl _)
      · exact MonoR_none
    · exact MonoR_none

theorem stepMono_zero : StepMono 0 where
  exec := by intros; simp only [exec]; exact MonoR_none
  applyCont := by intros; simp only [applyCont]; exact MonoR_none
  arrive := by intros; simp only [arrive]; exact MonoR_none
  builtin := by intros; simp only [builtin]; exact Mono2_some_none
  evalThunk := by intros; simp only [evalThunk]; exact MonoR_none

theorem stepMono : ∀ n, StepMono n
  | 0 => stepMono_zero
  | n + 1 =>
    have ih := stepMono n
    ⟨exec_mono_succ ih, applyCont_mono_succ ih, arrive_mono_succ ih, builtin_mono_succ ih, evalThunk_mono_succ ih⟩

/-- the closures `force` calls in `runQuery` (and in the nested trampolines) only draw fresh ids -/
theorem semMonoId (fuel : Nat) : SemMonoId (sem fuel) := semMonoId_of (stepMono fuel)

end PrologVerif.VMScoped
