package main

// C17: DCG translation.
//
//   c17.expand  one term (mostly a grammar rule, well-formed or not) -> expand_term/2, the raw
//               expandDCG, the translation phrase/3 applies (dcgBody), and the goals the compiler's
//               iterators split the translated body into.
//   c17.lang    a grammar (rules + start body) -> the answers of phrase/2,3 for EVERY input list up
//               to a length bound over the alphabet {x,y,z}, and in generation mode.

import (
	"context"
	"errors"
	"fmt"
	"math/rand"
	"regexp"
	"strconv"
	"strings"
	"time"

	"github.com/ichiban/prolog/engine"
)

func init() {
	register(&stream{name: "c17.expand", gen: genC17Expand, run: runC17Expand})
	register(&stream{name: "c17.lang", gen: genC17Lang, run: runC17Lang})
}

var c17Alphabet = []string{"x", "y", "z"}

// ---------------------------------------------------------------------------------------------
// grammar bodies as a tree (generator side)
// ---------------------------------------------------------------------------------------------

type gb struct {
	kind string // eps terms nt seq alt bar ite ifthen block not cut call1 phrase var raw
	ts   []engine.Term
	name string
	kids []*gb
	g    engine.Term
}

func (b *gb) term() engine.Term {
	switch b.kind {
	case "eps":
		return atom("[]")
	case "terms":
		return engine.List(b.ts...)
	case "nt":
		if len(b.ts) == 0 {
			return atom(b.name)
		}
		return compound(b.name, b.ts...)
	case "seq":
		return compound(",", b.kids[0].term(), b.kids[1].term())
	case "alt":
		return compound(";", b.kids[0].term(), b.kids[1].term())
	case "bar":
		return compound("|", b.kids[0].term(), b.kids[1].term())
	case "ite":
		return compound(";", compound("->", b.kids[0].term(), b.kids[1].term()), b.kids[2].term())
	case "ifthen":
		return compound("->", b.kids[0].term(), b.kids[1].term())
	case "block":
		return compound("{}", b.g)
	case "not":
		return compound("\\+", b.kids[0].term())
	case "cut":
		return atom("!")
	case "call1":
		return compound("call", b.g)
	case "phrase":
		return compound("phrase", b.g)
	case "var", "raw":
		return b.g
	}
	panic("gb.term: " + b.kind)
}

func seqOf(bs ...*gb) *gb {
	if len(bs) == 1 {
		return bs[0]
	}
	return &gb{kind: "seq", kids: []*gb{bs[0], seqOf(bs[1:]...)}}
}

// ---------------------------------------------------------------------------------------------
// c17.expand
// ---------------------------------------------------------------------------------------------

type c17x struct {
	r    *rand.Rand
	vars []engine.Variable
}

func (g *c17x) v() engine.Term {
	if len(g.vars) > 0 && g.r.Intn(2) == 0 {
		return pick(g.r, g.vars)
	}
	v := engine.NewVariable()
	g.vars = append(g.vars, v)
	return v
}

func (g *c17x) arg(d int) engine.Term {
	switch k := g.r.Intn(10); {
	case k < 3:
		return g.v()
	case k < 6:
		return atom(pick(g.r, []string{"p", "q", "x", "[]"}))
	case k < 7:
		return engine.Integer(g.r.Intn(3))
	case k < 8 && d > 0:
		return compound("f", g.arg(d-1))
	case k < 9 && d > 0:
		return engine.List(g.arg(d-1), g.arg(d-1))
	default:
		return atom("a")
	}
}

func (g *c17x) terminalList(malformed bool) engine.Term {
	n := 1 + g.r.Intn(3)
	ts := make([]engine.Term, n)
	for i := range ts {
		switch g.r.Intn(8) {
		case 0:
			ts[i] = g.v()
		case 1:
			ts[i] = compound("t", g.arg(1))
		case 2:
			ts[i] = engine.Integer(g.r.Intn(10))
		default:
			ts[i] = atom(pick(g.r, c17Alphabet))
		}
	}
	if malformed {
		switch g.r.Intn(3) {
		case 0:
			return engine.PartialList(g.v(), ts...)
		case 1:
			return engine.PartialList(atom("tail"), ts...)
		default:
			return engine.PartialList(engine.Integer(1), ts...)
		}
	}
	return engine.List(ts...)
}

func (g *c17x) nonTerminal() engine.Term {
	name := pick(g.r, []string{"a", "b", "c", "nt", "call", "phrase", "foo"})
	n := g.r.Intn(4)
	if g.r.Intn(6) == 0 { // many arguments (the interesting capacities of Go slices: 4..6, 9..14)
		n = 4 + g.r.Intn(11)
	}
	if n == 0 {
		return atom(pick(g.r, []string{"a", "b", "c", "nt", "foo"}))
	}
	as := make([]engine.Term, n)
	for i := range as {
		as[i] = g.arg(2)
	}
	return compound(name, as...)
}

// body generates a grammar body term; bad > 0: probability (in 1/bad) of a malformed leaf.
func (g *c17x) body(d int, bad int) engine.Term {
	leaf := d <= 0 || g.r.Intn(4) == 0
	if leaf {
		if bad > 0 && g.r.Intn(bad) == 0 {
			switch g.r.Intn(4) {
			case 0:
				return engine.Integer(g.r.Intn(5))
			case 1:
				return g.terminalList(true)
			case 2:
				return engine.Float(1.5)
			default:
				return compound(".", atom("x"))
			}
		}
		switch k := g.r.Intn(16); {
		case k < 4:
			return g.terminalList(false)
		case k < 7:
			return g.nonTerminal()
		case k < 8:
			return atom("[]")
		case k < 10:
			return atom("!")
		case k < 11:
			return g.v()
		case k < 12:
			return compound("{}", g.blockGoal())
		case k < 13:
			return compound("call", g.arg(1))
		case k < 14:
			return compound("phrase", g.body(d-1, bad))
		case k < 15:
			return engine.CharList(pick(g.r, []string{"xy", "z", "xyz", "yx", "xé", "éx", "yéx", "日本x"}))
		default:
			return compound("call", atom("foo"), g.arg(1))
		}
	}
	switch k := g.r.Intn(14); {
	case k < 5:
		return compound(",", g.body(d-1, bad), g.body(d-1, bad))
	case k < 7:
		return compound(";", g.body(d-1, bad), g.body(d-1, bad))
	case k < 8:
		return compound("|", g.body(d-1, bad), g.body(d-1, bad))
	case k < 10:
		return compound(";", compound("->", g.body(d-1, bad), g.body(d-1, bad)), g.body(d-1, bad))
	case k < 11:
		return compound("->", g.body(d-1, bad), g.body(d-1, bad))
	case k < 12:
		return compound("|", compound("->", g.body(d-1, bad), g.body(d-1, bad)), g.body(d-1, bad))
	default:
		return compound("\\+", g.body(d-1, bad))
	}
}

func (g *c17x) blockGoal() engine.Term {
	switch g.r.Intn(5) {
	case 0:
		return atom("true")
	case 1:
		return atom("!")
	case 2:
		return compound(",", compound("=", g.v(), g.arg(1)), atom("!"))
	case 3:
		return g.v()
	default:
		return compound("=", g.v(), g.arg(1))
	}
}

func genC17Expand(r *rand.Rand, n int, tier string) []string {
	var out []string
	for i := 0; i < n; i++ {
		g := &c17x{r: r}
		var t engine.Term
		switch k := r.Intn(20); {
		case k < 12: // well-formed rule
			t = compound("-->", g.nonTerminal(), g.body(1+r.Intn(4), 0))
		case k < 14: // push-back
			t = compound("-->", compound(",", g.nonTerminal(), g.terminalList(false)), g.body(1+r.Intn(3), 0))
		case k < 16: // rule with a malformed part somewhere
			t = compound("-->", g.nonTerminal(), g.body(1+r.Intn(3), 3))
		case k < 17: // malformed head / push-back
			switch r.Intn(5) {
			case 0:
				t = compound("-->", g.v(), g.body(2, 0))
			case 1:
				t = compound("-->", engine.Integer(3), g.body(2, 0))
			case 2:
				t = compound("-->", compound(",", g.nonTerminal(), g.terminalList(true)), g.body(2, 0))
			case 3:
				t = compound("-->", compound(",", g.v(), g.terminalList(false)), g.body(2, 0))
			default:
				t = compound("-->", compound(",", g.nonTerminal(), atom("[]")), g.body(2, 0))
			}
		case k < 18: // left-nested conjunctions (the shape the compiler has to flatten)
			t = compound("-->", g.nonTerminal(), compound(",", compound(",", g.body(1, 0), g.body(1, 0)), g.body(1, 0)))
		default: // not a rule
			switch r.Intn(5) {
			case 0:
				t = atom("foo")
			case 1:
				t = compound(":-", g.nonTerminal(), g.nonTerminal())
			case 2:
				t = g.v()
			case 3:
				t = compound("-->", g.nonTerminal())
			default:
				t = compound("-->", g.nonTerminal(), g.nonTerminal(), g.nonTerminal())
			}
		}
		out = append(out, wire(t, nil, newVarNamer()))
	}
	return out
}

func c17Err(err error) string {
	var ex engine.Exception
	if errors.As(err, &ex) {
		return errWire(err)
	}
	if strings.Contains(err.Error(), "not applicable") {
		return "n/a"
	}
	return "goerr " + encName(err.Error())
}

func runC17Expand(payload string) string {
	d := newTermDecoder()
	ts, err := d.terms(payload)
	must(err)
	t := ts[0]
	// every second case (drawn from the payload) hands proper lists of >= 2 one-character atoms over as the
	// Go representation of a double-quoted string: the abstract term - and so the translation - is the same
	if len(payload)%2 == 0 {
		t = c17Strings(t)
	}
	i, _ := newInterp("")
	var res []string

	// 1. expand_term/2 on the real interpreter
	x := engine.NewVariable()
	rows, err := solveAll(&i.VM, compound("expand_term", t, x), compound("p", t, x), 4)
	if err != nil {
		res = append(res, "exp "+errWire(err))
	} else {
		res = append(res, "exp "+strings.Join(rows, " | "))
	}

	// 2. expandDCG itself (its errors are swallowed by expand_term/2)
	isRule := 0
	clause, err := engine.VerifExpandDCG(t, nil)
	if err != nil {
		res = append(res, "dcg "+c17Err(err))
	} else {
		isRule = 1
		res = append(res, "dcg "+wire(compound("p", t, clause), nil, newVarNamer()))
	}

	// 3. the translation phrase/3 applies to the body, with fresh S0, S
	kind := "notrule"
	if c, ok := t.(engine.Compound); ok && c.Functor().String() == "-->" && c.Arity() == 2 {
		kind = "rule"
		s0, s := engine.NewVariable(), engine.NewVariable()
		goal, err := engine.VerifDCGBody(c.Arg(1), s0, s, nil)
		if err != nil {
			res = append(res, "body "+c17Err(err))
		} else {
			res = append(res, "body "+wire(compound("p", c.Arg(1), s0, s, goal), nil, newVarNamer()))
		}
	} else {
		res = append(res, "body -")
	}

	// 5 (printed last). phrase/3 itself when the body is (still) a variable
	phr := "phr -"
	if c, ok := t.(engine.Compound); ok && c.Functor().String() == "-->" && c.Arity() == 2 {
		if v, ok := c.Arg(1).(engine.Variable); ok {
			phr = "phr " + solveOnce(&i.VM, compound("phrase", v, engine.NewVariable(), engine.NewVariable()))
		}
	}

	// 4. what the compiler's iterators make of the translated clause body
	cuts := 0
	if clause != nil {
		body := clause.(engine.Compound).Arg(1)
		var alts []engine.Term
		for _, a := range engine.VerifAltItems(body, nil) {
			items := engine.VerifSeqItems(a, nil)
			for _, it := range items {
				if at, ok := it.(engine.Atom); ok && at.String() == "!" {
					cuts++
				}
			}
			alts = append(alts, engine.List(items...))
		}
		res = append(res, "items "+wire(compound("p", t, engine.List(alts...)), nil, newVarNamer()))
	} else {
		res = append(res, "items -")
	}
	res = append(res, phr)
	nt := 0
	pl := " " + payload + " "
	if isRule == 1 && (strings.Contains(pl, " A! ") || strings.Contains(pl, " C1:\\+ ") || strings.Contains(pl, " C2:-> ") || strings.HasPrefix(payload, "C2:--> C2:%2c ")) {
		nt = 1
	}
	return strings.Join(res, " ; ") + fmt.Sprintf(" ### nt=%d kind=%s ok=%d inline_cuts=%d", nt, kind, isRule, minInt_c17(cuts, 3))
}

// ---------------------------------------------------------------------------------------------
// c17.lang: generator of terminating grammars
// ---------------------------------------------------------------------------------------------

type c17nt struct {
	name    string
	arity   int
	bodyArg bool // argument 0 is used as a body by the rules
	minC    int  // lower bound of the net consumption (terminals consumed - pushed back); always >= 0
	done    bool
}

type c17g struct {
	r         *rand.Rand
	nts       []*c17nt
	recursive bool
	feat      map[string]bool
	// per rule
	level int
	vars  []engine.Variable
	bodyV engine.Term // the body parameter of the current rule, if any
}

func minInt_c17(a, b int) int {
	if a < b {
		return a
	}
	return b
}

func (g *c17g) newVar() engine.Variable {
	v := engine.NewVariable()
	g.vars = append(g.vars, v)
	return v
}

func (g *c17g) someVar() engine.Term {
	if len(g.vars) > 0 && g.r.Intn(3) != 0 {
		return pick(g.r, g.vars)
	}
	return g.newVar()
}

// minC: lower bound of the number of input elements a body consumes.
func (g *c17g) minC(b *gb) int {
	switch b.kind {
	case "terms":
		return len(b.ts)
	case "nt":
		for _, n := range g.nts {
			if n.name == b.name && n.done {
				return n.minC
			}
		}
		return 0
	case "seq":
		return g.minC(b.kids[0]) + g.minC(b.kids[1])
	case "alt", "bar":
		return minInt_c17(g.minC(b.kids[0]), g.minC(b.kids[1]))
	case "ite":
		return minInt_c17(g.minC(b.kids[0])+g.minC(b.kids[1]), g.minC(b.kids[2]))
	case "ifthen":
		return g.minC(b.kids[0]) + g.minC(b.kids[1])
	}
	return 0
}

// closed body terms that may be passed around as data (no non-terminals: always terminating)
func (g *c17g) dataBody() engine.Term {
	t := func() engine.Term { return engine.List(atom(pick(g.r, c17Alphabet))) }
	switch g.r.Intn(8) {
	case 0:
		return atom("[]")
	case 1:
		return compound(";", t(), t())
	case 2:
		return compound(",", t(), t())
	case 3:
		g.feat["cut"] = true
		return compound(",", t(), atom("!"))
	case 4:
		g.feat["not"] = true
		return compound("\\+", t())
	case 5:
		g.feat["cut"] = true
		return compound(";", compound(",", t(), atom("!")), t())
	default:
		return t()
	}
}

// args for a call of nt n; every variable at most once per argument list (no cyclic bindings)
func (g *c17g) callArgs(n *c17nt, k int) []engine.Term {
	as := make([]engine.Term, k)
	used := map[engine.Variable]bool{}
	for i := range as {
		if i == 0 && n.bodyArg {
			as[i] = g.dataBody()
			continue
		}
		switch c := g.r.Intn(8); {
		case c < 3:
			as[i] = atom(pick(g.r, []string{"p", "q"}))
		case c < 4:
			as[i] = compound("f", atom(pick(g.r, []string{"p", "q"})))
		default:
			v := g.someVar().(engine.Variable)
			if used[v] {
				v = g.newVar()
			}
			used[v] = true
			if c == 7 {
				as[i] = compound("f", v)
			} else {
				as[i] = v
			}
		}
	}
	return as
}

// callee picks a non-terminal that may be called at this point: a higher level one, or (after at
// least one consumed terminal on this path) any.
func (g *c17g) callee(consumed int) *c17nt {
	var cands []*c17nt
	for i, n := range g.nts {
		if i > g.level {
			cands = append(cands, n)
		}
	}
	if consumed >= 1 && g.level >= 0 && g.r.Intn(3) == 0 {
		n := g.nts[g.r.Intn(g.level+1)]
		g.recursive = true
		g.feat["rec"] = true
		return n
	}
	if len(cands) == 0 {
		return nil
	}
	return pick(g.r, cands)
}

func (g *c17g) terminals() *gb {
	n := 1
	if g.r.Intn(4) == 0 {
		n = 2
	}
	ts := make([]engine.Term, n)
	for i := range ts {
		if g.r.Intn(7) == 0 {
			ts[i] = g.someVar()
			g.feat["tvar"] = true
		} else {
			ts[i] = atom(pick(g.r, c17Alphabet))
		}
	}
	return &gb{kind: "terms", ts: ts}
}

func (g *c17g) blockGoal() engine.Term {
	val := func() engine.Term {
		if g.r.Intn(4) == 0 {
			return compound("f", atom(pick(g.r, []string{"p", "q"})))
		}
		return atom(pick(g.r, []string{"p", "q", "x", "y"}))
	}
	switch g.r.Intn(10) {
	case 0:
		return atom("true")
	case 1:
		return atom("fail")
	case 2:
		g.feat["cut"] = true
		g.feat["blockcut"] = true
		return atom("!")
	case 3:
		return compound("==", g.someVar(), val())
	case 4:
		return compound("\\==", g.someVar(), val())
	case 5:
		return compound("\\=", g.someVar(), val())
	case 6:
		g.feat["cut"] = true
		g.feat["blockcut"] = true
		return compound(",", compound("=", g.someVar(), val()), atom("!"))
	default:
		return compound("=", g.someVar(), val())
	}
}

func (g *c17g) body(d int, consumed int) *gb {
	if d <= 0 || g.r.Intn(5) == 0 {
		return g.leaf(consumed)
	}
	switch k := g.r.Intn(20); {
	case k < 8:
		a := g.body(d-1, consumed)
		b := g.body(d-1, consumed+g.minC(a))
		return &gb{kind: "seq", kids: []*gb{a, b}}
	case k < 11:
		return &gb{kind: "alt", kids: []*gb{g.body(d-1, consumed), g.body(d-1, consumed)}}
	case k < 12:
		g.feat["bar"] = true
		return &gb{kind: "bar", kids: []*gb{g.body(d-1, consumed), g.body(d-1, consumed)}}
	case k < 14:
		g.feat["ite"] = true
		c := g.body(d-1, consumed)
		t := g.body(d-1, consumed+g.minC(c))
		e := g.body(d-1, consumed)
		return &gb{kind: "ite", kids: []*gb{c, t, e}}
	case k < 15:
		g.feat["ite"] = true
		c := g.body(d-1, consumed)
		t := g.body(d-1, consumed+g.minC(c))
		return &gb{kind: "ifthen", kids: []*gb{c, t}}
	case k < 17:
		g.feat["not"] = true
		return &gb{kind: "not", kids: []*gb{g.body(d-1, consumed)}}
	case k < 18: // ( …, ! ; … ): a cut inside the branch of an alternation
		g.feat["cut"] = true
		a := g.body(d-1, consumed)
		return &gb{kind: "alt", kids: []*gb{seqOf(a, &gb{kind: "cut"}), g.body(d-1, consumed)}}
	case k < 19: // terminal, cut, rest
		g.feat["cut"] = true
		t := g.terminals()
		return seqOf(t, &gb{kind: "cut"}, g.body(d-1, consumed+len(t.ts)))
	default: // left-nested conjunction
		a := g.body(d-1, consumed)
		b := g.body(d-1, consumed+g.minC(a))
		c := g.body(d-1, consumed+g.minC(a)+g.minC(b))
		return &gb{kind: "seq", kids: []*gb{{kind: "seq", kids: []*gb{a, b}}, c}}
	}
}

// builtList: a terminal list that is built cell by cell by goals of the rule itself — its tails are
// variables bound by another {}-goal (before or after the cell is made), or it is reached through
// an alias — and then used as a body: {V = [x|T]}, {T = [y]}, V.  Abstractly V is just [x,y]; in
// the engine its spine runs through bindings of the environment.
func (g *c17g) builtList() *gb {
	g.feat["builtlist"] = true
	n := 2 + g.r.Intn(2)
	v := engine.Term(engine.NewVariable())
	var goals []engine.Term
	cur := v
	for i := 0; i < n; i++ {
		e := engine.Term(atom(pick(g.r, c17Alphabet)))
		if i == n-1 {
			goals = append(goals, compound("=", cur, engine.List(e)))
		} else {
			tl := engine.NewVariable()
			goals = append(goals, compound("=", cur, engine.PartialList(tl, e)))
			cur = tl
		}
	}
	switch g.r.Intn(4) {
	case 0: // tails bound before the cells are made
		for i, j := 0, len(goals)-1; i < j; i, j = i+1, j-1 {
			goals[i], goals[j] = goals[j], goals[i]
		}
	case 1: // alias
		w := engine.NewVariable()
		goals = append(goals, compound("=", w, v))
		v = w
	}
	var items []*gb
	if g.r.Intn(2) == 0 { // one {}-goal each, or one conjunction
		for _, gl := range goals {
			items = append(items, &gb{kind: "block", g: gl})
		}
	} else {
		c := goals[len(goals)-1]
		for i := len(goals) - 2; i >= 0; i-- {
			c = compound(",", goals[i], c)
		}
		items = append(items, &gb{kind: "block", g: c})
	}
	use := &gb{kind: "var", g: v}
	switch g.r.Intn(5) {
	case 0:
		use = &gb{kind: "not", kids: []*gb{{kind: "not", kids: []*gb{use}}}}
	case 1:
		use = &gb{kind: "alt", kids: []*gb{g.terminals(), use}}
	case 2:
		use = &gb{kind: "phrase", g: v}
	}
	return seqOf(append(items, use)...)
}

func (g *c17g) ntCall(n *c17nt) *gb {
	return &gb{kind: "nt", name: n.name, ts: g.callArgs(n, n.arity)}
}

func (g *c17g) leaf(consumed int) *gb {
	switch k := g.r.Intn(24); {
	case k < 7:
		return g.terminals()
	case k < 12:
		if n := g.callee(consumed); n != nil {
			return g.ntCall(n)
		}
		return g.terminals()
	case k < 13:
		return &gb{kind: "eps"}
	case k < 15:
		g.feat["cut"] = true
		return &gb{kind: "cut"}
	case k < 17:
		g.feat["block"] = true
		return &gb{kind: "block", g: g.blockGoal()}
	case k < 18: // call//1
		if n := g.callee(0); n != nil {
			g.feat["call"] = true
			c := g.ntCall(n)
			return &gb{kind: "call1", g: c.term()}
		}
		return g.terminals()
	case k < 20: // call//N with a closure
		var cands []*c17nt
		for i, n := range g.nts {
			if i > g.level && n.arity >= 1 {
				cands = append(cands, n)
			}
		}
		if len(cands) > 0 {
			g.feat["call"] = true
			n := pick(g.r, cands)
			as := g.callArgs(n, n.arity)
			extra := 1 + g.r.Intn(n.arity)
			if extra > 5 { // call/N exists up to N = 8: closure, extra arguments, S0, S
				extra = 5
			}
			closure := engine.Term(atom(n.name))
			if n.arity-extra > 0 {
				closure = compound(n.name, as[:n.arity-extra]...)
			}
			return &gb{kind: "nt", name: "call", ts: append([]engine.Term{closure}, as[n.arity-extra:]...)}
		}
		return g.terminals()
	case k < 21: // phrase//1
		g.feat["phrase"] = true
		if n := g.callee(0); n != nil && g.r.Intn(2) == 0 {
			return &gb{kind: "phrase", g: g.ntCall(n).term()}
		}
		return &gb{kind: "phrase", g: g.dataBody()}
	case k < 22: // a body that is only known at run time
		g.feat["varbody"] = true
		if g.bodyV != nil {
			return &gb{kind: "var", g: g.bodyV}
		}
		if g.r.Intn(2) == 0 {
			return g.builtList()
		}
		v := g.newVar()
		return seqOf(&gb{kind: "block", g: compound("=", v, g.dataBody())}, &gb{kind: "var", g: v})
	case k < 23: // string literal as terminals
		g.feat["string"] = true
		return &gb{kind: "terms", ts: []engine.Term{atom(pick(g.r, c17Alphabet)), atom(pick(g.r, c17Alphabet))}}
	default:
		return g.terminals()
	}
}

// headArgs: linear patterns
func (g *c17g) headArgs(n *c17nt) []engine.Term {
	as := make([]engine.Term, n.arity)
	g.bodyV = nil
	for i := range as {
		if i == 0 && n.bodyArg {
			v := g.newVar()
			g.bodyV = v
			as[i] = v
			continue
		}
		switch c := g.r.Intn(8); {
		case c < 2:
			as[i] = atom(pick(g.r, []string{"p", "q"}))
		case c < 3:
			as[i] = compound("f", g.newVar())
		default:
			as[i] = g.newVar()
		}
	}
	return as
}

type c17rule struct {
	head engine.Term
	pb   []engine.Term
	body *gb
}

func (r *c17rule) term() engine.Term {
	h := r.head
	if r.pb != nil {
		h = compound(",", h, engine.List(r.pb...))
	}
	return compound("-->", h, r.body.term())
}

func genC17Grammar(r *rand.Rand, maxLen int) string {
	g := &c17g{r: r, feat: map[string]bool{}}
	k := 1 + r.Intn(4)
	names := []string{"a", "b", "c", "d", "e"}
	for i := 0; i < k; i++ {
		n := &c17nt{name: names[i], arity: []int{0, 0, 0, 1, 1, 2}[r.Intn(6)]}
		switch r.Intn(12) {
		case 0:
			n.arity = 4 + r.Intn(3)
		case 1:
			n.arity = 9 + r.Intn(4)
		}
		if n.arity >= 1 && r.Intn(5) == 0 {
			n.bodyArg = true
		}
		g.nts = append(g.nts, n)
	}
	rules := make([][]*c17rule, k)
	for i := k - 1; i >= 0; i-- {
		n := g.nts[i]
		g.level = i
		nr := 1 + r.Intn(3)
		minC := 1 << 30
		for j := 0; j < nr; j++ {
			g.vars = nil
			as := g.headArgs(n)
			head := engine.Term(atom(n.name))
			if len(as) > 0 {
				head = compound(n.name, as...)
			}
			b := g.body(1+r.Intn(3), 0)
			if n.bodyArg && r.Intn(2) == 0 {
				b = seqOf(b, &gb{kind: "var", g: g.bodyV})
				g.feat["varbody"] = true
			}
			rule := &c17rule{head: head, body: b}
			c := g.minC(b)
			if c >= 1 && r.Intn(4) == 0 { // push-back, never longer than what the body consumes
				m := 1
				if c >= 2 && r.Intn(2) == 0 {
					m = 2
				}
				for q := 0; q < m; q++ {
					rule.pb = append(rule.pb, atom(pick(r, c17Alphabet)))
				}
				c -= m
				g.feat["pushback"] = true
			}
			minC = minInt_c17(minC, c)
			rules[i] = append(rules[i], rule)
		}
		n.minC = minC
		n.done = true
	}
	// start body
	g.level = -1
	g.vars = nil
	g.bodyV = nil
	var start *gb
	if r.Intn(3) == 0 {
		start = g.body(1+r.Intn(2), 0)
	} else {
		start = g.ntCall(g.nts[0])
	}
	parts := []string{"", wire(start.term(), nil, newVarNamer())}
	for i := 0; i < k; i++ {
		for _, rule := range rules[i] {
			parts = append(parts, wire(rule.term(), nil, newVarNamer()))
		}
	}
	load := "text"
	if r.Intn(3) == 0 {
		load = "assert"
	}
	str := 0
	if g.feat["string"] || r.Intn(4) == 0 {
		str = 1
	}
	gen := 1
	if g.recursive {
		gen = 0
	}
	parts[0] = fmt.Sprintf("len=%d load=%s str=%d gen=%d", maxLen, load, str, gen)
	return strings.Join(parts, " ; ")
}

func genC17Lang(r *rand.Rand, n int, tier string) []string {
	var out []string
	for i := 0; i < n; i++ {
		maxLen := 4
		if tier == "thorough" && i%8 == 0 {
			maxLen = 6
		}
		out = append(out, genC17Grammar(r, maxLen))
	}
	return out
}

// ---------------------------------------------------------------------------------------------
// c17.lang: runner
// ---------------------------------------------------------------------------------------------

// c17Text renders a term as Prolog text the reader maps back to the same term.  Control
// constructs are written as operators, fully parenthesised; lists in list notation (or, with
// str, as a double-quoted string when all elements are one-letter atoms); everything else in
// functional notation with quoted atoms.
func c17Text(t engine.Term, str bool, vars map[engine.Variable]string) string {
	switch t := t.(type) {
	case engine.Variable:
		if n, ok := vars[t]; ok {
			return n
		}
		n := "V" + strconv.Itoa(len(vars))
		vars[t] = n
		return n
	case engine.Atom:
		return c17Atom(t.String())
	case engine.Integer:
		return strconv.FormatInt(int64(t), 10)
	case engine.Compound:
		f, n := t.Functor().String(), t.Arity()
		if f == "." && n == 2 {
			var elems []engine.Term
			var tail engine.Term = t
			for {
				c, ok := tail.(engine.Compound)
				if !ok || c.Functor().String() != "." || c.Arity() != 2 {
					break
				}
				elems = append(elems, c.Arg(0))
				tail = c.Arg(1)
			}
			if a, ok := tail.(engine.Atom); ok && a.String() == "[]" {
				if s, ok := c17AsString(elems); ok && str {
					return "\"" + s + "\""
				}
				return "[" + c17Join(elems, str, vars) + "]"
			}
			return "[" + c17Join(elems, str, vars) + "|" + c17Text(tail, str, vars) + "]"
		}
		if n == 2 {
			switch f {
			case "-->", ",", ";", "->", "|", "=", "==", "\\==", "\\=":
				return "(" + c17Text(t.Arg(0), str, vars) + " " + f + " " + c17Text(t.Arg(1), str, vars) + ")"
			}
		}
		if n == 1 && f == "{}" {
			return "{ " + c17Text(t.Arg(0), str, vars) + " }"
		}
		if n == 1 && f == "\\+" {
			return "\\+(" + c17Text(t.Arg(0), str, vars) + ")"
		}
		args := make([]engine.Term, n)
		for i := range args {
			args[i] = t.Arg(i)
		}
		return c17Atom(f) + "(" + c17Join(args, str, vars) + ")"
	}
	panic(fmt.Sprintf("c17Text: %T", t))
}

func c17Join(ts []engine.Term, str bool, vars map[engine.Variable]string) string {
	ss := make([]string, len(ts))
	for i, t := range ts {
		ss[i] = c17Text(t, str, vars)
	}
	return strings.Join(ss, ", ")
}

func c17AsString(elems []engine.Term) (string, bool) {
	if len(elems) < 2 {
		return "", false
	}
	var sb strings.Builder
	for _, e := range elems {
		a, ok := e.(engine.Atom)
		// one CHARACTER (not one byte): a string may hold multi-byte characters
		if rs := []rune(a.String()); !ok || len(rs) != 1 || !(rs[0] >= 'a' && rs[0] <= 'z' || rs[0] > 127) {
			return "", false
		}
		sb.WriteString(a.String())
	}
	return sb.String(), true
}

func c17Atom(s string) string {
	switch s {
	case "[]", "!", "{}":
		return s
	}
	plain := s != "" && s[0] >= 'a' && s[0] <= 'z'
	for i := 0; plain && i < len(s); i++ {
		c := s[i]
		plain = c == '_' || (c >= 'a' && c <= 'z') || (c >= 'A' && c <= 'Z') || (c >= '0' && c <= '9')
	}
	if plain {
		return s
	}
	return "'" + strings.ReplaceAll(strings.ReplaceAll(s, "\\", "\\\\"), "'", "\\'") + "'"
}

// c17Strings replaces proper lists of >= 2 one-letter atoms by the Go representation of a
// double-quoted string (charList), as the reader produces for "xy".
func c17Strings(t engine.Term) engine.Term {
	c, ok := t.(engine.Compound)
	if !ok {
		return t
	}
	if c.Functor().String() == "." && c.Arity() == 2 {
		var elems []engine.Term
		var tail engine.Term = c
		for {
			cc, ok := tail.(engine.Compound)
			if !ok || cc.Functor().String() != "." || cc.Arity() != 2 {
				break
			}
			elems = append(elems, cc.Arg(0))
			tail = cc.Arg(1)
		}
		if a, ok := tail.(engine.Atom); ok && a.String() == "[]" {
			if s, ok := c17AsString(elems); ok {
				return engine.CharList(s)
			}
		}
	}
	args := make([]engine.Term, c.Arity())
	for i := range args {
		args[i] = c17Strings(c.Arg(i))
	}
	return c.Functor().Apply(args...)
}

func c17Vars(t engine.Term, seen map[engine.Variable]bool, out *[]engine.Term) {
	switch t := t.(type) {
	case engine.Variable:
		if !seen[t] {
			seen[t] = true
			*out = append(*out, t)
		}
	case engine.Compound:
		for i := 0; i < t.Arity(); i++ {
			c17Vars(t.Arg(i), seen, out)
		}
	}
}

// c17Lists enumerates all lists over the alphabet up to length n: by length, then lexicographic.
func c17Lists(n int) [][]engine.Term {
	out := [][]engine.Term{{}}
	prev := [][]engine.Term{{}}
	for l := 1; l <= n; l++ {
		var cur [][]engine.Term
		for _, p := range prev {
			for _, a := range c17Alphabet {
				q := append(append([]engine.Term{}, p...), atom(a))
				cur = append(cur, q)
			}
		}
		out = append(out, cur...)
		prev = cur
	}
	return out
}

const c17Cap = 24

// c17Budget: a translation that loops (a mutant, a defect) must show up as a TIMEOUT line, not
// stall the whole run: the first query of a case that exceeds the (generous, wall-clock) limit
// ends the case.  Every legitimate query of this stream takes micro- to milliseconds.
type c17Budget struct {
	blown bool
}

const c17QueryLimit = 5 * time.Second

func c17Solve(vm *engine.VM, goal, template engine.Term, bud *c17Budget) string {
	if bud.blown {
		return ""
	}
	limit := c17QueryLimit
	var rows []string
	_, err := solve(vm, goal, c17Cap, limit, func(env *engine.Env) bool {
		rows = append(rows, wire(template, env, newVarNamer()))
		return true
	})
	if err != nil {
		if errors.Is(err, context.DeadlineExceeded) {
			bud.blown = true
			return strings.Join(append(rows, "TIMEOUT"), " | ")
		}
		return strings.Join(append(rows, errWire(err)), " | ")
	}
	return strings.Join(rows, " | ")
}

// a {}-goal V = [t|T]: a list cell whose tail is bound by another goal of the rule
var c17BuiltListRe = regexp.MustCompile(`C2:= V\d+ C2:\. A[xyz] V\d+`)

func runC17Lang(payload string) string {
	parts := strings.Split(payload, " ; ")
	flags := map[string]string{}
	for _, kv := range strings.Fields(parts[0]) {
		if i := strings.IndexByte(kv, '='); i > 0 {
			flags[kv[:i]] = kv[i+1:]
		}
	}
	maxLen, _ := strconv.Atoi(flags["len"])
	str := flags["str"] == "1"
	ts, err := newTermDecoder().terms(parts[1])
	must(err)
	start := ts[0]
	var rules []engine.Term
	for _, p := range parts[2:] {
		ts, err := newTermDecoder().terms(p)
		must(err)
		rules = append(rules, ts[0])
	}

	i, _ := newInterp("")
	if flags["load"] == "text" {
		var sb strings.Builder
		for _, r := range rules {
			sb.WriteString(c17Text(r, str, map[engine.Variable]string{}))
			sb.WriteString(".\n")
		}
		if err := i.Exec(sb.String()); err != nil {
			return "loaderr " + errWire(err) + " ### nt=0 load=err"
		}
	} else {
		for _, r := range rules {
			if str {
				r = c17Strings(r)
			}
			c := engine.NewVariable()
			if res := solveOnce(&i.VM, compound(",", compound("expand_term", r, c), compound("assertz", c))); res != "true" {
				return "loaderr " + res + " ### nt=0 load=err"
			}
		}
	}
	if str {
		start = c17Strings(start)
	}

	var vars []engine.Term
	c17Vars(start, map[engine.Variable]bool{}, &vars)
	bud := &c17Budget{}
	var res []string
	accepted, withRem := 0, 0
	for k, l := range c17Lists(maxLen) {
		lt := engine.List(l...)
		rem := engine.NewVariable()
		if out := c17Solve(&i.VM, compound("phrase", start, lt, rem), compound("t", append(append([]engine.Term{}, vars...), rem)...), bud); out != "" {
			res = append(res, fmt.Sprintf("m%d %s", k, out))
			withRem++
		}
		if out := c17Solve(&i.VM, compound("phrase", start, lt), compound("t", append([]engine.Term{atom("-")}, vars...)...), bud); out != "" {
			res = append(res, fmt.Sprintf("r%d %s", k, out))
			accepted++
		}
	}
	if flags["gen"] == "1" {
		l, rem := engine.NewVariable(), engine.NewVariable()
		if out := c17Solve(&i.VM, compound("phrase", start, l), compound("t", append(append([]engine.Term{}, vars...), l)...), bud); out != "" {
			res = append(res, "g "+out)
		}
		if out := c17Solve(&i.VM, compound("phrase", start, l, rem), compound("t", append(append([]engine.Term{}, vars...), l, rem)...), bud); out != "" {
			res = append(res, "h "+out)
		}
	}

	// tags
	has := func(s string) int {
		for _, p := range parts[1:] {
			if strings.Contains(" "+p+" ", s) {
				return 1
			}
		}
		return 0
	}
	cut, not, ite := has(" A! "), has(" C1:\\+ "), has(" C2:-> ")
	pb := 0
	for _, p := range parts[2:] {
		if strings.HasPrefix(p, "C2:--> C2:%2c ") {
			pb = 1
		}
	}
	nt := 0
	if cut+not+ite+pb > 0 {
		nt = 1
	}
	bucket := func(n int) string {
		switch {
		case n == 0:
			return "0"
		case n <= 3:
			return "1-3"
		case n <= 20:
			return "4-20"
		default:
			return ">20"
		}
	}
	builtList := 0
	if c17BuiltListRe.MatchString(payload) {
		builtList = 1
	}
	return strings.Join(res, " ; ") + fmt.Sprintf(" ### nt=%d load=%s str=%s gen=%s len=%d cut=%d not=%d ite=%d pushback=%d rules=%d accepted=%s parsed_prefix=%s built_list=%d",
		nt, flags["load"], flags["str"], flags["gen"], maxLen, cut, not, ite, pb, len(rules), bucket(accepted), bucket(withRem), builtList)
}
