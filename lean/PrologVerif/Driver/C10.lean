import PrologVerif.Driver.Common
import PrologVerif.Model.Decompile
import PrologVerif.Model.Unify
namespace PrologVerif.Driver.C10
open PrologVerif PrologVerif.Driver PrologVerif.VM

/-- the elements of a chain of generic '.'/2 compounds ending in `[]` -/
def chainToList : Nat → Rep → Option RepList
  | 0, _ => none
  | _ + 1, .atom "[]" => some .nil
  | n + 1, .compound "." (.cons h (.cons tl .nil)) => (chainToList n tl).map (.cons h)
  | _, _ => none

-- the annotated term of the harness (hook VerifRepTree) → Rep
def annApp (f : String) (rs : RepList) : Rep :=
  if f = "$list" then .list rs
  else if f = "$partial" then
    match rs with
    | .cons p (.cons t .nil) =>
      -- A *partial is only ever read through ListIterator over its prefix (clause.go, compound.go), so
      -- a prefix that is a chain of '.'/2 compounds (append/3 with a first argument in canonical dot
      -- notation) is presented to the model as the list of its elements; that the compiled code is the
      -- same is what this stream compares.
      match chainToList 100000 p with
      | some es => (match es with | .nil => .part p t | _ => .part (.list es) t)
      | none => .part p t
    | _ => .compound f rs
  else if f = "$chars" then
    match rs with
    | .cons (.atom s) .nil => .charList s.toList
    | _ => .compound f rs
  else if f = "$codes" then
    match rs with
    | .cons (.atom s) .nil => .codeList s.toList
    | _ => .compound f rs
  else .compound f rs

mutual
  def repOfAnn : Term → Rep
    | .var v => .var v
    | .atom s => .atom s
    | .int i => .int i
    | .flt b => .flt b
    | .str n => .str n
    | .app f as => annApp f (repsOfAnn as)
  def repsOfAnn : Args → RepList
    | .nil => .nil
    | .cons t ts => .cons (repOfAnn t) (repsOfAnn ts)
end

def pi (f : String) (n : Nat) : String := (Term.a2 "/" (.atom f) (.int n)).wire

def showOp : Op → String
  | .enter => "enter"
  | .call f n => "call " ++ pi f n
  | .exit => "exit"
  | .getConst t => "get_const " ++ t.wire
  | .putConst t => "put_const " ++ t.wire
  | .getVar i => s!"get_var I{i}"
  | .putVar i => s!"put_var I{i}"
  | .getFunctor f n => "get_functor " ++ pi f n
  | .putFunctor f n => "put_functor " ++ pi f n
  | .pop => "pop"
  | .cut => "cut"
  | .getList n => s!"get_list I{n}"
  | .putList n => s!"put_list I{n}"
  | .getPartial n => s!"get_partial I{n}"
  | .putPartial n => s!"put_partial I{n}"
  | .unsupported w => "unsupported " ++ w

def showClause (c : Clause) : String :=
  s!"{encName c.name}/{c.arity} vars=[{" ".intercalate (c.vars.map fun v => (Term.var v).wire)}] " ++
  s!"code=[{", ".intercalate (c.code.map showOp)}] raw={c.raw.wire}"

/-- read one instruction of the harness's listing back -/
def parseOp (s : String) : Option Op :=
  let (w, rest) := headWord s
  let t := Term.ofWire rest
  let piOf : Option Term → Option (String × Nat) := fun
    | some (.app "/" (.cons (.atom f) (.cons (.int n) .nil))) => some (f, n.toNat)
    | _ => none
  let nat : Option Term → Option Nat := fun | some (.int n) => some n.toNat | _ => none
  match w with
  | "enter" => some .enter
  | "exit" => some .exit
  | "pop" => some .pop
  | "cut" => some .cut
  | "call" => (piOf t).map fun (f, n) => .call f n
  | "get_const" => t.map .getConst
  | "put_const" => t.map .putConst
  | "get_var" => (nat t).map .getVar
  | "put_var" => (nat t).map .putVar
  | "get_functor" => (piOf t).map fun (f, n) => .getFunctor f n
  | "put_functor" => (piOf t).map fun (f, n) => .putFunctor f n
  | "get_list" => (nat t).map .getList
  | "put_list" => (nat t).map .putList
  | "get_partial" => (nat t).map .getPartial
  | "put_partial" => (nat t).map .putPartial
  | _ => none

/-- read one compiled clause of the harness's listing back: `name/arity vars=[…] code=[…] raw=…` -/
def parseClause (s : String) : Option Clause :=
  match s.splitOn " vars=[" with
  | [na, rest] =>
    match rest.splitOn "] code=[" with
    | [vs, rest2] =>
      match rest2.splitOn "] raw=" with
      | [code, raw] =>
        let nm := (na.splitOn "/")
        let arity := (nm.getLastD "").toNat?
        let name := decName ("/".intercalate nm.dropLast).toList
        let vars := (words vs).mapM fun w => match Term.ofWire w with | some (.var v) => some v | _ => none
        let ops := (if trim code == "" then [] else code.splitOn ", ").mapM parseOp
        match arity, name, vars, ops, Term.ofWire raw with
        | some a, some n, some vs, some ops, some r => some { name := n, arity := a, raw := r, vars := vs, code := ops }
        | _, _, _, _, _ => none
      | _ => none
    | _ => none
  | _ => none

/-- the clause term a compiled clause must denote (spec side): head and the goals of one disjunct -/
def handler : Handler := fun _ impl =>
  match impl.splitOn " ;;; " with
  | [ann, compiled] =>
    if compiled.startsWith "panic" || compiled.startsWith "goerr" then
      (impl, "FAIL the compiler did not return a clause or an ISO error: " ++ compiled)
    else
    match Term.ofWire ann with
    | none => ("BAD-ANN", "-")
    | some t =>
      let r := repOfAnn t
      match compile r with
      | .error e => (ann ++ " ;;; err " ++ e.canon.wire, "-")
      | .ok cs =>
        let model := ann ++ " ;;; " ++ " ;; ".intercalate (cs.map showClause)
        -- spec: every compiled clause reads back (decompile) as the source clause: same head, the
        -- goals of its disjunct in order, variable goals as call/1, same variables; the stored term is
        -- the source term
        let src := Rep.abs r
        let (head, body) := match src with
          | .app ":-" (.cons h (.cons b .nil)) => (h, some b)
          | h => (h, none)
        let rbody := match r with
          | .compound ":-" (.cons _ (.cons b .nil)) => some b
          | _ => none
        let alts := match rbody with | some b => altBodies b | none => []
        let expect : List (Term × List Term) := match body with
          | none => [(head, [])]
          | some _ => alts.map fun alt => (head, (seqGoals alt).map fun g =>
              match g with | .var v => Term.a1 "call" (.var v) | g => Rep.abs g)
        -- judged on the IMPLEMENTATION's listing (read back), not on the model's
        let implCs := (compiled.splitOn " ;; ").map parseClause
        let got := implCs.map fun oc => oc.bind decompile
        let cs := implCs.filterMap id
        let callableHead := match head with | .atom _ | .app _ _ => true | _ => false
        let verdict :=
          if !callableHead then "-"
          else if got = expect.map some && cs.all (fun c => c.raw = src) then "ok"
          else "FAIL a compiled clause does not denote its source clause (decompile ≠ source)"
        (model, verdict)
  | _ => (impl, "-")

end PrologVerif.Driver.C10

namespace PrologVerif.Driver.C10
open PrologVerif PrologVerif.Driver

/-! ### c10.observe: judge what clause/2, calling and retract/1 show for a clause added through
    assertz and through Exec -/

def parseBinds (s : String) : List (Nat × Term) :=
  (s.splitOn " & ").filterMap fun b =>
    match b.splitOn "=" with
    | k :: rest =>
      match (trim k).toNat?, Term.ofWire ("=".intercalate rest) with
      | some v, some t => some (v, t)
      | _, _ => none
    | _ => none

/-- the clause in force at the moment it was added: the bindings of the asserting query applied -/
def inForce (clause : Term) (binds : List (Nat × Term)) : Option Term :=
  let env := binds.foldl (fun (e : Option Env) b =>
    match e with
    | none => none
    | some e =>
      match unify 10000 false e (.var b.1) b.2 with
      | some (e', .ok) => some e'
      | _ => none) (some [])
  match env with
  | some e => applyAll 10000 e clause
  | none => none

def section_ (impl : String) (key : String) : String :=
  -- text between `key` and the next " ;; " (or the end)
  match impl.splitOn key with
  | _ :: rest :: _ => (rest.splitOn " ;; ").headD ""
  | _ => ""

def field (sec : String) (key : String) : String :=
  -- "key=[…]" → …
  match sec.splitOn (key ++ "=[") with
  | _ :: rest :: _ => (rest.splitOn "]").headD ""
  | _ => ""

mutual
  def maxVar : Term → Nat
    | .var v => v + 1
    | .app _ as => maxVarArgs as
    | _ => 0
  def maxVarArgs : Args → Nat
    | .nil => 0
    | .cons t ts => max (maxVar t) (maxVarArgs ts)
end

def observeHandler : Handler := fun payload impl =>
  match fields payload with
  | clauseS :: rest =>
    match Term.ofWire clauseS with
    | none => (impl, "-")
    | some clause =>
      let binds := parseBinds (rest.headD "")
      match inForce clause binds with
      | none => (impl, "-")
      | some stored =>
        if !(impl.startsWith "vars=") then
          -- the clause was rejected (non-callable body …): nothing to observe
          (impl, if impl.startsWith "assert-err" then "-" else "FAIL unexpected outcome " ++ impl)
        else
        let rule := match stored with
          | .app ":-" (.cons _ (.cons _ .nil)) => stored
          | h => .app ":-" (.cons h (.cons (.atom "true") .nil))
        let want := rule.canon.wire
        let a := section_ impl "assert: "
        let e := section_ impl "exec: "
        let nv := max (maxVar clause) (binds.foldl (fun m b => max m (max (b.1 + 1) (maxVar b.2))) 0)
        let varsWant := match inForce (Term.list ((List.range nv).map Term.var)) binds with
          | some t => "vars=" ++ t.canon.wire
          | none => "?"
        let disj := match stored with
          | .app ":-" (.cons _ (.cons (.app ";" (.cons l (.cons _ .nil))) .nil)) =>
            (match l with | .app "->" (.cons _ (.cons _ .nil)) => false | _ => true)
          | _ => false
        let verdict :=
          if a ≠ e then "FAIL the clause behaves differently when loaded through Exec and through assertz"
          else if !(impl.startsWith (varsWant ++ " ;;")) then
            "FAIL storing the clause changed the caller's variables: want " ++ varsWant
          else if section_ impl "nb: " ≠ "ok" then
            "FAIL a predicate loaded from a text lost or changed a clause when its NEIGHBOUR in the text (a dynamic predicate loaded just before it) was extended by assertz/1: " ++ section_ impl "nb: "
          else if !disj && section_ impl "inq: " ≠ "[" ++ want ++ "]" then
            "FAIL clause/2 in the asserting query, after the caller bound its variables further, does not show the clause as stored (bindings made after storing leak into it): want " ++ want
          else if (match stored with | .app ":-" (.cons _ (.cons _ .nil)) => false | _ => true) &&
              field a "call" ≠ stored.canon.wire then
            "FAIL calling a stored FACT with fresh arguments must answer exactly the fact (same sharing of variables): want " ++ stored.canon.wire
          else if field a "calla" ≠ field a "call" then
            "FAIL the clause added with asserta/1 does not answer as the same clause added with assertz/1 (the alternatives of one clause term are stored as a block in source order)"
          else if field a "call2" ≠ field a "call" then
            "FAIL calling the predicate with a variant of its head (built through a different constructor path) does not behave as calling it with fresh variables"
          else if field a "clause" = want && field a "retract" = want && (a.splitOn "left=0").length = 2 then "ok"
          else if disj then "FAIL D23 a top-level disjunctive body is stored once per disjunct, each carrying the whole rule"
          else "FAIL clause/2 / retract/1 do not show a variant of the clause in force when it was added: want " ++ want
        (impl, verdict)
  | _ => (impl, "-")

end PrologVerif.Driver.C10
