/- C01: every theorem of the property (aggregator: the property module that `bin/check C01` builds) -/
import PrologVerif.Properties.C01
import PrologVerif.Properties.C01Refine
