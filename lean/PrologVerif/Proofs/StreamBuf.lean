/-
  Proofs/StreamBuf.lean — the bufio.Reader abstraction of Model/Stream.lean delivers the bytes of
  the source in order, whatever the chunking of the underlying reader (C19 helper lemmas).
-/
import PrologVerif.Model.Stream
import PrologVerif.Proofs.StreamUtf8
namespace PrologVerif.Stream

/-- well-formedness of the buffer state w.r.t. the source -/
structure BufInv (c : Cfg) (b : Buf) : Prop where
  cur_le : b.cur ≤ b.fetched
  fetched_le : b.fetched ≤ c.src.length
  pend : b.pendErr = true → b.fetched = c.src.length
  rderr : b.rdErr = true → b.fetched = c.src.length
  /-- the theorems are about an ordinary finite source; sources that go on after an end of file
      (`Reader.marks`) are covered by the correspondence stream and the segment specification -/
  nomarks : c.rd.marks = []

theorem avail_length (src : List Nat) (b : Buf) (h : b.fetched ≤ src.length) :
    (avail src b).length = b.fetched - b.cur := by
  unfold avail
  simp only [List.length_take, List.length_drop]
  omega

theorem drop_eq_avail_append (src : List Nat) (b : Buf) :
    src.drop b.cur = avail src b ++ (src.drop b.cur).drop (b.fetched - b.cur) := by
  unfold avail
  rw [List.take_append_drop]

theorem avail_eq_drop (src : List Nat) (b : Buf) (h : b.fetched = src.length) :
    avail src b = src.drop b.cur := by
  unfold avail
  apply List.take_of_length_le
  simp only [List.length_drop]
  omega

/-! ### fill -/

theorem fill_cur (src : List Nat) (rd : Reader) (b : Buf) : (fill src rd b).cur = b.cur := by
  unfold fill fillPlain fillSeg
  split
  · split <;> rfl
  · simp only; split <;> rfl

theorem fill_of_nomarks (src : List Nat) (rd : Reader) (b : Buf) (h : rd.marks = []) :
    fill src rd b = fillPlain src rd b := by
  unfold fill; rw [if_pos h]

theorem fill_inv {c : Cfg} {b : Buf} (h : BufInv c b) : BufInv c (fill c.src c.rd b) := by
  rw [fill_of_nomarks _ _ _ h.nomarks]
  unfold fillPlain
  split
  · rename_i hlt
    refine ⟨?_, ?_, ?_, ?_, h.nomarks⟩
    · simp only; have := h.cur_le; omega
    · simp only; omega
    · simp only [Bool.and_eq_true, decide_eq_true_eq]; intro hh; exact hh.2
    · simp only [Bool.and_eq_true, decide_eq_true_eq]; intro hh; exact hh.2
  · rename_i hge
    have := h.fetched_le
    refine ⟨h.cur_le, h.fetched_le, ?_, ?_, h.nomarks⟩ <;> (intro _; simp only; omega)

/-- a fill makes progress: more bytes, or the end of the source is known -/
theorem fill_progress (src : List Nat) (rd : Reader) (b : Buf) :
    b.fetched < (fill src rd b).fetched ∨ (fill src rd b).pendErr = true := by
  unfold fill fillPlain fillSeg
  split
  · split
    · left; simp only; omega
    · right; rfl
  · simp only
    split
    · left; simp only; omega
    · right; rfl

theorem fill_fetched_mono (src : List Nat) (rd : Reader) (b : Buf) :
    b.fetched ≤ (fill src rd b).fetched := by
  unfold fill fillPlain fillSeg
  split
  · split
    · simp only; omega
    · exact Nat.le_refl _
  · simp only
    split
    · simp only; omega
    · exact Nat.le_refl _

/-! ### the fill loop of ReadRune -/

theorem fillForRune_cur (src : List Nat) (rd : Reader) (n : Nat) (b : Buf) :
    (fillForRune src rd n b).cur = b.cur := by
  induction n generalizing b with
  | zero => rfl
  | succ n ih =>
    unfold fillForRune
    split
    · rw [ih, fill_cur]
    · rfl

theorem fillForRune_inv {c : Cfg} (n : Nat) {b : Buf} (h : BufInv c b) :
    BufInv c (fillForRune c.src c.rd n b) := by
  induction n generalizing b with
  | zero => exact h
  | succ n ih =>
    unfold fillForRune
    split
    · exact ih (fill_inv h)
    · exact h

theorem fillForRune_fetched_mono (src : List Nat) (rd : Reader) (n : Nat) (b : Buf) :
    b.fetched ≤ (fillForRune src rd n b).fetched := by
  induction n generalizing b with
  | zero => exact Nat.le_refl _
  | succ n ih =>
    unfold fillForRune
    split
    · exact Nat.le_trans (fill_fetched_mono src rd b) (ih _)
    · exact Nat.le_refl _

theorem fillForRune_of_pend (src : List Nat) (rd : Reader) (n : Nat) (b : Buf) (h : b.pendErr = true) :
    fillForRune src rd n b = b := by
  cases n with
  | zero => rfl
  | succ n => unfold fillForRune; simp [h]

/-- when the loop stops it has what ReadRune needs, or it has run `n` fills that each brought a byte -/
theorem fillForRune_exit (src : List Nat) (rd : Reader) (n : Nat) (b : Buf) :
    ((fillForRune src rd n b).cur + 4 ≤ (fillForRune src rd n b).fetched ∨
      fullRune (avail src (fillForRune src rd n b)) = true ∨ (fillForRune src rd n b).pendErr = true) ∨
    b.fetched + n ≤ (fillForRune src rd n b).fetched := by
  induction n generalizing b with
  | zero => right; exact Nat.le_refl _
  | succ n ih =>
    unfold fillForRune
    split
    · rename_i hc
      rcases fill_progress src rd b with hp | hp
      · rcases ih (fill src rd b) with h | h
        · left; exact h
        · right; omega
      · -- the source is exhausted: the next iteration stops at once
        left; right; right
        rw [fillForRune_of_pend _ _ _ _ hp]; exact hp
    · rename_i hc
      left
      by_cases h1 : b.cur + 4 ≤ b.fetched
      · left; exact h1
      · by_cases h2 : fullRune (avail src b) = true
        · right; left; exact h2
        · right; right
          have h1' : b.cur + 4 > b.fetched := by omega
          have h2' : fullRune (avail src b) = false := by simpa using h2
          by_cases h3 : b.pendErr = true
          · exact h3
          · exfalso; apply hc; exact ⟨h1', h2', by simpa using h3⟩

/-- four fills are enough -/
theorem fillForRune4_exit {c : Cfg} {b : Buf} (h : BufInv c b) :
    fullRune (avail c.src (fillForRune c.src c.rd 4 b)) = true ∨ (fillForRune c.src c.rd 4 b).pendErr = true := by
  have hex := fillForRune_exit c.src c.rd 4 b
  have hinv := fillForRune_inv 4 h
  have hcur := fillForRune_cur c.src c.rd 4 b
  have four : (fillForRune c.src c.rd 4 b).cur + 4 ≤ (fillForRune c.src c.rd 4 b).fetched →
      fullRune (avail c.src (fillForRune c.src c.rd 4 b)) = true := by
    intro h4
    apply fullRune_of_length_ge4
    rw [avail_length _ _ hinv.fetched_le]
    omega
  rcases hex with (h4 | hf | hp) | hn
  · left; exact four h4
  · left; exact hf
  · right; exact hp
  · left; apply four
    have := h.cur_le
    omega

/-! ### ReadRune / ReadByte on the buffer -/

/-- bufio.ReadRune decodes the rune at the cursor from the SOURCE (not just from what happens to be
    buffered) and advances by its width; at the end of the source it reports io.EOF and consumes nothing -/
theorem bufReadRune_spec {c : Cfg} {b : Buf} (h : BufInv c b) :
    BufInv c (bufReadRune c.src c.rd b).2 ∧
    (b.cur < c.src.length →
      (bufReadRune c.src c.rd b).1 = .ok (decodeRune (c.src.drop b.cur)) ∧
      (bufReadRune c.src c.rd b).2.cur = b.cur + (decodeRune (c.src.drop b.cur)).2 ∧
      (bufReadRune c.src c.rd b).2.lastRuneSize = some (decodeRune (c.src.drop b.cur)).2) ∧
    (¬ b.cur < c.src.length →
      (bufReadRune c.src c.rd b).1 = .eof ∧ (bufReadRune c.src c.rd b).2.cur = b.cur ∧
      (bufReadRune c.src c.rd b).2.fetched = c.src.length ∧ (bufReadRune c.src c.rd b).2.pendErr = false) := by
  have hinv := fillForRune_inv 4 h
  have hcur := fillForRune_cur c.src c.rd 4 b
  have hex := fillForRune4_exit h
  generalize hb1 : fillForRune c.src c.rd 4 b = b1 at *
  by_cases hlt : b.cur < c.src.length
  · -- a rune is there
    have hne : b1.cur ≠ b1.fetched := by
      intro heq
      rcases hex with hf | hp
      · have := fullRune_ne_nil _ hf
        apply this
        have hl := avail_length c.src b1 hinv.fetched_le
        apply List.eq_nil_of_length_eq_zero; omega
      · have := hinv.pend hp; omega
    have hdec : decodeRune (avail c.src b1) = decodeRune (c.src.drop b.cur) := by
      rcases hex with hf | hp
      · have := decodeRune_append_of_full (avail c.src b1) ((c.src.drop b1.cur).drop (b1.fetched - b1.cur)) hf
        rw [← drop_eq_avail_append, hcur] at this
        exact this.symm
      · rw [avail_eq_drop _ _ (hinv.pend hp), hcur]
    have hsz : (decodeRune (avail c.src b1)).2 ≤ b1.fetched - b1.cur := by
      have := decodeRune_size_le (avail c.src b1)
      rwa [avail_length _ _ hinv.fetched_le] at this
    have hval : bufReadRune c.src c.rd b =
        (.ok (decodeRune (avail c.src b1)),
         { b1 with cur := b1.cur + (decodeRune (avail c.src b1)).2,
                   lastRuneSize := some (decodeRune (avail c.src b1)).2, lastByte := true }) := by
      unfold bufReadRune
      simp only [hb1]
      rw [if_neg hne]
    rw [hval]
    refine ⟨⟨?_, hinv.fetched_le, hinv.pend, hinv.rderr, hinv.nomarks⟩, ?_, ?_⟩
    · show b1.cur + (decodeRune (avail c.src b1)).2 ≤ b1.fetched
      have := hinv.cur_le; omega
    · intro _
      refine ⟨by rw [hdec], ?_, ?_⟩
      · show b1.cur + (decodeRune (avail c.src b1)).2 = _
        rw [hdec, hcur]
      · show some (decodeRune (avail c.src b1)).2 = _
        rw [hdec]
    · intro hh; exact absurd hlt hh
  · -- the end of the source
    have hcl : b.cur = c.src.length := by have := h.cur_le; have := h.fetched_le; omega
    have hf1 : b1.fetched = c.src.length := by have := hinv.cur_le; have := hinv.fetched_le; omega
    have heq : b1.cur = b1.fetched := by omega
    have hp : b1.pendErr = true := by
      rcases hex with hf | hp
      · exfalso
        apply fullRune_ne_nil _ hf
        have hl := avail_length c.src b1 hinv.fetched_le
        apply List.eq_nil_of_length_eq_zero; omega
      · exact hp
    have hval : bufReadRune c.src c.rd b = (.eof, { b1 with pendErr := false, lastRuneSize := none }) := by
      unfold bufReadRune
      simp only [hb1]
      rw [if_pos heq, if_pos hp]
    rw [hval]
    refine ⟨⟨hinv.cur_le, hinv.fetched_le, ?_, hinv.rderr, hinv.nomarks⟩, ?_, ?_⟩
    · intro hh; exact absurd hh (by simp)
    · intro hh; exact absurd hh hlt
    · intro _; exact ⟨rfl, hcur, hf1, rfl⟩

theorem getElem?_of_lt (src : List Nat) (n : Nat) (h : n < src.length) : ∃ x, src[n]? = some x :=
  ⟨src[n], by simp [h]⟩

/-- bufio.ReadByte -/
theorem bufReadByte_spec {c : Cfg} {b : Buf} (h : BufInv c b) :
    BufInv c (bufReadByte c.src c.rd b).2 ∧
    (∀ x, c.src[b.cur]? = some x →
      (bufReadByte c.src c.rd b).1 = .ok x ∧ (bufReadByte c.src c.rd b).2.cur = b.cur + 1 ∧
      (bufReadByte c.src c.rd b).2.lastByte = true) ∧
    (c.src[b.cur]? = none →
      (bufReadByte c.src c.rd b).1 = .eof ∧ (bufReadByte c.src c.rd b).2.cur = b.cur ∧
      (bufReadByte c.src c.rd b).2.fetched = c.src.length ∧ (bufReadByte c.src c.rd b).2.pendErr = false) := by
  -- the buffer after the (at most one) fill
  generalize hb1 : (if b.cur = b.fetched ∧ b.pendErr = false then fill c.src c.rd b else b) = b1
  have hinv : BufInv c b1 := by
    subst hb1; split
    · exact fill_inv h
    · exact h
  have hcur : b1.cur = b.cur := by
    subst hb1; split
    · rw [fill_cur]
    · rfl
  have hex : b1.cur < b1.fetched ∨ b1.pendErr = true := by
    subst hb1
    split
    · rename_i hc
      rcases fill_progress c.src c.rd b with hp | hp
      · left; rw [fill_cur]; omega
      · right; exact hp
    · rename_i hc
      by_cases he : b.cur = b.fetched
      · right
        by_cases hp : b.pendErr = true
        · exact hp
        · exfalso; apply hc; exact ⟨he, by simpa using hp⟩
      · left; have := h.cur_le; omega
  by_cases hlt : b.cur < c.src.length
  · obtain ⟨x, hx⟩ := getElem?_of_lt c.src b.cur hlt
    have hne : b1.cur ≠ b1.fetched := by
      intro heq
      rcases hex with hl | hp
      · omega
      · have := hinv.pend hp; omega
    have hval : bufReadByte c.src c.rd b =
        (.ok x, { b1 with cur := b1.cur + 1, lastRuneSize := none, lastByte := true }) := by
      unfold bufReadByte
      simp only [hb1]
      rw [if_neg hne, hcur, hx]
    rw [hval]
    refine ⟨⟨?_, hinv.fetched_le, hinv.pend, hinv.rderr, hinv.nomarks⟩, ?_, ?_⟩
    · show b1.cur + 1 ≤ b1.fetched
      have := hinv.cur_le; omega
    · intro y hy
      have : y = x := by rw [hx] at hy; exact (Option.some.inj hy).symm
      subst this
      exact ⟨rfl, by show b1.cur + 1 = _; rw [hcur], rfl⟩
    · intro hn; rw [hx] at hn; exact absurd hn (by simp)
  · have hcl : b.cur = c.src.length := by have := h.cur_le; have := h.fetched_le; omega
    have hf1 : b1.fetched = c.src.length := by have := hinv.cur_le; have := hinv.fetched_le; omega
    have heq : b1.cur = b1.fetched := by omega
    have hp : b1.pendErr = true := by
      rcases hex with hl | hp
      · omega
      · exact hp
    have hnone : c.src[b.cur]? = none := by simp [hcl]
    have hval : bufReadByte c.src c.rd b = (.eof, { b1 with pendErr := false, lastRuneSize := none }) := by
      unfold bufReadByte
      simp only [hb1]
      rw [if_pos heq, if_pos hp]
    rw [hval]
    refine ⟨⟨hinv.cur_le, hinv.fetched_le, ?_, hinv.rderr, hinv.nomarks⟩, ?_, ?_⟩
    · intro hh; exact absurd hh (by simp)
    · intro y hy; rw [hnone] at hy; exact absurd hy (by simp)
    · intro _; exact ⟨rfl, hcur, hf1, rfl⟩

end PrologVerif.Stream
