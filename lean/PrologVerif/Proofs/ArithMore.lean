/-
  Proofs/ArithMore — mixed mode (integers converted with float64(n)), finiteness of float values at the
  functor level in every mode, the guards of `**`, and eval's own errors.
-/
import PrologVerif.Proofs.ArithFloat
import PrologVerif.Proofs.ArithEval
namespace PrologVerif.ArithProofs
open PrologVerif.Arith PrologVerif.Generated.Arith
open PrologVerif.Spec.ExactArith (Outcome inRange checked pow powFast)

variable {F : Type} [FloatOps F]

/-- mixed mode: an integer operand of + - * / is converted with float64(n) and the float kernel is used;
    `/` converts both integer operands -/
theorem mixed_mode (x : I64) (y : F) :
    add (.int x) (.flt y) = liftF (addF (FloatOps.ofInt x.val) y) ∧
    add (.flt y) (.int x) = liftF (addF y (FloatOps.ofInt x.val)) ∧
    sub (.int x) (.flt y) = liftF (subF (FloatOps.ofInt x.val) y) ∧
    sub (.flt y) (.int x) = liftF (subF y (FloatOps.ofInt x.val)) ∧
    mul (.int x) (.flt y) = liftF (mulF (FloatOps.ofInt x.val) y) ∧
    mul (.flt y) (.int x) = liftF (mulF y (FloatOps.ofInt x.val)) ∧
    div (.int x) (.flt y) = liftF (divF (FloatOps.ofInt x.val) y) ∧
    div (.flt y) (.int x) = liftF (divF y (FloatOps.ofInt x.val)) ∧
    (∀ z : I64, div (F := F) (.int x) (.int z) = liftF (divF (FloatOps.ofInt x.val) (FloatOps.ofInt z.val))) :=
  ⟨rfl, rfl, rfl, rfl, rfl, rfl, rfl, rfl, fun _ => rfl⟩

def NumFinite : Num F → Prop
  | .int _ => True
  | .flt f => Finite f

theorem toFloat_finite (L : FloatLaws F) (x : Num F) (h : NumFinite x) : Finite (match x with | .int i => (FloatOps.ofInt i.val : F) | .flt f => f) := by
  cases x with
  | int i => exact L.ofInt_finite i.val i.inRange
  | flt f => exact h

omit [FloatOps F] in
theorem liftF_ok {r : Except Err F} {v : F} (h : (liftF r : Except Err (Num F)) = .ok (.flt v)) : r = .ok v := by
  unfold liftF at h
  cases r with
  | ok w => simp [Except.map] at h; rw [h]
  | error e => simp [Except.map] at h

omit [FloatOps F] in
theorem liftI_not_flt {r : Except Err I64} {v : F} : (liftI r : Except Err (Num F)) ≠ .ok (.flt v) := by
  unfold liftI
  cases r <;> simp [Except.map]

/-- + - * / on finite numbers in every mode (integer, float, mixed): a float that is returned as a
    value is finite — no NaN, no infinity -/
theorem arith_value_finite (L : FloatLaws F) (x y : Num F) (hx : NumFinite x) (hy : NumFinite y) (r : F) :
    (add x y = .ok (.flt r) → Finite r) ∧ (sub x y = .ok (.flt r) → Finite r) ∧
    (mul x y = .ok (.flt r) → Finite r) ∧ (div x y = .ok (.flt r) → Finite r) := by
  cases x with
  | int i =>
    cases y with
    | int j =>
      refine ⟨fun h => absurd h liftI_not_flt, fun h => absurd h liftI_not_flt, fun h => absurd h liftI_not_flt, ?_⟩
      intro h
      exact divF_finite L _ _ r (L.ofInt_finite _ i.inRange) (L.ofInt_finite _ j.inRange) (liftF_ok h)
    | flt g =>
      have hi := L.ofInt_finite (F := F) _ i.inRange
      exact ⟨fun h => addF_finite L _ _ r hi hy (liftF_ok h), fun h => subF_finite L _ _ r hi hy (liftF_ok h),
        fun h => mulF_finite L _ _ r hi hy (liftF_ok h), fun h => divF_finite L _ _ r hi hy (liftF_ok h)⟩
  | flt f =>
    cases y with
    | int j =>
      have hj := L.ofInt_finite (F := F) _ j.inRange
      exact ⟨fun h => addF_finite L _ _ r hx hj (liftF_ok h), fun h => subF_finite L _ _ r hx hj (liftF_ok h),
        fun h => mulF_finite L _ _ r hx hj (liftF_ok h), fun h => divF_finite L _ _ r hx hj (liftF_ok h)⟩
    | flt g =>
      exact ⟨fun h => addF_finite L _ _ r hx hy (liftF_ok h), fun h => subF_finite L _ _ r hx hy (liftF_ok h),
        fun h => mulF_finite L _ _ r hx hy (liftF_ok h), fun h => divF_finite L _ _ r hx hy (liftF_ok h)⟩

/-- `**` (and `^` with a float operand): whatever math.Pow returns, an infinity, a NaN and a zero for a
    non-zero base are turned into errors — a returned value is finite -/
theorem power_value_finite (x y : Num F) (r : Num F) (h : power x y = .ok r) :
    ∃ v, r = .flt v ∧ Finite v := by
  unfold power at h
  simp only [] at h
  repeat' (first | split at h | simp only [] at h)
  all_goals first
    | (simp at h; done)
    | (injection h with h; subst h; exact ⟨_, rfl, by simp_all [Finite]⟩)

/-! ### eval's own errors -/

open PrologVerif (Term Args instErr typeErr)

/-- unbound ↦ instantiation_error; a non-evaluable atom or functor ↦ type_error(evaluable, Name/Arity),
    raised BEFORE the arguments are evaluated; arity > 2 likewise; pi is the only constant -/
theorem eval_errors (v : Nat) (a f : String) (t u w : Term) (rest : Args) :
    Eval.eval (F := F) (.var v) = .err instErr ∧
    (a ≠ "pi" → Eval.eval (F := F) (.atom a) = .err (Eval.notEvaluable a 0)) ∧
    (evalUnary (F := F) f = none → Eval.eval (F := F) (.app f (.cons t .nil)) = .err (Eval.notEvaluable f 1)) ∧
    (evalBinary (F := F) f = none →
      Eval.eval (F := F) (.app f (.cons t (.cons u .nil))) = .err (Eval.notEvaluable f 2)) ∧
    Eval.eval (F := F) (.app f (.cons t (.cons u (.cons w rest)))) = .err (Eval.notEvaluable f (rest.length + 3)) := by
  refine ⟨rfl, ?_, ?_, ?_, ?_⟩
  · intro h; simp [Eval.eval, h]
  · intro h; simp [Eval.eval, h]
  · intro h; simp [Eval.eval, h]
  · simp [Eval.eval, Args.length]

/-! ### the executable form of `^` used by the oracle -/

omit [FloatOps F] in
theorem pow_big_not_inRange (x : Int) (n : Nat) (hx : 2 ≤ x.natAbs) (hn : 64 ≤ n) : ¬ inRange (x ^ n) := by
  rw [inRange_iff]
  have h1 : (x ^ n).natAbs = x.natAbs ^ n := Int.natAbs_pow x n
  have h2 : 2 ^ 64 ≤ x.natAbs ^ n :=
    Nat.le_trans (Nat.pow_le_pow_right (by decide) hn) (Nat.pow_le_pow_left hx n)
  have h3 : (2 : Nat) ^ 64 = 18446744073709551616 := by decide
  omega

omit [FloatOps F] in
theorem powFast_eq (x y : Int) : powFast x y = pow x y := by
  unfold powFast
  split
  · rfl
  rename_i hy
  have hy0 : 0 ≤ y := by omega
  unfold pow
  rw [if_pos hy0]
  have hn : 64 ≤ y.toNat := by omega
  split
  · rename_i h; subst h
    rw [Int.zero_pow (by omega), checked_pos (by decide)]
  split
  · rename_i h; subst h
    rw [Int.one_pow, checked_pos (by decide)]
  split
  · rename_i h; subst h
    rw [neg_one_pow]
    by_cases hp : y % 2 = 0
    · rw [if_pos hp, if_pos (by omega), checked_pos (by decide)]
    · rw [if_neg hp, if_neg (by omega), checked_pos (by decide)]
  · rw [checked_neg (pow_big_not_inRange x _ (by omega) hn)]


end PrologVerif.ArithProofs
