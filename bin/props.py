"""Per-property configuration of bin/check (streams, sizes, trusted base). See DESIGN.md §6."""

COMMON_TRUSTED = [
    "Lean 4.33.0 kernel (thorough tier: re-checked with leanchecker); axioms allowed in property theorems: propext, Classical.choice, Quot.sound only (audited on every run by PrologVerif/Audit.lean); no sorry/admit/native_decide/bv_decide/own axioms (grep on every run)",
    "hand-written Lean model mirrors the Go code: CHECKED by the correspondence streams (differential testing, bounded by the generators; distributions are in this file), not proved",
    "/verif/extract (regenerated facts / translated definitions) and /verif/harness (in-process runner, canonicalisation: variables renamed by first occurrence, map-ordered output sorted, error context dropped)",
    "Go compiler/runtime and standard library behave as documented",
]

NOT_APPLICABLE = {}

PROPS = {
    "C18": dict(
        level_text="Proof: the operator-table state machine (Op/validateOp/CurrentOp and the operators methods) is modelled in Lean; for ALL histories of op/3 calls with arbitrary argument terms the ISO invariant (C18_inv), atomicity of failed updates (C18_atomic), the exact effect of successful updates (C18_update_exact: latest wins, 0 removes, other classes kept) and exactness of current_op/3 (C18_current_op_exact) are kernel-checked theorems, the default table being regenerated from bootstrap.pl. The model is tied to the Go code by the c18.hist correspondence stream (impl vs model, plus an independent executable ISO specification as oracle, plus reader/writer probes).",
        level_note="Trusted: Lean kernel; the hand-written model of Op/validateOp/CurrentOp (checked by differential runs, not proved); harness canonicalisation; reader/writer use of the table is only probed, not modelled. Pattern variables of current_op/3 assumed pairwise distinct.",
        technique="Lean 4 invariant proof by induction over op/3 histories + regenerated default table + model/implementation correspondence",
        lean_module="PrologVerif.Properties.C18",
        ns="PrologVerif.C18",
        streams=[dict(name="c18.hist", quick=3000, thorough=40000)],
        rule="histories of 1..8 operations over op/3 (valid and invalid priorities, specifiers, names, lists with invalid members, partial lists, special names , | [] {}), current_op/3 in every instantiation pattern, and a reader/writer probe; generated from one PRNG (VERIF_SEED); non-trivial = at least two op/3 calls in the history changed the table, or one changed it and another was rejected; distinct = distinct case text",
        trusted=[
            "modelled (hand-written, correspondence-checked): engine/builtin.go Op, validateOp, appendUniqNewAtom, CurrentOp; engine/parser.go operators.define/remove/definedInClass; ListIterator as used by Op",
            "regenerated from source on every run: the default operator table = the op/3 directives of bootstrap.pl read by the real parser (Generated/Bootstrap.lean); C18_default_valid is re-proved against it by kernel evaluation",
            "not modelled: the reader and writer themselves (only probed: 'a n b', 'n a', 'a n' parse / writeq(n(a,b)), writeq(n(a)) print according to the table); Go map iteration order (answers compared as sets)",
        ],
        modelled={"hand_modelled": ["Op", "validateOp", "appendUniqNewAtom", "CurrentOp", "operators.define", "operators.remove", "operators.definedInClass"],
                  "regenerated": ["bootstrap.pl op/3 directives"], "observed_only": ["Parser (probe)", "WriteCompound (probe)"]},
        assumptions=["pattern variables of current_op/3 calls are pairwise distinct (the model matches argument-wise)"],
    ),
    "C17": dict(
        level_text="Proof: engine/dcg.go (expandDCG, dcgBody, dcgCBody with the dcgConstr table, dcgNonTerminal, dcgTerminals, Phrase), expand of builtin.go and seqIterator/altIterator of iterator.go are modelled in Lean over abstract terms with an explicit fresh-variable supply. Kernel-checked for ALL terms: the model equals 'read the body, apply the reference translation of the ISO DCG draft' including every error (C17_model_refines_spec, C17_expand_refines_spec, C17_expand_total, C17_program_is_expansion); every successful translation is a correct threading of the two hidden arguments in the relational specification Threads, with pairwise distinct fresh chain variables and no other variables (C17_threading, C17_threading_vars, C17_nonconsuming, C17_pushback); expand_term/2 and phrase/3 use the same translation and the clause body instantiated by a call is exactly phrase/3's goal (C17_expand_vs_phrase); the compiler's seqIterator/altIterator yield the ISO conjuncts/disjuncts for any nesting, so a translated !//0 in a body sequence is a clause-level cut (C17_conjunction_flat, C17_alternatives, C17_cut_clause_level: the repair of D16). Semantic preservation — the answers (remainders, in order, pending cut) of a reference SLD evaluation with ISO cut semantics of the TRANSLATED body in the TRANSLATED grammar equal the list denotation, for every fuel — is proved for all grammars built from [], ground terminals, argument-free non-terminals (recursion allowed), ',', ';', '|', if-then(-else), \\+, !, {true/fail/!} and push-back on every ground input (C17_translation_sound_complete_partial, C17_model_translation_sound_complete_partial); the full statement (arguments, call//N, phrase//1, run-time bodies, generation mode) is kept open and is evaluated by the driver on every generated case. The meaning is checked on the real interpreter by c17.lang: every input list up to the bound, recognition, remainders, bindings and generation, against the executable denotation.",
        level_note="Trusted: Lean kernel; the hand-written model of dcg.go/iterator.go (checked by c17.expand, not proved); the specification files Spec/Grammar.lean, Spec/DcgSubst.lean, Spec/DcgSLD.lean; harness canonicalisation. The VM that runs the translated clauses is not modelled here (C01/C03): c17.lang observes it, and its one systematic deviation from the ISO semantics (cut local to nested ';'/'->') is the listed finding C17-K1.",
        technique="Lean 4: model = specification by functional induction over the translation; relational threading specification; substitution lemma; reference SLD vs list denotation by induction on fuel and body; differential testing of the real interpreter against the executable denotation on exhaustive small inputs",
        lean_module="PrologVerif.Properties.C17",
        ns="PrologVerif.C17",
        streams=[dict(name="c17.expand", quick=3000, thorough=30000),
                 dict(name="c17.lang", quick=700, thorough=2500, timeout=3000, j=8)],
        rule="c17.expand: generated terms (well-formed rules with every body construct at depth <= 4, push-back, strings, left-nested conjunctions; malformed bodies/heads/push-backs; non-rules) -> expand_term/2, expandDCG, dcgBody (what phrase/3 calls) and the compiler's split of the translated body, compared structurally up to variable renaming with the model and with the reference translation; non-trivial = a well-formed rule containing !, \\+, -> or push-back. c17.lang: generated terminating grammars (1-5 non-terminals, arguments, every construct at nesting <= 3, recursion guarded by consumption, push-back never longer than what the body consumes, call//N closures, phrase//1, run-time bodies, strings; loaded as text or by expand_term+assertz) x EVERY list of length <= 4 (thorough: every 8th case <= 6) over {x,y,z}: phrase/3 with all remainders, phrase/2, and generation mode for non-recursive grammars, answers in order with bindings; non-trivial = the grammar contains at least one of !, \\+, ->, push-back; distinct = distinct case text",
        trusted=[
            "modelled (hand-written, correspondence-checked by c17.expand): engine/dcg.go expandDCG, dcgBody, dcgCBody, dcgConstr, dcgNonTerminal, dcgTerminals, Phrase (goal construction); engine/builtin.go expand (no user term_expansion/2); engine/vm.go piArg; engine/iterator.go seqIterator, altIterator, ListIterator as used by dcgTerminals",
            "specification (read it): Spec/Grammar.lean (reader, Threads, reference translation, denotation), Spec/DcgSubst.lean (unification without occurs check), Spec/DcgSLD.lean (reference SLD evaluation)",
            "not modelled: the VM executing the translated clauses (compile, exec, Force), call/N, \\+, ->, ; as implemented by bootstrap.pl — observed through c17.lang against the denotation (ISO cut semantics) and against the denotation with the engine's cut barriers (model column)",
        ],
        modelled={"hand_modelled": ["expandDCG", "dcgBody", "dcgCBody", "dcgConstr", "dcgNonTerminal", "dcgTerminals", "Phrase (goal)", "expand", "piArg", "seqIterator", "altIterator"],
                  "regenerated": [], "observed_only": ["VM.exec", "Promise.Force", "Call/callN", "bootstrap.pl control constructs", "text loader"]},
        assumptions=["no user-defined term_expansion/2", "terms handed to the translation are finite (no cyclic bindings)",
                     "goals inside {}//1 in generated grammars are restricted to true, fail, !, =, \\=, ==, \\== and conjunctions (so that the denotation is executable)"],
    ),
}
